// extract: regenerates lean/Bxh/Gen/*.lean and facts.json from the current /repo tree.
//
//	extract <repo dir> <lean Gen dir> <facts.json>
//
// Every item carries its source anchor; an anchor that can no longer be found is reported in
// facts.json under "broken" (the check then treats the tie as broken for the properties using it).
package main

import (
	"encoding/json"
	"fmt"
	"go/ast"
	"go/constant"
	"go/token"
	"go/types"
	"os"
	"path/filepath"
	"sort"
	"strings"

	"golang.org/x/tools/go/packages"
)

type Facts struct {
	Items  map[string]interface{} `json:"items"`
	Broken []map[string]string    `json:"broken"`
}

var facts = Facts{Items: map[string]interface{}{}}

func broken(name, text string) {
	facts.Broken = append(facts.Broken, map[string]string{"name": name, "text": text})
}

func main() {
	if len(os.Args) != 4 {
		fmt.Fprintln(os.Stderr, "usage: extract <repo> <gen dir> <facts.json>")
		os.Exit(2)
	}
	repo, genDir, factsPath := os.Args[1], os.Args[2], os.Args[3]
	cfg := &packages.Config{
		Dir:        repo,
		Mode:       packages.NeedName | packages.NeedFiles | packages.NeedSyntax | packages.NeedTypes | packages.NeedTypesInfo | packages.NeedImports | packages.NeedDeps,
		BuildFlags: []string{"-mod=mod"},
	}
	pkgs, err := packages.Load(cfg, "./internal/executor/contracts", "./internal/executor", "./internal/ledger", "./pkg/vm/boltvm", "./pkg/proof")
	if err != nil {
		fmt.Fprintln(os.Stderr, "load:", err)
		os.Exit(1)
	}
	byPath := map[string]*packages.Package{}
	for _, p := range pkgs {
		byPath[p.PkgPath] = p
		for _, e := range p.Errors {
			fmt.Fprintln(os.Stderr, "pkg error:", e)
		}
	}
	os.MkdirAll(genDir, 0o755)
	contracts := byPath["github.com/meshplus/bitxhub/internal/executor/contracts"]
	if contracts == nil {
		broken("contracts-package", "package internal/executor/contracts not loaded")
	} else {
		extractTxFsm(contracts, genDir)
		extractGovPriority(contracts, genDir)
		extractCascade(contracts, genDir)
		extractSubmissionCascade(contracts, genDir)
		extractServiceRepause(contracts, genDir)
		extractChildCount(contracts, genDir)
		if exe := byPath["github.com/meshplus/bitxhub/internal/executor"]; exe != nil {
			extractContractMethods(exe, contracts, genDir)
			extractFailedEvents(exe, genDir)
			extractProofFanout(exe, genDir)
			extractIbtpContextHeight(exe, genDir)
		} else {
			broken("contractMethods", "package internal/executor not loaded")
		}
	}
	extractMapRanges(pkgs, genDir)
	extractGuards(pkgs, genDir)
	extractLifecycles(pkgs, genDir)
	extractReadyOrder(repo, genDir)
	extractJournalWindow(pkgs, genDir)
	sort.Slice(facts.Broken, func(i, j int) bool { return facts.Broken[i]["name"] < facts.Broken[j]["name"] })
	b, _ := json.MarshalIndent(facts, "", " ")
	if err := os.WriteFile(factsPath, b, 0o644); err != nil {
		fmt.Fprintln(os.Stderr, err)
		os.Exit(1)
	}
}

// ------------------------------------------------------------------------------------ helpers

func findFunc(p *packages.Package, recv, name string) *ast.FuncDecl {
	for _, f := range p.Syntax {
		for _, d := range f.Decls {
			fd, ok := d.(*ast.FuncDecl)
			if !ok || fd.Name.Name != name {
				continue
			}
			if recv == "" && fd.Recv == nil {
				return fd
			}
			if fd.Recv != nil && len(fd.Recv.List) == 1 {
				t := fd.Recv.List[0].Type
				if st, ok := t.(*ast.StarExpr); ok {
					t = st.X
				}
				if id, ok := t.(*ast.Ident); ok && id.Name == recv {
					return fd
				}
			}
		}
	}
	return nil
}

// strValue evaluates the string meaning of the expressions used in FSM tables:
// a constant string expression (incl. conversions), `<const>.String()` on a string-typed
// constant, or `pb.<Enum>_<NAME>.String()` on a protobuf enum constant (↦ NAME).
func strValue(p *packages.Package, e ast.Expr) (string, bool) {
	if tv, ok := p.TypesInfo.Types[e]; ok && tv.Value != nil && tv.Value.Kind() == constant.String {
		return constant.StringVal(tv.Value), true
	}
	if call, ok := e.(*ast.CallExpr); ok {
		if sel, ok := call.Fun.(*ast.SelectorExpr); ok && sel.Sel.Name == "String" && len(call.Args) == 0 {
			if tv, ok := p.TypesInfo.Types[sel.X]; ok && tv.Value != nil {
				if tv.Value.Kind() == constant.String {
					return constant.StringVal(tv.Value), true
				}
				// protobuf enum constant: NAME after the last '_' prefix of the type name
				var name string
				switch x := sel.X.(type) {
				case *ast.SelectorExpr:
					name = x.Sel.Name
				case *ast.Ident:
					name = x.Name
				}
				if named, ok := tv.Type.(*types.Named); ok {
					prefix := named.Obj().Name() + "_"
					if strings.HasPrefix(name, prefix) {
						return strings.TrimPrefix(name, prefix), true
					}
				}
			}
		}
		// string(x) conversion of a constant is handled by the first branch
	}
	return "", false
}

func strList(p *packages.Package, e ast.Expr) ([]string, bool) {
	cl, ok := e.(*ast.CompositeLit)
	if !ok {
		return nil, false
	}
	var out []string
	for _, el := range cl.Elts {
		s, ok := strValue(p, el)
		if !ok {
			return nil, false
		}
		out = append(out, s)
	}
	return out, true
}

type fsmEntry struct {
	Name string   `json:"name"`
	Src  []string `json:"src"`
	Dst  string   `json:"dst"`
}

// fsmEvents finds the first `fsm.Events{...}` literal inside fn and decodes it.
func fsmEvents(p *packages.Package, fn *ast.FuncDecl) ([]fsmEntry, bool) {
	var lit *ast.CompositeLit
	ast.Inspect(fn, func(n ast.Node) bool {
		if lit != nil {
			return false
		}
		cl, ok := n.(*ast.CompositeLit)
		if !ok {
			return true
		}
		if sel, ok := cl.Type.(*ast.SelectorExpr); ok && sel.Sel.Name == "Events" {
			lit = cl
			return false
		}
		return true
	})
	if lit == nil {
		return nil, false
	}
	var out []fsmEntry
	for _, el := range lit.Elts {
		cl, ok := el.(*ast.CompositeLit)
		if !ok {
			return nil, false
		}
		var ent fsmEntry
		got := 0
		for _, f := range cl.Elts {
			kv, ok := f.(*ast.KeyValueExpr)
			if !ok {
				return nil, false
			}
			key := kv.Key.(*ast.Ident).Name
			switch key {
			case "Name":
				s, ok := strValue(p, kv.Value)
				if !ok {
					return nil, false
				}
				ent.Name = s
				got++
			case "Dst":
				s, ok := strValue(p, kv.Value)
				if !ok {
					return nil, false
				}
				ent.Dst = s
				got++
			case "Src":
				l, ok := strList(p, kv.Value)
				if !ok {
					return nil, false
				}
				ent.Src = l
				got++
			}
		}
		if got != 3 {
			return nil, false
		}
		out = append(out, ent)
	}
	return out, true
}

func leanStr(s string) string { return fmt.Sprintf("%q", s) }

func leanStrList(l []string) string {
	q := make([]string, len(l))
	for i, s := range l {
		q[i] = leanStr(s)
	}
	return "[" + strings.Join(q, ", ") + "]"
}

func leanFsm(name string, es []fsmEntry) string {
	var b strings.Builder
	fmt.Fprintf(&b, "def %s : List (String × List String × String) := [\n", name)
	for i, e := range es {
		sep := ","
		if i == len(es)-1 {
			sep = ""
		}
		fmt.Fprintf(&b, "  (%s, %s, %s)%s\n", leanStr(e.Name), leanStrList(e.Src), leanStr(e.Dst), sep)
	}
	b.WriteString("]\n")
	return b.String()
}

func writeIfChanged(path, content string) {
	old, err := os.ReadFile(path)
	if err == nil && string(old) == content {
		return
	}
	os.WriteFile(path, []byte(content), 0o644)
}

// int-keyed map literal var (receipt2EventM / txStatus2EventM): key constant int, value string
func intStrMap(p *packages.Package, varName string) ([][2]string, bool) {
	for _, f := range p.Syntax {
		for _, d := range f.Decls {
			gd, ok := d.(*ast.GenDecl)
			if !ok || gd.Tok != token.VAR {
				continue
			}
			for _, sp := range gd.Specs {
				vs := sp.(*ast.ValueSpec)
				for i, n := range vs.Names {
					if n.Name != varName || i >= len(vs.Values) {
						continue
					}
					cl, ok := vs.Values[i].(*ast.CompositeLit)
					if !ok {
						return nil, false
					}
					var out [][2]string
					for _, el := range cl.Elts {
						kv, ok := el.(*ast.KeyValueExpr)
						if !ok {
							return nil, false
						}
						tv, ok := p.TypesInfo.Types[kv.Key]
						if !ok || tv.Value == nil {
							return nil, false
						}
						v, ok := strValue(p, kv.Value)
						if !ok {
							return nil, false
						}
						out = append(out, [2]string{tv.Value.ExactString(), v})
					}
					return out, true
				}
			}
		}
	}
	return nil, false
}

// ------------------------------------------------------------------------------------ tx FSM

func extractTxFsm(p *packages.Package, genDir string) {
	fn := findFunc(p, "TransactionManager", "setFSM")
	var es []fsmEntry
	ok := false
	if fn != nil {
		es, ok = fsmEvents(p, fn)
	}
	if !ok {
		broken("txFsm", "transaction_manager.go: TransactionManager.setFSM no longer contains a literal fsm.Events table")
		return
	}
	r2e, ok1 := intStrMap(p, "receipt2EventM")
	s2e, ok2 := intStrMap(p, "txStatus2EventM")
	if !ok1 {
		broken("receipt2Event", "transaction_manager.go: receipt2EventM is no longer a literal map")
	}
	if !ok2 {
		broken("txStatus2Event", "transaction_manager.go: txStatus2EventM is no longer a literal map")
	}
	facts.Items["txFsm"] = es
	facts.Items["receipt2Event"] = r2e
	facts.Items["txStatus2Event"] = s2e
	if !(ok1 && ok2) {
		return
	}
	var b strings.Builder
	b.WriteString("/- GENERATED by go/extract from internal/executor/contracts/transaction_manager.go (setFSM literal,\n   receipt2EventM, txStatus2EventM). Do not edit by hand. -/\nnamespace Bxh.Gen\n\n")
	b.WriteString("/-- (event name, source states, destination state) in source order -/\n")
	b.WriteString(leanFsm("txFsm", es))
	pairs := func(name, doc string, l [][2]string) {
		fmt.Fprintf(&b, "\n/-- %s -/\ndef %s : List (Nat × String) := [", doc, name)
		for i, kv := range l {
			if i > 0 {
				b.WriteString(", ")
			}
			fmt.Fprintf(&b, "(%s, %s)", kv[0], leanStr(kv[1]))
		}
		b.WriteString("]\n")
	}
	pairs("receipt2Event", "IBTP receipt type (numeric) ↦ event", r2e)
	pairs("txStatus2Event", "transaction status (numeric) carried by an inter-hub proof ↦ event", s2e)
	b.WriteString("\nend Bxh.Gen\n")
	writeIfChanged(filepath.Join(genDir, "TxFsm.lean"), b.String())
}
