package main

import (
	"fmt"
	"go/ast"
	"go/types"
	"sort"
	"strings"

	"golang.org/x/tools/go/packages"
)

// extractGuards: where block execution starts goroutines and where it contains panics.
//
//	goSites       - every `go` statement of the block-execution packages: {pkg, func, n, target, guarded}
//	                target  = "func" for a function literal, else the callee as written (`exec.persistData`)
//	                guarded = the goroutine's own body (the literal, or the callee when it is declared in the same package)
//	                          starts a deferred function that calls recover()
//	recoverGuards - every declared function that defers a recover() at the top level of its body: {pkg, func, first}
//	                first = the deferred recover is the FIRST statement of the body (nothing can panic before the guard stands)
//	                setsResult = the deferred function assigns to a NAMED RESULT of the enclosing function (a guard that sets a
//	                local lets the function return its zero results: a swallowed panic then looks like a success to the caller)
//
// A panic in a goroutine without a guard ends the process whatever its caller does, so the property theorems of C08 require
// every unguarded site to be a reviewed one, and the guards the review relies on to be in place and first.
type goSite struct {
	Pkg     string `json:"pkg"`
	Func    string `json:"func"`
	N       int    `json:"n"`
	Target  string `json:"target"`
	Guarded bool   `json:"guarded"`
}

type recoverGuard struct {
	Pkg        string `json:"pkg"`
	Func       string `json:"func"`
	First      bool   `json:"first"`
	SetsResult bool   `json:"setsResult"`
}

// deferredRecover: is `s` a `defer func() { ... recover() ... }()`?
func deferredRecover(s ast.Stmt) bool {
	d, ok := s.(*ast.DeferStmt)
	if !ok {
		return false
	}
	lit, ok := d.Call.Fun.(*ast.FuncLit)
	if !ok {
		return false
	}
	found := false
	ast.Inspect(lit.Body, func(n ast.Node) bool {
		if c, ok := n.(*ast.CallExpr); ok {
			if id, ok := c.Fun.(*ast.Ident); ok && id.Name == "recover" {
				found = true
			}
		}
		return true
	})
	return found
}

// bodyGuard: (has a top-level deferred recover, it is the first statement)
func bodyGuard(b *ast.BlockStmt) (bool, bool) {
	if b == nil {
		return false, false
	}
	for i, s := range b.List {
		if deferredRecover(s) {
			return true, i == 0
		}
	}
	return false, false
}

// guardSetsResult: does the first deferred recover of fd assign to one of fd's named results?
func guardSetsResult(p *packages.Package, fd *ast.FuncDecl) bool {
	results := map[types.Object]bool{}
	if fd.Type.Results != nil {
		for _, f := range fd.Type.Results.List {
			for _, n := range f.Names {
				if obj := p.TypesInfo.Defs[n]; obj != nil {
					results[obj] = true
				}
			}
		}
	}
	if len(results) == 0 || fd.Body == nil {
		return false
	}
	for _, s := range fd.Body.List {
		if !deferredRecover(s) {
			continue
		}
		lit := s.(*ast.DeferStmt).Call.Fun.(*ast.FuncLit)
		found := false
		ast.Inspect(lit.Body, func(n ast.Node) bool {
			if as, ok := n.(*ast.AssignStmt); ok {
				for _, lhs := range as.Lhs {
					if id, ok := lhs.(*ast.Ident); ok {
						if obj := p.TypesInfo.Uses[id]; obj != nil && results[obj] {
							found = true
						}
					}
				}
			}
			return true
		})
		return found
	}
	return false
}

func declName(fd *ast.FuncDecl) string {
	name := fd.Name.Name
	if fd.Recv != nil && len(fd.Recv.List) == 1 {
		t := fd.Recv.List[0].Type
		if st, ok := t.(*ast.StarExpr); ok {
			t = st.X
		}
		if id, ok := t.(*ast.Ident); ok {
			name = id.Name + "." + name
		}
	}
	return name
}

func extractGuards(pkgs []*packages.Package, genDir string) {
	var sites []goSite
	var guards []recoverGuard
	for _, p := range pkgs {
		short := p.PkgPath[strings.Index(p.PkgPath, "bitxhub/")+len("bitxhub/"):]
		if short == "internal/executor/contracts" {
			// contracts run inside BoltVM.Run / HandleIBTP; they start no goroutines (checked: a `go` statement there is reported)
		}
		// declared functions of this package by their types.Object, for `go x.f()` targets
		decls := map[types.Object]*ast.FuncDecl{}
		for _, f := range p.Syntax {
			for _, d := range f.Decls {
				if fd, ok := d.(*ast.FuncDecl); ok {
					if obj := p.TypesInfo.Defs[fd.Name]; obj != nil {
						decls[obj] = fd
					}
				}
			}
		}
		for _, f := range p.Syntax {
			fname := p.Fset.Position(f.Pos()).Filename
			if strings.HasSuffix(fname, "_test.go") || strings.Contains(fname, "zz_verif") {
				continue
			}
			for _, d := range f.Decls {
				fd, ok := d.(*ast.FuncDecl)
				if !ok || fd.Body == nil {
					continue
				}
				name := declName(fd)
				if has, first := bodyGuard(fd.Body); has {
					guards = append(guards, recoverGuard{Pkg: short, Func: name, First: first, SetsResult: guardSetsResult(p, fd)})
				}
				n := 0
				ast.Inspect(fd.Body, func(nd ast.Node) bool {
					gs, ok := nd.(*ast.GoStmt)
					if !ok {
						return true
					}
					site := goSite{Pkg: short, Func: name, N: n}
					n++
					switch fn := gs.Call.Fun.(type) {
					case *ast.FuncLit:
						site.Target = "func"
						site.Guarded, _ = bodyGuard(fn.Body)
					default:
						site.Target = types.ExprString(gs.Call.Fun)
						var obj types.Object
						switch x := gs.Call.Fun.(type) {
						case *ast.Ident:
							obj = p.TypesInfo.Uses[x]
						case *ast.SelectorExpr:
							obj = p.TypesInfo.Uses[x.Sel]
						}
						if callee, ok := decls[obj]; ok && obj != nil {
							site.Guarded, _ = bodyGuard(callee.Body)
						}
					}
					sites = append(sites, site)
					return true
				})
			}
		}
	}
	sort.Slice(sites, func(i, j int) bool {
		if sites[i].Pkg != sites[j].Pkg {
			return sites[i].Pkg < sites[j].Pkg
		}
		if sites[i].Func != sites[j].Func {
			return sites[i].Func < sites[j].Func
		}
		return sites[i].N < sites[j].N
	})
	sort.Slice(guards, func(i, j int) bool {
		if guards[i].Pkg != guards[j].Pkg {
			return guards[i].Pkg < guards[j].Pkg
		}
		return guards[i].Func < guards[j].Func
	})
	facts.Items["goSites"] = sites
	facts.Items["recoverGuards"] = guards
	var b strings.Builder
	b.WriteString("-- GENERATED by /verif/go/extract (guards.go): goroutines started and panics contained in the block-execution packages.\n")
	b.WriteString("-- Do not edit.  Regenerated on every run of ./check.\n")
	b.WriteString("namespace Bxh.Gen\n\nstructure GoSite where\n  pkg : String\n  func : String\n  n : Nat\n  target : String\n  guarded : Bool\nderiving Repr, DecidableEq\n\n")
	b.WriteString("structure RecoverGuard where\n  pkg : String\n  func : String\n  first : Bool\n  setsResult : Bool\nderiving Repr, DecidableEq\n\n")
	b.WriteString("def goSites : List GoSite := [\n")
	for i, s := range sites {
		sep := ","
		if i == len(sites)-1 {
			sep = ""
		}
		b.WriteString(fmt.Sprintf("  { pkg := %s, func := %s, n := %d, target := %s, guarded := %s }%s\n",
			leanStr(s.Pkg), leanStr(s.Func), s.N, leanStr(s.Target), leanBool(s.Guarded), sep))
	}
	b.WriteString("]\n\ndef recoverGuards : List RecoverGuard := [\n")
	for i, g := range guards {
		sep := ","
		if i == len(guards)-1 {
			sep = ""
		}
		b.WriteString(fmt.Sprintf("  { pkg := %s, func := %s, first := %s, setsResult := %s }%s\n", leanStr(g.Pkg), leanStr(g.Func), leanBool(g.First), leanBool(g.SetsResult), sep))
	}
	b.WriteString("]\n\nend Bxh.Gen\n")
	writeIfChanged(genDir+"/Guards.lean", b.String())
}
