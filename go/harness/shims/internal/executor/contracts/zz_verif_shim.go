//go:build verif

package contracts

import (
	"strings"

	"github.com/meshplus/bitxhub-core/boltvm"
	"github.com/meshplus/bitxhub-model/pb"
)

// verifStub answers the one cross-contract question checkPermission asks (role contract: is the
// regulator an available governance admin?); every other Stub method is absent on purpose.
type verifStub struct {
	boltvm.Stub
	admin string // "1": TRUE, "0": FALSE, "e": the cross invoke fails
}

func (s *verifStub) CrossInvoke(addr, method string, args ...*pb.Arg) *boltvm.Response {
	switch s.admin {
	case "1":
		return boltvm.Success([]byte(TRUE))
	case "0":
		return boltvm.Success([]byte(FALSE))
	}
	return boltvm.Error(boltvm.RoleNonexistentRoleCode, "role contract failed")
}

// VerifCheckPermission runs the package's checkPermission and classifies the result.
func VerifCheckPermission(perms []string, regulated, regulator string, specific []byte, admin string) string {
	err := checkPermission(&verifStub{admin: admin}, perms, regulated, regulator, specific)
	if err == nil {
		return "allowed"
	}
	if strings.Contains(err.Error(), "does not have the permission") {
		return "denied"
	}
	return "error"
}
