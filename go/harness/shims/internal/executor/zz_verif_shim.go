//go:build verif

package executor

import (
	"sort"
	"strings"

	"github.com/meshplus/bitxhub-core/agency"
	"github.com/meshplus/bitxhub/pkg/proof"

	"github.com/cbergoon/merkletree"
	"github.com/meshplus/bitxhub-kit/types"
	"github.com/meshplus/bitxhub-model/pb"
)

// VerifProcess runs signature verification and block execution synchronously in the
// calling goroutine (the same two functions the executor's listen loops call).
func (exec *BlockExecutor) VerifProcess(ev *pb.CommitEvent) {
	w := exec.verifySign(ev)
	exec.processExecuteEvent(w)
}

func (exec *BlockExecutor) VerifHeight() uint64 { return exec.currentHeight }

// VerifVerifyProofs runs the executor's proof-verification fan-out over the given transactions as the next block's (nothing is
// executed) and returns what it recorded: block position -> reason
func (exec *BlockExecutor) VerifVerifyProofs(txs []pb.Transaction) map[int]string {
	w := &BlockWrapper{
		block: &pb.Block{BlockHeader: &pb.BlockHeader{Number: exec.currentHeight + 1},
			Transactions: &pb.Transactions{Transactions: txs}},
		invalidTx: map[int]agency.InvalidReason{},
	}
	exec.verifyProofs(w)
	out := map[int]string{}
	for k, v := range w.invalidTx {
		out[k] = string(v)
	}
	return out
}

func (exec *BlockExecutor) VerifServiceCacheKeys() []string {
	var ks []string
	exec.serviceCache.Range(func(k, v interface{}) bool {
		ks = append(ks, k.(string))
		return true
	})
	sort.Strings(ks)
	return ks
}

// VerifCalcMerkleRoot runs the executor's calcMerkleRoot over the given hashes.
func VerifCalcMerkleRoot(hs []*types.Hash) (*types.Hash, error) {
	cs := make([]merkletree.Content, 0, len(hs))
	for _, h := range hs {
		cs = append(cs, h)
	}
	return calcMerkleRoot(cs)
}

// VerifContracts returns the registry of built-in contracts exactly as the executor builds it.
func (exec *BlockExecutor) VerifContracts() map[string]agency.Contract { return exec.registerBoltContracts() }

// verifPlainFalse wraps the real proof pool: a proof whose bytes start with "plain-false" gets the verdict a wasm rule
// returning 0 produces in VerifyPool.CheckProof (ok=false, err=nil; bitxhub-core validator/wasm_validator.go:57,
// pkg/proof/proof_pool.go:71-73); every other transaction goes to the real pool.
type verifPlainFalse struct{ proof.Verify }

func (v verifPlainFalse) CheckProof(tx pb.Transaction) (bool, uint64, error) {
	if tx.IsIBTP() && strings.HasPrefix(string(tx.GetExtra()), "plain-false") {
		return false, 0, nil
	}
	return v.Verify.CheckProof(tx)
}

// VerifWrapProofVerdict installs the wrapper above.
func (exec *BlockExecutor) VerifWrapProofVerdict() { exec.ibtpVerify = verifPlainFalse{exec.ibtpVerify} }
