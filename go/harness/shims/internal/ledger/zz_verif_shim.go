//go:build verif

package ledger

import (
	"fmt"

	lru "github.com/hashicorp/golang-lru"
	"github.com/meshplus/bitxhub-kit/storage/blockfile"
	"github.com/meshplus/bitxhub-kit/types"
	"github.com/meshplus/bitxhub-model/pb"
	ethledger "github.com/meshplus/eth-kit/ledger"
)

// VerifEvict drops one entry of the account cache (the eviction oracle of the model:
// golang-lru may drop any entry at any time).
func VerifEvict(ac *AccountCache, kind string, addr *types.Address) {
	switch kind {
	case "inner":
		ac.innerAccountCache.Remove(addr.String())
	case "state":
		ac.stateCache.Remove(addr.String())
	case "code":
		ac.codeCache.Remove(addr.String())
	}
}

// VerifEvictStateKey drops one key of the per-account second-layer state cache.
func VerifEvictStateKey(ac *AccountCache, addr *types.Address, key string) {
	if v, ok := ac.stateCache.Get(addr.String()); ok {
		v.(*lru.Cache).Remove(key)
	}
}

func VerifJournalRange(l *SimpleLedger) (uint64, uint64) {
	l.journalMutex.RLock()
	defer l.journalMutex.RUnlock()
	return l.minJnlHeight, l.maxJnlHeight
}

func VerifPrevRoot(l *SimpleLedger) *types.Hash { return l.prevJnlHash }

// VerifReceiptsAt: the receipts stored for a height, in block order (GetReceipt finds a receipt through the transaction-hash index,
// which names one position per hash: a block that carries the same transaction twice needs the list itself)
func VerifReceiptsAt(cl ethledger.ChainLedger, h uint64) ([]*pb.Receipt, error) {
	l, ok := cl.(*ChainLedgerImpl)
	if !ok {
		return nil, fmt.Errorf("not a ChainLedgerImpl")
	}
	rsBytes, err := l.bf.Get(blockfile.BlockFileReceiptTable, h)
	if err != nil {
		return nil, err
	}
	rs := &pb.Receipts{}
	if err := rs.Unmarshal(rsBytes); err != nil {
		return nil, err
	}
	return rs.Receipts, nil
}
