//go:build verif

package ledger

import (
	lru "github.com/hashicorp/golang-lru"
	"github.com/meshplus/bitxhub-kit/types"
)

// VerifEvict drops one entry of the account cache (the eviction oracle of the model:
// golang-lru may drop any entry at any time).
func VerifEvict(ac *AccountCache, kind string, addr *types.Address) {
	switch kind {
	case "inner":
		ac.innerAccountCache.Remove(addr.String())
	case "state":
		ac.stateCache.Remove(addr.String())
	case "code":
		ac.codeCache.Remove(addr.String())
	}
}

// VerifEvictStateKey drops one key of the per-account second-layer state cache.
func VerifEvictStateKey(ac *AccountCache, addr *types.Address, key string) {
	if v, ok := ac.stateCache.Get(addr.String()); ok {
		v.(*lru.Cache).Remove(key)
	}
}

func VerifJournalRange(l *SimpleLedger) (uint64, uint64) {
	l.journalMutex.RLock()
	defer l.journalMutex.RUnlock()
	return l.minJnlHeight, l.maxJnlHeight
}

func VerifPrevRoot(l *SimpleLedger) *types.Hash { return l.prevJnlHash }
