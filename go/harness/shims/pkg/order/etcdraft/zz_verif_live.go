//go:build verif

package etcdraft

// A real Node (NewNode + Start: the goroutine of listenRaftMsg, a real raft instance, real WAL) run as replica 2 of three behind a
// peer manager that records what the replica hands to the network.  A scripted leader replicates one batch to it and commits it.
// Observed: was the acknowledgement of the batch's log index handed to the network while the replica's log storage already held
// that index?  The log storage is slowed down so that the answer does not depend on the scheduler.

import (
	"fmt"
	"io/ioutil"
	"path/filepath"
	"sync"
	"time"

	"github.com/coreos/etcd/raft/raftpb"
	"github.com/libp2p/go-libp2p-core/peer"
	"github.com/meshplus/bitxhub-core/order"
	orderPeerMgr "github.com/meshplus/bitxhub-core/peer-mgr"
	"github.com/meshplus/bitxhub-kit/types"
	"github.com/meshplus/bitxhub-model/pb"
	raftproto "github.com/meshplus/bitxhub/pkg/order/etcdraft/proto"
	"github.com/sirupsen/logrus"
)

const verifOrderToml = `[timed_gen_block]
enable = false
block_timeout = "2s"

[raft]
batch_timeout               = "0.3s"
tick_timeout                = "0.1s"
election_tick               = 10
heartbeat_tick              = 1
max_size_per_msg            = 1048576
max_inflight_msgs           = 500
check_quorum                = true
pre_vote                    = true
disable_proposal_forwarding = true

    [raft.mempool]
        batch_size          = 200
        pool_size           = 50000
        tx_slice_size       = 10
        tx_slice_timeout    = "0.1s"
`

type verifPeerMgr struct {
	orderPeerMgr.OrderPeerManager
	onSend func(to uint64, m raftpb.Message)
}

func (p *verifPeerMgr) AsyncSend(id orderPeerMgr.KeyType, msg *pb.Message) error {
	rm := &raftproto.RaftMessage{}
	if err := rm.Unmarshal(msg.Data); err != nil {
		return err
	}
	if rm.Type != raftproto.RaftMessage_CONSENSUS {
		return nil
	}
	m := raftpb.Message{}
	if err := m.Unmarshal(rm.Data); err != nil {
		return err
	}
	p.onSend(id.(uint64), m)
	return nil
}
func (p *verifPeerMgr) Send(orderPeerMgr.KeyType, *pb.Message) (*pb.Message, error) {
	return nil, fmt.Errorf("not connected")
}
func (p *verifPeerMgr) Broadcast(*pb.Message) error { return nil }
func (p *verifPeerMgr) CountConnectedPeers() uint64 { return 2 }
func (p *verifPeerMgr) OtherPeers() map[uint64]*peer.AddrInfo {
	return map[uint64]*peer.AddrInfo{1: {}, 3: {}}
}
func (p *verifPeerMgr) OrderPeers() map[uint64]*pb.VpInfo { return map[uint64]*pb.VpInfo{} }

type verifSlowDisk struct {
	MemoryStorage
	delay time.Duration
}

func (s *verifSlowDisk) Append(ents []raftpb.Entry) error {
	if len(ents) > 0 {
		time.Sleep(s.delay)
	}
	return s.MemoryStorage.Append(ents)
}

// VerifLive is what the scripted run observed
type VerifLive struct {
	Acked     uint64 // log index of the batch relative to the bootstrap entries (1 = the first entry after them), 0 = never acknowledged
	Early     bool   // the acknowledgement left the node while its log storage did not hold the index yet
	Delivered uint64 // height of the block delivered after the leader's commit, 0 = none
}

func verifWait(d time.Duration, f func() bool) bool {
	end := time.Now().Add(d)
	for time.Now().Before(end) {
		if f() {
			return true
		}
		time.Sleep(10 * time.Millisecond)
	}
	return f()
}

func VerifLiveFollower(repoRoot string, delay time.Duration, logger logrus.FieldLogger) (res VerifLive, err error) {
	restart.Store(false)
	if err = ioutil.WriteFile(filepath.Join(repoRoot, "order.toml"), []byte(verifOrderToml), 0644); err != nil {
		return
	}
	nodes := make(map[uint64]*pb.VpInfo)
	for id := uint64(1); id <= 3; id++ {
		nodes[id] = &pb.VpInfo{Id: id, Account: types.NewAddressByStr(fmt.Sprintf("%040d", id)).String()}
	}
	var (
		mu    sync.Mutex
		node  *Node
		acked = map[uint64]bool{}
		early = map[uint64]bool{}
	)
	pm := &verifPeerMgr{}
	pm.onSend = func(to uint64, m raftpb.Message) {
		if m.Type != raftpb.MsgAppResp || m.Reject {
			return
		}
		held, _ := node.raftStorage.ram.LastIndex()
		mu.Lock()
		defer mu.Unlock()
		acked[m.Index] = true
		if held < m.Index {
			early[m.Index] = true
		}
	}
	o, err := NewNode(
		order.WithRepoRoot(repoRoot),
		order.WithID(2),
		order.WithNodes(nodes),
		order.WithPeerManager(pm),
		order.WithStoragePath(filepath.Join(repoRoot, "storage")),
		order.WithLogger(logger),
		order.WithApplied(1),
		order.WithGetAccountNonceFunc(func(address *types.Address) uint64 { return 0 }),
	)
	if err != nil {
		return
	}
	node = o.(*Node)
	node.raftStorage.ram = &verifSlowDisk{MemoryStorage: node.raftStorage.ram, delay: delay}
	if err = node.Start(); err != nil {
		return
	}
	defer node.Stop()
	var last uint64
	if !verifWait(5*time.Second, func() bool { last, _ = node.raftStorage.ram.LastIndex(); return last >= 3 }) {
		err = fmt.Errorf("bootstrap entries not stored")
		return
	}
	lastTerm, err := node.raftStorage.ram.Term(last)
	if err != nil {
		return
	}
	tx := &pb.BxhTransaction{
		From:      types.NewAddressByStr("0x1000000000000000000000000000000000000001"),
		To:        types.NewAddressByStr("0x2000000000000000000000000000000000000002"),
		Timestamp: time.Now().UnixNano(),
	}
	tx.TransactionHash = tx.Hash()
	batch := &raftproto.RequestBatch{
		TxList:    &pb.Transactions{Transactions: []pb.Transaction{tx}},
		Height:    2,
		Timestamp: time.Now().UnixNano(),
	}
	data, err := batch.Marshal()
	if err != nil {
		return
	}
	step := func(m raftpb.Message) error {
		md, e := m.Marshal()
		if e != nil {
			return e
		}
		rm := &raftproto.RaftMessage{Type: raftproto.RaftMessage_CONSENSUS, FromId: m.From, Data: md}
		rd, e := rm.Marshal()
		if e != nil {
			return e
		}
		return node.Step(rd)
	}
	idx := last + 1
	if err = step(raftpb.Message{Type: raftpb.MsgApp, From: 1, To: 2, Term: 5, LogTerm: lastTerm, Index: last, Commit: last,
		Entries: []raftpb.Entry{{Type: raftpb.EntryNormal, Term: 5, Index: idx, Data: data}}}); err != nil {
		return
	}
	if verifWait(5*time.Second, func() bool { mu.Lock(); defer mu.Unlock(); return acked[idx] }) {
		res.Acked = idx - last
	}
	// the acknowledgement may have left early; let the (slow) store complete before the commit is announced
	verifWait(5*time.Second, func() bool { h, _ := node.raftStorage.ram.LastIndex(); return h >= idx })
	if err = step(raftpb.Message{Type: raftpb.MsgApp, From: 1, To: 2, Term: 5, LogTerm: 5, Index: idx, Commit: idx}); err != nil {
		return
	}
	select {
	case ev := <-node.Commit():
		if ev != nil && ev.Block != nil {
			res.Delivered = ev.Block.BlockHeader.Number
		}
	case <-time.After(5 * time.Second):
	}
	mu.Lock()
	res.Early = early[idx]
	mu.Unlock()
	return res, nil
}
