//go:build verif

package etcdraft

import (
	"path/filepath"
	"sync"

	"github.com/coreos/etcd/raft"
	"github.com/coreos/etcd/raft/raftpb"
	"github.com/meshplus/bitxhub-kit/types"
	"github.com/meshplus/bitxhub-model/pb"
	"github.com/meshplus/bitxhub/pkg/order/mempool"
	raftproto "github.com/meshplus/bitxhub/pkg/order/etcdraft/proto"
	"github.com/sirupsen/logrus"
)

// VerifNode is a Node assembled without a raft instance: real RaftStorage (WAL, snapshots,
// applied-index db) on `dir`, real mempool, and the fields Start()/run() would set.
type VerifNode struct {
	N *Node
	// the raft hard state as far as this replica decides it (term it is in, candidate it voted for): read from the durable
	// storage when the node is built, as raft does on a restart
	Term, Vote uint64
}

func VerifNewNode(dir string, lastExec uint64, snapCount uint64, logger logrus.FieldLogger) (*VerifNode, error) {
	rs, db, err := CreateStorage(logger, filepath.Join(dir, "wal"), filepath.Join(dir, "snap"), filepath.Join(dir, "state"), raft.NewMemoryStorage())
	if err != nil {
		return nil, err
	}
	mp := mempool.NewMemPool(&mempool.Config{ID: 1, ChainHeight: lastExec, Logger: logger,
		GetAccountNonce: func(*types.Address) uint64 { return 0 }})
	n := &Node{
		id:          1,
		leader:      2, // a follower: publishEntries then also updates the pool's batch sequence number
		lastExec:    lastExec,
		commitC:     make(chan *pb.CommitEvent, 1024),
		snapCount:   snapCount,
		logger:      logger,
		storage:     db,
		raftStorage: rs,
		mempool:     mp,
		readyPool:   &sync.Pool{New: func() interface{} { return new(raftproto.RequestBatch) }},
		stateC:      make(chan *mempool.ChainState),
		haltC:       make(chan struct{}),
	}
	n.raftStorage.SnapshotCatchUpEntries = snapCount
	// Start(): the applied index recorded for the last executed block
	n.blockAppliedIndex.Store(n.lastExec, n.loadAppliedIndex())
	// run(): applied and snapshot index from the snapshot in storage
	snap, err := n.raftStorage.ram.Snapshot()
	if err != nil {
		return nil, err
	}
	n.confState = snap.Metadata.ConfState
	n.snapshotIndex = snap.Metadata.Index
	n.appliedIndex = snap.Metadata.Index
	hs, _, err := n.raftStorage.ram.InitialState()
	if err != nil {
		return nil, err
	}
	v := &VerifNode{N: n, Term: hs.Term, Vote: hs.Vote}
	if v.Term == 0 {
		v.Term = 1
	}
	return v, nil
}

// StoreHardState is a Ready that carries neither entries nor a snapshot: the replica moved to a (higher) term and / or
// granted its vote, and the commit index may have moved
func (v *VerifNode) StoreHardState(term, vote, commit uint64) error {
	v.Term, v.Vote = term, vote
	return v.N.raftStorage.Store(nil, raftpb.HardState{Term: term, Vote: vote, Commit: commit}, raftpb.Snapshot{})
}

// HardState is what the storage hands to raft when a node starts from it
func (v *VerifNode) HardState() (term, vote, commit uint64) {
	hs, _, err := v.N.raftStorage.ram.InitialState()
	if err != nil {
		return 0, 0, 0
	}
	return hs.Term, hs.Vote, hs.Commit
}

func (v *VerifNode) Close() {
	v.N.raftStorage.Close()
	v.N.storage.Close()
}

// Ready stores the entries (as the Ready handler does) and runs entriesToApply + publishEntries +
// maybeTriggerSnapshot; returns the heights minted into commitC by this call.
func (v *VerifNode) Ready(ents []raftpb.Entry, store bool) []uint64 {
	n := v.N
	if store && len(ents) > 0 {
		hs := raftpb.HardState{Term: v.Term, Vote: v.Vote, Commit: ents[len(ents)-1].Index}
		if err := n.raftStorage.Store(ents, hs, raftpb.Snapshot{}); err != nil {
			panic(err)
		}
	}
	before := len(n.commitC)
	n.publishEntries(n.entriesToApply(ents))
	var minted []uint64
	k := len(n.commitC) - before
	// peek: drain and refill to read heights without losing them
	var evs []*pb.CommitEvent
	for len(n.commitC) > 0 {
		evs = append(evs, <-n.commitC)
	}
	for i, e := range evs {
		if i >= len(evs)-k && e != nil {
			minted = append(minted, e.Block.BlockHeader.Number)
		}
		n.commitC <- e
	}
	return minted
}

func (v *VerifNode) Snapshot() uint64 {
	v.N.maybeTriggerSnapshot()
	return v.N.snapshotIndex
}

// Execute consumes one block from commitC (what the executor does); 0 = nothing queued
func (v *VerifNode) Execute() uint64 {
	select {
	case e := <-v.N.commitC:
		if e == nil {
			return 0
		}
		return e.Block.BlockHeader.Number
	default:
		return 0
	}
}

func (v *VerifNode) Report(h uint64) uint64 {
	v.N.reportState(&mempool.ChainState{Height: h})
	return v.N.loadAppliedIndex()
}

func (v *VerifNode) State() (lastExec, applied, snap, persisted uint64, queued int) {
	n := v.N
	return n.lastExec, n.appliedIndex, n.snapshotIndex, n.loadAppliedIndex(), len(n.commitC)
}

// Redeliver returns the committed entries raft would hand over again after a restart: everything
// in storage after the snapshot index.
func (v *VerifNode) Redeliver() []raftpb.Entry {
	ram := v.N.raftStorage.ram
	first, _ := ram.FirstIndex()
	last, _ := ram.LastIndex()
	if last < first {
		return nil
	}
	ents, err := ram.Entries(first, last+1, 1<<30)
	if err != nil {
		return nil
	}
	return ents
}

// verifSyncer hands over the blocks begin..end in order, as the state syncer does after fetching them from the peers
type verifSyncer struct{}

func (verifSyncer) SyncCFTBlocks(begin, end uint64, blockCh chan *pb.Block) error {
	for h := begin; h <= end; h++ {
		blockCh <- &pb.Block{BlockHeader: &pb.BlockHeader{Number: h}, Transactions: &pb.Transactions{}}
	}
	blockCh <- nil
	return nil
}

func (verifSyncer) SyncBFTBlocks(begin, end uint64, metaHash *types.Hash, blockCh chan *pb.Block) error {
	return nil
}

// InstallSnapshot: raft hands the follower a snapshot (index idx, chain height `height`), as in the Ready handler:
// the snapshot is stored and recoverFromSnapshot catches up through the syncer; `ledger` is what the executor has
// persisted (getChainMetaFunc).  Returns the heights minted into commitC by this call.
func (v *VerifNode) InstallSnapshot(idx, height, ledger uint64) ([]uint64, error) {
	n := v.N
	meta := &pb.ChainMeta{Height: height, BlockHash: &types.Hash{}}
	data, err := meta.Marshal()
	if err != nil {
		return nil, err
	}
	snap := raftpb.Snapshot{Data: data, Metadata: raftpb.SnapshotMetadata{Index: idx, Term: 1, ConfState: n.confState}}
	if err := n.raftStorage.Store(nil, raftpb.HardState{Term: v.Term, Vote: v.Vote, Commit: idx}, snap); err != nil {
		return nil, err
	}
	n.getChainMetaFunc = func() *pb.ChainMeta { return &pb.ChainMeta{Height: ledger, BlockHash: &types.Hash{}} }
	n.syncer = verifSyncer{}
	before := len(n.commitC)
	n.recoverFromSnapshot()
	var minted []uint64
	k := len(n.commitC) - before
	var evs []*pb.CommitEvent
	for len(n.commitC) > 0 {
		evs = append(evs, <-n.commitC)
	}
	for i, e := range evs {
		if i >= len(evs)-k && e != nil {
			minted = append(minted, e.Block.BlockHeader.Number)
		}
		n.commitC <- e
	}
	return minted, nil
}

func VerifEntry(idx uint64, height uint64, empty bool) raftpb.Entry {
	if empty {
		return raftpb.Entry{Term: 1, Index: idx, Type: raftpb.EntryNormal}
	}
	b := &raftproto.RequestBatch{Height: height, TxList: &pb.Transactions{}}
	data, _ := b.Marshal()
	return raftpb.Entry{Term: 1, Index: idx, Type: raftpb.EntryNormal, Data: data}
}
