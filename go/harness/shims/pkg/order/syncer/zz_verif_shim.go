//go:build verif

package syncer

import "github.com/sirupsen/logrus"

// VerifCalcRange runs the real calcRangeHeight of a StateSyncer built by New.
func VerifCalcRange(begin, end, fetch uint64) ([][2]uint64, error) {
	s, err := New(fetch, nil, 1, nil, logrus.New())
	if err != nil {
		return nil, err
	}
	rs, err := s.calcRangeHeight(begin, end)
	if err != nil {
		return nil, err
	}
	out := make([][2]uint64, len(rs))
	for i, r := range rs {
		out[i] = [2]uint64{r.begin, r.end}
	}
	return out, nil
}
