//go:build verif

package mempool

import "sort"

// VerifSizes exposes the sizes of the internal indices of a pool created by NewMemPool.
func VerifSizes(mp MemPool) (prio, park, batched, hashes int, nonBatch uint64) {
	m := mp.(*mempoolImpl)
	return m.txStore.priorityIndex.size(), m.txStore.parkingLotIndex.size(), len(m.txStore.batchedTxs), len(m.txStore.txHashMap), m.txStore.priorityNonBatchSize
}

// VerifArrivals returns the arrival timestamps (ns) recorded for the eviction rule, sorted.
func VerifArrivals(mp MemPool) []int64 {
	m := mp.(*mempoolImpl)
	var ts []int64
	for _, t := range m.txStore.removeTimeoutIndex.items {
		ts = append(ts, t)
	}
	sort.Slice(ts, func(i, j int) bool { return ts[i] < ts[j] })
	return ts
}
