//go:build verif

package mempool

import (
	"sort"

	"github.com/google/btree"
	"github.com/meshplus/bitxhub-kit/types"
)

// VerifSizes exposes the sizes of the internal indices of a pool created by NewMemPool.
func VerifSizes(mp MemPool) (prio, park, batched, hashes int, nonBatch uint64) {
	m := mp.(*mempoolImpl)
	return m.txStore.priorityIndex.size(), m.txStore.parkingLotIndex.size(), len(m.txStore.batchedTxs), len(m.txStore.txHashMap), m.txStore.priorityNonBatchSize
}

// VerifArrivals returns the arrival timestamps (ns) recorded for the eviction rule, sorted.
func VerifArrivals(mp MemPool) []int64 {
	m := mp.(*mempoolImpl)
	var ts []int64
	for _, t := range m.txStore.removeTimeoutIndex.items {
		ts = append(ts, t)
	}
	sort.Slice(ts, func(i, j int) bool { return ts[i] < ts[j] })
	return ts
}

// VerifReadyNeverBatched picks what a block of ANOTHER leader can realistically contain from this pool's point of view:
// the first (in priority order) ready transaction that is not batched here, whose account has nothing batched and
// uncommitted here and whose nonce is the account's committed nonce, followed by up to j-1 consecutive ready successors.
func VerifReadyNeverBatched(mp MemPool, j int) []*types.Hash {
	m := mp.(*mempoolImpl)
	busy := map[string]bool{}
	for k := range m.txStore.batchedTxs {
		busy[k.account] = true
	}
	commitOf := func(a string) uint64 {
		if n, ok := m.txStore.nonceCache.commitNonces[a]; ok {
			return n
		}
		return m.txStore.nonceCache.getAccountNonce(types.NewAddressByStr(a))
	}
	var acct string
	var start uint64
	found := false
	m.txStore.priorityIndex.data.Ascend(func(it btree.Item) bool {
		k := it.(*orderedTimeoutKey)
		if busy[k.account] || k.nonce != commitOf(k.account) {
			return true
		}
		acct, start, found = k.account, k.nonce, true
		return false
	})
	if !found {
		return nil
	}
	var out []*types.Hash
	list := m.txStore.allTxs[acct]
	for n := start; n < start+uint64(j) && list != nil; n++ {
		item, ok := list.items[n]
		if !ok || !m.txStore.priorityIndex.data.Has(makeTimeoutKey(acct, item.tx)) {
			break
		}
		out = append(out, item.tx.GetHash())
	}
	return out
}
