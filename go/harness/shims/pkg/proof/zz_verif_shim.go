//go:build verif

package proof

import (
	appchainMgr "github.com/meshplus/bitxhub-core/appchain-mgr"
	"github.com/meshplus/bitxhub-model/pb"
	"github.com/sirupsen/logrus"
)

// VerifMultiSign runs VerifyPool.verifyMultiSign for a relay chain whose trust root is the given bytes.
func VerifMultiSign(logger logrus.FieldLogger, trustRoot []byte, ibtp *pb.IBTP, proof []byte) (bool, error) {
	pl := &VerifyPool{logger: logger, bitxhubID: "1356"}
	ok, _, err := pl.verifyMultiSign(&appchainMgr.Appchain{ID: "1357", TrustRoot: trustRoot}, ibtp, proof)
	return ok, err
}
