//go:build verif

// bxhdrive: line-protocol harness that drives the real bitxhub code in-process.
// Injected into the bitxhub module with `go build -overlay` (nothing is committed in /repo).
package main

import (
	"runtime/debug"
	"bufio"
	"fmt"
	"os"
	"strings"
)

type engine interface {
	// step executes one op line on the real code and returns the canonical observation
	step(ws []string) string
	close()
}

var engines = map[string]func() engine{}

func main() {
	if len(os.Args) < 2 {
		fmt.Fprintln(os.Stderr, "usage: bxhdrive <engine>")
		os.Exit(2)
	}
	mk, ok := engines[os.Args[1]]
	if !ok {
		fmt.Fprintln(os.Stderr, "unknown engine", os.Args[1])
		os.Exit(2)
	}
	e := mk()
	defer e.close()
	in := bufio.NewReaderSize(os.Stdin, 1<<20)
	out := bufio.NewWriterSize(os.Stdout, 1<<16)
	defer out.Flush()
	for {
		line, err := in.ReadString('\n')
		line = strings.TrimRight(line, "\r\n")
		if line != "" {
			ws := strings.Fields(line)
			if len(ws) > 0 {
				fmt.Fprintln(out, safeStep(e, ws))
				out.Flush()
			}
		}
		if err != nil {
			break
		}
	}
}

func safeStep(e engine, ws []string) (res string) {
	done := false
	defer func() {
		// the repository's go.mod says go 1.14: panic(nil) is legal there and recover() returns nil for it, so the
		// value alone does not tell whether the step panicked
		if r := recover(); r != nil || !done {
			res = "PANIC " + panicClass(fmt.Sprint(r))
			if os.Getenv("VERIF_STACK") != "" {
				fmt.Fprintln(os.Stderr, string(debug.Stack()))
			}
		}
	}()
	res = e.step(ws)
	done = true
	return res
}

func panicClass(s string) string {
	if strings.Contains(s, "cannod be reverted") {
		return "revision"
	}
	s = strings.ReplaceAll(s, "\n", " ")
	if len(s) > 120 {
		s = s[:120]
	}
	return strings.ReplaceAll(s, " ", "_")
}
