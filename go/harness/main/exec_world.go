//go:build verif

package main

import (
	"crypto/sha256"
	"fmt"
	"io/ioutil"
	"math/big"
	"os"
	"os/exec"
	"path/filepath"
	"strings"
	"time"

	"github.com/meshplus/bitxhub-kit/crypto"
	"github.com/meshplus/bitxhub-kit/crypto/asym/ecdsa"
	"github.com/meshplus/bitxhub-kit/storage"
	"github.com/meshplus/bitxhub-kit/storage/blockfile"
	"github.com/meshplus/bitxhub-kit/types"
	"github.com/meshplus/bitxhub-model/pb"
	"github.com/meshplus/bitxhub/internal/executor"
	"github.com/meshplus/bitxhub/internal/executor/oracle/appchain"
	"github.com/meshplus/bitxhub/internal/ledger"
	"github.com/meshplus/bitxhub/internal/ledger/genesis"
	"github.com/meshplus/bitxhub/internal/repo"
	"github.com/sirupsen/logrus"
)

const bxhID = 1356

var quietLogger = func() *logrus.Logger {
	l := logrus.New()
	l.SetOutput(ioutil.Discard)
	l.SetLevel(logrus.PanicLevel)
	return l
}()

type account struct {
	name string
	priv crypto.PrivateKey
	addr *types.Address
}

var accounts = map[string]*account{}
var addrNames = map[string]string{}

func acct(name string) *account {
	if a, ok := accounts[name]; ok {
		return a
	}
	h := sha256.Sum256([]byte("verif-key-" + name))
	priv, err := ecdsa.UnmarshalPrivateKey(h[:], crypto.Secp256k1)
	if err != nil {
		panic(err)
	}
	addr, err := priv.PublicKey().Address()
	if err != nil {
		panic(err)
	}
	a := &account{name: name, priv: priv, addr: addr}
	accounts[name] = a
	addrNames[strings.ToLower(addr.String())] = name
	return a
}

var adminNames = []string{"adm0", "adm1", "adm2", "adm3"}

func mkConfig(audit bool, proofType string) *repo.Config {
	cfg, _ := repo.DefaultConfig()
	cfg.Executor.Type = "serial"
	cfg.Executor.EnableAudit = audit
	cfg.Executor.ProofType = proofType
	cfg.Ledger.Type = "simple"
	cfg.Genesis.ChainID = bxhID
	cfg.Genesis.Balance = "1000000000000000000000000"
	cfg.Genesis.Admins = nil
	// adm0 is the super administrator (weight 2), adm1..adm3 are ordinary governance admins (weight 1)
	for i, n := range adminNames {
		w := uint64(repo.NormalAdminWeight)
		if i == 0 {
			w = repo.SuperAdminWeight
		}
		cfg.Genesis.Admins = append(cfg.Genesis.Admins, &repo.Admin{Address: acct(n).addr.String(), Weight: w})
	}
	return cfg
}

type node struct {
	dir     string
	cfg     *repo.Config
	rep     *repo.Repo
	chainDB storage.Storage
	stateDB storage.Storage
	bf      *blockfile.BlockFile
	ldg     *ledger.Ledger
	exec    *executor.BlockExecutor
	viewEx  *executor.BlockExecutor
	viewLdg *ledger.Ledger
	price   int64
	nonces  map[string]uint64
	rt      *routeState // the node's interchain router with one subscribed pier per chain (route.go)
}

func openNode(dir string, cfg *repo.Config, price int64) (*node, error) {
	n := &node{dir: dir, cfg: cfg, price: price, nonces: map[string]uint64{}}
	cfg.RepoRoot = dir
	n.rep = &repo.Repo{Key: &repo.Key{PrivKey: acct("nodekey").priv, Address: acct("nodekey").addr.String()}, Config: cfg,
		NetworkConfig: &repo.NetworkConfig{}}
	var err error
	if n.chainDB, err = ledger.OpenChainDB(repo.GetStoragePath(dir, "blockchain"), &cfg.Ledger); err != nil {
		return nil, err
	}
	sdb, err := ledger.OpenStateDB(repo.GetStoragePath(dir, "ledger"), &cfg.Ledger)
	if err != nil {
		return nil, err
	}
	n.stateDB = sdb.(storage.Storage)
	if n.bf, err = blockfile.NewBlockFile(dir, quietLogger); err != nil {
		return nil, err
	}
	if n.ldg, err = ledger.New(n.rep, n.chainDB, n.stateDB, n.bf, nil, quietLogger); err != nil {
		return nil, err
	}
	if n.ldg.ChainLedger.GetChainMeta().Height == 0 {
		viewLdg := &ledger.Ledger{ChainLedger: n.ldg.ChainLedger}
		viewLdg.StateLedger, err = ledger.NewSimpleLedger(n.rep, n.stateDB, nil, quietLogger)
		if err != nil {
			return nil, err
		}
		viewExec, err := executor.New(viewLdg, quietLogger, &appchain.Client{}, cfg, big.NewInt(0))
		if err != nil {
			return nil, err
		}
		if err := genesis.Initialize(&cfg.Genesis, nil, 0, n.ldg, viewExec); err != nil {
			return nil, err
		}
	}
	if n.exec, err = executor.New(n.ldg, quietLogger, &appchain.Client{}, cfg, big.NewInt(price)); err != nil {
		return nil, err
	}
	n.exec.VerifWrapProofVerdict()
	// read-only executor over a view ledger, as internal/app does
	viewLdg := &ledger.Ledger{ChainLedger: n.ldg.ChainLedger}
	if viewLdg.StateLedger, err = ledger.NewSimpleLedger(n.rep, n.stateDB, nil, quietLogger); err != nil {
		return nil, err
	}
	if n.viewEx, err = executor.New(viewLdg, quietLogger, &appchain.Client{}, cfg, big.NewInt(0)); err != nil {
		return nil, err
	}
	n.viewLdg = viewLdg
	return n, nil
}

func (n *node) closeNode() {
	if n.ldg != nil {
		n.ldg.Close()
		n.ldg = nil
	}
}

func (n *node) reopen() error {
	n.closeNode()
	m, err := openNode(n.dir, n.cfg, n.price)
	if err != nil {
		return err
	}
	m.nonces = n.nonces
	*n = *m
	return nil
}

// next nonce of an account as tracked by the harness (the executor sets nonce := tx.nonce+1
// without checking, so any value works; we keep them increasing as a real pool would)
func (n *node) nextNonce(name string) uint64 {
	v := n.nonces[name]
	n.nonces[name] = v + 1
	return v
}

var tsCounter = time.Date(2026, 1, 1, 0, 0, 0, 0, time.UTC).UnixNano()

func nextTs() int64 { tsCounter += 1000; return tsCounter }

func (n *node) execBlock(txs []pb.Transaction, local []bool) {
	n.execBlockAt(n.exec.VerifHeight()+1, txs, local)
}

// execBlockAt hands the executor a block with an explicit height; a height at or below the current one makes the executor roll
// the ledger back first (rollbackBlocks) and execute the new block in place of the old one
func (n *node) execBlockAt(h uint64, txs []pb.Transaction, local []bool) {
	block := &pb.Block{
		BlockHeader:  &pb.BlockHeader{Version: []byte("1.0.0"), Number: h, Timestamp: nextTs()},
		Transactions: &pb.Transactions{Transactions: txs},
	}
	n.exec.VerifProcess(&pb.CommitEvent{Block: block, LocalList: local})
}

func copyDir(src, dst string) error {
	return exec.Command("cp", "-r", src, dst).Run()
}

func mustTempDir(prefix string) string {
	base := os.Getenv("VERIF_SCRATCH")
	if base == "" {
		base = os.TempDir()
	}
	d, err := ioutil.TempDir(base, prefix)
	if err != nil {
		panic(err)
	}
	return d
}

func rmDir(d string) {
	if d != "" && strings.Contains(filepath.Base(d), "bxhverif") {
		os.RemoveAll(d)
	}
}

func fail(format string, a ...interface{}) {
	fmt.Fprintf(os.Stderr, format+"\n", a...)
	os.Exit(3)
}

// nameOf maps an address back to the symbolic account name used in the op language (the address itself if unknown)
func nameOf(addr string) string {
	if n, ok := addrNames[strings.ToLower(addr)]; ok {
		return n
	}
	return addr
}
