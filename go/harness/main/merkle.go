//go:build verif

package main

import (
	"crypto/sha256"
	"strings"

	"github.com/meshplus/bitxhub-kit/types"
	"github.com/meshplus/bitxhub/internal/executor"
)

// merkle engine: `mroot t1 t2 ...` — leaves are sha256(token); prints the root computed by the
// executor's calcMerkleRoot (tx root / receipt root / timeout root construction)
type merkleEngine struct{}

func init() { engines["merkle"] = func() engine { return &merkleEngine{} } }
func (e *merkleEngine) close() {}

func (e *merkleEngine) step(ws []string) string {
	switch ws[0] {
	case "reset":
		return "ok"
	case "mroot":
		var hs []*types.Hash
		for _, t := range ws[1:] {
			h := sha256.Sum256([]byte(t))
			hs = append(hs, types.NewHash(h[:]))
		}
		r, err := executor.VerifCalcMerkleRoot(hs)
		if err != nil {
			return "err"
		}
		return strings.ToLower(r.String())
	}
	return "bad-op"
}
