//go:build verif

package main

import (
	"crypto/sha256"
	"encoding/json"
	"encoding/hex"
	"fmt"
	"math/big"
	"strconv"
	"strings"
	"sync"

	ethcommon "github.com/ethereum/go-ethereum/common"
	ethcrypto "github.com/ethereum/go-ethereum/crypto"
	"github.com/meshplus/bitxhub-kit/crypto/asym/ecdsa"
	"github.com/meshplus/bitxhub-kit/types"
	ethtypes "github.com/meshplus/eth-kit/types"
	"github.com/meshplus/bitxhub-model/constant"
	"github.com/meshplus/bitxhub-model/pb"
)

var contractAddrs = map[string]constant.BoltContractAddress{
	"interchain": constant.InterchainContractAddr,
	"store":      constant.StoreContractAddr,
	"rule":       constant.RuleManagerContractAddr,
	"role":       constant.RoleContractAddr,
	"appchain":   constant.AppchainMgrContractAddr,
	"txmgr":      constant.TransactionMgrContractAddr,
	"gov":        constant.GovernanceContractAddr,
	"node":       constant.NodeManagerContractAddr,
	"broker":     constant.InterBrokerContractAddr,
	"service":    constant.ServiceMgrContractAddr,
	"dapp":       constant.DappMgrContractAddr,
	"strategy":   constant.ProposalStrategyMgrContractAddr,
	"registry":   constant.ServiceRegistryContractAddr,
	"resolver":   constant.ServiceResolverContractAddr,
	"ethheader":  constant.EthHeaderMgrContractAddr,
}

func signTx(a *account, tx *pb.BxhTransaction) *pb.BxhTransaction {
	if err := tx.Sign(a.priv); err != nil {
		panic(err)
	}
	tx.TransactionHash = tx.Hash()
	return tx
}

func (n *node) xferTx(from string, to *types.Address, amount string) *pb.BxhTransaction {
	a := acct(from)
	td := &pb.TransactionData{Type: pb.TransactionData_NORMAL, Amount: amount}
	payload, _ := td.Marshal()
	return signTx(a, &pb.BxhTransaction{From: a.addr, To: to, Payload: payload, Timestamp: nextTs(), Nonce: n.nextNonce(from)})
}

var eip155Once sync.Once

// ethTx builds a legacy Ethereum transaction (EIP-155, chain id of the hub) signed by the named account
func (n *node) ethTx(from string, to *types.Address, value, gas, gasPrice string) (pb.Transaction, error) {
	eip155Once.Do(func() { ethtypes.InitEIP155Signer(big.NewInt(bxhID)) })
	a := acct(from)
	k, ok := a.priv.(*ecdsa.PrivateKey)
	if !ok {
		return nil, fmt.Errorf("not an ecdsa key")
	}
	v, ok1 := new(big.Int).SetString(value, 10)
	gp, ok2 := new(big.Int).SetString(gasPrice, 10)
	g, err := strconv.ParseUint(gas, 10, 64)
	if !ok1 || !ok2 || err != nil {
		return nil, fmt.Errorf("bad eth numbers")
	}
	dst := ethcommon.BytesToAddress(to.Bytes())
	inner := &ethtypes.LegacyTx{Nonce: n.nextNonce(from), GasPrice: gp, Gas: g, To: &dst, Value: v}
	tx := &ethtypes.EthTransaction{Inner: inner}
	sig, err := ethcrypto.Sign(tx.GetSignHash().Bytes(), k.K)
	if err != nil {
		return nil, err
	}
	inner.R = new(big.Int).SetBytes(sig[:32])
	inner.S = new(big.Int).SetBytes(sig[32:64])
	inner.V = big.NewInt(int64(sig[64]) + 35 + 2*bxhID)
	if tx.GetFrom() == nil {
		return nil, fmt.Errorf("eth signature does not recover")
	}
	return tx, nil
}

func (n *node) bvmTx(from string, contract *types.Address, method string, args ...*pb.Arg) *pb.BxhTransaction {
	a := acct(from)
	pl := &pb.InvokePayload{Method: method, Args: args}
	data, _ := pl.Marshal()
	td := &pb.TransactionData{Type: pb.TransactionData_INVOKE, VmType: pb.TransactionData_BVM, Payload: data}
	payload, _ := td.Marshal()
	return signTx(a, &pb.BxhTransaction{From: a.addr, To: contract, Payload: payload, Timestamp: nextTs(), Nonce: n.nextNonce(from)})
}

func (n *node) ibtpTx(from string, ibtp *pb.IBTP, proof []byte) *pb.BxhTransaction {
	a := acct(from)
	ibtpd, _ := ibtp.Marshal()
	pl := &pb.InvokePayload{Method: "HandleIBTP", Args: []*pb.Arg{pb.Bytes(ibtpd)}}
	data, _ := pl.Marshal()
	td := &pb.TransactionData{Type: pb.TransactionData_INVOKE, VmType: pb.TransactionData_BVM, Payload: data}
	payload, _ := td.Marshal()
	return signTx(a, &pb.BxhTransaction{From: a.addr, To: constant.InterchainContractAddr.Address(), Payload: payload,
		Timestamp: nextTs(), Nonce: n.nextNonce(from), IBTP: ibtp, Extra: proof})
}

// parseArg: s:<str> u:<uint64> b:<0|1> i:<int32> x:<hex bytes> ; "_" inside s: stands for a space-free empty marker
func parseArg(tok string) (*pb.Arg, error) {
	i := strings.Index(tok, ":")
	if i < 0 {
		return nil, fmt.Errorf("bad arg %q", tok)
	}
	k, v := tok[:i], tok[i+1:]
	switch k {
	case "s":
		if v == "~" {
			v = ""
		}
		if strings.HasPrefix(v, "@") { // @<account or contract name> : its address
			name, rest := v[1:], ""
			if j := strings.Index(name, "-"); j >= 0 {
				name, rest = name[:j], name[j:]
			}
			rest = propRealIndex(name, rest)
			if c, ok := contractAddrs[name]; ok {
				return pb.String(c.Address().String() + rest), nil
			}
			return pb.String(acct(name).addr.String() + rest), nil
		}
		return pb.String(strings.ReplaceAll(v, "\\_", " ")), nil
	case "trust": // trust:<k1>,<k2>,... : the trust root of a relay chain (another BitXHub): JSON {"addresses": [validator addresses]}
		addrs := []string{}
		for _, nm := range strings.Split(v, ",") {
			if nm != "" {
				addrs = append(addrs, acct("val-"+nm).addr.String())
			}
		}
		b, _ := json.Marshal(map[string][]string{"addresses": addrs})
		return pb.Bytes(b), nil
	case "al": // al:<name>,<~name>,... : the accounts' addresses joined by commas, as a string argument (an admin list);
		// ~name = the same address spelled in lower case (not the checksummed spelling the node uses for callers)
		var as []string
		for _, nm := range strings.Split(v, ",") {
			if nm == "" {
				continue
			}
			if strings.HasPrefix(nm, "~") {
				as = append(as, strings.ToLower(acct(nm[1:]).addr.String()))
			} else {
				as = append(as, acct(nm).addr.String())
			}
		}
		return pb.String(strings.Join(as, ",")), nil
	case "u":
		x, err := strconv.ParseUint(v, 10, 64)
		if err != nil {
			return &pb.Arg{Type: pb.Arg_U64, Value: []byte(v)}, nil
		}
		return pb.Uint64(x), nil
	case "b":
		return pb.Bool(v == "1"), nil
	case "i":
		x, err := strconv.Atoi(v)
		if err != nil {
			return &pb.Arg{Type: pb.Arg_I32, Value: []byte(v)}, nil
		}
		return pb.Int32(int32(x)), nil
	case "f":
		return &pb.Arg{Type: pb.Arg_F64, Value: []byte(v)}, nil
	case "addrs": // addrs:<name>,<name>,... : JSON list of the accounts' / contracts' addresses as a bytes argument
		var as []string
		for _, nm := range strings.Split(v, ",") {
			if nm == "" {
				continue
			}
			if c, ok := contractAddrs[nm]; ok {
				as = append(as, c.Address().String())
			} else {
				as = append(as, acct(nm).addr.String())
			}
		}
		b, _ := json.Marshal(as)
		return pb.Bytes(b), nil
	case "ibtp", "ibtpc": // ibtp:<from>,<to>,<index>,<type>,<timeout> : marshalled IBTP as a bytes argument (ibtpc: with a Content payload)
		p := strings.Split(v, ",")
		if len(p) != 5 {
			return nil, fmt.Errorf("bad ibtp arg")
		}
		idx, _ := strconv.ParseUint(p[2], 10, 64)
		typ, ok := ibtpTypes[p[3]]
		if !ok {
			return nil, fmt.Errorf("bad ibtp type")
		}
		to, _ := strconv.ParseInt(p[4], 10, 64)
		var pl []byte
		if k == "ibtpc" {
			ct, _ := (&pb.Content{Func: "interchainCharge", Args: [][]byte{[]byte("a1b2"), []byte("x")}}).Marshal()
			pl = ct // InterBroker.InvokeInterchain reads the payload as a Content directly
		}
		b, err := (&pb.IBTP{From: fullSvc(p[0]), To: fullSvc(p[1]), Index: idx, Type: typ, TimeoutHeight: to, Payload: pl}).Marshal()
		if err != nil {
			return nil, err
		}
		return pb.Bytes(b), nil
	case "raw": // raw:<arg type number>:<hex value> : an argument with an arbitrary type tag
		q := strings.SplitN(v, ":", 2)
		if len(q) != 2 {
			return nil, fmt.Errorf("bad raw arg")
		}
		tn, err := strconv.Atoi(q[0])
		if err != nil {
			return nil, err
		}
		b, err := hex.DecodeString(q[1])
		if err != nil {
			return nil, err
		}
		return &pb.Arg{Type: pb.Arg_Type(tn), Value: b}, nil
	case "x":
		b, err := hex.DecodeString(v)
		if err != nil {
			return nil, err
		}
		return pb.Bytes(b), nil
	}
	return nil, fmt.Errorf("bad arg kind %q", k)
}

func fullSvc(s string) string {
	if s == "~" {
		return ""
	}
	s = strings.ReplaceAll(s, "\\_", " ")
	// "c1:s1" -> "1356:c1:s1"; already-full ids (two colons) are kept
	if strings.Count(s, ":") == 1 {
		return fmt.Sprintf("%d:%s", bxhID, s)
	}
	return s
}

func proofHash(proof []byte) []byte {
	h := sha256.Sum256(proof)
	return h[:]
}

// Proposal references.  A generator numbers the proposals of a creator by counting its submission ATTEMPTS (`@adm0-2` = the
// third attempt of adm0), the contract numbers them by counting the successful ones.  The op `propose <creator>` announces that
// the next block carries an attempt; after that block the harness looks whether the creator's proposal count went up and
// remembers which real index (if any) the attempt got.  References in later ops are translated, real ids in observations
// are translated back, so that generator, monitors and replay files all speak the generator's numbering.
var propMap = map[string]map[int]int{} // creator -> attempt index -> real index (-1: the attempt created nothing)
var propNext = map[string]int{}        // creator -> next attempt index

func propRealIndex(name, rest string) string {
	m, ok := propMap[name]
	if !ok || !strings.HasPrefix(rest, "-") {
		return rest
	}
	k, err := strconv.Atoi(rest[1:])
	if err != nil {
		return rest
	}
	if real, ok := m[k]; ok {
		if real < 0 {
			return "-999999"
		}
		return "-" + strconv.Itoa(real)
	}
	return rest
}

// propGenIndex translates a real proposal index of a creator back into the generator's numbering
func propGenIndex(name string, real int) int {
	for g, r := range propMap[name] {
		if r == real {
			return g
		}
	}
	return real
}
