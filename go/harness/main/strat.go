//go:build verif

package main

import (
	"strconv"
	"strings"

	"github.com/meshplus/bitxhub/internal/repo"
)

// stratEngine: the voting rule.
//   dec <expr> <approve> <reject> <total> <available> -> approved | rejected | open | err   (repo.MakeStrategyDecision)
//   adm <expr> <admins>                               -> ok | bad                            (repo.CheckStrategyExpression)
// <expr>: a govaluate expression with '_' for spaces.
type stratEngine struct{}

func init() { engines["strat"] = func() engine { return &stratEngine{} } }

func (s *stratEngine) close() {}

func (s *stratEngine) step(ws []string) string {
	switch ws[0] {
	case "reset":
		return "ok"
	case "dec":
		if len(ws) != 6 {
			return "bad-op"
		}
		var n [4]uint64
		for i := 0; i < 4; i++ {
			v, err := strconv.ParseUint(ws[2+i], 10, 64)
			if err != nil {
				return "bad-op"
			}
			n[i] = v
		}
		end, pass, err := repo.MakeStrategyDecision(strings.ReplaceAll(ws[1], "_", " "), n[0], n[1], n[2], n[3])
		if err != nil {
			return "err"
		}
		if !end {
			return "open"
		}
		if pass {
			return "approved"
		}
		return "rejected"
	case "adm":
		if len(ws) != 3 {
			return "bad-op"
		}
		n, err := strconv.Atoi(ws[2])
		if err != nil {
			return "bad-op"
		}
		if repo.CheckStrategyExpression(strings.ReplaceAll(ws[1], "_", " "), n) != nil {
			return "bad"
		}
		return "ok"
	}
	return "bad-op"
}
