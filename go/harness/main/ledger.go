//go:build verif

package main

import (
	"encoding/hex"
	"fmt"
	"math/big"
	"sort"
	"strconv"
	"strings"

	"github.com/ethereum/go-ethereum/crypto"
	"github.com/meshplus/bitxhub-kit/storage"
	"github.com/meshplus/bitxhub-kit/storage/leveldb"
	"github.com/meshplus/bitxhub-kit/types"
	"github.com/meshplus/bitxhub/internal/ledger"
	"github.com/meshplus/bitxhub/internal/repo"
	ledger2 "github.com/meshplus/eth-kit/ledger"
)

// ledger engine: the real SimpleLedger + AccountCache + LevelDB, one op per line.
type ledgerEngine struct {
	dir      string
	ldb      storage.Storage
	cache    *ledger.AccountCache
	l        *ledger.SimpleLedger
	accounts map[string]ledger2.IAccount // result of the last flush
	root     *types.Hash
}

func init() { engines["ledger"] = func() engine { return &ledgerEngine{} } }

func (e *ledgerEngine) close() {
	if e.ldb != nil {
		e.ldb.Close()
		e.ldb = nil
	}
	rmDir(e.dir)
	e.dir = ""
}

func lAddr(name string) *types.Address {
	// a0, a1, ... : 20 bytes, last byte = index+1
	i, err := strconv.Atoi(strings.TrimPrefix(name, "a"))
	if err != nil {
		i = 99
	}
	b := make([]byte, 20)
	b[19] = byte(i + 1)
	return types.NewAddress(b)
}

func tok(s string) []byte {
	if s == "~" {
		return []byte{}
	}
	if strings.HasPrefix(s, "%") { // %<hex> : arbitrary bytes (EVM storage slots are 32-byte hashes, not text)
		if b, err := hex.DecodeString(s[1:]); err == nil {
			return b
		}
	}
	return []byte(s)
}

// showKey: the op-language spelling of a key (text as it is, anything else as %<hex>)
func showKey(k []byte) string {
	for _, c := range k {
		if c < 0x21 || c > 0x7e || c == '%' {
			return "%" + hex.EncodeToString(k)
		}
	}
	return string(k)
}

func showVal(ok bool, v []byte) string {
	// the flag is the observation: "-" = the ledger says the key does not exist, whatever bytes come with it
	if !ok {
		return "-"
	}
	if len(v) == 0 {
		return "~"
	}
	return string(v)
}

func (e *ledgerEngine) open() string {
	var err error
	if e.ldb, err = leveldb.New(e.dir); err != nil {
		fail("leveldb: %v", err)
	}
	if e.cache, err = ledger.NewAccountCache(); err != nil {
		fail("cache: %v", err)
	}
	rep := &repo.Repo{Config: &repo.Config{}}
	sl, err := ledger.NewSimpleLedger(rep, e.ldb, e.cache, quietLogger)
	if err != nil {
		return "err open " + errClass(err.Error())
	}
	e.l = sl.(*ledger.SimpleLedger)
	e.accounts, e.root = nil, nil
	mn, mx := ledger.VerifJournalRange(e.l)
	return fmt.Sprintf("ok ver=%d min=%d root=%s", mx, mn, strings.ToLower(ledger.VerifPrevRoot(e.l).String()))
}

func (e *ledgerEngine) step(ws []string) string {
	switch ws[0] {
	case "reset":
		e.close()
		return "ok"
	case "open":
		e.close()
		e.dir = mustTempDir("bxhverif-l-")
		return e.open()
	}
	if e.l == nil {
		return "bad-op"
	}
	l := e.l
	switch ws[0] {
	case "get":
		ok, v := l.GetState(lAddr(ws[1]), tok(ws[2]))
		return showVal(ok, v)
	case "set":
		l.SetState(lAddr(ws[1]), tok(ws[2]), tok(ws[3]), nil)
		return "ok"
	case "add":
		l.AddState(lAddr(ws[1]), tok(ws[2]), tok(ws[3]))
		return "ok"
	case "del":
		l.SetState(lAddr(ws[1]), tok(ws[2]), nil, nil)
		return "ok"
	case "bal":
		return l.GetBalance(lAddr(ws[1])).String()
	case "setbal":
		n, _ := new(big.Int).SetString(ws[2], 10)
		l.SetBalance(lAddr(ws[1]), n)
		return "ok"
	case "addbal": // addbal <acct> <signed delta>: AddBalance / SubBalance (the delta paths of the EVM and of the role contract)
		n, _ := new(big.Int).SetString(ws[2], 10)
		if n.Sign() >= 0 {
			l.AddBalance(lAddr(ws[1]), n)
		} else {
			l.SubBalance(lAddr(ws[1]), new(big.Int).Neg(n))
		}
		return "ok"
	case "nonce":
		return fmt.Sprint(l.GetNonce(lAddr(ws[1])))
	case "setnonce":
		n, _ := strconv.ParseUint(ws[2], 10, 64)
		l.SetNonce(lAddr(ws[1]), n)
		return "ok"
	case "code":
		c := l.GetCode(lAddr(ws[1]))
		if c == nil {
			return "-"
		}
		return showVal(true, c)
	case "codehash": // the code hash the ledger reports for the account ("-": none / all zero)
		h := l.GetCodeHash(lAddr(ws[1]))
		if h == nil {
			return "-"
		}
		hx := fmt.Sprintf("%x", h.Bytes())
		if strings.Trim(hx, "0") == "" {
			return "-"
		}
		return hx
	case "setcode": // setcode a <code> <keccak hex expected by the generator's table>
		code := tok(ws[2])
		l.SetCode(lAddr(ws[1]), code)
		if len(ws) > 3 {
			if h := fmt.Sprintf("%x", crypto.Keccak256(code)); h != ws[3] {
				return "bad-op keccak-table " + h
			}
		}
		return "ok"
	case "query":
		ok, vs := l.QueryByPrefix(lAddr(ws[1]), string(tok(ws[2])))
		var ps []string
		for _, v := range vs {
			ps = append(ps, showVal(true, v))
		}
		// nil and empty compare equal under bytes.Compare, so their relative order is unspecified: canonicalise
		sort.SliceStable(ps, func(i, j int) bool { return rankTok(ps[i]) < rankTok(ps[j]) })
		return fmt.Sprintf("%d [%s]", b2i(ok), strings.Join(ps, " "))
	case "snap":
		return fmt.Sprint(l.Snapshot())
	case "revert":
		id, _ := strconv.Atoi(ws[1])
		l.RevertToSnapshot(id)
		return "ok"
	case "finalise":
		l.Finalise(true)
		return "ok"
	case "clear":
		l.Clear()
		return "ok"
	case "flush":
		e.accounts, e.root = l.FlushDirtyData()
		var ds []string
		for a := range e.accounts {
			ds = append(ds, addrName(a))
		}
		sort.Strings(ds)
		return fmt.Sprintf("root=%s dirty=[%s]", strings.ToLower(e.root.String()), strings.Join(ds, " "))
	case "commit":
		h, _ := strconv.ParseUint(ws[1], 10, 64)
		if e.root == nil {
			return "bad-op no-flush"
		}
		if err := l.Commit(h, e.accounts, e.root); err != nil {
			return "err " + errClass(err.Error())
		}
		return "ok"
	case "rollback":
		h, _ := strconv.ParseUint(ws[1], 10, 64)
		err := l.RollbackState(h)
		switch err {
		case nil:
			return "ok"
		case ledger.ErrorRollbackToHigherNumber:
			return "err higher"
		case ledger.ErrorRollbackTooMuch:
			return "err toomuch"
		case ledger.ErrorRollbackWithoutJournal:
			return "err nojournal"
		}
		return "err other"
	case "ver":
		mn, mx := ledger.VerifJournalRange(l)
		return fmt.Sprintf("ver=%d min=%d root=%s", mx, mn, strings.ToLower(ledger.VerifPrevRoot(l).String()))
	case "reopen":
		e.ldb.Close()
		return e.open()
	case "evict":
		if ws[1] == "key" {
			ledger.VerifEvictStateKey(e.cache, lAddr(ws[2]), string(tok(ws[3])))
		} else {
			ledger.VerifEvict(e.cache, ws[1], lAddr(ws[2]))
		}
		return "ok"
	}
	return "bad-op"
}

func rankTok(s string) int {
	switch s {
	case "-":
		return 0
	case "~":
		return 1
	}
	return 2
}

func addrName(s string) string {
	for i := 0; i < 8; i++ {
		if strings.EqualFold(lAddr(fmt.Sprintf("a%d", i)).String(), s) {
			return fmt.Sprintf("a%d", i)
		}
	}
	return s
}
