//go:build verif

package main

import (
	"encoding/json"
	"strings"

	"github.com/meshplus/bitxhub/internal/executor/contracts"
)

// permEngine: `perm <perms|-> <regulated> <regulator> <specific> <admin>` runs contracts.checkPermission.
//   perms: comma list of self|admin|specific|bogus ("-" = empty);  specific: "-" (nil), "bad" (undecodable), "[]" or comma list;
//   admin: 1|0|e (answer of the role contract)
type permEngine struct{}

func init() { engines["perm"] = func() engine { return &permEngine{} } }

func (p *permEngine) close() {}

var permNames = map[string]string{"self": "PermissionSelf", "admin": "PermissionAdmin", "specific": "PermissionSpecific", "bogus": "PermissionBogus"}

func (p *permEngine) step(ws []string) string {
	if ws[0] == "reset" {
		return "ok"
	}
	if ws[0] != "perm" || len(ws) != 6 {
		return "bad-op"
	}
	var perms []string
	if ws[1] != "-" {
		for _, x := range strings.Split(ws[1], ",") {
			n, ok := permNames[x]
			if !ok {
				return "bad-op"
			}
			perms = append(perms, n)
		}
	}
	var specific []byte
	switch ws[4] {
	case "-":
		specific = nil
	case "bad":
		specific = []byte("{not a list")
	case "[]":
		specific = []byte("[]")
	default:
		specific, _ = json.Marshal(strings.Split(ws[4], ","))
	}
	return contracts.VerifCheckPermission(perms, ws[2], ws[3], specific, ws[5])
}
