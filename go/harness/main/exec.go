//go:build verif

package main

import (
	bxhledger "github.com/meshplus/bitxhub/internal/ledger"
	ethtypes "github.com/meshplus/eth-kit/types"
	"crypto/sha256"
	"encoding/hex"
	"encoding/json"
	"fmt"
	"math/big"
	"os"
	"regexp"
	"sort"
	"strconv"
	"strings"
	"sync"
	"time"

	"github.com/meshplus/bitxhub-core/governance"
	"github.com/meshplus/bitxhub-core/validator"
	"github.com/meshplus/bitxhub-kit/types"
	"github.com/meshplus/bitxhub-model/constant"
	"github.com/meshplus/bitxhub-model/pb"
	"github.com/meshplus/bitxhub/internal/executor/contracts"
	"github.com/meshplus/bitxhub/pkg/utils"
)

// ---------------------------------------------------------------------------------------------
// fixed world (mirrored by lean/Bxh/Model/World.lean)
//   admins adm0..adm3 (weight 2); users u0..u3 funded with userFunds; chain admins ca1..ca3 funded
//   chains c1,c2 (HappyRule) c3 (SimFabric rule: rejects garbage proofs with an error)
//   services: see worldServices
// ---------------------------------------------------------------------------------------------

const userFunds = "1000000000000"

type svcDef struct {
	chain, id string
	ordered   uint64
	blacklist string // full ids, comma separated
}

var worldChains = []string{"c1", "c2", "c3", "c4"}
var worldServices = []svcDef{
	{"c1", "s1", 1, ""},
	{"c1", "s2", 1, ""},
	{"c2", "s1", 1, ""},
	{"c2", "s2", 0, ""},
	{"c3", "s1", 1, "1356:c1:s2"},
	{"c2", "s3", 1, ""},
	{"c4", "s1", 1, "9999:c6:s2"}, // blocks a service of another BitXHub (hub=1 worlds: 9999 is registered)
}
var worldUsers = []string{"u0", "u1", "u2", "u3"}

func chainAdmin(chain string) string { return "ca" + chain[1:] }

var (
	templateOnce sync.Once
	templateDir  string
	templateErr  error
	templateNon  map[string]uint64
)

func buildTemplate() {
	templateDir = mustTempDir("bxhverif-tpl-")
	n, err := openNode(templateDir, mkConfig(false, "parallel"), 1)
	if err != nil {
		templateErr = err
		return
	}
	must := func(rs []*pb.Receipt, what string) bool {
		for _, r := range rs {
			if !r.IsSuccess() {
				templateErr = fmt.Errorf("prelude %s failed: %s", what, string(r.Ret))
				return false
			}
		}
		return true
	}
	// block 2: fund users and chain admins
	var txs []pb.Transaction
	for _, u := range worldUsers {
		txs = append(txs, n.xferTx("adm0", acct(u).addr, userFunds))
	}
	for _, c := range worldChains {
		txs = append(txs, n.xferTx("adm0", acct(chainAdmin(c)).addr, userFunds))
	}
	if !must(n.runBlock(txs), "fund") {
		return
	}
	// block 3: register appchains; block 4: votes
	txs = nil
	for _, c := range worldChains {
		rule, typ, broker := validator.HappyRuleAddr, "ETH", "0xbroker"
		if c == "c3" {
			rule, typ, broker = validator.SimFabricRuleAddr, "Fabric V1.4.3", `{"channel_id":"1","chaincode_id":"2","broker_version":"3"}`
		}
		ca := chainAdmin(c)
		txs = append(txs, n.bvmTx(ca, constant.AppchainMgrContractAddr.Address(), "RegisterAppchain",
			pb.String(c), pb.String("name-"+c), pb.Bytes([]byte("")), pb.String(typ), pb.Bytes(nil), pb.String(broker),
			pb.String("desc"), pb.String(rule), pb.String("url"), pb.String(acct(ca).addr.String()), pb.String("reason")))
	}
	rs := n.runBlock(txs)
	if !must(rs, "register appchain") {
		return
	}
	if !must(n.voteAll(rs), "vote appchain") {
		return
	}
	// block 5: register services; block 6: votes
	txs = nil
	for _, s := range worldServices {
		txs = append(txs, n.bvmTx(chainAdmin(s.chain), constant.ServiceMgrContractAddr.Address(), "RegisterService",
			pb.String(s.chain), pb.String(s.id), pb.String("svc-"+s.chain+"-"+s.id), pb.String("CallContract"), pb.String("intro"),
			pb.Uint64(s.ordered), pb.String(s.blacklist), pb.String("details"), pb.String("reason")))
	}
	rs = n.runBlock(txs)
	if !must(rs, "register service") {
		return
	}
	if !must(n.voteAll(rs), "vote service") {
		return
	}
	templateNon = n.nonces
	n.closeNode()
}

var (
	hubTemplateOnce sync.Once
	hubTemplateDir  string
	hubTemplateNon  map[string]uint64
)

// buildHubTemplate: world option hub=1.  On top of the fixed world another BitXHub (id 9999, validators val-1..val-4) is registered as
// an available relay chain by its admin ca9: blocks 7..11 (fund ca9, RegisterAppchain, three approving votes one block each), the
// same five blocks scripted_interhub spells out as ops.  Mirrored by the Lean driver (cfg.hubs, height 11)
func buildHubTemplate() {
	hubTemplateDir = mustTempDir("bxhverif-tplhub-")
	os.RemoveAll(hubTemplateDir)
	if err := copyDir(templateDir, hubTemplateDir); err != nil {
		templateErr = err
		return
	}
	n, err := openNode(hubTemplateDir, mkConfig(false, "parallel"), 1)
	if err != nil {
		templateErr = err
		return
	}
	n.nonces = map[string]uint64{}
	for k, v := range templateNon {
		n.nonces[k] = v
	}
	must := func(rs []*pb.Receipt, what string) bool {
		for _, r := range rs {
			if !r.IsSuccess() {
				templateErr = fmt.Errorf("hub prelude %s failed: %s", what, string(r.Ret))
				return false
			}
		}
		return true
	}
	if !must(n.runBlock([]pb.Transaction{n.xferTx("adm0", acct("ca9").addr, "100000000000")}), "fund") {
		return
	}
	trust, _ := parseArg("trust:1,2,3,4")
	rs := n.runBlock([]pb.Transaction{n.bvmTx("ca9", constant.AppchainMgrContractAddr.Address(), "RegisterAppchain",
		pb.String("9999"), pb.String("name-9999"), pb.Bytes([]byte("")), pb.String("relaychain"), trust, pb.String("0xbroker"),
		pb.String("desc"), pb.String(validator.HappyRuleAddr), pb.String("url"), pb.String(acct("ca9").addr.String()), pb.String("reason"))})
	if !must(rs, "register hub") {
		return
	}
	g := &governance.GovernanceResult{}
	if err := json.Unmarshal(rs[0].Ret, g); err != nil || g.ProposalID == "" {
		templateErr = fmt.Errorf("hub prelude: no proposal")
		return
	}
	for _, a := range adminNames[:3] {
		if !must(n.runBlock([]pb.Transaction{n.bvmTx(a, constant.GovernanceContractAddr.Address(), "Vote",
			pb.String(g.ProposalID), pb.String(string(contracts.APPROVED)), pb.String("reason"))}), "vote hub") {
			return
		}
	}
	hubTemplateNon = n.nonces
	n.closeNode()
}

// voteAll: three approving votes for the proposal created by each receipt, one block
func (n *node) voteAll(rs []*pb.Receipt) []*pb.Receipt {
	var txs []pb.Transaction
	for _, r := range rs {
		g := &governance.GovernanceResult{}
		if err := json.Unmarshal(r.Ret, g); err != nil || g.ProposalID == "" {
			continue
		}
		for _, a := range adminNames[:3] {
			txs = append(txs, n.bvmTx(a, constant.GovernanceContractAddr.Address(), "Vote",
				pb.String(g.ProposalID), pb.String(string(contracts.APPROVED)), pb.String("reason")))
		}
	}
	return n.runBlock(txs)
}

func (n *node) runBlock(txs []pb.Transaction) []*pb.Receipt {
	local := make([]bool, len(txs))
	for i := range local {
		local[i] = true
	}
	n.execBlock(txs, local)
	var rs []*pb.Receipt
	for _, tx := range txs {
		r, err := n.ldg.GetReceipt(tx.GetHash())
		if err != nil {
			rs = append(rs, &pb.Receipt{Status: pb.Receipt_FAILED, Ret: []byte("no receipt: " + err.Error())})
		} else {
			rs = append(rs, r)
		}
	}
	return rs
}

// ---------------------------------------------------------------------------------------------

type execEngine struct {
	nodes    []*node // replica 0 is the reference; others (C01) are fed the same blocks
	sigOn    bool
	txLog    []pb.Transaction    // every transaction built in this history, in order (tx token `again <k>` re-includes the k-th, byte for byte)
	txLocal  []bool
	admInit  map[string]*big.Int // admin balances when the history starts
	// C01, world option pipe=1: one more replica runs the executor's own goroutine pipeline (Start / ExecuteBlock:
	// pre-execution stage, execution stage) and is handed every block without waiting for the previous one; its results
	// are compared one block later
	pipe     *node
	pipeH    uint64
	pipeWait []pipeBlk
	// proposal attempt announced by `propose <creator>` and the creator's proposal count before it
	attempt       string
	attemptBefore int
}

type pipeBlk struct {
	h    uint64
	txs  []pb.Transaction
	want string
}

// pipeDrain waits for the pipelined replica to finish all pending blocks but the newest `keep` and compares them
func (e *execEngine) pipeDrain(keep int) string {
	out := ""
	for e.pipe != nil && len(e.pipeWait) > keep {
		pb0 := e.pipeWait[0]
		e.pipeWait = e.pipeWait[1:]
		deadline := time.Now().Add(60 * time.Second)
		for e.pipe.ldg.GetChainMeta().Height < pb0.h && time.Now().Before(deadline) {
			time.Sleep(time.Millisecond)
		}
		if e.pipe.ldg.GetChainMeta().Height < pb0.h {
			out += fmt.Sprintf(" REPLICA-DIVERGED[pipe] block %d not executed within 60s", pb0.h)
			e.pipeWait = nil
			break
		}
		got := blockObs(e.pipe, pb0.h, pb0.txs)
		if got != pb0.want {
			out += fmt.Sprintf(" REPLICA-DIVERGED[pipe] %s", got)
		}
	}
	return out
}

func copyTxs(txs []pb.Transaction) []pb.Transaction {
	cp := make([]pb.Transaction, len(txs))
	for j, tx := range txs {
		if et, ok := tx.(*ethtypes.EthTransaction); ok {
			b, _ := et.MarshalBinary()
			t2 := &ethtypes.EthTransaction{}
			if err := t2.UnmarshalBinary(b); err != nil {
				panic(err)
			}
			cp[j] = t2
			continue
		}
		b, _ := tx.(*pb.BxhTransaction).Marshal()
		t2 := &pb.BxhTransaction{}
		if err := t2.Unmarshal(b); err != nil {
			panic(err)
		}
		cp[j] = t2
	}
	return cp
}

func init() { engines["exec"] = func() engine { return &execEngine{} } }

func (e *execEngine) close() {
	for _, n := range e.nodes {
		n.closeNode()
		rmDir(n.dir)
	}
	e.nodes = nil
	e.stopPipe()
	if templateDir != "" {
		rmDir(templateDir)
	}
	if hubTemplateDir != "" {
		rmDir(hubTemplateDir)
	}
}

func (e *execEngine) reset() {
	for _, n := range e.nodes {
		n.closeNode()
		rmDir(n.dir)
	}
	e.nodes = nil
	e.txLog, e.txLocal = nil, nil
	e.stopPipe()
}

func (e *execEngine) stopPipe() {
	if e.pipe != nil {
		e.pipeDrain(0)
		// the executor's goroutines are left to end with the process: Stop() closes the ledger underneath a reader
		rmDir(e.pipe.dir)
		e.pipe = nil
		e.pipeWait = nil
	}
}

func kv(ws []string) map[string]string {
	m := map[string]string{}
	for _, w := range ws {
		if i := strings.Index(w, "="); i > 0 {
			m[w[:i]] = w[i+1:]
		}
	}
	return m
}

func (e *execEngine) step(ws []string) string {
	switch ws[0] {
	case "reset":
		e.reset()
		return "ok"
	case "world":
		templateOnce.Do(buildTemplate)
		if templateErr != nil {
			fail("template: %v", templateErr)
		}
		e.reset()
		propMap, propNext, e.attempt = map[string]map[int]int{}, map[string]int{}, ""
		o := kv(ws[1:])
		tplDir, tplNon := templateDir, templateNon
		if o["hub"] == "1" {
			hubTemplateOnce.Do(buildHubTemplate)
			if templateErr != nil {
				fail("hub template: %v", templateErr)
			}
			tplDir, tplNon = hubTemplateDir, hubTemplateNon
		}
		price, _ := strconv.ParseInt(o["price"], 10, 64)
		if o["price"] == "" {
			price = 1
		}
		pt := o["proof"]
		if pt == "" {
			pt = "parallel"
		}
		reps := 1
		if o["replicas"] != "" {
			reps, _ = strconv.Atoi(o["replicas"])
		}
		for i := 0; i < reps; i++ {
			d := mustTempDir("bxhverif-n-")
			os.RemoveAll(d)
			if err := copyDir(tplDir, d); err != nil {
				fail("copy: %v", err)
			}
			cfg := mkConfig(o["audit"] == "1", pt)
			if o["mix"] == "1" {
				// replicas of one network with different local tuning: the other proof-verification mode on odd replicas
				// (the parallel executor type is not registered in this build: "type parallel is unsupported")
				if i%2 == 1 {
					if pt == "parallel" {
						cfg.Executor.ProofType = "serial"
					} else {
						cfg.Executor.ProofType = "parallel"
					}
				}
			}
			n, err := openNode(d, cfg, price)
			if err != nil {
				fail("open: %v", err)
			}
			n.nonces = map[string]uint64{}
			for k, v := range tplNon {
				n.nonces[k] = v
			}
			e.nodes = append(e.nodes, n)
		}
		if o["pipe"] == "1" {
			d := mustTempDir("bxhverif-n-")
			os.RemoveAll(d)
			if err := copyDir(tplDir, d); err != nil {
				fail("copy: %v", err)
			}
			n, err := openNode(d, mkConfig(o["audit"] == "1", pt), price)
			if err != nil {
				fail("open: %v", err)
			}
			if err := n.exec.Start(); err != nil {
				fail("start: %v", err)
			}
			e.pipe, e.pipeH, e.pipeWait = n, n.exec.VerifHeight(), nil
		}
		e.admInit = map[string]*big.Int{}
		for _, a := range adminNames {
			e.admInit[a] = e.nodes[0].ldg.Copy().GetBalance(acct(a).addr)
		}
		return fmt.Sprintf("ok h=%d", e.nodes[0].exec.VerifHeight())
	case "propose": // propose <creator> : the next block carries a proposal submission attempt of that account
		if len(ws) != 2 || len(e.nodes) == 0 {
			return "bad-op"
		}
		e.attempt, e.attemptBefore = ws[1], e.proposalCount(ws[1])
		if _, ok := propNext[ws[1]]; !ok {
			propNext[ws[1]] = e.attemptBefore
			propMap[ws[1]] = map[int]int{}
		}
		return "ok"
	case "block":
		out := e.block(ws[1:])
		if e.attempt != "" {
			after := e.proposalCount(e.attempt)
			g := propNext[e.attempt]
			if after > e.attemptBefore {
				propMap[e.attempt][g] = e.attemptBefore
			} else {
				propMap[e.attempt][g] = -1
			}
			propNext[e.attempt] = g + 1
			e.attempt = ""
		}
		return out
	case "reorg": // reorg <height> <txs...> : consensus delivers another block for a height the node has already executed
		if len(ws) < 2 || len(e.nodes) == 0 {
			return "bad-op"
		}
		h, err := strconv.ParseUint(ws[1], 10, 64)
		if err != nil || h < 2 || h > e.nodes[0].exec.VerifHeight() {
			return "bad-op"
		}
		return e.blockAt(h, ws[2:])
	case "lrollback": // lrollback <t> : Ledger.Rollback(t) on every (stopped) replica, then a start
		if len(ws) != 2 || len(e.nodes) == 0 || e.pipe != nil {
			return "bad-op"
		}
		t, err := strconv.ParseUint(ws[1], 10, 64)
		if err != nil {
			return "bad-op"
		}
		out := ""
		for i, n := range e.nodes {
			res := "ok"
			if err := n.ldg.Rollback(t); err != nil {
				switch {
				case strings.Contains(err.Error(), "higher"):
					res = "err:higher"
				case strings.Contains(err.Error(), "too much"):
					res = "err:too-much"
				default:
					res = "err:" + errClass(err.Error())
				}
			}
			if err := n.reopen(); err != nil {
				// chain and state ledger no longer fit together: the node does not start
				return fmt.Sprintf("%s NODE-DOES-NOT-START[%d] %s", res, i, errClass(err.Error()))
			}
			m := n.ldg.GetChainMeta()
			line := fmt.Sprintf("%s h=%d", res, m.Height)
			if m.Height != n.exec.VerifHeight() || n.ldg.Version() != m.Height {
				line += fmt.Sprintf(" STORES-DISAGREE chain=%d state=%d executor=%d", m.Height, n.ldg.Version(), n.exec.VerifHeight())
			}
			line += " ## hash=" + short(m.BlockHash)
			if i == 0 {
				out = line
			} else if line != out {
				out += fmt.Sprintf(" REPLICA-DIVERGED[%d] %s", i, line)
			}
		}
		return out
	case "q":
		return e.query(ws[1:]) + e.pipeDrain(0)
	case "restart":
		i := 0
		if len(ws) > 1 {
			i, _ = strconv.Atoi(ws[1])
		}
		if i >= len(e.nodes) {
			return "bad-op"
		}
		if err := e.nodes[i].reopen(); err != nil {
			return "err " + errClass(err.Error())
		}
		return fmt.Sprintf("ok h=%d", e.nodes[i].exec.VerifHeight())
	}
	return "bad-op"
}

func splitTxs(ws []string) [][]string {
	var out [][]string
	var cur []string
	for _, w := range ws {
		if w == "|" {
			if len(cur) > 0 {
				out = append(out, cur)
			}
			cur = nil
		} else {
			cur = append(cur, w)
		}
	}
	if len(cur) > 0 {
		out = append(out, cur)
	}
	return out
}

var ibtpTypes = map[string]pb.IBTP_Type{"req": pb.IBTP_INTERCHAIN, "ok": pb.IBTP_RECEIPT_SUCCESS, "fail": pb.IBTP_RECEIPT_FAILURE, "rb": pb.IBTP_RECEIPT_ROLLBACK}

func resolveAddr(s string) *types.Address {
	if c, ok := contractAddrs[s]; ok {
		return c.Address()
	}
	if strings.HasPrefix(s, "0x") {
		return types.NewAddressByStr(s)
	}
	return acct(s).addr
}

func (e *execEngine) buildTx(n *node, t []string) (pb.Transaction, bool, error) {
	if strings.HasPrefix(t[0], "sig:") && len(t) > 1 {
		// sig:<ok|empty|bad|short|other|nofrom> <tx...> : the transaction is NOT marked local, so the executor verifies its
		// signature; the signature (or the sender) is mutated as named
		tx, _, err := e.buildTx(n, t[1:])
		if err != nil {
			return nil, false, err
		}
		b := tx.(*pb.BxhTransaction)
		switch t[0][4:] {
		case "ok":
		case "empty":
			b.Signature = nil
		case "bad":
			b.Signature = append([]byte{}, b.Signature...)
			b.Signature[len(b.Signature)/2] ^= 0x40
		case "short":
			b.Signature = []byte{1, 2, 3}
		case "other":
			sg, err := acct("somebody-else").priv.Sign(b.SignHash().Bytes())
			if err != nil {
				return nil, false, err
			}
			b.Signature = sg
		case "nofrom":
			b.From = nil
		case "ethtyp": // declared as signed the Ethereum way, with the BitXHub signature
			b.Typ = pb.TxType_EthSignedBxhTx
		case "ethshort": // ... and a signature of the wrong length (the Ethereum decoder wants exactly 66 bytes)
			b.Typ = pb.TxType_EthSignedBxhTx
			b.Signature = append([]byte{}, b.Signature[:10]...)
		case "ethlong":
			b.Typ = pb.TxType_EthSignedBxhTx
			b.Signature = append(append([]byte{}, b.Signature...), 1, 2, 3, 4, 5, 6, 7)
		case "ethone":
			b.Typ = pb.TxType_EthSignedBxhTx
			b.Signature = []byte{1}
		default:
			return nil, false, fmt.Errorf("bad sig kind")
		}
		return b, false, nil
	}
	if strings.HasPrefix(t[0], "hdr:") && len(t) > 1 {
		// hdr:<noto|tozero> <tx...> : a header field of the (locally submitted) transaction is missing / zero
		tx, loc, err := e.buildTx(n, t[1:])
		if err != nil {
			return nil, false, err
		}
		b, ok := tx.(*pb.BxhTransaction)
		if !ok {
			return nil, false, fmt.Errorf("hdr on non-bxh tx")
		}
		switch t[0][4:] {
		case "noto":
			b.To = nil
		case "tozero":
			b.To = &types.Address{}
		default:
			return nil, false, fmt.Errorf("bad hdr kind")
		}
		b.TransactionHash = nil
		b.TransactionHash = b.Hash()
		return b, loc, nil
	}
	switch t[0] {
	case "xfer": // xfer from to amt
		if len(t) != 4 {
			return nil, false, fmt.Errorf("bad xfer")
		}
		amt := t[3]
		if strings.HasPrefix(amt, "all-") {
			// all-<k>: the sender's balance as the block begins, minus k (to leave an account with less than one fee whatever it
			// earned or paid so far)
			k, ok := new(big.Int).SetString(amt[4:], 10)
			if !ok {
				return nil, false, fmt.Errorf("bad xfer amount")
			}
			bal := n.ldg.GetBalance(acct(t[1]).addr)
			amt = new(big.Int).Sub(bal, k).String()
		}
		return n.xferTx(t[1], resolveAddr(t[2]), amt), true, nil
	case "eth": // eth signer to value gaslimit gasprice : a signed legacy Ethereum transaction (plain value transfer through the EVM)
		if len(t) != 6 {
			return nil, false, fmt.Errorf("bad eth")
		}
		tx, err := n.ethTx(t[1], resolveAddr(t[2]), t[3], t[4], t[5])
		if err != nil {
			return nil, false, err
		}
		return tx, true, nil
	case "ethx": // ethx <kind> signer to value gaslimit gasprice : the same, with the signature damaged after signing
		// kind: flipr (one bit of R flipped) | zeror (R = 0) | highs (S replaced by N - S with the same V) | chain (V of another chain id)
		if len(t) != 7 {
			return nil, false, fmt.Errorf("bad ethx")
		}
		tx, err := n.ethTx(t[2], resolveAddr(t[3]), t[4], t[5], t[6])
		if err != nil {
			return nil, false, err
		}
		if et, ok := tx.(*ethtypes.EthTransaction); ok {
			if inner, ok := et.Inner.(*ethtypes.LegacyTx); ok {
				switch t[1] {
				case "flipr":
					inner.R = new(big.Int).Xor(inner.R, big.NewInt(1<<20))
				case "zeror":
					inner.R = big.NewInt(0)
				case "highs":
					nn, _ := new(big.Int).SetString("fffffffffffffffffffffffffffffffebaaedce6af48a03bbfd25e8cd0364141", 16)
					inner.S = new(big.Int).Sub(nn, inner.S)
				case "chain":
					inner.V = new(big.Int).Add(inner.V, big.NewInt(2*7))
				default:
					return nil, false, fmt.Errorf("bad ethx kind")
				}
			}
		}
		return tx, true, nil
	case "ibtp": // ibtp signer from to idx type timeout group proofkind
		if len(t) < 9 {
			return nil, false, fmt.Errorf("bad ibtp")
		}
		idx, err := strconv.ParseUint(t[4], 10, 64)
		if err != nil {
			return nil, false, err
		}
		typ, ok := ibtpTypes[t[5]]
		if !ok {
			v, err := strconv.Atoi(t[5])
			if err != nil {
				return nil, false, err
			}
			typ = pb.IBTP_Type(v)
		}
		to, err := strconv.ParseInt(t[6], 10, 64)
		if err != nil {
			return nil, false, err
		}
		ibtp := &pb.IBTP{From: fullSvc(t[2]), To: fullSvc(t[3]), Index: idx, Type: typ, TimeoutHeight: to}
		if t[7] != "-" { // group: to1=idx1,to2=idx2
			g := &pb.StringUint64Map{}
			for _, p := range strings.Split(t[7], ",") {
				kvp := strings.SplitN(p, "=", 2)
				if len(kvp) != 2 {
					return nil, false, fmt.Errorf("bad group")
				}
				v, err := strconv.ParseUint(kvp[1], 10, 64)
				if err != nil {
					return nil, false, err
				}
				g.Keys = append(g.Keys, fullSvc(kvp[0]))
				g.Vals = append(g.Vals, v)
			}
			ibtp.Group = g
		}
		if len(t) >= 10 {
			// the Extra field: what a BitXHub puts there when it hands an IBTP back to the hub of its source (a BxhProof naming
			// the status the transaction has over there: the "notice" of C04), or bytes that are no BxhProof at all
			switch t[9] {
			case "x:bf":
				ibtp.Extra, _ = (&pb.BxhProof{TxStatus: pb.TransactionStatus_BEGIN_FAILURE}).Marshal()
			case "x:br":
				ibtp.Extra, _ = (&pb.BxhProof{TxStatus: pb.TransactionStatus_BEGIN_ROLLBACK}).Marshal()
			case "x:ok":
				ibtp.Extra, _ = (&pb.BxhProof{TxStatus: pb.TransactionStatus_SUCCESS}).Marshal()
			case "x:junk":
				ibtp.Extra = []byte{0xff, 0xff, 0xff}
			default:
				return nil, false, fmt.Errorf("bad extra")
			}
		}
		var proof []byte
		switch t[8] {
		case "ok":
			proof = []byte("proof-" + t[2] + t[3] + t[4])
			ibtp.Proof = proofHash(proof)
		case "none":
			proof = nil
		case "false": // the bound rule answers plain false (no error): verdict injected at the proof.Verify boundary
			proof = []byte("plain-false-" + t[2] + t[3] + t[4])
			ibtp.Proof = proofHash(proof)
		case "bad": // hash mismatch
			proof = []byte("proof-x")
			ibtp.Proof = proofHash([]byte("other"))
		default:
			if strings.HasPrefix(t[8], "msig") {
				// an IBTP relayed by another BitXHub: the proof is a BxhProof with signatures of that hub's validators
				// (val-1, val-2, ...) over the IBTP and the status it reports
				// msigd<k>: k signatures, all of them by val-1 (one validator signing k times)
				dup := strings.HasPrefix(t[8], "msigd")
				num := t[8][4:]
				if dup {
					num = t[8][5:]
				}
				k, err := strconv.Atoi(num)
				if err != nil {
					return nil, false, fmt.Errorf("bad proof kind")
				}
				st := pb.TransactionStatus_BEGIN
				switch ibtp.Type {
				case pb.IBTP_RECEIPT_SUCCESS:
					st = pb.TransactionStatus_SUCCESS
				case pb.IBTP_RECEIPT_FAILURE:
					st = pb.TransactionStatus_FAILURE
				case pb.IBTP_RECEIPT_ROLLBACK:
					st = pb.TransactionStatus_ROLLBACK
				}
				digest, err := utils.EncodePackedAndHash(ibtp, st)
				if err != nil {
					return nil, false, err
				}
				bp := &pb.BxhProof{TxStatus: st}
				for i := 1; i <= k; i++ {
					signer := i
					if dup {
						signer = 1
					}
					sg, err := acct(fmt.Sprintf("val-%d", signer)).priv.Sign(digest[:])
					if err != nil {
						return nil, false, err
					}
					bp.MultiSign = append(bp.MultiSign, sg)
				}
				proof, _ = bp.Marshal()
				ibtp.Proof = proofHash(proof)
				return n.ibtpTx(t[1], ibtp, proof), true, nil
			}
			return nil, false, fmt.Errorf("bad proof kind")
		}
		return n.ibtpTx(t[1], ibtp, proof), true, nil
	case "bvm": // bvm signer contract method args...
		if len(t) < 4 {
			return nil, false, fmt.Errorf("bad bvm")
		}
		var args []*pb.Arg
		for _, a := range t[4:] {
			arg, err := parseArg(a)
			if err != nil {
				return nil, false, err
			}
			args = append(args, arg)
		}
		return n.bvmTx(t[1], resolveAddr(t[2]), t[3], args...), true, nil
	case "raw": // raw signer <to|nil> <payload hex|nil> : a BxhTransaction with arbitrary payload bytes
		if len(t) != 4 {
			return nil, false, fmt.Errorf("bad raw")
		}
		var to *types.Address
		if t[2] != "nil" {
			to = resolveAddr(t[2])
		}
		var payload []byte
		if t[3] == "empty" {
			payload = []byte{}
		} else if t[3] != "nil" {
			b, err := hex.DecodeString(t[3])
			if err != nil {
				return nil, false, err
			}
			payload = b
		}
		a := acct(t[1])
		return signTx(a, &pb.BxhTransaction{From: a.addr, To: to, Payload: payload, Timestamp: nextTs(), Nonce: n.nextNonce(t[1])}), true, nil
	case "rawtd": // rawtd signer <to> <type int> <vmtype int> <amount|~> <inner payload hex|nil> : TransactionData with arbitrary fields
		if len(t) != 7 {
			return nil, false, fmt.Errorf("bad rawtd")
		}
		typ, err1 := strconv.Atoi(t[3])
		vmt, err2 := strconv.Atoi(t[4])
		if err1 != nil || err2 != nil {
			return nil, false, fmt.Errorf("bad rawtd numbers")
		}
		amt := t[5]
		if amt == "~" {
			amt = ""
		}
		var inner []byte
		if t[6] == "empty" {
			inner = []byte{}
		} else if t[6] != "nil" {
			b, err := hex.DecodeString(t[6])
			if err != nil {
				return nil, false, err
			}
			inner = b
		}
		td := &pb.TransactionData{Type: pb.TransactionData_Type(typ), VmType: pb.TransactionData_VMType(vmt), Amount: amt, Payload: inner}
		payload, _ := td.Marshal()
		a := acct(t[1])
		var to *types.Address
		if t[2] != "nil" {
			to = resolveAddr(t[2])
		}
		return signTx(a, &pb.BxhTransaction{From: a.addr, To: to, Payload: payload, Timestamp: nextTs(), Nonce: n.nextNonce(t[1])}), true, nil
	}
	return nil, false, fmt.Errorf("unknown tx kind %s", t[0])
}

func (e *execEngine) block(ws []string) string { return e.blockAt(0, ws) }

// proposalCount: how many proposals the account has created so far (GetProposalsByFrom through the view executor)
func (e *execEngine) proposalCount(name string) int {
	r := e.nodes[0].view(constant.GovernanceContractAddr.Address(), "GetProposalsByFrom", pb.String(acct(name).addr.String()))
	if !r.IsSuccess() {
		return 0
	}
	var l []json.RawMessage
	if err := json.Unmarshal(r.Ret, &l); err != nil {
		return 0
	}
	return len(l)
}

func (e *execEngine) blockAt(at uint64, ws []string) string {
	if len(e.nodes) == 0 {
		return "bad-op"
	}
	n0 := e.nodes[0]
	var txs []pb.Transaction
	var local []bool
	for _, t := range splitTxs(ws) {
		if len(t) == 2 && t[0] == "again" {
			// the very same transaction once more (same bytes, same hash): a block may carry a transaction an earlier block
			// carried already — the executor does not look at nonces of BitXHub transactions
			k, err := strconv.Atoi(t[1])
			if err != nil || k < 0 || k >= len(e.txLog)+len(txs) {
				return "bad-op again"
			}
			if k >= len(e.txLog) {
				// a transaction of this very block (the log is extended when the block is complete)
				j := k - len(e.txLog)
				txs = append(txs, copyTxs([]pb.Transaction{txs[j]})[0])
				local = append(local, local[j])
				continue
			}
			txs = append(txs, copyTxs([]pb.Transaction{e.txLog[k]})[0])
			local = append(local, e.txLocal[k])
			continue
		}
		tx, loc, err := e.buildTx(n0, t)
		if err != nil {
			return "bad-op " + err.Error()
		}
		txs = append(txs, tx)
		local = append(local, loc)
	}
	e.txLog = append(e.txLog, copyTxs(txs)...)
	e.txLocal = append(e.txLocal, local...)
	res := make([]string, len(e.nodes))
	if e.pipe != nil {
		// the pipelined replica gets the block first and is not waited for
		cp := copyTxs(txs)
		e.pipeH++
		blk := &pb.Block{
			BlockHeader:  &pb.BlockHeader{Version: []byte("1.0.0"), Number: e.pipeH, Timestamp: nextTs()},
			Transactions: &pb.Transactions{Transactions: cp},
		}
		e.pipeWait = append(e.pipeWait, pipeBlk{h: e.pipeH, txs: cp})
		e.pipe.exec.ExecuteBlock(&pb.CommitEvent{Block: blk, LocalList: local})
	}
	for i, n := range e.nodes {
		// deep copy of the txs for each replica: the executor mutates blocks
		cp := copyTxs(txs)
		if at == 0 {
			n.execBlock(cp, local)
		} else {
			n.execBlockAt(at, cp, local)
		}
		res[i] = blockObs(n, n.exec.VerifHeight(), cp)
	}
	out := res[0]
	for i := 1; i < len(res); i++ {
		if res[i] != res[0] {
			out += fmt.Sprintf(" REPLICA-DIVERGED[%d] %s", i, res[i])
		}
	}
	if e.pipe != nil {
		e.pipeWait[len(e.pipeWait)-1].want = res[0]
		out += e.pipeDrain(1)
	}
	return out
}

var codeRe = regexp.MustCompile(`^call error: ([0-9]{7}):`)

func errClass(s string) string {
	if m := codeRe.FindStringSubmatch(s); m != nil {
		return m[1]
	}
	for _, p := range [][2]string{
		{"proof hash is not correct", "proof-hash"}, {"empty proof", "proof-empty"}, {"proof verify failed", "proof-rule"},
		{"insufficient balance", "fee"}, {"not sufficient funds", "funds"}, {"invalid transfer amount", "bad-amount"}, {"not such method", "no-method"},
		{"parse args", "parse-args"}, {"get bolt contract", "no-contract"}, {"empty transaction data", "empty-data"},
		{"wrong vm type", "wrong-vm"}, {"invalid signature", "bad-sig"}, {"ignature", "bad-sig"}, {"empty receiver", "no-receiver"}, {"empty sender", "bad-sig"}, {"reflect:", "reflect"}, {"runtime error", "runtime"},
		{"call error:", "call-error"},
	} {
		if strings.Contains(s, p[0]) {
			return p[1]
		}
	}
	return "other"
}

func retClass(r *pb.Receipt) string {
	if r.IsSuccess() {
		s := string(r.Ret)
		switch s {
		case "", "batch_ibtp", "begin_failure":
			return "S:" + s
		}
		return "S:*"
	}
	return "F:" + errClass(string(r.Ret))
}

func sortedKeys(m map[string]*pb.StringSlice) []string {
	ks := make([]string, 0, len(m))
	for k := range m {
		ks = append(ks, k)
	}
	sort.Strings(ks)
	return ks
}

// refMerkleRoot: the chain's Merkle tree over leaf hashes, independent of the executor's code: neighbours are hashed in pairs
// (sha256 of left ‖ right), an odd last node is paired with itself on every level, the empty list has the zero hash
func refMerkleRoot(leaves [][]byte) string {
	if len(leaves) == 0 {
		return (&types.Hash{}).String()
	}
	lv := append([][]byte{}, leaves...)
	for {
		if len(lv)%2 == 1 {
			lv = append(lv, lv[len(lv)-1])
		}
		var nxt [][]byte
		for i := 0; i < len(lv); i += 2 {
			hh := sha256.Sum256(append(append([]byte{}, lv[i]...), lv[i+1]...))
			nxt = append(nxt, hh[:])
		}
		if len(nxt) == 1 {
			return types.NewHash(nxt[0]).String()
		}
		lv = nxt
	}
}

func blockObs(n *node, h uint64, txs []pb.Transaction) string {
	blk, err := n.ldg.GetBlock(h, false)
	if err != nil {
		return "err getblock " + err.Error()
	}
	var rc, gas []string
	// receipts by position (the stored list of the height); the transaction-hash index names one position per hash only
	stored, _ := bxhledger.VerifReceiptsAt(n.ldg.ChainLedger, h)
	for i, tx := range txs {
		r, err := n.ldg.GetReceipt(tx.GetHash())
		if len(stored) == len(txs) {
			r, err = stored[i], nil
		}
		if err != nil {
			rc = append(rc, "noreceipt")
			gas = append(gas, "-")
			continue
		}
		rc = append(rc, fmt.Sprintf("%s:%d", retClass(r), int(r.TxStatus)))
		gas = append(gas, fmt.Sprint(r.GasUsed))
	}
	meta, err := n.ldg.GetInterchainMeta(h)
	if err != nil {
		return "err getmeta " + err.Error()
	}
	var cs []string
	{
		ks := make([]string, 0)
		for k := range meta.Counter {
			ks = append(ks, k)
		}
		sort.Strings(ks)
		for _, k := range ks {
			var vs []string
			for _, v := range meta.Counter[k].Slice {
				vs = append(vs, fmt.Sprintf("%d/%d/%d", v.Index, b2i(v.Valid), b2i(v.IsBatch)))
			}
			cs = append(cs, k+":["+strings.Join(vs, ",")+"]")
		}
	}
	// compared part: lists sorted (their order comes out of Go maps); the raw order is kept in the
	// implementation-only part after "##" for the determinism monitor (C01)
	var ts, tsRaw []string
	for _, k := range sortedKeys(meta.TimeoutCounter) {
		tsRaw = append(tsRaw, k+":["+strings.Join(meta.TimeoutCounter[k].Slice, ",")+"]")
		ts = append(ts, k+":["+strings.Join(sortedCopy(meta.TimeoutCounter[k].Slice), ",")+"]")
	}
	var ms, msRaw []string
	for _, k := range sortedKeys(meta.MultiTxCounter) {
		msRaw = append(msRaw, k+":["+strings.Join(meta.MultiTxCounter[k].Slice, ",")+"]")
		ms = append(ms, k+":["+strings.Join(sortedCopy(meta.MultiTxCounter[k].Slice), ",")+"]")
	}
	// the hash link, read back from the store: the parent hash of block h is the hash of the stored block h-1, and the chain
	// meta names block h
	plink := "ok"
	if h > 1 {
		if prev, err := n.ldg.GetBlock(h-1, false); err != nil || blk.BlockHeader.ParentHash == nil || prev.BlockHash.String() != blk.BlockHeader.ParentHash.String() {
			plink = "bad"
		}
	}
	// (a pipelined replica is read one block later: its chain meta may already be further on)
	if m := n.ldg.GetChainMeta(); m.Height < h || (m.Height == h && m.BlockHash.String() != blk.BlockHash.String()) {
		plink += "+meta"
	}
	// the transaction root and the receipt root of the stored header against the Merkle roots recomputed, by an implementation
	// of the tree written here, from the transactions and receipts as they are read back from the store
	if full, err := n.ldg.GetBlock(h, true); err == nil && full.Transactions != nil {
		var tl, rl [][]byte
		okRc := true
		for i, tx := range full.Transactions.Transactions {
			tl = append(tl, tx.GetHash().Bytes())
			r, err := n.ldg.GetReceipt(tx.GetHash())
			if len(stored) == len(full.Transactions.Transactions) {
				r, err = stored[i], nil // the stored list itself (a hash that occurs twice in the block has one index entry)
			}
			if err != nil {
				okRc = false
				break
			}
			rl = append(rl, r.Hash().Bytes())
		}
		if blk.BlockHeader.TxRoot == nil || refMerkleRoot(tl) != blk.BlockHeader.TxRoot.String() {
			plink += "+txroot"
		}
		if okRc && (blk.BlockHeader.ReceiptRoot == nil || refMerkleRoot(rl) != blk.BlockHeader.ReceiptRoot.String()) {
			plink += "+receiptroot"
		}
	}
	rverdict, rcanon := routeObs(n, h)
	return fmt.Sprintf("h=%d rc=[%s] counter={%s} timeout={%s} multi={%s} route={%s} ## rawtimeout={%s} rawmulti={%s} hash=%s sroot=%s troot=%s rroot=%s toroot=%s gas=[%s] plink=%s route=%s",
		h, strings.Join(rc, " "), strings.Join(cs, ";"), strings.Join(ts, ";"), strings.Join(ms, ";"), rcanon,
		strings.Join(tsRaw, ";"), strings.Join(msRaw, ";"),
		short(blk.BlockHash), short(blk.BlockHeader.StateRoot), short(blk.BlockHeader.TxRoot), short(blk.BlockHeader.ReceiptRoot), short(blk.BlockHeader.TimeoutRoot),
		strings.Join(gas, ","), plink, rverdict)
}

func sortedCopy(l []string) []string {
	c := append([]string(nil), l...)
	sort.Strings(c)
	return c
}

func short(h *types.Hash) string {
	if h == nil {
		return "nil"
	}
	return h.String()[2:14]
}

func b2i(b bool) int {
	if b {
		return 1
	}
	return 0
}

// read-only contract call through the view path of the executor
func (n *node) view(contract *types.Address, method string, args ...*pb.Arg) *pb.Receipt {
	a := acct("viewer")
	pl := &pb.InvokePayload{Method: method, Args: args}
	data, _ := pl.Marshal()
	td := &pb.TransactionData{Type: pb.TransactionData_INVOKE, VmType: pb.TransactionData_BVM, Payload: data}
	payload, _ := td.Marshal()
	tx := signTx(a, &pb.BxhTransaction{From: a.addr, To: contract, Payload: payload, Timestamp: nextTs(), Nonce: 0})
	rs := n.viewEx.ApplyReadonlyTransactions([]pb.Transaction{tx})
	if len(rs) != 1 {
		return &pb.Receipt{Status: pb.Receipt_FAILED, Ret: []byte("view failed")}
	}
	return rs[0]
}

func fmtCounter(m map[string]uint64) string {
	ks := make([]string, 0, len(m))
	for k := range m {
		ks = append(ks, k)
	}
	sort.Strings(ks)
	var ps []string
	for _, k := range ks {
		ps = append(ps, fmt.Sprintf("%s=%d", k, m[k]))
	}
	return "{" + strings.Join(ps, ",") + "}"
}

func (e *execEngine) query(ws []string) string {
	if len(e.nodes) == 0 || len(ws) < 1 {
		return "bad-op"
	}
	n := e.nodes[0]
	switch ws[0] {
	case "proofs": // q proofs <tx> | <tx> | ... : the executor's proof-verification fan-out over these transactions (nothing is executed)
		var txs []pb.Transaction
		for _, t := range splitTxs(ws[1:]) {
			tx, _, err := e.buildTx(n, t)
			if err != nil {
				return "bad-op " + err.Error()
			}
			txs = append(txs, tx)
		}
		inv := n.exec.VerifVerifyProofs(txs)
		ks := make([]int, 0, len(inv))
		for k := range inv {
			ks = append(ks, k)
		}
		sort.Ints(ks)
		var ps []string
		for _, k := range ks {
			ps = append(ps, fmt.Sprintf("%d:%s", k, errClass(inv[k])))
		}
		return "inv={" + strings.Join(ps, " ") + "}"
	case "status": // q status <ibtp id or global id>
		r := n.view(constant.TransactionMgrContractAddr.Address(), "GetStatus", pb.String(ws[1]))
		if !r.IsSuccess() {
			return "none"
		}
		return string(r.Ret)
	case "ic": // q ic c1:s1
		r := n.view(constant.InterchainContractAddr.Address(), "GetInterchain", pb.String(fullSvc(ws[1])))
		if !r.IsSuccess() {
			return "none"
		}
		ic := &pb.Interchain{}
		if err := ic.Unmarshal(r.Ret); err != nil {
			return "err unmarshal"
		}
		return fmt.Sprintf("ic=%s rc=%s sic=%s src=%s", fmtCounter(ic.InterchainCounter), fmtCounter(ic.ReceiptCounter),
			fmtCounter(ic.SourceInterchainCounter), fmtCounter(ic.SourceReceiptCounter))
	case "bal":
		b := n.ldg.Copy().GetBalance(resolveAddr(ws[1]))
		// (absolute balances: the Lean driver starts the admins from what the world's prelude leaves them with)
		return b.String()
	case "bals":
		var ps []string
		names := append(append([]string{}, worldUsers...), "ca1", "ca2", "ca3", "ca4", "adm0", "adm1", "adm2", "adm3")
		names = append(names, ws[1:]...) // q bals <extra accounts...>
		for _, a := range names {
			ps = append(ps, a+"="+e.query([]string{"bal", a}))
		}
		return strings.Join(ps, " ")
	case "nonce":
		return fmt.Sprint(n.ldg.Copy().GetNonce(resolveAddr(ws[1])))
	case "svc":
		r := n.view(constant.ServiceMgrContractAddr.Address(), "GetServiceInfo", pb.String(ws[1]))
		if !r.IsSuccess() {
			return "none"
		}
		var s struct {
			Status  string `json:"status"`
			Ordered bool   `json:"ordered"`
		}
		if err := json.Unmarshal(r.Ret, &s); err != nil {
			return "err unmarshal"
		}
		return fmt.Sprintf("%s ordered=%d", s.Status, b2i(s.Ordered))
	case "height":
		return fmt.Sprint(n.ldg.GetChainMeta().Height)
	case "prop": // q prop <@creator-n> : the proposal as GetProposal returns it (implementation-only observation)
		if len(ws) < 2 {
			return "bad-op"
		}
		arg, err := parseArg("s:" + ws[1])
		if err != nil {
			return "bad-op"
		}
		r := n.view(constant.GovernanceContractAddr.Address(), "GetProposal", arg)
		if !r.IsSuccess() {
			return "- ## none"
		}
		p := &contracts.Proposal{}
		if err := json.Unmarshal(r.Ret, p); err != nil {
			return "- ## undecodable"
		}
		var voters []string
		for addr, b := range p.BallotMap {
			voters = append(voters, nameOf(addr)+":"+b.Approve)
		}
		sort.Strings(voters)
		var el []string
		for _, e := range p.ElectorateList {
			el = append(el, fmt.Sprintf("%s:%d", nameOf(e.ID), e.Weight))
		}
		sort.Strings(el)
		b2i := func(b bool) int {
			if b {
				return 1
			}
			return 0
		}
		lock := "-"
		if p.LockProposalId != "" {
			lock = p.LockProposalId
			if k := strings.LastIndex(lock, "-"); k > 0 {
				nm := nameOf(lock[:k])
				if real, err := strconv.Atoi(lock[k+1:]); err == nil {
					lock = "@" + nm + "-" + strconv.Itoa(propGenIndex(nm, real))
				} else {
					lock = "@" + nm + lock[k:]
				}
			}
		}
		return fmt.Sprintf("- ## status=%s a=%d r=%d init=%d avail=%d special=%d super=%d typ=%s ev=%s obj=%s last=%s strat=%s expr=%s end=%s voters=[%s] electorate=[%s] lock=%s",
			p.Status, p.ApproveNum, p.AgainstNum, p.InitialElectorateNum, p.AvailableElectorateNum, b2i(p.IsSpecial), b2i(p.IsSuperAdminVoted),
			p.Typ, p.EventType, strings.ReplaceAll(p.ObjId, " ", "_"), p.ObjLastStatus, p.StrategyType, strings.ReplaceAll(p.StrategyExpression, " ", "_"),
			strings.ReplaceAll(string(p.EndReason), " ", "_"), strings.Join(voters, ","), strings.Join(el, ","), lock)
	case "obj": // q obj <appchain|service|role|rule> <id> : governance status of the object (implementation-only)
		if len(ws) < 3 {
			return "bad-op"
		}
		var r *pb.Receipt
		switch ws[1] {
		case "appchain":
			r = n.view(constant.AppchainMgrContractAddr.Address(), "GetAppchain", pb.String(ws[2]))
		case "service":
			r = n.view(constant.ServiceMgrContractAddr.Address(), "GetServiceInfo", pb.String(ws[2]))
		case "role":
			arg, err := parseArg("s:" + ws[2])
			if err != nil {
				return "bad-op"
			}
			r = n.view(constant.RoleContractAddr.Address(), "GetRoleInfoById", arg)
		case "rule":
			r = n.view(constant.RuleManagerContractAddr.Address(), "GetMasterRule", pb.String(ws[2]))
		case "node":
			arg, err := parseArg("s:" + ws[2])
			if err != nil {
				return "bad-op"
			}
			r = n.view(constant.NodeManagerContractAddr.Address(), "GetNode", arg)
		default:
			return "bad-op"
		}
		if !r.IsSuccess() {
			return "- ## none"
		}
		var m map[string]interface{}
		if err := json.Unmarshal(r.Ret, &m); err != nil {
			return "- ## undecodable"
		}
		if ws[1] == "role" {
			return fmt.Sprintf("- ## status=%v type=%v", m["status"], m["role_type"])
		}
		if ws[1] == "rule" {
			return fmt.Sprintf("- ## status=%v addr=%v master=%v", m["status"], m["address"], m["master"])
		}
		return fmt.Sprintf("- ## status=%v", m["status"])
	case "dumpdiff":
		// implementation-only: storage keys on which replica i differs from replica 0
		base := strings.Fields(n.dumpState(e.admInit))
		var out []string
		for i := 1; i < len(e.nodes); i++ {
			other := map[string]bool{}
			for _, x := range strings.Fields(e.nodes[i].dumpState(e.admInit)) {
				other[x] = true
			}
			for _, x := range base {
				if !other[x] {
					out = append(out, fmt.Sprintf("r%d:%s", i, x))
					if os.Getenv("VERIF_STACK") != "" {
						parts := strings.SplitN(strings.SplitN(x, "=", 2)[0], "/", 2)
						if c, ok := contractAddrs[parts[0]]; ok && len(parts) == 2 {
							_, v0 := n.ldg.Copy().GetState(c.Address(), []byte(parts[1]))
							_, vi := e.nodes[i].ldg.Copy().GetState(c.Address(), []byte(parts[1]))
							fmt.Fprintf(os.Stderr, "DIFF %s r0=%q r%d=%q\n", x, string(v0), i, string(vi))
						}
					}
				}
			}
		}
		return "- ## " + strings.Join(out, " ")
	case "gtx": // q gtx <child ibtp id> : the one-to-many record the child belongs to: global state, height, declared count, child states
		if len(ws) < 2 {
			return "bad-op"
		}
		led := n.ldg.Copy()
		addr := constant.TransactionMgrContractAddr.Address()
		ok, gid := led.GetState(addr, []byte(ws[1]))
		if !ok {
			return "none"
		}
		ok, data := led.GetState(addr, []byte(contracts.GlobalTxInfoKey(string(gid))))
		if !ok {
			return "none"
		}
		info := contracts.TransactionInfo{}
		if err := json.Unmarshal(data, &info); err != nil {
			return "err unmarshal"
		}
		var cs []string
		for id, st := range info.ChildTxInfo {
			cs = append(cs, fmt.Sprintf("%s=%d", id, int(st)))
		}
		sort.Strings(cs)
		return fmt.Sprintf("g=%d h=%d n=%d children=[%s]", int(info.GlobalState), info.Height, info.ChildTxCount, strings.Join(cs, ","))
	case "dump":
		// implementation-only observation: every committed storage key of every built-in contract (hashed values),
		// balances and nonces of all named accounts.  The model does not predict it ("-").
		return "- ## " + n.dumpState(e.admInit)
	case "view": // q view <contract> <method> args... : read-only execution through the view executor
		var args []*pb.Arg
		for _, a := range ws[3:] {
			arg, err := parseArg(a)
			if err != nil {
				return "bad-op"
			}
			args = append(args, arg)
		}
		r := n.view(resolveAddr(ws[1]), ws[2], args...)
		// what the view ledger itself reads for the simulated sender afterwards (it never sends a real transaction and holds
		// nothing): anything but 0/0 is state a read-only execution left behind
		v := acct("viewer").addr
		return fmt.Sprintf("- ## %s vstate=%d/%s", retClass(r), n.viewLdg.GetNonce(v), n.viewLdg.GetBalance(v).String())
	}
	return "bad-op"
}

func (n *node) dumpState(admInit map[string]*big.Int) string {
	var parts []string
	names := make([]string, 0, len(contractAddrs))
	for name := range contractAddrs {
		names = append(names, name)
	}
	sort.Strings(names)
	for _, name := range names {
		addr := contractAddrs[name].Address()
		begin := addr.Bytes()
		end := append([]byte{}, begin...)
		end[len(end)-1]++
		it := n.stateDB.Iterator(begin, end)
		for it.Next() {
			k := string(it.Key()[len(begin):])
			h := sha256.Sum256(it.Value())
			parts = append(parts, fmt.Sprintf("%s/%s=%x", name, strings.ReplaceAll(k, " ", "_"), h[:4]))
		}
	}
	accts := append(append([]string{}, worldUsers...), "ca1", "ca2", "ca3", "ca4", "adm0", "adm1", "adm2", "adm3", "viewer")
	led := n.ldg.Copy()
	for _, a := range accts {
		parts = append(parts, fmt.Sprintf("bal/%s=%s", a, led.GetBalance(acct(a).addr).String()))
		parts = append(parts, fmt.Sprintf("nonce/%s=%d", a, led.GetNonce(acct(a).addr)))
	}
	return strings.Join(parts, " ")
}
