//go:build verif

package main

import (
	"math"
	"context"
	"crypto/sha256"
	"fmt"
	"sort"
	"strconv"
	"strings"
	"time"

	"github.com/meshplus/bitxhub-kit/types"
	"github.com/meshplus/bitxhub-model/pb"
	"github.com/meshplus/bitxhub/pkg/order/mempool"
)

// pool engine: the real mempoolImpl driven op by op (single-threaded, as the order node does)
type poolEngine struct {
	mp        mempool.MemPool
	cfg       mempool.Config
	ledger    map[string]uint64
	groupTime map[int]int64 // logical arrival group -> wall clock (ns) right after the group was inserted
	lastGroup int
	known     map[string]bool // tx hash names seen
	hashName  map[string]string
	batches   [][]string // hash names of the batches produced and not yet committed (oldest first)
}

func init() { engines["pool"] = func() engine { return &poolEngine{} } }
func (e *poolEngine) close()  {}

func pAddr(name string) *types.Address { return lAddr(name) }

func pName(addr string) string { return addrName(addr) }

func parseLedger(s string) map[string]uint64 {
	m := map[string]uint64{}
	for _, p := range strings.Split(s, ",") {
		kv := strings.SplitN(p, ":", 2)
		if len(kv) == 2 {
			v, _ := strconv.ParseUint(kv[1], 10, 64)
			m[kv[0]] = v
		}
	}
	return m
}

func (e *poolEngine) newPool(seq uint64) {
	cfg := e.cfg
	cfg.ChainHeight = seq
	cfg.Logger = quietLogger
	cfg.GetAccountNonce = func(a *types.Address) uint64 { return e.ledger[pName(a.String())] }
	e.mp = mempool.NewMemPool(&cfg)
}

func hashOf(name string) *types.Hash {
	h := sha256.Sum256([]byte("txhash-" + name))
	return types.NewHash(h[:])
}

func (e *poolEngine) mkTx(spec string) (pb.Transaction, error) {
	// a:n:h:ts
	p := strings.Split(spec, ":")
	if len(p) != 4 {
		return nil, fmt.Errorf("bad tx spec")
	}
	n, err1 := strconv.ParseUint(p[1], 10, 64)
	ts, err2 := strconv.ParseInt(p[3], 10, 64)
	if err1 != nil || err2 != nil {
		return nil, fmt.Errorf("bad tx spec")
	}
	h := hashOf(p[2])
	e.hashName[h.String()] = p[2]
	return &pb.BxhTransaction{From: pAddr(p[0]), To: pAddr("a7"), Nonce: n, Timestamp: 1000000 + ts, TransactionHash: h}, nil
}

func (e *poolEngine) showBatch(b interface {
	GetHeight() uint64
}, txs []pb.Transaction) string {
	var ps []string
	for _, tx := range txs {
		if tx == nil {
			ps = append(ps, "nil")
			continue
		}
		ps = append(ps, fmt.Sprintf("%s:%d:%s", pName(tx.GetFrom().String()), tx.GetNonce(), e.hashName[tx.GetHash().String()]))
	}
	var hs []string
	for _, tx := range txs {
		if tx != nil {
			hs = append(hs, e.hashName[tx.GetHash().String()])
		}
	}
	e.batches = append(e.batches, hs)
	return fmt.Sprintf("batch=[%s]@%d", strings.Join(ps, " "), b.GetHeight())
}

func (e *poolEngine) step(ws []string) string {
	switch ws[0] {
	case "txcache": // txcache size=<k> n=<n> [nil=<i>] : the real TxCache (ListenEvent goroutine, set size k, tick 40ms) is fed n
		// transactions (a nil one at position i), the sets it posts are collected until it has been silent for 500ms (12 ticks)
		o := kv(ws[1:])
		k, _ := strconv.ParseUint(o["size"], 10, 64)
		n, _ := strconv.Atoi(o["n"])
		nilAt := -1
		if v, ok := o["nil"]; ok {
			nilAt, _ = strconv.Atoi(v)
		}
		if n > 3000 {
			return "bad-op"
		}
		tc := mempool.NewTxCache(40*time.Millisecond, k, quietLogger)
		ctx, cancel := context.WithCancel(context.Background())
		defer cancel()
		go tc.ListenEvent(ctx)
		var sets []string
		empties := 0
		seen := 0
		inOrder := true
		done := make(chan struct{})
		go func() {
			defer close(done)
			for {
				select {
				case set := <-tc.TxSetC:
					for _, tx := range set.Transactions {
						if tx.GetNonce() != uint64(seen) {
							inOrder = false
						}
						seen++
					}
					if len(set.Transactions) == 0 {
						// a tick of an earlier generation whose timer goroutine missed its stop signal posts an empty set:
						// nothing is lost by it; counted apart (the number depends on goroutine scheduling)
						empties++
						continue
					}
					sets = append(sets, fmt.Sprint(len(set.Transactions)))
				case <-time.After(500 * time.Millisecond):
					return
				}
			}
		}()
		sent := 0
		for i := 0; i < n; i++ {
			if i == nilAt {
				tc.RecvTxC <- nil
				continue
			}
			tc.RecvTxC <- &pb.BxhTransaction{From: pAddr("a0"), To: pAddr("a7"), Nonce: uint64(sent), TransactionHash: hashOf(fmt.Sprintf("tc%d", sent))}
			sent++
		}
		<-done
		return fmt.Sprintf("sets=[%s] order=%d ## empty-sets=%d", strings.Join(sets, " "), b2i(inOrder), empties)
	case "reset":
		e.mp = nil
		return "ok"
	case "new": // new batch=<n> pool=<n> timed=<0|1> seq=<n> ledger=a0:n,...
		o := kv(ws[1:])
		bs, _ := strconv.ParseUint(o["batch"], 10, 64)
		ps, _ := strconv.ParseUint(o["pool"], 10, 64)
		seq, _ := strconv.ParseUint(o["seq"], 10, 64)
		e.cfg = mempool.Config{ID: 1, BatchSize: bs, PoolSize: ps, IsTimed: o["timed"] == "1"}
		e.ledger = parseLedger(o["ledger"])
		e.groupTime = map[int]int64{}
		e.hashName = map[string]string{}
		e.lastGroup = 0
		e.batches = nil
		e.newPool(seq)
		return "ok"
	}
	if e.mp == nil {
		return "bad-op"
	}
	switch ws[0] {
	case "proc": // proc leader=<0|1> local=<0|1> g=<group> tx...
		o := kv(ws[1:4])
		g, _ := strconv.Atoi(o["g"])
		if g != e.lastGroup {
			// make arrival times of different groups clearly distinct (the eviction op needs a duration that separates them; a
			// stall of the process between its clock reading and the pool's own must stay below half the gap)
			time.Sleep(12 * time.Millisecond)
		}
		var txs []pb.Transaction
		for _, s := range ws[4:] {
			tx, err := e.mkTx(s)
			if err != nil {
				return "bad-op"
			}
			txs = append(txs, tx)
		}
		b := e.mp.ProcessTransactions(txs, o["leader"] == "1", o["local"] == "1")
		e.lastGroup = g
		e.groupTime[g] = time.Now().UnixNano()
		if b == nil {
			return "none"
		}
		return e.showBatch(b, b.TxList.Transactions)
	case "gen":
		b := e.mp.GenerateBlock()
		if b == nil {
			return "none"
		}
		return e.showBatch(b, b.TxList.Transactions)
	case "commit": // commit h1 h2 ...
		st := &mempool.ChainState{}
		for _, n := range ws[1:] {
			st.TxHashList = append(st.TxHashList, hashOf(n))
		}
		e.mp.CommitTransactions(st)
		return "ok"
	case "commitready": // commitready <j> : a block of another leader commits up to j ready transactions this pool never batched
		j := 1
		if len(ws) > 1 {
			j, _ = strconv.Atoi(ws[1])
		}
		st := &mempool.ChainState{}
		var names []string
		for _, h := range mempool.VerifReadyNeverBatched(e.mp, j) {
			st.TxHashList = append(st.TxHashList, h)
			names = append(names, e.hashName[h.String()])
		}
		if len(names) == 0 {
			return "none"
		}
		e.mp.CommitTransactions(st)
		return "ok " + strings.Join(names, ",")
	case "commitlast": // commitlast all | first:<j> | rev : commit (part of) the oldest uncommitted batch
		if len(e.batches) == 0 {
			return "nobatch"
		}
		hs := e.batches[0]
		mode := "all"
		if len(ws) > 1 {
			mode = ws[1]
		}
		var use []string
		switch {
		case mode == "all":
			use = hs
			e.batches = e.batches[1:]
		case mode == "rev":
			for i := len(hs) - 1; i >= 0; i-- {
				use = append(use, hs[i])
			}
			e.batches = e.batches[1:]
		case strings.HasPrefix(mode, "last:"): // the last j hashes of the oldest batch (a partial notification that skips the lower nonces)
			j, _ := strconv.Atoi(mode[5:])
			if j >= len(hs) {
				use = hs
				e.batches = e.batches[1:]
			} else {
				use = hs[len(hs)-j:]
				e.batches[0] = hs[:len(hs)-j]
			}
		case mode == "second": // the second-oldest batch first (notifications of two batches arriving in reverse order)
			if len(e.batches) < 2 {
				return "nobatch"
			}
			use = e.batches[1]
			e.batches = append([][]string{e.batches[0]}, e.batches[2:]...)
		case strings.HasPrefix(mode, "first:"):
			j, _ := strconv.Atoi(mode[6:])
			if j > len(hs) {
				j = len(hs)
			}
			use = hs[:j]
			if j == len(hs) {
				e.batches = e.batches[1:]
			} else {
				e.batches[0] = hs[j:]
			}
		default:
			return "bad-op"
		}
		st := &mempool.ChainState{}
		for _, n := range use {
			st.TxHashList = append(st.TxHashList, hashOf(n))
		}
		e.mp.CommitTransactions(st)
		return "ok " + strings.Join(use, ",")
	case "fcommit": // fcommit <account> <nonce>: a block of another leader committed that nonce; this node never had the tx
		n, _ := strconv.ParseUint(ws[2], 10, 64)
		if e.ledger[ws[1]] < n+1 {
			e.ledger[ws[1]] = n + 1
		}
		st := &mempool.ChainState{TxHashList: []*types.Hash{hashOf(fmt.Sprintf("foreign-%s-%d", ws[1], n))}}
		e.mp.CommitTransactions(st)
		return "ok"
	case "evict": // evict cut=<group>: remove what arrived in groups <= cut (subject to the pool's rule)
		o := kv(ws[1:])
		cut, _ := strconv.Atoi(o["cut"])
		time.Sleep(12 * time.Millisecond)
		now := time.Now().UnixNano()
		// duration so that groups <= cut are older than it and groups > cut are younger
		var older, younger int64 = -1, -1
		gs := make([]int, 0)
		for g := range e.groupTime {
			gs = append(gs, g)
		}
		sort.Ints(gs)
		for _, g := range gs {
			if g <= cut {
				older = e.groupTime[g]
			} else if younger < 0 {
				younger = e.groupTime[g]
			}
		}
		var d int64
		switch {
		case older < 0:
			d = now // nothing is old enough
		case younger < 0:
			d = (now - older) / 2
		default:
			// arrival stamps of group g are <= groupTime[g]; those of the next group are > groupTime[g] + 12ms
			d = now - older - 6000000
		}
		switch o["tol"] { // an extreme tolerance ("never", or centuries): nothing is that old, whatever cut says (given as cut=0)
		case "max":
			d = math.MaxInt64
		case "250y":
			d = int64(250 * 365 * 24 * time.Hour)
		}
		n := e.mp.RemoveAliveTimeoutTxs(time.Duration(d))
		return fmt.Sprintf("removed=%d", n)
	case "setseq":
		n, _ := strconv.ParseUint(ws[1], 10, 64)
		e.mp.SetBatchSeqNo(n)
		return "ok"
	case "restart": // restart seq=<n> ledger=...
		o := kv(ws[1:])
		seq, _ := strconv.ParseUint(o["seq"], 10, 64)
		e.ledger = parseLedger(o["ledger"])
		e.groupTime = map[int]int64{}
		e.batches = nil
		e.newPool(seq)
		return "ok"
	case "obs": // obs accounts=a0,a1 hashes=h1,h2
		o := kv(ws[1:])
		var pn, has []string
		for _, a := range strings.Split(o["accounts"], ",") {
			if a != "" {
				pn = append(pn, fmt.Sprintf("%s:%d", a, e.mp.GetPendingNonceByAccount(pAddr(a).String())))
			}
		}
		for _, h := range strings.Split(o["hashes"], ",") {
			if h == "" {
				continue
			}
			tx := e.mp.GetTransaction(hashOf(h))
			if tx == nil {
				has = append(has, h+":-")
			} else {
				has = append(has, fmt.Sprintf("%s:%s/%d/%s", h, pName(tx.GetFrom().String()), tx.GetNonce(), e.hashName[tx.GetHash().String()]))
			}
		}
		pr, pk, bt, hs, nb := mempool.VerifSizes(e.mp)
		return fmt.Sprintf("pending=%d full=%d pn={%s} has={%s} prio=%d park=%d batched=%d hashes=%d nonbatch=%d",
			b2i(e.mp.HasPendingRequest()), b2i(e.mp.IsPoolFull()), strings.Join(pn, " "), strings.Join(has, " "), pr, pk, bt, hs, nb)
	}
	return "bad-op"
}
