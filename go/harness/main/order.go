//go:build verif

package main

import (
	"fmt"
	"strconv"
	"strings"
	"time"

	"github.com/coreos/etcd/raft/raftpb"
	"github.com/meshplus/bitxhub/pkg/order/etcdraft"
)

// order engine: the raft apply loop (entriesToApply, publishEntries, reportState, maybeTriggerSnapshot,
// restart from the same storage) of the real etcdraft.Node
type orderEngine struct {
	dir       string
	v         *etcdraft.VerifNode
	ledger    uint64 // executed (persisted) height
	snapCount uint64
}

func init() { engines["order"] = func() engine { return &orderEngine{} } }

func (e *orderEngine) close() {
	if e.v != nil {
		e.v.Close()
		e.v = nil
	}
	rmDir(e.dir)
	e.dir = ""
}

func fmtHeights(hs []uint64) string {
	var ps []string
	for _, h := range hs {
		ps = append(ps, fmt.Sprint(h))
	}
	return "[" + strings.Join(ps, " ") + "]"
}

func (e *orderEngine) state() string {
	le, ap, sn, pe, q := e.v.State()
	return fmt.Sprintf("lastExec=%d applied=%d snap=%d persisted=%d queued=%d ledger=%d", le, ap, sn, pe, q, e.ledger)
}

func (e *orderEngine) step(ws []string) string {
	switch ws[0] {
	case "reset":
		e.close()
		return "ok"
	case "livefollower": // livefollower delay=<ms>: a real Node (NewNode + Start) as follower of a scripted leader; see zz_verif_live.go
		o := kv(ws[1:])
		ms, _ := strconv.ParseUint(o["delay"], 10, 64)
		// the run depends on real timers (raft ticks, the slowed store): an attempt that did not get through on a loaded machine —
		// bootstrap not stored in time, nothing acknowledged or delivered — is repeated once; an early acknowledgement is never retried away
		var r etcdraft.VerifLive
		var err error
		for attempt := 0; attempt < 2; attempt++ {
			dir := mustTempDir("bxhverif-live-")
			r, err = etcdraft.VerifLiveFollower(dir, time.Duration(ms)*time.Millisecond, quietLogger)
			rmDir(dir)
			if r.Early || (err == nil && r.Acked == 1 && r.Delivered == 2) {
				break
			}
		}
		if err != nil && !r.Early {
			return "err " + err.Error()
		}
		early := 0
		if r.Early {
			early = 1
		}
		return fmt.Sprintf("acked=%d early=%d delivered=%d", r.Acked, early, r.Delivered)
	case "raft": // raft new lastExec=<n> snapcount=<n>
		e.close()
		o := kv(ws[2:])
		le, _ := strconv.ParseUint(o["lastExec"], 10, 64)
		sc, _ := strconv.ParseUint(o["snapcount"], 10, 64)
		e.dir = mustTempDir("bxhverif-o-")
		e.ledger, e.snapCount = le, sc
		v, err := etcdraft.VerifNewNode(e.dir, le, sc, quietLogger)
		if err != nil {
			return "err " + err.Error()
		}
		e.v = v
		return "ok " + e.state()
	}
	if e.v == nil {
		return "bad-op"
	}
	switch ws[0] {
	case "ready": // ready idx:height idx:e ...
		var ents []raftpb.Entry
		for _, s := range ws[1:] {
			p := strings.SplitN(s, ":", 2)
			idx, _ := strconv.ParseUint(p[0], 10, 64)
			if p[1] == "e" {
				ents = append(ents, etcdraft.VerifEntry(idx, 0, true))
			} else {
				h, _ := strconv.ParseUint(p[1], 10, 64)
				ents = append(ents, etcdraft.VerifEntry(idx, h, false))
			}
		}
		minted := e.v.Ready(ents, true)
		return "mint=" + fmtHeights(minted) + " " + e.state()
	case "install": // install <idx> <height>: raft hands over a snapshot (a follower that fell behind); catch-up through the syncer
		idx, _ := strconv.ParseUint(ws[1], 10, 64)
		h, _ := strconv.ParseUint(ws[2], 10, 64)
		le, ap, _, _, _ := e.v.State()
		if h < le || idx <= ap {
			return "bad-op" // raft never hands over a snapshot behind what was applied (recoverFromSnapshot would not terminate)
		}
		minted, err := e.v.InstallSnapshot(idx, h, e.ledger)
		if err != nil {
			return "err " + err.Error()
		}
		return "mint=" + fmtHeights(minted) + " " + e.state()
	case "exec":
		h := e.v.Execute()
		if h == 0 {
			return "idle"
		}
		e.ledger = h
		return fmt.Sprintf("executed=%d", h)
	case "drain": // the executor consumes everything queued
		var hs []uint64
		for {
			h := e.v.Execute()
			if h == 0 {
				break
			}
			e.ledger = h
			hs = append(hs, h)
		}
		return "drained=" + fmtHeights(hs)
	case "report-last": // report the height executed last (what feedhub does after persisting a block)
		if e.ledger == 0 {
			return "persisted=0"
		}
		p := e.v.Report(e.ledger)
		return fmt.Sprintf("persisted=%d", p)
	case "report-back": // report-back k: the (late / repeated) report of the executed height ledger-k
		k, _ := strconv.ParseUint(ws[1], 10, 64)
		if e.ledger <= k {
			return "persisted=skip"
		}
		p := e.v.Report(e.ledger - k)
		return fmt.Sprintf("persisted=%d", p)
	case "report":
		h, _ := strconv.ParseUint(ws[1], 10, 64)
		p := e.v.Report(h)
		return fmt.Sprintf("persisted=%d", p)
	case "snapshot":
		s := e.v.Snapshot()
		return fmt.Sprintf("snap=%d", s)
	case "restart": // crash + restart: volatile state is lost, the node is rebuilt from the same storage; raft re-delivers
		e.v.Close()
		v, err := etcdraft.VerifNewNode(e.dir, e.ledger, e.snapCount, quietLogger)
		if err != nil {
			return "err " + err.Error()
		}
		e.v = v
		ents := e.v.Redeliver()
		minted := e.v.Ready(ents, false)
		t, vt, c := e.v.HardState()
		return fmt.Sprintf("redelivered=%d mint=%s %s hs=%d/%d/%d", len(ents), fmtHeights(minted), e.state(), t, vt, c)
	case "hs": // hs <term> <vote> <commit>: a Ready without entries and without a snapshot (a vote granted, a higher term seen)
		t, _ := strconv.ParseUint(ws[1], 10, 64)
		vt, _ := strconv.ParseUint(ws[2], 10, 64)
		c, _ := strconv.ParseUint(ws[3], 10, 64)
		if err := e.v.StoreHardState(t, vt, c); err != nil {
			return "err " + err.Error()
		}
		return "ok"
	case "state":
		return e.state()
	}
	return "bad-op"
}
