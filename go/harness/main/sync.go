//go:build verif

package main

import (
	"fmt"
	"strconv"
	"strings"
	"sync"
	"time"

	orderPeerMgr "github.com/meshplus/bitxhub-core/peer-mgr"
	"github.com/meshplus/bitxhub-kit/types"
	"github.com/meshplus/bitxhub-model/pb"
	"github.com/meshplus/bitxhub/pkg/order/syncer"
)

// fakePeers answers GET_BLOCKS / GET_BLOCK_HEADERS out of a synthetic hash-linked chain.  Peer `bad` (0: none) fails its
// first `failN` requests; every request that was answered is recorded.
type fakePeers struct {
	orderPeerMgr.OrderPeerManager
	mu     sync.Mutex
	chain  map[uint64]*pb.Block
	bad    uint64
	failN  int
	served [][2]uint64
}

func (f *fakePeers) Send(id orderPeerMgr.KeyType, m *pb.Message) (*pb.Message, error) {
	f.mu.Lock()
	defer f.mu.Unlock()
	if pid, ok := id.(uint64); ok && pid == f.bad && f.failN > 0 {
		f.failN--
		return nil, fmt.Errorf("peer %d unreachable", pid)
	}
	switch m.Type {
	case pb.Message_GET_BLOCKS:
		req := &pb.GetBlocksRequest{}
		if err := req.Unmarshal(m.Data); err != nil {
			return nil, err
		}
		res := &pb.GetBlocksResponse{}
		for h := req.Start; h <= req.End; h++ {
			if b, ok := f.chain[h]; ok {
				res.Blocks = append(res.Blocks, b)
			}
		}
		f.served = append(f.served, [2]uint64{req.Start, req.End})
		data, _ := res.Marshal()
		return &pb.Message{Type: pb.Message_GET_BLOCKS_ACK, Data: data}, nil
	case pb.Message_GET_BLOCK_HEADERS:
		req := &pb.GetBlockHeadersRequest{}
		if err := req.Unmarshal(m.Data); err != nil {
			return nil, err
		}
		res := &pb.GetBlockHeadersResponse{}
		for h := req.Start; h <= req.End; h++ {
			if b, ok := f.chain[h]; ok {
				res.BlockHeaders = append(res.BlockHeaders, b.BlockHeader)
			}
		}
		data, _ := res.Marshal()
		return &pb.Message{Type: pb.Message_GET_BLOCK_HEADERS_ACK, Data: data}, nil
	}
	return nil, fmt.Errorf("unexpected message")
}

func mkChain(upto uint64) (map[uint64]*pb.Block, *types.Hash) {
	chain := map[uint64]*pb.Block{}
	parent := types.NewHashByStr("0x0000000000000000000000000000000000000000000000000000000000000000")
	var genesis *types.Hash
	for h := uint64(1); h <= upto; h++ {
		b := &pb.Block{BlockHeader: &pb.BlockHeader{Number: h, ParentHash: parent, Version: []byte("1.0.0"), Timestamp: int64(1000 + h)},
			Transactions: &pb.Transactions{}}
		b.BlockHash = b.Hash()
		chain[h] = b
		parent = b.BlockHash
		if h == 1 {
			genesis = b.BlockHash
		}
	}
	_ = genesis
	return chain, parent
}

// runSync: SyncCFTBlocks / SyncBFTBlocks of the real syncer over the fake peers; the delivered block numbers (to the nil
// that ends the stream) and the answered block requests, in order
func runSync(bft bool, begin, end, fetch, bad uint64, failN int) string {
	if end > 4000 || begin == 0 {
		return "bad-op"
	}
	chain, _ := mkChain(end + 2)
	fp := &fakePeers{chain: chain, bad: bad, failN: failN}
	s, err := syncer.New(fetch, fp, 2, []uint64{1, 2, 3}, quietLogger)
	if err != nil {
		return "err new"
	}
	ch := make(chan *pb.Block, 8192)
	done := make(chan error, 1)
	go func() {
		if bft {
			var parent *types.Hash
			if begin > 1 {
				parent = chain[begin-1].BlockHash
			} else {
				parent = chain[1].BlockHeader.ParentHash
			}
			done <- s.SyncBFTBlocks(begin, end, parent, ch)
		} else {
			done <- s.SyncCFTBlocks(begin, end, ch)
		}
	}()
	select {
	case err := <-done:
		if err != nil {
			return "err"
		}
	case <-time.After(20 * time.Second):
		return "HANG"
	}
	var got []string
	closed := false
loop:
	for {
		select {
		case b := <-ch:
			if b == nil {
				closed = true
				break loop
			}
			got = append(got, fmt.Sprint(b.BlockHeader.Number))
		default:
			break loop
		}
	}
	var reqs []string
	for _, r := range fp.served {
		reqs = append(reqs, fmt.Sprintf("%d-%d", r[0], r[1]))
	}
	tail := "end"
	if !closed {
		tail = "no-end-marker"
	}
	return "blocks=[" + strings.Join(got, " ") + "] " + tail + " requests=[" + strings.Join(reqs, " ") + "]"
}

type syncEngine struct{}

func init() { engines["sync"] = func() engine { return &syncEngine{} } }

func (e *syncEngine) close() {}

func (e *syncEngine) step(ws []string) string {
	switch ws[0] {
	case "cft", "bft": // cft <begin> <end> <fetch> [<bad peer> <failures>] : the real SyncCFTBlocks / SyncBFTBlocks over fake peers
		if len(ws) != 4 && len(ws) != 6 {
			return "bad-op"
		}
		b, e1 := strconv.ParseUint(ws[1], 10, 64)
		en, e2 := strconv.ParseUint(ws[2], 10, 64)
		f, e3 := strconv.ParseUint(ws[3], 10, 64)
		if e1 != nil || e2 != nil || e3 != nil {
			return "bad-op"
		}
		var bad uint64
		failN := 0
		if len(ws) == 6 {
			bad, _ = strconv.ParseUint(ws[4], 10, 64)
			failN, _ = strconv.Atoi(ws[5])
		}
		return runSync(ws[0] == "bft", b, en, f, bad, failN)
	case "ranges":
		if len(ws) != 4 {
			return "bad-op"
		}
		b, e1 := strconv.ParseUint(ws[1], 10, 64)
		en, e2 := strconv.ParseUint(ws[2], 10, 64)
		f, e3 := strconv.ParseUint(ws[3], 10, 64)
		if e1 != nil || e2 != nil || e3 != nil {
			return "bad-op"
		}
		rs, err := syncer.VerifCalcRange(b, en, f)
		if err != nil {
			return "err"
		}
		parts := make([]string, len(rs))
		for i, r := range rs {
			parts[i] = fmt.Sprintf("%d-%d", r[0], r[1])
		}
		return "[" + strings.Join(parts, " ") + "]"
	}
	return "bad-op"
}
