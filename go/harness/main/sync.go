//go:build verif

package main

import (
	"fmt"
	"strconv"
	"strings"

	"github.com/meshplus/bitxhub/pkg/order/syncer"
)

type syncEngine struct{}

func init() { engines["sync"] = func() engine { return &syncEngine{} } }

func (e *syncEngine) close() {}

func (e *syncEngine) step(ws []string) string {
	switch ws[0] {
	case "ranges":
		if len(ws) != 4 {
			return "bad-op"
		}
		b, e1 := strconv.ParseUint(ws[1], 10, 64)
		en, e2 := strconv.ParseUint(ws[2], 10, 64)
		f, e3 := strconv.ParseUint(ws[3], 10, 64)
		if e1 != nil || e2 != nil || e3 != nil {
			return "bad-op"
		}
		rs, err := syncer.VerifCalcRange(b, en, f)
		if err != nil {
			return "err"
		}
		parts := make([]string, len(rs))
		for i, r := range rs {
			parts[i] = fmt.Sprintf("%d-%d", r[0], r[1])
		}
		return "[" + strings.Join(parts, " ") + "]"
	}
	return "bad-op"
}
