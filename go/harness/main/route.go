//go:build verif

package main

import (
	"fmt"
	"strings"

	"github.com/meshplus/bitxhub-model/pb"
	"github.com/meshplus/bitxhub/internal/router"
)

// The interchain router (internal/router) is what hands a block's delivery sets to the piers: per destination the
// transactions named by InterchainMeta.Counter (in that order, with their flags), the timed-out ids of
// TimeoutCounter and the one-to-many notifications of MultiTxCounter — once over the subscription feed when the block
// is executed (PutBlockAndMeta) and once more whenever a pier asks for a height again (GetInterchainTxWrappers).
// routeObs runs both paths of the real router for block h and compares what each pier is handed with the block's
// interchain meta: "ok", or "bad:<path>:<pier>:<what>".

var routePiers = []string{"c1", "c2", "c3", "c4", "default_union_pier_id", "c9"}

type routeState struct {
	r   *router.InterchainRouter
	chs map[string]chan *pb.InterchainTxWrappers
}

func (n *node) route() *routeState {
	if n.rt != nil {
		return n.rt
	}
	r, err := router.New(quietLogger, n.rep, n.ldg, nil, 0)
	if err != nil {
		return nil
	}
	rs := &routeState{r: r, chs: map[string]chan *pb.InterchainTxWrappers{}}
	for _, p := range routePiers {
		c, _ := r.AddPier(p)
		rs.chs[p] = c
	}
	n.rt = rs
	return rs
}

func routeObs(n *node, h uint64) string {
	rs := n.route()
	if rs == nil {
		return "norouter"
	}
	blk, err := n.ldg.GetBlock(h, true)
	if err != nil {
		return "bad:getblock"
	}
	meta, err := n.ldg.GetInterchainMeta(h)
	if err != nil {
		return "bad:getmeta"
	}
	check := func(path, pier string, ws *pb.InterchainTxWrappers) string {
		if ws == nil || len(ws.InterchainTxWrappers) != 1 {
			return fmt.Sprintf("bad:%s:%s:wrappers", path, pier)
		}
		w := ws.InterchainTxWrappers[0]
		if w.Height != h {
			return fmt.Sprintf("bad:%s:%s:height=%d", path, pier, w.Height)
		}
		var want []*pb.VerifiedIndex
		if c, ok := meta.Counter[pier]; ok && c != nil {
			want = c.Slice
		}
		if len(w.Transactions) != len(want) {
			return fmt.Sprintf("bad:%s:%s:txs=%d-of-%d", path, pier, len(w.Transactions), len(want))
		}
		for i, vi := range want {
			got := w.Transactions[i]
			exp := blk.Transactions.Transactions[vi.Index]
			if got == nil || got.Tx == nil || got.Tx.GetHash().String() != exp.GetHash().String() {
				return fmt.Sprintf("bad:%s:%s:tx[%d]-is-not-block-tx-%d", path, pier, i, vi.Index)
			}
			if got.Valid != vi.Valid || got.IsBatch != vi.IsBatch {
				return fmt.Sprintf("bad:%s:%s:flags[%d]", path, pier, i)
			}
		}
		var wt, wm []string
		if c, ok := meta.TimeoutCounter[pier]; ok && c != nil {
			wt = c.Slice
		}
		if c, ok := meta.MultiTxCounter[pier]; ok && c != nil {
			wm = c.Slice
		}
		if strings.Join(w.TimeoutIbtps, ",") != strings.Join(wt, ",") {
			return fmt.Sprintf("bad:%s:%s:timeouts=%d-of-%d", path, pier, len(w.TimeoutIbtps), len(wt))
		}
		if strings.Join(w.MultiTxIbtps, ",") != strings.Join(wm, ",") {
			return fmt.Sprintf("bad:%s:%s:multi=%d-of-%d", path, pier, len(w.MultiTxIbtps), len(wm))
		}
		return ""
	}
	// the subscription feed
	rs.r.PutBlockAndMeta(blk, meta)
	for _, p := range routePiers {
		select {
		case ws := <-rs.chs[p]:
			if bad := check("push", p, ws); bad != "" {
				return bad
			}
		default:
			return "bad:push:" + p + ":nothing-sent"
		}
	}
	// a pier asking for the height again
	for _, p := range routePiers {
		ch := make(chan *pb.InterchainTxWrappers, 4)
		if err := rs.r.GetInterchainTxWrappers(p, h, h, ch); err != nil {
			return "bad:pull:" + p + ":" + errClass(err.Error())
		}
		ws, ok := <-ch
		if !ok {
			return "bad:pull:" + p + ":nothing-sent"
		}
		if bad := check("pull", p, ws); bad != "" {
			return bad
		}
	}
	return "ok"
}
