//go:build verif

package main

import (
	"fmt"
	"sort"
	"strings"

	"github.com/meshplus/bitxhub-model/pb"
	"github.com/meshplus/bitxhub/internal/router"
)

// The interchain router (internal/router) is what hands a block's delivery sets to the piers: per destination the
// transactions named by InterchainMeta.Counter (in that order, with their flags), the timed-out ids of
// TimeoutCounter and the one-to-many notifications of MultiTxCounter — once over the subscription feed when the block
// is executed (PutBlockAndMeta) and once more whenever a pier asks for a height again (GetInterchainTxWrappers).
// routeObs runs both paths of the real router for block h and compares what each pier is handed with the block's
// interchain meta: "ok", or "bad:<path>:<pier>:<what>".

var routePiers = []string{"c1", "c2", "c3", "c4", "default_union_pier_id", "c9"}

type routeState struct {
	r   *router.InterchainRouter
	chs map[string]chan *pb.InterchainTxWrappers
}

func (n *node) route() *routeState {
	if n.rt != nil {
		return n.rt
	}
	r, err := router.New(quietLogger, n.rep, n.ldg, nil, 0)
	if err != nil {
		return nil
	}
	rs := &routeState{r: r, chs: map[string]chan *pb.InterchainTxWrappers{}}
	for _, p := range routePiers {
		c, _ := r.AddPier(p)
		rs.chs[p] = c
	}
	n.rt = rs
	return rs
}

// routeCanon: what the subscription feed handed to the piers, in the canonical form the model prints too:
// pier:[index/valid/batch,…]|[timed-out ids, sorted]|[one-to-many notifications, sorted] for every pier that got something
func routeCanon(blk *pb.Block, got map[string]*pb.InterchainTxWrapper) string {
	pos := map[string]int{}
	for i, tx := range blk.Transactions.Transactions {
		pos[tx.GetHash().String()] = i
	}
	var ps []string
	for _, p := range sortedPiers(got) {
		w := got[p]
		if w == nil || (len(w.Transactions) == 0 && len(w.TimeoutIbtps) == 0 && len(w.MultiTxIbtps) == 0) {
			continue
		}
		var vs []string
		for _, vt := range w.Transactions {
			i := -1
			if vt != nil && vt.Tx != nil {
				if j, ok := pos[vt.Tx.GetHash().String()]; ok {
					i = j
				}
			}
			vs = append(vs, fmt.Sprintf("%d/%d/%d", i, b2i(vt != nil && vt.Valid), b2i(vt != nil && vt.IsBatch)))
		}
		ps = append(ps, p+":["+strings.Join(vs, ",")+"]|["+strings.Join(sortedCopy(w.TimeoutIbtps), ",")+"]|["+strings.Join(sortedCopy(w.MultiTxIbtps), ",")+"]")
	}
	return strings.Join(ps, ";")
}

func sortedPiers(m map[string]*pb.InterchainTxWrapper) []string {
	var ks []string
	for k := range m {
		ks = append(ks, k)
	}
	sort.Strings(ks)
	return ks
}

// routeObs returns the verdict and the canonical form of what the feed delivered
func routeObs(n *node, h uint64) (string, string) {
	v, c := routeObs1(n, h)
	return v, c
}

func routeObs1(n *node, h uint64) (verdict string, canon string) {
	got := map[string]*pb.InterchainTxWrapper{}
	var blkRef *pb.Block
	defer func() {
		// the real router indexes the block with what the meta says: a meta naming a position the block does not have makes
		// it panic (in the node: the goroutine that feeds the piers)
		if r := recover(); r != nil {
			verdict = "bad:router-panicked:" + panicClass(fmt.Sprint(r))
		}
		if blkRef != nil {
			canon = routeCanon(blkRef, got)
		}
	}()
	verdict = routeObs0(n, h, got, &blkRef)
	return
}

func routeObs0(n *node, h uint64, gotOut map[string]*pb.InterchainTxWrapper, blkOut **pb.Block) string {
	rs := n.route()
	if rs == nil {
		return "norouter"
	}
	blk, err := n.ldg.GetBlock(h, true)
	if err != nil {
		return "bad:getblock"
	}
	meta, err := n.ldg.GetInterchainMeta(h)
	if err != nil {
		return "bad:getmeta"
	}
	check := func(path, pier string, ws *pb.InterchainTxWrappers) string {
		if ws == nil || len(ws.InterchainTxWrappers) != 1 {
			return fmt.Sprintf("bad:%s:%s:wrappers", path, pier)
		}
		w := ws.InterchainTxWrappers[0]
		if w.Height != h {
			return fmt.Sprintf("bad:%s:%s:height=%d", path, pier, w.Height)
		}
		var want []*pb.VerifiedIndex
		if c, ok := meta.Counter[pier]; ok && c != nil {
			want = c.Slice
		}
		if len(w.Transactions) != len(want) {
			return fmt.Sprintf("bad:%s:%s:txs=%d-of-%d", path, pier, len(w.Transactions), len(want))
		}
		for i, vi := range want {
			got := w.Transactions[i]
			if int(vi.Index) >= len(blk.Transactions.Transactions) {
				return fmt.Sprintf("bad:%s:%s:meta-names-position-%d-of-%d", path, pier, vi.Index, len(blk.Transactions.Transactions))
			}
			exp := blk.Transactions.Transactions[vi.Index]
			if got == nil || got.Tx == nil || got.Tx.GetHash().String() != exp.GetHash().String() {
				return fmt.Sprintf("bad:%s:%s:tx[%d]-is-not-block-tx-%d", path, pier, i, vi.Index)
			}
			if got.Valid != vi.Valid || got.IsBatch != vi.IsBatch {
				return fmt.Sprintf("bad:%s:%s:flags[%d]", path, pier, i)
			}
		}
		var wt, wm []string
		if c, ok := meta.TimeoutCounter[pier]; ok && c != nil {
			wt = c.Slice
		}
		if c, ok := meta.MultiTxCounter[pier]; ok && c != nil {
			wm = c.Slice
		}
		if strings.Join(w.TimeoutIbtps, ",") != strings.Join(wt, ",") {
			return fmt.Sprintf("bad:%s:%s:timeouts=%d-of-%d", path, pier, len(w.TimeoutIbtps), len(wt))
		}
		if strings.Join(w.MultiTxIbtps, ",") != strings.Join(wm, ",") {
			return fmt.Sprintf("bad:%s:%s:multi=%d-of-%d", path, pier, len(w.MultiTxIbtps), len(wm))
		}
		return ""
	}
	// the subscription feed
	*blkOut = blk
	rs.r.PutBlockAndMeta(blk, meta)
	firstBad := ""
	for _, p := range routePiers {
		select {
		case ws := <-rs.chs[p]:
			if ws != nil && len(ws.InterchainTxWrappers) == 1 {
				gotOut[p] = ws.InterchainTxWrappers[0]
			}
			if bad := check("push", p, ws); bad != "" && firstBad == "" {
				firstBad = bad
			}
		default:
			if firstBad == "" {
				firstBad = "bad:push:" + p + ":nothing-sent"
			}
		}
	}
	if firstBad != "" {
		return firstBad
	}
	// a pier asking for the height again
	for _, p := range routePiers {
		ch := make(chan *pb.InterchainTxWrappers, 4)
		if err := rs.r.GetInterchainTxWrappers(p, h, h, ch); err != nil {
			return "bad:pull:" + p + ":" + errClass(err.Error())
		}
		ws, ok := <-ch
		if !ok {
			return "bad:pull:" + p + ":nothing-sent"
		}
		if bad := check("pull", p, ws); bad != "" {
			return bad
		}
	}
	return "ok"
}
