//go:build verif

package main

import (
	"math/big"
	"fmt"
	"os"
	"path/filepath"
	"sort"
	"strconv"
	"strings"

	"github.com/meshplus/bitxhub-kit/storage"
	"github.com/meshplus/bitxhub-kit/storage/blockfile"
	"github.com/meshplus/bitxhub-kit/storage/leveldb"
	"github.com/meshplus/bitxhub-kit/types"
	"github.com/meshplus/bitxhub-model/pb"
	"github.com/meshplus/bitxhub/internal/executor"
	"github.com/meshplus/bitxhub/internal/ledger"
	"github.com/meshplus/bitxhub/internal/repo"
)

// store engine: the real ledger.New / PersistBlockData / Rollback on real LevelDB + blockfile,
// with crash states assembled from before/after copies of the three stores.
type storeEngine struct {
	dir     string
	chainDB storage.Storage
	stateDB storage.Storage
	bf      *blockfile.BlockFile
	ldg     *ledger.Ledger
	names   map[string]string // block hash -> symbolic name
	serial  int
	fChain  *faultStore
	fState  *faultStore
}

func init() { engines["store"] = func() engine { return &storeEngine{names: map[string]string{}} } }

// faultStore counts the low-level durable writes (Put / Delete / Batch.Commit) that reach a leveldb and, once its budget is
// used up, silently drops every further one: what is on disk afterwards is what a process that died at that write would
// have left behind.  budget < 0 = unlimited.
type faultStore struct {
	storage.Storage
	writes int
	budget int
}

func (f *faultStore) allow() bool {
	f.writes++
	return f.budget < 0 || f.writes <= f.budget
}
func (f *faultStore) Put(k, v []byte) {
	if f.allow() {
		f.Storage.Put(k, v)
	}
}
func (f *faultStore) Delete(k []byte) {
	if f.allow() {
		f.Storage.Delete(k)
	}
}
func (f *faultStore) NewBatch() storage.Batch { return &faultBatch{Batch: f.Storage.NewBatch(), f: f} }

type faultBatch struct {
	storage.Batch
	f *faultStore
}

func (b *faultBatch) Commit() {
	if b.f.allow() {
		b.Batch.Commit()
	}
}

func (e *storeEngine) closeStores() {
	if e.ldg != nil {
		e.ldg.Close()
		e.ldg = nil
	} else {
		if e.chainDB != nil {
			e.chainDB.Close()
		}
		if e.stateDB != nil {
			e.stateDB.Close()
		}
		if e.bf != nil {
			e.bf.Close()
		}
	}
	e.chainDB, e.stateDB, e.bf = nil, nil, nil
}

func (e *storeEngine) close() {
	e.closeStores()
	rmDir(e.dir)
	e.dir = ""
}

func (e *storeEngine) openStores() (err error) {
	rep := &repo.Repo{Key: &repo.Key{PrivKey: acct("nodekey").priv}, Config: &repo.Config{}}
	if e.chainDB, err = leveldb.New(filepath.Join(e.dir, "storage", "blockchain")); err != nil {
		return err
	}
	if e.stateDB, err = leveldb.New(filepath.Join(e.dir, "storage", "ledger")); err != nil {
		return err
	}
	if e.bf, err = blockfile.NewBlockFile(e.dir, quietLogger); err != nil {
		return err
	}
	e.fChain = &faultStore{Storage: e.chainDB, budget: -1}
	e.fState = &faultStore{Storage: e.stateDB, budget: -1}
	e.ldg, err = ledger.New(rep, e.fChain, e.fState, e.bf, nil, quietLogger)
	return err
}

func (e *storeEngine) sym(h *types.Hash) string {
	if h == nil {
		return "zero" // a nil hash and the zero hash are the same thing to every reader
	}
	if h.String() == (&types.Hash{}).String() {
		return "zero"
	}
	if n, ok := e.names[h.String()]; ok {
		return n
	}
	return "other"
}

func txNamed(name string) *pb.BxhTransaction {
	return &pb.BxhTransaction{From: lAddr("a0"), To: lAddr("a1"), TransactionHash: hashOf(name), Payload: []byte(name)}
}

func parseCounter(s string) map[string]*pb.VerifiedIndexSlice {
	m := map[string]*pb.VerifiedIndexSlice{}
	for _, p := range strings.Split(s, ",") {
		kv := strings.SplitN(p, ":", 2)
		if len(kv) != 2 {
			continue
		}
		n, _ := strconv.Atoi(kv[1])
		sl := &pb.VerifiedIndexSlice{}
		for i := 0; i < n; i++ {
			sl.Slice = append(sl.Slice, &pb.VerifiedIndex{Index: uint64(i), Valid: true})
		}
		m[kv[0]] = sl
	}
	return m
}

var verifBinKey = []byte{0xff, 0xfe, 'h'}

// buildBlock executes the state part of block h (one storage write) and returns the block data
func (e *storeEngine) buildBlock(txNames []string, counter string) *ledger.BlockData {
	meta := e.ldg.GetChainMeta()
	h := meta.Height + 1
	e.ldg.PrepareBlock(nil, h)
	// an EMPTY block above height 1 is an idle block: it changes no account at all (what an empty block does on a real node) — its
	// journal has no entry, its state root chains on from the previous one (seeding round 29)
	if !(len(txNames) == 0 && h > 1) {
		e.ldg.SetState(lAddr("a0"), []byte("height"), []byte(fmt.Sprint(h)), nil)
		e.ldg.SetState(lAddr("a0"), []byte(fmt.Sprintf("k%d", h)), []byte(strings.Join(txNames, ",")), nil)
		// a storage key that is neither text nor a 32-byte slot (raw bytes, as a wasm contract or a packed counter would use)
		e.ldg.SetState(lAddr("a0"), verifBinKey, []byte(fmt.Sprint(h)), nil)
		if h == 1 || h%3 == 0 {
			// most blocks change only the storage of an account that has a balance; block 1 and every third block change the balance too
			e.ldg.SetBalance(lAddr("a0"), big.NewInt(int64(1000+h)))
		}
	}
	e.ldg.Finalise(true)
	accounts, root := e.ldg.FlushDirtyData()
	var txs []pb.Transaction
	var hashes []*types.Hash
	var receipts []*pb.Receipt
	for _, n := range txNames {
		tx := txNamed(n)
		txs = append(txs, tx)
		hashes = append(hashes, tx.GetHash())
		receipts = append(receipts, &pb.Receipt{TxHash: tx.GetHash(), Ret: []byte(n), Status: pb.Receipt_SUCCESS})
	}
	txRoot, _ := executor.VerifCalcMerkleRoot(hashes)
	block := &pb.Block{
		BlockHeader: &pb.BlockHeader{Number: h, ParentHash: meta.BlockHash, StateRoot: root, TxRoot: txRoot,
			ReceiptRoot: &types.Hash{}, Version: []byte("1.0.0"), Timestamp: nextTs()},
		Transactions: &pb.Transactions{Transactions: txs},
	}
	block.BlockHash = block.Hash()
	e.serial++
	e.names[block.BlockHash.String()] = fmt.Sprintf("B%d.%d", h, e.serial)
	return &ledger.BlockData{Block: block, Receipts: receipts, Accounts: accounts,
		InterchainMeta: &pb.InterchainMeta{Counter: parseCounter(counter)}, TxHashList: hashes}
}

func txNamesOf(s string) []string {
	if s == "" || s == "-" {
		return nil
	}
	return strings.Split(s, ",")
}

func (e *storeEngine) showBlock(b *pb.Block, err error) string {
	if err != nil {
		return "notfound"
	}
	var ts []string
	for _, tx := range b.Transactions.Transactions {
		ts = append(ts, e.txName(tx.GetHash()))
	}
	return fmt.Sprintf("h=%d hash=%s parent=%s txs=[%s]", b.BlockHeader.Number, e.sym(b.BlockHash), e.sym(b.BlockHeader.ParentHash), strings.Join(ts, " "))
}

var txNames = map[string]string{}

func (e *storeEngine) txName(h *types.Hash) string {
	if n, ok := txNames[h.String()]; ok {
		return n
	}
	return "?"
}

func regTx(names []string) {
	for _, n := range names {
		txNames[hashOf(n).String()] = n
	}
}

func (e *storeEngine) step(ws []string) string {
	switch ws[0] {
	case "reset":
		e.close()
		return "ok"
	case "open":
		e.close()
		e.names = map[string]string{}
		e.serial = 0
		e.dir = mustTempDir("bxhverif-s-")
		if err := e.openStores(); err != nil {
			return "err open " + errClass(err.Error())
		}
		return "ok h=0"
	}
	if e.ldg == nil {
		return "bad-op"
	}
	switch ws[0] {
	case "persist":
		o := kv(ws[1:])
		names := txNamesOf(o["txs"])
		regTx(names)
		bd := e.buildBlock(names, o["counter"])
		e.fState.writes, e.fChain.writes = 0, 0
		e.ldg.PersistBlockData(bd)
		// the number of low-level durable writes of this persist is part of the observation: a persist path that gains or
		// loses a write has other crash points than the modelled ones
		return fmt.Sprintf("ok h=%d hash=%s writes=s%d/c%d", bd.Block.BlockHeader.Number, e.sym(bd.Block.BlockHash), e.fState.writes, e.fChain.writes)
	case "getblock":
		h, _ := strconv.ParseUint(ws[1], 10, 64)
		full := len(ws) > 2 && ws[2] == "full"
		b, err := e.ldg.GetBlock(h, full)
		return e.showBlock(b, err)
	case "byhash":
		for hs, n := range e.names {
			if n == ws[1] {
				b, err := e.ldg.GetBlockByHash(types.NewHashByStr(hs), false)
				return e.showBlock(b, err)
			}
		}
		return "notfound"
	case "blockhash":
		h, _ := strconv.ParseUint(ws[1], 10, 64)
		return e.sym(e.ldg.GetBlockHash(h))
	case "tx":
		tx, err := e.ldg.GetTransaction(hashOf(ws[1]))
		if err != nil {
			return "notfound"
		}
		return e.txName(tx.GetHash()) + ":" + string(tx.(*pb.BxhTransaction).Payload)
	case "meta":
		m, err := e.ldg.GetTransactionMeta(hashOf(ws[1]))
		if err != nil {
			return "notfound"
		}
		return fmt.Sprintf("h=%d hash=%s idx=%d", m.BlockHeight, e.sym(types.NewHash(m.BlockHash)), m.Index)
	case "receipt":
		r, err := e.ldg.GetReceipt(hashOf(ws[1]))
		if err != nil {
			return "notfound"
		}
		return e.txName(r.TxHash) + ":" + string(r.Ret)
	case "txcount":
		h, _ := strconv.ParseUint(ws[1], 10, 64)
		n, err := e.ldg.GetTransactionCount(h)
		if err != nil {
			return "notfound"
		}
		return fmt.Sprint(n)
	case "imeta":
		h, _ := strconv.ParseUint(ws[1], 10, 64)
		m, err := e.ldg.GetInterchainMeta(h)
		if err != nil {
			return "notfound"
		}
		var ks []string
		for k, v := range m.Counter {
			ks = append(ks, fmt.Sprintf("%s:%d", k, len(v.Slice)))
		}
		sort.Strings(ks)
		return "{" + strings.Join(ks, ",") + "}"
	case "chainmeta":
		m := e.ldg.GetChainMeta()
		return fmt.Sprintf("h=%d hash=%s count=%d state=%d", m.Height, e.sym(m.BlockHash), m.InterchainTxCount, e.ldg.Version())
	case "rollback":
		t, _ := strconv.ParseUint(ws[1], 10, 64)
		if err := e.ldg.Rollback(t); err != nil {
			return "err " + rbClass(err)
		}
		return "ok"
	case "reopen":
		e.closeStores()
		if err := e.openStores(); err != nil {
			return "err open " + rbClass(err)
		}
		m := e.ldg.GetChainMeta()
		return fmt.Sprintf("ok h=%d state=%d", m.Height, e.ldg.Version())
	case "crash":
		return e.crash(kv(ws[1:]))
	case "crashw":
		return e.crashw(kv(ws[1:]))
	}
	return "bad-op"
}

func rbClass(err error) string {
	s := err.Error()
	switch {
	case strings.Contains(s, ledger.ErrorRollbackToHigherNumber.Error()):
		return "higher"
	case strings.Contains(s, ledger.ErrorRollbackTooMuch.Error()):
		return "toomuch"
	case strings.Contains(s, ledger.ErrorRollbackWithoutJournal.Error()):
		return "nojournal"
	case strings.Contains(s, "empty block journal"):
		return "nojournal-at-open"
	}
	return "other"
}

var bfTables = []string{"hashes", "bodies", "transactions", "receipts", "interchain"}

// crash S=<0|1> J=<0|1> C=<0|1> B=<0..5> txs=.. counter=..
// commits the next block for real, then assembles the directory a crash would have left behind:
// state store before/after (J: with/without the journal-pruning batch), chain index before/after,
// and the first B blockfile tables (in AppendBlock order) after, the others before; reopens it.
// crashw ks=<n> kc=<n> B=<0..5> txs=.. counter=..
// like `crash`, but the state store and the chain index are what the REAL persist leaves behind when the process dies after the
// ks-th low-level write to the state store and the kc-th to the chain index (fault injection below ledger.New), so every
// persist point of the current code is covered, whatever it is; the blockfile tables are assembled as in `crash`.
func (e *storeEngine) crashw(o map[string]string) string {
	names := txNamesOf(o["txs"])
	regTx(names)
	before := mustTempDir("bxhverif-sb-")
	defer rmDir(before)
	e.closeStores()
	if err := copyDir(filepath.Join(e.dir, "storage"), before); err != nil {
		fail("copy: %v", err)
	}
	if err := e.openStores(); err != nil {
		return "err open-before " + rbClass(err)
	}
	bd := e.buildBlock(names, o["counter"])
	h := bd.Block.BlockHeader.Number
	ks, _ := strconv.Atoi(o["ks"])
	kc, _ := strconv.Atoi(o["kc"])
	e.fState.writes, e.fChain.writes = 0, 0
	e.fState.budget, e.fChain.budget = ks, kc
	e.ldg.PersistBlockData(bd)
	e.closeStores()
	// blockfile: first B tables as appended, the others as before
	nb, _ := strconv.Atoi(o["B"])
	bfDir := filepath.Join(e.dir, "storage", "blockfile")
	for i, t := range bfTables {
		if i < nb {
			continue
		}
		cur, _ := filepath.Glob(filepath.Join(bfDir, t+".*"))
		for _, f := range cur {
			os.Remove(f)
		}
		old, _ := filepath.Glob(filepath.Join(before, "storage", "blockfile", t+".*"))
		for _, f := range old {
			data, err := os.ReadFile(f)
			if err != nil {
				fail("read %s: %v", f, err)
			}
			os.WriteFile(filepath.Join(bfDir, filepath.Base(f)), data, 0o644)
		}
	}
	if err := e.openStores(); err != nil {
		e.closeStores()
		return fmt.Sprintf("h=%d open-error %s", h, rbClass(err))
	}
	m := e.ldg.GetChainMeta()
	head := "readable"
	if m.Height > 0 {
		if _, err := e.ldg.GetBlock(m.Height, true); err != nil {
			head = "unreadable"
		}
	}
	blocks, _ := e.bf.Blocks()
	// the content of the state store: every block writes its height under key "height" of account a0
	sk := "-"
	if ok, v := e.ldg.GetState(lAddr("a0"), []byte("height")); ok {
		sk = string(v)
	}
	sk += "/" + e.ldg.GetBalance(lAddr("a0")).String()
	if ok, v := e.ldg.GetState(lAddr("a0"), verifBinKey); ok {
		sk += "/" + string(v)
	} else {
		sk += "/-"
	}
	return fmt.Sprintf("h=%d opened chain=%d state=%d blockfile=%d head=%s statekey=%s root=%s", h, m.Height, e.ldg.Version(), blocks, head, sk, e.rootState())
}

// rootState: is the state root of the head block the state store's current root (the root the next block's journal hash chains from)?
func (e *storeEngine) rootState() string {
	sl, ok := e.ldg.StateLedger.(*ledger.SimpleLedger)
	if !ok {
		return "unknown"
	}
	cur := ledger.VerifPrevRoot(sl)
	m := e.ldg.GetChainMeta()
	want := (&types.Hash{}).String()
	if m.Height > 0 {
		b, err := e.ldg.GetBlock(m.Height, false)
		if err != nil {
			return "unknown"
		}
		want = b.BlockHeader.StateRoot.String()
	}
	if cur != nil && cur.String() == want {
		return "match"
	}
	return "differs"
}

func (e *storeEngine) crash(o map[string]string) string {
	names := txNamesOf(o["txs"])
	regTx(names)
	before := mustTempDir("bxhverif-sb-")
	defer rmDir(before)
	e.closeStores()
	if err := copyDir(filepath.Join(e.dir, "storage"), before); err != nil {
		fail("copy: %v", err)
	}
	if err := e.openStores(); err != nil {
		return "err open-before " + rbClass(err)
	}
	bd := e.buildBlock(names, o["counter"])
	h := bd.Block.BlockHeader.Number
	e.ldg.PersistBlockData(bd)
	e.closeStores()
	after := filepath.Join(e.dir, "storage")
	crashed := mustTempDir("bxhverif-sc-")
	os.MkdirAll(filepath.Join(crashed, "storage", "blockfile"), 0o755)
	pick := func(useAfter bool, sub string) {
		src := filepath.Join(before, "storage", sub)
		if useAfter {
			src = filepath.Join(after, sub)
		}
		if err := copyDir(src, filepath.Join(crashed, "storage", sub)); err != nil {
			fail("copy %s: %v", sub, err)
		}
	}
	pick(o["S"] == "1", "ledger")
	pick(o["C"] == "1", "blockchain")
	nb, _ := strconv.Atoi(o["B"])
	for i, t := range bfTables {
		src := filepath.Join(before, "storage", "blockfile")
		if i < nb {
			src = filepath.Join(after, "blockfile")
		}
		files, _ := filepath.Glob(filepath.Join(src, t+".*"))
		for _, f := range files {
			data, err := os.ReadFile(f)
			if err != nil {
				fail("read %s: %v", f, err)
			}
			os.WriteFile(filepath.Join(crashed, "storage", "blockfile", filepath.Base(f)), data, 0o644)
		}
	}
	if o["S"] == "1" && o["J"] == "0" && h > 10 {
		// undo the journal-pruning batch: put the pruned journals back and restore minHeight
		bdb, err1 := leveldb.New(filepath.Join(before, "storage", "ledger"))
		cdb, err2 := leveldb.New(filepath.Join(crashed, "storage", "ledger"))
		if err1 != nil || err2 != nil {
			fail("leveldb: %v %v", err1, err2)
		}
		if mh := bdb.Get([]byte("journal-minHeight")); mh != nil {
			cdb.Put([]byte("journal-minHeight"), mh)
			from, _ := strconv.ParseUint(string(mh), 10, 64)
			for i := from; i < h-10; i++ {
				k := []byte(fmt.Sprintf("journal-%d", i))
				if v := bdb.Get(k); v != nil {
					cdb.Put(k, v)
				}
			}
		}
		bdb.Close()
		cdb.Close()
	}
	rmDir(e.dir)
	e.dir = crashed
	if err := e.openStores(); err != nil {
		e.closeStores()
		return fmt.Sprintf("h=%d open-error %s", h, rbClass(err))
	}
	m := e.ldg.GetChainMeta()
	head := "readable"
	if m.Height > 0 {
		if _, err := e.ldg.GetBlock(m.Height, true); err != nil {
			head = "unreadable"
		}
	}
	blocks, _ := e.bf.Blocks()
	// the content of the state store: every block writes its height under key "height" of account a0
	sk := "-"
	if ok, v := e.ldg.GetState(lAddr("a0"), []byte("height")); ok {
		sk = string(v)
	}
	sk += "/" + e.ldg.GetBalance(lAddr("a0")).String()
	if ok, v := e.ldg.GetState(lAddr("a0"), verifBinKey); ok {
		sk += "/" + string(v)
	} else {
		sk += "/-"
	}
	return fmt.Sprintf("h=%d opened chain=%d state=%d blockfile=%d head=%s statekey=%s root=%s", h, m.Height, e.ldg.Version(), blocks, head, sk, e.rootState())
}
