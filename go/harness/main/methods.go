//go:build verif

package main

import (
	"encoding/json"
	"fmt"
	"os"
	"reflect"
	"sort"
)

// methodsEngine: `methods` prints, as one JSON line, the callable surface of every registered built-in contract as
// reflection sees it (every exported method of the contract's pointer type, including those promoted from the embedded
// Stub): name, parameter types, result types.
type methodsEngine struct{ e *execEngine }

func init() { engines["methods"] = func() engine { return &methodsEngine{e: &execEngine{}} } }

func (m *methodsEngine) close() { m.e.close() }

type methodInfo struct {
	Name string   `json:"name"`
	In   []string `json:"in"`
	Out  []string `json:"out"`
}

func (m *methodsEngine) step(ws []string) string {
	if ws[0] != "methods" {
		return "bad-op"
	}
	if r := m.e.step([]string{"world", "audit=0", "price=1"}); len(r) < 2 || r[:2] != "ok" {
		return "err " + r
	}
	reg := m.e.nodes[0].exec.VerifContracts()
	byAddr := map[string]string{}
	for name, a := range contractAddrs {
		byAddr[a.Address().String()] = name
	}
	out := map[string][]methodInfo{}
	for addr, c := range reg {
		name, ok := byAddr[addr]
		if !ok {
			name = addr
		}
		t := reflect.TypeOf(c)
		var ms []methodInfo
		for i := 0; i < t.NumMethod(); i++ {
			mt := t.Method(i)
			mi := methodInfo{Name: mt.Name, In: []string{}, Out: []string{}}
			for j := 1; j < mt.Type.NumIn(); j++ {
				s := mt.Type.In(j).String()
				if mt.Type.IsVariadic() && j == mt.Type.NumIn()-1 {
					s = "..." + s
				}
				mi.In = append(mi.In, s)
			}
			for j := 0; j < mt.Type.NumOut(); j++ {
				mi.Out = append(mi.Out, mt.Type.Out(j).String())
			}
			ms = append(ms, mi)
		}
		sort.Slice(ms, func(i, j int) bool { return ms[i].Name < ms[j].Name })
		out[name] = ms
	}
	b, err := json.Marshal(out)
	if err != nil {
		fmt.Fprintln(os.Stderr, err)
		return "err marshal"
	}
	return string(b)
}
