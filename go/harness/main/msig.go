//go:build verif

package main

import (
	"encoding/json"
	"math/big"
	"regexp"
	"strings"

	"github.com/meshplus/bitxhub-model/pb"
	"github.com/meshplus/bitxhub/pkg/proof"
	"github.com/meshplus/bitxhub/pkg/utils"
)

// msigEngine: `msig <validators> <sigs>` runs VerifyPool.verifyMultiSign with real secp256k1 signatures.
//   validators: comma list of key names (repeats allowed), "nil" (no trust root), "bad" (undecodable), "[]" (empty list)
//   sigs: comma list of  <key> (valid signature by that key) | m:<key> (its malleated twin, same signer) | w:<key> (signature over another digest) | junk (65 garbage bytes) |
//         short (3 bytes); "-" = no signature
// output: ok | fail:<counter> | err
type msigEngine struct{}

func init() { engines["msig"] = func() engine { return &msigEngine{} } }

func (m *msigEngine) close() {}

var counterRe = regexp.MustCompile(`counter: (\d+)`)

func (m *msigEngine) step(ws []string) string {
	if ws[0] == "reset" {
		return "ok"
	}
	if ws[0] != "msig" || len(ws) != 3 {
		return "bad-op"
	}
	var trust []byte
	switch ws[1] {
	case "nil":
		trust = nil
	case "bad":
		trust = []byte("{not json")
	default:
		addrs := []string{}
		if ws[1] != "[]" {
			for _, k := range strings.Split(ws[1], ",") {
				addrs = append(addrs, acct("val-"+k).addr.String())
			}
		}
		trust, _ = json.Marshal(map[string][]string{"addresses": addrs})
	}
	pd, _ := (&pb.Payload{Hash: []byte("payload-hash")}).Marshal()
	ibtp := &pb.IBTP{From: "1357:c1:s1", To: "1356:c2:s1", Index: 1, Type: pb.IBTP_INTERCHAIN, Payload: pd}
	digest, err := utils.EncodePackedAndHash(ibtp, pb.TransactionStatus_BEGIN)
	if err != nil {
		return "err encode"
	}
	other, _ := utils.EncodePackedAndHash(&pb.IBTP{From: "1357:c1:s1", To: "1356:c2:s1", Index: 2, Type: pb.IBTP_INTERCHAIN, Payload: pd}, pb.TransactionStatus_BEGIN)
	var sigs [][]byte
	if ws[2] != "-" {
		for _, s := range strings.Split(ws[2], ",") {
			switch {
			case s == "junk":
				b := make([]byte, 65)
				for i := range b {
					b[i] = byte(i*7 + 1)
				}
				sigs = append(sigs, b)
			case s == "short":
				sigs = append(sigs, []byte{1, 2, 3})
			case strings.HasPrefix(s, "m:"): // the malleated twin (r, N-s, v^1) of a valid signature: same signer, other bytes
				sg, err := acct("val-" + s[2:]).priv.Sign(digest)
				if err != nil || len(sg) != 65 {
					return "err sign"
				}
				n, _ := new(big.Int).SetString("fffffffffffffffffffffffffffffffebaaedce6af48a03bbfd25e8cd0364141", 16)
				ns := new(big.Int).Sub(n, new(big.Int).SetBytes(sg[32:64]))
				tw := make([]byte, 65)
				copy(tw, sg[:32])
				ns.FillBytes(tw[32:64])
				tw[64] = sg[64] ^ 1
				sigs = append(sigs, tw)
			case strings.HasPrefix(s, "w:"):
				sg, err := acct("val-" + s[2:]).priv.Sign(other)
				if err != nil {
					return "err sign"
				}
				sigs = append(sigs, sg)
			default:
				sg, err := acct("val-" + s).priv.Sign(digest)
				if err != nil {
					return "err sign"
				}
				sigs = append(sigs, sg)
			}
		}
	}
	pf, _ := (&pb.BxhProof{TxStatus: pb.TransactionStatus_BEGIN, MultiSign: sigs}).Marshal()
	ok, err := proof.VerifMultiSign(quietLogger, trust, ibtp, pf)
	if ok && err == nil {
		return "ok"
	}
	if err == nil {
		return "false-nil"
	}
	if mm := counterRe.FindStringSubmatch(err.Error()); mm != nil {
		return "fail:" + mm[1]
	}
	return "err"
}
