-- This module serves as the root of the `Bxh` library.
-- Import modules here that should be built as part of the library.
import Bxh.Basic
