import Bxh.Proofs.ExecStepsE
import Bxh.Proofs.ExecListed
/-!
# The transactions of a block leave every one-to-one id on the timeout lists exactly as often as it was there

Equality versions of the `ExecListed` lemmas (through `StepsE`): towards "a request without a receipt is still on the list of its
deadline when that block comes" (C06, the positive half; the block-level bookkeeping part `listAfter_count_eq` is here, the
history-level statement is not proved yet — see DESIGN 13.8).
-/
namespace Bxh.Exec
open Bxh

theorem applyTx_count_eq (env : Env) (l : Led) (tx : Tx) (inv : Option String) (d : Nat) (t : TxId) :
    listCount (applyTx env l tx inv).1 d t = listCount l d t := by
  have hs : listCount (txStart l) d t = listCount l d t := rfl
  cases applyTx_effect env l tx inv with
  | nothing h0 => rw [listCount_congr (h0 _), hs]
  | ibtp s i p env' r _ _ _ _ h5 h6 => rw [listCount_congr (h6 _), ← hs]; exact (handleIBTP_stepsE h5).count d t
  | bvm s c m args r _ h2 h3 => rw [listCount_congr (h3 _), ← hs]; exact (applyBvm_stepsE h2).count d t

theorem applyTx_wf (env : Env) (l : Led) (tx : Tx) (inv : Option String) (h : ∀ d, WFV (l.getS (.timeout d))) :
    ∀ d, WFV ((applyTx env l tx inv).1.getS (.timeout d)) := by
  intro d
  cases applyTx_effect env l tx inv with
  | nothing h0 => rw [h0]; exact h d
  | ibtp s i p env' r _ _ _ _ h5 h6 => rw [h6]; exact (handleIBTP_stepsE h5).wf (fun d => h d) d
  | bvm s c m args r _ h2 h3 => rw [h3]; exact (applyBvm_stepsE h2).wf (fun d => h d) d

theorem applyTxs_count_eq (cfg : Cfg) (cache : KV (String × String) Svc) (hgt : Nat) (l : Led) (txs : List (Tx × Bool)) (d : Nat) (t : TxId) :
    listCount (applyTxs cfg cache hgt l txs).led d t = listCount l d t := by
  rw [applyTxs_eq]
  suffices H : ∀ (ts : List (Tx × Bool)) (a : Acc), listCount (ts.foldl (txStep cfg cache hgt) a).led d t = listCount a.led d t from H txs { led := l }
  intro ts
  induction ts with
  | nil => intro a; rfl
  | cons p rest ih =>
    intro a
    simp only [List.foldl_cons]
    rw [ih]
    unfold txStep
    exact applyTx_count_eq _ _ _ _ d t

theorem applyTxs_wf (cfg : Cfg) (cache : KV (String × String) Svc) (hgt : Nat) (l : Led) (txs : List (Tx × Bool))
    (h : ∀ d, WFV (l.getS (.timeout d))) : ∀ d, WFV ((applyTxs cfg cache hgt l txs).led.getS (.timeout d)) := by
  rw [applyTxs_eq]
  suffices H : ∀ (ts : List (Tx × Bool)) (a : Acc), (∀ d, WFV (a.led.getS (.timeout d))) →
      ∀ d, WFV ((ts.foldl (txStep cfg cache hgt) a).led.getS (.timeout d)) from H txs { led := l } h
  intro ts
  induction ts with
  | nil => intro a ha; exact ha
  | cons p rest ih =>
    intro a ha
    simp only [List.foldl_cons]
    apply ih
    unfold txStep
    exact applyTx_wf _ _ _ _ ha

theorem foldl_goRemove_count_other (R : List TxId) (start : List (Option TId)) (t : TxId) (ht : t ∉ R) :
    (R.foldl (fun acc id => (goRemove acc (.single id)).getD acc) start).count (some (TId.single t)) = start.count (some (TId.single t)) := by
  induction R generalizing start with
  | nil => rfl
  | cons r rest ih =>
    simp only [List.foldl_cons]
    have hr : r ≠ t := fun e => ht (e ▸ List.mem_cons_self ..)
    rw [ih _ (fun hm => ht (List.mem_cons_of_mem _ hm))]
    cases hg : goRemove start (.single r) with
    | none => rfl
    | some r' =>
      exact goRemove_count_other start r' (.single r) hg _ (by intro e; cases e; exact hr rfl)

/-- the list under a deadline after a block's bookkeeping holds `t` exactly as often as before plus the block's additions of `t`, when
the block takes `t` off that list nowhere -/
theorem listAfter_count_eq (v : Option Val) (A R : List TxId) (lst : List (Option TId)) (t : TxId) (hR : t ∉ R)
    (e : listAfter v A R = some (.tlist lst)) :
    lst.count (some (TId.single t)) = (curList v).count (some (TId.single t)) + A.count t := by
  unfold listAfter at e
  simp only at e
  have c1 : (curList (if A = [] then v
      else some (.tlist (if curList v == [none] then A.map (fun t => some (TId.single t)) else curList v ++ A.map (fun t => some (TId.single t)))))).count (some (TId.single t))
      = (curList v).count (some (TId.single t)) + A.count t := by
    by_cases hA : A = []
    · rw [if_pos hA, hA]; simp
    · rw [if_neg hA]
      show List.count (some (TId.single t)) (if curList v == [none] then A.map (fun t => some (TId.single t))
        else curList v ++ A.map (fun t => some (TId.single t))) = _
      by_cases hn : (curList v == [none]) = true
      · rw [if_pos hn, count_map_single]
        have : curList v = [none] := by simpa using hn
        rw [this]; simp
      · rw [if_neg hn, List.count_append, count_map_single]
  by_cases hRe : R = []
  · rw [if_pos hRe] at e
    have : lst = curList (some (.tlist lst)) := rfl
    rw [this, ← e]
    exact c1
  · rw [if_neg hRe] at e
    cases e
    rw [count_normList_single, foldl_goRemove_count_other R _ t hR]
    exact c1


end Bxh.Exec
