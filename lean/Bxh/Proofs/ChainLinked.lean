import Bxh.Model.Chain
import Bxh.Proofs.ChainRollback
/-!
# The stored chain stays hash-linked and indexed over every history of persists and rollbacks

`LinkedTo n H`: the blockfile tables hold exactly `H` blocks, block `h` (1 ≤ h ≤ H) has height `h`, is found under its height
in the height → hash index, under its hash in the hash → height index, its transaction list under its height; every block's
parent is the hash of the block below it (the first one's is the zero hash) and no two stored blocks share a hash.
`Linked n` adds the head: the cached chain meta names `H` and the hash of block `H`.

Kept by `persist` — provided the new block's hash is not the hash of a stored block (block hashes are SHA-256 of the header in
the code and symbolic names in the model; the hypothesis is "no collision among the hashes of the stored chain") — and by
`RollbackBlockChain` to any lower height, hence by every history.
-/
namespace Bxh.Chain
open Bxh

structure LinkedTo (n : Node) (H : Nat) : Prop where
  blocks : n.blocks = H
  lenB : n.tbl.bodies.length = H
  lenT : n.tbl.txs.length = H
  lenI : n.tbl.inter.length = H
  byHeight : ∀ h, 1 ≤ h → h ≤ H → ∃ b, n.tbl.bodies[h - 1]? = some b ∧ n.tbl.txs[h - 1]? = some b ∧ n.tbl.inter[h - 1]? = some b ∧
      b.height = h ∧ KV.get n.idx.heightIdx h = some b.hash ∧ KV.get n.idx.hashIdx b.hash = some h ∧
      KV.get n.idx.txSet h = some b.txs
  link : ∀ (i : Nat) (b p : Blk), n.tbl.bodies[i + 1]? = some b → n.tbl.bodies[i]? = some p → b.parent = p.hash
  first : ∀ (b : Blk), n.tbl.bodies[0]? = some b → b.parent = "zero"
  distinct : ∀ (i j : Nat) (b c : Blk), n.tbl.bodies[i]? = some b → n.tbl.bodies[j]? = some c → b.hash = c.hash → i = j
  txMeta : ∀ (t : String) (h : Nat) (hs : String) (i : Nat), KV.get n.idx.txMeta t = some (h, hs, i) →
      1 ≤ h ∧ h ≤ H ∧ ∃ b, n.tbl.txs[h - 1]? = some b ∧ b.hash = hs ∧ b.txs[i]? = some t

structure Linked (n : Node) : Prop where
  to : LinkedTo n n.cmeta.1
  headZero : n.cmeta.1 = 0 → n.cmeta.2.1 = "zero"
  head : ∀ (b : Blk), n.tbl.bodies[n.cmeta.1 - 1]? = some b → 1 ≤ n.cmeta.1 → n.cmeta.2.1 = b.hash

theorem Linked.init : Linked ({} : Node) := by
  refine ⟨⟨rfl, rfl, rfl, rfl, ?_, ?_, ?_, ?_, ?_⟩, fun _ => rfl, ?_⟩
  · intro h h1 h2; exact absurd h2 (by simp only [Nat.le_zero_eq]; omega)
  · intro i b p hb; simp at hb
  · intro b hb; simp at hb
  · intro i j b c hb; simp at hb
  · intro t h hs i hg; simp [KV.get] at hg
  · intro b hb h1; simp at h1

/-- the new block's hash is not the hash of a stored block -/
def FreshHash (n : Node) (hash : String) : Prop := ∀ c ∈ n.tbl.bodies, c.hash ≠ hash

-- ------------------------------------------------------------------------------------ the transaction-meta batch

theorem txMeta_fold (ht : Nat) (hs : String) : ∀ (zs : List (String × Nat)) (m : KV String (Nat × String × Nat)) (t : String) (v : Nat × String × Nat),
    KV.get (zs.foldl (fun m (p : String × Nat) => KV.set m p.1 (ht, hs, p.2)) m) t = some v →
    KV.get m t = some v ∨ ∃ i, (t, i) ∈ zs ∧ v = (ht, hs, i) := by
  intro zs
  induction zs with
  | nil => intro m t v h; exact Or.inl h
  | cons z rest ih =>
    intro m t v h
    simp only [List.foldl_cons] at h
    rcases ih _ t v h with h1 | ⟨i, hi, e⟩
    · rw [KV.get_set] at h1
      split at h1
      · rename_i e
        injection h1 with h1
        exact Or.inr ⟨z.2, by rw [← e]; exact List.mem_cons_self, h1.symm⟩
      · exact Or.inl h1
    · exact Or.inr ⟨i, List.mem_cons_of_mem _ hi, e⟩

-- ------------------------------------------------------------------------------------ persist

theorem applyBlk_linked (n : Node) (b : Blk) (hL : Linked n) (hh : b.height = n.cmeta.1 + 1) (hp : b.parent = n.cmeta.2.1)
    (hf : FreshHash n b.hash) : Linked (applyBlk n b) := by
  obtain ⟨hT, hz, hd⟩ := hL
  have eB : (applyBlk n b).tbl.bodies = n.tbl.bodies ++ [b] := rfl
  have eT : (applyBlk n b).tbl.txs = n.tbl.txs ++ [b] := rfl
  have eI : (applyBlk n b).tbl.inter = n.tbl.inter ++ [b] := rfl
  have oldB : ∀ i, i < n.cmeta.1 → (n.tbl.bodies ++ [b])[i]? = n.tbl.bodies[i]? := fun i hi =>
    List.getElem?_append_left (by rw [hT.lenB]; exact hi)
  have newB : ∀ i, n.cmeta.1 ≤ i → ∀ c, (n.tbl.bodies ++ [b])[i]? = some c → i = n.cmeta.1 ∧ c = b := by
    intro i hi c hc
    rw [List.getElem?_append_right (by rw [hT.lenB]; exact hi), hT.lenB] at hc
    by_cases h0 : i - n.cmeta.1 = 0
    · rw [h0] at hc; simp at hc; exact ⟨by omega, hc.symm⟩
    · have : [b][i - n.cmeta.1]? = none := List.getElem?_eq_none (by simp; omega)
      rw [this] at hc; cases hc
  have memOld : ∀ i c, n.tbl.bodies[i]? = some c → c ∈ n.tbl.bodies := fun i c h => List.mem_iff_getElem?.mpr ⟨i, h⟩
  have hcm : (applyBlk n b).cmeta.1 = n.cmeta.1 + 1 := by simp [applyBlk, hh]
  refine ⟨?_, ?_, ?_⟩
  · rw [hcm]
    refine ⟨by simp [applyBlk, hT.blocks], by simp [eB, hT.lenB], by simp [eT, hT.lenT], by simp [eI, hT.lenI], ?_, ?_, ?_, ?_, ?_⟩
    · intro h h1 h2
      by_cases hle : h ≤ n.cmeta.1
      · obtain ⟨c, c1, c2, c3, c4, c5, c6, c7⟩ := hT.byHeight h h1 hle
        have hne : b.height ≠ h := by omega
        have hhash : b.hash ≠ c.hash := fun e => hf c (memOld _ c c1) e.symm
        refine ⟨c, ?_, ?_, ?_, c4, ?_, ?_, ?_⟩
        · rw [eB, oldB _ (by omega)]; exact c1
        · rw [eT, List.getElem?_append_left (by rw [hT.lenT]; omega)]; exact c2
        · rw [eI, List.getElem?_append_left (by rw [hT.lenI]; omega)]; exact c3
        · simp only [applyBlk, indexBatch]; rw [KV.get_set_ne _ _ _ _ hne]; exact c5
        · simp only [applyBlk, indexBatch]; rw [KV.get_set_ne _ _ _ _ hhash]; exact c6
        · simp only [applyBlk, indexBatch]; rw [KV.get_set_ne _ _ _ _ hne]; exact c7
      · have hh' : h = n.cmeta.1 + 1 := by omega
        subst hh'
        refine ⟨b, ?_, ?_, ?_, hh, ?_, ?_, ?_⟩
        · rw [eB]; simp [← hT.lenB]
        · rw [eT]; simp [← hT.lenT]
        · rw [eI]; simp [← hT.lenI]
        · simp only [applyBlk, indexBatch, ← hh]; exact KV.get_set_eq _ _ _
        · simp only [applyBlk, indexBatch, ← hh]; exact KV.get_set_eq _ _ _
        · simp only [applyBlk, indexBatch, ← hh]; exact KV.get_set_eq _ _ _
    · intro i c p hc hpp
      rw [eB] at hc hpp
      by_cases hi : i + 1 < n.cmeta.1
      · rw [oldB _ hi] at hc
        rw [oldB _ (by omega)] at hpp
        exact hT.link i c p hc hpp
      · obtain ⟨e1, e2⟩ := newB (i + 1) (by omega) c hc
        subst e2
        rw [oldB _ (by omega)] at hpp
        rw [hp]
        exact hd p (by rw [← e1]; simpa using hpp) (by omega)
    · intro c hc
      rw [eB] at hc
      by_cases h0 : 0 < n.cmeta.1
      · rw [oldB _ h0] at hc; exact hT.first c hc
      · obtain ⟨_, e2⟩ := newB 0 (by omega) c hc
        subst e2
        rw [hp]; exact hz (by omega)
    · intro i j c d hc hdd he
      rw [eB] at hc hdd
      by_cases hi : i < n.cmeta.1 <;> by_cases hj : j < n.cmeta.1
      · rw [oldB _ hi] at hc; rw [oldB _ hj] at hdd; exact hT.distinct i j c d hc hdd he
      · rw [oldB _ hi] at hc
        obtain ⟨_, e2⟩ := newB j (by omega) d hdd
        subst e2
        exact absurd he (hf c (memOld _ c hc))
      · rw [oldB _ hj] at hdd
        obtain ⟨_, e2⟩ := newB i (by omega) c hc
        subst e2
        exact absurd he.symm (hf d (memOld _ d hdd))
      · have := (newB i (by omega) c hc).1
        have := (newB j (by omega) d hdd).1
        omega
    · intro t h hs i hg
      simp only [applyBlk, indexBatch] at hg
      rcases txMeta_fold b.height b.hash _ _ t _ hg with h1 | ⟨i', hi', e⟩
      · obtain ⟨a1, a2, c, a3, a4, a5⟩ := hT.txMeta t h hs i h1
        refine ⟨a1, by omega, c, ?_, a4, a5⟩
        rw [eT, List.getElem?_append_left (by rw [hT.lenT]; omega)]; exact a3
      · injection e with e1 e
        injection e with e2 e3
        subst e1; subst e2; subst e3
        obtain ⟨_, z2, z3⟩ := List.mem_zipIdx hi'
        refine ⟨by omega, by omega, b, ?_, rfl, ?_⟩
        · rw [eT, hh]; simp [← hT.lenT]
        · simp only [Nat.sub_zero] at z3
          rw [z3]
          exact List.getElem?_eq_getElem (by omega)
  · intro h0; rw [hcm] at h0; omega
  · intro c hc _
    rw [hcm, eB] at hc
    simp only [Nat.add_sub_cancel] at hc
    obtain ⟨_, e2⟩ := newB n.cmeta.1 (Nat.le_refl _) c hc
    subst e2
    simp [applyBlk]

theorem persist_linked (n n' : Node) (b : Blk) (txs : List String) (ctr : KV String Nat) (hL : Linked n)
    (hf : FreshHash n (mkBlk n txs ctr).hash) (h : persist n txs ctr = some (n', b)) : Linked n' := by
  unfold persist at h
  simp only at h
  split at h
  · cases h
  · cases h
    obtain ⟨a, b', c⟩ := applyBlk_linked n (mkBlk n txs ctr) hL rfl rfl hf
    exact ⟨⟨a.blocks, a.lenB, a.lenT, a.lenI, a.byHeight, a.link, a.first, a.distinct, a.txMeta⟩, b', c⟩

-- ------------------------------------------------------------------------------------ rollback

theorem erase_fold_get (ts : List String) : ∀ (m : KV String (Nat × String × Nat)) (t : String),
    KV.get (ts.foldl (fun m t => KV.erase m t) m) t = if t ∈ ts then none else KV.get m t := by
  induction ts with
  | nil => intro m t; simp
  | cons x rest ih =>
    intro m t
    simp only [List.foldl_cons, List.mem_cons]
    rw [ih]
    by_cases hr : t ∈ rest
    · simp [hr]
    · simp only [hr, if_false, or_false]
      rw [get_erase_if]
      by_cases hx : x = t
      · simp [hx]
      · have : ¬ t = x := fun e => hx e.symm
        simp [hx, this]

/-- one round of the loop of `RollbackBlockChain`: the head block goes, with all of its index entries -/
theorem loop_step_linked (n : Node) (cur : Nat) (hc : 1 ≤ cur) (hL : LinkedTo n cur) :
    ∃ b im, getBlock n cur false = some b ∧ getIMeta n cur = some im ∧
      LinkedTo { n with idx := { n.idx with txSet := KV.erase n.idx.txSet cur, heightIdx := KV.erase n.idx.heightIdx cur,
                                            hashIdx := KV.erase n.idx.hashIdx b.hash,
                                            txMeta := b.txs.foldl (fun m t => KV.erase m t) n.idx.txMeta },
                         tbl := n.tbl.truncate (cur - 1), blocks := cur - 1 } (cur - 1) := by
  obtain ⟨b, c1, c2, c3, c4, c5, c6, c7⟩ := hL.byHeight cur hc (Nat.le_refl _)
  have hc0 : ¬ cur = 0 := by omega
  have hgb : getBlock n cur false = some b := by
    simp only [getBlock, hc0, if_false, c1, c7, Bool.false_eq_true, Option.map_some]
  refine ⟨b, b.counter, hgb, by simp [getIMeta, hc0, c3], ?_⟩
  have tk : ∀ i, i < cur - 1 → (n.tbl.bodies.take (cur - 1))[i]? = n.tbl.bodies[i]? := fun i hi => List.getElem?_take_of_lt hi
  have tkn : ∀ i c, (n.tbl.bodies.take (cur - 1))[i]? = some c → i < cur - 1 ∧ n.tbl.bodies[i]? = some c := by
    intro i c h
    rw [List.getElem?_take] at h
    split at h
    · exact ⟨by assumption, h⟩
    · cases h
  refine ⟨rfl, by simp [Tables.truncate, hL.lenB], by simp [Tables.truncate, hL.lenT], by simp [Tables.truncate, hL.lenI], ?_, ?_, ?_, ?_, ?_⟩
  · intro h h1 h2
    obtain ⟨c, d1, d2, d3, d4, d5, d6, d7⟩ := hL.byHeight h h1 (by omega)
    have hne : cur ≠ h := by omega
    have hhash : b.hash ≠ c.hash := by
      intro e
      have := hL.distinct (cur - 1) (h - 1) b c c1 d1 e
      omega
    refine ⟨c, ?_, ?_, ?_, d4, ?_, ?_, ?_⟩
    · simp only [Tables.truncate]; rw [tk _ (by omega)]; exact d1
    · simp only [Tables.truncate]; rw [List.getElem?_take_of_lt (by omega)]; exact d2
    · simp only [Tables.truncate]; rw [List.getElem?_take_of_lt (by omega)]; exact d3
    · simp only; rw [KV.get_erase_ne _ _ _ hne]; exact d5
    · simp only; rw [KV.get_erase_ne _ _ _ hhash]; exact d6
    · simp only; rw [KV.get_erase_ne _ _ _ hne]; exact d7
  · intro i c p h1 h2
    simp only [Tables.truncate] at h1 h2
    exact hL.link i c p (tkn _ _ h1).2 (tkn _ _ h2).2
  · intro c h1
    simp only [Tables.truncate] at h1
    exact hL.first c (tkn _ _ h1).2
  · intro i j c d h1 h2 he
    simp only [Tables.truncate] at h1 h2
    exact hL.distinct i j c d (tkn _ _ h1).2 (tkn _ _ h2).2 he
  · intro t h hs i hg
    simp only at hg
    rw [erase_fold_get] at hg
    split at hg
    · cases hg
    · rename_i hnot
      obtain ⟨a1, a2, c, a3, a4, a5⟩ := hL.txMeta t h hs i hg
      have hlt : h ≠ cur := by
        intro e
        subst e
        rw [c2] at a3
        injection a3 with a3
        subst a3
        exact hnot (List.mem_iff_getElem?.mpr ⟨i, a5⟩)
      refine ⟨a1, by omega, c, ?_, a4, a5⟩
      simp only [Tables.truncate]
      rw [List.getElem?_take_of_lt (by omega)]; exact a3

/-- the loop of `RollbackBlockChain` on a linked chain never fails and leaves a chain linked up to the target -/
theorem loop_linked (t : Nat) : ∀ (fuel cur cnt : Nat) (n : Node), fuel = cur - t → t ≤ cur → LinkedTo n cur →
    ∃ n' cnt', chainRollbackLoop n t fuel cur cnt = some (n', cnt') ∧ LinkedTo n' t ∧ n'.cmeta = n.cmeta := by
  intro fuel
  induction fuel with
  | zero =>
    intro cur cnt n hf ht hL
    have : cur = t := by omega
    subst this
    exact ⟨n, cnt, rfl, hL, rfl⟩
  | succ fuel ih =>
    intro cur cnt n hf ht hL
    have hnle : ¬ cur ≤ t := by omega
    obtain ⟨b, im, h1, h2, h3⟩ := loop_step_linked n cur (by omega) hL
    have hnb : ¬ n.blocks ≤ cur - 1 := by rw [hL.blocks]; omega
    simp only [chainRollbackLoop, hnle, if_false, h1, h2, hnb]
    obtain ⟨n', cnt', e1, e2, e3⟩ := ih (cur - 1) (cnt - (im.map (·.2)).foldl (· + ·) 0) _ (by omega) (by omega) h3
    exact ⟨n', cnt', e1, e2, e3⟩

theorem chainRollback_linked (n : Node) (t : Nat) (hL : Linked n) (ht : t ≤ n.cmeta.1) :
    ∃ n', chainRollback n t = .ok n' ∧ Linked n' ∧ n'.cmeta.1 = t := by
  unfold chainRollback
  have h1 : ¬ n.cmeta.1 < t := by omega
  simp only [h1, if_false]
  by_cases he : n.cmeta.1 = t
  · simp only [he, if_true]
    exact ⟨n, rfl, hL, he⟩
  · simp only [he, if_false]
    obtain ⟨n1, cnt, e1, e2, e3⟩ := loop_linked t (n.cmeta.1 - t) n.cmeta.1 n.cmeta.2.2 n rfl ht hL.to
    simp only [e1]
    by_cases h0 : t = 0
    · subst h0
      simp only [if_true]
      refine ⟨_, rfl, ⟨⟨e2.blocks, e2.lenB, e2.lenT, e2.lenI, e2.byHeight, e2.link, e2.first, e2.distinct, e2.txMeta⟩, fun _ => rfl, ?_⟩, rfl⟩
      intro b hb h1'; simp at h1'
    · simp only [h0, if_false]
      obtain ⟨b, c1, c2, c3, c4, c5, c6, c7⟩ := e2.byHeight t (by omega) (Nat.le_refl _)
      have hgb : getBlock n1 t false = some b := by
        simp only [getBlock, h0, if_false, c1, c7, Bool.false_eq_true, Option.map_some]
      simp only [hgb]
      refine ⟨_, rfl, ⟨⟨e2.blocks, e2.lenB, e2.lenT, e2.lenI, e2.byHeight, e2.link, e2.first, e2.distinct, e2.txMeta⟩, ?_, ?_⟩, rfl⟩
      · intro hz; exact absurd hz h0
      · intro c hc _
        simp only at hc
        rw [c1] at hc
        injection hc with hc
        rw [← hc]

-- ------------------------------------------------------------------------------------ histories

/-- what a node's chain goes through: blocks persisted on top (hash not among the stored ones), rollbacks that succeed -/
inductive Step : Node → Node → Prop
  | persist (n n' : Node) (b : Blk) (txs : List String) (ctr : KV String Nat) :
      FreshHash n (mkBlk n txs ctr).hash → persist n txs ctr = some (n', b) → Step n n'
  | rollback (n n' : Node) (t : Nat) : rollback n t = .ok n' → Step n n'

inductive Reach : Node → Prop
  | init : Reach {}
  | step (n n' : Node) : Reach n → Step n n' → Reach n'

theorem step_linked (n n' : Node) (hL : Linked n) (hs : Step n n') : Linked n' := by
  cases hs with
  | persist b txs ctr hf hp => exact persist_linked n n' b txs ctr hL hf hp
  | rollback t hr =>
    unfold rollback at hr
    split at hr
    · cases hr
    · cases hr
    · cases hr
    · rename_i st' hst
      -- the state side accepted the target, so it is not above the state's height; the chain side refuses a target above the head
      have hLt : Linked { n with st := st' } := ⟨⟨hL.to.blocks, hL.to.lenB, hL.to.lenT, hL.to.lenI, hL.to.byHeight, hL.to.link, hL.to.first,
        hL.to.distinct, hL.to.txMeta⟩, hL.headZero, hL.head⟩
      by_cases ht : t ≤ n.cmeta.1
      · obtain ⟨n2, e1, e2, _⟩ := chainRollback_linked { n with st := st' } t hLt ht
        rw [e1] at hr
        injection hr with hr
        subst hr
        exact e2
      · have : chainRollback { n with st := st' } t = .error .higher := by
          unfold chainRollback
          have : n.cmeta.1 < t := by omega
          simp [this]
        rw [this] at hr
        cases hr

theorem reach_linked (n : Node) (h : Reach n) : Linked n := by
  induction h with
  | init => exact Linked.init
  | step n n' _ hs ih => exact step_linked n n' ih hs

-- ------------------------------------------------------------------------------------ the cumulative interchain count

/-- the cumulative interchain count of a list of stored blocks -/
def totalCount (l : List Blk) : Nat := (l.map countOf).sum

theorem totalCount_append (l : List Blk) (b : Blk) : totalCount (l ++ [b]) = totalCount l + countOf b := by
  simp [totalCount]

theorem totalCount_take_succ (l : List Blk) (i : Nat) (b : Blk) (h : l[i]? = some b) :
    totalCount (l.take (i + 1)) = totalCount (l.take i) + countOf b := by
  have hlt : i < l.length := by
    by_cases hh : i < l.length
    · exact hh
    · rw [List.getElem?_eq_none (by omega)] at h; cases h
  rw [List.take_add_one, h]
  simp [totalCount]

/-- the loop of `RollbackBlockChain` keeps the running count equal to the count of the blocks that are left -/
theorem loop_count (t : Nat) : ∀ (fuel cur cnt : Nat) (n : Node), fuel = cur - t → t ≤ cur → LinkedTo n cur →
    cnt = totalCount n.tbl.inter →
    ∃ n' cnt', chainRollbackLoop n t fuel cur cnt = some (n', cnt') ∧ cnt' = totalCount n'.tbl.inter := by
  intro fuel
  induction fuel with
  | zero =>
    intro cur cnt n hf ht hL hc
    exact ⟨n, cnt, rfl, hc⟩
  | succ fuel ih =>
    intro cur cnt n hf ht hL hc
    have hnle : ¬ cur ≤ t := by omega
    obtain ⟨b, im, h1, h2, h3⟩ := loop_step_linked n cur (by omega) hL
    have hnb : ¬ n.blocks ≤ cur - 1 := by rw [hL.blocks]; omega
    simp only [chainRollbackLoop, hnle, if_false, h1, h2, hnb]
    apply ih (cur - 1) _ _ (by omega) (by omega) h3
    -- what is subtracted is the count of the block that goes
    obtain ⟨b', c1, c2, c3, _⟩ := hL.byHeight cur (by omega) (Nat.le_refl _)
    have hc0 : ¬ cur = 0 := by omega
    have him : im = b'.counter := by
      simp only [getIMeta, hc0, if_false, c3, Option.map_some, Option.some.injEq] at h2
      exact h2.symm
    have hfull : n.tbl.inter = n.tbl.inter.take cur := by rw [List.take_of_length_le (by rw [hL.lenI]; exact Nat.le_refl _)]
    have hsplit : totalCount n.tbl.inter = totalCount (n.tbl.inter.take (cur - 1)) + countOf b' := by
      have := totalCount_take_succ n.tbl.inter (cur - 1) b' c3
      have e : cur - 1 + 1 = cur := by omega
      rw [e] at this
      rw [← this, ← hfull]
    show cnt - (im.map (·.2)).foldl (· + ·) 0 = totalCount (n.tbl.inter.take (cur - 1))
    rw [hc, hsplit, him]
    show totalCount (List.take (cur - 1) n.tbl.inter) + countOf b' - countOf b' = _
    omega

/-- the chain meta's cumulative interchain count is the sum over the stored blocks -/
def CountOk (n : Node) : Prop := n.cmeta.2.2 = totalCount n.tbl.inter

theorem CountOk.init : CountOk ({} : Node) := rfl

theorem applyBlk_count (n : Node) (b : Blk) (h : CountOk n) : CountOk (applyBlk n b) := by
  unfold CountOk at h ⊢
  simp only [applyBlk, Tables.append]
  rw [totalCount_append, ← h]
  exact Nat.add_comm _ _

theorem chainRollback_count (n n' : Node) (t : Nat) (hL : Linked n) (hC : CountOk n) (ht : t ≤ n.cmeta.1)
    (hr : chainRollback n t = .ok n') : CountOk n' := by
  unfold chainRollback at hr
  have h1 : ¬ n.cmeta.1 < t := by omega
  simp only [h1, if_false] at hr
  by_cases he : n.cmeta.1 = t
  · simp only [he, if_true] at hr
    injection hr with hr; subst hr; exact hC
  · simp only [he, if_false] at hr
    obtain ⟨n1, cnt, e1, e2⟩ := loop_count t (n.cmeta.1 - t) n.cmeta.1 n.cmeta.2.2 n rfl ht hL.to hC
    obtain ⟨n1', cnt', f1, f2, _⟩ := loop_linked t (n.cmeta.1 - t) n.cmeta.1 n.cmeta.2.2 n rfl ht hL.to
    rw [e1] at f1
    injection f1 with f1
    injection f1 with g1 g2
    subst g1
    simp only [e1] at hr
    by_cases h0 : t = 0
    · subst h0
      simp only [if_true] at hr
      injection hr with hr
      subst hr
      have hlen : n1.tbl.inter.length = 0 := f2.lenI
      have hnil : n1.tbl.inter = [] := List.eq_nil_of_length_eq_zero hlen
      show (0 : Nat) = totalCount n1.tbl.inter
      rw [hnil]; rfl
    · simp only [h0, if_false] at hr
      split at hr
      · cases hr
      · injection hr with hr
        subst hr
        exact e2

/-- over every history the stored cumulative interchain count is the sum of the per-block counts of the blocks that are stored -/
theorem reach_count (n : Node) (h : Reach n) : CountOk n := by
  induction h with
  | init => exact CountOk.init
  | step n n' hreach hs ih =>
    have hL := reach_linked n hreach
    cases hs with
    | persist b txs ctr hf hp =>
      unfold persist at hp
      simp only at hp
      split at hp
      · cases hp
      · cases hp
        exact applyBlk_count n (mkBlk n txs ctr) ih
    | rollback t hr =>
      unfold rollback at hr
      split at hr
      · cases hr
      · cases hr
      · cases hr
      · rename_i st' _
        by_cases ht : t ≤ n.cmeta.1
        · have hL' : Linked { n with st := st' } := ⟨⟨hL.to.blocks, hL.to.lenB, hL.to.lenT, hL.to.lenI, hL.to.byHeight, hL.to.link, hL.to.first,
            hL.to.distinct, hL.to.txMeta⟩, hL.headZero, hL.head⟩
          exact chainRollback_count { n with st := st' } n' t hL' ih ht hr
        · have : chainRollback { n with st := st' } t = .error .higher := by
            unfold chainRollback
            have : n.cmeta.1 < t := by omega
            simp [this]
          rw [this] at hr
          cases hr


end Bxh.Chain
