import Bxh.Model.Router
namespace Bxh.Router
open Bxh Bxh.Exec

/-- the keys of a map are pairwise distinct (Go maps have no duplicate keys; the model's maps are built with `KV.set`) -/
def Keyed {β : Type} (m : KV String β) : Prop := (m.map (·.1)).Nodup

/-- a pass over a map without duplicate keys: every key of the map gets `g` of its value and of what was there, every other
key is left alone -/
theorem pass_get {β : Type} (g : β → Option Wrapper → Wrapper) (l : KV String β) (hl : (l.map (·.1)).Nodup)
    (m0 : KV String Wrapper) (k : String) :
    KV.get (pass g l m0) k = match KV.get l k with
      | some v => some (g v (KV.get m0 k))
      | none => KV.get m0 k := by
  unfold pass
  induction l generalizing m0 with
  | nil => rfl
  | cons p rest ih =>
    obtain ⟨a, b⟩ := p
    simp only [List.map_cons, List.nodup_cons] at hl
    simp only [List.foldl_cons]
    rw [ih hl.2]
    by_cases hak : a = k
    · subst hak
      have hnone : KV.get rest a = none := by
        cases hg : KV.get rest a with
        | none => rfl
        | some v =>
          exfalso
          apply hl.1
          clear ih hl
          induction rest with
          | nil => cases hg
          | cons q r ihr =>
            obtain ⟨c, d⟩ := q
            simp only [KV.get] at hg
            by_cases hc : c = a
            · subst hc; simp
            · rw [if_neg hc] at hg
              simp only [List.map_cons, List.mem_cons]
              exact Or.inr (ihr hg)
      simp [hnone, KV.get]
    · simp only [KV.get, if_neg hak]
      rw [KV.get_set_ne _ _ _ _ hak]

theorem keyed_nil {β : Type} : Keyed ([] : KV String β) := List.nodup_nil

theorem keyed_set {β : Type} (m : KV String β) (k : String) (v : β) (h : Keyed m) : Keyed (KV.set m k v) := by
  unfold Keyed KV.set KV.erase at *
  simp only [List.map_cons, List.nodup_cons]
  constructor
  · intro hin
    obtain ⟨p, hp, hk⟩ := List.mem_map.mp hin
    have := (List.mem_filter.mp hp).2
    simp only [ne_eq, decide_not, Bool.not_eq_eq_eq_not, Bool.not_true, decide_eq_false_iff_not] at this
    exact this hk
  · exact List.Nodup.sublist (List.Sublist.map _ List.filter_sublist) h

theorem counterOf_keyed (idx : Nat) (evs : List Ev) (ctr : KV String (List VIdx)) (h : Keyed ctr) : Keyed (counterOf idx evs ctr) := by
  unfold counterOf
  induction evs generalizing ctr with
  | nil => exact h
  | cons e rest ih =>
    simp only [List.foldl_cons]
    apply ih
    cases e with
    | audit => exact h
    | interchain m =>
      simp only
      induction m generalizing ctr with
      | nil => exact h
      | cons q qs ihq =>
        simp only [List.foldl_cons]
        exact ihq _ (keyed_set _ _ _ h)

/-- the delivery counter a block's serial loop builds has one entry per destination -/
theorem applyTxs_counter_keyed (cfg : Cfg) (cache : KV (String × String) Svc) (h : Nat) (l : Led) (txs : List (Tx × Bool)) :
    Keyed (applyTxs cfg cache h l txs).counter := by
  unfold applyTxs
  have : ∀ (ts : List (Tx × Bool)) (a : Acc), Keyed a.counter →
      Keyed (ts.foldl (fun (a : Acc) p =>
        let env : Env := { cfg := cfg, cache := cache, height := h, txIndex := a.idx }
        let inv := if !p.2 then some "bad-sig" else match p.1 with
          | .ibtp _ i pk => proofVerdict cfg i pk
          | _ => none
        let r := applyTx env a.led p.1 inv
        { led := r.1, idx := a.idx + 1, rcpts := a.rcpts ++ [r.2.rcpt], counter := counterOf a.idx r.2.events a.counter }) a).counter := by
    intro ts
    induction ts with
    | nil => intro a ha; exact ha
    | cons p rest ih =>
      intro a ha
      simp only [List.foldl_cons]
      exact ih _ (counterOf_keyed _ _ _ ha)
  exact this txs { led := l } keyed_nil

theorem pushTo_keyed (m : KV String (List TId)) (c : String) (id : TId) (h : Keyed m) : Keyed (pushTo m c id) := by
  unfold pushTo; exact keyed_set _ _ _ h

/-- the timeout notifications of a block have one entry per chain -/
theorem getTimeoutMap_keyed (cfg : Cfg) (l : Led) (h : Nat) : Keyed (getTimeoutMap cfg l h) := by
  unfold getTimeoutMap
  have : ∀ (ids : List TId) (acc : Option (KV String (List TId))), (∀ m, acc = some m → Keyed m) →
      ∀ m, ids.foldl (timeoutMapStep cfg l) acc = some m → Keyed m := by
    intro ids
    induction ids with
    | nil => intro acc ha m hm; exact ha m hm
    | cons v rest ih =>
      intro acc ha m hm
      simp only [List.foldl_cons] at hm
      apply ih _ _ m hm
      intro m1 h1
      unfold timeoutMapStep at h1
      split at h1
      · cases h1
      · rename_i m0
        have h0 := ha m0 rfl
        split at h1
        · cases h1; exact pushTo_keyed _ _ _ h0
        · split at h1
          · cases h1
            rename_i gi _
            have : ∀ (cs : List (TxId × Status)) (mm : KV String (List TId)), Keyed mm →
                Keyed (cs.foldl (fun m p =>
                  let m1 := pushTo m (notifyChain cfg p.1.frm) (.single p.1)
                  if p.2.isFinal then pushTo m1 (notifyChain cfg p.1.to) (.single p.1) else m1) mm) := by
              intro cs
              induction cs with
              | nil => intro mm hmm; exact hmm
              | cons c cr ihc =>
                intro mm hmm
                simp only [List.foldl_cons]
                apply ihc
                split
                · exact pushTo_keyed _ _ _ (pushTo_keyed _ _ _ hmm)
                · exact pushTo_keyed _ _ _ hmm
            exact this _ _ h0
          · cases h1
  cases hr : (getTimeoutList l h).foldl (timeoutMapStep cfg l) (some []) with
  | none => exact keyed_nil
  | some m => exact this _ _ (fun m0 h0 => by cases h0; exact keyed_nil) m hr

/-- **what a pier is handed is what the block's interchain meta says for it** — its transactions (positions in the block, in the
order of `Counter`), its timed-out ids, its one-to-many notifications; a pier the meta does not mention gets the empty wrapper -/
theorem deliver_spec (o : BlockOut) (hc : Keyed o.counter) (ht : Keyed o.timeoutCounter) (hm : Keyed o.multiCounter) (pier : String) :
    deliver o pier = { txs := KV.getD o.counter pier [], timeouts := KV.getD o.timeoutCounter pier [], multi := KV.getD o.multiCounter pier [] } := by
  unfold deliver classify
  simp only
  rw [pass_get _ _ hc, pass_get _ _ hm, pass_get _ _ ht]
  unfold KV.getD
  cases KV.get o.counter pier <;> cases KV.get o.multiCounter pier <;> cases KV.get o.timeoutCounter pier <;> simp [KV.get]

end Bxh.Router
