import Bxh.Proofs.LedgerReads
import Bxh.Proofs.LedgerRevert
/-!
# `FlushDirtyData` keeps every storage read

After the flush the block's account objects are gone and a read is served by the account cache (then the database).  For a ledger
whose account objects are coherent — what an object memoised as the committed value of a key is what the layers below hold, a key
is written only after its committed value was memoised, no key is in a dirty set twice, no account is an object twice — every key of
every account reads after the flush what it read before it (up to nil / empty, which `bytes.Equal` does not tell apart).
-/
namespace Bxh.Ledger
open Bxh

theorem KV.mem_of_get {α β : Type} [DecidableEq α] {m : KV α β} {k : α} {v : β} (h : KV.get m k = some v) : (k, v) ∈ m := by
  induction m with
  | nil => cases h
  | cons p rest ih =>
    obtain ⟨k', v'⟩ := p
    unfold KV.get at h
    by_cases hk : k' = k
    · simp only [hk, if_true] at h; cases h; subst hk; exact List.mem_cons_self
    · simp only [hk, if_false] at h; exact List.mem_cons_of_mem _ (ih h)

theorem KV.get_none_of_not_mem {α β : Type} [DecidableEq α] {m : KV α β} {k : α} (h : ∀ p ∈ m, p.1 ≠ k) : KV.get m k = none := by
  induction m with
  | nil => rfl
  | cons p rest ih =>
    obtain ⟨k', v'⟩ := p
    unfold KV.get
    have : k' ≠ k := h (k', v') List.mem_cons_self
    simp only [this, if_false]
    exact ih (fun q hq => h q (List.mem_cons_of_mem _ hq))

theorem KV.not_mem_of_get_none {α β : Type} [DecidableEq α] {m : KV α β} {k : α} (h : KV.get m k = none) : ∀ p ∈ m, p.1 ≠ k := by
  induction m with
  | nil => intro p hp; cases hp
  | cons q rest ih =>
    obtain ⟨k', v'⟩ := q
    unfold KV.get at h
    by_cases hk : k' = k
    · simp [hk] at h
    · simp only [hk, if_false] at h
      intro p hp
      rcases List.mem_cons.mp hp with rfl | hp
      · exact hk
      · exact ih h p hp

theorem KV.unique_of_nodup {α β : Type} [DecidableEq α] {m : KV α β} (hnd : (m.map (·.1)).Nodup) {k : α} {v w : β}
    (h1 : (k, v) ∈ m) (h2 : (k, w) ∈ m) : v = w := by
  induction m with
  | nil => cases h1
  | cons p rest ih =>
    simp only [List.map_cons, List.nodup_cons] at hnd
    rcases List.mem_cons.mp h1 with e1 | e1 <;> rcases List.mem_cons.mp h2 with e2 | e2
    · rw [← e1] at e2; cases e2; rfl
    · exfalso; apply hnd.1; rw [← e1]; exact List.mem_map.mpr ⟨_, e2, rfl⟩
    · exfalso; apply hnd.1; rw [← e2]; exact List.mem_map.mpr ⟨_, e1, rfl⟩
    · exact ih hnd.2 e1 e2

/-- coherence of the block's account objects with the layers below them -/
structure ObjCoh (l : L) : Prop where
  nodup : (l.accounts.map (·.1)).Nodup
  memo : ∀ a acc, KV.get l.accounts a = some acc → ∀ k v, KV.get acc.originState k = some v → v.getD "" = (below l a k).getD ""
  first : ∀ a acc, KV.get l.accounts a = some acc → ∀ k, (KV.get acc.dirtyState k).isSome = true → (KV.get acc.originState k).isSome = true
  dnodup : ∀ a acc, KV.get l.accounts a = some acc → (acc.dirtyState.map (·.1)).Nodup

theorem loadAcct_states {l : L} {a : Addr} {acc : Acct} (h : loadAcct l a = some acc) : acc.dirtyState = [] ∧ acc.originState = [] := by
  unfold loadAcct at h
  split at h
  · cases h; split <;> exact ⟨rfl, rfl⟩
  · split at h
    · cases h; split <;> exact ⟨rfl, rfl⟩
    · cases h

/-- on a ledger without account objects a read is what the layers below hold -/
theorem peekState_no_objects (l : L) (h : l.accounts = []) (a : Addr) (k : String) : peekState l a k = below l a k := by
  unfold peekState viewAcct
  rw [h]
  simp only [KV.get]
  cases hl : loadAcct l a with
  | none => rfl
  | some acc =>
    obtain ⟨h1, h2⟩ := loadAcct_states hl
    simp only [rdAcct, h1, h2, KV.get]

theorem flush_cache (H : RootPre → String) (l : L) :
    (flush H l).1.cache = (flushItems l).foldl (fun c p => cacheAdd c p.1 p.2) l.cache := rfl

/-- the storage cache of an account after `AccountCache.add`, for a key the account did not write: what it held before -/
theorem cacheAdd_state_unwritten (c : Cache) (a : Addr) (acc : Acct) (k : String) (h : ∀ p ∈ acc.dirtyState, p.1 ≠ k) :
    (KV.get (cacheAdd c a acc).state a).bind (fun m => KV.get m k) = (KV.get c.state a).bind (fun m => KV.get m k) := by
  rw [cacheAdd_eq, codeC_state]
  unfold stateC
  simp only
  rw [innerC_state]
  split
  · rw [KV.get_set_eq]
    simp only [Option.bind]
    rw [foldSet_other _ _ k h]
    cases KV.get c.state a with
    | none => simp [KV.get]
    | some m => rfl
  · rw [innerC_state]

theorem below_of_state {l l' : L} (hd : l'.db = l.db) (a : Addr) (k : String)
    (h : (KV.get l'.cache.state a).bind (fun m => KV.get m k) = (KV.get l.cache.state a).bind (fun m => KV.get m k)) :
    below l' a k = below l a k := by
  unfold below; rw [h, hd]


theorem cacheFold_state_unwritten (items : List Item) (c : Cache) (a : Addr) (acc : Acct) (k : String)
    (hnd : (items.map (·.1)).Nodup) (hmem : (a, acc) ∈ items) (h : ∀ p ∈ acc.dirtyState, p.1 ≠ k) :
    (KV.get (items.foldl (fun c p => cacheAdd c p.1 p.2) c).state a).bind (fun m => KV.get m k) =
      (KV.get c.state a).bind (fun m => KV.get m k) := by
  obtain ⟨pre, post, rfl⟩ := List.append_of_mem hmem
  have hnd' : ((pre.map (·.1)) ++ a :: post.map (·.1)).Nodup := by simpa using hnd
  have hpost : ∀ q ∈ post, q.1 ≠ a := by
    intro q hq e
    have h2 := (List.nodup_cons.mp (List.nodup_append.mp hnd').2.1).1
    exact h2 (by rw [← e]; exact List.mem_map.mpr ⟨q, hq, rfl⟩)
  have hpre : ∀ q ∈ pre, q.1 ≠ a := by
    intro q hq e
    have h3 := (List.nodup_append.mp hnd').2.2
    exact h3 q.1 (List.mem_map.mpr ⟨q, hq, rfl⟩) a List.mem_cons_self e
  simp only [List.foldl_append, List.foldl_cons]
  rw [cacheFold_other post _ a hpost, cacheAdd_state_unwritten _ a acc k h, cacheFold_other pre _ a hpre]

theorem mem_flushItems {l : L} {a : Addr} {x : Acct} (h : (a, x) ∈ flushItems l) :
    ∃ acc, (a, acc) ∈ l.accounts ∧ (journalOf l a acc).1.isSome = true ∧ x = loadOrigin l a acc := by
  unfold flushItems at h
  obtain ⟨q, hq, e⟩ := List.mem_filterMap.mp h
  obtain ⟨p, hp, rfl⟩ := List.mem_map.mp hq
  simp only at e
  cases hj : (journalOf l p.1 p.2).1 with
  | none => rw [hj] at e; cases e
  | some je =>
    rw [hj] at e
    simp only [Option.some.injEq, Prod.mk.injEq] at e
    obtain ⟨e1, e2⟩ := e
    subst e1
    exact ⟨p.2, hp, by rw [hj]; rfl, by rw [← e2, journalOf_snd]⟩

theorem journalOf_none_unchanged {l : L} {a : Addr} {acc : Acct} (h : (journalOf l a acc).1 = none) :
    ∀ p ∈ acc.dirtyState, beq ((KV.get acc.originState p.1).getD none) p.2 = true := by
  have hck : (changedKeys (loadOrigin l a acc)).isEmpty = true := by
    unfold journalOf at h
    simp only at h
    unfold loadOrigin
    split
    · rename_i hc
      simp only [hc, if_true] at h
      split at h
      · cases h
      · rename_i hc2
        simp only [Bool.or_eq_true, not_or, Bool.not_eq_true', Bool.not_eq_false'] at hc2
        simpa using hc2.2
    · rename_i hc
      have hc' := Bool.eq_false_iff.mpr hc
      simp only [hc', Bool.false_eq_true, if_false] at h
      split at h
      · cases h
      · rename_i hc2
        simp only [Bool.or_eq_true, not_or, Bool.not_eq_true', Bool.not_eq_false'] at hc2
        simpa using hc2.2
  intro p hp
  unfold changedKeys at hck
  have d1 : (loadOrigin l a acc).dirtyState = acc.dirtyState := loadOrigin_dirtyState l a acc
  have d2 : (loadOrigin l a acc).originState = acc.originState := by unfold loadOrigin; split <;> rfl
  rw [d1, d2] at hck
  have : p ∉ acc.dirtyState.filter (fun p => !beq ((KV.get acc.originState p.1).getD none) p.2) := by
    rw [List.isEmpty_iff.mp hck]; exact List.not_mem_nil
  simp only [List.mem_filter, hp, true_and, Bool.not_eq_true', Bool.not_eq_false'] at this
  simpa using this

theorem beq_getD {x y : Bytes} (h : beq x y = true) : x.getD "" = y.getD "" := by
  unfold beq at h; simpa using h

/-- **`FlushDirtyData` keeps every storage read** (up to nil / empty) -/
theorem flush_keeps_reads (H : RootPre → String) (l : L) (hC : ObjCoh l) (a : Addr) (k : String) :
    (peekState (flush H l).1 a k).getD "" = (peekState l a k).getD "" := by
  rw [peekState_no_objects (flush H l).1 rfl a k]
  have hkeys : ∀ x, (a, x) ∈ flushItems l → ∃ acc, (a, acc) ∈ l.accounts ∧ (journalOf l a acc).1.isSome = true ∧ x = loadOrigin l a acc :=
    fun x hx => mem_flushItems hx
  have hndI : ((flushItems l).map (·.1)).Nodup := (flushItems_sublist l l.accounts).nodup hC.nodup
  -- when the account is not flushed, the layers below it are what they were
  have unflushed : (∀ x, (a, x) ∉ flushItems l) → below (flush H l).1 a k = below l a k := by
    intro hno
    apply below_of_state (flush_db H l).1
    rw [flush_cache]
    rw [cacheFold_other (flushItems l) l.cache a (fun p hp e => hno p.2 (by rw [← e]; exact hp))]
  cases hget : KV.get l.accounts a with
  | none =>
    have hno : ∀ x, (a, x) ∉ flushItems l := by
      intro x hx
      obtain ⟨acc, hm, _, _⟩ := hkeys x hx
      exact KV.not_mem_of_get_none hget (a, acc) hm rfl
    rw [unflushed hno]
    unfold peekState viewAcct
    rw [hget]
    simp only
    cases hl : loadAcct l a with
    | none => rfl
    | some acc =>
      obtain ⟨h1, h2⟩ := loadAcct_states hl
      simp only [rdAcct, h1, h2, KV.get]
  | some acc =>
    have hmem : (a, acc) ∈ l.accounts := KV.mem_of_get hget
    rw [peekState_of_present hget]
    have horigin : ∀ ov, KV.get acc.originState k = some ov → ov.getD "" = (below l a k).getD "" := hC.memo a acc hget k
    cases hj : (journalOf l a acc).1 with
    | none =>
      have hno : ∀ x, (a, x) ∉ flushItems l := by
        intro x hx
        obtain ⟨acc2, hm, hs, _⟩ := hkeys x hx
        have : acc2 = acc := KV.unique_of_nodup hC.nodup hm hmem
        subst this
        rw [hj] at hs; cases hs
      rw [unflushed hno]
      unfold rdAcct
      cases hd : KV.get acc.dirtyState k with
      | some v =>
        simp only
        have hb := journalOf_none_unchanged hj (k, v) (KV.mem_of_get hd)
        have hfirst := hC.first a acc hget k (by rw [hd]; rfl)
        obtain ⟨ov, hov⟩ := Option.isSome_iff_exists.mp hfirst
        simp only [hov, Option.getD_some] at hb
        rw [← beq_getD hb, horigin ov hov]
      | none =>
        simp only
        cases ho : KV.get acc.originState k with
        | some ov => simp only; exact (horigin ov ho).symm
        | none => rfl
    | some je =>
      have hitem := flushItems_mem_of l a acc hmem (by rw [hj]; rfl)
      unfold rdAcct
      cases hd : KV.get acc.dirtyState k with
      | some v =>
        simp only
        obtain ⟨m, hm1, hm2⟩ := cacheFold_state (flushItems l) l.cache a (loadOrigin l a acc) k v hndI hitem
          (by rw [loadOrigin_dirtyState]; exact ⟨(k, v), KV.mem_of_get hd, rfl⟩)
          (by
            rw [loadOrigin_dirtyState]
            intro p hp hpk
            have : (k, p.2) ∈ acc.dirtyState := by rw [← hpk]; exact hp
            exact KV.unique_of_nodup (hC.dnodup a acc hget) this (KV.mem_of_get hd))
        unfold below
        rw [flush_cache, hm1]
        simp only [Option.bind, hm2]
      | none =>
        simp only
        have hbelow : below (flush H l).1 a k = below l a k := by
          apply below_of_state (flush_db H l).1
          rw [flush_cache]
          exact cacheFold_state_unwritten (flushItems l) l.cache a (loadOrigin l a acc) k hndI hitem
            (by rw [loadOrigin_dirtyState]; exact KV.not_mem_of_get_none hd)
        rw [hbelow]
        cases ho : KV.get acc.originState k with
        | some ov => simp only; exact (horigin ov ho).symm
        | none => rfl


theorem KV.set_nodup {α β : Type} [DecidableEq α] (m : KV α β) (k : α) (v : β) (h : (m.map (·.1)).Nodup) :
    ((KV.set m k v).map (·.1)).Nodup := by
  unfold KV.set KV.erase
  simp only [List.map_cons, List.nodup_cons]
  refine ⟨?_, (List.Sublist.map _ List.filter_sublist).nodup h⟩
  intro hm
  obtain ⟨p, hp, e⟩ := List.mem_map.mp hm
  have := (List.mem_filter.mp hp).2
  simp only [ne_eq, decide_eq_true_eq] at this
  exact this e

/-- a ledger without account objects is coherent -/
theorem ObjCoh.of_no_objects (l : L) (h : l.accounts = []) : ObjCoh l := by
  refine ⟨by rw [h]; exact List.nodup_nil, ?_, ?_, ?_⟩ <;> (intro a acc hg; rw [h] at hg; cases hg)

/-- **a storage write keeps the account objects coherent** -/
theorem ObjCoh.setState {l : L} (hC : ObjCoh l) (a : Addr) (k : String) (v : Bytes) : ObjCoh (setState l a k v) := by
  have sp := setState_spec l a k v
  obtain ⟨accm, hself, _, _, hdirty, horig, hfirst⟩ := sp.self
  -- the object the ledger had for the account is coherent (an object of the block, a freshly loaded one, or a new one)
  have hobj : (∀ k' ov, KV.get ((viewAcct l a).getD {}).originState k' = some ov → ov.getD "" = (below l a k').getD "") ∧
      (∀ k', (KV.get ((viewAcct l a).getD {}).dirtyState k').isSome = true → (KV.get ((viewAcct l a).getD {}).originState k').isSome = true) ∧
      (((viewAcct l a).getD {}).dirtyState.map (·.1)).Nodup := by
    unfold viewAcct
    cases hg : KV.get l.accounts a with
    | some acc => exact ⟨hC.memo a acc hg, hC.first a acc hg, hC.dnodup a acc hg⟩
    | none =>
      simp only
      cases hl : loadAcct l a with
      | some acc =>
        obtain ⟨h1, h2⟩ := loadAcct_states hl
        simp only [Option.getD_some, h1, h2]
        exact ⟨fun _ _ h => (by simp [KV.get] at h), fun _ h => (by simp [KV.get] at h), List.nodup_nil⟩
      | none => exact ⟨fun _ _ h => (by simp [KV.get] at h), fun _ h => (by simp [KV.get] at h), List.nodup_nil⟩
  obtain ⟨o1, o2, o3⟩ := hobj
  refine ⟨?_, ?_, ?_, ?_⟩
  · -- no account is an object twice: the accounts are what they were, with `a` set
    have : ∀ b, KV.get (Ledger.setState l a k v).accounts b = if b = a then some { accm with dirtyState := KV.set accm.dirtyState k v } else KV.get l.accounts b := by
      intro b; by_cases hb : b = a
      · subst hb; rw [hself]; simp
      · rw [sp.other b hb]; simp [hb]
    -- (the list itself: `setState` only ever `KV.set`s into it)
    unfold Ledger.setState
    rw [getState_eq]
    simp only
    have hg := getOrCreate_eq l a
    have hnd0 : ((getOrCreate l a).1.accounts.map (·.1)).Nodup := by
      rw [hg]
      cases KV.get l.accounts a with
      | some acc => exact hC.nodup
      | none =>
        simp only
        cases loadAcct l a with
        | some acc => exact KV.set_nodup _ _ _ hC.nodup
        | none => exact KV.set_nodup _ _ _ hC.nodup
    split
    · exact KV.set_nodup _ _ _ hnd0
    · split
      · exact KV.set_nodup _ _ _ hnd0
      · exact KV.set_nodup _ _ _ (KV.set_nodup _ _ _ hnd0)
  · intro b acc hg k' ov ho
    rw [below_congr sp.cache sp.db]
    by_cases hb : b = a
    · subst hb
      rw [hself] at hg
      cases hg
      simp only at ho
      rcases horig with e | ⟨_, _, e⟩
      · rw [e] at ho; exact o1 k' ov ho
      · rw [e] at ho
        by_cases hk : k = k'
        · subst hk; rw [KV.get_set_eq] at ho; cases ho; rfl
        · rw [KV.get_set_ne _ _ _ _ hk] at ho; exact o1 k' ov ho
    · rw [sp.other b hb] at hg
      exact hC.memo b acc hg k' ov ho
  · intro b acc hg k' hd
    by_cases hb : b = a
    · subst hb
      rw [hself] at hg
      cases hg
      simp only at hd ⊢
      by_cases hk : k = k'
      · subst hk
        rcases hfirst with h | h
        · rw [hdirty] at h
          rcases horig with e | ⟨hn, _, _⟩
          · rw [e]; exact o2 k h
          · rw [hn] at h; cases h
        · exact h
      · rw [KV.get_set_ne _ _ _ _ hk, hdirty] at hd
        have := o2 k' hd
        rcases horig with e | ⟨_, _, e⟩
        · rw [e]; exact this
        · rw [e, KV.get_set_ne _ _ _ _ hk]; exact this
    · rw [sp.other b hb] at hg
      exact hC.first b acc hg k' hd
  · intro b acc hg
    by_cases hb : b = a
    · subst hb
      rw [hself] at hg
      cases hg
      simp only
      rw [hdirty]
      exact KV.set_nodup _ _ _ o3
    · rw [sp.other b hb] at hg
      exact hC.dnodup b acc hg

theorem ObjCoh.writes {l : L} (hC : ObjCoh l) (ws : List SWrite) : ObjCoh (writes ws l) := by
  induction ws generalizing l with
  | nil => exact hC
  | cons w rest ih => exact ih (hC.setState w.addr w.key w.val)

end Bxh.Ledger
