import Bxh.Model.GovTable
/-! Helper lemmas about the proposal table: every operation keeps concluded entries as they are. -/
namespace Bxh.GovTable

/-- every concluded entry of `t` is found unchanged, at the same position, in `t'` -/
@[reducible] def Keeps (t t' : Table) : Prop := ∀ (k : Nat) (e : Entry), t[k]? = some e → e.status.final = true → t'[k]? = some e

theorem Keeps.refl (t : Table) : Keeps t t := fun _ _ h _ => h

theorem Keeps.trans {a b c : Table} (h1 : Keeps a b) (h2 : Keeps b c) : Keeps a c :=
  fun k e hk hf => h2 k e (h1 k e hk hf) hf

theorem setAt_keeps (t : Table) (i : Nat) (s : St) (h : ∀ e, t[i]? = some e → e.status.final = false) :
    Keeps t (setAt t i s) := by
  intro k e hk hf
  simp only [setAt, List.getElem?_modify, hk, Option.map_eq_map, Option.map_some]
  by_cases hik : i = k
  · subst hik
    have := h e hk
    rw [hf] at this
    cases this
  · simp [hik]

theorem append_keeps (t l : Table) : Keeps t (t ++ l) := by
  intro k e hk _
  have hlt : k < t.length := by
    rcases List.getElem?_eq_some_iff.mp hk with ⟨h, _⟩
    exact h
  rw [List.getElem?_append, if_pos hlt]; exact hk

theorem lockLow_keeps (t : Table) (obj : String) (prio : Nat) : Keeps t (lockLow t obj prio).1 := by
  unfold lockLow
  split
  · next i hi =>
    apply setAt_keeps
    intro e he
    rcases List.findIdx?_eq_some_iff_getElem.mp hi with ⟨hlt, hp, _⟩
    have : t[i] = e := by
      rcases List.getElem?_eq_some_iff.mp he with ⟨_, h⟩
      exact h
    rw [this] at hp
    simp only [Bool.and_eq_true, beq_iff_eq, decide_eq_true_eq] at hp
    rw [hp.1.2]
    rfl
  · exact Keeps.refl t

theorem unlock_keeps (t : Table) (i : Nat) (r : Bool) : Keeps t (unlock t i r) := by
  unfold unlock
  split
  · next e he =>
    split
    · next hp =>
      apply setAt_keeps
      intro e' he'
      rw [he] at he'
      cases he'
      rw [hp]
      rfl
    · exact Keeps.refl t
  · exact Keeps.refl t

theorem handleResult_keeps (t : Table) (i : Nat) : Keeps t (handleResult t i) := by
  unfold handleResult
  split
  · split
    · exact unlock_keeps _ _ _
    · exact Keeps.refl t
  · exact Keeps.refl t

theorem endObj_keeps (t : Table) (obj : String) : Keeps t (endObj t obj) := by
  intro k e hk hf
  simp only [endObj, List.getElem?_map, hk, Option.map_some]
  have : ¬ (e.obj = obj ∧ (e.status = .paused ∨ e.status = .proposed)) := by
    rintro ⟨_, h | h⟩ <;> rw [h] at hf <;> cases hf
  simp [this]

theorem setAt_then_handle_keeps (t : Table) (i : Nat) (s : St) (h : ∀ e, t[i]? = some e → e.status.final = false) :
    Keeps t (handleResult (setAt t i s) i) :=
  (setAt_keeps t i s h).trans (handleResult_keeps _ _)

theorem step_keeps (t : Table) (op : Op) : Keeps t (step t op) := by
  cases op with
  | submit obj prio => exact (lockLow_keeps t obj prio).trans (append_keeps _ _)
  | conclude i approve =>
    simp only [step]
    split
    · next e he =>
      split
      · next hp =>
        apply setAt_then_handle_keeps
        intro e' he'
        rw [he] at he'
        cases he'
        rw [hp]
        rfl
      · exact Keeps.refl t
    · exact Keeps.refl t
  | electorate i approve =>
    simp only [step]
    split
    · next e he =>
      split
      · exact Keeps.refl t
      · next hp =>
        apply setAt_then_handle_keeps
        intro e' he'
        rw [he] at he'
        cases he'
        simpa using hp
    · exact Keeps.refl t
  | withdraw i =>
    simp only [step]
    split
    · next e he =>
      split
      · exact Keeps.refl t
      · next hp =>
        apply setAt_then_handle_keeps
        intro e' he'
        rw [he] at he'
        cases he'
        simpa using hp
    · exact Keeps.refl t
  | endObj obj => exact endObj_keeps t obj
  | lockObj obj prio => exact lockLow_keeps t obj prio
  | unlockObj obj =>
    simp only [step]
    split
    · exact unlock_keeps _ _ _
    · exact Keeps.refl t

theorem run_keeps (t : Table) (ops : List Op) : Keeps t (run t ops) := by
  induction ops generalizing t with
  | nil => exact Keeps.refl t
  | cons op ops ih => exact (step_keeps t op).trans (ih (step t op))

theorem run_append (t : Table) (a b : List Op) : run t (a ++ b) = run (run t a) b := by
  simp [run, List.foldl_append]

end Bxh.GovTable
