import Bxh.Proofs.ExecBlock
import Bxh.Proofs.GoRemove
/-!
# What `setTimeoutList` leaves under each timeout height

`setTimeoutList` decides one action per transaction (`timeoutAct`), collects the additions and the removals per height in two
maps, and then writes every touched height once for the additions and once for the removals.  This file computes the value
stored under `timeout-<d>` afterwards, for every height `d` and every block, from the actions of the block alone:
`setTimeoutList_at`.
-/
namespace Bxh.Exec
open Bxh

/-- ids the block adds to the list of height `d`, in block order -/
def addsAt (d : Nat) (acts : List TOAct) : List TxId :=
  acts.filterMap (fun a => match a with | .add th id => if th = d then some id else none | _ => none)

/-- ids the block takes off the list of height `d`, in block order -/
def remsAt (d : Nat) (acts : List TOAct) : List TxId :=
  acts.filterMap (fun a => match a with | .remove th id => if th = d then some id else none | _ => none)

def KeyedN {β : Type} (m : KV Nat β) : Prop := (m.map (·.1)).Nodup

theorem keyedN_set {β : Type} (m : KV Nat β) (k : Nat) (v : β) (h : KeyedN m) : KeyedN (KV.set m k v) := by
  unfold KeyedN KV.set KV.erase at *
  simp only [List.map_cons, List.nodup_cons]
  constructor
  · intro hin
    obtain ⟨p, hp, hk⟩ := List.mem_map.mp hin
    have := (List.mem_filter.mp hp).2
    simp only [ne_eq, decide_not, Bool.not_eq_eq_eq_not, Bool.not_true, decide_eq_false_iff_not] at this
    exact this hk
  · exact List.Nodup.sublist (List.Sublist.map _ List.filter_sublist) h

theorem get_none_of_not_key {β : Type} (m : KV Nat β) (k : Nat) (h : k ∉ m.map (·.1)) : KV.get m k = none := by
  induction m with
  | nil => rfl
  | cons p rest ih =>
    obtain ⟨k', v⟩ := p
    simp only [List.map_cons, List.mem_cons, not_or] at h
    simp only [KV.get]
    rw [if_neg (fun e => h.1 e.symm)]
    exact ih h.2

/-- the per-height map of additions holds, under `d`, what was there followed by the block's additions for `d` -/
theorem collectAdds_get (acts : List TOAct) (m0 : KV Nat (List TxId)) (d : Nat) :
    KV.get (collectAdds acts m0) d =
      if addsAt d acts = [] then KV.get m0 d else some (KV.getD m0 d [] ++ addsAt d acts) := by
  unfold collectAdds
  induction acts generalizing m0 with
  | nil => simp [addsAt]
  | cons a rest ih =>
    simp only [List.foldl_cons]
    rw [ih]
    cases a with
    | add th id =>
      by_cases hd : th = d
      · subst hd
        have h1 : addsAt th (TOAct.add th id :: rest) = id :: addsAt th rest := by simp [addsAt]
        rw [h1]
        simp only [pushAt, KV.getD, KV.get_set_eq, Option.getD_some, List.cons_ne_nil, if_false, List.append_assoc,
          List.cons_append, List.nil_append]
        split <;> simp_all
      · have h1 : addsAt d (TOAct.add th id :: rest) = addsAt d rest := by simp [addsAt, hd]
        rw [h1]
        simp only [pushAt, KV.getD, KV.get_set_ne _ _ _ _ hd]
    | skip => simp [addsAt]
    | remove th id => simp [addsAt]
    | abort => simp [addsAt]

theorem collectRems_get (acts : List TOAct) (m0 : KV Nat (List TxId)) (d : Nat) :
    KV.get (collectRems acts m0) d =
      if remsAt d acts = [] then KV.get m0 d else some (KV.getD m0 d [] ++ remsAt d acts) := by
  unfold collectRems
  induction acts generalizing m0 with
  | nil => simp [remsAt]
  | cons a rest ih =>
    simp only [List.foldl_cons]
    rw [ih]
    cases a with
    | remove th id =>
      by_cases hd : th = d
      · subst hd
        have h1 : remsAt th (TOAct.remove th id :: rest) = id :: remsAt th rest := by simp [remsAt]
        rw [h1]
        simp only [pushAt, KV.getD, KV.get_set_eq, Option.getD_some, List.cons_ne_nil, if_false, List.append_assoc,
          List.cons_append, List.nil_append]
        split <;> simp_all
      · have h1 : remsAt d (TOAct.remove th id :: rest) = remsAt d rest := by simp [remsAt, hd]
        rw [h1]
        simp only [pushAt, KV.getD, KV.get_set_ne _ _ _ _ hd]
    | skip => simp [remsAt]
    | add th id => simp [remsAt]
    | abort => simp [remsAt]

theorem collectAdds_keyed (acts : List TOAct) (m0 : KV Nat (List TxId)) (h : KeyedN m0) :
    KeyedN (collectAdds acts m0) := by
  unfold collectAdds
  induction acts generalizing m0 with
  | nil => exact h
  | cons a rest ih =>
    simp only [List.foldl_cons]
    apply ih
    cases a <;> first | exact h | (unfold pushAt; exact keyedN_set _ _ _ h)

theorem collectRems_keyed (acts : List TOAct) (m0 : KV Nat (List TxId)) (h : KeyedN m0) :
    KeyedN (collectRems acts m0) := by
  unfold collectRems
  induction acts generalizing m0 with
  | nil => exact h
  | cons a rest ih =>
    simp only [List.foldl_cons]
    apply ih
    cases a <;> first | exact h | (unfold pushAt; exact keyedN_set _ _ _ h)

/-- writing a map without duplicate keys height by height: the value under `timeout-<d>` afterwards is what the step for `d`
writes (if the map has `d`), whatever the order of the other heights -/
theorem foldl_keyed_at {β : Type} (f : Led → Nat × β → Led) (m : KV Nat β) (hm : KeyedN m) (l : Led) (d : Nat)
    (H1 : ∀ (l : Led) (k : Nat) (v : β) (k' : Nat), k' ≠ k → (f l (k, v)).getS (.timeout k') = l.getS (.timeout k'))
    (H2 : ∀ (l l' : Led) (k : Nat) (v : β), l.getS (.timeout k) = l'.getS (.timeout k) →
      (f l (k, v)).getS (.timeout k) = (f l' (k, v)).getS (.timeout k)) :
    (m.foldl f l).getS (.timeout d) = match KV.get m d with
      | some v => (f l (d, v)).getS (.timeout d)
      | none => l.getS (.timeout d) := by
  induction m generalizing l with
  | nil => rfl
  | cons p rest ih =>
    obtain ⟨k, v⟩ := p
    unfold KeyedN at hm
    simp only [List.map_cons, List.nodup_cons] at hm
    simp only [List.foldl_cons]
    rw [ih hm.2]
    simp only [KV.get]
    by_cases hk : k = d
    · subst hk
      rw [get_none_of_not_key rest k hm.1]
      simp
    · simp only [hk, if_false]
      cases hg : KV.get rest d with
      | none => exact H1 l k v d (fun e => hk e.symm)
      | some v' => exact H2 _ _ d v' (H1 l k v d (fun e => hk e.symm))

/-- the stored list as the bookkeeping reads it (an absent key reads as the emptied list `[none]`) -/
def curList (v : Option Val) : List (Option TId) :=
  match v with
  | some (.tlist lst) => lst
  | _ => [none]

/-- what is stored under `timeout-<d>` after the additions `A` and then the removals `R` of one block -/
def listAfter (v : Option Val) (A R : List TxId) : Option Val :=
  let v1 : Option Val :=
    if A = [] then v
    else some (.tlist (if curList v == [none] then A.map (fun t => some (TId.single t)) else curList v ++ A.map (fun t => some (TId.single t))))
  if R = [] then v1
  else some (.tlist (normList (R.foldl (fun acc id => (goRemove acc (.single id)).getD acc) (curList v1))))

/-- **the value under every timeout height after the bookkeeping of a block**, from the block's actions alone -/
theorem setTimeoutList_at (cfg : Cfg) (l : Led) (h : Nat) (txs : List Tx) (rcpts : List Rcpt) (d : Nat)
    (hna : ((txs.zip rcpts).map (fun p => timeoutAct cfg l h p.1 p.2)).contains .abort = false) :
    (setTimeoutList cfg l h txs rcpts).getS (.timeout d) =
      listAfter (l.getS (.timeout d))
        (addsAt d ((txs.zip rcpts).map (fun p => timeoutAct cfg l h p.1 p.2)))
        (remsAt d ((txs.zip rcpts).map (fun p => timeoutAct cfg l h p.1 p.2))) := by
  unfold setTimeoutList
  simp only [hna, Bool.false_eq_true, if_false]
  generalize (txs.zip rcpts).map (fun p => timeoutAct cfg l h p.1 p.2) = acts
  -- the additions
  have hadd : ∀ k, ((collectAdds acts []).foldl addStep l).getS (.timeout k) =
      (if addsAt k acts = [] then l.getS (.timeout k)
       else some (.tlist (if curList (l.getS (.timeout k)) == [none] then (addsAt k acts).map (fun t => some (TId.single t))
          else curList (l.getS (.timeout k)) ++ (addsAt k acts).map (fun t => some (TId.single t))))) := by
    intro k
    rw [foldl_keyed_at addStep _ (collectAdds_keyed acts [] List.nodup_nil) _ k
      (fun l k v k' hne => by unfold addStep; simp only [Led.getS_addS]; rw [if_neg (fun e => hne (by cases e; rfl))])
      (fun l l' k v hh => by unfold addStep; simp only [Led.getS_addS, if_true, hh])]
    rw [collectAdds_get]
    by_cases hA : addsAt k acts = []
    · simp [hA, KV.get]
    · simp only [hA, if_false, KV.getD, KV.get, Option.getD_none, List.nil_append]
      unfold addStep
      simp only [Led.getS_addS, if_true]
      rfl
  -- the removals
  rw [foldl_keyed_at remStep _ (collectRems_keyed acts [] List.nodup_nil) _ d
    (fun l k v k' hne => by unfold remStep; simp only [Led.getS_setS]; rw [if_neg (fun e => hne (by cases e; rfl))])
    (fun l l' k v hh => by unfold remStep; simp only [Led.getS_setS, if_true, hh])]
  rw [collectRems_get]
  unfold listAfter
  by_cases hR : remsAt d acts = []
  · simp only [hR, if_true, KV.get]
    exact hadd d
  · simp only [hR, if_false, KV.getD, KV.get, Option.getD_none, List.nil_append]
    unfold remStep
    simp only [Led.getS_setS, if_true]
    rw [hadd d]
    rfl

end Bxh.Exec
