import Bxh.Proofs.ExecSupply
/-!
# The fee reaches the admins: lower bounds on the sum of balances

`ExecSupply.lean` shows that nothing is created (the sum does not grow).  This file shows the other half of the fee clause of C14:
what leaves the sender reaches the admins up to the rounding of the split, `n − 1` units per transaction at most — for
`payGasFee`, for `payLeftAsGasFee` (the sender that cannot pay; also when it is one of the admins), for a whole transaction and
for a whole block.
-/
namespace Bxh.Exec
open Bxh

/-- what `payAdmins` adds to the sum over a set of accounts that contains every admin: exactly `n · ⌊f / n⌋` -/
theorem payAdmins_total_eq (cfg : Cfg) (l : Led) (f : Int) (accts : List String) (hnd : accts.Nodup)
    (hadm : ∀ a ∈ cfg.admins, a ∈ accts) :
    total (payAdmins cfg l f) accts = total l accts + (cfg.admins.length : Int) * (f / (cfg.admins.length : Int)) := by
  unfold payAdmins
  generalize f / (cfg.admins.length : Int) = q
  have key : ∀ (as : List String) (l0 : Led), (∀ a ∈ as, a ∈ accts) →
      total (as.foldl (fun l a => l.setBal a (l.getBal a + q)) l0) accts = total l0 accts + (as.length : Int) * q := by
    intro as
    induction as with
    | nil => intro l0 _; simp
    | cons a rest ih =>
      intro l0 hin
      simp only [List.foldl_cons, List.length_cons]
      rw [ih _ (fun x hx => hin x (List.mem_cons_of_mem _ hx))]
      have h4 := total_setBal l0 a (l0.getBal a + q) accts hnd
      simp only [hin a (List.mem_cons_self ..), if_true] at h4
      have : ((rest.length + 1 : Nat) : Int) * q = (rest.length : Int) * q + q := by
        have : ((rest.length + 1 : Nat) : Int) = (rest.length : Int) + 1 := by omega
        rw [this, Int.add_mul]; omega
      rw [this]
      omega
  exact key cfg.admins l hadm

theorem rounding_loss (n : Nat) (f : Int) (hn : 0 < n) : f - ((n : Int) - 1) ≤ (n : Int) * (f / (n : Int)) := by
  have hpos : (0 : Int) < n := by exact_mod_cast hn
  have h2 := Int.emod_lt_of_pos f hpos
  have h3 := Int.mul_ediv_add_emod f n
  omega

/-- **the fee reaches the admins**: when the sender can pay, the sum over any set of accounts that contains the sender and all
admins falls by at most `n − 1` (the rounding of the split) — whoever the sender is, also one of the admins -/
theorem payGasFee_total_ge {cfg : Cfg} {l l' : Led} {s : String} {g : Nat} (e : payGasFee cfg l s g = some l')
    (accts : List String) (hnd : accts.Nodup) (hs : s ∈ accts) (hadm : ∀ a ∈ cfg.admins, a ∈ accts) (hn : 0 < cfg.admins.length) :
    total l accts - ((cfg.admins.length : Int) - 1) ≤ total l' accts := by
  unfold payGasFee at e
  simp only at e
  split at e
  · cases e
  · cases e
    rw [payAdmins_total_eq cfg _ _ accts hnd hadm]
    have h4 := total_setBal l s (l.getBal s - ((g * cfg.price : Nat) : Int)) accts hnd
    simp only [hs, if_true] at h4
    have := rounding_loss cfg.admins.length ((g * cfg.price : Nat) : Int) hn
    omega

/-- **… and when the sender cannot pay**: all it holds is taken and shared among the admins; again at most `n − 1` units are lost,
also when the sender is itself one of the admins (it is emptied first and then gets its share) -/
theorem payLeft_total_ge (cfg : Cfg) (l : Led) (s : String) (accts : List String) (hnd : accts.Nodup) (hs : s ∈ accts)
    (hadm : ∀ a ∈ cfg.admins, a ∈ accts) (hn : 0 < cfg.admins.length) :
    total l accts - ((cfg.admins.length : Int) - 1) ≤ total (payLeftAsGasFee cfg l s) accts := by
  unfold payLeftAsGasFee
  simp only
  rw [payAdmins_total_eq cfg _ _ accts hnd hadm]
  have h4 := total_setBal l s 0 accts hnd
  simp only [hs, if_true] at h4
  have := rounding_loss cfg.admins.length (l.getBal s) hn
  omega

end Bxh.Exec

namespace Bxh.Exec
open Bxh

theorem transfer_total_eq {l l' : Led} {a b : String} {v : Int} (e : transfer l a b v = .ok l')
    (accts : List String) (hnd : accts.Nodup) (ha : a ∈ accts) (hb : b ∈ accts) :
    total l' accts = total l accts := by
  unfold transfer at e
  split at e
  · cases e; rfl
  · split at e
    · cases e
    · split at e
      · cases e
      · cases e
        rw [total_setBal _ b _ accts hnd, total_setBal l a _ accts hnd]
        simp only [ha, hb, if_true]
        omega

/-- a transfer names a receiver inside the set of accounts -/
def recvIn (tx : Tx) (accts : List String) : Prop := ∀ f t amt, tx = .xfer f t amt → t ∈ accts

theorem applyBxh_total_eq (env : Env) (l0 : Led) (tx : Tx) (inv : Option String) (hj : l0.journal = [])
    (accts : List String) (hnd : accts.Nodup) (hs : tx.sender ∈ accts) (hr : recvIn tx accts) :
    total (applyBxh env l0 tx inv).1 accts = total l0 accts := by
  have same : ∀ l', l'.bal = l0.bal → total l' accts = total l0 accts := fun l' h => total_of_bal h accts
  unfold applyBxh
  split
  · exact same _ rfl
  · split
    · split
      · rename_i h; exact same _ (handleIBTP_stepsS h).bal
      · split
        · split
          · rename_i h; exact same _ (handleIBTP_stepsS h).bal
          · exact same _ rfl
        · exact same _ rfl
    · rename_i f t amt
      split
      · rename_i h; exact transfer_total_eq h accts hnd hs (hr f t amt rfl)
      · exact same _ rfl
      · exact same _ rfl
    · split
      · rename_i h; exact same _ (applyBvm_stepsS h).bal
      · simp only [revert_nil l0 _ hj]

/-- **one transaction of a block destroys at most the rounding of its fee**: over a set of distinct accounts that contains the
sender, the receiver of a transfer and all admins, the sum falls by at most `n − 1` — whatever the transaction is, whether it
succeeds, fails or cannot pay, and whoever sends it (an admin too) -/
theorem applyTx_total_ge (env : Env) (l : Led) (tx : Tx) (inv : Option String)
    (accts : List String) (hnd : accts.Nodup) (hs : tx.sender ∈ accts) (hr : recvIn tx accts)
    (hadm : ∀ a ∈ env.cfg.admins, a ∈ accts) (hn : 0 < env.cfg.admins.length) :
    total l accts - ((env.cfg.admins.length : Int) - 1) ≤ total (applyTx env l tx inv).1 accts := by
  unfold applyTx
  simp only
  generalize hl0 : ({ l with journal := [], events := [] } : Led) = l0
  have hj : l0.journal = [] := by rw [← hl0]
  have hb0 : l0.bal = l.bal := by rw [← hl0]
  have ht0 : total l0 accts = total l accts := total_of_bal hb0 accts
  have h1 := applyBxh_total_eq env l0 tx inv hj accts hnd hs hr
  split
  · rename_i l2 hpay
    have h3 := payGasFee_total_ge hpay accts hnd hs hadm hn
    rw [total_of_bal (finalise_bal l2)]; omega
  · have hsame : ∀ x, ((applyBxh env l0 tx inv).1.revert l0.snapshot).getBal x = l0.getBal x := by
      have hst := applyBxh_steps env l0 tx inv hj
      have hf := Steps.faithful hst (faithful_self l0 hj)
      rw [snapshot_nil l0 hj, revert_zero]
      exact hf.2
    have ht5 : total ((applyBxh env l0 tx inv).1.revert l0.snapshot) accts = total l0 accts := total_congr hsame accts
    have h6 := payLeft_total_ge env.cfg ((applyBxh env l0 tx inv).1.revert l0.snapshot) tx.sender accts hnd hs hadm hn
    rw [total_of_bal (finalise_bal _)]; omega

/-- **a whole block**: at most `(n − 1)` units per transaction -/
theorem execBlock_total_ge (cfg : Cfg) (n : Node) (txs : List (Tx × Bool)) (accts : List String) (hnd : accts.Nodup)
    (hs : ∀ p ∈ txs, p.1.sender ∈ accts) (hr : ∀ p ∈ txs, recvIn p.1 accts)
    (hadm : ∀ a ∈ cfg.admins, a ∈ accts) (hn : 0 < cfg.admins.length) :
    total n.led accts - (txs.length : Int) * ((cfg.admins.length : Int) - 1) ≤ total (execBlock cfg n txs).1.led accts := by
  have key : ∀ (ts : List (Tx × Bool)) (a : Acc), (∀ p ∈ ts, p.1.sender ∈ accts) → (∀ p ∈ ts, recvIn p.1 accts) →
      total a.led accts - (ts.length : Int) * ((cfg.admins.length : Int) - 1) ≤ total (ts.foldl (txStep cfg n.cache (n.height + 1)) a).led accts := by
    intro ts
    induction ts with
    | nil => intro a _ _; simp
    | cons p rest ih =>
      intro a h1 h2
      simp only [List.foldl_cons, List.length_cons]
      have hrest := ih (txStep cfg n.cache (n.height + 1) a p) (fun q hq => h1 q (List.mem_cons_of_mem _ hq)) (fun q hq => h2 q (List.mem_cons_of_mem _ hq))
      have hstep : total a.led accts - ((cfg.admins.length : Int) - 1) ≤ total (txStep cfg n.cache (n.height + 1) a p).led accts := by
        unfold txStep
        exact applyTx_total_ge { cfg := cfg, cache := n.cache, height := n.height + 1, txIndex := a.idx } a.led p.1 _ accts hnd
          (h1 p (List.mem_cons_self ..)) (h2 p (List.mem_cons_self ..)) hadm hn
      have : ((rest.length + 1 : Nat) : Int) * ((cfg.admins.length : Int) - 1) =
          (rest.length : Int) * ((cfg.admins.length : Int) - 1) + ((cfg.admins.length : Int) - 1) := by
        have : ((rest.length + 1 : Nat) : Int) = (rest.length : Int) + 1 := by omega
        rw [this, Int.add_mul]; omega
      rw [this]
      omega
  have h1 := key txs { led := n.led } hs hr
  rw [← applyTxs_eq] at h1
  unfold execBlock
  simp only
  rw [total_of_bal (finalise_bal _), total_of_bal (setTimeoutRollback_bal _ _), total_of_bal (setTimeoutList_bal _ _ _ _ _)]
  exact h1

end Bxh.Exec
