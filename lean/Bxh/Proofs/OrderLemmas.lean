import Bxh.Model.Order
/-! Helper lemmas for C20: the minted queue of the raft apply loop always continues the ledger. -/
namespace Bxh.Order.Apply
open Bxh.Order


/-- what the ordering node and the executor do, as seen from outside: raft hands over committed entries, a
snapshot may be taken, the executor reports an executed height back, the executor takes the next minted block,
the process crashes and restarts (the ledger keeps the height it had) -/
inductive Op
  | ready (es : List Entry)
  | snapshot
  | report (h : Nat)
  | execute
  | restart
  | install (idx height : Nat)     -- raft hands over a snapshot; catch-up through the syncer
  | hardState (t v c : Nat)        -- a Ready without entries or snapshot: a higher term seen, a vote granted
deriving Repr

structure Sys where
  n : Node
  ledger : Nat                  -- height of the last block the executor took
  delivered : List Nat := []    -- every height the executor took, in order
deriving Repr

def step (s : Sys) : Op → Sys
  | .ready es => { s with n := ready s.n es }
  | .snapshot => { s with n := snapshot s.n }
  | .report h => { s with n := report s.n h }
  | .execute =>
    match execute s.n with
    | (n', some h) => { n := n', ledger := h, delivered := s.delivered ++ [h] }
    | (n', none) => { s with n := n' }
  | .restart => { s with n := (restart s.n s.ledger).1 }
  | .install idx height => { s with n := installSnap s.n idx height s.ledger }
  | .hardState t v c => { s with n := setHardState s.n t v c }

def run (s : Sys) (ops : List Op) : Sys := ops.foldl step s

/-- the minted-but-unexecuted blocks are exactly the heights after the ledger's, in order, and `lastExec` is the last of them -/
def Good (n : Node) (ledger : Nat) : Prop :=
  n.queue = List.range' (ledger + 1) n.queue.length ∧ n.lastExec = ledger + n.queue.length

theorem publish1_good (n : Node) (e : Entry) (L : Nat) (h : Good n L) : Good (publish1 n e) L := by
  unfold publish1
  cases hh : e.height with
  | none => exact h
  | some ht =>
    simp only
    by_cases h1 : getBai n ≥ e.idx
    · rw [if_pos h1]; exact h
    · rw [if_neg h1]
      by_cases h2 : ht ≠ n.lastExec + 1
      · rw [if_pos h2]; exact h
      · rw [if_neg h2]
        obtain ⟨hq, hl⟩ := h
        have hht : ht = n.lastExec + 1 := by simpa using h2
        refine ⟨?_, ?_⟩
        · show n.queue ++ [ht] = List.range' (L + 1) (n.queue ++ [ht]).length
          rw [List.length_append, List.length_singleton, List.range'_concat, ← hq, hht, hl]
          simp; omega
        · show ht = L + (n.queue ++ [ht]).length
          rw [List.length_append, List.length_singleton, hht, hl]; omega

theorem publish_good (es : List Entry) (n : Node) (L : Nat) (h : Good n L) : Good (publish n es) L := by
  unfold publish
  induction es generalizing n with
  | nil => exact h
  | cons e rest ih => exact ih _ (publish1_good n e L h)

theorem ready_good (n : Node) (es : List Entry) (L : Nat) (h : Good n L) : Good (ready n es) L := by
  unfold ready
  exact publish_good _ _ L h

theorem snapshot_good (n : Node) (L : Nat) (h : Good n L) : Good (snapshot n) L := by
  unfold snapshot; split <;> exact h

theorem report_good (n : Node) (x L : Nat) (h : Good n L) : Good (report n x) L := by
  unfold report; split <;> exact h

theorem restart_good (n : Node) (L : Nat) : Good (restart n L).1 L := by
  unfold restart
  exact publish_good _ _ L ⟨rfl, rfl⟩

theorem installSnap_good (n : Node) (idx height ledger L : Nat) (h : Good n L) : Good (installSnap n idx height ledger) L := by
  unfold installSnap
  have key : ∀ (hs : List Nat) (m : Node), Good m L →
      Good (hs.foldl (fun (m : Node) h => if h = m.lastExec + 1 then { m with queue := m.queue ++ [h], lastExec := h } else m) m) L := by
    intro hs
    induction hs with
    | nil => intro m hm; exact hm
    | cons x rest ih =>
      intro m hm
      simp only [List.foldl_cons]
      apply ih
      split
      · rename_i hx
        obtain ⟨hq, hl⟩ := hm
        refine ⟨?_, ?_⟩
        · show m.queue ++ [x] = List.range' (L + 1) (m.queue ++ [x]).length
          rw [List.length_append, List.length_singleton, List.range'_concat, ← hq, hx, hl]
          simp; omega
        · show x = L + (m.queue ++ [x]).length
          rw [List.length_append, List.length_singleton, hx, hl]; omega
      · exact hm
  exact key _ n h

/-- the executor only ever takes the height right after the one it has -/
theorem execute_next (n n' : Node) (L x : Nat) (h : Good n L) (he : execute n = (n', some x)) :
    x = L + 1 ∧ Good n' (L + 1) := by
  unfold execute at he
  obtain ⟨hq, hl⟩ := h
  cases hqq : n.queue with
  | nil => rw [hqq] at he; cases he
  | cons hd rest =>
    rw [hqq] at he hq hl
    simp only [Prod.mk.injEq, Option.some.injEq] at he
    obtain ⟨hn, hx⟩ := he
    subst hn
    subst hx
    simp only [List.length_cons] at hq hl
    rw [List.range'_succ] at hq
    have h1 : hd = L + 1 := (List.cons.inj hq).1
    have h2 : rest = List.range' (L + 1 + 1) rest.length := (List.cons.inj hq).2
    exact ⟨h1, h2, by show n.lastExec = L + 1 + rest.length; omega⟩

def Inv (l0 : Nat) (s : Sys) : Prop :=
  Good s.n s.ledger ∧ l0 ≤ s.ledger ∧ s.delivered = List.range' (l0 + 1) (s.ledger - l0)

theorem step_inv (l0 : Nat) (s : Sys) (op : Op) (h : Inv l0 s) : Inv l0 (step s op) := by
  obtain ⟨hg, hle, hd⟩ := h
  cases op with
  | ready es => exact ⟨ready_good _ _ _ hg, hle, hd⟩
  | snapshot => exact ⟨snapshot_good _ _ hg, hle, hd⟩
  | report x => exact ⟨report_good _ _ _ hg, hle, hd⟩
  | restart => exact ⟨restart_good _ _, hle, hd⟩
  | install idx height => exact ⟨installSnap_good _ _ _ _ _ hg, hle, hd⟩
  | hardState t v c => exact ⟨hg, hle, hd⟩
  | execute =>
    simp only [step]
    generalize he : execute s.n = r
    obtain ⟨n', o⟩ := r
    cases o with
    | none =>
      simp only
      unfold execute at he
      split at he
      · cases he; exact ⟨hg, hle, hd⟩
      · cases he
    | some x =>
      simp only
      obtain ⟨hx, hg'⟩ := execute_next _ _ _ _ hg he
      subst hx
      refine ⟨hg', (by show l0 ≤ s.ledger + 1; omega), ?_⟩
      show s.delivered ++ [s.ledger + 1] = List.range' (l0 + 1) (s.ledger + 1 - l0)
      have : s.ledger + 1 - l0 = (s.ledger - l0) + 1 := by omega
      rw [this, List.range'_concat, ← hd]
      simp; omega

theorem run_inv (l0 : Nat) (ops : List Op) (s : Sys) (h : Inv l0 s) : Inv l0 (run s ops) := by
  unfold run
  induction ops generalizing s with
  | nil => exact h
  | cons op rest ih => exact ih _ (step_inv l0 s op h)



end Bxh.Order.Apply
