import Bxh.Model.Ledger
namespace Bxh.Ledger
open Bxh

theorem getAccount_accounts_some (l : L) (a : Addr) (acc : Acct) (h : KV.get l.accounts a = some acc) :
    getAccount l a = (l, some acc) := by
  simp [getAccount, h]

theorem getOrCreate_of_present (l : L) (a : Addr) (acc : Acct) (h : KV.get l.accounts a = some acc) :
    getOrCreate l a = (l, acc) := by
  simp [getOrCreate, getAccount_accounts_some l a acc h]

/-- after `getOrCreate`, the account object is present in the block's account map -/
theorem getOrCreate_present (l : L) (a : Addr) :
    KV.get (getOrCreate l a).1.accounts a = some (getOrCreate l a).2 := by
  unfold getOrCreate
  cases hg : getAccount l a with
  | mk l' o =>
    cases o with
    | some acc =>
      simp only
      unfold getAccount at hg
      split at hg
      · rename_i acc0 h0
        cases hg; exact h0
      · split at hg
        · cases hg; simp [KV.get_set_eq]
        · split at hg
          · cases hg; simp [KV.get_set_eq]
          · cases hg
    | none => simp [KV.get_set_eq]

theorem putAcct_get (l : L) (a : Addr) (acc : Acct) : KV.get (putAcct l a acc).accounts a = some acc := by
  simp [putAcct]

/-- after `getState`, the account object is present -/
theorem getState_present (l : L) (a : Addr) (k : String) :
    ∃ acc, KV.get (getState l a k).1.accounts a = some acc := by
  unfold getState
  have hp := getOrCreate_present l a
  cases hg : getOrCreate l a with
  | mk l1 acc =>
    rw [hg] at hp
    simp only at hp ⊢
    split
    · exact ⟨acc, hp⟩
    · split
      · exact ⟨acc, hp⟩
      · exact ⟨_, putAcct_get _ _ _⟩

/-- reading a key that is in the dirty set of a present account returns the dirty value -/
theorem getState_dirty (l : L) (a : Addr) (k : String) (acc : Acct) (v : Bytes)
    (ha : KV.get l.accounts a = some acc) (hd : KV.get acc.dirtyState k = some v) :
    (getState l a k).2 = v := by
  unfold getState
  rw [getOrCreate_of_present l a acc ha]
  simp [hd]

end Bxh.Ledger
