import Bxh.Proofs.ExecSteps
/-!
# Frame lemmas: which storage keys the modelled contract functions leave alone

`getS_setS` turns every write into an `if`; since the functions of the transaction manager write
only `.timeout / .txRec / .glob / .child` keys, the notification only `.multi`, and `processIBTP`
only `.ic / .idxReq / .idxRcpt`, reads of service records (`.svc`) and — outside `processIBTP` — of
interchain counters (`.ic`) pass through unchanged.
-/
namespace Bxh.Exec
open Bxh

@[simp] theorem Led.getS_setS (l : Led) (k k' : Key) (v : Option Val) :
    (l.setS k v).getS k' = if k = k' then v else l.getS k' := by
  unfold Led.setS Led.getS
  cases v with
  | none => simp only [KV.get_erase]
  | some x => simp only [KV.get_set]

@[simp] theorem Led.getS_addS (l : Led) (k k' : Key) (v : Val) :
    (l.addS k v).getS k' = if k = k' then some v else l.getS k' := by
  unfold Led.addS; simp

@[simp] theorem Led.getS_post (l : Led) (e : Ev) (k : Key) : (l.post e).getS k = l.getS k := rfl
@[simp] theorem Led.getS_setBal (l : Led) (a : String) (v : Int) (k : Key) : (l.setBal a v).getS k = l.getS k := rfl

/-- keys the transaction manager and the notification may write -/
def Key.isTm : Key → Bool
  | .timeout _ | .txRec _ | .glob _ | .child _ | .multi _ => true
  | _ => false

theorem tmAddTimeout_frame (l : Led) (h : Nat) (id : TId) (k : Key) (hk : k.isTm = false) :
    (tmAddTimeout l h id).getS k = l.getS k := by
  unfold tmAddTimeout
  split <;> (try split) <;> simp <;> intro hh <;> subst hh <;> simp [Key.isTm] at hk

theorem tmRemoveTimeout_frame {l l' : Led} {h : Nat} {id : TId} (e : tmRemoveTimeout l h id = .ok l') (k : Key)
    (hk : k.isTm = false) : l'.getS k = l.getS k := by
  unfold tmRemoveTimeout at e
  split at e
  · split at e
    · cases e; rfl
    · split at e
      · cases e; simp; intro hh; subst hh; simp [Key.isTm] at hk
      · cases e
  · cases e; rfl

theorem tmBegin_frame (l : Led) (cur : Nat) (id : TxId) (t : Nat) (f : Bool) (k : Key) (hk : k.isTm = false) :
    (tmBegin l cur id t f).1.getS k = l.getS k := by
  unfold tmBegin; simp; intro hh; subst hh; simp [Key.isTm] at hk

theorem tmBeginInter_frame {l : Led} {cur : Nat} {id : TxId} {t : Nat} {x : Ext} {f : Bool} {r : Led × StatusChange}
    (e : tmBeginInter l cur id t x f = .ok r) (k : Key) (hk : k.isTm = false) : r.1.getS k = l.getS k := by
  unfold tmBeginInter at e
  split at e
  · split at e
    · cases e
    · split at e
      · cases e
      · cases e; simp; intro hh; subst hh; simp [Key.isTm] at hk
  · cases e
  · cases e; simp; intro hh; subst hh; simp [Key.isTm] at hk

theorem tmBeginMulti_frame {l : Led} {cur : Nat} {gid : GId} {id : TxId} {t : Nat} {f : Bool} {n : Nat} {r : Led × StatusChange}
    (e : tmBeginMulti l cur gid id t f n = .ok r) (k : Key) (hk : k.isTm = false) : r.1.getS k = l.getS k := by
  have hc : Key.child id ≠ k := by intro hh; subst hh; simp [Key.isTm] at hk
  have hg : Key.glob gid ≠ k := by intro hh; subst hh; simp [Key.isTm] at hk
  unfold tmBeginMulti at e
  split at e
  · split at e
    · cases e
    · split at e
      · cases e; simp [hc, hg]
      · split at e
        · split at e
          · cases e
          · rename_i l0 h0
            cases e
            simp [hc, hg, tmRemoveTimeout_frame h0 k hk]
        · cases e; simp [hc, hg]
  · cases e
    by_cases hf : f = true
    · simp [hf, hc, hg]
    · simp [hf, hc, hg, tmAddTimeout_frame _ _ _ k hk]

theorem tmChangeMulti_frame {l : Led} {gid : GId} {g : Global} {id : TxId} {typ : Nat} {r : Led × Global}
    (e : tmChangeMulti l gid g id typ = .ok r) (k : Key) (hk : k.isTm = false) : r.1.getS k = l.getS k := by
  unfold tmChangeMulti at e
  split at e
  · split at e
    · cases e
    · rename_i l0 h0; cases e; exact tmRemoveTimeout_frame h0 k hk
  · simp only at e
    split at e
    · cases e
    · split at e
      · split at e
        · cases e
        · split at e
          · cases e
          · rename_i l0 h0; cases e; exact tmRemoveTimeout_frame h0 k hk
      · cases e; rfl

theorem tmReport_frame {l : Led} {id : TxId} {typ : Nat} {r : Led × StatusChange}
    (e : tmReport l id typ = .ok r) (k : Key) (hk : k.isTm = false) : r.1.getS k = l.getS k := by
  unfold tmReport at e
  split at e
  · split at e
    · cases e
    · cases e; simp; intro hh; subst hh; simp [Key.isTm] at hk
  · cases e
  · split at e
    · split at e
      · split at e
        · cases e
        · split at e
          · cases e
          · rename_i l1 g' h0
            cases e
            have hg : ∀ gid, Key.glob gid ≠ k := by intro gid hh; subst hh; simp [Key.isTm] at hk
            simp [hg, tmChangeMulti_frame h0 k hk]
      · cases e
    · cases e

theorem beginTransaction_frame {env : Env} {l : Led} {i : Ibtp} {ck : Checked} {r : Led × StatusChange}
    (e : beginTransaction env l i ck = .ok r) (k : Key) (hk : k.isTm = false) : r.1.getS k = l.getS k := by
  unfold beginTransaction at e
  simp only at e
  split at e
  · split at e
    · cases e
    · rename_i r0 h0; cases e; exact tmBeginInter_frame h0 k hk
  · split at e
    · cases e; exact tmBegin_frame _ _ _ _ _ k hk
    · split at e
      · cases e
      · rename_i r0 h0; cases e; exact tmBeginMulti_frame h0 k hk

theorem addToMultiNotify_frame (env : Env) (l : Led) (ids : List TxId) (b : Bool) (k : Key) (hk : k.isTm = false) :
    (addToMultiNotify env l ids b).getS k = l.getS k := by
  unfold addToMultiNotify
  split
  · rfl
  · simp; intro hh; subst hh; simp [Key.isTm] at hk

theorem notifySrcDst_frame (env : Env) (l : Led) (src dst : SvcId) (c : StatusChange) (b : Bool) (k : Key) (hk : k.isTm = false) :
    (notifySrcDst env l src dst c b).getS k = l.getS k := by
  unfold notifySrcDst
  cases notifyFlags c with
  | mk ns nd =>
    simp only [Led.getS_post]
    cases ns <;> cases nd <;> cases isLocal env src <;> cases isLocal env dst <;>
      simp only [if_true, if_false, Bool.false_eq_true, addToMultiNotify_frame _ _ _ _ k hk]

/-- everything `handleIBTP` does before `processIBTP` leaves service records and interchain counters alone -/
theorem svc_not_tm (c s : String) : (Key.svc c s).isTm = false := rfl
theorem ic_not_tm (s : SvcId) : (Key.ic s).isTm = false := rfl

end Bxh.Exec

namespace Bxh.Exec
open Bxh

/-- the request counter of the ordered pair (s, d): `InterchainCounter[d]` of s's record -/
def reqCounter (l : Led) (s d : SvcId) : Nat := KV.getD (getIC l s).ic d 0

theorem getIC_setIC (l : Led) (s s' : SvcId) (i : IC) : getIC (setIC l s i) s' = if s = s' then i else getIC l s' := by
  unfold getIC setIC
  simp only [Led.getS_setS]
  by_cases h : s = s'
  · subst h; simp
  · have : Key.ic s ≠ Key.ic s' := by intro hh; cases hh; exact h rfl
    simp [h, this]

theorem getIC_congr {l l' : Led} (s : SvcId) (h : l'.getS (.ic s) = l.getS (.ic s)) : getIC l' s = getIC l s := by
  unfold getIC; rw [h]

theorem getIC_addS_other (l : Led) (k : Key) (v : Val) (s : SvcId) (hk : ∀ x, k ≠ .ic x) : getIC (l.addS k v) s = getIC l s := by
  apply getIC_congr; simp [hk s]

theorem getIC_setS_other (l : Led) (k : Key) (v : Option Val) (s : SvcId) (hk : ∀ x, k ≠ .ic x) : getIC (l.setS k v) s = getIC l s := by
  apply getIC_congr; simp [hk s]

/-- the request counters after `setDestInterchain` are what they were: it writes `rc` and `src` maps only -/
theorem setDestIC_reqCounter (l : Led) (f t : SvcId) (n : Nat) (ic : IC) (hic : ic.ic = (getIC l f).ic) (s d : SvcId) :
    reqCounter (setDestIC l f t n ic) s d = reqCounter l s d := by
  unfold setDestIC reqCounter
  simp only [getIC_setIC]
  by_cases h1 : t = s
  · subst h1
    by_cases h2 : f = t
    · subst h2; simp [hic]
    · simp [h2]
  · by_cases h2 : f = s
    · subst h2; simp [h1, hic]
    · simp [h1, h2]

theorem foldl_setDestIC_reqCounter (cids : List TxId) (l : Led) (s d : SvcId) :
    reqCounter (cids.foldl (fun l cid => setDestIC l cid.frm cid.to cid.index (getIC l cid.frm)) l) s d = reqCounter l s d := by
  induction cids generalizing l with
  | nil => rfl
  | cons c rest ih =>
    simp only [List.foldl_cons]
    rw [ih, setDestIC_reqCounter _ _ _ _ _ rfl]

/-- `ProcessIBTP` and the request counters: a request advances exactly the counter of its own
pair by one; a receipt — and the destination hub's notice, a request by type — changes no request counter -/
theorem processIBTP_reqCounter (l : Led) (i : Ibtp) (ck : Checked) (c : StatusChange)
    (hic : ck.ic.ic = (getIC l ck.src).ic) (s d : SvcId) :
    reqCounter (processIBTP l i ck c).1 s d =
      if (i.typ.isRequest && !ck.notice) = true ∧ s = ck.src ∧ d = ck.dst then reqCounter l s d + 1 else reqCounter l s d := by
  unfold processIBTP
  simp only
  by_cases hreq : (i.typ.isRequest && !ck.notice) = true
  · simp only [hreq, if_true, true_and]
    unfold reqCounter
    have hk : ∀ x, Key.idxReq { frm := ck.src, to := ck.dst, index := i.index } ≠ Key.ic x := by intro x hh; cases hh
    simp only [getIC_setIC, getIC_addS_other _ _ _ _ hk]
    by_cases h1 : ck.dst = s
    · subst h1
      by_cases h2 : ck.src = ck.dst
      · simp only [h2, if_true]
        by_cases h3 : d = ck.dst
        · subst h3; simp [KV.getD, KV.get_set, hic, h2]
        · have : ¬ ck.dst = d := fun e => h3 e.symm
          simp [h3, KV.getD, KV.get_set, this, hic, h2]
      · have : ¬ ck.dst = ck.src := fun e => h2 e.symm
        simp [h2, this]
    · by_cases h2 : ck.src = s
      · subst h2
        simp only [h1, if_false, if_true, true_and]
        by_cases h3 : d = ck.dst
        · subst h3; simp [KV.getD, KV.get_set, hic]
        · have : ¬ ck.dst = d := fun e => h3 e.symm
          simp [h3, KV.getD, KV.get_set, this, hic]
      · have : ¬ s = ck.src := fun e => h2 e.symm
        simp [h1, h2, this]
  · have hk : ∀ x, Key.idxRcpt { frm := ck.src, to := ck.dst, index := i.index } ≠ Key.ic x := by intro x hh; cases hh
    simp only [hreq, if_false, false_and, Bool.false_eq_true]
    unfold reqCounter
    rw [getIC_setS_other _ _ _ _ hk]
    show reqCounter _ s d = reqCounter l s d
    split
    · split
      · exact foldl_setDestIC_reqCounter _ _ _ _
      · exact setDestIC_reqCounter _ _ _ _ _ hic _ _
    · rfl

end Bxh.Exec

namespace Bxh.Exec
open Bxh

theorem checkIBTP_ic {env : Env} {l : Led} {i : Ibtp} {ck : Checked} (h : checkIBTP env l i = .ok ck) :
    ck.ic = getIC l ck.src := by
  unfold checkIBTP at h
  repeat' (first | (cases h; first | rfl | done) | split at h | simp only at h)

/-- the `notice` flag of a checked IBTP is what `checkTxStatusForSourceBxh` answered -/
theorem checkIBTP_notice {env : Env} {l : Led} {i : Ibtp} {ck : Checked} (h : checkIBTP env l i = .ok ck) :
    isNotification l ck.src ck.dst i = some ck.notice := by
  unfold checkIBTP at h
  repeat' (first | (cases h <;> first | assumption | simp_all) | split at h | simp only at h)

/-- inside one hub there is no notice -/
theorem checkIBTP_local_no_notice {env : Env} {l : Led} {i : Ibtp} {ck : Checked} (h : checkIBTP env l i = .ok ck)
    (hb : ck.src.bxh = ck.dst.bxh) : ck.notice = false := by
  have := checkIBTP_notice h
  unfold isNotification at this
  simp [hb] at this
  exact this

/-- a notice is a request by type whose `Extra` field names BEGIN_FAILURE / BEGIN_ROLLBACK, between two hubs, for a request
this hub has processed -/
theorem checkIBTP_notice_true {env : Env} {l : Led} {i : Ibtp} {ck : Checked} (h : checkIBTP env l i = .ok ck)
    (hn : ck.notice = true) :
    ck.src.bxh ≠ ck.dst.bxh ∧ i.typ.isResponse = false ∧ i.ext.isNotice = true ∧
      (l.getS (.idxReq { frm := ck.src, to := ck.dst, index := i.index })).isSome = true := by
  have h1 := checkIBTP_notice h
  rw [hn] at h1
  unfold isNotification at h1
  split at h1
  · cases h1
  · rename_i hc
    split at h1
    · split at h1
      · cases h1
      · simp only [Option.some.injEq] at h1
        simp only [Bool.or_eq_true, beq_iff_eq, not_or] at hc
        rename_i v hv _
        exact ⟨hc.1, by simpa using hc.2, h1, by rw [hv]; rfl⟩
    · cases h1

theorem reqCounter_congr {l l' : Led} (h : ∀ x, l'.getS (.ic x) = l.getS (.ic x)) (s d : SvcId) :
    reqCounter l' s d = reqCounter l s d := by
  unfold reqCounter; rw [getIC_congr s (h s)]

/-- **what an accepted IBTP does to the request counters**: a request advances the counter of its
own ordered pair by exactly one and leaves every other pair alone; a receipt changes none -/
theorem handleIBTP_reqCounter {env : Env} {l : Led} {i : Ibtp} {ck : Checked} {r : Led × String}
    (hck : checkIBTP env l i = .ok ck) (h : handleIBTP env l i = .ok r) (s d : SvcId) :
    reqCounter r.1 s d =
      if (i.typ.isRequest && !ck.notice) = true ∧ s = ck.src ∧ d = ck.dst then reqCounter l s d + 1 else reqCounter l s d := by
  unfold handleIBTP at h
  simp only [hck] at h
  split at h
  · cases h
  · rename_i l1 c hr
    have hf1 : ∀ x, l1.getS (.ic x) = l.getS (.ic x) := by
      intro x
      split at hr
      · exact beginTransaction_frame hr _ (ic_not_tm x)
      · split at hr
        · split at hr
          · cases hr
          · rename_i y hy; cases hr; exact tmReport_frame hy _ (ic_not_tm x)
        · cases hr
    have hf2 : ∀ x, (notifySrcDst env l1 ck.src ck.dst c ck.isBatch).getS (.ic x) = l.getS (.ic x) := by
      intro x; rw [notifySrcDst_frame _ _ _ _ _ _ _ (ic_not_tm x)]; exact hf1 x
    have hic : ck.ic.ic = (getIC (notifySrcDst env l1 ck.src ck.dst c ck.isBatch) ck.src).ic := by
      rw [getIC_congr _ (hf2 ck.src), checkIBTP_ic hck]
    have hp := processIBTP_reqCounter (notifySrcDst env l1 ck.src ck.dst c ck.isBatch) i ck c hic s d
    rw [reqCounter_congr hf2] at hp
    generalize hpr : processIBTP (notifySrcDst env l1 ck.src ck.dst c ck.isBatch) i ck c = pr at h hp
    obtain ⟨l3, ret⟩ := pr
    simp only at h hp
    split at h
    · split at h
      · cases h
      · cases h
        show reqCounter ((l3.post .audit).post .audit) s d = _
        rw [← hp]; rfl
    · cases h; exact hp

/-- service records are never written by `handleIBTP` -/
theorem handleIBTP_svc_frame {env : Env} {l : Led} {i : Ibtp} {r : Led × String}
    (h : handleIBTP env l i = .ok r) (c sid : String) : r.1.getS (.svc c sid) = l.getS (.svc c sid) := by
  unfold handleIBTP at h
  split at h
  · cases h
  · rename_i ck hck
    simp only at h
    split at h
    · cases h
    · rename_i l1 cc hr
      have hf1 : l1.getS (.svc c sid) = l.getS (.svc c sid) := by
        split at hr
        · exact beginTransaction_frame hr _ (svc_not_tm c sid)
        · split at hr
          · split at hr
            · cases hr
            · rename_i y hy; cases hr; exact tmReport_frame hy _ (svc_not_tm c sid)
          · cases hr
      have hf2 : (notifySrcDst env l1 ck.src ck.dst cc ck.isBatch).getS (.svc c sid) = l.getS (.svc c sid) := by
        rw [notifySrcDst_frame _ _ _ _ _ _ _ (svc_not_tm c sid)]; exact hf1
      have hp : (processIBTP (notifySrcDst env l1 ck.src ck.dst cc ck.isBatch) i ck cc).1.getS (.svc c sid) = l.getS (.svc c sid) := by
        rw [← hf2]
        unfold processIBTP
        simp only
        split
        · simp [setIC]
        · simp only [Led.getS_setS]
          have : Key.idxRcpt { frm := ck.src, to := ck.dst, index := i.index } ≠ Key.svc c sid := by intro hh; cases hh
          simp only [this, if_false]
          split
          · split
            · generalize cc.childIds = cs
              generalize notifySrcDst env l1 ck.src ck.dst cc ck.isBatch = l0
              induction cs generalizing l0 with
              | nil => rfl
              | cons x rest ih =>
                simp only [List.foldl_cons]
                rw [ih]
                simp [setDestIC, setIC]
            · simp [setDestIC, setIC]
          · rfl
      generalize hpr : processIBTP (notifySrcDst env l1 ck.src ck.dst cc ck.isBatch) i ck cc = pr at h hp
      obtain ⟨l3, ret⟩ := pr
      simp only at h hp
      split at h
      · split at h
        · cases h
        · cases h; exact hp
      · cases h; exact hp

end Bxh.Exec
