import Bxh.Proofs.ExecSupply
import Bxh.Proofs.ExecGlob
/-!
# From one handled IBTP to one transaction of a block

`applyTx` wraps `applyBxh` (the IBTP / transfer / contract call) into the fee step and the revert of a transaction that
cannot pay.  Seen through storage reads (`getS`), a transaction of a block does one of three things: nothing; what
`handleIBTP` did (possibly with the audit flag off, the audit-event failure path); what `applyBvm` did.
-/
namespace Bxh.Exec
open Bxh

theorem getS_of_store {l l' : Led} (h : l'.store = l.store) (k : Key) : l'.getS k = l.getS k := by
  unfold Led.getS; rw [h]

theorem transfer_store {l l' : Led} {a b : String} {v : Int} (e : transfer l a b v = .ok l') : l'.store = l.store := by
  unfold transfer at e
  split at e
  · cases e; rfl
  · split at e
    · cases e
    · split at e
      · cases e
      · cases e; rfl

/-- what a transaction does to storage, as a case distinction -/
inductive TxEffect (env : Env) (l0 : Led) (tx : Tx) (res : Led) : Prop
  | nothing : (∀ k, res.getS k = l0.getS k) → TxEffect env l0 tx res
  | ibtp (s : String) (i : Ibtp) (p : ProofKind) (env' : Env) (r : Led × String) :
      tx = .ibtp s i p → env'.cache = env.cache → env'.cfg.bxh = env.cfg.bxh → env'.height = env.height →
      handleIBTP env' l0 i = .ok r → (∀ k, res.getS k = r.1.getS k) → TxEffect env l0 tx res
  | bvm (s c m : String) (args : List Arg) (r : Led × String) :
      tx = .bvm s c m args → applyBvm env l0 c m args = .ok r → (∀ k, res.getS k = r.1.getS k) → TxEffect env l0 tx res

theorem applyBxh_effect (env : Env) (l0 : Led) (tx : Tx) (inv : Option String) (hj : l0.journal = []) :
    TxEffect env l0 tx (applyBxh env l0 tx inv).1 := by
  unfold applyBxh
  split
  · exact .nothing (fun _ => rfl)
  · split
    · rename_i s i p
      split
      · rename_i l' ret h
        exact .ibtp s i p env (l', ret) rfl rfl rfl rfl h (fun _ => rfl)
      · split
        · split
          · rename_i l' x h
            exact .ibtp s i p { env with cfg := { env.cfg with audit := false } } (l', x) rfl rfl rfl rfl h (fun _ => rfl)
          · exact .nothing (fun _ => rfl)
        · exact .nothing (fun _ => rfl)
    · split
      · rename_i h; exact .nothing (fun k => getS_of_store (transfer_store h) k)
      · exact .nothing (fun _ => rfl)
      · exact .nothing (fun _ => rfl)
    · rename_i s c m args
      split
      · rename_i l' ret h
        exact .bvm s c m args (l', ret) rfl h (fun _ => rfl)
      · simp only [revert_nil l0 _ hj]; exact .nothing (fun _ => rfl)

/-- the ledger a transaction starts from: journal and event list of the previous transaction cleared -/
def txStart (l : Led) : Led := { l with journal := [], events := [] }

theorem txStart_getS (l : Led) (k : Key) : (txStart l).getS k = l.getS k := rfl

theorem applyTx_effect (env : Env) (l : Led) (tx : Tx) (inv : Option String) :
    TxEffect env (txStart l) tx (applyTx env l tx inv).1 := by
  unfold applyTx
  simp only
  have hj : (txStart l).journal = [] := rfl
  have he := applyBxh_effect env (txStart l) tx inv hj
  show TxEffect env (txStart l) tx (match payGasFee env.cfg (applyBxh env (txStart l) tx inv).1 tx.sender (applyBxh env (txStart l) tx inv).2.2 with
    | some l2 => (l2.finalise, _)
    | none => (_, _)).1
  split
  · rename_i l2 hpay
    have hst : ∀ k, l2.finalise.getS k = (applyBxh env (txStart l) tx inv).1.getS k :=
      fun k => getS_of_store (by rw [finalise_store]; exact payGasFee_store _ _ _ _ _ hpay) k
    cases he with
    | nothing h => exact .nothing (fun k => by rw [hst k, h k])
    | ibtp s i p env' r h1 h2 h3 h4 h5 h6 => exact .ibtp s i p env' r h1 h2 h3 h4 h5 (fun k => by rw [hst k, h6 k])
    | bvm s c m args r h1 h2 h3 => exact .bvm s c m args r h1 h2 (fun k => by rw [hst k, h3 k])
  · -- the fee cannot be paid: reverted
    apply TxEffect.nothing
    intro k
    have hstore : ∀ k, (payLeftAsGasFee env.cfg ((applyBxh env (txStart l) tx inv).1.revert (txStart l).snapshot) tx.sender).finalise.getS k
        = ((applyBxh env (txStart l) tx inv).1.revert (txStart l).snapshot).getS k :=
      fun k => getS_of_store (by rw [finalise_store, payLeft_store]) k
    show (payLeftAsGasFee env.cfg ((applyBxh env (txStart l) tx inv).1.revert (txStart l).snapshot) tx.sender).finalise.getS k = (txStart l).getS k
    rw [hstore k]
    have hst := applyBxh_steps env (txStart l) tx inv hj
    have hf := Steps.faithful hst (faithful_self (txStart l) hj)
    rw [snapshot_nil (txStart l) hj, revert_zero]
    exact hf.1 k

end Bxh.Exec

namespace Bxh.Exec
open Bxh

/-- a chain of blocks -/
def runBlocks (cfg : Cfg) (n : Node) (blocks : List (List (Tx × Bool))) : Node :=
  blocks.foldl (fun n b => (execBlock cfg n b).1) n

theorem applyBvm_glob {env : Env} {l : Led} {c m : String} {args : List Arg} {r : Led × String}
    (e : applyBvm env l c m args = .ok r) (gid : GId) : r.1.getS (.glob gid) = l.getS (.glob gid) := by
  unfold applyBvm at e
  split at e
  · split at e
    · split at e
      · cases e
      · cases e; simp
    · cases e
  · split at e
    · split at e
      · split at e
        · cases e; rfl
        · cases e
      · cases e
    · split at e
      · split at e
        · split at e
          · cases e; rfl
          · cases e
        · cases e
      · split at e
        · split at e <;> cases e
        · cases e

/-- the timeout bookkeeping writes timeout lists only -/
theorem setTimeoutList_getS (cfg : Cfg) (l : Led) (h : Nat) (txs : List Tx) (rcpts : List Rcpt) (k : Key)
    (hk : ∀ x, k ≠ .timeout x) : (setTimeoutList cfg l h txs rcpts).getS k = l.getS k := by
  unfold setTimeoutList
  simp only
  split
  · rfl
  · have frame : ∀ {α : Type} (f : Led → α → Led), (∀ l a, (f l a).getS k = l.getS k) → ∀ (xs : List α) (l : Led), (xs.foldl f l).getS k = l.getS k := by
      intro α f hf xs
      induction xs with
      | nil => intro l; rfl
      | cons x rest ih => intro l; simp only [List.foldl_cons]; rw [ih, hf]
    rw [frame _ (fun l p => by unfold remStep; simp only [Led.getS_setS]; rw [if_neg (fun e => hk _ e.symm)])]
    rw [frame _ (fun l p => by unfold addStep; simp only [Led.getS_addS]; rw [if_neg (fun e => hk _ e.symm)])]

/-- the timeout step keeps a dead group dead (it moves listed groups to BEGIN_ROLLBACK, which is dead, and touches no other group) -/
theorem setTimeoutRollback_glob_dead (l : Led) (h : Nat) (gid : GId) (st : Status)
    (hst : globState l gid = some st) (hd : st.dead = true) :
    ∃ st', globState (setTimeoutRollback l h) gid = some st' ∧ st'.dead = true := by
  unfold setTimeoutRollback
  have key : ∀ (ids : List TId) (acc : Led × Bool) (s0 : Status), globState acc.1 gid = some s0 → s0.dead = true →
      ∃ st', globState (ids.foldl (rollbackStep h) acc).1 gid = some st' ∧ st'.dead = true := by
    intro ids
    induction ids with
    | nil => intro acc s0 h0 hd0; exact ⟨s0, h0, hd0⟩
    | cons id rest ih =>
      intro acc s0 h0 hd0
      simp only [List.foldl_cons]
      have step : ∃ s1, globState (rollbackStep h acc id).1 gid = some s1 ∧ s1.dead = true := by
        unfold rollbackStep
        split
        · exact ⟨s0, h0, hd0⟩
        · split
          · rename_i g
            split
            · rename_i gi hgi
              by_cases hg : g = gid
              · subst hg
                exact ⟨.beginRollback, by unfold globState; simp, rfl⟩
              · refine ⟨s0, ?_, hd0⟩
                unfold globState at *
                simp only [Led.getS_setS]
                rw [if_neg (fun e => hg (Key.glob.inj e))]
                exact h0
            · exact ⟨s0, h0, hd0⟩
          · refine ⟨s0, ?_, hd0⟩
            unfold globState at *
            simp only [Led.getS_setS]
            rw [if_neg (by intro e; cases e)]
            exact h0
      obtain ⟨s1, h1, hd1⟩ := step
      exact ih _ s1 h1 hd1
  exact key _ (l, false) st hst hd

end Bxh.Exec
