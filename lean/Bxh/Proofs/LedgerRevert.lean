import Bxh.Proofs.LedgerLemmas
/-!
# Journal undo on the ledger model: `RevertToSnapshot` restores every storage read

Reads are described by pure "views" (`viewAcct`, `peekState`: what `GetAccount` / `GetState` would answer, without their
memoisation), two ledgers are related by `RevRel` (same cache, same database, same storage view of every account and key, and the
second one's loaded accounts are loaded in the first as well), and undoing the changes a write appended leads from anything related
to the ledger after the write to something related to the ledger before it.
-/
namespace Bxh.Ledger
open Bxh

theorem KV.erase_of_get_none {α β : Type} [DecidableEq α] (m : KV α β) (k : α) (h : KV.get m k = none) : KV.erase m k = m := by
  induction m with
  | nil => rfl
  | cons p rest ih =>
    obtain ⟨k', v⟩ := p
    unfold KV.get at h
    by_cases hk : k' = k
    · simp [hk] at h
    · simp only [hk, if_false] at h
      have := ih h
      unfold KV.erase at this ⊢
      simp only [List.filter, ne_eq, hk, not_false_eq_true, decide_true]
      rw [this]

/-- what `GetAccount` builds for an account that is not among the block's objects: from the inner-account cache, else the database -/
def loadAcct (l : L) (a : Addr) : Option Acct :=
  match KV.get l.cache.inner a with
  | some ia =>
    some (if !beq ia.codeHash none then
      { originAcc := some ia, originCode := loadCode l a, dirtyCode := loadCode l a }
    else { originAcc := some ia })
  | none =>
    match KV.get l.db.acct a with
    | some ia =>
      some (if !beq ia.codeHash none then
        { originAcc := some ia, originCode := KV.get l.db.code a, dirtyCode := KV.get l.db.code a }
      else { originAcc := some ia })
    | none => none

theorem getAccount_eq (l : L) (a : Addr) :
    getAccount l a = match KV.get l.accounts a with
      | some acc => (l, some acc)
      | none => match loadAcct l a with
        | some acc => ({ l with accounts := KV.set l.accounts a acc }, some acc)
        | none => (l, none) := by
  unfold getAccount loadAcct
  cases h1 : KV.get l.accounts a with
  | some acc => rfl
  | none =>
    simp only
    cases h2 : KV.get l.cache.inner a with
    | some ia => simp only
    | none =>
      simp only
      cases h3 : KV.get l.db.acct a with
      | some ia => simp only
      | none => rfl

theorem getOrCreate_eq (l : L) (a : Addr) :
    getOrCreate l a = match KV.get l.accounts a with
      | some acc => (l, acc)
      | none => match loadAcct l a with
        | some acc => ({ l with accounts := KV.set l.accounts a acc }, acc)
        | none => ({ l with accounts := KV.set l.accounts a {}, changes := l.changes ++ [.createObject a] }, {}) := by
  unfold getOrCreate
  rw [getAccount_eq]
  cases h1 : KV.get l.accounts a with
  | some acc => rfl
  | none =>
    simp only
    cases h2 : loadAcct l a with
    | some acc => rfl
    | none => rfl

/-- the account object a read of `a` works on -/
def viewAcct (l : L) (a : Addr) : Option Acct :=
  match KV.get l.accounts a with
  | some acc => some acc
  | none => loadAcct l a

/-- what the layers below the block's objects hold for a storage key: the account cache, else the database -/
def below (l : L) (a : Addr) (k : String) : Bytes :=
  match (KV.get l.cache.state a).bind (fun m => KV.get m k) with
  | some cv => cv
  | none => KV.get l.db.state (a, k)

def rdAcct (l : L) (a : Addr) (k : String) (acc : Acct) : Bytes :=
  match KV.get acc.dirtyState k with
  | some v => v
  | none =>
    match KV.get acc.originState k with
    | some v => v
    | none => below l a k

/-- the value `GetState` answers, as a pure function of the ledger -/
def peekState (l : L) (a : Addr) (k : String) : Bytes :=
  match viewAcct l a with
  | some acc => rdAcct l a k acc
  | none => below l a k

/-- the inner account (nonce, balance, code hash) the reads of an account object answer from -/
def ivOf (acc : Acct) : Inner := acc.dirtyAcc.getD (copyOrNew acc.originAcc)

/-- … as a pure function of the ledger (`GetBalance`, `GetNonce` answer its fields) -/
def peekInner (l : L) (a : Addr) : Inner :=
  match viewAcct l a with
  | some acc => ivOf acc
  | none => {}

theorem getState_eq (l : L) (a : Addr) (k : String) :
    getState l a k =
      (match KV.get (getOrCreate l a).2.dirtyState k with
       | some _ => (getOrCreate l a).1
       | none => match KV.get (getOrCreate l a).2.originState k with
         | some _ => (getOrCreate l a).1
         | none => putAcct (getOrCreate l a).1 a { (getOrCreate l a).2 with
             originState := KV.set (getOrCreate l a).2.originState k (below (getOrCreate l a).1 a k) },
       rdAcct (getOrCreate l a).1 a k (getOrCreate l a).2) := by
  unfold getState rdAcct below
  cases hg : getOrCreate l a with
  | mk l1 acc =>
    simp only
    cases h1 : KV.get acc.dirtyState k with
    | some v => rfl
    | none =>
      simp only
      cases h2 : KV.get acc.originState k with
      | some v => rfl
      | none => rfl

theorem getOrCreate_cache_db (l : L) (a : Addr) : (getOrCreate l a).1.cache = l.cache ∧ (getOrCreate l a).1.db = l.db := by
  rw [getOrCreate_eq]
  cases KV.get l.accounts a with
  | some acc => exact ⟨rfl, rfl⟩
  | none =>
    simp only
    cases loadAcct l a with
    | some acc => exact ⟨rfl, rfl⟩
    | none => exact ⟨rfl, rfl⟩

theorem below_congr {l l' : L} (hc : l'.cache = l.cache) (hd : l'.db = l.db) (a : Addr) (k : String) : below l' a k = below l a k := by
  unfold below; rw [hc, hd]

theorem rdAcct_congr {l l' : L} (hc : l'.cache = l.cache) (hd : l'.db = l.db) (a : Addr) (k : String) (acc : Acct) :
    rdAcct l' a k acc = rdAcct l a k acc := by
  unfold rdAcct; rw [below_congr hc hd]

/-- **`GetState` answers the view** -/
theorem getState_peek (l : L) (a : Addr) (k : String) : (getState l a k).2 = peekState l a k := by
  rw [getState_eq]
  simp only
  obtain ⟨hc, hd⟩ := getOrCreate_cache_db l a
  rw [rdAcct_congr hc hd]
  unfold peekState viewAcct
  rw [getOrCreate_eq]
  cases KV.get l.accounts a with
  | some acc => rfl
  | none =>
    simp only
    cases loadAcct l a with
    | some acc => rfl
    | none => simp [rdAcct, KV.get]


theorem getOrCreate_other (l : L) (a b : Addr) (hb : b ≠ a) : KV.get (getOrCreate l a).1.accounts b = KV.get l.accounts b := by
  rw [getOrCreate_eq]
  cases KV.get l.accounts a with
  | some acc => rfl
  | none =>
    simp only
    cases loadAcct l a with
    | some acc => exact KV.get_set_ne _ _ _ _ (Ne.symm hb)
    | none => exact KV.get_set_ne _ _ _ _ (Ne.symm hb)

theorem getOrCreate_rev (l : L) (a : Addr) : (getOrCreate l a).1.revisions = l.revisions ∧ (getOrCreate l a).1.nextRev = l.nextRev := by
  rw [getOrCreate_eq]
  cases KV.get l.accounts a with
  | some acc => exact ⟨rfl, rfl⟩
  | none =>
    simp only
    cases loadAcct l a with
    | some acc => exact ⟨rfl, rfl⟩
    | none => exact ⟨rfl, rfl⟩

/-- the object `getOrCreate` hands out reads like the view -/
theorem getOrCreate_reads (l : L) (a : Addr) (k : String) : rdAcct l a k (getOrCreate l a).2 = peekState l a k := by
  unfold peekState viewAcct
  rw [getOrCreate_eq]
  cases KV.get l.accounts a with
  | some acc => rfl
  | none =>
    simp only
    cases loadAcct l a with
    | some acc => rfl
    | none => simp [rdAcct, KV.get]

theorem getOrCreate_inner (l : L) (a : Addr) : ivOf (getOrCreate l a).2 = peekInner l a := by
  unfold peekInner viewAcct
  rw [getOrCreate_eq]
  cases KV.get l.accounts a with
  | some acc => rfl
  | none =>
    simp only
    cases loadAcct l a with
    | some acc => rfl
    | none => rfl

theorem acct_balance_iv (acc : Acct) : acc.balance = (ivOf acc).balance := by
  unfold Acct.balance ivOf copyOrNew
  cases acc.dirtyAcc with
  | some d => rfl
  | none => cases acc.originAcc <;> rfl

theorem acct_nonce_iv (acc : Acct) : acc.nonce = (ivOf acc).nonce := by
  unfold Acct.nonce ivOf copyOrNew
  cases acc.dirtyAcc with
  | some d => rfl
  | none => cases acc.originAcc <;> rfl

/-- **`GetBalance` / `GetNonce` answer the view** -/
theorem getBalance_peek (l : L) (a : Addr) : (getBalance l a).2 = (peekInner l a).balance := by
  unfold getBalance; simp only; rw [acct_balance_iv, getOrCreate_inner]

theorem getNonce_peek (l : L) (a : Addr) : (getNonce l a).2 = (peekInner l a).nonce := by
  unfold getNonce; simp only; rw [acct_nonce_iv, getOrCreate_inner]

/-- the changes `getOrCreate` appends: a creation mark exactly when the account is neither loaded nor loadable -/
theorem getOrCreate_changes (l : L) (a : Addr) :
    (viewAcct l a = none ∧ KV.get l.accounts a = none ∧ (getOrCreate l a).1.changes = l.changes ++ [.createObject a]) ∨
    ((viewAcct l a).isSome = true ∧ (getOrCreate l a).1.changes = l.changes) := by
  unfold viewAcct
  rw [getOrCreate_eq]
  cases h1 : KV.get l.accounts a with
  | some acc => right; exact ⟨rfl, rfl⟩
  | none =>
    simp only
    cases h2 : loadAcct l a with
    | some acc => right; exact ⟨rfl, rfl⟩
    | none => left; refine ⟨?_, ?_, ?_⟩ <;> first | rfl | trivial

theorem getOrCreate_obj (l : L) (a : Addr) : (getOrCreate l a).2 = (viewAcct l a).getD {} := by
  unfold viewAcct
  rw [getOrCreate_eq]
  cases KV.get l.accounts a with
  | some acc => rfl
  | none =>
    simp only
    cases loadAcct l a with
    | some acc => rfl
    | none => rfl

/-- how the object a write works on (`accm`) relates to the object the ledger had for the account (`acc`): the same dirty set, the
same memo of committed values — plus, when the written key was neither written nor memoised yet, the value the layers below hold
for it; either way the written key is in the dirty set or in the memo -/
def MemoOf (l : L) (a : Addr) (k : String) (acc accm : Acct) : Prop :=
  accm.dirtyState = acc.dirtyState ∧
  (accm.originState = acc.originState ∨
    (KV.get acc.dirtyState k = none ∧ KV.get acc.originState k = none ∧ accm.originState = KV.set acc.originState k (below l a k))) ∧
  ((KV.get accm.dirtyState k).isSome = true ∨ (KV.get accm.originState k).isSome = true)

structure SetSpec (l : L) (a : Addr) (k : String) (v : Bytes) (r : L) : Prop where
  cache : r.cache = l.cache
  db : r.db = l.db
  revs : r.revisions = l.revisions
  nrev : r.nextRev = l.nextRev
  other : ∀ b, b ≠ a → KV.get r.accounts b = KV.get l.accounts b
  self : ∃ accm, KV.get r.accounts a = some { accm with dirtyState := KV.set accm.dirtyState k v } ∧
    (∀ k', rdAcct l a k' accm = peekState l a k') ∧ ivOf accm = peekInner l a ∧ MemoOf l a k ((viewAcct l a).getD {}) accm
  chg : (viewAcct l a = none ∧ KV.get l.accounts a = none ∧
          r.changes = l.changes ++ [.createObject a, .storage a k (peekState l a k)]) ∨
        ((viewAcct l a).isSome = true ∧ r.changes = l.changes ++ [.storage a k (peekState l a k)])

theorem setState_spec (l : L) (a : Addr) (k : String) (v : Bytes) : SetSpec l a k v (setState l a k v) := by
  have hpres := getOrCreate_present l a
  have hoth := getOrCreate_other l a
  have hrd := getOrCreate_reads l a
  have hiv := getOrCreate_inner l a
  have hchg := getOrCreate_changes l a
  obtain ⟨hc, hd⟩ := getOrCreate_cache_db l a
  obtain ⟨hr1, hr2⟩ := getOrCreate_rev l a
  have hpk := getState_peek l a k
  have hobj := getOrCreate_obj l a
  unfold setState
  rw [getState_eq] at hpk ⊢
  simp only at hpk ⊢
  generalize getOrCreate l a = g at *
  obtain ⟨l1, acc⟩ := g
  simp only at *
  -- the ledger after the read
  have key : ∀ (lr : L) (accm : Acct), lr.cache = l1.cache → lr.db = l1.db → lr.revisions = l1.revisions → lr.nextRev = l1.nextRev →
      lr.changes = l1.changes → (∀ b, b ≠ a → KV.get lr.accounts b = KV.get l1.accounts b) → KV.get lr.accounts a = some accm →
      (∀ k', rdAcct l a k' accm = rdAcct l a k' acc) → ivOf accm = ivOf acc → MemoOf l a k acc accm →
      SetSpec l a k v { putAcct lr a { (KV.get lr.accounts a).getD {} with dirtyState := KV.set ((KV.get lr.accounts a).getD {}).dirtyState k v } with
        changes := (putAcct lr a { (KV.get lr.accounts a).getD {} with dirtyState := KV.set ((KV.get lr.accounts a).getD {}).dirtyState k v }).changes ++
          [.storage a k (rdAcct l1 a k acc)] } := by
    intro lr accm e1 e2 e3 e4 e5 e6 e7 e8 e9 e10
    rw [e7]
    simp only [Option.getD_some]
    refine ⟨by show lr.cache = _; rw [e1, hc], by show lr.db = _; rw [e2, hd], by show lr.revisions = _; rw [e3, hr1],
      by show lr.nextRev = _; rw [e4, hr2], ?_, ?_, ?_⟩
    · intro b hb
      show KV.get (KV.set lr.accounts a _) b = _
      rw [KV.get_set_ne _ _ _ _ (Ne.symm hb), e6 b hb, hoth b hb]
    · refine ⟨accm, ?_, fun k' => by rw [e8, hrd], by rw [e9, hiv], by rw [← hobj]; exact e10⟩
      show KV.get (KV.set lr.accounts a _) a = _
      rw [KV.get_set_eq]
    · have hprev : rdAcct l1 a k acc = peekState l a k := by rw [rdAcct_congr hc hd, hrd]
      rw [hprev]
      rcases hchg with ⟨h1, h2, h3⟩ | ⟨h1, h3⟩
      · left
        refine ⟨h1, h2, ?_⟩
        show lr.changes ++ [Change.storage a k (peekState l a k)] = l.changes ++ [Change.createObject a, Change.storage a k (peekState l a k)]
        rw [e5, h3]; simp
      · right
        refine ⟨h1, ?_⟩
        show lr.changes ++ [Change.storage a k (peekState l a k)] = l.changes ++ [Change.storage a k (peekState l a k)]
        rw [e5, h3]
  cases h1 : KV.get acc.dirtyState k with
  | some v0 => simp only; exact key l1 acc rfl rfl rfl rfl rfl (fun _ _ => rfl) hpres (fun _ => rfl) rfl ⟨rfl, Or.inl rfl, Or.inl (by rw [h1]; rfl)⟩
  | none =>
    simp only
    cases h2 : KV.get acc.originState k with
    | some v0 => simp only; exact key l1 acc rfl rfl rfl rfl rfl (fun _ _ => rfl) hpres (fun _ => rfl) rfl ⟨rfl, Or.inl rfl, Or.inr (by rw [h2]; rfl)⟩
    | none =>
      simp only
      refine key (putAcct l1 a { acc with originState := KV.set acc.originState k (below l1 a k) }) _ rfl rfl rfl rfl rfl
        (fun b hb => KV.get_set_ne _ _ _ _ (Ne.symm hb)) (putAcct_get _ _ _) ?_ rfl
        ⟨rfl, Or.inr ⟨h1, h2, by show KV.set acc.originState k (below l1 a k) = _; rw [below_congr hc hd]⟩, Or.inr (by show (KV.get (KV.set acc.originState k _) k).isSome = true; rw [KV.get_set_eq]; rfl)⟩
      intro k'
      unfold rdAcct
      simp only
      cases KV.get acc.dirtyState k' with
      | some _ => rfl
      | none =>
        simp only
        by_cases hk : k = k'
        · subst hk
          rw [KV.get_set_eq, h2]
          simp only
          exact (below_congr hc hd a k)
        · rw [KV.get_set_ne _ _ _ _ hk]


theorem loadAcct_congr {l l' : L} (hc : l'.cache = l.cache) (hd : l'.db = l.db) (a : Addr) : loadAcct l' a = loadAcct l a := by
  unfold loadAcct loadCode; rw [hc, hd]

theorem viewAcct_congr {l l' : L} (hc : l'.cache = l.cache) (hd : l'.db = l.db) (a : Addr)
    (ha : KV.get l'.accounts a = KV.get l.accounts a) : viewAcct l' a = viewAcct l a := by
  unfold viewAcct; rw [ha, loadAcct_congr hc hd]

theorem peekState_congr {l l' : L} (hc : l'.cache = l.cache) (hd : l'.db = l.db) (a : Addr)
    (ha : KV.get l'.accounts a = KV.get l.accounts a) (k : String) : peekState l' a k = peekState l a k := by
  unfold peekState
  rw [viewAcct_congr hc hd a ha]
  cases viewAcct l a with
  | some acc => exact rdAcct_congr hc hd a k acc
  | none => exact below_congr hc hd a k

theorem peekState_of_present {l : L} {a : Addr} {acc : Acct} (h : KV.get l.accounts a = some acc) (k : String) :
    peekState l a k = rdAcct l a k acc := by
  unfold peekState viewAcct; rw [h]

/-- the storage view after a write: the written key reads the written value, every other key of every account reads as before -/
theorem peekState_setState (l : L) (a : Addr) (k : String) (v : Bytes) (b : Addr) (k' : String) :
    peekState (setState l a k v) b k' = if b = a ∧ k' = k then v else peekState l b k' := by
  have sp := setState_spec l a k v
  by_cases hb : b = a
  · subst hb
    obtain ⟨accm, h1, h2, _⟩ := sp.self
    rw [peekState_of_present h1]
    unfold rdAcct
    simp only
    by_cases hk : k' = k
    · subst hk; simp [KV.get_set_eq]
    · rw [KV.get_set_ne _ _ _ _ (Ne.symm hk)]
      simp only [hk, and_false, if_false]
      have := h2 k'
      unfold rdAcct at this
      rw [below_congr sp.cache sp.db]
      exact this
  · simp only [hb, false_and, if_false]
    exact peekState_congr sp.cache sp.db b (sp.other b hb) k'

theorem peekInner_congr {l l' : L} (hc : l'.cache = l.cache) (hd : l'.db = l.db) (a : Addr)
    (ha : KV.get l'.accounts a = KV.get l.accounts a) : peekInner l' a = peekInner l a := by
  unfold peekInner; rw [viewAcct_congr hc hd a ha]

theorem peekInner_of_present {l : L} {a : Addr} {acc : Acct} (h : KV.get l.accounts a = some acc) : peekInner l a = ivOf acc := by
  unfold peekInner viewAcct; rw [h]

/-- a storage write leaves nonce, balance and code hash of every account as they read before -/
theorem peekInner_setState (l : L) (a : Addr) (k : String) (v : Bytes) (b : Addr) :
    peekInner (setState l a k v) b = peekInner l b := by
  have sp := setState_spec l a k v
  by_cases hb : b = a
  · subst hb
    obtain ⟨accm, h1, _, h3, _⟩ := sp.self
    rw [peekInner_of_present h1, ← h3]; rfl
  · exact peekInner_congr sp.cache sp.db b (sp.other b hb)

/-- two ledgers between which a revert is indifferent: same cache and database, the same storage view, and every account object of the
second is an object of the first as well -/
structure RevRel (u s : L) : Prop where
  cache : u.cache = s.cache
  db : u.db = s.db
  peek : ∀ a k, peekState u a k = peekState s a k
  inner : ∀ a, peekInner u a = peekInner s a
  keys : ∀ a, (KV.get s.accounts a).isSome = true → (KV.get u.accounts a).isSome = true

theorem RevRel.refl (s : L) : RevRel s s := ⟨rfl, rfl, fun _ _ => rfl, fun _ => rfl, fun _ h => h⟩

theorem RevRel.trans {x y z : L} (h1 : RevRel x y) (h2 : RevRel y z) : RevRel x z :=
  ⟨h1.cache.trans h2.cache, h1.db.trans h2.db, fun a k => (h1.peek a k).trans (h2.peek a k), fun a => (h1.inner a).trans (h2.inner a),
    fun a h => h1.keys a (h2.keys a h)⟩

/-- undoing a storage change on a ledger in which the account is an object -/
theorem undo_storage_facts (K : String → String) (u : L) (a : Addr) (k : String) (prev : Bytes) (au : Acct)
    (ha : KV.get u.accounts a = some au) :
    (undo K u (.storage a k prev)).cache = u.cache ∧ (undo K u (.storage a k prev)).db = u.db ∧
    KV.get (undo K u (.storage a k prev)).accounts a = some { au with dirtyState := KV.set au.dirtyState k prev } ∧
    ∀ b, b ≠ a → KV.get (undo K u (.storage a k prev)).accounts b = KV.get u.accounts b := by
  unfold undo
  simp only [ha, Option.getD_some]
  exact ⟨rfl, rfl, putAcct_get _ _ _, fun b hb => KV.get_set_ne _ _ _ _ (Ne.symm hb)⟩

theorem loadAcct_none_inner {l : L} {a : Addr} (h : loadAcct l a = none) : KV.get l.cache.inner a = none := by
  unfold loadAcct at h
  cases h1 : KV.get l.cache.inner a with
  | some ia => rw [h1] at h; cases h
  | none => rfl

/-- **one write, undone**: from anything related to the ledger after `SetState` the undo of the changes that write appended leads to
something related to the ledger before it -/
theorem undo_setState (K : String → String) (s : L) (a : Addr) (k : String) (v : Bytes) :
    ∃ cs, (setState s a k v).changes = s.changes ++ cs ∧
      ∀ u, RevRel u (setState s a k v) → RevRel (cs.reverse.foldl (undo K) u) s := by
  have sp := setState_spec s a k v
  have hpk := peekState_setState s a k v
  obtain ⟨accm, hself, _⟩ := sp.self
  -- the part common to both shapes: undoing the storage change
  have common : ∀ u, RevRel u (setState s a k v) →
      let u1 := undo K u (.storage a k (peekState s a k))
      u1.cache = s.cache ∧ u1.db = s.db ∧ (∀ b k', peekState u1 b k' = peekState s b k') ∧ (∀ b, peekInner u1 b = peekInner s b) ∧
      (∀ c, (KV.get (setState s a k v).accounts c).isSome = true → (KV.get u1.accounts c).isSome = true) := by
    intro u hR
    have hau : (KV.get u.accounts a).isSome = true := hR.keys a (by rw [hself]; rfl)
    obtain ⟨au, hau⟩ := Option.isSome_iff_exists.mp hau
    obtain ⟨f1, f2, f3, f4⟩ := undo_storage_facts K u a k (peekState s a k) au hau
    refine ⟨f1.trans (hR.cache.trans sp.cache), f2.trans (hR.db.trans sp.db), ?_, ?_, ?_⟩
    · intro b k'
      by_cases hb : b = a
      · subst hb
        rw [peekState_of_present f3]
        by_cases hk : k' = k
        · subst hk; simp [rdAcct, KV.get_set_eq]
        · have h1 := hR.peek b k'
          rw [peekState_of_present hau, hpk] at h1
          simp only [hk, and_false, if_false] at h1
          rw [← h1]
          unfold rdAcct
          simp only
          rw [KV.get_set_ne _ _ _ _ (Ne.symm hk), below_congr f1 f2]
      · rw [peekState_congr f1 f2 b (f4 b hb) k', hR.peek b k', hpk]
        simp [hb]
    · intro b
      rw [← peekInner_setState s a k v b, ← hR.inner b]
      by_cases hb : b = a
      · subst hb
        rw [peekInner_of_present f3, peekInner_of_present hau]; rfl
      · exact peekInner_congr f1 f2 b (f4 b hb)
    · intro c hc
      by_cases hca : c = a
      · subst hca; rw [f3]; rfl
      · rw [f4 c hca]; exact hR.keys c hc
  rcases sp.chg with ⟨hv, hacc, hchg⟩ | ⟨hv, hchg⟩
  · -- the account was created by this write
    refine ⟨_, hchg, ?_⟩
    intro u hR
    obtain ⟨c1, c2, c3, c3i, c4⟩ := common u hR
    simp only [List.reverse_cons, List.reverse_nil, List.nil_append, List.cons_append, List.foldl_cons, List.foldl_nil]
    generalize undo K u (.storage a k (peekState s a k)) = u1 at c1 c2 c3 c3i c4
    have hload : loadAcct s a = none := by
      unfold viewAcct at hv; rw [hacc] at hv; exact hv
    have hinner : KV.get u1.cache.inner a = none := by rw [c1]; exact loadAcct_none_inner hload
    have hcache : (undo K u1 (.createObject a)).cache = s.cache := by
      show ({ u1.cache with inner := KV.erase u1.cache.inner a } : Cache) = s.cache
      rw [KV.erase_of_get_none _ _ hinner]
      exact c1
    have hdb : (undo K u1 (.createObject a)).db = s.db := c2
    have hget : ∀ b, KV.get (undo K u1 (.createObject a)).accounts b = if b = a then none else KV.get u1.accounts b := by
      intro b
      show KV.get (KV.erase u1.accounts a) b = _
      by_cases hb : b = a
      · subst hb; simp [KV.get_erase_eq]
      · simp only [hb, if_false]; exact KV.get_erase_ne _ _ _ (Ne.symm hb)
    refine ⟨hcache, hdb, ?_, ?_, ?_⟩
    · intro b k'
      by_cases hb : b = a
      · subst hb
        unfold peekState viewAcct
        rw [hget, if_pos rfl, hacc, loadAcct_congr hcache hdb, hload]
        exact below_congr hcache hdb b k'
      · rw [← c3 b k']
        exact peekState_congr (hcache.trans c1.symm) (hdb.trans c2.symm) b (by rw [hget, if_neg hb]) k'
    · intro b
      by_cases hb : b = a
      · subst hb
        unfold peekInner viewAcct
        rw [hget, if_pos rfl, hacc, loadAcct_congr hcache hdb, hload]
      · rw [← c3i b]
        exact peekInner_congr (hcache.trans c1.symm) (hdb.trans c2.symm) b (by rw [hget, if_neg hb])
    · intro c hc
      have hca : c ≠ a := by intro e; subst e; rw [hacc] at hc; cases hc
      rw [hget, if_neg hca]
      exact c4 c (by rw [sp.other c hca]; exact hc)
  · refine ⟨_, hchg, ?_⟩
    intro u hR
    obtain ⟨c1, c2, c3, c3i, c4⟩ := common u hR
    simp only [List.reverse_cons, List.reverse_nil, List.nil_append, List.foldl_cons, List.foldl_nil]
    refine ⟨c1, c2, c3, c3i, ?_⟩
    intro c hc
    by_cases hca : c = a
    · subst hca; exact c4 c (by rw [hself]; rfl)
    · exact c4 c (by rw [sp.other c hca]; exact hc)


/-- what a journaled write to the inner account (balance, nonce) does: `f` is the update of the inner account, `c` the change it
appends (after the creation mark, when the write created the account object) -/
structure ISpec (l : L) (a : Addr) (f : Inner → Inner) (c : Change) (r : L) : Prop where
  cache : r.cache = l.cache
  db : r.db = l.db
  revs : r.revisions = l.revisions
  nrev : r.nextRev = l.nextRev
  other : ∀ b, b ≠ a → KV.get r.accounts b = KV.get l.accounts b
  self : ∃ acc0, KV.get r.accounts a = some { acc0 with dirtyAcc := some (f (ivOf acc0)) } ∧
    (∀ k', rdAcct l a k' acc0 = peekState l a k') ∧ ivOf acc0 = peekInner l a
  chg : (viewAcct l a = none ∧ KV.get l.accounts a = none ∧ r.changes = l.changes ++ [.createObject a, c]) ∨
        ((viewAcct l a).isSome = true ∧ r.changes = l.changes ++ [c])

theorem inner_write_spec (l : L) (a : Addr) (f : Inner → Inner) (c : Change) :
    ISpec l a f c { putAcct (getOrCreate l a).1 a { (getOrCreate l a).2 with dirtyAcc := some (f (ivOf (getOrCreate l a).2)) } with
      changes := (putAcct (getOrCreate l a).1 a { (getOrCreate l a).2 with dirtyAcc := some (f (ivOf (getOrCreate l a).2)) }).changes ++ [c] } := by
  have hoth := getOrCreate_other l a
  have hrd := getOrCreate_reads l a
  have hiv := getOrCreate_inner l a
  have hchg := getOrCreate_changes l a
  obtain ⟨hc, hd⟩ := getOrCreate_cache_db l a
  obtain ⟨hr1, hr2⟩ := getOrCreate_rev l a
  refine ⟨hc, hd, hr1, hr2, ?_, ⟨(getOrCreate l a).2, ?_, hrd, hiv⟩, ?_⟩
  · intro b hb
    show KV.get (KV.set (getOrCreate l a).1.accounts a _) b = _
    rw [KV.get_set_ne _ _ _ _ (Ne.symm hb), hoth b hb]
  · show KV.get (KV.set (getOrCreate l a).1.accounts a _) a = _
    rw [KV.get_set_eq]
  · rcases hchg with ⟨h1, h2, h3⟩ | ⟨h1, h3⟩
    · left
      refine ⟨h1, h2, ?_⟩
      show (getOrCreate l a).1.changes ++ [c] = _
      rw [h3]; simp
    · right
      refine ⟨h1, ?_⟩
      show (getOrCreate l a).1.changes ++ [c] = _
      rw [h3]

theorem setBalance_spec (l : L) (a : Addr) (v : Int) :
    ISpec l a (fun d => { d with balance := v }) (.balance a (peekInner l a).balance) (setBalance l a v) := by
  have := inner_write_spec l a (fun d => { d with balance := v }) (.balance a (peekInner l a).balance)
  have e : (getOrCreate l a).2.balance = (peekInner l a).balance := by rw [acct_balance_iv, getOrCreate_inner]
  unfold setBalance
  simp only
  rw [e]
  exact this

theorem setNonce_spec (l : L) (a : Addr) (v : Nat) :
    ISpec l a (fun d => { d with nonce := v }) (.nonce a (peekInner l a).nonce) (setNonce l a v) := by
  have := inner_write_spec l a (fun d => { d with nonce := v }) (.nonce a (peekInner l a).nonce)
  have e : (getOrCreate l a).2.nonce = (peekInner l a).nonce := by rw [acct_nonce_iv, getOrCreate_inner]
  unfold setNonce
  simp only
  rw [e]
  exact this

theorem rdAcct_dirtyAcc (l : L) (a : Addr) (k : String) (acc : Acct) (d : Option Inner) :
    rdAcct l a k { acc with dirtyAcc := d } = rdAcct l a k acc := rfl

/-- **one inner-account write, undone**: `g` is what the undo of `c` does to the inner account -/
theorem undo_inner (K : String → String) (s : L) (a : Addr) (f g : Inner → Inner) (c : Change) (r : L) (sp : ISpec s a f c r)
    (hundo : ∀ u au, KV.get u.accounts a = some au → undo K u c = putAcct u a { au with dirtyAcc := some (g (ivOf au)) })
    (hfg : g (f (peekInner s a)) = peekInner s a) :
    ∃ cs, r.changes = s.changes ++ cs ∧ ∀ u, RevRel u r → RevRel (cs.reverse.foldl (undo K) u) s := by
  obtain ⟨acc0, hself, hrd0, hiv0⟩ := sp.self
  have hpeekr : ∀ b k', peekState r b k' = peekState s b k' := by
    intro b k'
    by_cases hb : b = a
    · subst hb
      rw [peekState_of_present hself, rdAcct_dirtyAcc, rdAcct_congr sp.cache sp.db, hrd0]
    · exact peekState_congr sp.cache sp.db b (sp.other b hb) k'
  have hinr : ∀ b, b ≠ a → peekInner r b = peekInner s b := fun b hb => peekInner_congr sp.cache sp.db b (sp.other b hb)
  have hinra : peekInner r a = f (peekInner s a) := by rw [peekInner_of_present hself, ← hiv0]; rfl
  have common : ∀ u, RevRel u r →
      u.cache = r.cache ∧ (undo K u c).cache = s.cache ∧ (undo K u c).db = s.db ∧ (∀ b k', peekState (undo K u c) b k' = peekState s b k') ∧
      (∀ b, peekInner (undo K u c) b = peekInner s b) ∧
      (∀ x, (KV.get r.accounts x).isSome = true → (KV.get (undo K u c).accounts x).isSome = true) := by
    intro u hR
    have hau : (KV.get u.accounts a).isSome = true := hR.keys a (by rw [hself]; rfl)
    obtain ⟨au, hau⟩ := Option.isSome_iff_exists.mp hau
    rw [hundo u au hau]
    have f3 : KV.get (putAcct u a { au with dirtyAcc := some (g (ivOf au)) }).accounts a = some { au with dirtyAcc := some (g (ivOf au)) } :=
      putAcct_get _ _ _
    have f4 : ∀ b, b ≠ a → KV.get (putAcct u a { au with dirtyAcc := some (g (ivOf au)) }).accounts b = KV.get u.accounts b :=
      fun b hb => KV.get_set_ne _ _ _ _ (Ne.symm hb)
    have f1 : (putAcct u a { au with dirtyAcc := some (g (ivOf au)) }).cache = u.cache := rfl
    have f2 : (putAcct u a { au with dirtyAcc := some (g (ivOf au)) }).db = u.db := rfl
    refine ⟨hR.cache, f1.trans (hR.cache.trans sp.cache), f2.trans (hR.db.trans sp.db), ?_, ?_, ?_⟩
    · intro b k'
      rw [← hpeekr b k', ← hR.peek b k']
      by_cases hb : b = a
      · subst hb
        rw [peekState_of_present f3, peekState_of_present hau, rdAcct_dirtyAcc]
        exact rdAcct_congr f1 f2 b k' au
      · exact peekState_congr f1 f2 b (f4 b hb) k'
    · intro b
      by_cases hb : b = a
      · subst hb
        rw [peekInner_of_present f3]
        have : ivOf au = f (peekInner s b) := by rw [← peekInner_of_present hau, hR.inner b, hinra]
        show g (ivOf au) = _
        rw [this, hfg]
      · rw [← hinr b hb, ← hR.inner b]
        exact peekInner_congr f1 f2 b (f4 b hb)
    · intro x hx
      by_cases hxa : x = a
      · subst hxa; rw [f3]; rfl
      · rw [f4 x hxa]; exact hR.keys x hx
  rcases sp.chg with ⟨hv, hacc, hchg⟩ | ⟨hv, hchg⟩
  · refine ⟨_, hchg, ?_⟩
    intro u hR
    obtain ⟨_, c1, c2, c3, c3i, c4⟩ := common u hR
    simp only [List.reverse_cons, List.reverse_nil, List.nil_append, List.cons_append, List.foldl_cons, List.foldl_nil]
    generalize undo K u c = u1 at c1 c2 c3 c3i c4
    have hload : loadAcct s a = none := by
      unfold viewAcct at hv; rw [hacc] at hv; exact hv
    have hinner : KV.get u1.cache.inner a = none := by rw [c1]; exact loadAcct_none_inner hload
    have hcache : (undo K u1 (.createObject a)).cache = s.cache := by
      show ({ u1.cache with inner := KV.erase u1.cache.inner a } : Cache) = s.cache
      rw [KV.erase_of_get_none _ _ hinner]
      exact c1
    have hdb : (undo K u1 (.createObject a)).db = s.db := c2
    have hget : ∀ b, KV.get (undo K u1 (.createObject a)).accounts b = if b = a then none else KV.get u1.accounts b := by
      intro b
      show KV.get (KV.erase u1.accounts a) b = _
      by_cases hb : b = a
      · subst hb; simp [KV.get_erase_eq]
      · simp only [hb, if_false]; exact KV.get_erase_ne _ _ _ (Ne.symm hb)
    refine ⟨hcache, hdb, ?_, ?_, ?_⟩
    · intro b k'
      by_cases hb : b = a
      · subst hb
        unfold peekState viewAcct
        rw [hget, if_pos rfl, hacc, loadAcct_congr hcache hdb, hload]
        exact below_congr hcache hdb b k'
      · rw [← c3 b k']
        exact peekState_congr (hcache.trans c1.symm) (hdb.trans c2.symm) b (by rw [hget, if_neg hb]) k'
    · intro b
      by_cases hb : b = a
      · subst hb
        unfold peekInner viewAcct
        rw [hget, if_pos rfl, hacc, loadAcct_congr hcache hdb, hload]
      · rw [← c3i b]
        exact peekInner_congr (hcache.trans c1.symm) (hdb.trans c2.symm) b (by rw [hget, if_neg hb])
    · intro x hx
      have hxa : x ≠ a := by intro e; subst e; rw [hacc] at hx; cases hx
      rw [hget, if_neg hxa]
      exact c4 x (by rw [sp.other x hxa]; exact hx)
  · refine ⟨_, hchg, ?_⟩
    intro u hR
    obtain ⟨_, c1, c2, c3, c3i, c4⟩ := common u hR
    simp only [List.reverse_cons, List.reverse_nil, List.nil_append, List.foldl_cons, List.foldl_nil]
    refine ⟨c1, c2, c3, c3i, ?_⟩
    intro x hx
    by_cases hxa : x = a
    · subst hxa; exact c4 x (by rw [hself]; rfl)
    · exact c4 x (by rw [sp.other x hxa]; exact hx)

theorem undo_setBalance (K : String → String) (s : L) (a : Addr) (v : Int) :
    ∃ cs, (setBalance s a v).changes = s.changes ++ cs ∧ ∀ u, RevRel u (setBalance s a v) → RevRel (cs.reverse.foldl (undo K) u) s :=
  undo_inner K s a _ (fun d => { d with balance := (peekInner s a).balance }) _ _ (setBalance_spec s a v)
    (fun u au h => by unfold undo; simp only [h, Option.getD_some]; rfl) (by cases peekInner s a; rfl)

theorem undo_setNonce (K : String → String) (s : L) (a : Addr) (v : Nat) :
    ∃ cs, (setNonce s a v).changes = s.changes ++ cs ∧ ∀ u, RevRel u (setNonce s a v) → RevRel (cs.reverse.foldl (undo K) u) s :=
  undo_inner K s a _ (fun d => { d with nonce := (peekInner s a).nonce }) _ _ (setNonce_spec s a v)
    (fun u au h => by unfold undo; simp only [h, Option.getD_some]; rfl) (by cases peekInner s a; rfl)

/-- a storage write: `SetState` (`v = none`: `Delete`) -/
structure SWrite where
  addr : Addr
  key : String
  val : Bytes
deriving Repr, DecidableEq

def writes (ws : List SWrite) (l : L) : L := ws.foldl (fun l w => setState l w.addr w.key w.val) l

theorem writes_revs (ws : List SWrite) (l : L) : (writes ws l).revisions = l.revisions ∧ (writes ws l).nextRev = l.nextRev := by
  induction ws generalizing l with
  | nil => exact ⟨rfl, rfl⟩
  | cons w rest ih =>
    have sp := setState_spec l w.addr w.key w.val
    have := ih (setState l w.addr w.key w.val)
    exact ⟨this.1.trans sp.revs, this.2.trans sp.nrev⟩

/-- **any sequence of writes, undone** -/
theorem undo_writes (K : String → String) (ws : List SWrite) (s : L) :
    ∃ cs, (writes ws s).changes = s.changes ++ cs ∧ ∀ u, RevRel u (writes ws s) → RevRel (cs.reverse.foldl (undo K) u) s := by
  induction ws generalizing s with
  | nil => exact ⟨[], by simp [writes], fun u h => h⟩
  | cons w rest ih =>
    obtain ⟨cs1, h1, g1⟩ := undo_setState K s w.addr w.key w.val
    obtain ⟨cs2, h2, g2⟩ := ih (setState s w.addr w.key w.val)
    refine ⟨cs1 ++ cs2, ?_, ?_⟩
    · show (writes rest (setState s w.addr w.key w.val)).changes = _
      rw [h2, h1, List.append_assoc]
    · intro u hR
      rw [List.reverse_append, List.foldl_append]
      exact g1 _ (g2 u hR)

/-- a journaled write: `SetState` / `Delete`, `SetBalance`, `SetNonce` -/
inductive Write
  | storage (a : Addr) (k : String) (v : Bytes)
  | balance (a : Addr) (v : Int)
  | nonce (a : Addr) (v : Nat)
deriving Repr, DecidableEq

def applyWrite (l : L) : Write → L
  | .storage a k v => setState l a k v
  | .balance a v => setBalance l a v
  | .nonce a v => setNonce l a v

def applyWrites (ws : List Write) (l : L) : L := ws.foldl applyWrite l

theorem applyWrite_revs (l : L) (w : Write) : (applyWrite l w).revisions = l.revisions ∧ (applyWrite l w).nextRev = l.nextRev := by
  cases w with
  | storage a k v => exact ⟨(setState_spec l a k v).revs, (setState_spec l a k v).nrev⟩
  | balance a v => exact ⟨(setBalance_spec l a v).revs, (setBalance_spec l a v).nrev⟩
  | nonce a v => exact ⟨(setNonce_spec l a v).revs, (setNonce_spec l a v).nrev⟩

theorem applyWrites_revs (ws : List Write) (l : L) :
    (applyWrites ws l).revisions = l.revisions ∧ (applyWrites ws l).nextRev = l.nextRev := by
  induction ws generalizing l with
  | nil => exact ⟨rfl, rfl⟩
  | cons w rest ih =>
    have h1 := applyWrite_revs l w
    have := ih (applyWrite l w)
    exact ⟨this.1.trans h1.1, this.2.trans h1.2⟩

theorem undo_applyWrite (K : String → String) (s : L) (w : Write) :
    ∃ cs, (applyWrite s w).changes = s.changes ++ cs ∧ ∀ u, RevRel u (applyWrite s w) → RevRel (cs.reverse.foldl (undo K) u) s := by
  cases w with
  | storage a k v => exact undo_setState K s a k v
  | balance a v => exact undo_setBalance K s a v
  | nonce a v => exact undo_setNonce K s a v

/-- **any sequence of journaled writes, undone** -/
theorem undo_applyWrites (K : String → String) (ws : List Write) (s : L) :
    ∃ cs, (applyWrites ws s).changes = s.changes ++ cs ∧ ∀ u, RevRel u (applyWrites ws s) → RevRel (cs.reverse.foldl (undo K) u) s := by
  induction ws generalizing s with
  | nil => exact ⟨[], by simp [applyWrites], fun u h => h⟩
  | cons w rest ih =>
    obtain ⟨cs1, h1, g1⟩ := undo_applyWrite K s w
    obtain ⟨cs2, h2, g2⟩ := ih (applyWrite s w)
    refine ⟨cs1 ++ cs2, ?_, ?_⟩
    · show (applyWrites rest (applyWrite s w)).changes = _
      rw [h2, h1, List.append_assoc]
    · intro u hR
      rw [List.reverse_append, List.foldl_append]
      exact g1 _ (g2 u hR)

/-- `RevertToSnapshot` to the snapshot taken at `s` (revision ids below `nextRev`: the changer's invariant), after changes `cs` were
appended to the journal: the journal is cut back, the revision is dropped, the changes are undone last first -/
theorem revertTo_eq (K : String → String) (s l2 : L) (cs : List Change)
    (hrev : ∀ r ∈ s.revisions, r.1 < s.nextRev)
    (h1 : l2.revisions = s.revisions ++ [(s.nextRev, s.changes.length)]) (h2 : l2.changes = s.changes ++ cs) :
    ∃ l3, revertTo K l2 s.nextRev = some l3 ∧ l3.changes = s.changes ∧ l3.revisions = s.revisions ∧ l3.nextRev = l2.nextRev ∧
      ∀ x, RevRel l2 x → ∀ y, (∀ u, RevRel u x → RevRel (cs.reverse.foldl (undo K) u) y) → RevRel l3 y := by
  have hfind : l2.revisions.find? (fun r => decide (r.1 ≥ s.nextRev)) = some (s.nextRev, s.changes.length) := by
    rw [h1, List.find?_append]
    have : s.revisions.find? (fun r => decide (r.1 ≥ s.nextRev)) = none := by
      rw [List.find?_eq_none]
      intro r hr
      have := hrev r hr
      simp; omega
    rw [this]
    simp
  have hfilter : ∀ (rs : List (Nat × Nat)), rs = l2.revisions → rs.filter (fun r => decide (r.1 < s.nextRev)) = s.revisions := by
    intro rs e
    rw [e, h1, List.filter_append]
    have : s.revisions.filter (fun r => decide (r.1 < s.nextRev)) = s.revisions := by
      rw [List.filter_eq_self]
      intro r hr
      simpa using hrev r hr
    rw [this]
    simp
  have hdrop : l2.changes.drop s.changes.length = cs := by rw [h2]; simp
  have htake : l2.changes.take s.changes.length = s.changes := by rw [h2]; simp
  -- undo touches neither the journal nor the revisions
  have hundo : ∀ (cs' : List Change) (x : L), (cs'.foldl (undo K) x).changes = x.changes ∧ (cs'.foldl (undo K) x).revisions = x.revisions ∧
      (cs'.foldl (undo K) x).nextRev = x.nextRev := by
    intro cs'
    induction cs' with
    | nil => intro x; exact ⟨rfl, rfl, rfl⟩
    | cons c rest ih =>
      intro x
      have hx : (undo K x c).changes = x.changes ∧ (undo K x c).revisions = x.revisions ∧ (undo K x c).nextRev = x.nextRev := by
        cases c <;> exact ⟨rfl, rfl, rfl⟩
      have := ih (undo K x c)
      exact ⟨this.1.trans hx.1, this.2.1.trans hx.2.1, this.2.2.trans hx.2.2⟩
  unfold revertTo
  rw [hfind]
  simp only [ne_eq, not_true_eq_false, if_false]
  rw [hdrop, htake]
  obtain ⟨u1, u2, u3⟩ := hundo cs.reverse { l2 with changes := s.changes }
  refine ⟨_, rfl, u1, ?_, u3, ?_⟩
  · show ((cs.reverse.foldl (undo K) { l2 with changes := s.changes }).revisions).filter _ = _
    exact hfilter _ u2
  · intro x hx y hy
    have hR0 : RevRel { l2 with changes := s.changes } x := ⟨hx.cache, hx.db, hx.peek, hx.inner, hx.keys⟩
    have := hy _ hR0
    exact ⟨this.cache, this.db, this.peek, this.inner, this.keys⟩

end Bxh.Ledger
