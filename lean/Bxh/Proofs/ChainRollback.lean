import Bxh.Model.Chain
/-!
# `RollbackBlockChain` removes every by-height entry above the target

Exact characterisation of the height index and the transaction-set index after the loop of `RollbackBlockChain`, and the
length of the blockfile tables.
-/
namespace Bxh.Chain
open Bxh

theorem get_erase_if {α β : Type} [DecidableEq α] (m : KV α β) (k k' : α) :
    KV.get (KV.erase m k) k' = if k = k' then none else KV.get m k' := by
  by_cases h : k = k'
  · subst h; simp [KV.get_erase_eq]
  · simp [h, KV.get_erase_ne m k k' h]

theorem loop_spec (t : Nat) : ∀ (fuel cur cnt : Nat) (n n' : Node) (cnt' : Nat),
    chainRollbackLoop n t fuel cur cnt = some (n', cnt') → fuel = cur - t → t ≤ cur → n.blocks = cur →
    (∀ j, KV.get n'.idx.heightIdx j = if t < j ∧ j ≤ cur then none else KV.get n.idx.heightIdx j) ∧
    (∀ j, KV.get n'.idx.txSet j = if t < j ∧ j ≤ cur then none else KV.get n.idx.txSet j) ∧
    n'.blocks = t ∧
    (t < cur → n'.tbl.bodies.length ≤ t ∧ n'.tbl.txs.length ≤ t ∧ n'.tbl.inter.length ≤ t) ∧
    n'.st = n.st := by
  intro fuel
  induction fuel with
  | zero =>
    intro cur cnt n n' cnt' h hf ht hb
    have : cur = t := by omega
    subst this
    simp only [chainRollbackLoop] at h
    injection h with h
    injection h with h1 h2
    subst h1
    refine ⟨fun j => ?_, fun j => ?_, hb, fun hlt => absurd hlt (Nat.lt_irrefl _), rfl⟩
    · have : ¬ (cur < j ∧ j ≤ cur) := by omega
      simp [this]
    · have : ¬ (cur < j ∧ j ≤ cur) := by omega
      simp [this]
  | succ fuel ih =>
    intro cur cnt n n' cnt' h hf ht hb
    have hgt : t < cur := by omega
    have hnle : ¬ cur ≤ t := by omega
    simp only [chainRollbackLoop, hnle, if_false] at h
    split at h
    · rename_i b im hgb him
      have hnb : ¬ n.blocks ≤ cur - 1 := by omega
      simp only [hnb, if_false] at h
      obtain ⟨i1, i2, i3, i4, i5⟩ := ih (cur - 1) _ _ n' cnt' h (by omega) (by omega) rfl
      refine ⟨fun j => ?_, fun j => ?_, i3, fun _ => ?_, i5⟩
      · rw [i1 j]
        simp only [get_erase_if]
        by_cases h1 : t < j ∧ j ≤ cur - 1
        · have : t < j ∧ j ≤ cur := ⟨h1.1, by omega⟩
          simp [h1, this]
        · simp only [h1, if_false]
          by_cases h2 : cur = j
          · have : t < j ∧ j ≤ cur := by omega
            simp [h2, this]
          · have : ¬ (t < j ∧ j ≤ cur) := by omega
            simp [h2, this]
      · rw [i2 j]
        simp only [get_erase_if]
        by_cases h1 : t < j ∧ j ≤ cur - 1
        · have : t < j ∧ j ≤ cur := ⟨h1.1, by omega⟩
          simp [h1, this]
        · simp only [h1, if_false]
          by_cases h2 : cur = j
          · have : t < j ∧ j ≤ cur := by omega
            simp [h2, this]
          · have : ¬ (t < j ∧ j ≤ cur) := by omega
            simp [h2, this]
      · by_cases h1 : t < cur - 1
        · exact i4 h1
        · -- the loop stops right after this step: the tables are the ones truncated to `cur - 1 = t`
          have ht' : cur - 1 = t := by omega
          have hfuel : fuel = 0 := by omega
          subst hfuel
          simp only [chainRollbackLoop] at h
          injection h with h
          injection h with h1' _
          subst h1'
          simp only [Tables.truncate, List.length_take]
          omega
    · cases h

end Bxh.Chain
