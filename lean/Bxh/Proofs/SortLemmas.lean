/- generic: sorting a permutation gives the same list when the order is antisymmetric on the elements -/
namespace Bxh

theorem mergeSort_eq_of_perm {α : Type} (le : α → α → Bool) (l₁ l₂ : List α)
    (trans : ∀ a b c, le a b → le b c → le a c)
    (total : ∀ a b, le a b || le b a)
    (antisymm : ∀ a b, a ∈ l₁ → b ∈ l₁ → le a b → le b a → a = b)
    (hp : l₁.Perm l₂) : l₁.mergeSort le = l₂.mergeSort le := by
  apply List.Perm.eq_of_pairwise (le := fun a b => le a b = true)
  · intro a b ha hb hab hba
    have ha' : a ∈ l₁ := (List.mergeSort_perm l₁ le).subset ha
    have hb' : b ∈ l₁ := hp.symm.subset ((List.mergeSort_perm l₂ le).subset hb)
    exact antisymm a b ha' hb' hab hba
  · exact List.pairwise_mergeSort (le := le) trans total l₁
  · exact List.pairwise_mergeSort (le := le) trans total l₂
  · exact ((List.mergeSort_perm l₁ le).trans hp).trans (List.mergeSort_perm l₂ le).symm

end Bxh
