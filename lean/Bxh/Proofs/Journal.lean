import Bxh.Proofs.ExecLemmas
/-!
# The transaction journal is faithful

Every write of the modelled contracts goes through `Led.setS` / `Led.addS` / `Led.setBal`
(journaled) or `Led.post` (events, not journaled).  `Steps l l'` says that `l'` is reached from
`l` by such writes only; `Steps.faithful` shows that undoing the whole journal of `l'` then gives
back the storage and balances that undoing the journal of `l` gives.  With the per-function
`…_steps` lemmas this yields: `RevertToSnapshot` of the snapshot taken at the start of a
transaction restores exactly the state in which the transaction started.
-/
namespace Bxh.Exec
open Bxh

theorem KV.get_erase {α β : Type} [DecidableEq α] (m : KV α β) (k k' : α) :
    KV.get (KV.erase m k) k' = if k = k' then none else KV.get m k' := by
  by_cases h : k = k'
  · subst h; simp [KV.get_erase_eq]
  · simp [h, KV.get_erase_ne m k k' h]

/-- extensional equality of storage and balances (journal and events are not compared) -/
def Led.same (a b : Led) : Prop := (∀ k, a.getS k = b.getS k) ∧ (∀ x, a.getBal x = b.getBal x)

theorem Led.same_refl (a : Led) : a.same a := ⟨fun _ => rfl, fun _ => rfl⟩
theorem Led.same_symm {a b : Led} (h : a.same b) : b.same a := ⟨fun k => (h.1 k).symm, fun x => (h.2 x).symm⟩
theorem Led.same_trans {a b c : Led} (h1 : a.same b) (h2 : b.same c) : a.same c :=
  ⟨fun k => (h1.1 k).trans (h2.1 k), fun x => (h1.2 x).trans (h2.2 x)⟩

theorem getBal_set (bal : KV String Int) (st : KV Key Val) (j : List Change) (ev : List Ev) (a x : String) (v : Int) :
    Led.getBal { store := st, bal := KV.set bal a v, journal := j, events := ev } x
      = if a = x then v else Led.getBal { store := st, bal := bal, journal := j, events := ev } x := by
  simp only [Led.getBal, KV.getD, KV.get_set]
  split <;> simp

theorem undo1_same (a b : Led) (c : Change) (h : a.same b) : (a.undo1 c).same (b.undo1 c) := by
  obtain ⟨hs, hb⟩ := h
  cases c with
  | storage k prev =>
    cases prev with
    | none =>
      refine ⟨fun k' => ?_, fun x => hb x⟩
      have := hs k'
      simp only [Led.undo1, Led.getS, KV.get_erase] at *
      split <;> simp_all
    | some v =>
      refine ⟨fun k' => ?_, fun x => hb x⟩
      have := hs k'
      simp only [Led.undo1, Led.getS, KV.get_set] at *
      split <;> simp_all
  | balance acc v =>
    refine ⟨fun k' => hs k', fun x => ?_⟩
    have := hb x
    cases a; cases b
    simp only [Led.undo1, getBal_set] at *
    split <;> simp_all

theorem foldl_undo_same (j : List Change) (a b : Led) (h : a.same b) :
    (j.foldl Led.undo1 a).same (j.foldl Led.undo1 b) := by
  induction j generalizing a b with
  | nil => exact h
  | cons c rest ih => exact ih _ _ (undo1_same a b c h)

/-- undo the whole journal (`RevertToSnapshot(0)` on a ledger whose journal started empty) -/
def Led.undoAll (l : Led) : Led := l.journal.foldl Led.undo1 { l with journal := [] }

theorem revert_zero (l : Led) : l.revert 0 = l.undoAll := by
  unfold Led.revert Led.undoAll
  simp

/-- `l`'s journal leads back to the content of `base` -/
def Faithful (base l : Led) : Prop := l.undoAll.same base

theorem faithful_self (l : Led) (h : l.journal = []) : Faithful l l := by
  unfold Faithful Led.undoAll
  rw [h]
  exact ⟨fun _ => rfl, fun _ => rfl⟩

theorem faithful_setS {base l : Led} (k : Key) (v : Option Val) (h : Faithful base l) :
    Faithful base (l.setS k v) := by
  unfold Faithful at *
  refine Led.same_trans ?_ h
  unfold Led.undoAll
  show ((Change.storage k (KV.get l.store k) :: l.journal).foldl Led.undo1 _).same _
  rw [List.foldl_cons]
  apply foldl_undo_same
  refine ⟨fun k' => ?_, fun x => ?_⟩
  · cases hp : KV.get l.store k <;> cases v <;>
      simp only [Led.undo1, Led.setS, Led.getS, KV.get_set, KV.get_erase] <;>
      (split <;> simp_all)
  · cases hp : KV.get l.store k <;> rfl

theorem faithful_setBal {base l : Led} (a : String) (v : Int) (h : Faithful base l) :
    Faithful base (l.setBal a v) := by
  unfold Faithful at *
  refine Led.same_trans ?_ h
  unfold Led.undoAll
  show ((Change.balance a (l.getBal a) :: l.journal).foldl Led.undo1 _).same _
  rw [List.foldl_cons]
  apply foldl_undo_same
  refine ⟨fun k' => rfl, fun x => ?_⟩
  cases l
  simp only [Led.undo1, Led.setBal, getBal_set]
  split
  · subst_vars; rfl
  · rfl

theorem faithful_post {base l : Led} (e : Ev) (h : Faithful base l) : Faithful base (l.post e) := by
  unfold Faithful at *
  refine Led.same_trans ?_ h
  unfold Led.undoAll
  exact foldl_undo_same _ _ _ ⟨fun _ => rfl, fun _ => rfl⟩

/-- reachability by journaled writes and event posts only -/
inductive Steps : Led → Led → Prop
  | refl (l : Led) : Steps l l
  | setS {l l' : Led} (k : Key) (v : Option Val) : Steps l l' → Steps l (l'.setS k v)
  | setBal {l l' : Led} (a : String) (v : Int) : Steps l l' → Steps l (l'.setBal a v)
  | post {l l' : Led} (e : Ev) : Steps l l' → Steps l (l'.post e)

theorem Steps.trans {a b c : Led} (h1 : Steps a b) (h2 : Steps b c) : Steps a c := by
  induction h2 with
  | refl => exact h1
  | setS k v _ ih => exact Steps.setS k v ih
  | setBal x v _ ih => exact Steps.setBal x v ih
  | post e _ ih => exact Steps.post e ih

theorem Steps.faithful {base l l' : Led} (h : Steps l l') (hf : Faithful base l) : Faithful base l' := by
  induction h with
  | refl => exact hf
  | setS k v _ ih => exact faithful_setS k v ih
  | setBal x v _ ih => exact faithful_setBal x v ih
  | post e _ ih => exact faithful_post e ih

theorem Steps.addS {l l' : Led} (k : Key) (v : Val) (h : Steps l l') : Steps l (l'.addS k v) := Steps.setS k (some v) h
theorem Steps.setIC {l l' : Led} (s : SvcId) (i : IC) (h : Steps l l') : Steps l (setIC l' s i) := Steps.setS _ _ h

/-- events only grow along `Steps` -/
theorem Steps.events_prefix {l l' : Led} (h : Steps l l') : ∃ es, l'.events = l.events ++ es := by
  induction h with
  | refl => exact ⟨[], by simp⟩
  | setS k v _ ih => exact ih
  | setBal x v _ ih => exact ih
  | post e _ ih => obtain ⟨es, he⟩ := ih; exact ⟨es ++ [e], by simp [Led.post, he]⟩

syntax "steps_tac" : tactic
macro_rules
  | `(tactic| steps_tac) => `(tactic| repeat (first
      | exact Steps.refl _ | assumption | apply Steps.setS | apply Steps.setBal | apply Steps.post
      | apply Steps.addS | apply Steps.setIC))

end Bxh.Exec
