import Bxh.Model.Mempool
/-!
# The batch-building loop of the pool: no pointer twice, no nonce gap

Invariant of `genStep` / `drainSkipped` over the whole `Ascend` iteration of `generateBlock`:
a pointer is appended only if it was not batched before, and only if it carries the account's
committed nonce or its predecessor nonce is batched.
-/
namespace Bxh.Mempool
open Bxh

theorem mem_setIns {α : Type} [DecidableEq α] (l : List α) (x y : α) : y ∈ setIns l x ↔ y ∈ l ∨ y = x := by
  unfold setIns
  split
  · rename_i h
    constructor
    · exact Or.inl
    · rintro (h1 | h1)
      · exact h1
      · subst h1; exact h
  · simp [List.mem_append]

/-- the committed nonce the pool works with (cached value, else the ledger's) -/
def cn (p : Pool) (a : String) : Nat :=
  match KV.get p.commitN a with
  | some n => n
  | none => KV.getD p.ledger a 0

theorem getCommit_val (p : Pool) (a : String) : (getCommit p a).2 = cn p a := by
  unfold getCommit cn
  split <;> simp_all

theorem getCommit_batched (p : Pool) (a : String) : (getCommit p a).1.batched = p.batched := by
  unfold getCommit; split <;> rfl

theorem getCommit_cn (p : Pool) (a b : String) : cn (getCommit p a).1 b = cn p b := by
  unfold getCommit
  split
  · rfl
  · rename_i hnone
    unfold cn
    simp only [KV.get_set]
    by_cases hab : a = b
    · subst hab; simp [hnone]
    · simp [hab]

/-- invariant of the iteration, relative to the pool `p0` the iteration started from -/
structure BInv (p0 : Pool) (acc : GenAcc) : Prop where
  fresh : ∀ ptr ∈ acc.result, ptr ∈ acc.pool.batched ∧ ptr ∉ p0.batched
  nodup : acc.result.Nodup
  grown : ∀ x, x ∈ acc.pool.batched ↔ (x ∈ p0.batched ∨ x ∈ acc.result)
  gapfree : ∀ ptr ∈ acc.result, ptr.2 = cn p0 ptr.1 ∨ (1 ≤ ptr.2 ∧ (ptr.1, ptr.2 - 1) ∈ acc.pool.batched)
  skipPred : ∀ ptr ∈ acc.skipped, ptr ∈ acc.pool.batched → (1 ≤ ptr.2 ∧ (ptr.1, ptr.2 - 1) ∈ acc.pool.batched)
  skipNotCn : ∀ ptr ∈ acc.skipped, ptr.2 ≠ cn p0 ptr.1
  cnSame : ∀ a, cn acc.pool a = cn p0 a

theorem binv_init (p : Pool) : BInv p { pool := p } :=
  { fresh := by intro _ h; cases h
    nodup := List.nodup_nil
    grown := by intro x; simp
    gapfree := by intro _ h; cases h
    skipPred := by intro _ h; cases h
    skipNotCn := by intro _ h; cases h
    cnSame := fun _ => rfl }

theorem addPtr_binv (p0 : Pool) (limit : Nat) (acc : GenAcc) (ptr : Ptr) (h : BInv p0 acc)
    (hnb : ptr ∉ acc.pool.batched)
    (hel : ptr.2 = cn p0 ptr.1 ∨ (1 ≤ ptr.2 ∧ (ptr.1, ptr.2 - 1) ∈ acc.pool.batched)) :
    BInv p0 (addPtr limit acc ptr) := by
  have hb : ∀ x, x ∈ (addPtr limit acc ptr).pool.batched ↔ x ∈ acc.pool.batched ∨ x = ptr := by
    intro x; unfold addPtr; simp only; exact mem_setIns _ _ _
  have hr : (addPtr limit acc ptr).result = acc.result ++ [ptr] := rfl
  have hsk : (addPtr limit acc ptr).skipped = acc.skipped := rfl
  have hp0 : ptr ∉ p0.batched := fun hh => hnb ((h.grown ptr).mpr (Or.inl hh))
  have hnr : ptr ∉ acc.result := fun hh => hnb ((h.grown ptr).mpr (Or.inr hh))
  refine ⟨?_, ?_, ?_, ?_, ?_, ?_, ?_⟩
  · intro x hx
    rw [hr, List.mem_append, List.mem_singleton] at hx
    rcases hx with hx | hx
    · exact ⟨(hb x).mpr (Or.inl (h.fresh x hx).1), (h.fresh x hx).2⟩
    · subst hx; exact ⟨(hb x).mpr (Or.inr rfl), hp0⟩
  · rw [hr]
    exact List.nodup_append.mpr ⟨h.nodup, (by simp), by
      intro a ha b hb'; rw [List.mem_singleton] at hb'; subst hb'; intro hab; subst hab; exact hnr ha⟩
  · intro x
    rw [hb x, h.grown x, hr, List.mem_append, List.mem_singleton]
    constructor
    · rintro ((h1 | h1) | h1)
      · exact Or.inl h1
      · exact Or.inr (Or.inl h1)
      · exact Or.inr (Or.inr h1)
    · rintro (h1 | h1 | h1)
      · exact Or.inl (Or.inl h1)
      · exact Or.inl (Or.inr h1)
      · exact Or.inr h1
  · intro x hx
    rw [hr, List.mem_append, List.mem_singleton] at hx
    rcases hx with hx | hx
    · rcases h.gapfree x hx with h1 | ⟨h1, h2⟩
      · exact Or.inl h1
      · exact Or.inr ⟨h1, (hb _).mpr (Or.inl h2)⟩
    · subst hx
      rcases hel with h1 | ⟨h1, h2⟩
      · exact Or.inl h1
      · exact Or.inr ⟨h1, (hb _).mpr (Or.inl h2)⟩
  · intro x hx hxb
    rw [hsk] at hx
    rcases (hb x).mp hxb with h1 | h1
    · obtain ⟨h2, h3⟩ := h.skipPred x hx h1
      exact ⟨h2, (hb _).mpr (Or.inl h3)⟩
    · subst h1
      rcases hel with h2 | ⟨h2, h3⟩
      · exact absurd h2 (h.skipNotCn x hx)
      · exact ⟨h2, (hb _).mpr (Or.inl h3)⟩
  · intro x hx; rw [hsk] at hx; exact h.skipNotCn x hx
  · intro a; exact h.cnSame a

/-- the drain of skipped successors: `(a, n)` was just batched, `(a, n + 1)` is considered next -/
theorem drain_binv (p0 : Pool) (limit : Nat) : ∀ (fuel : Nat) (acc : GenAcc) (a : String) (n : Nat),
    BInv p0 acc → (a, n) ∈ acc.pool.batched → ((a, n + 1) ∈ acc.skipped → (a, n + 1) ∉ acc.pool.batched) →
    BInv p0 (drainSkipped limit fuel acc (a, n + 1))
  | 0, acc, _, _, h, _, _ => h
  | fuel+1, acc, a, n, h, hprev, hnext => by
    unfold drainSkipped
    split
    · rename_i hsk
      have hnb := hnext hsk
      have h1 : BInv p0 (addPtr limit acc (a, n + 1)) :=
        addPtr_binv p0 limit acc (a, n + 1) h hnb (Or.inr ⟨by simp, by simpa using hprev⟩)
      simp only
      split
      · exact h1
      · apply drain_binv p0 limit fuel _ a (n + 1) h1
        · unfold addPtr; simp only; exact (mem_setIns _ _ _).mpr (Or.inr rfl)
        · intro hs2 hb2
          -- (a, n+2) skipped and batched after the add: it was batched before, so (a, n+1) was too
          have hs2' : (a, n + 1 + 1) ∈ acc.skipped := hs2
          have : (a, n + 1 + 1) ∈ acc.pool.batched := by
            have := (mem_setIns acc.pool.batched (a, n + 1) (a, n + 1 + 1)).mp (by unfold addPtr at hb2; exact hb2)
            rcases this with h2 | h2
            · exact h2
            · have : n + 1 + 1 = n + 1 := (Prod.mk.inj h2).2
              omega
          obtain ⟨_, h3⟩ := h.skipPred _ hs2' this
          exact hnb (by simpa using h3)
    · exact h

theorem genStep_binv (p0 : Pool) (limit : Nat) (acc : GenAcc) (k : Int × String × Nat) (h : BInv p0 acc) :
    BInv p0 (genStep limit acc k) := by
  unfold genStep
  split
  · exact h
  · split
    · exact h
    · rename_i hnb
      simp only
      -- the commit-nonce lookup only fills the cache
      have hb' : (getCommit acc.pool k.2.1).1.batched = acc.pool.batched := getCommit_batched _ _
      have h0 : BInv p0 { acc with pool := (getCommit acc.pool k.2.1).1 } :=
        { fresh := by intro x hx; have := h.fresh x hx; exact ⟨by show x ∈ (getCommit acc.pool k.2.1).1.batched; rw [hb']; exact this.1, this.2⟩
          nodup := h.nodup
          grown := by intro x; show x ∈ (getCommit acc.pool k.2.1).1.batched ↔ _; rw [hb']; exact h.grown x
          gapfree := by
            intro x hx
            rcases h.gapfree x hx with h1 | ⟨h1, h2⟩
            · exact Or.inl h1
            · exact Or.inr ⟨h1, by show _ ∈ (getCommit acc.pool k.2.1).1.batched; rw [hb']; exact h2⟩
          skipPred := by
            intro x hx hxb
            have hxb' : x ∈ acc.pool.batched := by rw [← hb']; exact hxb
            obtain ⟨h1, h2⟩ := h.skipPred x hx hxb'
            exact ⟨h1, by show _ ∈ (getCommit acc.pool k.2.1).1.batched; rw [hb']; exact h2⟩
          skipNotCn := h.skipNotCn
          cnSame := by intro a; show cn (getCommit acc.pool k.2.1).1 a = _; rw [getCommit_cn]; exact h.cnSame a }
      have hcnv : (getCommit acc.pool k.2.1).2 = cn p0 k.2.1 := by rw [getCommit_val]; exact h.cnSame _
      split
      · rename_i hel
        have hnb0 : (k.2.1, k.2.2) ∉ (getCommit acc.pool k.2.1).1.batched := by rw [hb']; exact hnb
        have hel' : k.2.2 = cn p0 k.2.1 ∨ (1 ≤ k.2.2 ∧ (k.2.1, k.2.2 - 1) ∈ (getCommit acc.pool k.2.1).1.batched) := by
          unfold eligible at hel
          simp only [Bool.or_eq_true, Bool.and_eq_true, decide_eq_true_eq, beq_iff_eq, ge_iff_le] at hel
          rcases hel with ⟨h1, h2⟩ | h1
          · exact Or.inr ⟨h1, h2⟩
          · exact Or.inl (by rw [← hcnv]; exact h1)
        have h1 : BInv p0 (addPtr limit { acc with pool := (getCommit acc.pool k.2.1).1 } (k.2.1, k.2.2)) :=
          addPtr_binv p0 limit _ _ h0 hnb0 hel'
        split
        · exact h1
        · apply drain_binv p0 limit _ _ k.2.1 k.2.2 h1
          · unfold addPtr; simp only; exact (mem_setIns _ _ _).mpr (Or.inr rfl)
          · intro hs2 hb2
            have hs2' : (k.2.1, k.2.2 + 1) ∈ acc.skipped := hs2
            have : (k.2.1, k.2.2 + 1) ∈ acc.pool.batched := by
              have := (mem_setIns (getCommit acc.pool k.2.1).1.batched (k.2.1, k.2.2) (k.2.1, k.2.2 + 1)).mp (by unfold addPtr at hb2; exact hb2)
              rcases this with h2 | h2
              · rw [hb'] at h2; exact h2
              · have : k.2.2 + 1 = k.2.2 := (Prod.mk.inj h2).2
                omega
            obtain ⟨_, h3⟩ := h.skipPred _ hs2' this
            exact hnb (by simpa using h3)
      · rename_i hnel
        have hne : k.2.2 ≠ cn p0 k.2.1 := by
          intro heq
          apply hnel
          unfold eligible
          simp only [Bool.or_eq_true, beq_iff_eq]
          exact Or.inr (by rw [hcnv]; exact heq)
        exact
          { fresh := h0.fresh
            nodup := h0.nodup
            grown := h0.grown
            gapfree := h0.gapfree
            skipPred := by
              intro x hx hxb
              rcases (mem_setIns _ _ _).mp hx with h1 | h1
              · exact h0.skipPred x h1 hxb
              · subst h1
                exact absurd (by rw [← hb']; exact hxb) hnb
            skipNotCn := by
              intro x hx
              rcases (mem_setIns _ _ _).mp hx with h1 | h1
              · exact h0.skipNotCn x h1
              · subst h1; exact hne
            cnSame := h0.cnSame }

theorem fold_binv (p0 : Pool) (limit : Nat) (ks : List (Int × String × Nat)) (acc : GenAcc) (h : BInv p0 acc) :
    BInv p0 (ks.foldl (genStep limit) acc) := by
  induction ks generalizing acc with
  | nil => exact h
  | cons k rest ih => exact ih _ (genStep_binv p0 limit acc k h)

end Bxh.Mempool
