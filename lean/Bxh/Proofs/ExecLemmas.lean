import Bxh.Model.Exec
namespace Bxh.Exec
open Bxh

@[simp] theorem setBal_store (l : Led) (a : String) (v : Int) : (l.setBal a v).store = l.store := rfl
@[simp] theorem setBal_events (l : Led) (a : String) (v : Int) : (l.setBal a v).events = l.events := rfl
@[simp] theorem finalise_store (l : Led) : l.finalise.store = l.store := rfl
@[simp] theorem finalise_bal (l : Led) : l.finalise.bal = l.bal := rfl

theorem foldl_setBal_store (g : Led → String → Int) (as : List String) (l : Led) :
    (as.foldl (fun l a => l.setBal a (g l a)) l).store = l.store := by
  induction as generalizing l with
  | nil => rfl
  | cons a rest ih => simp only [List.foldl_cons]; rw [ih]; rfl

theorem foldl_setBal_events (g : Led → String → Int) (as : List String) (l : Led) :
    (as.foldl (fun l a => l.setBal a (g l a)) l).events = l.events := by
  induction as generalizing l with
  | nil => rfl
  | cons a rest ih => simp only [List.foldl_cons]; rw [ih]; rfl

theorem payAdmins_store (cfg : Cfg) (l : Led) (f : Int) : (payAdmins cfg l f).store = l.store := by
  unfold payAdmins
  exact foldl_setBal_store (fun l a => l.getBal a + f / (cfg.admins.length : Int)) cfg.admins l

theorem payAdmins_events (cfg : Cfg) (l : Led) (f : Int) : (payAdmins cfg l f).events = l.events := by
  unfold payAdmins
  exact foldl_setBal_events (fun l a => l.getBal a + f / (cfg.admins.length : Int)) cfg.admins l

theorem payGasFee_store (cfg : Cfg) (l l' : Led) (s : String) (g : Nat) (h : payGasFee cfg l s g = some l') :
    l'.store = l.store := by
  unfold payGasFee at h
  simp only at h
  split at h
  · cases h
  · cases h; rw [payAdmins_store]; rfl

theorem payGasFee_events (cfg : Cfg) (l l' : Led) (s : String) (g : Nat) (h : payGasFee cfg l s g = some l') :
    l'.events = l.events := by
  unfold payGasFee at h
  simp only at h
  split at h
  · cases h
  · cases h; rw [payAdmins_events]; rfl

theorem payLeft_store (cfg : Cfg) (l : Led) (s : String) : (payLeftAsGasFee cfg l s).store = l.store := by
  unfold payLeftAsGasFee; simp only; rw [payAdmins_store]; rfl

theorem payLeft_events (cfg : Cfg) (l : Led) (s : String) : (payLeftAsGasFee cfg l s).events = l.events := by
  unfold payLeftAsGasFee; simp only; rw [payAdmins_events]; rfl

/-- reverting a ledger whose journal is empty changes nothing -/
theorem revert_nil (l : Led) (n : Nat) (h : l.journal = []) : l.revert n = l := by
  unfold Led.revert
  simp [h]
  cases l; simp_all

theorem checkIndex_ok_iff (exp cur : Nat) : checkIndex exp cur = .ok () ↔ cur = exp := by
  unfold checkIndex
  constructor
  · intro h
    split at h
    · cases h
    · split at h
      · cases h
      · omega
  · intro h; subst h; simp

end Bxh.Exec
