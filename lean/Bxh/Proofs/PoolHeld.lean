import Bxh.Proofs.PoolBatch
/-!
# Which operation of the pool can make a held transaction's hash disappear

`hashMap` is what `GetTransaction` answers from.  Building batches never touches it; admission removes a hash only
when a later transaction takes the same (account, nonce); eviction only for its victims; a commit only for the hashes
it names.
-/
namespace Bxh.Mempool
open Bxh

theorem getCommit_hashMap (p : Pool) (a : String) : (getCommit p a).1.hashMap = p.hashMap ∧ (getCommit p a).1.items = p.items := by
  unfold getCommit; split <;> exact ⟨rfl, rfl⟩

theorem getPending_hashMap (p : Pool) (a : String) : (getPending p a).1.hashMap = p.hashMap ∧ (getPending p a).1.items = p.items := by
  unfold getPending; split
  · exact ⟨rfl, rfl⟩
  · exact getCommit_hashMap p a

theorem addPtr_hashMap (limit : Nat) (acc : GenAcc) (ptr : Ptr) :
    (addPtr limit acc ptr).pool.hashMap = acc.pool.hashMap ∧ (addPtr limit acc ptr).pool.items = acc.pool.items := ⟨rfl, rfl⟩

theorem drain_hashMap (limit : Nat) : ∀ (fuel : Nat) (acc : GenAcc) (ptr : Ptr),
    (drainSkipped limit fuel acc ptr).pool.hashMap = acc.pool.hashMap ∧ (drainSkipped limit fuel acc ptr).pool.items = acc.pool.items
  | 0, _, _ => ⟨rfl, rfl⟩
  | fuel+1, acc, ptr => by
    unfold drainSkipped
    split
    · simp only
      split
      · exact addPtr_hashMap limit acc ptr
      · have := drain_hashMap limit fuel (addPtr limit acc ptr) (ptr.1, ptr.2 + 1)
        exact ⟨this.1.trans (addPtr_hashMap limit acc ptr).1, this.2.trans (addPtr_hashMap limit acc ptr).2⟩
    · exact ⟨rfl, rfl⟩

theorem genStep_hashMap (limit : Nat) (acc : GenAcc) (k : Int × String × Nat) :
    (genStep limit acc k).pool.hashMap = acc.pool.hashMap ∧ (genStep limit acc k).pool.items = acc.pool.items := by
  unfold genStep
  split
  · exact ⟨rfl, rfl⟩
  · split
    · exact ⟨rfl, rfl⟩
    · simp only
      have hc := getCommit_hashMap acc.pool k.2.1
      split
      · split
        · exact ⟨hc.1, hc.2⟩
        · have := drain_hashMap limit ((addPtr limit { acc with pool := (getCommit acc.pool k.2.1).1 } (k.2.1, k.2.2)).skipped.length + 1)
            (addPtr limit { acc with pool := (getCommit acc.pool k.2.1).1 } (k.2.1, k.2.2)) (k.2.1, k.2.2 + 1)
          exact ⟨this.1.trans hc.1, this.2.trans hc.2⟩
      · exact ⟨hc.1, hc.2⟩

theorem genFold_hashMap (limit : Nat) (ks : List (Int × String × Nat)) (acc : GenAcc) :
    (ks.foldl (genStep limit) acc).pool.hashMap = acc.pool.hashMap ∧ (ks.foldl (genStep limit) acc).pool.items = acc.pool.items := by
  induction ks generalizing acc with
  | nil => exact ⟨rfl, rfl⟩
  | cons k rest ih =>
    simp only [List.foldl_cons]
    have h1 := ih (genStep limit acc k)
    have h2 := genStep_hashMap limit acc k
    exact ⟨h1.1.trans h2.1, h1.2.trans h2.2⟩

/-- building a batch neither forgets nor alters a held transaction -/
theorem generateBlock_hashMap (p : Pool) :
    (generateBlock p).1.hashMap = p.hashMap ∧ (generateBlock p).1.items = p.items := by
  unfold generateBlock
  simp only
  generalize (if p.nonBatch > p.batchSize then p.batchSize else p.nonBatch) = limit
  have h := genFold_hashMap limit (sortPrio p.priority) { pool := p }
  split
  · exact ⟨h.1, h.2⟩
  · exact ⟨h.1, h.2⟩

theorem generate_hashMap (p : Pool) : (generate p).1.hashMap = p.hashMap ∧ (generate p).1.items = p.items := by
  unfold generate
  split
  · exact ⟨rfl, rfl⟩
  · exact generateBlock_hashMap p

-- the same chain for the batch sequence number
theorem getCommit_seqNo (p : Pool) (a : String) : (getCommit p a).1.seqNo = p.seqNo := by
  unfold getCommit; split <;> rfl

theorem drain_seqNo (limit : Nat) : ∀ (fuel : Nat) (acc : GenAcc) (ptr : Ptr),
    (drainSkipped limit fuel acc ptr).pool.seqNo = acc.pool.seqNo
  | 0, _, _ => rfl
  | fuel+1, acc, ptr => by
    unfold drainSkipped
    split
    · simp only
      split
      · rfl
      · exact (drain_seqNo limit fuel (addPtr limit acc ptr) (ptr.1, ptr.2 + 1)).trans rfl
    · rfl

theorem genStep_seqNo (limit : Nat) (acc : GenAcc) (k : Int × String × Nat) :
    (genStep limit acc k).pool.seqNo = acc.pool.seqNo := by
  unfold genStep
  split
  · rfl
  · split
    · rfl
    · simp only
      have hc := getCommit_seqNo acc.pool k.2.1
      split
      · split
        · exact hc
        · exact (drain_seqNo limit _ _ _).trans hc
      · exact hc

theorem genFold_seqNo (limit : Nat) (ks : List (Int × String × Nat)) (acc : GenAcc) :
    (ks.foldl (genStep limit) acc).pool.seqNo = acc.pool.seqNo := by
  induction ks generalizing acc with
  | nil => rfl
  | cons k rest ih => simp only [List.foldl_cons]; exact (ih _).trans (genStep_seqNo limit acc k)

/-- a batch takes the next sequence number; without a batch the number stays -/
theorem generateBlock_seqNo (p : Pool) :
    (∀ p' b, generateBlock p = (p', some b) → p'.seqNo = p.seqNo + 1 ∧ b.height = p.seqNo + 1) ∧
    (∀ p', generateBlock p = (p', none) → p'.seqNo = p.seqNo) := by
  unfold generateBlock
  simp only
  generalize (if p.nonBatch > p.batchSize then p.batchSize else p.nonBatch) = limit
  have h := genFold_seqNo limit (sortPrio p.priority) { pool := p }
  constructor
  · intro p' b hb
    split at hb
    · cases hb
    · injection hb with h1 h2
      injection h2 with h2
      subst h1; subst h2
      exact ⟨by simp only [h], by simp only [h]⟩
  · intro p' hb
    split at hb
    · injection hb with h1 _
      subst h1
      exact h
    · cases hb

def evictOne (p : Pool) (tx : TxR) : Pool :=
  { p with nidx := setDel p.nidx (tx.acct, tx.nonce), items := KV.erase p.items (tx.acct, tx.nonce),
           priority := setDel p.priority (tx.ts, tx.acct, tx.nonce), parking := setDel p.parking (tx.acct, tx.nonce),
           arrival := KV.erase p.arrival (tx.acct, tx.nonce) }

theorem evictFold_hashMap (vs : List TxR) (p0 : Pool) : (vs.foldl evictOne p0).hashMap = p0.hashMap := by
  induction vs generalizing p0 with
  | nil => rfl
  | cons v rest ih => simp only [List.foldl_cons]; rw [ih]; rfl

theorem eraseFold_get (h : String) (ptr : Ptr) (vs : List TxR) (m : KV String Ptr) (hm : KV.get m h = some ptr) :
    KV.get (vs.foldl (fun m tx => KV.erase m tx.hash) m) h = some ptr ∨ ∃ v ∈ vs, v.hash = h := by
  induction vs generalizing m with
  | nil => exact Or.inl hm
  | cons v rest ih =>
    simp only [List.foldl_cons]
    by_cases hvh : v.hash = h
    · exact Or.inr ⟨v, List.mem_cons_self .., hvh⟩
    · rcases ih (KV.erase m v.hash) (by rw [KV.get_erase_ne _ _ _ hvh]; exact hm) with h1 | ⟨w, hw, hwh⟩
      · exact Or.inl h1
      · exact Or.inr ⟨w, List.mem_cons_of_mem _ hw, hwh⟩

/-- eviction forgets only the hashes of transactions it held under a parked pointer -/
theorem evict_hashMap (p : Pool) (cut : Nat) (h : String) (ptr : Ptr) (hh : KV.get p.hashMap h = some ptr) :
    KV.get (evict p cut).1.hashMap h = some ptr ∨
      ∃ pt tx, KV.get p.items pt = some tx ∧ tx.hash = h ∧ pt ∈ p.parking ∧ pt ∉ p.batched := by
  unfold evict
  simp only
  generalize hv : (List.filterMap _ _ : List TxR) = victims
  change KV.get (victims.foldl evictOne _).hashMap h = some ptr ∨ _
  rw [evictFold_hashMap]
  rcases eraseFold_get h ptr victims p.hashMap hh with h1 | ⟨v, hv', hvh⟩
  · exact Or.inl h1
  · right
    rw [← hv] at hv'
    obtain ⟨pt, _, hf⟩ := List.mem_filterMap.mp hv'
    cases hi : KV.get p.items pt with
    | none => simp [hi] at hf
    | some t =>
      simp only [hi] at hf
      split at hf
      · cases hf
      · split at hf
        · cases hf
        · split at hf
          · cases hf; exact ⟨pt, v, hi, hvh, by assumption, by assumption⟩
          · cases hf

theorem foldl_inv {α β : Type} (P : β → Prop) (f : β → α → β) (l : List α) (b : β) (h0 : P b)
    (hs : ∀ b x, x ∈ l → P b → P (f b x)) : P (l.foldl f b) := by
  induction l generalizing b with
  | nil => exact h0
  | cons x rest ih =>
    simp only [List.foldl_cons]
    exact ih (f b x) (hs b x (List.mem_cons_self ..) h0) (fun b y hy hb => hs b y (List.mem_cons_of_mem _ hy) hb)

theorem dropTxs_hashMap (p : Pool) (txs : List TxR) : (dropTxs p txs).hashMap = p.hashMap := by
  unfold dropTxs
  apply foldl_inv (fun q : Pool => q.hashMap = p.hashMap)
  · rfl
  · intro b x _ hb; exact hb

/-- a commit forgets only hashes it was given -/
theorem commit_hashMap (p : Pool) (hashes : List String) (h : String) (ptr : Ptr) (hh : KV.get p.hashMap h = some ptr) :
    KV.get (commit p hashes).hashMap h = some ptr ∨ h ∈ hashes := by
  by_cases hin : h ∈ hashes
  · exact Or.inr hin
  left
  unfold commit
  simp only
  have h1 := foldl_inv (fun (acc : Pool × KV String Nat × List String) => KV.get acc.1.hashMap h = some ptr)
    (fun (acc : Pool × KV String Nat × List String) h =>
      match KV.get acc.1.hashMap h with
      | none => acc
      | some ptr =>
        let (p1, pre) := getCommit acc.1 ptr.1
        let nw := ptr.2 + 1
        let upd := if KV.getD acc.2.1 ptr.1 0 < nw && pre < nw then KV.set acc.2.1 ptr.1 nw else acc.2.1
        ({ p1 with hashMap := KV.erase p1.hashMap h, batched := setDel p1.batched ptr }, upd,
         if ptr.1 ∈ acc.2.2 then acc.2.2 else acc.2.2 ++ [ptr.1])) hashes (p, [], []) hh
    (by
      intro b x hx hb
      simp only
      split
      · exact hb
      · simp only
        rw [KV.get_erase_ne _ _ _ (by intro e; subst e; exact hin hx), (getCommit_hashMap _ _).1]
        exact hb)
  generalize (List.foldl _ (p, ([] : KV String Nat), ([] : List String)) hashes) = r at h1 ⊢
  have h2 := foldl_inv (fun (q : Pool) => KV.get q.hashMap h = some ptr)
    (fun p a =>
      let (p', cn) := getCommit p a
      let gone := ((noncesOf p' a).filter (· < cn)).filterMap (fun n => KV.get p'.items (a, n))
      let p'' := { p' with items := gone.foldl (fun m tx => KV.erase m (tx.acct, tx.nonce)) p'.items }
      dropTxs p'' gone) r.2.2
    { r.1 with commitN := r.2.1.foldl (fun m kv => KV.set m kv.1 kv.2) r.1.commitN } h1
    (by
      intro b x _ hb
      simp only
      rw [dropTxs_hashMap]
      simp only [(getCommit_hashMap _ _).1]
      exact hb)
  split
  · exact h2
  · exact h2

theorem processDirty_hashMap (p : Pool) (a : String) :
    (processDirty p a).hashMap = p.hashMap ∧ (processDirty p a).items = p.items := by
  unfold processDirty
  exact ⟨(getPending_hashMap p a).1, (getPending_hashMap p a).2⟩

def ptrOf (t : TxR) : Ptr := (t.acct, t.nonce)

/-- what the admission loop guarantees about the transactions it lets through -/
theorem admission_facts (p : Pool) (txs : List TxR) :
    (admission p txs).1.hashMap = p.hashMap ∧ (admission p txs).1.items = p.items ∧
    (∀ v ∈ (admission p txs).2, v ∈ txs ∧ KV.get p.hashMap v.hash = none) ∧
    (admission p txs).2.Pairwise (fun a b => ptrOf a ≠ ptrOf b) := by
  unfold admission
  simp only
  have := foldl_inv (fun (acc : Pool × List TxR × List Ptr) =>
      acc.1.hashMap = p.hashMap ∧ acc.1.items = p.items ∧
      (∀ v ∈ acc.2.1, v ∈ txs ∧ KV.get p.hashMap v.hash = none ∧ ptrOf v ∈ acc.2.2) ∧
      acc.2.1.Pairwise (fun a b => ptrOf a ≠ ptrOf b))
    (fun (acc : Pool × List TxR × List Ptr) tx =>
      let (p1, cur) := getPending acc.1 tx.acct
      if tx.nonce < cur then (p1, acc.2.1, acc.2.2)
      else if (tx.acct, tx.nonce) ∈ acc.2.2 then (p1, acc.2.1, acc.2.2)
      else
        let seen := acc.2.2 ++ [(tx.acct, tx.nonce)]
        if (KV.get p1.hashMap tx.hash).isSome then (p1, acc.2.1, seen)
        else (p1, acc.2.1 ++ [tx], seen)) txs (p, [], [])
    ⟨rfl, rfl, by simp, List.Pairwise.nil⟩
    (by
      intro b x hx ⟨hb1, hb2, hb3, hb4⟩
      have g1 := (getPending_hashMap b.1 x.acct).1.trans hb1
      have g2 := (getPending_hashMap b.1 x.acct).2.trans hb2
      simp only
      split
      · exact ⟨g1, g2, hb3, hb4⟩
      · split
        · exact ⟨g1, g2, hb3, hb4⟩
        · rename_i hseen
          split
          · refine ⟨g1, g2, ?_, hb4⟩
            intro v hv
            obtain ⟨a1, a2, a3⟩ := hb3 v hv
            exact ⟨a1, a2, List.mem_append_left _ a3⟩
          · rename_i hnone
            refine ⟨g1, g2, ?_, ?_⟩
            · intro v hv
              rcases List.mem_append.mp hv with hv | hv
              · obtain ⟨a1, a2, a3⟩ := hb3 v hv
                exact ⟨a1, a2, List.mem_append_left _ a3⟩
              · simp only [List.mem_singleton] at hv
                subst hv
                refine ⟨hx, ?_, by simp [ptrOf]⟩
                rw [g1] at hnone
                cases hg : KV.get p.hashMap v.hash with
                | none => rfl
                | some _ => simp [hg] at hnone
            · rw [List.pairwise_append]
              refine ⟨hb4, List.pairwise_singleton _ _, ?_⟩
              intro a ha b' hb'
              simp only [List.mem_singleton] at hb'
              subst hb'
              intro e
              apply hseen
              have := (hb3 a ha).2.2
              rw [e] at this
              exact this)
  obtain ⟨t1, t2, t3, t4⟩ := this
  exact ⟨t1, t2, fun v hv => ⟨(t3 v hv).1, (t3 v hv).2.1⟩, t4⟩

theorem pairwise_inj {l : List TxR} (hp : l.Pairwise (fun a b => ptrOf a ≠ ptrOf b)) :
    ∀ a ∈ l, ∀ b ∈ l, ptrOf a = ptrOf b → a = b := by
  induction l with
  | nil => intro a ha; cases ha
  | cons x rest ih =>
    rw [List.pairwise_cons] at hp
    intro a ha b hb e
    rcases List.mem_cons.mp ha with ha1 | ha1 <;> rcases List.mem_cons.mp hb with hb1 | hb1
    · rw [ha1, hb1]
    · rw [ha1] at e; exact absurd e (hp.1 b hb1)
    · rw [hb1] at e; exact absurd e.symm (hp.1 a ha1)
    · exact ih hp.2 a ha1 b hb1 e

/-- inserting admitted transactions forgets a held hash only by superseding the transaction that carried it -/
theorem insertTxs_hashMap (p : Pool) (valid : List TxR) (group : Nat) (h : String) (ptr : Ptr)
    (hh : KV.get p.hashMap h = some ptr)
    (hfresh : ∀ v ∈ valid, KV.get p.hashMap v.hash = none)
    (hinj : ∀ a ∈ valid, ∀ b ∈ valid, ptrOf a = ptrOf b → a = b) :
    KV.get (insertTxs p valid group).hashMap h = some ptr ∨
      ∃ tx ∈ valid, ∃ old, KV.get p.items (ptrOf tx) = some old ∧ old.hash = h ∧ tx.hash ≠ h := by
  unfold insertTxs
  have := foldl_inv (fun (q : Pool) =>
      (KV.get q.hashMap h = some ptr ∨
        ∃ tx ∈ valid, ∃ old, KV.get p.items (ptrOf tx) = some old ∧ old.hash = h ∧ tx.hash ≠ h) ∧
      (∀ k, KV.get q.items k = KV.get p.items k ∨ ∃ v ∈ valid, ptrOf v = k ∧ KV.get q.items k = some v))
    (fun p tx =>
      let ptr : Ptr := (tx.acct, tx.nonce)
      let hm := match KV.get p.items ptr with
        | some old => if old.hash ≠ tx.hash then KV.erase p.hashMap old.hash else p.hashMap
        | none => p.hashMap
      { p with hashMap := KV.set hm tx.hash ptr, items := KV.set p.items ptr tx,
               nidx := setIns p.nidx ptr, arrival := KV.set p.arrival ptr group }) valid p
    ⟨Or.inl hh, fun k => Or.inl rfl⟩
    (by
      intro q tx htx ⟨hq1, hq2⟩
      have hne : tx.hash ≠ h := by
        intro e
        have := hfresh tx htx
        rw [e, hh] at this
        cases this
      constructor
      · rcases hq1 with hq1 | hW
        · simp only
          rw [KV.get_set_ne _ _ _ _ hne]
          split
          · rename_i old hold
            split
            · rename_i hdiff
              by_cases hoh : old.hash = h
              · right
                rcases hq2 (tx.acct, tx.nonce) with ho | ⟨v, hv, hvp, hvq⟩
                · rw [ho] at hold
                  exact ⟨tx, htx, old, hold, hoh, hne⟩
                · rw [hvq] at hold
                  injection hold with hold
                  have := hinj v hv tx htx hvp
                  rw [← hold, this] at hdiff
                  exact absurd rfl hdiff
              · left
                rw [KV.get_erase_ne _ _ _ hoh]
                exact hq1
            · exact Or.inl hq1
          · exact Or.inl hq1
        · exact Or.inr hW
      · intro k
        simp only
        by_cases hk : (tx.acct, tx.nonce) = k
        · right
          exact ⟨tx, htx, hk, by rw [← hk, KV.get_set_eq]⟩
        · rw [KV.get_set_ne _ _ _ _ hk]
          exact hq2 k)
  exact this.1

/-- `ProcessTransactions`: a held hash is forgotten only when the batch supersedes the transaction that carried it,
i.e. offers another transaction for the very (account, nonce) pair that one occupies -/
theorem process_hashMap (p : Pool) (txs : List TxR) (isLeader : Bool) (group : Nat) (h : String) (ptr : Ptr)
    (hh : KV.get p.hashMap h = some ptr) :
    KV.get (process p txs isLeader group).1.hashMap h = some ptr ∨
      ∃ tx ∈ txs, ∃ old, KV.get p.items (ptrOf tx) = some old ∧ old.hash = h ∧ tx.hash ≠ h := by
  unfold process
  simp only
  obtain ⟨a1, a2, a3, a4⟩ := admission_facts p txs
  have hi := insertTxs_hashMap (admission p txs).1 (admission p txs).2 group h ptr (by rw [a1]; exact hh)
    (fun v hv => by rw [a1]; exact (a3 v hv).2) (pairwise_inj a4)
  have hd : ∀ (accts : List String) (q : Pool), (accts.foldl processDirty q).hashMap = q.hashMap := by
    intro accts q
    exact foldl_inv (fun r => r.hashMap = q.hashMap) processDirty accts q rfl
      (fun b x _ hb => (processDirty_hashMap b x).1.trans hb)
  have hfin : KV.get ((dedup ((admission p txs).2.map (·.acct))).foldl processDirty
      (insertTxs (admission p txs).1 (admission p txs).2 group)).hashMap h = some ptr ∨
      ∃ tx ∈ txs, ∃ old, KV.get p.items (ptrOf tx) = some old ∧ old.hash = h ∧ tx.hash ≠ h := by
    rw [hd]
    rcases hi with hi | ⟨tx, htx, old, ho, hoh, hne⟩
    · exact Or.inl hi
    · exact Or.inr ⟨tx, (a3 tx htx).1, old, by rw [← a2]; exact ho, hoh, hne⟩
  split
  · rw [(generateBlock_hashMap _).1]; exact hfin
  · exact hfin

end Bxh.Mempool
