import Bxh.Proofs.ChainLinked
import Bxh.Proofs.LedgerQuery
/-!
# A crash from which the node recovers leaves the chain store of before or of after the block

`crashed before after m` is the durable state a crash leaves when the commit of one block was interrupted (`m`: which batches /
how many blockfile tables reached the disk); `reopen` = `NewBlockFile` (truncate the five tables to the shortest) + `ledger.New`
(read the chain meta, open the state store, roll back to the chain height).  For the two classes of masks from which start-up
succeeds (`C11_recover_iff`: everything of the chain side durable, or nothing of it complete) the chain side of the reopened node —
index, tables, cached meta, block count — is exactly the one from before resp. after the block, hence `Linked`: every block below
the head is still there, hash-linked and indexed.
-/
namespace Bxh.Chain
open Bxh

/-- the stored chain meta is the cached one (what `ledger.New` reads back) -/
def MetaOk (n : Node) : Prop := n.idx.metaDB.getD (0, "zero", 0) = n.cmeta

/-- all five blockfile tables hold as many blocks as the chain is high -/
def FiveEven (n : Node) : Prop :=
  n.tbl.hashes.length = n.cmeta.1 ∧ n.tbl.bodies.length = n.cmeta.1 ∧ n.tbl.txs.length = n.cmeta.1 ∧
  n.tbl.rcpts.length = n.cmeta.1 ∧ n.tbl.inter.length = n.cmeta.1

theorem Linked.congr {n n' : Node} (h : Linked n) (e1 : n'.idx = n.idx) (e2 : n'.tbl = n.tbl) (e3 : n'.blocks = n.blocks)
    (e4 : n'.cmeta = n.cmeta) : Linked n' := by
  obtain ⟨t, z, hd⟩ := h
  refine ⟨⟨by rw [e3, e4]; exact t.blocks, by rw [e2, e4]; exact t.lenB, by rw [e2, e4]; exact t.lenT, by rw [e2, e4]; exact t.lenI,
    ?_, ?_, ?_, ?_, ?_⟩, by rw [e4]; exact z, by rw [e2, e4]; exact hd⟩
  · rw [e1, e2, e4]; exact t.byHeight
  · rw [e2]; exact t.link
  · rw [e2]; exact t.first
  · rw [e2]; exact t.distinct
  · rw [e1, e2, e4]; exact t.txMeta

theorem applyBlk_facts (n : Node) (b : Blk) (hb : b.height = n.cmeta.1 + 1) (h5 : FiveEven n) :
    FiveEven (applyBlk n b) ∧ MetaOk (applyBlk n b) := by
  obtain ⟨a1, a2, a3, a4, a5⟩ := h5
  refine ⟨?_, ?_⟩
  · simp [FiveEven, applyBlk, Tables.append, a1, a2, a3, a4, a5, hb]
  · simp [MetaOk, applyBlk, indexBatch]

/-- the start-up rollback to the chain's own height leaves the chain side alone -/
theorem rollback_at_head {n n2 : Node} (h : rollback n n.cmeta.1 = .ok n2) :
    n2.idx = n.idx ∧ n2.tbl = n.tbl ∧ n2.blocks = n.blocks ∧ n2.cmeta = n.cmeta := by
  unfold rollback at h
  split at h
  · cases h
  · cases h
  · cases h
  · rename_i st' _
    unfold chainRollback at h
    simp only [Nat.lt_irrefl, if_false, if_true] at h
    injection h with h
    subst h
    exact ⟨rfl, rfl, rfl, rfl⟩

/-- **nothing of the chain side complete**: the chain-index batch missing and at most four of the five tables appended -/
theorem reopen_crashed_before (before after : Node) (b : Blk) (m : Mask) (n2 : Node)
    (hL : Linked before) (hM : MetaOk before) (h5 : FiveEven before)
    (ha : after.tbl = before.tbl.append b) (hc : m.c = false) (hb : m.b < 5)
    (hr : reopen (crashed before after m) = .ok n2) :
    n2.idx = before.idx ∧ n2.tbl = before.tbl ∧ n2.blocks = before.blocks ∧ n2.cmeta = before.cmeta ∧ Linked n2 := by
  obtain ⟨a1, a2, a3, a4, a5⟩ := h5
  -- the repaired tables are the tables from before the block
  have hmin : (crashed before after m).tbl.minLen = before.cmeta.1 := by
    simp only [crashed, Tables.minLen, ha, Tables.append]
    have h4 : ¬ 4 < m.b := by omega
    simp only [h4, if_false, a5]
    repeat' split
    all_goals simp only [List.length_append, List.length_singleton, a1, a2, a3, a4]
    all_goals omega
  have htbl : (crashed before after m).tbl.truncate before.cmeta.1 = before.tbl := by
    simp only [crashed, Tables.truncate, ha, Tables.append]
    have e : ∀ (l : List Blk) (c : Bool), l.length = before.cmeta.1 →
        (if c then l ++ [b] else l).take before.cmeta.1 = l := by
      intro l c hl
      cases c
      · simp only [Bool.false_eq_true, if_false]; exact List.take_of_length_le (by omega)
      · simp only [if_true]; exact List.take_left' hl
    have e0 := e before.tbl.hashes (decide (0 < m.b)) a1
    have e1 := e before.tbl.bodies (decide (1 < m.b)) a2
    have e2 := e before.tbl.txs (decide (2 < m.b)) a3
    have e3 := e before.tbl.rcpts (decide (3 < m.b)) a4
    have e4 := e before.tbl.inter (decide (4 < m.b)) a5
    simp only [decide_eq_true_eq] at e0 e1 e2 e3 e4
    rw [e0, e1, e2, e3, e4]
  have hmt : (crashed before after m).idx.metaDB.getD (0, "zero", 0) = before.cmeta := by
    simp only [crashed, hc, Bool.false_eq_true, if_false]; exact hM
  unfold reopen at hr
  simp only [hmin, htbl, hmt] at hr
  split at hr
  · cases hr
  · rename_i st hst
    split at hr
    · rename_i n2' hrb
      injection hr with hr
      subst hr
      have hidx : (crashed before after m).idx = before.idx := by simp only [crashed, hc, Bool.false_eq_true, if_false]
      obtain ⟨f1, f2, f3, f4⟩ := rollback_at_head (n := { (crashed before after m) with tbl := before.tbl, blocks := before.cmeta.1, cmeta := before.cmeta, st := st }) hrb
      have g1 : n2'.idx = before.idx := by rw [f1]; exact hidx
      have g3 : n2'.blocks = before.blocks := by rw [f3]; exact hL.to.blocks.symm
      exact ⟨g1, f2, g3, f4, hL.congr g1 f2 g3 f4⟩
    all_goals cases hr

/-- **everything of the chain side durable**: the chain-index batch and all five tables -/
theorem reopen_crashed_after (before after : Node) (m : Mask) (n2 : Node)
    (hL : Linked after) (hM : MetaOk after) (h5 : FiveEven after)
    (hc : m.c = true) (hb : m.b = 5)
    (hr : reopen (crashed before after m) = .ok n2) :
    n2.idx = after.idx ∧ n2.tbl = after.tbl ∧ n2.blocks = after.blocks ∧ n2.cmeta = after.cmeta ∧ Linked n2 := by
  obtain ⟨a1, a2, a3, a4, a5⟩ := h5
  have htb : (crashed before after m).tbl = after.tbl := by
    simp only [crashed, hb]
    simp
  have hmin : (crashed before after m).tbl.minLen = after.cmeta.1 := by
    rw [htb]; simp only [Tables.minLen, a1, a2, a3, a4, a5]; omega
  have htbl : (crashed before after m).tbl.truncate after.cmeta.1 = after.tbl := by
    rw [htb]
    simp only [Tables.truncate]
    rw [List.take_of_length_le (by omega), List.take_of_length_le (by omega), List.take_of_length_le (by omega),
      List.take_of_length_le (by omega), List.take_of_length_le (by omega)]
  have hmt : (crashed before after m).idx.metaDB.getD (0, "zero", 0) = after.cmeta := by
    simp only [crashed, hc, if_true]; exact hM
  unfold reopen at hr
  simp only [hmin, htbl, hmt] at hr
  split at hr
  · cases hr
  · rename_i st hst
    split at hr
    · rename_i n2' hrb
      injection hr with hr
      subst hr
      have hidx : (crashed before after m).idx = after.idx := by simp only [crashed, hc, if_true]
      obtain ⟨f1, f2, f3, f4⟩ := rollback_at_head (n := { (crashed before after m) with tbl := after.tbl, blocks := after.cmeta.1, cmeta := after.cmeta, st := st }) hrb
      have g1 : n2'.idx = after.idx := by rw [f1]; exact hidx
      have g3 : n2'.blocks = after.blocks := by rw [f3]; exact hL.to.blocks.symm
      exact ⟨g1, f2, g3, f4, hL.congr g1 f2 g3 f4⟩
    all_goals cases hr

/-- **an idle block changes no account**: the state part of an empty block above height 1, on a state ledger between two blocks,
leaves every storage row of the database as it was and has nothing to flush — what it adds is the (empty) journal of its height, the
durable copy of the state root the next block chains on from -/
theorem stateCommit_idle (l : Ledger.L) (h serial : Nat) (hh : 1 < h) (hno : l.accounts = []) :
    (stateCommit l h serial []).db.state = l.db.state ∧
    (Ledger.flush (fun _ => s!"r{h}-{serial}") (Ledger.finalise l)).2.accounts = [] := by
  have hfl : (Ledger.flush (fun _ => s!"r{h}-{serial}") (Ledger.finalise l)).2.accounts = [] := by
    unfold Ledger.flush Ledger.finalise
    simp only [hno, List.map_nil, List.filterMap_nil]
  refine ⟨?_, hfl⟩
  unfold stateCommit
  simp only [List.isEmpty_nil, hh, decide_true, Bool.and_self, if_true]
  cases hc : Ledger.commit (Ledger.flush (fun _ => s!"r{h}-{serial}") (Ledger.finalise l)).1 h
      (Ledger.flush (fun _ => s!"r{h}-{serial}") (Ledger.finalise l)).2 with
  | none => simp only [Option.getD_none]; rfl
  | some l' =>
    simp only [Option.getD_some]
    obtain ⟨e1, _⟩ := Ledger.commit_state_cache h _ hc
    rw [e1, hfl]
    rfl


end Bxh.Chain
