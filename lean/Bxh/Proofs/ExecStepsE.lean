import Bxh.Proofs.ExecStepsT
/-!
# The contract functions leave the one-to-one entries of the timeout lists exactly as they are

`StepsE` is `StepsT` with equality: every write to a `timeout-<d>` key stores a list on which every one-to-one id occurs exactly as
often as on the list stored before.  The transaction manager adds and removes *group* ids only, and Go's in-place removal of an
id takes away occurrences of that id only (`goRemove_count_other`).  Generated from the `StepsT` lemmas (same scripts).
-/
namespace Bxh.Exec
open Bxh

/-- a timeout list as the code writes it: the emptied list `[none]` ("" split at commas), or a list without empty elements -/
def WFL (lst : List (Option TId)) : Prop := lst = [none] ∨ ∀ x ∈ lst, x ≠ none

def WFV (v : Option Val) : Prop := ∀ lst, v = some (.tlist lst) → WFL lst

inductive StepsE : Led → Led → Prop
  | refl (l : Led) : StepsE l l
  | setO {l l' : Led} (k : Key) (v : Option Val) (hk : ∀ d, k ≠ .timeout d) : StepsE l l' → StepsE l (l'.setS k v)
  | setT {l l' : Led} (d : Nat) (lst : List (Option TId)) (hcnt : ∀ t, lst.count (some (TId.single t)) = listCount l' d t)
      (hwf : WFV (l'.getS (.timeout d)) → WFL lst) :
      StepsE l l' → StepsE l (l'.setS (.timeout d) (some (.tlist lst)))
  | post {l l' : Led} (e : Ev) : StepsE l l' → StepsE l (l'.post e)

theorem StepsE.trans {a b c : Led} (h1 : StepsE a b) (h2 : StepsE b c) : StepsE a c := by
  induction h2 with
  | refl => exact h1
  | setO k v hk _ ih => exact StepsE.setO k v hk ih
  | setT d lst hcnt hwf _ ih => exact StepsE.setT d lst hcnt hwf ih
  | post e _ ih => exact StepsE.post e ih

theorem StepsE.addO {l l' : Led} (k : Key) (v : Val) (hk : ∀ d, k ≠ .timeout d) (h : StepsE l l') : StepsE l (l'.addS k v) :=
  StepsE.setO k (some v) hk h
theorem StepsE.setIC {l l' : Led} (s : SvcId) (i : IC) (h : StepsE l l') : StepsE l (setIC l' s i) :=
  StepsE.setO _ _ (by intro d e; cases e) h

/-- **every one-to-one id occurs on every list after such steps exactly as often as before** -/
theorem StepsE.count {l l' : Led} (h : StepsE l l') (d : Nat) (t : TxId) : listCount l' d t = listCount l d t := by
  induction h with
  | refl => rfl
  | setO k v hk _ ih =>
    refine Eq.trans (listCount_congr ?_) ih
    simp only [Led.getS_setS]; rw [if_neg (hk d)]
  | @setT l1 d' lst hcnt _ _ ih =>
    by_cases hd : d' = d
    · subst hd
      rw [listCount_of (l := Led.setS l1 (.timeout d') (some (.tlist lst))) (lst := lst) (by simp)]
      rw [hcnt t]; exact ih
    · refine Eq.trans (listCount_congr ?_) ih
      simp only [Led.getS_setS]; rw [if_neg (fun e => hd (by cases e; rfl))]
  | post e _ ih => exact ih

/-- **such steps keep every timeout list well-formed** -/
theorem StepsE.wf {l l' : Led} (h : StepsE l l') (h0 : ∀ d, WFV (l.getS (.timeout d))) : ∀ d, WFV (l'.getS (.timeout d)) := by
  induction h with
  | refl => exact h0
  | setO k v hk _ ih =>
    intro d
    simp only [Led.getS_setS]; rw [if_neg (hk d)]; exact ih d
  | @setT l1 d' lst _ hwf _ ih =>
    intro d
    by_cases hd : d' = d
    · subst hd
      simp only [Led.getS_setS, if_true]
      intro lst' e
      cases e
      exact hwf (ih d')
    · simp only [Led.getS_setS]; rw [if_neg (fun e => hd (by cases e; rfl))]; exact ih d
  | post e _ ih => exact ih

syntax "stepsE_tac" : tactic
macro_rules
  | `(tactic| stepsE_tac) => `(tactic| repeat (first
      | exact StepsE.refl _ | assumption
      | apply StepsE.setO _ _ (by intro d e; cases e)
      | apply StepsE.post
      | apply StepsE.addO _ _ (by intro d e; cases e)
      | apply StepsE.setIC))

theorem count_normList_single (r : List (Option TId)) (t : TxId) :
    (normList r).count (some (TId.single t)) = r.count (some (TId.single t)) := by
  unfold normList
  split
  · rename_i he
    have : r = [] := by simpa using he
    subst this; simp
  · rfl

theorem normList_wf (r : List (Option TId)) (h : ∀ x ∈ r, x ≠ none) : WFL (normList r) := by
  unfold normList
  split
  · exact Or.inl rfl
  · exact Or.inr h

theorem tmAddTimeout_stepsE (l : Led) (h : Nat) (g : GId) : StepsE l (tmAddTimeout l h (.global g)) := by
  have one : ∀ t : TxId, [some (TId.global g)].count (some (TId.single t)) = 0 := by
    intro t; rw [List.count_eq_zero]; intro hm; simp at hm
  unfold tmAddTimeout
  split
  · rename_i lst hl
    split
    · rename_i hn
      refine StepsE.setT _ _ ?_ (fun _ => Or.inr (by intro x hx; simp at hx; subst hx; simp)) (StepsE.refl _)
      intro t
      rw [one, listCount_of hl]
      have : lst = [none] := by simpa using hn
      subst this; simp
    · rename_i hn
      refine StepsE.setT _ _ ?_ ?_ (StepsE.refl _)
      · intro t
        rw [count_single_global, listCount_of hl]
      · intro hw
        right
        rcases hw lst hl with h1 | h1
        · exact absurd (by rw [h1]; rfl) hn
        · intro x hx
          rcases List.mem_append.mp hx with h2 | h2
          · exact h1 x h2
          · simp at h2; subst h2; simp
  · rename_i hno
    refine StepsE.setT _ _ ?_ (fun _ => Or.inr (by intro x hx; simp at hx; subst hx; simp)) (StepsE.refl _)
    intro t
    rw [one]
    unfold listCount
    split
    · rename_i lst e; exact absurd e (hno lst)
    · rfl

theorem tmRemoveTimeout_stepsE {l l' : Led} {h : Nat} {g : GId} (e : tmRemoveTimeout l h (.global g) = .ok l') : StepsE l l' := by
  unfold tmRemoveTimeout at e
  split at e
  · rename_i lst hl
    split at e
    · cases e; exact StepsE.refl _
    · rename_i hne
      split at e
      · rename_i r hr
        cases e
        refine StepsE.setT _ _ ?_ ?_ (StepsE.refl _)
        · intro t
          rw [listCount_of hl, count_normList_single]
          exact goRemove_count_other lst r (.global g) hr _ (by intro e; cases e)
        · intro hw
          exact normList_wf r (fun x hx => by
            rcases hw lst hl with h1 | h1
            · exact absurd (by rw [h1]; rfl) hne
            · exact h1 x (goRemove_mem lst r _ hr x hx))
      · cases e
  · cases e; exact StepsE.refl _

theorem tmBegin_stepsE (l : Led) (cur : Nat) (id : TxId) (t : Nat) (f : Bool) : StepsE l (tmBegin l cur id t f).1 := by
  unfold tmBegin; stepsE_tac

theorem tmBeginInter_stepsE {l : Led} {cur : Nat} {id : TxId} {t : Nat} {x : Ext} {f : Bool} {r : Led × StatusChange}
    (e : tmBeginInter l cur id t x f = .ok r) : StepsE l r.1 := by
  unfold tmBeginInter at e
  split at e
  · split at e
    · cases e
    · split at e
      · cases e
      · cases e; stepsE_tac
  · cases e
  · cases e; stepsE_tac

theorem tmBeginMulti_stepsE {l : Led} {cur : Nat} {gid : GId} {id : TxId} {t : Nat} {f : Bool} {n : Nat} {r : Led × StatusChange}
    (e : tmBeginMulti l cur gid id t f n = .ok r) : StepsE l r.1 := by
  unfold tmBeginMulti at e
  split at e
  · split at e
    · cases e
    · split at e
      · cases e; stepsE_tac
      · split at e
        · split at e
          · cases e
          · rename_i l0 h0
            cases e
            have := tmRemoveTimeout_stepsE h0
            stepsE_tac
        · cases e; stepsE_tac
  · cases e
    by_cases hf : f = true
    · simp only [hf, if_true]; stepsE_tac
    · simp only [hf]
      have := tmAddTimeout_stepsE l (recordHeight cur t) gid
      stepsE_tac

theorem tmChangeMulti_stepsE {l : Led} {gid : GId} {g : Global} {id : TxId} {typ : Nat} {r : Led × Global}
    (e : tmChangeMulti l gid g id typ = .ok r) : StepsE l r.1 := by
  unfold tmChangeMulti at e
  split at e
  · split at e
    · cases e
    · rename_i l0 h0; cases e; exact tmRemoveTimeout_stepsE h0
  · simp only at e
    split at e
    · cases e
    · split at e
      · split at e
        · cases e
        · split at e
          · cases e
          · rename_i l0 h0; cases e; exact tmRemoveTimeout_stepsE h0
      · cases e; stepsE_tac

theorem tmReport_stepsE {l : Led} {id : TxId} {typ : Nat} {r : Led × StatusChange}
    (e : tmReport l id typ = .ok r) : StepsE l r.1 := by
  unfold tmReport at e
  split at e
  · split at e
    · cases e
    · cases e; stepsE_tac
  · cases e
  · split at e
    · split at e
      · split at e
        · cases e
        · split at e
          · cases e
          · rename_i l1 g' h0
            cases e
            have := tmChangeMulti_stepsE h0
            stepsE_tac
      · cases e
    · cases e

theorem beginTransaction_stepsE {env : Env} {l : Led} {i : Ibtp} {ck : Checked} {r : Led × StatusChange}
    (e : beginTransaction env l i ck = .ok r) : StepsE l r.1 := by
  unfold beginTransaction at e
  simp only at e
  split at e
  · split at e
    · cases e
    · rename_i r0 h0; cases e; exact tmBeginInter_stepsE h0
  · split at e
    · cases e; exact tmBegin_stepsE _ _ _ _ _
    · split at e
      · cases e
      · rename_i r0 h0; cases e; exact tmBeginMulti_stepsE h0

theorem addToMultiNotify_stepsE (env : Env) (l : Led) (ids : List TxId) (b : Bool) : StepsE l (addToMultiNotify env l ids b) := by
  unfold addToMultiNotify
  split
  · stepsE_tac
  · stepsE_tac

theorem notifySrcDst_stepsE (env : Env) (l : Led) (src dst : SvcId) (c : StatusChange) (b : Bool) :
    StepsE l (notifySrcDst env l src dst c b) := by
  unfold notifySrcDst
  have h1 := addToMultiNotify_stepsE env l c.notifySrc true
  cases notifyFlags c with
  | mk ns nd =>
    simp only
    apply StepsE.post
    cases ns <;> cases nd <;> cases isLocal env src <;> cases isLocal env dst <;>
      simp only [if_true, if_false, Bool.false_eq_true] <;>
      first
        | exact StepsE.refl _
        | exact h1
        | exact addToMultiNotify_stepsE env _ c.notifyDst false
        | exact StepsE.trans h1 (addToMultiNotify_stepsE env _ c.notifyDst false)

theorem setDestIC_stepsE (l : Led) (f t : SvcId) (n : Nat) (ic : IC) : StepsE l (setDestIC l f t n ic) := by
  unfold setDestIC; stepsE_tac

theorem foldl_stepsE {α : Type} (f : Led → α → Led) (hf : ∀ l a, StepsE l (f l a)) (xs : List α) (l : Led) :
    StepsE l (xs.foldl f l) := by
  induction xs generalizing l with
  | nil => exact StepsE.refl _
  | cons x rest ih => exact StepsE.trans (hf l x) (ih _)

theorem processIBTP_stepsE (l : Led) (i : Ibtp) (ck : Checked) (c : StatusChange) : StepsE l (processIBTP l i ck c).1 := by
  unfold processIBTP
  simp only
  split
  · stepsE_tac
  · simp only
    apply StepsE.setO _ _ (by intro d e; cases e)
    split
    · split
      · exact foldl_stepsE _ (fun l cid => setDestIC_stepsE l _ _ _ _) _ _
      · exact setDestIC_stepsE _ _ _ _ _
    · exact StepsE.refl _

theorem handleIBTP_stepsE {env : Env} {l : Led} {i : Ibtp} {r : Led × String}
    (e : handleIBTP env l i = .ok r) : StepsE l r.1 := by
  unfold handleIBTP at e
  split at e
  · cases e
  · rename_i ck hck
    simp only at e
    split at e
    · cases e
    · rename_i l1 c hr
      have h1 : StepsE l l1 := by
        split at hr
        · exact beginTransaction_stepsE hr
        · split at hr
          · split at hr
            · cases hr
            · rename_i x hx; cases hr; exact tmReport_stepsE hx
          · cases hr
      have h2 := notifySrcDst_stepsE env l1 ck.src ck.dst c ck.isBatch
      have h3 := processIBTP_stepsE (notifySrcDst env l1 ck.src ck.dst c ck.isBatch) i ck c
      have h123 := StepsE.trans (StepsE.trans h1 h2) h3
      split at e
      · split at e
        · cases e
        · cases e; stepsE_tac
      · cases e; exact h123

theorem applyBvm_stepsE {env : Env} {l : Led} {c m : String} {args : List Arg} {r : Led × String}
    (e : applyBvm env l c m args = .ok r) : StepsE l r.1 := by
  unfold applyBvm at e
  split at e
  · split at e
    · split at e
      · cases e
      · cases e; simp only; stepsE_tac
    · cases e
  · split at e
    · split at e
      · split at e
        · cases e; exact StepsE.refl _
        · cases e
      · cases e
    · split at e
      · split at e
        · split at e
          · cases e; exact StepsE.refl _
          · cases e
        · cases e
      · split at e
        · split at e <;> cases e
        · cases e

end Bxh.Exec
