import Bxh.Model.Mempool
/-!
# `filterReady`: the ready transactions of an account are the maximal gap-free run of its nonces from the demanded one
-/
namespace Bxh.Mempool
open Bxh

/-- the fold of `filterReady` -/
def frStep (acc : List Nat × List Nat × Nat) (n : Nat) : List Nat × List Nat × Nat :=
  if n == acc.2.2 then (acc.1 ++ [n], acc.2.1, acc.2.2 + 1) else (acc.1, acc.2.1 ++ [n], acc.2.2)

theorem filterReady_eq (p : Pool) (a : String) (demand : Nat) :
    filterReady p a demand = ((noncesOf p a).filter (· ≥ demand)).foldl frStep ([], [], demand) := rfl

/-- the ready list stays a gap-free run from the demanded nonce, the next demanded nonce is right behind it -/
theorem frFold_run (L : List Nat) (demand k : Nat) (nr : List Nat) :
    let r := L.foldl frStep (List.range' demand k, nr, demand + k)
    r.1 = List.range' demand r.1.length ∧ r.2.2 = demand + r.1.length ∧ k ≤ r.1.length ∧
      ∀ n ∈ r.1, n ∈ List.range' demand k ∨ n ∈ L := by
  induction L generalizing k nr with
  | nil => simp
  | cons x rest ih =>
    simp only [List.foldl_cons]
    by_cases hx : x = demand + k
    · have e : List.range' demand k ++ [x] = List.range' demand (k + 1) := by
        rw [List.range'_concat, hx]; simp
      have es : frStep (List.range' demand k, nr, demand + k) x = (List.range' demand (k + 1), nr, demand + (k + 1)) := by
        unfold frStep; simp [hx, ← e]; omega
      rw [es]
      obtain ⟨h1, h2, h3, h4⟩ := ih (k + 1) nr
      refine ⟨h1, h2, by omega, ?_⟩
      intro n hn
      rcases h4 n hn with h | h
      · rw [← e] at h
        rcases List.mem_append.mp h with h | h
        · exact Or.inl h
        · right; simp at h; simp [h]
      · right; exact List.mem_cons_of_mem _ h
    · have es : frStep (List.range' demand k, nr, demand + k) x = (List.range' demand k, nr ++ [x], demand + k) := by
        unfold frStep
        have : (x == demand + k) = false := by simp; exact hx
        simp [this]
      rw [es]
      obtain ⟨h1, h2, h3, h4⟩ := ih k (nr ++ [x])
      refine ⟨h1, h2, h3, ?_⟩
      intro n hn
      rcases h4 n hn with h | h
      · exact Or.inl h
      · right; exact List.mem_cons_of_mem _ h

/-- when every remaining nonce lies above the demanded one, nothing more becomes ready -/
theorem frFold_frozen (L : List Nat) (acc : List Nat × List Nat × Nat) (h : ∀ n ∈ L, acc.2.2 < n) :
    (L.foldl frStep acc).1 = acc.1 ∧ (L.foldl frStep acc).2.2 = acc.2.2 := by
  induction L generalizing acc with
  | nil => exact ⟨rfl, rfl⟩
  | cons x rest ih =>
    simp only [List.foldl_cons]
    have hx : (x == acc.2.2) = false := by
      have := h x (List.mem_cons_self ..)
      simp; omega
    have e : frStep acc x = (acc.1, acc.2.1 ++ [x], acc.2.2) := by unfold frStep; simp [hx]
    rw [e]
    exact ih _ (fun n hn => h n (List.mem_cons_of_mem _ hn))

/-- over a strictly ascending list of nonces at or above the demanded one, the nonce demanded at the end is not in the list:
the run cannot be extended -/
theorem frFold_maximal (L : List Nat) (acc : List Nat × List Nat × Nat) (hs : L.Pairwise (· < ·)) (hlo : ∀ n ∈ L, acc.2.2 ≤ n) :
    (L.foldl frStep acc).2.2 ∉ L ∧ acc.2.2 ≤ (L.foldl frStep acc).2.2 := by
  induction L generalizing acc with
  | nil => simp
  | cons x rest ih =>
    simp only [List.foldl_cons]
    obtain ⟨hx, hrest⟩ := List.pairwise_cons.mp hs
    by_cases he : x = acc.2.2
    · have e : frStep acc x = (acc.1 ++ [x], acc.2.1, acc.2.2 + 1) := by unfold frStep; simp [he]
      rw [e]
      obtain ⟨h1, h2⟩ := ih (acc.1 ++ [x], acc.2.1, acc.2.2 + 1) hrest (fun n hn => by have := hx n hn; simp only; omega)
      simp only at h2
      refine ⟨?_, by omega⟩
      intro hm
      rcases List.mem_cons.mp hm with h | h
      · omega
      · exact h1 h
    · have hgt : acc.2.2 < x := by have := hlo x (List.mem_cons_self ..); omega
      have e : frStep acc x = (acc.1, acc.2.1 ++ [x], acc.2.2) := by
        unfold frStep
        have : (x == acc.2.2) = false := by simp; omega
        simp [this]
      rw [e]
      have hfz := frFold_frozen rest (acc.1, acc.2.1 ++ [x], acc.2.2) (fun n hn => by have := hx n hn; simp only; omega)
      simp only at hfz
      rw [hfz.2]
      refine ⟨?_, Nat.le_refl _⟩
      intro hm
      rcases List.mem_cons.mp hm with h | h
      · omega
      · have := hx _ h; omega

end Bxh.Mempool

namespace Bxh.Mempool
open Bxh

theorem noncesOf_sorted (p : Pool) (a : String) : (noncesOf p a).Pairwise (· ≤ ·) := by
  unfold noncesOf
  have := List.pairwise_mergeSort (le := fun (x y : Nat) => decide (x ≤ y))
    (fun a b c h1 h2 => by simp at *; omega) (fun a b => by simp; omega) ((p.nidx.filter (·.1 == a)).map (·.2))
  simpa using this

theorem strict_of_sorted_nodup {L : List Nat} (h1 : L.Pairwise (· ≤ ·)) (h2 : L.Nodup) : L.Pairwise (· < ·) := by
  induction L with
  | nil => exact List.Pairwise.nil
  | cons x rest ih =>
    obtain ⟨a1, a2⟩ := List.pairwise_cons.mp h1
    obtain ⟨b1, b2⟩ := List.nodup_cons.mp h2
    refine List.pairwise_cons.mpr ⟨?_, ih a2 b2⟩
    intro y hy
    have := a1 y hy
    have hne : x ≠ y := fun e => b1 (e ▸ hy)
    omega

/-- **what `filterReady` calls ready is the maximal gap-free run of the account's nonces from the demanded one**: the ready nonces
are `demand, demand+1, …` without a gap, all of them are in the account's index, the nonce demanded next is right behind the run —
and it is not in the index, so the run cannot be longer -/
theorem filterReady_spec (p : Pool) (a : String) (demand : Nat) (hnd : (noncesOf p a).Nodup) :
    (filterReady p a demand).1 = List.range' demand (filterReady p a demand).1.length ∧
    (filterReady p a demand).2.2 = demand + (filterReady p a demand).1.length ∧
    (∀ n ∈ (filterReady p a demand).1, n ∈ noncesOf p a) ∧
    (filterReady p a demand).2.2 ∉ noncesOf p a := by
  rw [filterReady_eq]
  have hrun := frFold_run ((noncesOf p a).filter (· ≥ demand)) demand 0 []
  simp only [List.range'_zero, Nat.add_zero] at hrun
  obtain ⟨h1, h2, _, h4⟩ := hrun
  have hstrict : ((noncesOf p a).filter (· ≥ demand)).Pairwise (· < ·) :=
    (strict_of_sorted_nodup (noncesOf_sorted p a) hnd).sublist List.filter_sublist
  have hmax := frFold_maximal ((noncesOf p a).filter (· ≥ demand)) ([], [], demand) hstrict
    (fun n hn => by have := (List.mem_filter.mp hn).2; simpa using this)
  refine ⟨h1, h2, ?_, ?_⟩
  · intro n hn
    rcases h4 n hn with h | h
    · simp at h
    · exact (List.mem_filter.mp h).1
  · intro hm
    apply hmax.1
    refine List.mem_filter.mpr ⟨hm, ?_⟩
    have := hmax.2
    simp only at this
    simpa using this

theorem setIns_nodup {α : Type} [DecidableEq α] (l : List α) (x : α) (h : l.Nodup) : (setIns l x).Nodup := by
  unfold setIns
  split
  · exact h
  · rename_i hx
    refine List.nodup_append.mpr ⟨h, by simp, ?_⟩
    intro a ha b hb
    simp at hb; subst hb
    intro e; subst e; exact hx ha

theorem setDel_nodup {α : Type} [DecidableEq α] (l : List α) (x : α) (h : l.Nodup) : (setDel l x).Nodup := by
  unfold setDel
  exact h.sublist List.filter_sublist

/-- the nonces of one account in a duplicate-free index are distinct -/
theorem noncesOf_nodup (p : Pool) (a : String) (h : p.nidx.Nodup) : (noncesOf p a).Nodup := by
  unfold noncesOf
  have hf : (p.nidx.filter (·.1 == a)).Nodup := h.sublist List.filter_sublist
  have hm : ((p.nidx.filter (·.1 == a)).map (·.2)).Nodup := by
    have key : ∀ (l : List Ptr), l.Nodup → (∀ x ∈ l, x.1 = a) → (l.map (·.2)).Nodup := by
      intro l
      induction l with
      | nil => intro _ _; exact List.nodup_nil
      | cons x rest ih =>
        intro hn hall
        obtain ⟨h1, h2⟩ := List.nodup_cons.mp hn
        simp only [List.map_cons]
        refine List.nodup_cons.mpr ⟨?_, ih h2 (fun y hy => hall y (List.mem_cons_of_mem _ hy))⟩
        intro hm
        obtain ⟨y, hy, e⟩ := List.mem_map.mp hm
        have : y = x := Prod.ext (by rw [hall y (List.mem_cons_of_mem _ hy), hall x (List.mem_cons_self ..)]) e
        exact h1 (this ▸ hy)
    exact key _ hf (fun x hx => by have := (List.mem_filter.mp hx).2; simpa using this)
  exact (List.mergeSort_perm _ _).nodup_iff.mpr hm


theorem getPending_nidx (p : Pool) (a : String) : (getPending p a).1.nidx = p.nidx := by
  unfold getPending getCommit
  split
  · rfl
  · split <;> rfl

theorem noncesOf_congr {p q : Pool} (h : q.nidx = p.nidx) (a : String) : noncesOf q a = noncesOf p a := by
  unfold noncesOf; rw [h]

/-- inserting transactions keeps the nonce index a set -/
theorem insertTxs_nidx_nodup (valid : List TxR) (group : Nat) (p : Pool) (h : p.nidx.Nodup) : (insertTxs p valid group).nidx.Nodup := by
  unfold insertTxs
  induction valid generalizing p with
  | nil => exact h
  | cons tx rest ih =>
    simp only [List.foldl_cons]
    exact ih _ (setIns_nodup _ _ h)

end Bxh.Mempool
