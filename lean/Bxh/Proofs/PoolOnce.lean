import Bxh.Proofs.PoolHeld
/-!
# Who changes the set of batched pointers

`batched` (the `batchedTxs` map of `mempoolImpl`) grows only where a batch is built (`addPtr`) and shrinks only in
`processCommitTransactions`, by the pointers of the hashes the commit names.  Everything else leaves it alone.
-/
namespace Bxh.Mempool
open Bxh

theorem getPending_batched (p : Pool) (a : String) : (getPending p a).1.batched = p.batched := by
  unfold getPending
  split
  · rfl
  · exact getCommit_batched p a

theorem processDirty_batched (p : Pool) (a : String) : (processDirty p a).batched = p.batched := by
  unfold processDirty
  exact getPending_batched p a

theorem admission_batched (p : Pool) (txs : List TxR) : (admission p txs).1.batched = p.batched := by
  unfold admission
  simp only
  exact foldl_inv (fun (acc : Pool × List TxR × List Ptr) => acc.1.batched = p.batched)
    (fun (acc : Pool × List TxR × List Ptr) tx =>
      let (p1, cur) := getPending acc.1 tx.acct
      if tx.nonce < cur then (p1, acc.2.1, acc.2.2)
      else if (tx.acct, tx.nonce) ∈ acc.2.2 then (p1, acc.2.1, acc.2.2)
      else
        let seen := acc.2.2 ++ [(tx.acct, tx.nonce)]
        if (KV.get p1.hashMap tx.hash).isSome then (p1, acc.2.1, seen)
        else (p1, acc.2.1 ++ [tx], seen)) txs (p, [], []) rfl
    (by
      intro b x _ hb
      have g := (getPending_batched b.1 x.acct).trans hb
      simp only
      split
      · exact g
      · split
        · exact g
        · split <;> exact g)

theorem insertTxs_batched (p : Pool) (valid : List TxR) (group : Nat) : (insertTxs p valid group).batched = p.batched := by
  unfold insertTxs
  apply foldl_inv (fun (q : Pool) => q.batched = p.batched)
  · rfl
  · intro b x _ hb; exact hb

theorem dropTxs_batched (p : Pool) (txs : List TxR) : (dropTxs p txs).batched = p.batched := by
  unfold dropTxs
  apply foldl_inv (fun q : Pool => q.batched = p.batched)
  · rfl
  · intro b x _ hb; exact hb

theorem evict_batched (p : Pool) (cut : Nat) : (evict p cut).1.batched = p.batched := by
  unfold evict
  simp only
  apply foldl_inv (fun q : Pool => q.batched = p.batched)
  · rfl
  · intro b x _ hb; exact hb

/-- the pool `ProcessTransactions` has built when it decides whether to cut a batch -/
def processPre (p : Pool) (txs : List TxR) (group : Nat) : Pool :=
  (dedup ((admission p txs).2.map (·.acct))).foldl processDirty (insertTxs (admission p txs).1 (admission p txs).2 group)

theorem process_eq (p : Pool) (txs : List TxR) (isLeader : Bool) (group : Nat) :
    process p txs isLeader group =
      if isLeader && (processPre p txs group).nonBatch ≥ (processPre p txs group).batchSize && !(processPre p txs group).timed
      then generateBlock (processPre p txs group) else (processPre p txs group, none) := rfl

theorem processPre_batched (p : Pool) (txs : List TxR) (group : Nat) : (processPre p txs group).batched = p.batched := by
  unfold processPre
  have hd : ∀ (accts : List String) (q : Pool), (accts.foldl processDirty q).batched = q.batched := by
    intro accts q
    exact foldl_inv (fun r => r.batched = q.batched) processDirty accts q rfl
      (fun b x _ hb => (processDirty_batched b x).trans hb)
  rw [hd, insertTxs_batched, admission_batched]

theorem mem_setDel {α : Type} [DecidableEq α] (l : List α) (x y : α) : y ∈ setDel l x ↔ y ∈ l ∧ y ≠ x := by
  unfold setDel; simp

/-- the hash map only loses bindings during a commit: a binding seen in the middle was there at the start -/
theorem get_erase_some {α β : Type} [DecidableEq α] (m : KV α β) (k k' : α) (v : β) (h : KV.get (KV.erase m k) k' = some v) :
    KV.get m k' = some v := by
  by_cases e : k = k'
  · subst e; rw [KV.get_erase_eq] at h; cases h
  · rw [KV.get_erase_ne _ _ _ e] at h; exact h

/-- **a commit un-batches only pointers of hashes it names** (and batches nothing) -/
theorem commit_batched (p : Pool) (hashes : List String) (x : Ptr) :
    (x ∈ (commit p hashes).batched → x ∈ p.batched) ∧
    (x ∈ p.batched → x ∉ (commit p hashes).batched → ∃ h ∈ hashes, KV.get p.hashMap h = some x) := by
  unfold commit
  simp only
  -- the naming loop
  have h1 := foldl_inv (fun (acc : Pool × KV String Nat × List String) =>
      (∀ h v, KV.get acc.1.hashMap h = some v → KV.get p.hashMap h = some v) ∧
      (x ∈ acc.1.batched → x ∈ p.batched) ∧
      (x ∈ p.batched → x ∉ acc.1.batched → ∃ h ∈ hashes, KV.get p.hashMap h = some x))
    (fun (acc : Pool × KV String Nat × List String) h =>
      match KV.get acc.1.hashMap h with
      | none => acc
      | some ptr =>
        let (p1, pre) := getCommit acc.1 ptr.1
        let nw := ptr.2 + 1
        let upd := if KV.getD acc.2.1 ptr.1 0 < nw && pre < nw then KV.set acc.2.1 ptr.1 nw else acc.2.1
        ({ p1 with hashMap := KV.erase p1.hashMap h, batched := setDel p1.batched ptr }, upd,
         if ptr.1 ∈ acc.2.2 then acc.2.2 else acc.2.2 ++ [ptr.1])) hashes (p, [], [])
    ⟨fun _ _ hv => hv, fun hx => hx, fun hx hnx => absurd hx hnx⟩
    (by
      intro b hsh hin ⟨hb1, hb2, hb3⟩
      simp only
      split
      · exact ⟨hb1, hb2, hb3⟩
      · rename_i ptr hptr
        simp only
        refine ⟨?_, ?_, ?_⟩
        · intro h v hv
          rw [(getCommit_hashMap _ _).1] at hv
          exact hb1 h v (get_erase_some _ _ _ _ hv)
        · intro hx
          rw [mem_setDel, getCommit_batched] at hx
          exact hb2 hx.1
        · intro hx hnx
          rw [mem_setDel, getCommit_batched] at hnx
          by_cases hxb : x ∈ b.1.batched
          · have : x = ptr := Classical.byContradiction (fun hne => hnx ⟨hxb, hne⟩)
            subst this
            exact ⟨hsh, hin, hb1 hsh x hptr⟩
          · exact hb3 hx hxb)
  generalize (List.foldl _ (p, ([] : KV String Nat), ([] : List String)) hashes) = r at h1 ⊢
  obtain ⟨_, h12, h13⟩ := h1
  have h2 := foldl_inv (fun (q : Pool) => q.batched = r.1.batched)
    (fun p a =>
      let (p', cn) := getCommit p a
      let gone := ((noncesOf p' a).filter (· < cn)).filterMap (fun n => KV.get p'.items (a, n))
      let p'' := { p' with items := gone.foldl (fun m tx => KV.erase m (tx.acct, tx.nonce)) p'.items }
      dropTxs p'' gone) r.2.2
    { r.1 with commitN := r.2.1.foldl (fun m kv => KV.set m kv.1 kv.2) r.1.commitN } rfl
    (by
      intro b a _ hb
      simp only
      rw [dropTxs_batched]
      simp only [getCommit_batched]
      exact hb)
  split
  · simp only [h2]; exact ⟨h12, h13⟩
  · rw [h2]; exact ⟨h12, h13⟩

end Bxh.Mempool
