import Bxh.Proofs.ExecFrame
/-!
# Who writes one-to-one transaction records (`tx-<id>`)

Only `Begin` / `BeginInterBitXHub` (a fresh record) and `Report` (one FSM step on an existing
record) write a `.txRec` key while an IBTP is handled; the timeout list, the one-to-many records,
the notification map and `ProcessIBTP` never do.
-/
namespace Bxh.Exec
open Bxh

/-- transaction-manager keys other than the one-to-one records -/
def Key.isTmAux : Key → Bool
  | .timeout _ | .glob _ | .child _ | .multi _ => true
  | _ => false

theorem rec_not_aux (t : TxId) : (Key.txRec t).isTmAux = false := rfl

theorem tmAddTimeout_frameA (l : Led) (h : Nat) (id : TId) (k : Key) (hk : k.isTmAux = false) :
    (tmAddTimeout l h id).getS k = l.getS k := by
  unfold tmAddTimeout
  split <;> (try split) <;> simp <;> intro hh <;> subst hh <;> simp [Key.isTmAux] at hk

theorem tmRemoveTimeout_frameA {l l' : Led} {h : Nat} {id : TId} (e : tmRemoveTimeout l h id = .ok l') (k : Key)
    (hk : k.isTmAux = false) : l'.getS k = l.getS k := by
  unfold tmRemoveTimeout at e
  split at e
  · split at e
    · cases e; rfl
    · split at e
      · cases e; simp; intro hh; subst hh; simp [Key.isTmAux] at hk
      · cases e
  · cases e; rfl

theorem tmBeginMulti_frameA {l : Led} {cur : Nat} {gid : GId} {id : TxId} {t : Nat} {f : Bool} {n : Nat} {r : Led × StatusChange}
    (e : tmBeginMulti l cur gid id t f n = .ok r) (k : Key) (hk : k.isTmAux = false) : r.1.getS k = l.getS k := by
  have hc : Key.child id ≠ k := by intro hh; subst hh; simp [Key.isTmAux] at hk
  have hg : Key.glob gid ≠ k := by intro hh; subst hh; simp [Key.isTmAux] at hk
  unfold tmBeginMulti at e
  split at e
  · split at e
    · cases e
    · split at e
      · cases e; simp [hc, hg]
      · split at e
        · split at e
          · cases e
          · rename_i l0 h0
            cases e
            simp [hc, hg, tmRemoveTimeout_frameA h0 k hk]
        · cases e; simp [hc, hg]
  · cases e
    by_cases hf : f = true
    · simp [hf, hc, hg]
    · simp [hf, hc, hg, tmAddTimeout_frameA _ _ _ k hk]

theorem tmChangeMulti_frameA {l : Led} {gid : GId} {g : Global} {id : TxId} {typ : Nat} {r : Led × Global}
    (e : tmChangeMulti l gid g id typ = .ok r) (k : Key) (hk : k.isTmAux = false) : r.1.getS k = l.getS k := by
  unfold tmChangeMulti at e
  split at e
  · split at e
    · cases e
    · rename_i l0 h0; cases e; exact tmRemoveTimeout_frameA h0 k hk
  · simp only at e
    split at e
    · cases e
    · split at e
      · split at e
        · cases e
        · split at e
          · cases e
          · rename_i l0 h0; cases e; exact tmRemoveTimeout_frameA h0 k hk
      · cases e; rfl

theorem addToMultiNotify_frameA (env : Env) (l : Led) (ids : List TxId) (b : Bool) (k : Key) (hk : k.isTmAux = false) :
    (addToMultiNotify env l ids b).getS k = l.getS k := by
  unfold addToMultiNotify
  split
  · rfl
  · simp; intro hh; subst hh; simp [Key.isTmAux] at hk

theorem notifySrcDst_frameA (env : Env) (l : Led) (src dst : SvcId) (c : StatusChange) (b : Bool) (k : Key) (hk : k.isTmAux = false) :
    (notifySrcDst env l src dst c b).getS k = l.getS k := by
  unfold notifySrcDst
  cases notifyFlags c with
  | mk ns nd =>
    simp only [Led.getS_post]
    cases ns <;> cases nd <;> cases isLocal env src <;> cases isLocal env dst <;>
      simp only [if_true, if_false, Bool.false_eq_true, addToMultiNotify_frameA _ _ _ _ k hk]

theorem setIC_rec (l : Led) (s : SvcId) (i : IC) (t : TxId) : (setIC l s i).getS (.txRec t) = l.getS (.txRec t) := by
  unfold setIC; simp

theorem setDestIC_rec (l : Led) (f t' : SvcId) (n : Nat) (ic : IC) (t : TxId) :
    (setDestIC l f t' n ic).getS (.txRec t) = l.getS (.txRec t) := by
  unfold setDestIC; simp [setIC_rec]

theorem foldl_setDestIC_rec (cids : List TxId) (l : Led) (t : TxId) :
    (cids.foldl (fun l cid => setDestIC l cid.frm cid.to cid.index (getIC l cid.frm)) l).getS (.txRec t) = l.getS (.txRec t) := by
  induction cids generalizing l with
  | nil => rfl
  | cons c rest ih => simp only [List.foldl_cons]; rw [ih, setDestIC_rec]

/-- `ProcessIBTP` writes counters and index markers only -/
theorem processIBTP_rec (l : Led) (i : Ibtp) (ck : Checked) (c : StatusChange) (t : TxId) :
    (processIBTP l i ck c).1.getS (.txRec t) = l.getS (.txRec t) := by
  unfold processIBTP
  simp only
  split
  · simp [setIC_rec]
  · simp only [Led.getS_setS]
    rw [if_neg (by intro hh; cases hh)]
    split
    · split
      · exact foldl_setDestIC_rec _ _ _
      · exact setDestIC_rec _ _ _ _ _ _
    · rfl

/-- what a begun request may do to the record of `t`: nothing; or (when `t` is the request's own id) write a fresh BEGIN /
BEGIN_FAILURE record — inside one hub whatever was there, between two hubs only where there was none; or, between two hubs and
on an existing record, one step of the transaction state machine by the event the `Extra` field names (the destination hub's
notice) -/
theorem beginTransaction_rec {env : Env} {l : Led} {i : Ibtp} {ck : Checked} {r : Led × StatusChange}
    (e : beginTransaction env l i ck = .ok r) (t : TxId) :
    r.1.getS (.txRec t) = l.getS (.txRec t) ∨
    (t = { frm := ck.src, to := ck.dst, index := i.index } ∧ (ck.src.bxh = ck.dst.bxh ∨ l.getS (.txRec t) = none)) ∨
    (t = { frm := ck.src, to := ck.dst, index := i.index } ∧ ∃ rec st', l.getS (.txRec t) = some (.trec rec) ∧
      txFsmStep rec.status (noticeEvent i.ext) = some st' ∧ r.1.getS (.txRec t) = some (.trec { rec with status := st' })) := by
  by_cases ht : t = { frm := ck.src, to := ck.dst, index := i.index }
  · unfold beginTransaction at e
    simp only at e
    split at e
    · split at e
      · cases e
      · rename_i r0 h0
        cases e
        unfold tmBeginInter at h0
        split at h0
        · rename_i rec hrec
          split at h0
          · cases h0
          · split at h0
            · cases h0
            · rename_i st' hst
              cases h0
              right; right
              subst ht
              exact ⟨rfl, rec, st', hrec, hst, by simp⟩
        · cases h0
        · rename_i hnone
          right; left
          exact ⟨ht, Or.inr (by subst ht; exact hnone)⟩
    · rename_i hb
      right; left
      exact ⟨ht, Or.inl (by simpa using hb)⟩
  · left
    have hne : ¬ ({ frm := ck.src, to := ck.dst, index := i.index } : TxId) = t := fun h => ht h.symm
    unfold beginTransaction at e
    simp only at e
    split at e
    · split at e
      · cases e
      · rename_i r0 h0
        cases e
        unfold tmBeginInter at h0
        split at h0
        · split at h0
          · cases h0
          · split at h0
            · cases h0
            · cases h0; simp [hne]
        · cases h0
        · cases h0; simp [hne]
    · split at e
      · cases e; unfold tmBegin; simp [hne]
      · split at e
        · cases e
        · rename_i r0 h0; cases e; exact tmBeginMulti_frameA h0 _ (rec_not_aux t)

/-- what an accepted receipt may do to the record of `t`: nothing, or (when `t` is the reported id and
has a record) one step of the transaction state machine -/
theorem tmReport_rec {l : Led} {id : TxId} {typ : Nat} {r : Led × StatusChange}
    (e : tmReport l id typ = .ok r) (t : TxId) :
    r.1.getS (.txRec t) = l.getS (.txRec t) ∨
    (t = id ∧ ∃ rec st', l.getS (.txRec id) = some (.trec rec) ∧ txFsmStep rec.status (receiptEvent typ) = some st' ∧
      r.1.getS (.txRec id) = some (.trec { rec with status := st' })) := by
  unfold tmReport at e
  split at e
  · rename_i rec hrec
    split at e
    · cases e
    · rename_i st' hst
      cases e
      by_cases ht : id = t
      · right
        subst ht
        exact ⟨rfl, rec, st', hrec, hst, by simp⟩
      · left; simp [ht]
  · cases e
  · split at e
    · split at e
      · split at e
        · cases e
        · split at e
          · cases e
          · rename_i l1 g' h0
            cases e
            left
            simp only [Led.getS_setS]
            rw [if_neg (by intro hh; cases hh)]
            exact tmChangeMulti_frameA h0 _ (rec_not_aux t)
      · cases e
    · cases e

/-- the one-to-one status stored for `t` -/
def recStatus (l : Led) (t : TxId) : Option Status :=
  match l.getS (.txRec t) with
  | some (.trec r) => some r.status
  | _ => none

theorem recStatus_congr {l l' : Led} {t : TxId} (h : l'.getS (.txRec t) = l.getS (.txRec t)) : recStatus l' t = recStatus l t := by
  unfold recStatus; rw [h]

/-- **one handled IBTP and one record**: the record of `t` is untouched; or the IBTP is a request (no notice, or none that
found a record) with exactly the id `t`; or the status made one step of the state machine — by the event of a receipt, or by
the event the destination hub's notice names -/
theorem handleIBTP_rec {env : Env} {l : Led} {i : Ibtp} {ck : Checked} {r : Led × String}
    (hck : checkIBTP env l i = .ok ck) (h : handleIBTP env l i = .ok r) (t : TxId) :
    r.1.getS (.txRec t) = l.getS (.txRec t) ∨
    (i.typ.isRequest = true ∧ t = { frm := ck.src, to := ck.dst, index := i.index } ∧
      (ck.notice = false ∨ l.getS (.txRec t) = none)) ∨
    (∃ ev st st', recStatus l t = some st ∧ txFsmStep st ev = some st' ∧ recStatus r.1 t = some st') := by
  unfold handleIBTP at h
  simp only [hck] at h
  split at h
  · cases h
  · rename_i l1 c hr
    -- everything after the begin / report leaves records alone
    have hafter : r.1.getS (.txRec t) = l1.getS (.txRec t) := by
      have hn : (notifySrcDst env l1 ck.src ck.dst c ck.isBatch).getS (.txRec t) = l1.getS (.txRec t) :=
        notifySrcDst_frameA _ _ _ _ _ _ _ (rec_not_aux t)
      have hp := processIBTP_rec (notifySrcDst env l1 ck.src ck.dst c ck.isBatch) i ck c t
      generalize hpr : processIBTP (notifySrcDst env l1 ck.src ck.dst c ck.isBatch) i ck c = pr at h hp
      obtain ⟨l3, ret⟩ := pr
      simp only at h hp
      split at h
      · split at h
        · cases h
        · cases h
          show ((l3.post .audit).post .audit).getS _ = _
          simp only [Led.getS_post]
          rw [hp, hn]
      · cases h; rw [hp, hn]
    by_cases hreq : i.typ.isRequest = true
    · simp only [hreq, if_true] at hr
      rcases beginTransaction_rec hr t with h1 | ⟨ht, h1⟩ | ⟨ht, rec, st', h2, h3, h4⟩
      · left; rw [hafter, h1]
      · right; left
        refine ⟨hreq, ht, ?_⟩
        rcases h1 with h1 | h1
        · exact Or.inl (checkIBTP_local_no_notice hck h1)
        · exact Or.inr h1
      · right; right
        refine ⟨noticeEvent i.ext, rec.status, st', ?_, h3, ?_⟩
        · unfold recStatus; rw [h2]
        · unfold recStatus; rw [hafter, h4]
    · simp only [hreq, if_false, Bool.false_eq_true] at hr
      split at hr
      · split at hr
        · cases hr
        · rename_i y hy
          cases hr
          rcases tmReport_rec hy t with h1 | ⟨ht, rec, st', h2, h3, h4⟩
          · left; rw [hafter, h1]
          · right; right
            refine ⟨receiptEvent i.typ.toNat, rec.status, st', ?_, h3, ?_⟩
            · subst ht; unfold recStatus; rw [h2]
            · subst ht; unfold recStatus; rw [hafter, h4]
      · cases hr

end Bxh.Exec
