import Bxh.Proofs.LedgerRollback
/-!
# Reads after `FlushDirtyData`: the account cache hands back what the block wrote

After a flush the block's account objects are gone (`accounts := []`); a read of a key the block wrote goes through
`GetOrCreateAccount` (inner-account cache, then database) and finds the key in the storage cache, where `AccountCache.add`
put the dirty value.
-/
namespace Bxh.Ledger
open Bxh

theorem foldSet_other (ds : KV String Bytes) (b : KV String Bytes) (k : String) (h : ∀ q ∈ ds, q.1 ≠ k) :
    KV.get (ds.foldl (fun m p => KV.set m p.1 p.2) b) k = KV.get b k := by
  induction ds generalizing b with
  | nil => rfl
  | cons p rest ih =>
    simp only [List.foldl_cons]
    rw [ih _ (fun q hq => h q (List.mem_cons_of_mem _ hq)), KV.get_set_ne _ _ _ _ (h p (List.mem_cons_self ..))]

theorem foldSet_get (ds : KV String Bytes) (b : KV String Bytes) (k : String) (v : Bytes)
    (hk : ∃ p ∈ ds, p.1 = k) (hv : ∀ p ∈ ds, p.1 = k → p.2 = v) :
    KV.get (ds.foldl (fun m p => KV.set m p.1 p.2) b) k = some v := by
  induction ds generalizing b with
  | nil => obtain ⟨p, hp, _⟩ := hk; cases hp
  | cons p rest ih =>
    simp only [List.foldl_cons]
    by_cases hr : ∃ q ∈ rest, q.1 = k
    · exact ih _ hr (fun q hq => hv q (List.mem_cons_of_mem _ hq))
    · have hno : ∀ q ∈ rest, q.1 ≠ k := fun q hq e => hr ⟨q, hq, e⟩
      rw [foldSet_other rest _ k hno]
      obtain ⟨q, hq, hqk⟩ := hk
      rcases List.mem_cons.mp hq with rfl | hq
      · rw [← hqk, KV.get_set_eq, hv q (List.mem_cons_self ..) hqk]
      · exact absurd hqk (hno q hq)

-- `cacheAdd` in three steps
def innerC (c : Cache) (a : Addr) (acc : Acct) : Cache :=
  match acc.dirtyAcc with
  | some d => { c with inner := KV.set c.inner a d }
  | none => c

def stateC (c1 : Cache) (a : Addr) (acc : Acct) : Cache :=
  let existing := KV.get c1.state a
  let sc := acc.dirtyState.foldl (fun m p => KV.set m p.1 p.2) (existing.getD [])
  if existing.isSome || !sc.isEmpty then { c1 with state := KV.set c1.state a sc } else c1

def codeC (c2 : Cache) (a : Addr) (acc : Acct) : Cache :=
  if !beq acc.originCode acc.dirtyCode then
    match acc.dirtyAcc with
    | some d =>
      match acc.originAcc with
      | some o => if !beq d.codeHash o.codeHash then { c2 with code := KV.set c2.code a acc.dirtyCode } else c2
      | none => { c2 with code := KV.set c2.code a acc.dirtyCode }
    | none => c2
  else c2

theorem cacheAdd_eq (c : Cache) (a : Addr) (acc : Acct) :
    cacheAdd c a acc = codeC (stateC (innerC c a acc) a acc) a acc := rfl

theorem innerC_state (c : Cache) (a : Addr) (acc : Acct) : (innerC c a acc).state = c.state := by
  unfold innerC; split <;> rfl

theorem codeC_state (c : Cache) (a : Addr) (acc : Acct) : (codeC c a acc).state = c.state := by
  unfold codeC
  split
  · split
    · split
      · split <;> rfl
      · rfl
    · rfl
  · rfl

/-- what `AccountCache.add` leaves in the storage cache of the account it adds -/
theorem cacheAdd_state_self (c : Cache) (a : Addr) (acc : Acct) (k : String) (v : Bytes)
    (hk : ∃ p ∈ acc.dirtyState, p.1 = k) (hv : ∀ p ∈ acc.dirtyState, p.1 = k → p.2 = v) :
    ∃ m, KV.get (cacheAdd c a acc).state a = some m ∧ KV.get m k = some v := by
  rw [cacheAdd_eq, codeC_state]
  unfold stateC
  simp only
  generalize hsc : acc.dirtyState.foldl (fun m p => KV.set m p.1 p.2) ((KV.get (innerC c a acc).state a).getD []) = sc
  have hget : KV.get sc k = some v := by rw [← hsc]; exact foldSet_get _ _ k v hk hv
  have hne : sc.isEmpty = false := by
    cases sc with
    | nil => simp [KV.get] at hget
    | cons _ _ => rfl
  simp only [hne, Bool.not_false, Bool.or_true, if_true]
  exact ⟨sc, KV.get_set_eq _ _ _, hget⟩

theorem cacheAdd_state_other (c : Cache) (a b : Addr) (acc : Acct) (hne : b ≠ a) :
    KV.get (cacheAdd c a acc).state b = KV.get c.state b := by
  rw [cacheAdd_eq, codeC_state]
  unfold stateC
  simp only
  split
  · simp only [KV.get_set_ne _ _ _ _ (Ne.symm hne), innerC_state]
  · rw [innerC_state]

theorem cacheFold_other (items : List Item) (c : Cache) (b : Addr) (h : ∀ p ∈ items, p.1 ≠ b) :
    KV.get (items.foldl (fun c p => cacheAdd c p.1 p.2) c).state b = KV.get c.state b := by
  induction items generalizing c with
  | nil => rfl
  | cons p rest ih =>
    simp only [List.foldl_cons]
    rw [ih _ (fun q hq => h q (List.mem_cons_of_mem _ hq)),
      cacheAdd_state_other c p.1 b p.2 (Ne.symm (h p (List.mem_cons_self ..)))]

theorem cacheFold_state (items : List Item) (c : Cache) (a : Addr) (acc : Acct) (k : String) (v : Bytes)
    (hnd : (items.map (·.1)).Nodup) (hmem : (a, acc) ∈ items)
    (hk : ∃ p ∈ acc.dirtyState, p.1 = k) (hv : ∀ p ∈ acc.dirtyState, p.1 = k → p.2 = v) :
    ∃ m, KV.get (items.foldl (fun c p => cacheAdd c p.1 p.2) c).state a = some m ∧ KV.get m k = some v := by
  obtain ⟨pre, post, rfl⟩ := List.append_of_mem hmem
  have hnd' : ((pre.map (·.1)) ++ a :: post.map (·.1)).Nodup := by simpa using hnd
  have hpost : ∀ q ∈ post, q.1 ≠ a := by
    intro q hq e
    have h2 := (List.nodup_cons.mp (List.nodup_append.mp hnd').2.1).1
    exact h2 (by rw [← e]; exact List.mem_map.mpr ⟨q, hq, rfl⟩)
  simp only [List.foldl_append, List.foldl_cons]
  rw [cacheFold_other post _ a hpost]
  exact cacheAdd_state_self _ a acc k v hk hv

theorem loadOrigin_dirtyState (l : L) (a : Addr) (acc : Acct) : (loadOrigin l a acc).dirtyState = acc.dirtyState := by
  unfold loadOrigin; split <;> rfl

theorem flushItems_mem_of (l : L) (a : Addr) (acc : Acct) (hmem : (a, acc) ∈ l.accounts)
    (hd : (journalOf l a acc).1.isSome = true) : (a, loadOrigin l a acc) ∈ flushItems l := by
  unfold flushItems
  apply List.mem_filterMap.mpr
  refine ⟨(a, journalOf l a acc), List.mem_map.mpr ⟨(a, acc), hmem, rfl⟩, ?_⟩
  simp only
  cases hj : (journalOf l a acc).1 with
  | none => rw [hj] at hd; cases hd
  | some e => simp only [journalOf_snd]

/-- `GetOrCreateAccount` on a ledger without account objects: whatever it finds (inner-account cache, database, nothing),
the object it returns has no loaded or written storage yet, and the caches are untouched -/
theorem getOrCreate_fresh (l : L) (a : Addr) (h : l.accounts = []) :
    (getOrCreate l a).2.dirtyState = [] ∧ (getOrCreate l a).2.originState = [] ∧ (getOrCreate l a).1.cache = l.cache ∧
    (getOrCreate l a).1.db = l.db := by
  unfold getOrCreate getAccount
  simp only [h, KV.get]
  split
  · rename_i heq
    split at heq
    · split at heq <;> (injection heq with h1 h2; injection h2 with h2; subst h1; subst h2; exact ⟨rfl, rfl, rfl, rfl⟩)
    · split at heq
      · split at heq <;> (injection heq with h1 h2; injection h2 with h2; subst h1; subst h2; exact ⟨rfl, rfl, rfl, rfl⟩)
      · injection heq with h1 h2; cases h2
  · rename_i heq
    split at heq
    · split at heq <;> (injection heq with h1 h2; cases h2)
    · split at heq
      · split at heq <;> (injection heq with h1 h2; cases h2)
      · injection heq with h1 h2
        subst h1
        exact ⟨rfl, rfl, rfl, rfl⟩

/-- a read that finds the key in the storage cache returns the cached value -/
theorem getState_from_cache (l : L) (a : Addr) (k : String) (v : Bytes) (m : KV String Bytes) (h : l.accounts = [])
    (hc : KV.get l.cache.state a = some m) (hm : KV.get m k = some v) : (getState l a k).2 = v := by
  obtain ⟨f1, f2, f3, _⟩ := getOrCreate_fresh l a h
  unfold getState
  simp only
  rw [f1, f2]
  simp only [KV.get, f3, hc, Option.bind, hm]

/-- **read after flush**: a key written by the block in a modified account reads back, after `FlushDirtyData` dropped the
block's account objects, as the value the block last wrote — served by the account cache, before any commit -/
theorem read_after_flush (H : RootPre → String) (l : L) (a : Addr) (acc : Acct) (k : String) (v : Bytes)
    (hnd : (l.accounts.map (·.1)).Nodup) (hmem : (a, acc) ∈ l.accounts)
    (hd : (journalOf l a acc).1.isSome = true)
    (hk : ∃ p ∈ acc.dirtyState, p.1 = k) (hv : ∀ p ∈ acc.dirtyState, p.1 = k → p.2 = v) :
    (getState (flush H l).1 a k).2 = v := by
  have hitems := flushItems_mem_of l a acc hmem hd
  have hnd' : ((flushItems l).map (·.1)).Nodup := (flushItems_sublist l l.accounts).nodup hnd
  obtain ⟨m, hm1, hm2⟩ := cacheFold_state (flushItems l) l.cache a (loadOrigin l a acc) k v hnd' hitems
    (by rw [loadOrigin_dirtyState]; exact hk) (by rw [loadOrigin_dirtyState]; exact hv)
  exact getState_from_cache (flush H l).1 a k v m rfl hm1 hm2

-- ------------------------------------------------------------------ reads served by the database after a commit and a reopen

theorem commitState_get (a : Addr) (origin dirty : KV String Bytes) (st : KV (Addr × String) String) (k : String) (v : Bytes)
    (hk : ∃ p ∈ dirty, p.1 = k) (hv : ∀ p ∈ dirty, p.1 = k → p.2 = v) :
    KV.get (commitState a origin dirty st) (a, k) = if chg origin (k, v) = true then v else KV.get st (a, k) := by
  unfold commitState
  induction dirty generalizing st with
  | nil => obtain ⟨p, hp, _⟩ := hk; cases hp
  | cons p rest ih =>
    simp only [List.foldl_cons]
    by_cases hr : ∃ q ∈ rest, q.1 = k
    · rw [ih _ hr (fun q hq => hv q (List.mem_cons_of_mem _ hq))]
      split
      · rfl
      · rename_i hc
        -- the head entry, if it is about `k`, is unchanged as well
        split
        · rename_i hc2
          rw [get_putB]
          by_cases hpk : p.1 = k
          · have : p.2 = v := hv p (List.mem_cons_self ..) hpk
            exfalso; apply hc
            show (!beq ((KV.get origin k).getD none) v) = true
            rw [← hpk, ← this]; exact hc2
          · have : ¬ ((a, p.1) = (a, k)) := by intro e; injection e with _ e2; exact hpk e2
            simp only [this, if_false]
        · rfl
    · have hno : ∀ q ∈ rest, q.1 ≠ k := fun q hq e => hr ⟨q, hq, e⟩
      have hun := commitState_untouched a a k origin rest
      unfold commitState at hun
      rw [hun _ (Or.inr (fun q hq _ => hno q hq))]
      obtain ⟨q, hq, hqk⟩ := hk
      rcases List.mem_cons.mp hq with rfl | hq
      · have hq2 : q.2 = v := hv q (List.mem_cons_self ..) hqk
        have hqe : q = (k, v) := by rw [← hqk, ← hq2]
        rw [hqe]
        show KV.get (if chg origin (k, v) = true then putB st (a, k) v else st) (a, k) = _
        split
        · rw [get_putB]; simp
        · rfl
      · exact absurd hqk (hno q hq)

theorem getState_from_db (l : L) (a : Addr) (k : String) (h : l.accounts = []) (hc : KV.get l.cache.state a = none) :
    (getState l a k).2 = KV.get l.db.state (a, k) := by
  obtain ⟨f1, f2, f3, f4⟩ := getOrCreate_fresh l a h
  unfold getState
  simp only
  rw [f1, f2]
  simp only [KV.get, f3, hc, Option.bind, f4]

theorem reopen_facts (l l2 : L) (h : reopen l = some l2) : l2.accounts = [] ∧ l2.cache = {} ∧ l2.db = l.db := by
  unfold reopen at h
  simp only at h
  split at h
  · split at h
    · injection h with h; subst h; exact ⟨rfl, rfl, rfl⟩
    · cases h
  · injection h with h; subst h; exact ⟨rfl, rfl, rfl⟩

/-- **read after commit and reopen**: the block's last write to a key of a modified account is what a freshly opened ledger
(empty caches) reads from the database — as bytes; when the write did not change the stored bytes nothing was written and
the stored bytes are read -/
theorem read_after_commit_reopen (H : RootPre → String) (l l1 l2 : L) (h : Nat) (a : Addr) (acc : Acct) (k : String) (v : Bytes)
    (hnd : (l.accounts.map (·.1)).Nodup) (hmem : (a, acc) ∈ l.accounts)
    (hd : (journalOf l a acc).1.isSome = true)
    (hk : ∃ p ∈ acc.dirtyState, p.1 = k) (hv : ∀ p ∈ acc.dirtyState, p.1 = k → p.2 = v)
    (horigin : ((KV.get acc.originState k).getD none).getD "" = (KV.get l.db.state (a, k)).getD "")
    (hc : commit (flush H l).1 h (flush H l).2 = some l1) (hr : reopen l1 = some l2) :
    ((getState l2 a k).2).getD "" = v.getD "" := by
  obtain ⟨r1, r2, r3⟩ := reopen_facts l1 l2 hr
  rw [getState_from_db l2 a k r1 (by rw [r2]; rfl), r3]
  obtain ⟨bj, _, _, hs, _, _, _⟩ := commit_db _ _ _ _ hc
  rw [hs, flush_accounts]
  have hitems := flushItems_mem_of l a acc hmem hd
  have hnd' : ((flushItems l).map (·.1)).Nodup := (flushItems_sublist l l.accounts).nodup hnd
  obtain ⟨pre, post, hsplit⟩ := List.append_of_mem hitems
  rw [hsplit] at hnd' ⊢
  have hnd2 : ((pre.map (·.1)) ++ a :: post.map (·.1)).Nodup := by simpa using hnd'
  have hpre : ∀ q ∈ pre, q.1 ≠ a := by
    intro q hq e
    exact (List.nodup_append.mp hnd2).2.2 q.1 (List.mem_map.mpr ⟨q, hq, rfl⟩) a (List.mem_cons_self ..) e
  have hpost : ∀ q ∈ post, q.1 ≠ a := by
    intro q hq e
    have h2 := (List.nodup_cons.mp (List.nodup_append.mp hnd2).2.1).1
    exact h2 (by rw [← e]; exact List.mem_map.mpr ⟨q, hq, rfl⟩)
  have e1 : commits (pre ++ (a, loadOrigin l a acc) :: post) (flush H l).1.db =
      commits post (commitAcct (commits pre l.db) a (loadOrigin l a acc)) := by
    rw [commits_append]; rfl
  rw [e1, (commits_frame post _ a hpost).2.2 k, commitAcct_state]
  have hds : (loadOrigin l a acc).dirtyState = acc.dirtyState := loadOrigin_dirtyState l a acc
  have hos : (loadOrigin l a acc).originState = acc.originState := by unfold loadOrigin; split <;> rfl
  rw [hds, hos, commitState_get a acc.originState acc.dirtyState _ k v hk hv]
  split
  · rfl
  · rename_i hch
    rw [(commits_frame pre l.db a hpre).2.2 k, ← horigin]
    -- not changed: origin and written value are the same bytes
    unfold chg beq at hch
    simp only [Bool.not_eq_true', Bool.not_eq_false', beq_iff_eq] at hch
    simpa using hch

end Bxh.Ledger
