import Bxh.Proofs.LedgerRevert
/-!
# Frame of the block-level writes of the state ledger: what `SetState` / `SetBalance` / `SetNonce` never touch
-/
namespace Bxh.Ledger
open Bxh

/-- the fields of the ledger a block's writes never touch: database, account cache, the root the next block is chained to, the
journal window and the journals waiting for their commit -/
structure Frame (l r : L) : Prop where
  db : r.db = l.db
  cache : r.cache = l.cache
  prevRoot : r.prevRoot = l.prevRoot
  minJ : r.minJ = l.minJ
  maxJ : r.maxJ = l.maxJ
  bj : r.blockJournals = l.blockJournals

theorem Frame.refl (l : L) : Frame l l := ⟨rfl, rfl, rfl, rfl, rfl, rfl⟩
theorem Frame.trans {a b c : L} (h1 : Frame a b) (h2 : Frame b c) : Frame a c :=
  ⟨h2.db.trans h1.db, h2.cache.trans h1.cache, h2.prevRoot.trans h1.prevRoot, h2.minJ.trans h1.minJ, h2.maxJ.trans h1.maxJ, h2.bj.trans h1.bj⟩

theorem getOrCreate_frame (l : L) (a : Addr) : Frame l (getOrCreate l a).1 := by
  rw [getOrCreate_eq]
  cases KV.get l.accounts a with
  | some acc => exact Frame.refl l
  | none =>
    simp only
    cases loadAcct l a with
    | some acc => exact ⟨rfl, rfl, rfl, rfl, rfl, rfl⟩
    | none => exact ⟨rfl, rfl, rfl, rfl, rfl, rfl⟩

theorem getState_frame (l : L) (a : Addr) (k : String) : Frame l (getState l a k).1 := by
  rw [getState_eq]
  have h := getOrCreate_frame l a
  simp only
  split
  · exact h
  · split
    · exact h
    · exact ⟨h.db, h.cache, h.prevRoot, h.minJ, h.maxJ, h.bj⟩

theorem setState_frame (l : L) (a : Addr) (k : String) (v : Bytes) : Frame l (setState l a k v) := by
  have h := getState_frame l a k
  unfold setState
  exact ⟨h.db, h.cache, h.prevRoot, h.minJ, h.maxJ, h.bj⟩

theorem setBalance_frame (l : L) (a : Addr) (v : Int) : Frame l (setBalance l a v) := by
  have h := getOrCreate_frame l a
  unfold setBalance
  exact ⟨h.db, h.cache, h.prevRoot, h.minJ, h.maxJ, h.bj⟩

theorem setNonce_frame (l : L) (a : Addr) (v : Nat) : Frame l (setNonce l a v) := by
  have h := getOrCreate_frame l a
  unfold setNonce
  exact ⟨h.db, h.cache, h.prevRoot, h.minJ, h.maxJ, h.bj⟩

theorem applyWrites_frame (ws : List Write) (l : L) : Frame l (applyWrites ws l) := by
  induction ws generalizing l with
  | nil => exact Frame.refl l
  | cons w rest ih =>
    have h1 : Frame l (applyWrite l w) := by
      cases w with
      | storage a k v => exact setState_frame l a k v
      | balance a v => exact setBalance_frame l a v
      | nonce a v => exact setNonce_frame l a v
    exact h1.trans (ih (applyWrite l w))

end Bxh.Ledger
