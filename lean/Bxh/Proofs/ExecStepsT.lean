import Bxh.Proofs.ExecStepsS
import Bxh.Proofs.GoRemove
import Bxh.Proofs.ExecFrame
/-!
# The contract functions never put a one-to-one id on a timeout list

`StepsT` is reachability by storage writes and event posts in which every write to a `timeout-<d>` key stores a list whose
one-to-one entries (`TId.single`) were all on the list stored there before.  Everything `HandleIBTP` and the modelled BVM
calls do is of that kind: the transaction manager touches the timeout lists only for *groups* (`tmAddTimeout` /
`tmRemoveTimeout` with a global id).  The one-to-one entries are the executor's business (`setTimeoutList`, after the block's
transactions).  `StepsT.listed` turns this into: an id listed after such steps was listed before.
-/
namespace Bxh.Exec
open Bxh

/-- the one-to-one transaction `t` is an entry of the list stored under `timeout-<d>` -/
def listedAt (l : Led) (d : Nat) (t : TxId) : Prop :=
  ∃ lst, l.getS (.timeout d) = some (.tlist lst) ∧ some (TId.single t) ∈ lst

theorem listedAt_congr {l l' : Led} {d : Nat} {t : TxId} (h : l'.getS (.timeout d) = l.getS (.timeout d)) :
    listedAt l' d t ↔ listedAt l d t := by
  unfold listedAt; rw [h]

/-- what the timeout step reads is on the stored list -/
theorem listedAt_of_mem_getTimeoutList {l : Led} {d : Nat} {t : TxId} (h : TId.single t ∈ getTimeoutList l d) : listedAt l d t := by
  unfold getTimeoutList at h
  split at h
  · rename_i lst hl
    split at h
    · cases h
    · refine ⟨lst, hl, ?_⟩
      rw [List.mem_filterMap] at h
      obtain ⟨a, ha, e⟩ := h
      simp only [id] at e
      rw [← e]; exact ha
  · cases h

/-- how often the one-to-one transaction `t` occurs on the list stored under `timeout-<d>` -/
def listCount (l : Led) (d : Nat) (t : TxId) : Nat :=
  match l.getS (.timeout d) with
  | some (.tlist lst) => lst.count (some (TId.single t))
  | _ => 0

theorem listCount_congr {l l' : Led} {d : Nat} {t : TxId} (h : l'.getS (.timeout d) = l.getS (.timeout d)) :
    listCount l' d t = listCount l d t := by
  unfold listCount; rw [h]

theorem listCount_of {l : Led} {d : Nat} {lst : List (Option TId)} (h : l.getS (.timeout d) = some (.tlist lst)) (t : TxId) :
    listCount l d t = lst.count (some (TId.single t)) := by
  unfold listCount; rw [h]

theorem listedAt_iff_count {l : Led} {d : Nat} {t : TxId} : listedAt l d t ↔ 0 < listCount l d t := by
  unfold listedAt listCount
  constructor
  · rintro ⟨lst, e, hm⟩
    rw [e]; exact List.count_pos_iff.mpr hm
  · intro h
    split at h
    · rename_i lst e; exact ⟨lst, e, List.count_pos_iff.mp h⟩
    · omega

inductive StepsT : Led → Led → Prop
  | refl (l : Led) : StepsT l l
  | setO {l l' : Led} (k : Key) (v : Option Val) (hk : ∀ d, k ≠ .timeout d) : StepsT l l' → StepsT l (l'.setS k v)
  | setT {l l' : Led} (d : Nat) (lst : List (Option TId)) (hcnt : ∀ t, lst.count (some (TId.single t)) ≤ listCount l' d t) :
      StepsT l l' → StepsT l (l'.setS (.timeout d) (some (.tlist lst)))
  | post {l l' : Led} (e : Ev) : StepsT l l' → StepsT l (l'.post e)

theorem StepsT.trans {a b c : Led} (h1 : StepsT a b) (h2 : StepsT b c) : StepsT a c := by
  induction h2 with
  | refl => exact h1
  | setO k v hk _ ih => exact StepsT.setO k v hk ih
  | setT d lst hcnt _ ih => exact StepsT.setT d lst hcnt ih
  | post e _ ih => exact StepsT.post e ih

theorem StepsT.addO {l l' : Led} (k : Key) (v : Val) (hk : ∀ d, k ≠ .timeout d) (h : StepsT l l') : StepsT l (l'.addS k v) :=
  StepsT.setO k (some v) hk h
theorem StepsT.setIC {l l' : Led} (s : SvcId) (i : IC) (h : StepsT l l') : StepsT l (setIC l' s i) :=
  StepsT.setO _ _ (by intro d e; cases e) h

/-- **no one-to-one id occurs more often on a list after such steps than before** -/
theorem StepsT.count {l l' : Led} (h : StepsT l l') (d : Nat) (t : TxId) : listCount l' d t ≤ listCount l d t := by
  induction h with
  | refl => exact Nat.le_refl _
  | setO k v hk _ ih =>
    refine Nat.le_trans (Nat.le_of_eq (listCount_congr ?_)) ih
    simp only [Led.getS_setS]; rw [if_neg (hk d)]
  | @setT l1 d' lst hcnt _ ih =>
    by_cases hd : d' = d
    · subst hd
      refine Nat.le_trans ?_ ih
      rw [listCount_of (l := Led.setS l1 (.timeout d') (some (.tlist lst))) (lst := lst) (by simp)]
      exact hcnt t
    · refine Nat.le_trans (Nat.le_of_eq (listCount_congr ?_)) ih
      simp only [Led.getS_setS]; rw [if_neg (fun e => hd (by cases e; rfl))]
  | post e _ ih => exact ih

/-- an id listed after such steps was listed before -/
theorem StepsT.listed {l l' : Led} (h : StepsT l l') (d : Nat) (t : TxId) (hl : listedAt l' d t) : listedAt l d t := by
  rw [listedAt_iff_count] at *
  exact Nat.lt_of_lt_of_le hl (h.count d t)

syntax "stepsT_tac" : tactic
macro_rules
  | `(tactic| stepsT_tac) => `(tactic| repeat (first
      | exact StepsT.refl _ | assumption
      | apply StepsT.setO _ _ (by intro d e; cases e)
      | apply StepsT.post
      | apply StepsT.addO _ _ (by intro d e; cases e)
      | apply StepsT.setIC))

-- ------------------------------------------------------------------ Go's in-place removal adds nothing

theorem mem_removed_arr (arr : List (Option TId)) (idx len : Nat) (y : Option TId)
    (h : y ∈ (arr.take idx) ++ ((arr.drop (idx+1)).take (len - idx - 1)) ++ (arr.drop (len - 1))) : y ∈ arr := by
  simp only [List.mem_append] at h
  rcases h with (h | h) | h
  · exact List.mem_of_mem_take h
  · exact List.mem_of_mem_drop (List.mem_of_mem_take h)
  · exact List.mem_of_mem_drop h

theorem goRemoveLoop_mem (x : Option TId) : ∀ (fuel idx : Nat) (arr : List (Option TId)) (len : Nat) (r : List (Option TId) × Nat),
    goRemoveLoop x fuel idx arr len = some r → ∀ y, y ∈ r.1 → y ∈ arr := by
  intro fuel
  induction fuel with
  | zero => intro idx arr len r e y hy; simp only [goRemoveLoop] at e; cases e; exact hy
  | succ n ih =>
    intro idx arr len r e y hy
    simp only [goRemoveLoop] at e
    split at e
    · split at e
      · cases e
      · exact mem_removed_arr arr idx len y (ih _ _ _ _ e y hy)
    · exact ih _ _ _ _ e y hy

/-- every entry of the list after a removal was an entry before (also when the removed id occurs several times) -/
theorem goRemove_mem (lst r : List (Option TId)) (x : TId) (e : goRemove lst x = some r) (y : Option TId) (hy : y ∈ r) : y ∈ lst := by
  unfold goRemove at e
  split at e
  · rename_i arr len h
    cases e
    exact goRemoveLoop_mem (some x) _ _ _ _ _ h y (List.mem_of_mem_take hy)
  · cases e

theorem normList_mem_single (r : List (Option TId)) (t : TxId) (h : some (TId.single t) ∈ normList r) : some (TId.single t) ∈ r := by
  unfold normList at h
  split at h
  · simp at h
  · exact h

-- ------------------------------------------------------------------ the transaction manager's list writers (groups only)

theorem count_single_global (lst : List (Option TId)) (g : GId) (t : TxId) :
    (lst ++ [some (TId.global g)]).count (some (TId.single t)) = lst.count (some (TId.single t)) := by
  rw [List.count_append]
  have : [some (TId.global g)].count (some (TId.single t)) = 0 := by
    rw [List.count_eq_zero]; intro hm; simp at hm
  omega

theorem count_normList_le (r : List (Option TId)) (t : TxId) :
    (normList r).count (some (TId.single t)) ≤ r.count (some (TId.single t)) := by
  unfold normList
  split
  · have : [(none : Option TId)].count (some (TId.single t)) = 0 := by rw [List.count_eq_zero]; intro hm; simp at hm
    omega
  · exact Nat.le_refl _

theorem tmAddTimeout_stepsT (l : Led) (h : Nat) (g : GId) : StepsT l (tmAddTimeout l h (.global g)) := by
  have one : ∀ t : TxId, [some (TId.global g)].count (some (TId.single t)) = 0 := by
    intro t; rw [List.count_eq_zero]; intro hm; simp at hm
  unfold tmAddTimeout
  split
  · rename_i lst hl
    split
    · exact StepsT.setT _ _ (by intro t; rw [one]; exact Nat.zero_le _) (StepsT.refl _)
    · refine StepsT.setT _ _ ?_ (StepsT.refl _)
      intro t
      rw [count_single_global, listCount_of hl]
      exact Nat.le_refl _
  · exact StepsT.setT _ _ (by intro t; rw [one]; exact Nat.zero_le _) (StepsT.refl _)

theorem tmRemoveTimeout_stepsT {l l' : Led} {h : Nat} {id : TId} (e : tmRemoveTimeout l h id = .ok l') : StepsT l l' := by
  unfold tmRemoveTimeout at e
  split at e
  · rename_i lst hl
    split at e
    · cases e; exact StepsT.refl _
    · split at e
      · rename_i r hr
        cases e
        refine StepsT.setT _ _ ?_ (StepsT.refl _)
        intro t
        rw [listCount_of hl]
        exact Nat.le_trans (count_normList_le r t) ((goRemove_sublist lst r id hr).count_le _)
      · cases e
  · cases e; exact StepsT.refl _

theorem tmBegin_stepsT (l : Led) (cur : Nat) (id : TxId) (t : Nat) (f : Bool) : StepsT l (tmBegin l cur id t f).1 := by
  unfold tmBegin; stepsT_tac

theorem tmBeginInter_stepsT {l : Led} {cur : Nat} {id : TxId} {t : Nat} {x : Ext} {f : Bool} {r : Led × StatusChange}
    (e : tmBeginInter l cur id t x f = .ok r) : StepsT l r.1 := by
  unfold tmBeginInter at e
  split at e
  · split at e
    · cases e
    · split at e
      · cases e
      · cases e; stepsT_tac
  · cases e
  · cases e; stepsT_tac

theorem tmBeginMulti_stepsT {l : Led} {cur : Nat} {gid : GId} {id : TxId} {t : Nat} {f : Bool} {n : Nat} {r : Led × StatusChange}
    (e : tmBeginMulti l cur gid id t f n = .ok r) : StepsT l r.1 := by
  unfold tmBeginMulti at e
  split at e
  · split at e
    · cases e
    · split at e
      · cases e; stepsT_tac
      · split at e
        · split at e
          · cases e
          · rename_i l0 h0
            cases e
            have := tmRemoveTimeout_stepsT h0
            stepsT_tac
        · cases e; stepsT_tac
  · cases e
    by_cases hf : f = true
    · simp only [hf, if_true]; stepsT_tac
    · simp only [hf]
      have := tmAddTimeout_stepsT l (recordHeight cur t) gid
      stepsT_tac

theorem tmChangeMulti_stepsT {l : Led} {gid : GId} {g : Global} {id : TxId} {typ : Nat} {r : Led × Global}
    (e : tmChangeMulti l gid g id typ = .ok r) : StepsT l r.1 := by
  unfold tmChangeMulti at e
  split at e
  · split at e
    · cases e
    · rename_i l0 h0; cases e; exact tmRemoveTimeout_stepsT h0
  · simp only at e
    split at e
    · cases e
    · split at e
      · split at e
        · cases e
        · split at e
          · cases e
          · rename_i l0 h0; cases e; exact tmRemoveTimeout_stepsT h0
      · cases e; stepsT_tac

theorem tmReport_stepsT {l : Led} {id : TxId} {typ : Nat} {r : Led × StatusChange}
    (e : tmReport l id typ = .ok r) : StepsT l r.1 := by
  unfold tmReport at e
  split at e
  · split at e
    · cases e
    · cases e; stepsT_tac
  · cases e
  · split at e
    · split at e
      · split at e
        · cases e
        · split at e
          · cases e
          · rename_i l1 g' h0
            cases e
            have := tmChangeMulti_stepsT h0
            stepsT_tac
      · cases e
    · cases e

theorem beginTransaction_stepsT {env : Env} {l : Led} {i : Ibtp} {ck : Checked} {r : Led × StatusChange}
    (e : beginTransaction env l i ck = .ok r) : StepsT l r.1 := by
  unfold beginTransaction at e
  simp only at e
  split at e
  · split at e
    · cases e
    · rename_i r0 h0; cases e; exact tmBeginInter_stepsT h0
  · split at e
    · cases e; exact tmBegin_stepsT _ _ _ _ _
    · split at e
      · cases e
      · rename_i r0 h0; cases e; exact tmBeginMulti_stepsT h0

theorem addToMultiNotify_stepsT (env : Env) (l : Led) (ids : List TxId) (b : Bool) : StepsT l (addToMultiNotify env l ids b) := by
  unfold addToMultiNotify
  split
  · stepsT_tac
  · stepsT_tac

theorem notifySrcDst_stepsT (env : Env) (l : Led) (src dst : SvcId) (c : StatusChange) (b : Bool) :
    StepsT l (notifySrcDst env l src dst c b) := by
  unfold notifySrcDst
  have h1 := addToMultiNotify_stepsT env l c.notifySrc true
  cases notifyFlags c with
  | mk ns nd =>
    simp only
    apply StepsT.post
    cases ns <;> cases nd <;> cases isLocal env src <;> cases isLocal env dst <;>
      simp only [if_true, if_false, Bool.false_eq_true] <;>
      first
        | exact StepsT.refl _
        | exact h1
        | exact addToMultiNotify_stepsT env _ c.notifyDst false
        | exact StepsT.trans h1 (addToMultiNotify_stepsT env _ c.notifyDst false)

theorem setDestIC_stepsT (l : Led) (f t : SvcId) (n : Nat) (ic : IC) : StepsT l (setDestIC l f t n ic) := by
  unfold setDestIC; stepsT_tac

theorem foldl_stepsT {α : Type} (f : Led → α → Led) (hf : ∀ l a, StepsT l (f l a)) (xs : List α) (l : Led) :
    StepsT l (xs.foldl f l) := by
  induction xs generalizing l with
  | nil => exact StepsT.refl _
  | cons x rest ih => exact StepsT.trans (hf l x) (ih _)

theorem processIBTP_stepsT (l : Led) (i : Ibtp) (ck : Checked) (c : StatusChange) : StepsT l (processIBTP l i ck c).1 := by
  unfold processIBTP
  simp only
  split
  · stepsT_tac
  · simp only
    apply StepsT.setO _ _ (by intro d e; cases e)
    split
    · split
      · exact foldl_stepsT _ (fun l cid => setDestIC_stepsT l _ _ _ _) _ _
      · exact setDestIC_stepsT _ _ _ _ _
    · exact StepsT.refl _

theorem handleIBTP_stepsT {env : Env} {l : Led} {i : Ibtp} {r : Led × String}
    (e : handleIBTP env l i = .ok r) : StepsT l r.1 := by
  unfold handleIBTP at e
  split at e
  · cases e
  · rename_i ck hck
    simp only at e
    split at e
    · cases e
    · rename_i l1 c hr
      have h1 : StepsT l l1 := by
        split at hr
        · exact beginTransaction_stepsT hr
        · split at hr
          · split at hr
            · cases hr
            · rename_i x hx; cases hr; exact tmReport_stepsT hx
          · cases hr
      have h2 := notifySrcDst_stepsT env l1 ck.src ck.dst c ck.isBatch
      have h3 := processIBTP_stepsT (notifySrcDst env l1 ck.src ck.dst c ck.isBatch) i ck c
      have h123 := StepsT.trans (StepsT.trans h1 h2) h3
      split at e
      · split at e
        · cases e
        · cases e; stepsT_tac
      · cases e; exact h123

theorem applyBvm_stepsT {env : Env} {l : Led} {c m : String} {args : List Arg} {r : Led × String}
    (e : applyBvm env l c m args = .ok r) : StepsT l r.1 := by
  unfold applyBvm at e
  split at e
  · split at e
    · split at e
      · cases e
      · cases e; simp only; stepsT_tac
    · cases e
  · split at e
    · split at e
      · split at e
        · cases e; exact StepsT.refl _
        · cases e
      · cases e
    · split at e
      · split at e
        · split at e
          · cases e; exact StepsT.refl _
          · cases e
        · cases e
      · split at e
        · split at e <;> cases e
        · cases e

end Bxh.Exec
