import Bxh.Model.Ledger
/-!
# Reverting a block journal undoes the commit of that block (state store level)

`flush` (`FlushDirtyData`) turns the dirty accounts of a block into the accounts handed to `Commit` and the journal
entries of the block; `commitAcct` writes one account, `revertEntry` (the loop body of `RollbackState`) applies one
journal entry.  For accounts whose origin fields mirror the database (`Coh`), applying the entries after the commit
gives back every account record, every storage key and every code entry of the database as it was.
-/
namespace Bxh.Ledger
open Bxh

theorem get_erase' {α β : Type} [DecidableEq α] (m : KV α β) (k k' : α) :
    KV.get (KV.erase m k) k' = if k = k' then none else KV.get m k' := by
  by_cases h : k = k'
  · subst h; simp [KV.get_erase_eq]
  · simp [h, KV.get_erase_ne m k k' h]

/-- writing a `Bytes` value into the state table: `some v` sets, `none` erases; reading it back gives the value itself -/
def putB (st : KV (Addr × String) String) (key : Addr × String) (v : Bytes) : KV (Addr × String) String :=
  match v with
  | some s => KV.set st key s
  | none => KV.erase st key

theorem get_putB (st : KV (Addr × String) String) (key key' : Addr × String) (v : Bytes) :
    KV.get (putB st key v) key' = if key = key' then v else KV.get st key' := by
  unfold putB
  cases v with
  | some s => simp only [KV.get_set]
  | none => simp only [get_erase']

/-- the storage part of `commitAcct` on the state table alone -/
def commitState (a : Addr) (origin : KV String Bytes) (dirty : KV String Bytes) (st : KV (Addr × String) String) :
    KV (Addr × String) String :=
  dirty.foldl (fun st p => if !beq ((KV.get origin p.1).getD none) p.2 then putB st (a, p.1) p.2 else st) st

/-- the storage part of `revertEntry` on the state table alone -/
def revertState (a : Addr) (prev : KV String Bytes) (st : KV (Addr × String) String) : KV (Addr × String) String :=
  prev.foldl (fun st p => putB st (a, p.1) p.2) st

theorem commitAcct_fold (a : Addr) (origin : KV String Bytes) (dirty : KV String Bytes) (db : DB) :
    let r := dirty.foldl (fun db p =>
      if !beq ((KV.get origin p.1).getD none) p.2 then
        match p.2 with
        | some v => { db with state := KV.set db.state (a, p.1) v }
        | none => { db with state := KV.erase db.state (a, p.1) }
      else db) db
    r.state = commitState a origin dirty db.state ∧ r.acct = db.acct ∧ r.code = db.code ∧ r.journals = db.journals ∧
      r.minH = db.minH ∧ r.maxH = db.maxH := by
  induction dirty generalizing db with
  | nil => exact ⟨rfl, rfl, rfl, rfl, rfl, rfl⟩
  | cons p rest ih =>
    simp only [List.foldl_cons, commitState]
    split
    · cases hp : p.2 with
      | some v =>
        have := ih { db with state := KV.set db.state (a, p.1) v }
        simp only [commitState] at this
        simp only [putB]
        exact this
      | none =>
        have := ih { db with state := KV.erase db.state (a, p.1) }
        simp only [commitState] at this
        simp only [putB]
        exact this
    · have := ih db
      simp only [commitState] at this
      exact this

theorem revertEntry_fold (a : Addr) (prev : KV String Bytes) (db : DB) :
    let r := prev.foldl (fun db p =>
      match p.2 with
      | some v => { db with state := KV.set db.state (a, p.1) v }
      | none => { db with state := KV.erase db.state (a, p.1) }) db
    r.state = revertState a prev db.state ∧ r.acct = db.acct ∧ r.code = db.code ∧ r.journals = db.journals ∧
      r.minH = db.minH ∧ r.maxH = db.maxH := by
  induction prev generalizing db with
  | nil => exact ⟨rfl, rfl, rfl, rfl, rfl, rfl⟩
  | cons p rest ih =>
    simp only [List.foldl_cons, revertState]
    cases hp : p.2 with
    | some v =>
      have := ih { db with state := KV.set db.state (a, p.1) v }
      simp only [revertState] at this
      simp only [putB]
      exact this
    | none =>
      have := ih { db with state := KV.erase db.state (a, p.1) }
      simp only [revertState] at this
      simp only [putB]
      exact this

/-- the "changed" test of `commitAcct` / `changedKeys` for one dirty entry -/
def chg (origin : KV String Bytes) (p : String × Bytes) : Bool := !beq ((KV.get origin p.1).getD none) p.2

theorem commitState_untouched (a b : Addr) (k : String) (origin dirty : KV String Bytes) (st : KV (Addr × String) String)
    (h : b ≠ a ∨ ∀ p ∈ dirty, chg origin p = true → p.1 ≠ k) :
    KV.get (commitState a origin dirty st) (b, k) = KV.get st (b, k) := by
  unfold commitState
  induction dirty generalizing st with
  | nil => rfl
  | cons p rest ih =>
    simp only [List.foldl_cons]
    have hrest : b ≠ a ∨ ∀ q ∈ rest, chg origin q = true → q.1 ≠ k := by
      rcases h with h | h
      · exact Or.inl h
      · exact Or.inr (fun q hq => h q (List.mem_cons_of_mem _ hq))
    rw [ih _ hrest]
    split
    · rename_i hc
      rw [get_putB]
      have : ¬ ((a, p.1) = (b, k)) := by
        intro e
        injection e with e1 e2
        rcases h with h | h
        · exact h e1.symm
        · exact h p (List.mem_cons_self ..) hc e2
      simp only [this, if_false]
    · rfl

theorem revertState_get (a b : Addr) (k : String) (g : String → Bytes) (prev : KV String Bytes)
    (hg : ∀ p ∈ prev, p.2 = g p.1) (st : KV (Addr × String) String) :
    KV.get (revertState a prev st) (b, k) = if b = a ∧ k ∈ prev.map (·.1) then g k else KV.get st (b, k) := by
  unfold revertState
  induction prev generalizing st with
  | nil => simp
  | cons p rest ih =>
    simp only [List.foldl_cons]
    rw [ih (fun q hq => hg q (List.mem_cons_of_mem _ hq))]
    by_cases hin : b = a ∧ k ∈ rest.map (·.1)
    · have : b = a ∧ k ∈ (p :: rest).map (·.1) := ⟨hin.1, by simp only [List.map_cons, List.mem_cons]; exact Or.inr hin.2⟩
      simp only [hin, this, and_self, if_true]
    · simp only [hin, if_false]
      rw [get_putB]
      by_cases hk : (a, p.1) = (b, k)
      · injection hk with e1 e2
        subst e1
        subst e2
        have hmem : p.1 ∈ (p :: rest).map (·.1) := by simp
        simp only [if_true, hmem, and_self]
        exact hg p (List.mem_cons_self ..)
      · simp only [hk, if_false]
        have : ¬ (b = a ∧ k ∈ (p :: rest).map (·.1)) := by
          intro ⟨e1, e2⟩
          simp only [List.map_cons, List.mem_cons] at e2
          rcases e2 with e2 | e2
          · exact hk (by rw [e1, e2])
          · exact hin ⟨e1, e2⟩
        simp only [this, if_false]

theorem revertState_other (a b : Addr) (k : String) (prev : KV String Bytes) (st : KV (Addr × String) String) (hne : b ≠ a) :
    KV.get (revertState a prev st) (b, k) = KV.get st (b, k) := by
  unfold revertState
  induction prev generalizing st with
  | nil => rfl
  | cons p rest ih =>
    simp only [List.foldl_cons]
    rw [ih, get_putB]
    have : ¬ ((a, p.1) = (b, k)) := by
      intro e; injection e with e1 _; exact hne e1.symm
    simp only [this, if_false]

/-- **storage**: applying the previous values of the changed keys to a table that agrees (as bytes: a missing key and an
empty value are the same, `bytes.Equal`) with the committed one on the account's keys restores what the table held,
provided the origin values of the changed keys are what the table held -/
theorem revert_commit_state_at (a : Addr) (origin dirty : KV String Bytes) (st st2 : KV (Addr × String) String)
    (hcoh : ∀ p ∈ dirty, chg origin p = true → ((KV.get origin p.1).getD none).getD "" = (KV.get st (a, p.1)).getD "")
    (hsame : ∀ k, (KV.get st2 (a, k)).getD "" = (KV.get (commitState a origin dirty st) (a, k)).getD "") (k : String) :
    (KV.get (revertState a ((dirty.filter (chg origin)).map (fun p => (p.1, (KV.get origin p.1).getD none))) st2) (a, k)).getD ""
      = (KV.get st (a, k)).getD "" := by
  rw [revertState_get a a k (fun k => (KV.get origin k).getD none) _
    (by intro p hp; obtain ⟨q, _, rfl⟩ := List.mem_map.mp hp; rfl)]
  by_cases hin : k ∈ ((dirty.filter (chg origin)).map (fun p => (p.1, (KV.get origin p.1).getD none))).map (·.1)
  · simp only [hin, and_self, if_true]
    simp only [List.map_map, List.mem_map, List.mem_filter, Function.comp] at hin
    obtain ⟨q, ⟨hq, hc⟩, rfl⟩ := hin
    exact hcoh q hq hc
  · simp only [hin, and_false, if_false]
    rw [hsame]
    congr 1
    apply commitState_untouched
    right
    intro p hp hc e
    apply hin
    simp only [List.map_map, List.mem_map, List.mem_filter, Function.comp]
    exact ⟨p, ⟨hp, hc⟩, e⟩

-- ------------------------------------------------------------------ `commitAcct` and `revertEntry` in three steps each

def acctStep (db : DB) (a : Addr) (acc : Acct) : DB :=
  if innerChanged acc.originAcc acc.dirtyAcc then
    match acc.dirtyAcc with
    | some d => { db with acct := KV.set db.acct a d }
    | none => db
  else db

def codeStep (db1 : DB) (a : Addr) (acc : Acct) : DB :=
  if !beq acc.originCode acc.dirtyCode then
    match acc.dirtyCode with
    | some c => { db1 with code := KV.set db1.code a c }
    | none =>
      match acc.dirtyAcc with
      | some d =>
        if !beq ((acc.originAcc.bind (·.codeHash))) d.codeHash && beq d.codeHash none then
          { db1 with code := KV.erase db1.code a }
        else db1
      | none => db1
  else db1

def stateStep (db2 : DB) (a : Addr) (acc : Acct) : DB :=
  acc.dirtyState.foldl (fun db p =>
    if !beq ((KV.get acc.originState p.1).getD none) p.2 then
      match p.2 with
      | some v => { db with state := KV.set db.state (a, p.1) v }
      | none => { db with state := KV.erase db.state (a, p.1) }
    else db) db2

theorem commitAcct_eq (db : DB) (a : Addr) (acc : Acct) :
    commitAcct db a acc = stateStep (codeStep (acctStep db a acc) a acc) a acc := rfl

def acctR (db : DB) (e : JEntry) : DB :=
  if e.accChanged then
    match e.prevAcc with
    | some p => { db with acct := KV.set db.acct e.addr p }
    | none => { db with acct := KV.erase db.acct e.addr }
  else db

def stateR (db1 : DB) (e : JEntry) : DB :=
  e.prevStates.foldl (fun db p =>
    match p.2 with
    | some v => { db with state := KV.set db.state (e.addr, p.1) v }
    | none => { db with state := KV.erase db.state (e.addr, p.1) }) db1

def codeR (db2 : DB) (e : JEntry) : DB :=
  if e.codeChanged then
    match e.prevCode with
    | some c => { db2 with code := KV.set db2.code e.addr c }
    | none => { db2 with code := KV.erase db2.code e.addr }
  else db2

theorem revertEntry_eq (db : DB) (e : JEntry) : revertEntry db e = codeR (stateR (acctR db e) e) e := rfl

theorem acctStep_parts (db : DB) (a : Addr) (acc : Acct) :
    (acctStep db a acc).state = db.state ∧ (acctStep db a acc).code = db.code ∧
    ∀ b, KV.get (acctStep db a acc).acct b =
      if b = a ∧ innerChanged acc.originAcc acc.dirtyAcc = true then acc.dirtyAcc else KV.get db.acct b := by
  unfold acctStep
  split
  · rename_i hc
    split
    · rename_i d hd
      refine ⟨rfl, rfl, ?_⟩
      intro b
      simp only [hd] at hc
      simp only [KV.get_set, hd, hc, and_true]
      by_cases hb : a = b
      · subst hb; simp
      · have : ¬ b = a := fun e => hb e.symm
        simp [hb, this]
    · rename_i hd
      -- cannot happen: `innerChanged` is false without a dirty account
      simp [innerChanged, hd] at hc
  · rename_i hc
    refine ⟨rfl, rfl, ?_⟩
    intro b
    simp [hc]

theorem codeStep_parts (db : DB) (a : Addr) (acc : Acct) :
    (codeStep db a acc).state = db.state ∧ (codeStep db a acc).acct = db.acct ∧
    (∀ b, b ≠ a → KV.get (codeStep db a acc).code b = KV.get db.code b) ∧
    ((!beq acc.originCode acc.dirtyCode) = false → (codeStep db a acc).code = db.code) := by
  unfold codeStep
  split
  · rename_i hc
    split
    · refine ⟨rfl, rfl, ?_, ?_⟩
      · intro b hb; simp only [KV.get_set_ne _ _ _ _ (Ne.symm hb)]
      · intro h; rw [h] at hc; cases hc
    · split
      · split
        · refine ⟨rfl, rfl, ?_, ?_⟩
          · intro b hb; simp only [KV.get_erase_ne _ _ _ (Ne.symm hb)]
          · intro h; rw [h] at hc; cases hc
        · exact ⟨rfl, rfl, fun _ _ => rfl, fun _ => rfl⟩
      · exact ⟨rfl, rfl, fun _ _ => rfl, fun _ => rfl⟩
  · exact ⟨rfl, rfl, fun _ _ => rfl, fun _ => rfl⟩

theorem stateStep_parts (db : DB) (a : Addr) (acc : Acct) :
    (stateStep db a acc).state = commitState a acc.originState acc.dirtyState db.state ∧
    (stateStep db a acc).acct = db.acct ∧ (stateStep db a acc).code = db.code := by
  have := commitAcct_fold a acc.originState acc.dirtyState db
  exact ⟨this.1, this.2.1, this.2.2.1⟩

theorem acctR_parts (db : DB) (e : JEntry) :
    (acctR db e).state = db.state ∧ (acctR db e).code = db.code ∧
    ∀ b, KV.get (acctR db e).acct b = if b = e.addr ∧ e.accChanged = true then e.prevAcc else KV.get db.acct b := by
  unfold acctR
  split
  · rename_i hc
    split
    · rename_i p hp
      refine ⟨rfl, rfl, ?_⟩
      intro b
      simp only [KV.get_set, hc, and_true, hp]
      by_cases hb : e.addr = b
      · subst hb; simp
      · have : ¬ b = e.addr := fun x => hb x.symm
        simp [hb, this]
    · rename_i hp
      refine ⟨rfl, rfl, ?_⟩
      intro b
      simp only [get_erase', hc, and_true, hp]
      by_cases hb : e.addr = b
      · subst hb; simp
      · have : ¬ b = e.addr := fun x => hb x.symm
        simp [hb, this]
  · rename_i hc
    refine ⟨rfl, rfl, ?_⟩
    intro b
    simp [hc]

theorem stateR_parts (db : DB) (e : JEntry) :
    (stateR db e).state = revertState e.addr e.prevStates db.state ∧ (stateR db e).acct = db.acct ∧ (stateR db e).code = db.code := by
  have := revertEntry_fold e.addr e.prevStates db
  exact ⟨this.1, this.2.1, this.2.2.1⟩

theorem codeR_parts (db : DB) (e : JEntry) :
    (codeR db e).state = db.state ∧ (codeR db e).acct = db.acct ∧
    ∀ b, KV.get (codeR db e).code b = if b = e.addr ∧ e.codeChanged = true then e.prevCode else KV.get db.code b := by
  unfold codeR
  split
  · rename_i hc
    split
    · rename_i c hp
      refine ⟨rfl, rfl, ?_⟩
      intro b
      simp only [KV.get_set, hc, and_true, hp]
      by_cases hb : e.addr = b
      · subst hb; simp
      · have : ¬ b = e.addr := fun x => hb x.symm
        simp [hb, this]
    · rename_i hp
      refine ⟨rfl, rfl, ?_⟩
      intro b
      simp only [get_erase', hc, and_true, hp]
      by_cases hb : e.addr = b
      · subst hb; simp
      · have : ¬ b = e.addr := fun x => hb x.symm
        simp [hb, this]
  · rename_i hc
    refine ⟨rfl, rfl, ?_⟩
    intro b
    simp [hc]

-- ------------------------------------------------------------------ one account

/-- the two databases agree on everything that belongs to address `b`: the same account record, the same code, and under
every storage key the same bytes (a key that is missing and a key with an empty value are the same value, as for every
read path of the ledger) -/
def SameAt (b : Addr) (x y : DB) : Prop :=
  KV.get x.acct b = KV.get y.acct b ∧ KV.get x.code b = KV.get y.code b ∧
  ∀ k, (KV.get x.state (b, k)).getD "" = (KV.get y.state (b, k)).getD ""

theorem SameAt.refl (b : Addr) (x : DB) : SameAt b x x := ⟨rfl, rfl, fun _ => rfl⟩
theorem SameAt.trans {b : Addr} {x y z : DB} (h1 : SameAt b x y) (h2 : SameAt b y z) : SameAt b x z :=
  ⟨h1.1.trans h2.1, h1.2.1.trans h2.2.1, fun k => (h1.2.2 k).trans (h2.2.2 k)⟩
theorem SameAt.symm {b : Addr} {x y : DB} (h : SameAt b x y) : SameAt b y x :=
  ⟨h.1.symm, h.2.1.symm, fun k => (h.2.2 k).symm⟩

/-- the origin fields of the account object mirror the database (what `GetAccount` / `GetState` / `Code` loaded) -/
def Coh (db : DB) (a : Addr) (acc : Acct) : Prop :=
  acc.originAcc = KV.get db.acct a ∧
  (∀ p ∈ acc.dirtyState, chg acc.originState p = true →
    ((KV.get acc.originState p.1).getD none).getD "" = (KV.get db.state (a, p.1)).getD "") ∧
  acc.originCode = KV.get db.code a

/-- the journal entry `getJournalIfModified` builds for an account object -/
def entryOf (a : Addr) (acc : Acct) : JEntry :=
  { addr := a, prevAcc := acc.originAcc, accChanged := innerChanged acc.originAcc acc.dirtyAcc,
    prevStates := (changedKeys acc).map (fun p => (p.1, (KV.get acc.originState p.1).getD none)),
    prevCode := acc.originCode, codeChanged := !beq acc.originCode acc.dirtyCode }

/-- the account object after the lazy load of its origin code in `getJournalIfModified` -/
def loadOrigin (l : L) (a : Addr) (acc : Acct) : Acct :=
  if acc.originCode.isNone && !(acc.originAcc.isNone || beq ((acc.originAcc.bind (·.codeHash))) none) then
    { acc with originCode := KV.get l.db.code a }
  else acc

theorem journalOf_snd (l : L) (a : Addr) (acc : Acct) : (journalOf l a acc).2 = loadOrigin l a acc := by
  unfold journalOf loadOrigin
  simp only
  split <;> (split <;> rfl)

theorem journalOf_entry (l : L) (a : Addr) (acc : Acct) (e : JEntry) (h : (journalOf l a acc).1 = some e) :
    e = entryOf a (loadOrigin l a acc) := by
  unfold journalOf at h
  simp only at h
  unfold loadOrigin
  split
  · rename_i hc
    simp only [hc, if_true] at h
    split at h
    · injection h with h
      rw [← h]
      rfl
    · cases h
  · rename_i hc
    have hc' := Bool.eq_false_iff.mpr hc
    simp only [hc', Bool.false_eq_true, if_false] at h
    split at h
    · injection h with h
      rw [← h]
      rfl
    · cases h

/-- a commit of another address leaves everything of `b` alone -/
theorem commitAcct_frame (db : DB) (a b : Addr) (acc : Acct) (hne : b ≠ a) : SameAt b (commitAcct db a acc) db := by
  rw [commitAcct_eq]
  obtain ⟨s1, s2, s3⟩ := stateStep_parts (codeStep (acctStep db a acc) a acc) a acc
  obtain ⟨c1, c2, c3, _⟩ := codeStep_parts (acctStep db a acc) a acc
  obtain ⟨a1, a2, a3⟩ := acctStep_parts db a acc
  refine ⟨?_, ?_, ?_⟩
  · rw [s2, c2, a3]; simp [hne]
  · rw [s3, c3 b hne, a2]
  · intro k
    rw [s1, commitState_untouched a b k _ _ _ (Or.inl hne), c1, a1]

/-- applying the journal entry of another address leaves everything of `b` alone -/
theorem revertEntry_frame (db : DB) (e : JEntry) (b : Addr) (hne : b ≠ e.addr) : SameAt b (revertEntry db e) db := by
  rw [revertEntry_eq]
  obtain ⟨c1, c2, c3⟩ := codeR_parts (stateR (acctR db e) e) e
  obtain ⟨s1, s2, s3⟩ := stateR_parts (acctR db e) e
  obtain ⟨a1, a2, a3⟩ := acctR_parts db e
  refine ⟨?_, ?_, ?_⟩
  · rw [c2, s2, a3]; simp [hne]
  · rw [c3, s3, a2]; simp [hne]
  · intro k
    rw [c1, s1, revertState_other e.addr b k e.prevStates _ hne, a1]

theorem commitAcct_state (db : DB) (a : Addr) (acc : Acct) :
    (commitAcct db a acc).state = commitState a acc.originState acc.dirtyState db.state := by
  rw [commitAcct_eq, (stateStep_parts _ a acc).1, (codeStep_parts _ a acc).1, (acctStep_parts db a acc).1]

/-- **one account**: applying the account's journal entry to any database that agrees with the committed one on the
account's own keys gives back what the database held for the account before the commit -/
theorem revert_commit_at (D D2 : DB) (a : Addr) (acc : Acct) (hcoh : Coh D a acc)
    (hs : SameAt a D2 (commitAcct D a acc)) : SameAt a (revertEntry D2 (entryOf a acc)) D := by
  obtain ⟨h1, h2, h3⟩ := hcoh
  rw [revertEntry_eq]
  obtain ⟨c1, c2, c3⟩ := codeR_parts (stateR (acctR D2 (entryOf a acc)) (entryOf a acc)) (entryOf a acc)
  obtain ⟨s1, s2, s3⟩ := stateR_parts (acctR D2 (entryOf a acc)) (entryOf a acc)
  obtain ⟨a1, a2, a3⟩ := acctR_parts D2 (entryOf a acc)
  refine ⟨?_, ?_, ?_⟩
  · rw [c2, s2, a3]
    show (if a = a ∧ innerChanged acc.originAcc acc.dirtyAcc = true then acc.originAcc else KV.get D2.acct a) = _
    by_cases hc : innerChanged acc.originAcc acc.dirtyAcc = true
    · simp only [hc, and_self, if_true]; exact h1
    · have hc' := Bool.eq_false_iff.mpr hc
      rw [hs.1, commitAcct_eq, (stateStep_parts _ a acc).2.1, (codeStep_parts _ a acc).2.1, (acctStep_parts D a acc).2.2 a]
      simp [hc']
  · rw [c3, s3, a2]
    show (if a = a ∧ (!beq acc.originCode acc.dirtyCode) = true then acc.originCode else KV.get D2.code a) = _
    by_cases hc : (!beq acc.originCode acc.dirtyCode) = true
    · simp only [hc, and_self, if_true]; exact h3
    · have hc' := Bool.eq_false_iff.mpr hc
      rw [hs.2.1, commitAcct_eq, (stateStep_parts _ a acc).2.2, (codeStep_parts _ a acc).2.2.2 hc', (acctStep_parts D a acc).2.1]
      simp [hc']
  · intro k
    rw [c1, s1, a1]
    show (KV.get (revertState a ((acc.dirtyState.filter (chg acc.originState)).map
      (fun p => (p.1, (KV.get acc.originState p.1).getD none))) D2.state) (a, k)).getD "" = _
    apply revert_commit_state_at a acc.originState acc.dirtyState D.state D2.state h2
    intro k'
    rw [hs.2.2 k', commitAcct_state]

-- ------------------------------------------------------------------ a whole block

/-- the accounts `flush` hands to `Commit`, each with the journal entry `flush` recorded for it -/
abbrev Item := Addr × Acct

def commits (items : List Item) (db : DB) : DB := items.foldl (fun db p => commitAcct db p.1 p.2) db
def reverts (items : List Item) (db : DB) : DB := (items.map (fun p => entryOf p.1 p.2)).foldl revertEntry db

theorem commits_frame (items : List Item) (db : DB) (b : Addr) (h : ∀ p ∈ items, p.1 ≠ b) : SameAt b (commits items db) db := by
  unfold commits
  induction items generalizing db with
  | nil => exact SameAt.refl b db
  | cons p rest ih =>
    simp only [List.foldl_cons]
    exact (ih _ (fun q hq => h q (List.mem_cons_of_mem _ hq))).trans
      (commitAcct_frame db p.1 b p.2 (Ne.symm (h p (List.mem_cons_self ..))))

theorem reverts_frame (items : List Item) (db : DB) (b : Addr) (h : ∀ p ∈ items, p.1 ≠ b) : SameAt b (reverts items db) db := by
  unfold reverts
  induction items generalizing db with
  | nil => exact SameAt.refl b db
  | cons p rest ih =>
    simp only [List.map_cons, List.foldl_cons]
    exact (ih _ (fun q hq => h q (List.mem_cons_of_mem _ hq))).trans
      (revertEntry_frame db (entryOf p.1 p.2) b (Ne.symm (h p (List.mem_cons_self ..))))

theorem commits_append (xs ys : List Item) (db : DB) : commits (xs ++ ys) db = commits ys (commits xs db) := by
  simp [commits, List.foldl_append]

theorem reverts_append (xs ys : List Item) (db : DB) : reverts (xs ++ ys) db = reverts ys (reverts xs db) := by
  simp [reverts, List.foldl_append]

/-- **a whole block**: for distinct addresses whose account objects mirror the database, applying all journal entries
to a database that holds what the commit of all accounts left restores, for every address, everything the database held -/
theorem reverts_commits (items : List Item) (db D2 : DB) (hnd : (items.map (·.1)).Nodup)
    (hcoh : ∀ p ∈ items, Coh db p.1 p.2) (hsame : ∀ b, SameAt b D2 (commits items db)) (b : Addr) :
    SameAt b (reverts items D2) db := by
  by_cases hb : ∃ p ∈ items, p.1 = b
  · obtain ⟨p, hp, hpb⟩ := hb
    obtain ⟨pre, post, rfl⟩ := List.append_of_mem hp
    have hnd' : ((pre.map (·.1)) ++ p.1 :: post.map (·.1)).Nodup := by simpa using hnd
    have hpre : ∀ q ∈ pre, q.1 ≠ b := by
      intro q hq e
      have := (List.nodup_append.mp hnd').2.2 q.1 (List.mem_map.mpr ⟨q, hq, rfl⟩) p.1 (List.mem_cons_self ..)
      exact this (e.trans hpb.symm)
    have hpost : ∀ q ∈ post, q.1 ≠ b := by
      intro q hq e
      have h2 := (List.nodup_cons.mp (List.nodup_append.mp hnd').2.1).1
      exact h2 (by rw [hpb, ← e]; exact List.mem_map.mpr ⟨q, hq, rfl⟩)
    subst hpb
    have e1 : commits (pre ++ p :: post) db = commits post (commitAcct (commits pre db) p.1 p.2) := by
      rw [commits_append]; rfl
    have e2 : ∀ D, reverts (pre ++ p :: post) D = reverts post (revertEntry (reverts pre D) (entryOf p.1 p.2)) := by
      intro D; rw [reverts_append]; rfl
    rw [e2]
    refine (reverts_frame post _ p.1 hpost).trans ?_
    have hD : SameAt p.1 (commits pre db) db := commits_frame pre db p.1 hpre
    have hc : Coh (commits pre db) p.1 p.2 := by
      obtain ⟨c1, c2, c3⟩ := hcoh p hp
      exact ⟨c1.trans hD.1.symm, fun q hq hch => (c2 q hq hch).trans (hD.2.2 q.1).symm, c3.trans hD.2.1.symm⟩
    refine (revert_commit_at (commits pre db) _ p.1 p.2 hc ?_).trans hD
    refine (reverts_frame pre _ p.1 hpre).trans ((hsame p.1).trans ?_)
    rw [e1]
    exact commits_frame post _ p.1 hpost
  · have hno : ∀ p ∈ items, p.1 ≠ b := fun p hp e => hb ⟨p, hp, e⟩
    exact (reverts_frame items _ b hno).trans ((hsame b).trans (commits_frame items db b hno))

-- ------------------------------------------------------------------ any number of blocks

def commitBlocks (bs : List (List Item)) (db : DB) : DB := bs.foldl (fun db items => commits items db) db

/-- the journals are applied newest block first -/
def revertBlocks : List (List Item) → DB → DB
  | [], D => D
  | items :: rest, D => reverts items (revertBlocks rest D)

/-- every block's accounts are distinct and mirror the database the block was committed on -/
def CohBlocks : DB → List (List Item) → Prop
  | _, [] => True
  | db, items :: rest => (items.map (·.1)).Nodup ∧ (∀ p ∈ items, Coh db p.1 p.2) ∧ CohBlocks (commits items db) rest

/-- **any number of blocks**: undoing the journals of the blocks, newest first, on a database that holds what their
commits left gives back everything the database held before the first of them -/
theorem revertBlocks_commitBlocks (bs : List (List Item)) (db D2 : DB) (hcoh : CohBlocks db bs)
    (hsame : ∀ b, SameAt b D2 (commitBlocks bs db)) (b : Addr) : SameAt b (revertBlocks bs D2) db := by
  induction bs generalizing db b with
  | nil => exact hsame b
  | cons items rest ih =>
    obtain ⟨h1, h2, h3⟩ := hcoh
    unfold revertBlocks
    exact reverts_commits items db _ h1 h2 (fun b' => ih (commits items db) h3 hsame b') b

-- ------------------------------------------------------------------ `flush`, `commit`, `rollback`

/-- the dirty accounts `flush` hands to `Commit` -/
def flushItems (l : L) : List Item :=
  (l.accounts.map (fun p => (p.1, journalOf l p.1 p.2))).filterMap
    (fun p => match p.2.1 with | some _ => some (p.1, p.2.2) | none => none)

theorem flush_accounts (H : RootPre → String) (l : L) : (flush H l).2.accounts = flushItems l := rfl

theorem flush_db (H : RootPre → String) (l : L) :
    (flush H l).1.db = l.db ∧ (flush H l).1.maxJ = l.maxJ ∧ (flush H l).1.minJ = l.minJ := ⟨rfl, rfl, rfl⟩

theorem items_entries (l : L) (xs : List (Addr × Acct)) :
    (xs.map (fun p => (p.1, journalOf l p.1 p.2))).filterMap (fun p => p.2.1) =
    ((xs.map (fun p => (p.1, journalOf l p.1 p.2))).filterMap
      (fun p => match p.2.1 with | some _ => some (p.1, p.2.2) | none => none)).map (fun p => entryOf p.1 p.2) := by
  induction xs with
  | nil => rfl
  | cons x rest ih =>
    simp only [List.map_cons, List.filterMap_cons]
    cases hj : (journalOf l x.1 x.2).1 with
    | none => simp only [ih]
    | some e =>
      simp only [List.map_cons, ih]
      rw [journalOf_entry l x.1 x.2 e hj, journalOf_snd]

/-- the block journal `flush` records under the new root lists exactly the entries of the accounts it hands over -/
theorem flush_journal (H : RootPre → String) (l : L) :
    ∃ bj, KV.get (flush H l).1.blockJournals (flush H l).2.root = some bj ∧
      bj.entries = (flushItems l).map (fun p => entryOf p.1 p.2) := by
  refine ⟨_, KV.get_set_eq _ _ _, ?_⟩
  exact items_entries l l.accounts

theorem flushItems_sublist (l : L) (xs : List (Addr × Acct)) :
    (((xs.map (fun p => (p.1, journalOf l p.1 p.2))).filterMap
      (fun p => match p.2.1 with | some _ => some (p.1, p.2.2) | none => none)).map (·.1)).Sublist (xs.map (·.1)) := by
  induction xs with
  | nil => exact List.Sublist.slnil
  | cons x rest ih =>
    simp only [List.map_cons, List.filterMap_cons]
    cases (journalOf l x.1 x.2).1 with
    | none => exact List.Sublist.cons _ ih
    | some e => exact List.Sublist.cons_cons _ ih

theorem flushItems_mem (l : L) (p : Item) (hp : p ∈ flushItems l) :
    ∃ acc, (p.1, acc) ∈ l.accounts ∧ p.2 = loadOrigin l p.1 acc := by
  unfold flushItems at hp
  obtain ⟨q, hq, hf⟩ := List.mem_filterMap.mp hp
  obtain ⟨x, hx, rfl⟩ := List.mem_map.mp hq
  simp only at hf
  split at hf
  · injection hf with hf
    subst hf
    exact ⟨x.2, hx, journalOf_snd l x.1 x.2⟩
  · cases hf

theorem get_filter_key {β : Type} (m : KV Nat β) (pred : Nat → Bool) (k : Nat) (hk : pred k = true) :
    KV.get (m.filter (fun p => pred p.1)) k = KV.get m k := by
  induction m with
  | nil => rfl
  | cons x rest ih =>
    by_cases hx : pred x.1 = true
    · simp only [List.filter, hx, KV.get]
      split
      · rfl
      · exact ih
    · have hx' := Bool.eq_false_iff.mpr hx
      simp only [List.filter, hx', KV.get]
      have : ¬ x.1 = k := by intro e; rw [e] at hx; exact hx hk
      simp only [this, if_false]
      exact ih

theorem prune_pred (m h : Nat) : (!(decide (m ≤ h) && decide (h < h - journalWindow))) = true := by
  have : ¬ h < h - journalWindow := by omega
  simp [this]

/-- what `Commit` leaves in the database: the accounts written one after the other, and the block journal under the height -/
theorem commit_db (l l' : L) (h : Nat) (f : Flushed) (hc : commit l h f = some l') :
    ∃ bj, KV.get l.blockJournals f.root = some bj ∧
      l'.db.acct = (commits f.accounts l.db).acct ∧ l'.db.state = (commits f.accounts l.db).state ∧
      l'.db.code = (commits f.accounts l.db).code ∧ KV.get l'.db.journals h = some bj ∧ l'.maxJ = h := by
  unfold commit at hc
  split at hc
  · cases hc
  · rename_i bj hbj
    refine ⟨bj, hbj, ?_⟩
    simp only at hc
    split at hc
    all_goals
      injection hc with hc
      subst hc
      try unfold pruneJournals
      try simp only
      repeat' split
      all_goals refine ⟨?_, ?_, ?_, ?_, ?_⟩
      all_goals
        first
          | rfl
          | trivial
          | exact KV.get_set_eq _ _ _
          | exact (get_filter_key _ (fun k => !(decide (h ≤ k) && decide (k < h - journalWindow))) h (prune_pred h h)).trans
              (KV.get_set_eq _ _ _)
          | exact (get_filter_key _ (fun k => !(decide (l.minJ ≤ k) && decide (k < h - journalWindow))) h (prune_pred l.minJ h)).trans
              (KV.get_set_eq _ _ _)

/-- one iteration of the loop of `RollbackState`: the entries of the head block's journal are applied in order -/
theorem rollbackLoop_one (db : DB) (t : Nat) (bj : BlockJournal) (hj : KV.get db.journals (t + 1) = some bj) :
    rollbackLoop db t 1 (t + 1) =
      ({ (bj.entries.foldl revertEntry db) with
          journals := KV.erase (bj.entries.foldl revertEntry db).journals (t + 1), maxH := t }, true) := by
  have h1 : ¬ (t + 1 ≤ t) := by omega
  simp only [rollbackLoop, h1, if_false, hj, Nat.add_sub_cancel]

theorem rollback_one (l l2 : L) (t : Nat) (bj : BlockJournal) (hm : l.maxJ = t + 1)
    (hj : KV.get l.db.journals (t + 1) = some bj) (hr : rollback l t = .ok l2) :
    l2.db.acct = (bj.entries.foldl revertEntry l.db).acct ∧ l2.db.state = (bj.entries.foldl revertEntry l.db).state ∧
    l2.db.code = (bj.entries.foldl revertEntry l.db).code := by
  unfold rollback at hr
  have h1 : ¬ l.maxJ < t := by omega
  have h3 : ¬ l.maxJ = t := by omega
  simp only [h1, if_false, h3] at hr
  split at hr
  · cases hr
  · simp only [hm, Nat.add_sub_cancel_left, rollbackLoop_one l.db t bj hj] at hr
    simp only [Bool.not_true, Bool.false_eq_true, if_false] at hr
    split at hr
    · split at hr
      · injection hr with hr
        subst hr
        exact ⟨rfl, rfl, rfl⟩
      · cases hr
    · injection hr with hr
      subst hr
      exact ⟨rfl, rfl, rfl⟩

-- ------------------------------------------------------------------ the loop of `RollbackState` over several heights

/-- the two databases hold the same accounts, code and storage (journals and height markers aside) -/
def Same (x y : DB) : Prop := ∀ b, SameAt b x y

theorem revertEntry_meta (db : DB) (e : JEntry) :
    (revertEntry db e).journals = db.journals ∧ (revertEntry db e).minH = db.minH ∧ (revertEntry db e).maxH = db.maxH := by
  rw [revertEntry_eq]
  have hs := revertEntry_fold e.addr e.prevStates (acctR db e)
  have ha : (acctR db e).journals = db.journals ∧ (acctR db e).minH = db.minH ∧ (acctR db e).maxH = db.maxH := by
    unfold acctR; split
    · split <;> exact ⟨rfl, rfl, rfl⟩
    · exact ⟨rfl, rfl, rfl⟩
  have hc : ∀ d : DB, (codeR d e).journals = d.journals ∧ (codeR d e).minH = d.minH ∧ (codeR d e).maxH = d.maxH := by
    intro d; unfold codeR; split
    · split <;> exact ⟨rfl, rfl, rfl⟩
    · exact ⟨rfl, rfl, rfl⟩
  obtain ⟨c1, c2, c3⟩ := hc (stateR (acctR db e) e)
  exact ⟨c1.trans (hs.2.2.2.1.trans ha.1), c2.trans (hs.2.2.2.2.1.trans ha.2.1), c3.trans (hs.2.2.2.2.2.trans ha.2.2)⟩

theorem reverts_journals (items : List Item) (db : DB) : (reverts items db).journals = db.journals := by
  unfold reverts
  induction items generalizing db with
  | nil => rfl
  | cons p rest ih => simp only [List.map_cons, List.foldl_cons]; rw [ih]; exact (revertEntry_meta db _).1

theorem revertState_congr (a : Addr) (prev : KV String Bytes) (st st' : KV (Addr × String) String)
    (h : ∀ key, (KV.get st key).getD "" = (KV.get st' key).getD "") (key : Addr × String) :
    (KV.get (revertState a prev st) key).getD "" = (KV.get (revertState a prev st') key).getD "" := by
  unfold revertState
  induction prev generalizing st st' with
  | nil => exact h key
  | cons p rest ih =>
    simp only [List.foldl_cons]
    apply ih
    intro key'
    rw [get_putB, get_putB]
    split
    · rfl
    · exact h key'

theorem revertEntry_congr (x y : DB) (e : JEntry) (h : Same x y) : Same (revertEntry x e) (revertEntry y e) := by
  intro b
  rw [revertEntry_eq, revertEntry_eq]
  obtain ⟨c1, c2, c3⟩ := codeR_parts (stateR (acctR x e) e) e
  obtain ⟨s1, s2, s3⟩ := stateR_parts (acctR x e) e
  obtain ⟨a1, a2, a3⟩ := acctR_parts x e
  obtain ⟨c1', c2', c3'⟩ := codeR_parts (stateR (acctR y e) e) e
  obtain ⟨s1', s2', s3'⟩ := stateR_parts (acctR y e) e
  obtain ⟨a1', a2', a3'⟩ := acctR_parts y e
  refine ⟨?_, ?_, ?_⟩
  · rw [c2, s2, a3, c2', s2', a3', (h b).1]
  · rw [c3, s3, a2, c3', s3', a2', (h b).2.1]
  · intro k
    rw [c1, s1, a1, c1', s1', a1']
    apply revertState_congr
    intro key
    exact (h key.1).2.2 key.2

theorem reverts_congr (items : List Item) (x y : DB) (h : Same x y) : Same (reverts items x) (reverts items y) := by
  unfold reverts
  induction items generalizing x y with
  | nil => exact h
  | cons p rest ih => simp only [List.map_cons, List.foldl_cons]; exact ih _ _ (revertEntry_congr x y _ h)

theorem revertBlocks_congr (bs : List (List Item)) (x y : DB) (h : Same x y) : Same (revertBlocks bs x) (revertBlocks bs y) := by
  induction bs with
  | nil => exact h
  | cons items rest ih => exact reverts_congr items _ _ ih

theorem revertBlocks_concat (bs : List (List Item)) (last : List Item) (D : DB) :
    revertBlocks (bs ++ [last]) D = revertBlocks bs (reverts last D) := by
  induction bs with
  | nil => rfl
  | cons items rest ih => simp only [List.cons_append, revertBlocks, ih]

/-- the blocks at heights `t+1 … t+n`, oldest first -/
def blocksOf (J : Nat → List Item) (t : Nat) : Nat → List (List Item)
  | 0 => []
  | n+1 => blocksOf J t n ++ [J (t + n + 1)]

/-- **the loop of `RollbackState`**: when the journals of the heights `t+1 … t+n` are the entries of the blocks `J`, the
loop from `t+n` down to `t` succeeds and leaves what applying those journals, newest first, leaves -/
theorem rollbackLoop_spec (J : Nat → List Item) (t n : Nat) (db : DB)
    (hj : ∀ j, t < j → j ≤ t + n → ∃ bj, KV.get db.journals j = some bj ∧ bj.entries = (J j).map (fun p => entryOf p.1 p.2)) :
    ∃ db', rollbackLoop db t n (t + n) = (db', true) ∧ Same db' (revertBlocks (blocksOf J t n) db) ∧
      (∀ j, j ≤ t → KV.get db'.journals j = KV.get db.journals j) := by
  induction n generalizing db with
  | zero => exact ⟨db, rfl, fun b => SameAt.refl b db, fun _ _ => rfl⟩
  | succ n ih =>
    obtain ⟨bj, hbj, hent⟩ := hj (t + (n + 1)) (by omega) (by omega)
    have h1 : ¬ (t + (n + 1) ≤ t) := by omega
    have hstep : rollbackLoop db t (n + 1) (t + (n + 1)) =
        rollbackLoop { (bj.entries.foldl revertEntry db) with
          journals := KV.erase (bj.entries.foldl revertEntry db).journals (t + (n + 1)), maxH := t + (n + 1) - 1 } t n (t + n) := by
      simp only [rollbackLoop, h1, if_false, hbj]
      rfl
    have hrev : bj.entries.foldl revertEntry db = reverts (J (t + n + 1)) db := by
      unfold reverts; rw [hent]; rfl
    rw [hrev] at hstep
    have hjr : (reverts (J (t + n + 1)) db).journals = db.journals := reverts_journals _ db
    obtain ⟨db', hl, hsame, hjs⟩ := ih
      { (reverts (J (t + n + 1)) db) with journals := KV.erase (reverts (J (t + n + 1)) db).journals (t + (n + 1)), maxH := t + (n + 1) - 1 }
      (by
        intro j h1 h2
        obtain ⟨bj2, hb2, he2⟩ := hj j h1 (by omega)
        refine ⟨bj2, ?_, he2⟩
        show KV.get (KV.erase (reverts (J (t + n + 1)) db).journals (t + (n + 1))) j = some bj2
        rw [KV.get_erase_ne _ _ _ (by omega), hjr]
        exact hb2)
    refine ⟨db', hstep.trans hl, ?_, ?_⟩
    · intro b
      refine (hsame b).trans ?_
      show SameAt b _ (revertBlocks (blocksOf J t n ++ [J (t + n + 1)]) db)
      rw [revertBlocks_concat]
      have hS : Same ({ (reverts (J (t + n + 1)) db) with
          journals := KV.erase (reverts (J (t + n + 1)) db).journals (t + (n + 1)), maxH := t + (n + 1) - 1 } : DB)
          (reverts (J (t + n + 1)) db) := fun b' => ⟨rfl, rfl, fun _ => rfl⟩
      exact revertBlocks_congr (blocksOf J t n) _ _ hS b
    · intro j hjt
      rw [hjs j hjt]
      show KV.get (KV.erase (reverts (J (t + n + 1)) db).journals (t + (n + 1))) j = _
      rw [KV.get_erase_ne _ _ _ (by omega), hjr]

/-- `RollbackState` over `n ≥ 1` heights: what it leaves in the state store is what applying the journals of the heights
`t+1 … t+n`, newest first, leaves -/
theorem rollback_spec (J : Nat → List Item) (l l2 : L) (t n : Nat) (hn : 0 < n) (hm : l.maxJ = t + n)
    (hj : ∀ j, t < j → j ≤ t + n → ∃ bj, KV.get l.db.journals j = some bj ∧ bj.entries = (J j).map (fun p => entryOf p.1 p.2))
    (hr : rollback l t = .ok l2) : Same l2.db (revertBlocks (blocksOf J t n) l.db) := by
  obtain ⟨db', hl, hsame, _⟩ := rollbackLoop_spec J t n l.db hj
  unfold rollback at hr
  have h1 : ¬ l.maxJ < t := by omega
  have h3 : ¬ l.maxJ = t := by omega
  simp only [h1, if_false, h3] at hr
  split at hr
  · cases hr
  · simp only [hm, Nat.add_sub_cancel_left, hl] at hr
    simp only [Bool.not_true, Bool.false_eq_true, if_false] at hr
    split at hr
    · split at hr
      · injection hr with hr
        subst hr
        exact hsame
      · cases hr
    · injection hr with hr
      subst hr
      exact hsame

end Bxh.Ledger
