import Bxh.Model.Sync
namespace Bxh.Sync

theorem calcLoop_done (fetch end_ fuel begin startNo : Nat) (h : end_ < begin) :
    calcLoop fetch end_ fuel begin startNo = [] := by
  cases fuel with
  | zero => rfl
  | succ n => simp [calcLoop]; omega

theorem range'_glue (a m b n k : Nat) (hb : b = a + m) (hk : k = m + n) :
    List.range' a m ++ List.range' b n = List.range' a k := by
  subst hb hk
  have := List.range'_append (s := a) (m := m) (n := n) (step := 1)
  simpa using this

theorem loop_heights (fetch end_ : Nat) (hf : 0 < fetch) :
    ∀ (fuel begin startNo : Nat), begin ≤ (startNo + 1) * fetch → end_ + 1 - begin ≤ fuel →
      heights (calcLoop fetch end_ fuel begin startNo) = List.range' begin (end_ + 1 - begin) := by
  intro fuel
  induction fuel with
  | zero =>
    intro begin startNo _ hfu
    have : end_ + 1 - begin = 0 := by omega
    simp [calcLoop, heights, this]
  | succ n ih =>
    intro begin startNo hinv hfu
    by_cases hb : begin ≤ end_
    · have hmul : (startNo + 1 + 1) * fetch = (startNo + 1) * fetch + fetch := Nat.succ_mul _ _
      simp only [calcLoop, hb, if_true]
      by_cases hc : (startNo + 1) * fetch > end_
      · simp only [hc, if_true, heights]
        rw [calcLoop_done _ _ _ _ _ (by omega)]
        simp [heights]
      · simp only [hc, if_false, heights]
        rw [ih _ _ (by omega) (by omega)]
        exact range'_glue _ _ _ _ _ (by omega) (by omega)
    · have : end_ + 1 - begin = 0 := by omega
      simp [calcLoop, hb, heights, this]

theorem loop_shape (fetch end_ : Nat) (hf : 0 < fetch) :
    ∀ (fuel begin startNo : Nat), startNo * fetch ≤ begin → begin ≤ (startNo + 1) * fetch →
      ∀ r ∈ calcLoop fetch end_ fuel begin startNo,
        r.b ≤ r.e ∧ r.e ≤ end_ ∧ begin ≤ r.b ∧ r.e - r.b ≤ fetch := by
  intro fuel
  induction fuel with
  | zero => intro _ _ _ _ r hr; simp [calcLoop] at hr
  | succ n ih =>
    intro begin startNo hlo hhi r hr
    have hmul : (startNo + 1 + 1) * fetch = (startNo + 1) * fetch + fetch := Nat.succ_mul _ _
    have hmul1 : (startNo + 1) * fetch = startNo * fetch + fetch := Nat.succ_mul _ _
    by_cases hb : begin ≤ end_
    · simp only [calcLoop, hb, if_true] at hr
      by_cases hc : (startNo + 1) * fetch > end_
      · simp only [hc, if_true] at hr
        rw [calcLoop_done _ _ _ _ _ (by omega)] at hr
        simp at hr
        subst hr
        simp
        omega
      · simp only [hc, if_false] at hr
        rcases List.mem_cons.mp hr with h | h
        · subst h; simp; omega
        · have := ih _ _ (by omega) (by omega) r h
          omega
    · simp [calcLoop, hb] at hr

end Bxh.Sync
