import Bxh.Proofs.Journal
/-!
# Every modelled contract function only performs journaled writes (`Steps`)
-/
namespace Bxh.Exec
open Bxh

theorem tmAddTimeout_steps (l : Led) (h : Nat) (id : TId) : Steps l (tmAddTimeout l h id) := by
  unfold tmAddTimeout; split <;> (try split) <;> steps_tac

theorem tmRemoveTimeout_steps {l l' : Led} {h : Nat} {id : TId} (e : tmRemoveTimeout l h id = .ok l') : Steps l l' := by
  unfold tmRemoveTimeout at e
  split at e
  · split at e
    · cases e; steps_tac
    · split at e
      · cases e; steps_tac
      · cases e
  · cases e; steps_tac

theorem tmBegin_steps (l : Led) (cur : Nat) (id : TxId) (t : Nat) (f : Bool) : Steps l (tmBegin l cur id t f).1 := by
  unfold tmBegin; steps_tac

theorem tmBeginInter_steps {l : Led} {cur : Nat} {id : TxId} {t : Nat} {x : Ext} {f : Bool} {r : Led × StatusChange}
    (e : tmBeginInter l cur id t x f = .ok r) : Steps l r.1 := by
  unfold tmBeginInter at e
  split at e
  · split at e
    · cases e
    · split at e
      · cases e
      · cases e; steps_tac
  · cases e
  · cases e; steps_tac

theorem tmBeginMulti_steps {l : Led} {cur : Nat} {gid : GId} {id : TxId} {t : Nat} {f : Bool} {n : Nat} {r : Led × StatusChange}
    (e : tmBeginMulti l cur gid id t f n = .ok r) : Steps l r.1 := by
  unfold tmBeginMulti at e
  split at e
  · split at e
    · cases e
    · split at e
      · cases e; steps_tac
      · split at e
        · split at e
          · cases e
          · rename_i l0 h0
            cases e
            have := tmRemoveTimeout_steps h0
            steps_tac
        · cases e; steps_tac
  · cases e
    by_cases hf : f = true
    · simp only [hf, if_true]; steps_tac
    · simp only [hf]
      have := tmAddTimeout_steps l (recordHeight cur t) (.global gid)
      steps_tac

theorem tmChangeMulti_steps {l : Led} {gid : GId} {g : Global} {id : TxId} {typ : Nat} {r : Led × Global}
    (e : tmChangeMulti l gid g id typ = .ok r) : Steps l r.1 := by
  unfold tmChangeMulti at e
  split at e
  · split at e
    · cases e
    · rename_i l0 h0; cases e; exact tmRemoveTimeout_steps h0
  · simp only at e
    split at e
    · cases e
    · split at e
      · split at e
        · cases e
        · split at e
          · cases e
          · rename_i l0 h0; cases e; exact tmRemoveTimeout_steps h0
      · cases e; steps_tac

theorem tmReport_steps {l : Led} {id : TxId} {typ : Nat} {r : Led × StatusChange}
    (e : tmReport l id typ = .ok r) : Steps l r.1 := by
  unfold tmReport at e
  split at e
  · split at e
    · cases e
    · cases e; steps_tac
  · cases e
  · split at e
    · split at e
      · split at e
        · cases e
        · split at e
          · cases e
          · rename_i l1 g' h0
            cases e
            have := tmChangeMulti_steps h0
            steps_tac
      · cases e
    · cases e

theorem beginTransaction_steps {env : Env} {l : Led} {i : Ibtp} {ck : Checked} {r : Led × StatusChange}
    (e : beginTransaction env l i ck = .ok r) : Steps l r.1 := by
  unfold beginTransaction at e
  simp only at e
  split at e
  · split at e
    · cases e
    · rename_i r0 h0; cases e; exact tmBeginInter_steps h0
  · split at e
    · cases e; exact tmBegin_steps _ _ _ _ _
    · split at e
      · cases e
      · rename_i r0 h0; cases e; exact tmBeginMulti_steps h0

theorem addToMultiNotify_steps (env : Env) (l : Led) (ids : List TxId) (b : Bool) : Steps l (addToMultiNotify env l ids b) := by
  unfold addToMultiNotify
  split
  · steps_tac
  · steps_tac

theorem notifySrcDst_steps (env : Env) (l : Led) (src dst : SvcId) (c : StatusChange) (b : Bool) :
    Steps l (notifySrcDst env l src dst c b) := by
  unfold notifySrcDst
  have h1 := addToMultiNotify_steps env l c.notifySrc true
  cases notifyFlags c with
  | mk ns nd =>
    simp only
    apply Steps.post
    cases ns <;> cases nd <;> cases isLocal env src <;> cases isLocal env dst <;>
      simp only [if_true, if_false, Bool.false_eq_true] <;>
      first
        | exact Steps.refl _
        | exact h1
        | exact addToMultiNotify_steps env _ c.notifyDst false
        | exact Steps.trans h1 (addToMultiNotify_steps env _ c.notifyDst false)

theorem setDestIC_steps (l : Led) (f t : SvcId) (n : Nat) (ic : IC) : Steps l (setDestIC l f t n ic) := by
  unfold setDestIC; steps_tac

theorem foldl_steps {α : Type} (f : Led → α → Led) (hf : ∀ l a, Steps l (f l a)) (xs : List α) (l : Led) :
    Steps l (xs.foldl f l) := by
  induction xs generalizing l with
  | nil => exact Steps.refl _
  | cons x rest ih => exact Steps.trans (hf l x) (ih _)

theorem processIBTP_steps (l : Led) (i : Ibtp) (ck : Checked) (c : StatusChange) : Steps l (processIBTP l i ck c).1 := by
  unfold processIBTP
  simp only
  split
  · steps_tac
  · simp only
    apply Steps.setS
    split
    · split
      · exact foldl_steps _ (fun l cid => setDestIC_steps l _ _ _ _) _ _
      · exact setDestIC_steps _ _ _ _ _
    · exact Steps.refl _

theorem handleIBTP_steps {env : Env} {l : Led} {i : Ibtp} {r : Led × String}
    (e : handleIBTP env l i = .ok r) : Steps l r.1 := by
  unfold handleIBTP at e
  split at e
  · cases e
  · rename_i ck hck
    simp only at e
    split at e
    · cases e
    · rename_i l1 c hr
      have h1 : Steps l l1 := by
        split at hr
        · exact beginTransaction_steps hr
        · split at hr
          · split at hr
            · cases hr
            · rename_i x hx; cases hr; exact tmReport_steps hx
          · cases hr
      have h2 := notifySrcDst_steps env l1 ck.src ck.dst c ck.isBatch
      have h3 := processIBTP_steps (notifySrcDst env l1 ck.src ck.dst c ck.isBatch) i ck c
      have h123 := Steps.trans (Steps.trans h1 h2) h3
      split at e
      · split at e
        · cases e
        · cases e; steps_tac
      · cases e; exact h123

theorem payAdmins_steps (cfg : Cfg) (l : Led) (f : Int) : Steps l (payAdmins cfg l f) := by
  unfold payAdmins
  exact foldl_steps _ (fun l a => Steps.setBal _ _ (Steps.refl _)) _ _

theorem transfer_steps {l l' : Led} {a b : String} {v : Int} (e : transfer l a b v = .ok l') : Steps l l' := by
  unfold transfer at e
  split at e
  · cases e; exact Steps.refl _
  · split at e
    · cases e
    · split at e
      · cases e
      · cases e; steps_tac

theorem applyBvm_steps {env : Env} {l : Led} {c m : String} {args : List Arg} {r : Led × String}
    (e : applyBvm env l c m args = .ok r) : Steps l r.1 := by
  unfold applyBvm at e
  split at e
  · split at e
    · split at e
      · cases e
      · cases e; simp only; steps_tac
    · cases e
  · split at e
    · split at e
      · split at e
        · cases e; exact Steps.refl _
        · cases e
      · cases e
    · split at e
      · split at e
        · split at e
          · cases e; exact Steps.refl _
          · cases e
        · cases e
      · split at e
        · split at e <;> cases e
        · cases e

end Bxh.Exec

namespace Bxh.Exec
open Bxh

theorem snapshot_nil (l : Led) (h : l.journal = []) : l.snapshot = 0 := by simp [Led.snapshot, h]

theorem applyBxh_steps (env : Env) (l0 : Led) (tx : Tx) (inv : Option String) (hj : l0.journal = []) :
    Steps l0 (applyBxh env l0 tx inv).1 := by
  unfold applyBxh
  split
  · exact Steps.refl _
  · split
    · split
      · rename_i h; exact handleIBTP_steps h
      · split
        · split
          · rename_i h; exact handleIBTP_steps h
          · exact Steps.refl _
        · exact Steps.refl _
    · split
      · rename_i h; exact transfer_steps h
      · exact Steps.refl _
      · exact Steps.refl _
    · split
      · rename_i h; exact applyBvm_steps h
      · simp only [revert_nil l0 _ hj]; exact Steps.refl _

/-- the only modelled error that is raised after effects were applied: the audit information of
a party cannot be read (its interchain record is missing) -/
def auditHole (env : Env) (l0 : Led) (tx : Tx) : Prop :=
  ∃ s i p, tx = .ibtp s i p ∧ handleIBTP env l0 i = .error "2080000!"

/-- a failing `applyBxhTransaction` returns the ledger it started from -/
theorem applyBxh_error_ledger (env : Env) (l0 : Led) (tx : Tx) (inv : Option String) (hj : l0.journal = [])
    (e : String) (he : (applyBxh env l0 tx inv).2.1 = .error e) (hh : ¬ auditHole env l0 tx) :
    (applyBxh env l0 tx inv).1 = l0 := by
  unfold applyBxh at he ⊢
  split
  · rfl
  · split
    · rename_i s i p
      split
      · rename_i h; simp only [h] at he; cases he
      · rename_i e' h
        split
        · rename_i h2
          exfalso; apply hh
          refine ⟨s, i, p, rfl, ?_⟩
          rw [h]
          simp only [beq_iff_eq] at h2
          rw [h2]
        · rfl
    · split
      · rename_i h; simp only [h] at he; cases he
      · rfl
      · rfl
    · split
      · rename_i h; simp only [h] at he; cases he
      · simp only [revert_nil l0 _ hj]

end Bxh.Exec
