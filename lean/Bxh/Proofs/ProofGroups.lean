import Bxh.Model.ProofGroups
/-!
# The proof-verification fan-out records exactly the rejected transactions, each under its own position
-/
namespace Bxh.ProofGroups

theorem mem_groupInvalid {α : Type} (check : α → Option String) (txs : List α) (lo hi k : Nat) (r : String) :
    (k, r) ∈ groupInvalid check txs lo hi ↔ lo ≤ k ∧ k < hi ∧ ∃ tx, txs[k]? = some tx ∧ check tx = some r := by
  unfold groupInvalid
  rw [List.mem_filterMap]
  constructor
  · rintro ⟨⟨tx, i⟩, hm, hc⟩
    obtain ⟨h1, h2, h3⟩ := List.mem_zipIdx hm
    cases hck : check tx with
    | none => simp [hck] at hc
    | some r' =>
      simp only [hck, Option.map_some, Option.some.injEq, Prod.mk.injEq] at hc
      obtain ⟨e1, e2⟩ := hc
      subst e1; subst e2
      have hlen : i - lo < ((txs.take hi).drop lo).length := by omega
      have hget : ((txs.take hi).drop lo)[i - lo]? = some tx := by
        rw [List.getElem?_eq_getElem hlen, h3]
      rw [List.getElem?_drop, List.getElem?_take] at hget
      have e : lo + (i - lo) = i := by omega
      rw [e] at hget
      split at hget
      · exact ⟨h1, by assumption, tx, hget, hck⟩
      · cases hget
  · rintro ⟨h1, h2, tx, hg, hc⟩
    refine ⟨(tx, k), ?_, by simp [hc]⟩
    have hget : ((txs.take hi).drop lo)[k - lo]? = some tx := by
      rw [List.getElem?_drop, List.getElem?_take]
      have e : lo + (k - lo) = k := by omega
      rw [e]; simp [h2, hg]
    have := (List.mem_zipIdx_iff_getElem? (x := (tx, k - lo)) (l := (txs.take hi).drop lo)).mpr hget
    -- shift the index by `lo`
    have h' : (tx, k) ∈ ((txs.take hi).drop lo).zipIdx lo := by
      rw [List.mem_iff_getElem?]
      obtain ⟨j, hj⟩ := List.mem_iff_getElem?.mp this
      refine ⟨j, ?_⟩
      rw [List.getElem?_zipIdx] at hj ⊢
      cases hx : ((txs.take hi).drop lo)[j]? with
      | none => simp [hx] at hj
      | some y =>
        simp only [hx, Option.map_some, Option.some.injEq, Prod.mk.injEq] at hj ⊢
        obtain ⟨e1, e2⟩ := hj
        exact ⟨e1, by omega⟩
    exact h'

end Bxh.ProofGroups

namespace Bxh.ProofGroups

theorem groupNum_bounds (c n : Nat) (hc : 0 < c) (hn : n ≠ 0) : 1 ≤ groupNum c n ∧ groupNum c n ≤ n ∧ 0 < n / groupNum c n := by
  unfold groupNum
  split
  · refine ⟨by omega, Nat.le_refl _, ?_⟩
    rw [Nat.div_self (by omega)]; omega
  · refine ⟨by omega, by omega, ?_⟩
    exact Nat.div_pos (by omega) (by omega)

/-- **every transaction of the block is checked, under its own position**: the fan-out records `(k, r)` iff the transaction at
position `k` of the block is rejected with reason `r` — whatever the block's length (fewer than five transactions, a multiple of
five, a remainder for the last group) and wherever in the block the transaction stands -/
theorem mem_verifyProofs {α : Type} (c : Nat) (hc : 0 < c) (check : α → Option String) (txs : List α) (k : Nat) (r : String) :
    (k, r) ∈ verifyProofs c check txs ↔ ∃ tx, txs[k]? = some tx ∧ check tx = some r := by
  unfold verifyProofs
  by_cases hn : txs.length = 0
  · simp only [hn, if_true]
    have : txs = [] := List.eq_nil_of_length_eq_zero hn
    subst this
    simp
  · simp only [hn, if_false]
    rw [List.mem_flatMap]
    obtain ⟨g1, g2, hL⟩ := groupNum_bounds c txs.length hc hn
    constructor
    · rintro ⟨i, _, hm⟩
      exact ((mem_groupInvalid check txs _ _ k r).mp hm).2.2
    · rintro ⟨tx, hg, hc⟩
      have hk : k < txs.length := by
        by_cases h : k < txs.length
        · exact h
        · rw [List.getElem?_eq_none (by omega)] at hg; cases hg
      generalize hgn : groupNum c txs.length = g at g1 g2 hL
      generalize hLn : txs.length / g = L at hL
      by_cases hlt : k / L < g - 1
      · refine ⟨k / L, List.mem_range.mpr (by omega), ?_⟩
        rw [mem_groupInvalid]
        have hne : ¬ k / L = g - 1 := by omega
        simp only [groupRange, hLn, hne, if_false]
        refine ⟨Nat.div_mul_le_self k L, ?_, tx, hg, hc⟩
        have := Nat.lt_mul_div_succ k hL
        rw [Nat.mul_comm] at this
        exact this
      · refine ⟨g - 1, List.mem_range.mpr (by omega), ?_⟩
        rw [mem_groupInvalid]
        simp only [groupRange, hLn, if_true]
        refine ⟨?_, hk, tx, hg, hc⟩
        exact (Nat.le_div_iff_mul_le hL).mp (by omega)

end Bxh.ProofGroups
