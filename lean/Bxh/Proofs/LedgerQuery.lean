import Bxh.Proofs.LedgerFlush
import Bxh.Proofs.LedgerReads
import Bxh.Proofs.LedgerRollback
/-!
# `QueryByPrefix` lists exactly the live keys under the prefix

`SimpleAccount.Query` collects the committed values from the database, lays the account cache over them (what earlier
blocks flushed but did not commit yet), then the writes of the current block, dropping keys whose value is empty.
Here: the map it builds holds, for every key `k`, exactly the answer `GetState` gives for `k` (`peekState`) when `k` has
the prefix and that answer is a present value, and nothing otherwise.  The memo of committed values (`originState`) that
`GetState` consults and `Query` does not is bridged by the coherence invariant `ObjCoh`.
-/
namespace Bxh.Ledger
open Bxh

/-- one layer of `Query`: the entries of `src` with the prefix override (`present`) or remove (empty / deleted) those of `m` -/
def overlay (pfx : String) (m src : KV String Bytes) : KV String Bytes :=
  src.foldl (fun m p =>
    if p.1.startsWith pfx then
      if present p.2 then KV.set m p.1 p.2 else KV.erase m p.1
    else m) m

/-- the database layer of `Query` -/
def dbLayer (st : KV (Addr × String) String) (a : Addr) (pfx : String) : KV String Bytes :=
  ((st.filter (fun p => p.1.1 == a && p.1.2.startsWith pfx)).filter (fun p => p.2 != "")).map (fun p => (p.1.2, some p.2))

/-- a present value or nothing -/
def live (v : Bytes) : Option Bytes := if present v then some v else none

theorem live_congr {x y : Bytes} (h : x.getD "" = y.getD "") : live x = live y := by
  unfold live present
  cases x with
  | none =>
    cases y with
    | none => rfl
    | some t =>
      simp only [Option.getD_none, Option.getD_some] at h
      subst h
      simp
  | some s =>
    cases y with
    | none =>
      simp only [Option.getD_none, Option.getD_some] at h
      subst h
      simp
    | some t =>
      simp only [Option.getD_some] at h
      subst h
      rfl

theorem query_eq (l : L) (a : Addr) (pfx : String) :
    (query l a pfx).2 =
      ((overlay pfx (overlay pfx (dbLayer l.db.state a pfx) ((KV.get l.cache.state a).getD []))
        (getOrCreate l a).2.dirtyState).map (·.2)).mergeSort (fun x y => x.getD "" ≤ y.getD "") := by
  obtain ⟨hc, hd⟩ := getOrCreate_cache_db l a
  unfold query overlay dbLayer
  cases hg : getOrCreate l a with
  | mk l1 acc =>
    rw [hg] at hc hd
    simp only at hc hd ⊢
    rw [hc, hd]

theorem overlay_step_get (pfx : String) (m : KV String Bytes) (k0 : String) (v0 : Bytes) (k : String) :
    KV.get (if k0.startsWith pfx then (if present v0 then KV.set m k0 v0 else KV.erase m k0) else m) k =
      if k0 = k then (if k0.startsWith pfx then live v0 else KV.get m k) else KV.get m k := by
  by_cases hk : k0 = k
  · subst hk
    by_cases hp : k0.startsWith pfx = true
    · by_cases hv : present v0 = true
      · simp [hp, hv, live]
      · simp [hp, hv, live, KV.get_erase_eq]
    · simp [hp]
  · by_cases hp : k0.startsWith pfx = true
    · by_cases hv : present v0 = true
      · simp [hp, hv, hk, KV.get_set_ne m k0 k v0 hk]
      · simp [hp, hv, hk, KV.get_erase_ne m k0 k hk]
    · simp [hp, hk]

/-- what a layer answers for a key: the layer's own entry when the key has the prefix, else what was below -/
theorem overlay_get (pfx : String) (src : KV String Bytes) : ∀ (m : KV String Bytes), (src.map (·.1)).Nodup → ∀ k,
    KV.get (overlay pfx m src) k =
      match KV.get src k with
      | some v => if k.startsWith pfx then live v else KV.get m k
      | none => KV.get m k := by
  induction src with
  | nil => intro m _ k; rfl
  | cons p rest ih =>
    intro m hnd k
    obtain ⟨k0, v0⟩ := p
    simp only [List.map_cons, List.nodup_cons] at hnd
    have hstep : overlay pfx m ((k0, v0) :: rest) =
        overlay pfx (if k0.startsWith pfx then (if present v0 then KV.set m k0 v0 else KV.erase m k0) else m) rest := rfl
    rw [hstep, ih _ hnd.2 k, overlay_step_get]
    by_cases hk : k0 = k
    · subst hk
      have hn : KV.get rest k0 = none := KV.get_none_of_not_mem (fun p hp e => hnd.1 (List.mem_map.mpr ⟨p, hp, e⟩))
      simp [hn, KV.get]
    · simp only [hk, if_false, KV.get]

theorem erase_nodup {α β : Type} [DecidableEq α] (m : KV α β) (k : α) (h : (m.map (·.1)).Nodup) :
    ((KV.erase m k).map (·.1)).Nodup := by
  unfold KV.erase
  exact (List.Sublist.map _ List.filter_sublist).nodup h

theorem overlay_nodup (pfx : String) (src : KV String Bytes) : ∀ (m : KV String Bytes), (m.map (·.1)).Nodup →
    ((overlay pfx m src).map (·.1)).Nodup := by
  induction src with
  | nil => intro m h; exact h
  | cons p rest ih =>
    intro m h
    obtain ⟨k0, v0⟩ := p
    have hstep : overlay pfx m ((k0, v0) :: rest) =
        overlay pfx (if k0.startsWith pfx then (if present v0 then KV.set m k0 v0 else KV.erase m k0) else m) rest := rfl
    rw [hstep]
    apply ih
    split
    · split
      · exact KV.set_nodup m k0 v0 h
      · exact erase_nodup m k0 h
    · exact h

theorem dbLayer_cons (p : (Addr × String) × String) (st : KV (Addr × String) String) (a : Addr) (pfx : String) :
    dbLayer (p :: st) a pfx =
      if (p.1.1 == a && p.1.2.startsWith pfx) = true ∧ (p.2 != "") = true then (p.1.2, some p.2) :: dbLayer st a pfx
      else dbLayer st a pfx := by
  unfold dbLayer
  by_cases h1 : (p.1.1 == a && p.1.2.startsWith pfx) = true
  · by_cases h2 : (p.2 != "") = true
    · simp [List.filter, h1, h2]
    · simp [List.filter, h1, h2]
  · simp [List.filter, h1]

theorem dbLayer_keys {st : KV (Addr × String) String} {a : Addr} {pfx : String} {q : String × Bytes}
    (h : q ∈ dbLayer st a pfx) : ∃ s, ((a, q.1), s) ∈ st := by
  unfold dbLayer at h
  obtain ⟨p, hp, e⟩ := List.mem_map.mp h
  have hp1 := (List.mem_filter.mp (List.mem_filter.mp hp).1)
  have ha : p.1.1 = a := by
    have := hp1.2
    simp only [Bool.and_eq_true, beq_iff_eq] at this
    exact this.1
  refine ⟨p.2, ?_⟩
  have : ((a, q.1), p.2) = p := by
    rw [← e, ← ha]
  rw [this]
  exact hp1.1

theorem dbLayer_none_of_absent (st : KV (Addr × String) String) (a : Addr) (pfx k : String)
    (h : ∀ p ∈ st, p.1 ≠ (a, k)) : KV.get (dbLayer st a pfx) k = none := by
  apply KV.get_none_of_not_mem
  intro q hq e
  obtain ⟨s, hs⟩ := dbLayer_keys hq
  exact h _ hs (by rw [e])

/-- the database layer answers a key with the stored value if the key has the prefix and the value is not empty -/
theorem dbLayer_get (a : Addr) (pfx : String) : ∀ (st : KV (Addr × String) String), (st.map (·.1)).Nodup → ∀ k,
    KV.get (dbLayer st a pfx) k = if k.startsWith pfx then live (KV.get st (a, k)) else none := by
  intro st
  induction st with
  | nil => intro _ k; simp [dbLayer, KV.get, live, present]
  | cons p rest ih =>
    intro hnd k
    obtain ⟨⟨a0, k0⟩, s0⟩ := p
    simp only [List.map_cons, List.nodup_cons] at hnd
    rw [dbLayer_cons]
    by_cases hk : (a0, k0) = (a, k)
    · -- the head is the key asked for: by uniqueness nothing else in the store answers for it
      injection hk with e1 e2
      subst e1; subst e2
      have hrest : KV.get (dbLayer rest a0 pfx) k0 = none :=
        dbLayer_none_of_absent rest a0 pfx k0 (fun p hp e => hnd.1 (List.mem_map.mpr ⟨p, hp, e⟩))
      by_cases hp : k0.startsWith pfx = true
      · by_cases hs : s0 = ""
        · subst hs
          simp [hp, hrest, KV.get, live, present]
        · simp [hp, hs, KV.get, live, present]
      · simp [hp, hrest]
    · have hget : KV.get (((a0, k0), s0) :: rest) (a, k) = KV.get rest (a, k) := by
        simp only [KV.get, hk, if_false]
      rw [hget]
      split
      · rename_i hc
        have hk0 : k0 ≠ k := by
          intro e
          simp only [Bool.and_eq_true, beq_iff_eq] at hc
          exact hk (by rw [hc.1.1, e])
        simp only [KV.get, hk0, if_false]
        exact ih hnd.2 k
      · exact ih hnd.2 k

theorem dbLayer_nodup (a : Addr) (pfx : String) : ∀ (st : KV (Addr × String) String), (st.map (·.1)).Nodup →
    ((dbLayer st a pfx).map (·.1)).Nodup := by
  intro st
  induction st with
  | nil => intro _; simp [dbLayer]
  | cons p rest ih =>
    intro hnd
    simp only [List.map_cons, List.nodup_cons] at hnd
    rw [dbLayer_cons]
    split
    · rename_i hc
      simp only [List.map_cons, List.nodup_cons]
      refine ⟨?_, ih hnd.2⟩
      intro hm
      obtain ⟨q, hq, e⟩ := List.mem_map.mp hm
      obtain ⟨s, hs⟩ := dbLayer_keys hq
      apply hnd.1
      have ha : p.1.1 = a := by
        have := hc.1
        simp only [Bool.and_eq_true, beq_iff_eq] at this
        exact this.1
      have : p.1 = (a, q.1) := by
        rw [e, ← ha]
      rw [this]
      exact List.mem_map.mpr ⟨_, hs, rfl⟩
    · exact ih hnd.2

/-- the layers below the block's objects, read through `Query`'s two lower layers -/
theorem lower_layers_get (l : L) (a : Addr) (pfx k : String) (hdb : (l.db.state.map (·.1)).Nodup)
    (hcache : ∀ m, KV.get l.cache.state a = some m → (m.map (·.1)).Nodup) :
    KV.get (overlay pfx (dbLayer l.db.state a pfx) ((KV.get l.cache.state a).getD [])) k =
      if k.startsWith pfx then live (below l a k) else none := by
  have hcn : (((KV.get l.cache.state a).getD []).map (·.1)).Nodup := by
    cases hm : KV.get l.cache.state a with
    | none => exact List.nodup_nil
    | some m => exact hcache m hm
  rw [overlay_get pfx _ _ hcn k, dbLayer_get a pfx _ hdb k]
  unfold below
  cases hm : KV.get l.cache.state a with
  | none => simp [KV.get]
  | some m =>
    simp only [Option.getD_some, Option.bind_some]
    cases hk : KV.get m k with
    | none => rfl
    | some cv =>
      simp only
      by_cases hp : k.startsWith pfx = true
      · simp [hp]
      · simp [hp]

/-- the dirty set of the object a read works on has no duplicate keys, and its memo agrees with the layers below -/
theorem view_obj_facts (l : L) (hC : ObjCoh l) (a : Addr) :
    (((getOrCreate l a).2.dirtyState).map (·.1)).Nodup ∧
    ∀ k v, KV.get (getOrCreate l a).2.originState k = some v → v.getD "" = (below l a k).getD "" := by
  rw [getOrCreate_obj]
  unfold viewAcct
  cases hg : KV.get l.accounts a with
  | some acc => exact ⟨hC.dnodup a acc hg, hC.memo a acc hg⟩
  | none =>
    simp only
    cases hl : loadAcct l a with
    | some acc =>
      obtain ⟨h1, h2⟩ := loadAcct_states hl
      simp only [Option.getD_some, h1, h2]
      exact ⟨List.nodup_nil, fun k v h => by simp [KV.get] at h⟩
    | none =>
      exact ⟨List.nodup_nil, fun k v h => by simp [KV.get] at h⟩

/-- **the map `Query` builds is the map of the live keys under the prefix**: no key twice; a key is in it iff it has the
prefix and `GetState` answers a present value for it, and then with exactly that value; the result of the query is the
list of its values (sorted) -/
theorem query_exact (l : L) (a : Addr) (pfx : String) (hC : ObjCoh l) (hdb : (l.db.state.map (·.1)).Nodup)
    (hcache : ∀ m, KV.get l.cache.state a = some m → (m.map (·.1)).Nodup) :
    ∃ m : KV String Bytes, (m.map (·.1)).Nodup ∧ (query l a pfx).2.Perm (m.map (·.2)) ∧
      ∀ k, KV.get m k = if k.startsWith pfx then live (peekState l a k) else none := by
  obtain ⟨hdn, hmemo⟩ := view_obj_facts l hC a
  refine ⟨overlay pfx (overlay pfx (dbLayer l.db.state a pfx) ((KV.get l.cache.state a).getD [])) (getOrCreate l a).2.dirtyState,
    ?_, ?_, ?_⟩
  · apply overlay_nodup
    apply overlay_nodup
    exact dbLayer_nodup a pfx _ hdb
  · rw [query_eq]
    exact List.mergeSort_perm _ _
  · intro k
    rw [overlay_get pfx _ _ hdn k, lower_layers_get l a pfx k hdb hcache, ← getOrCreate_reads l a k]
    unfold rdAcct
    cases hd : KV.get (getOrCreate l a).2.dirtyState k with
    | some v => simp only; split <;> rfl
    | none =>
      simp only
      cases ho : KV.get (getOrCreate l a).2.originState k with
      | some v =>
        simp only
        rw [live_congr (hmemo k v ho)]
      | none => rfl

-- ------------------------------------------------------------------------------------ the two side conditions are invariants

/-- the stores below the block's objects are maps: no storage key twice in the database, none twice in an account's cache entry -/
structure StoreWf (l : L) : Prop where
  db : (l.db.state.map (·.1)).Nodup
  cache : ∀ a m, KV.get l.cache.state a = some m → (m.map (·.1)).Nodup

theorem foldl_inv {σ ι : Type} (P : σ → Prop) (f : σ → ι → σ) (hf : ∀ s x, P s → P (f s x)) :
    ∀ (xs : List ι) (s : σ), P s → P (xs.foldl f s) := by
  intro xs
  induction xs with
  | nil => intro s h; exact h
  | cons x rest ih => intro s h; exact ih _ (hf s x h)

theorem StoreWf.of_empty : StoreWf ({} : L) := ⟨List.nodup_nil, fun a m h => by simp [KV.get] at h⟩

theorem StoreWf.congr {l l' : L} (h : StoreWf l) (hc : l'.cache = l.cache) (hd : l'.db = l.db) : StoreWf l' :=
  ⟨by rw [hd]; exact h.db, by rw [hc]; exact h.cache⟩

def CacheWf (c : Cache) : Prop := ∀ a m, KV.get c.state a = some m → (m.map (·.1)).Nodup

theorem cacheAdd_wf (c : Cache) (a : Addr) (acc : Acct) (h : CacheWf c) : CacheWf (cacheAdd c a acc) := by
  -- only the state component matters; name it
  have hstate : ∀ b m, KV.get (cacheAdd c a acc).state b = some m → (m.map (·.1)).Nodup := by
    intro b m hm
    have hsc : ((acc.dirtyState.foldl (fun m p => KV.set m p.1 p.2) ((KV.get c.state a).getD [])).map (·.1)).Nodup := by
      apply foldl_inv (fun m : KV String Bytes => (m.map (·.1)).Nodup)
      · intro s x hs; exact KV.set_nodup s x.1 x.2 hs
      · cases he : KV.get c.state a with
        | none => exact List.nodup_nil
        | some m0 => exact h a m0 he
    have hst : (cacheAdd c a acc).state = c.state ∨
        (cacheAdd c a acc).state = KV.set c.state a (acc.dirtyState.foldl (fun m p => KV.set m p.1 p.2) ((KV.get c.state a).getD [])) := by
      unfold cacheAdd
      cases acc.dirtyAcc <;> simp only <;> (repeat' split) <;> first | (left; rfl) | (right; rfl)
    rcases hst with e | e
    · rw [e] at hm; exact h b m hm
    · rw [e, KV.get_set] at hm
      split at hm
      · cases hm; exact hsc
      · exact h b m hm
  exact hstate

theorem StoreWf.flush (H : RootPre → String) {l : L} (h : StoreWf l) : StoreWf (Ledger.flush H l).1 := by
  refine ⟨h.db, ?_⟩
  show CacheWf (Ledger.flush H l).1.cache
  unfold Ledger.flush
  simp only
  apply foldl_inv CacheWf
  · intro c p hc; exact cacheAdd_wf c p.1 p.2 hc
  · exact h.cache

theorem commitAcct_state_nodup (db : DB) (a : Addr) (acc : Acct) (h : (db.state.map (·.1)).Nodup) :
    ((commitAcct db a acc).state.map (·.1)).Nodup := by
  unfold commitAcct
  apply foldl_inv (fun d : DB => (d.state.map (·.1)).Nodup)
  · intro d p hd
    split
    · split
      · exact KV.set_nodup _ _ _ hd
      · exact erase_nodup _ _ hd
    · exact hd
  · (repeat' split) <;> exact h

theorem commit_state_cache {l l' : L} (hh : Nat) (f : Flushed) (hc : Ledger.commit l hh f = some l') :
    l'.db.state = (f.accounts.foldl (fun db p => commitAcct db p.1 p.2) l.db).state ∧ l'.cache = l.cache := by
  unfold Ledger.commit at hc
  split at hc
  · cases hc
  · injection hc with hc
    subst hc
    generalize instDecidableEqNat l.minJ 0 = d
    cases d <;> simp only [pruneJournals] <;> (repeat' split) <;> exact ⟨rfl, rfl⟩

theorem StoreWf.commit {l l' : L} (h : StoreWf l) (hh : Nat) (f : Flushed) (hc : Ledger.commit l hh f = some l') : StoreWf l' := by
  obtain ⟨e1, e2⟩ := commit_state_cache hh f hc
  refine ⟨?_, by rw [e2]; exact h.cache⟩
  rw [e1]
  apply foldl_inv (fun d : DB => (d.state.map (·.1)).Nodup)
  · intro d p hd; exact commitAcct_state_nodup d p.1 p.2 hd
  · exact h.db

theorem StoreWf.setState {l : L} (h : StoreWf l) (a : Addr) (k : String) (v : Bytes) : StoreWf (setState l a k v) :=
  h.congr (setState_spec l a k v).cache (setState_spec l a k v).db

theorem StoreWf.writes {l : L} (h : StoreWf l) (ws : List SWrite) : StoreWf (writes ws l) := by
  unfold Ledger.writes
  exact foldl_inv StoreWf _ (fun s w hs => hs.setState w.addr w.key w.val) ws l h

theorem StoreWf.reopen {l l' : L} (h : StoreWf l) (hr : Ledger.reopen l = some l') : StoreWf l' := by
  obtain ⟨_, e2, e3⟩ := reopen_facts l l' hr
  exact ⟨by rw [e3]; exact h.db, by rw [e2]; intro a m hm; simp [KV.get] at hm⟩

-- ------------------------------------------------------------------------------------ the hypotheses as a computation

/-- `ObjCoh` and `StoreWf` as a computation (every binding is checked, not only the first one per key): the model driver evaluates it
at every `query` of every generated history, so the evidence says how many reachable states the exactness theorem speaks about -/
def queryHypB (l : L) : Bool :=
  decide ((l.accounts.map (·.1)).Nodup) &&
  l.accounts.all (fun p =>
    p.2.originState.all (fun q => decide (q.2.getD "" = (below l p.1 q.1).getD "")) &&
    p.2.dirtyState.all (fun q => (KV.get p.2.originState q.1).isSome) &&
    decide ((p.2.dirtyState.map (·.1)).Nodup)) &&
  decide ((l.db.state.map (·.1)).Nodup) &&
  l.cache.state.all (fun p => decide ((p.2.map (·.1)).Nodup))

theorem queryHypB_sound (l : L) (h : queryHypB l = true) : ObjCoh l ∧ StoreWf l := by
  unfold queryHypB at h
  simp only [Bool.and_eq_true, decide_eq_true_eq, List.all_eq_true] at h
  obtain ⟨⟨⟨h1, h2⟩, h3⟩, h4⟩ := h
  refine ⟨⟨h1, ?_, ?_, ?_⟩, ⟨h3, ?_⟩⟩
  · intro a acc hg k v hk
    exact ((h2 _ (KV.mem_of_get hg)).1.1) _ (KV.mem_of_get hk)
  · intro a acc hg k hk
    cases hd : KV.get acc.dirtyState k with
    | none => rw [hd] at hk; cases hk
    | some v => exact ((h2 _ (KV.mem_of_get hg)).1.2) _ (KV.mem_of_get hd)
  · intro a acc hg
    exact (h2 _ (KV.mem_of_get hg)).2
  · intro a m hm
    exact h4 _ (KV.mem_of_get hm)

-- ------------------------------------------------------------------------------------ evictions and reopen cycles

/-- every storage value the account cache holds is the value the database holds (up to nil / empty): what holds between the commit
of one block and the flush of the next -/
def CacheDb (l : L) : Prop :=
  ∀ a m k v, KV.get l.cache.state a = some m → KV.get m k = some v → v.getD "" = ((KV.get l.db.state (a, k) : Bytes)).getD ""

/-- under `CacheDb` the layers below the block's objects answer what the database holds -/
theorem below_of_cacheDb (l : L) (h : CacheDb l) (a : Addr) (k : String) :
    (below l a k).getD "" = ((KV.get l.db.state (a, k) : Bytes)).getD "" := by
  unfold below
  cases hm : KV.get l.cache.state a with
  | none => rfl
  | some m =>
    simp only [Option.bind_some]
    cases hk : KV.get m k with
    | none => rfl
    | some v => exact h a m k v hm hk

theorem peekState_not_object (x : L) (a : Addr) (k : String) (hx : KV.get x.accounts a = none) : peekState x a k = below x a k := by
  unfold peekState viewAcct
  rw [hx]
  simp only
  cases hl : loadAcct x a with
  | none => rfl
  | some acc =>
    obtain ⟨h1, h2⟩ := loadAcct_states hl
    simp only [rdAcct, h1, h2, KV.get]

/-- two ledgers with the same account objects and the same database, both with a storage cache that agrees with the database (one may
have lost entries, or all of them): every storage read agrees, up to nil / empty -/
theorem reads_agree_of_cacheDb (l l' : L) (hacc : l'.accounts = l.accounts) (hdb : l'.db = l.db)
    (h : CacheDb l) (h' : CacheDb l') (a : Addr) (k : String) :
    (peekState l' a k).getD "" = (peekState l a k).getD "" := by
  have hb : (below l' a k).getD "" = (below l a k).getD "" := by
    rw [below_of_cacheDb l' h' a k, below_of_cacheDb l h a k, hdb]
  cases hg : KV.get l.accounts a with
  | some acc =>
    have hg' : KV.get l'.accounts a = some acc := by rw [hacc]; exact hg
    rw [peekState_of_present hg', peekState_of_present hg]
    simp only [rdAcct]
    cases KV.get acc.dirtyState k with
    | some v => rfl
    | none =>
      simp only
      cases KV.get acc.originState k with
      | some v => rfl
      | none => exact hb
  | none =>
    have hg' : KV.get l'.accounts a = none := by rw [hacc]; exact hg
    rw [peekState_not_object l' a k hg', peekState_not_object l a k hg]
    exact hb

/-- dropping a whole entry or one key of the storage cache keeps `CacheDb` -/
theorem CacheDb.evictAcct {l : L} (h : CacheDb l) (a : Addr) :
    CacheDb { l with cache := { l.cache with state := KV.erase l.cache.state a } } := by
  intro b m k v hm hk
  simp only at hm
  by_cases hb : a = b
  · subst hb; rw [KV.get_erase_eq] at hm; cases hm
  · rw [KV.get_erase_ne _ _ _ hb] at hm; exact h b m k v hm hk

theorem CacheDb.evictKey {l : L} (h : CacheDb l) (a : Addr) (m0 : KV String Bytes) (k0 : String) (hm0 : KV.get l.cache.state a = some m0) :
    CacheDb { l with cache := { l.cache with state := KV.set l.cache.state a (KV.erase m0 k0) } } := by
  intro b m k v hm hk
  simp only at hm
  rw [KV.get_set] at hm
  split at hm
  · rename_i e
    subst e
    injection hm with hm
    subst hm
    by_cases hkk : k0 = k
    · subst hkk; rw [KV.get_erase_eq] at hk; cases hk
    · rw [KV.get_erase_ne _ _ _ hkk] at hk; exact h a m0 k v hm0 hk
  · exact h b m k v hm hk


/-- **flush + commit re-establish `CacheDb`**: a block executed on a ledger whose account objects are coherent (`ObjCoh`) and whose
storage cache agrees with the database, flushed and committed: the storage cache (now holding the block's writes) agrees with the
database (now holding them as well) -/
theorem commit_establishes_cacheDb (H : RootPre → String) (l l1 : L) (h : Nat) (hC : ObjCoh l) (hD : CacheDb l)
    (hc : commit (flush H l).1 h (flush H l).2 = some l1) : CacheDb l1 := by
  obtain ⟨e1, e2⟩ := commit_state_cache h (flush H l).2 hc
  have hst : l1.db.state = (commits (flushItems l) l.db).state := by rw [e1]; rfl
  have hcache : l1.cache = (flushItems l).foldl (fun c p => cacheAdd c p.1 p.2) l.cache := by rw [e2]; exact flush_cache H l
  have hnd : ((flushItems l).map (·.1)).Nodup := (flushItems_sublist l l.accounts).nodup hC.nodup
  intro a m k v hm hk
  rw [hcache] at hm
  rw [hst]
  by_cases hin : ∃ x, (a, x) ∈ flushItems l
  · obtain ⟨x, hx⟩ := hin
    obtain ⟨acc, hacc, _, hxe⟩ := mem_flushItems hx
    have hga : KV.get l.accounts a = some acc := by
      cases hg : KV.get l.accounts a with
      | none => exact absurd hacc (fun hmem => KV.not_mem_of_get_none hg _ hmem rfl)
      | some acc' =>
        have := KV.unique_of_nodup hC.nodup (k := a) hacc (KV.mem_of_get hg)
        rw [this]
    have hds : x.dirtyState = acc.dirtyState := by rw [hxe]; exact loadOrigin_dirtyState l a acc
    have hos : x.originState = acc.originState := by rw [hxe]; unfold loadOrigin; split <;> rfl
    -- the database at (a, k) after the commit of all accounts: the commit of `a` alone, on the old table
    obtain ⟨pre, post, hsplit⟩ := List.append_of_mem hx
    have hnd2 : ((pre.map (·.1)) ++ a :: post.map (·.1)).Nodup := by rw [hsplit] at hnd; simpa using hnd
    have hpre : ∀ q ∈ pre, q.1 ≠ a := by
      intro q hq e
      exact (List.nodup_append.mp hnd2).2.2 q.1 (List.mem_map.mpr ⟨q, hq, rfl⟩) a (List.mem_cons_self ..) e
    have hpost : ∀ q ∈ post, q.1 ≠ a := by
      intro q hq e
      have h2 := (List.nodup_cons.mp (List.nodup_append.mp hnd2).2.1).1
      exact h2 (by rw [← e]; exact List.mem_map.mpr ⟨q, hq, rfl⟩)
    have hdbk : ((KV.get (commits (flushItems l) l.db).state (a, k) : Bytes)).getD "" =
        ((KV.get (commitState a acc.originState acc.dirtyState (commits pre l.db).state) (a, k) : Bytes)).getD "" := by
      rw [hsplit, commits_append]
      show ((KV.get (commits post (commitAcct (commits pre l.db) a x)).state (a, k) : Bytes)).getD "" = _
      rw [(commits_frame post _ a hpost).2.2 k, commitAcct_state, hds, hos]
    rw [hdbk]
    have hprek : ((KV.get (commits pre l.db).state (a, k) : Bytes)).getD "" = ((KV.get l.db.state (a, k) : Bytes)).getD "" :=
      (commits_frame pre l.db a hpre).2.2 k
    by_cases hw : ∃ p ∈ acc.dirtyState, p.1 = k
    · -- written by the block: the cache holds the written value
      obtain ⟨p, hp, hpk⟩ := hw
      have hv : ∀ q ∈ acc.dirtyState, q.1 = k → q.2 = p.2 := by
        intro q hq hqk
        have h1 : (k, q.2) ∈ acc.dirtyState := by rw [← hqk]; exact hq
        have h2 : (k, p.2) ∈ acc.dirtyState := by rw [← hpk]; exact hp
        exact KV.unique_of_nodup (hC.dnodup a acc hga) h1 h2
      obtain ⟨m', hm', hk'⟩ := cacheFold_state (flushItems l) l.cache a x k p.2 hnd hx
        (by rw [hds]; exact ⟨p, hp, hpk⟩) (by rw [hds]; exact hv)
      rw [hm'] at hm
      injection hm with hm
      subst hm
      rw [hk'] at hk
      injection hk with hk
      subst hk
      rw [commitState_get a acc.originState acc.dirtyState _ k p.2 ⟨p, hp, hpk⟩ hv]
      split
      · rfl
      · rename_i hch
        rw [hprek]
        -- unchanged: the written bytes are the memoised ones, which are what the layers below — the database — hold
        have hmemo : ((KV.get acc.originState k).getD none).getD "" = (p.2).getD "" := by
          unfold chg beq at hch
          simpa using hch
        have hfirst := hC.first a acc hga k (by
          have : KV.get acc.dirtyState k = some p.2 := by
            cases hg : KV.get acc.dirtyState k with
            | none => exact absurd hp (fun hmem => KV.not_mem_of_get_none hg _ hmem hpk)
            | some w =>
              have := KV.unique_of_nodup (hC.dnodup a acc hga) (k := k) (KV.mem_of_get hg) (by rw [← hpk]; exact hp)
              rw [this]
          rw [this]; rfl)
        cases ho : KV.get acc.originState k with
        | none => rw [ho] at hfirst; cases hfirst
        | some ov =>
          rw [ho] at hmemo
          simp only [Option.getD_some] at hmemo
          rw [← hmemo, hC.memo a acc hga k ov ho, below_of_cacheDb l hD a k]
    · -- not written by the block: the cache entry is the old one, the commit does not touch the key
      have hnw : ∀ p ∈ x.dirtyState, p.1 ≠ k := by
        intro p hp e; rw [hds] at hp; exact hw ⟨p, hp, e⟩
      have hb := cacheFold_state_unwritten (flushItems l) l.cache a x k hnd hx hnw
      rw [hm] at hb
      simp only [Option.bind_some, hk] at hb
      rw [commitState_untouched a a k acc.originState acc.dirtyState _ (Or.inr (fun p hp _ e => hw ⟨p, hp, e⟩)), hprek]
      cases hm0 : KV.get l.cache.state a with
      | none => rw [hm0] at hb; cases hb
      | some m0 =>
        rw [hm0] at hb
        simp only [Option.bind_some] at hb
        exact hD a m0 k v hm0 hb.symm
  · -- an account the block did not flush: cache entry and database row are the old ones
    have hno : ∀ p ∈ flushItems l, p.1 ≠ a := fun p hp e => hin ⟨p.2, by rw [← e]; exact hp⟩
    rw [cacheFold_other (flushItems l) l.cache a hno] at hm
    rw [(commits_frame (flushItems l) l.db a hno).2.2 k]
    exact hD a m k v hm hk


theorem commit_accounts {l l' : L} (hh : Nat) (f : Flushed) (hc : Ledger.commit l hh f = some l') : l'.accounts = l.accounts := by
  unfold Ledger.commit at hc
  split at hc
  · cases hc
  · injection hc with hc
    subst hc
    generalize instDecidableEqNat l.minJ 0 = d
    cases d <;> simp only [pruneJournals] <;> (repeat' split) <;> rfl

/-- **`Commit` changes no read**: after the flush of a block the account cache holds every value the block wrote; the commit moves
them into the database and leaves the cache alone — every storage key of every account reads after the commit what it read after
the flush (up to nil / empty) -/
theorem commit_keeps_reads (H : RootPre → String) (l l1 : L) (h : Nat) (hC : ObjCoh l)
    (hc : commit (flush H l).1 h (flush H l).2 = some l1) (hacc : l1.accounts = []) (a : Addr) (k : String) :
    (peekState l1 a k).getD "" = (peekState (flush H l).1 a k).getD "" := by
  obtain ⟨e1, e2⟩ := commit_state_cache h (flush H l).2 hc
  have hst : l1.db.state = (commits (flushItems l) l.db).state := by rw [e1]; rfl
  have hnd : ((flushItems l).map (·.1)).Nodup := (flushItems_sublist l l.accounts).nodup hC.nodup
  rw [peekState_no_objects l1 hacc, peekState_no_objects (flush H l).1 rfl]
  unfold below
  rw [e2]
  cases hb : (KV.get (flush H l).1.cache.state a).bind (fun m => KV.get m k) with
  | some cv => rfl
  | none =>
    simp only
    rw [hst]
    show ((KV.get (commits (flushItems l) l.db).state (a, k) : Bytes)).getD "" = ((KV.get l.db.state (a, k) : Bytes)).getD ""
    rw [flush_cache] at hb
    by_cases hin : ∃ x, (a, x) ∈ flushItems l
    · obtain ⟨x, hx⟩ := hin
      obtain ⟨acc, hacc', _, hxe⟩ := mem_flushItems hx
      have hga : KV.get l.accounts a = some acc := by
        cases hg : KV.get l.accounts a with
        | none => exact absurd hacc' (fun hmem => KV.not_mem_of_get_none hg _ hmem rfl)
        | some acc' =>
          have := KV.unique_of_nodup hC.nodup (k := a) hacc' (KV.mem_of_get hg)
          rw [this]
      have hds : x.dirtyState = acc.dirtyState := by rw [hxe]; exact loadOrigin_dirtyState l a acc
      have hos : x.originState = acc.originState := by rw [hxe]; unfold loadOrigin; split <;> rfl
      -- the key was not written by the block: a written key is in the cache
      have hnw : ¬ ∃ p ∈ acc.dirtyState, p.1 = k := by
        rintro ⟨p, hp, hpk⟩
        have hv : ∀ q ∈ acc.dirtyState, q.1 = k → q.2 = p.2 := by
          intro q hq hqk
          exact KV.unique_of_nodup (hC.dnodup a acc hga) (k := k) (by rw [← hqk]; exact hq) (by rw [← hpk]; exact hp)
        obtain ⟨m', hm', hk'⟩ := cacheFold_state (flushItems l) l.cache a x k p.2 hnd hx
          (by rw [hds]; exact ⟨p, hp, hpk⟩) (by rw [hds]; exact hv)
        rw [hm'] at hb
        simp only [Option.bind_some, hk'] at hb
        cases hb
      obtain ⟨pre, post, hsplit⟩ := List.append_of_mem hx
      have hnd2 : ((pre.map (·.1)) ++ a :: post.map (·.1)).Nodup := by rw [hsplit] at hnd; simpa using hnd
      have hpre : ∀ q ∈ pre, q.1 ≠ a := by
        intro q hq e
        exact (List.nodup_append.mp hnd2).2.2 q.1 (List.mem_map.mpr ⟨q, hq, rfl⟩) a (List.mem_cons_self ..) e
      have hpost : ∀ q ∈ post, q.1 ≠ a := by
        intro q hq e
        have h2 := (List.nodup_cons.mp (List.nodup_append.mp hnd2).2.1).1
        exact h2 (by rw [← e]; exact List.mem_map.mpr ⟨q, hq, rfl⟩)
      rw [hsplit, commits_append]
      show ((KV.get (commits post (commitAcct (commits pre l.db) a x)).state (a, k) : Bytes)).getD "" = _
      rw [(commits_frame post _ a hpost).2.2 k, commitAcct_state, hds, hos,
        commitState_untouched a a k acc.originState acc.dirtyState _ (Or.inr (fun p hp _ e => hnw ⟨p, hp, e⟩)),
        (commits_frame pre l.db a hpre).2.2 k]
    · have hno : ∀ p ∈ flushItems l, p.1 ≠ a := fun p hp e => hin ⟨p.2, by rw [← e]; exact hp⟩
      exact (commits_frame (flushItems l) l.db a hno).2.2 k


-- ------------------------------------------------------------------------------------ the inner-account cache

/-- every account record the inner-account cache holds is the record the database holds -/
def InnerDb (l : L) : Prop := ∀ a ia, KV.get l.cache.inner a = some ia → KV.get l.db.acct a = some ia

theorem ivOf_loadAcct {l : L} {a : Addr} {acc : Acct} (h : loadAcct l a = some acc) :
    ivOf acc = (match KV.get l.cache.inner a with | some ia => ia | none => (KV.get l.db.acct a).getD {}) := by
  unfold loadAcct at h
  cases hc : KV.get l.cache.inner a with
  | some ia =>
    rw [hc] at h
    simp only at h
    injection h with h
    subst h
    split <;> rfl
  | none =>
    rw [hc] at h
    simp only at h
    cases hd : KV.get l.db.acct a with
    | some ia =>
      rw [hd] at h
      simp only at h
      injection h with h
      subst h
      simp only [Option.getD_some]
      split <;> rfl
    | none => rw [hd] at h; cases h

theorem peekInner_not_object (l : L) (a : Addr) (h : KV.get l.accounts a = none) :
    peekInner l a = (match KV.get l.cache.inner a with | some ia => ia | none => (KV.get l.db.acct a).getD {}) := by
  unfold peekInner viewAcct
  rw [h]
  simp only
  cases hl : loadAcct l a with
  | some acc => exact ivOf_loadAcct hl
  | none =>
    unfold loadAcct at hl
    cases hc : KV.get l.cache.inner a with
    | some ia => rw [hc] at hl; cases hl
    | none =>
      rw [hc] at hl
      simp only at hl
      cases hd : KV.get l.db.acct a with
      | some ia => rw [hd] at hl; cases hl
      | none => rfl

/-- two ledgers with the same account objects and database whose inner-account caches both agree with the database: balance, nonce
and code hash of every account read alike -/
theorem inner_agree_of_innerDb (l l' : L) (hacc : l'.accounts = l.accounts) (hdb : l'.db = l.db)
    (h : InnerDb l) (h' : InnerDb l') (a : Addr) : peekInner l' a = peekInner l a := by
  cases hg : KV.get l.accounts a with
  | some acc =>
    rw [peekInner_of_present (by rw [hacc]; exact hg), peekInner_of_present hg]
  | none =>
    rw [peekInner_not_object l' a (by rw [hacc]; exact hg), peekInner_not_object l a hg, hdb]
    cases hc' : KV.get l'.cache.inner a with
    | some ia' =>
      have e' := h' a ia' hc'
      rw [hdb] at e'
      cases hc : KV.get l.cache.inner a with
      | some ia => have e := h a ia hc; rw [e] at e'; injection e' with e'; simp [e']
      | none => simp [e']
    | none =>
      cases hc : KV.get l.cache.inner a with
      | some ia => have e := h a ia hc; simp [e]
      | none => rfl

theorem InnerDb.evict {l : L} (h : InnerDb l) (a : Addr) :
    InnerDb { l with cache := { l.cache with inner := KV.erase l.cache.inner a } } := by
  intro b ia hb
  simp only at hb
  by_cases e : a = b
  · subst e; rw [KV.get_erase_eq] at hb; cases hb
  · rw [KV.get_erase_ne _ _ _ e] at hb; exact h b ia hb


end Bxh.Ledger
