import Bxh.Proofs.ExecStepsS
/-!
# Balances over a block: nothing creates value

`total l accts` is the sum of the balances of a list of distinct accounts.  Every step of block execution either
leaves all balances alone (contract calls, IBTPs, timeout bookkeeping), moves value between accounts (transfer), or
takes a fee from the sender and hands at most that much to the admins.
-/
namespace Bxh.Exec
open Bxh

/-- total balance over a list of accounts -/
def total (l : Led) (accts : List String) : Int := (accts.map l.getBal).foldl (· + ·) 0

def NonNeg (l : Led) : Prop := ∀ a, 0 ≤ l.getBal a

theorem foldl_add_shift (xs : List Int) (a : Int) : xs.foldl (· + ·) a = a + xs.foldl (· + ·) 0 := by
  induction xs generalizing a with
  | nil => simp
  | cons x rest ih =>
    simp only [List.foldl_cons]
    rw [ih (a + x), ih (0 + x)]
    omega

theorem total_cons (l : Led) (a : String) (rest : List String) : total l (a :: rest) = l.getBal a + total l rest := by
  unfold total
  simp only [List.map_cons, List.foldl_cons]
  rw [foldl_add_shift]
  omega

theorem getBal_setBal' (l : Led) (a b : String) (v : Int) :
    (l.setBal a v).getBal b = if a = b then v else l.getBal b := by
  simp only [Led.getBal, Led.setBal, KV.getD, KV.get_set]
  split <;> simp

theorem total_congr {l l' : Led} (h : ∀ a, l'.getBal a = l.getBal a) (accts : List String) : total l' accts = total l accts := by
  unfold total
  congr 1
  exact List.map_congr_left (fun a _ => h a)

theorem total_of_bal {l l' : Led} (h : l'.bal = l.bal) (accts : List String) : total l' accts = total l accts :=
  total_congr (fun a => by unfold Led.getBal; rw [h]) accts

theorem nonNeg_of_bal {l l' : Led} (h : l'.bal = l.bal) (hn : NonNeg l) : NonNeg l' := by
  intro a; have := hn a; unfold Led.getBal at *; rw [h]; exact this

theorem total_setBal_notin (l : Led) (a : String) (v : Int) (accts : List String) (h : a ∉ accts) :
    total (l.setBal a v) accts = total l accts :=
  by
    unfold total
    congr 1
    apply List.map_congr_left
    intro b hb
    rw [getBal_setBal']
    have : a ≠ b := fun e => h (e ▸ hb)
    simp [this]

theorem total_setBal (l : Led) (a : String) (v : Int) (accts : List String) (hnd : accts.Nodup) :
    total (l.setBal a v) accts = total l accts + (if a ∈ accts then v - l.getBal a else 0) := by
  induction accts with
  | nil => simp [total]
  | cons b rest ih =>
    have hnd' := (List.nodup_cons.mp hnd)
    rw [total_cons, total_cons, getBal_setBal']
    by_cases hab : a = b
    · subst hab
      rw [total_setBal_notin l a v rest hnd'.1]
      simp
      omega
    · rw [ih hnd'.2]
      have : a ∈ b :: rest ↔ a ∈ rest := by simp [hab]
      simp only [hab, if_false, this]
      omega

theorem nonNeg_setBal (l : Led) (a : String) (v : Int) (hn : NonNeg l) (hv : 0 ≤ v) : NonNeg (l.setBal a v) := by
  intro b
  rw [getBal_setBal']
  split
  · exact hv
  · exact hn b

/-- a successful transfer by an account of the list does not raise the list's total -/
theorem transfer_total {l l' : Led} {a b : String} {v : Int} (e : transfer l a b v = .ok l')
    (accts : List String) (hnd : accts.Nodup) (ha : a ∈ accts) (hn : NonNeg l) :
    total l' accts ≤ total l accts ∧ NonNeg l' := by
  unfold transfer at e
  split at e
  · cases e; exact ⟨Int.le_refl _, hn⟩
  · split at e
    · cases e
    · split at e
      · cases e
      · rename_i hv0 hvneg hfunds
        cases e
        have hvpos : 0 < v := by omega
        constructor
        · rw [total_setBal _ b _ accts hnd, total_setBal l a _ accts hnd]
          simp only [ha, if_true]
          split <;> omega
        · apply nonNeg_setBal
          · exact nonNeg_setBal l a _ hn (by omega)
          · have := nonNeg_setBal l a (l.getBal a - v) hn (by omega) b
            omega

theorem payAdmins_total (cfg : Cfg) (l : Led) (f : Int) (accts : List String) (hnd : accts.Nodup) (hf : 0 ≤ f) (hn : NonNeg l) :
    total (payAdmins cfg l f) accts ≤ total l accts + f ∧ NonNeg (payAdmins cfg l f) := by
  unfold payAdmins
  generalize hq : f / (cfg.admins.length : Int) = q
  have hq0 : 0 ≤ q := by rw [← hq]; exact Int.ediv_nonneg hf (by omega)
  have key : ∀ (as : List String) (l0 : Led), NonNeg l0 →
      total (as.foldl (fun l a => l.setBal a (l.getBal a + q)) l0) accts ≤ total l0 accts + (as.length : Int) * q ∧
      NonNeg (as.foldl (fun l a => l.setBal a (l.getBal a + q)) l0) := by
    intro as
    induction as with
    | nil => intro l0 h0; simp; exact h0
    | cons a rest ih =>
      intro l0 h0
      simp only [List.foldl_cons, List.length_cons]
      have h1 : NonNeg (l0.setBal a (l0.getBal a + q)) := nonNeg_setBal l0 a _ h0 (by have := h0 a; omega)
      obtain ⟨h2, h3⟩ := ih _ h1
      refine ⟨?_, h3⟩
      have h4 := total_setBal l0 a (l0.getBal a + q) accts hnd
      have : ((rest.length + 1 : Nat) : Int) * q = (rest.length : Int) * q + q := by
        have : ((rest.length + 1 : Nat) : Int) = (rest.length : Int) + 1 := by omega
        rw [this, Int.add_mul]; omega
      rw [this]
      split at h4 <;> omega
  obtain ⟨h1, h2⟩ := key cfg.admins l hn
  refine ⟨?_, h2⟩
  have hle : (cfg.admins.length : Int) * q ≤ f := by
    rw [← hq]
    by_cases hz : cfg.admins.length = 0
    · simp [hz]; exact hf
    · have hpos : (0 : Int) < cfg.admins.length := by omega
      have h3 := Int.emod_nonneg f (Int.ne_of_gt hpos)
      have h4 := Int.mul_ediv_add_emod f cfg.admins.length
      omega
  omega

theorem payGasFee_total {cfg : Cfg} {l l' : Led} {s : String} {g : Nat} (e : payGasFee cfg l s g = some l')
    (accts : List String) (hnd : accts.Nodup) (hs : s ∈ accts) (hn : NonNeg l) :
    total l' accts ≤ total l accts ∧ NonNeg l' := by
  unfold payGasFee at e
  simp only at e
  split at e
  · cases e
  · rename_i hge
    cases e
    have hfee : (0 : Int) ≤ ((g * cfg.price : Nat) : Int) := by omega
    have h1 : NonNeg (l.setBal s (l.getBal s - ((g * cfg.price : Nat) : Int))) := nonNeg_setBal l s _ hn (by omega)
    obtain ⟨h2, h3⟩ := payAdmins_total cfg _ ((g * cfg.price : Nat) : Int) accts hnd hfee h1
    refine ⟨?_, h3⟩
    have h4 := total_setBal l s (l.getBal s - ((g * cfg.price : Nat) : Int)) accts hnd
    simp only [hs, if_true] at h4
    omega

theorem payLeft_total (cfg : Cfg) (l : Led) (s : String) (accts : List String) (hnd : accts.Nodup) (hs : s ∈ accts) (hn : NonNeg l) :
    total (payLeftAsGasFee cfg l s) accts ≤ total l accts ∧ NonNeg (payLeftAsGasFee cfg l s) := by
  unfold payLeftAsGasFee
  simp only
  have h1 : NonNeg (l.setBal s 0) := nonNeg_setBal l s 0 hn (Int.le_refl _)
  obtain ⟨h2, h3⟩ := payAdmins_total cfg _ (l.getBal s) accts hnd (hn s) h1
  refine ⟨?_, h3⟩
  have h4 := total_setBal l s 0 accts hnd
  simp only [hs, if_true] at h4
  omega

end Bxh.Exec

namespace Bxh.Exec
open Bxh

theorem applyBxh_total (env : Env) (l0 : Led) (tx : Tx) (inv : Option String) (hj : l0.journal = [])
    (accts : List String) (hnd : accts.Nodup) (hs : tx.sender ∈ accts) (hn : NonNeg l0) :
    total (applyBxh env l0 tx inv).1 accts ≤ total l0 accts ∧ NonNeg (applyBxh env l0 tx inv).1 := by
  have same : ∀ l', l'.bal = l0.bal → total l' accts ≤ total l0 accts ∧ NonNeg l' :=
    fun l' h => ⟨by rw [total_of_bal h]; exact Int.le_refl _, nonNeg_of_bal h hn⟩
  unfold applyBxh
  split
  · exact same _ rfl
  · split
    · split
      · rename_i h; exact same _ (handleIBTP_stepsS h).bal
      · split
        · split
          · rename_i h; exact same _ (handleIBTP_stepsS h).bal
          · exact same _ rfl
        · exact same _ rfl
    · rename_i f t amt
      split
      · rename_i h; exact transfer_total h accts hnd hs hn
      · exact same _ rfl
      · exact same _ rfl
    · split
      · rename_i h; exact same _ (applyBvm_stepsS h).bal
      · simp only [revert_nil l0 _ hj]; exact same _ rfl

/-- one transaction of a block: the total over a list of distinct accounts that contains the sender does not grow -/
theorem applyTx_total (env : Env) (l : Led) (tx : Tx) (inv : Option String)
    (accts : List String) (hnd : accts.Nodup) (hs : tx.sender ∈ accts) (hn : NonNeg l) :
    total (applyTx env l tx inv).1 accts ≤ total l accts ∧ NonNeg (applyTx env l tx inv).1 := by
  unfold applyTx
  simp only
  generalize hl0 : ({ l with journal := [], events := [] } : Led) = l0
  have hj : l0.journal = [] := by rw [← hl0]
  have hb0 : l0.bal = l.bal := by rw [← hl0]
  have hn0 : NonNeg l0 := nonNeg_of_bal hb0 hn
  have ht0 : total l0 accts = total l accts := total_of_bal hb0 accts
  obtain ⟨h1, h2⟩ := applyBxh_total env l0 tx inv hj accts hnd hs hn0
  split
  · rename_i l2 hpay
    obtain ⟨h3, h4⟩ := payGasFee_total hpay accts hnd hs h2
    exact ⟨by rw [total_of_bal (finalise_bal l2)]; omega, nonNeg_of_bal (finalise_bal l2) h4⟩
  · -- the fee cannot be paid: everything the transaction did is reverted, then the sender's whole balance goes to the admins
    have hsame : ∀ x, ((applyBxh env l0 tx inv).1.revert l0.snapshot).getBal x = l0.getBal x := by
      have hst := applyBxh_steps env l0 tx inv hj
      have hf := Steps.faithful hst (faithful_self l0 hj)
      rw [snapshot_nil l0 hj, revert_zero]
      exact hf.2
    have hn5 : NonNeg ((applyBxh env l0 tx inv).1.revert l0.snapshot) := fun x => by rw [hsame x]; exact hn0 x
    have ht5 : total ((applyBxh env l0 tx inv).1.revert l0.snapshot) accts = total l0 accts := total_congr hsame accts
    obtain ⟨h6, h7⟩ := payLeft_total env.cfg _ tx.sender accts hnd hs hn5
    exact ⟨by rw [total_of_bal (finalise_bal _)]; omega, nonNeg_of_bal (finalise_bal _) h7⟩

theorem foldl_bal {α : Type} (f : Led → α → Led) (hf : ∀ l a, (f l a).bal = l.bal) (xs : List α) (l : Led) :
    (xs.foldl f l).bal = l.bal := by
  induction xs generalizing l with
  | nil => rfl
  | cons x rest ih => simp only [List.foldl_cons]; rw [ih, hf]

theorem setTimeoutList_bal (cfg : Cfg) (l : Led) (h : Nat) (txs : List Tx) (rcpts : List Rcpt) :
    (setTimeoutList cfg l h txs rcpts).bal = l.bal := by
  unfold setTimeoutList
  simp only
  split
  · rfl
  · refine Eq.trans (foldl_bal _ ?_ _ _) (foldl_bal _ ?_ _ _) <;> intro l p <;> rfl

theorem setTimeoutRollback_bal (l : Led) (h : Nat) : (setTimeoutRollback l h).bal = l.bal := by
  unfold setTimeoutRollback
  have key : ∀ (ids : List TId) (acc : Led × Bool), ((ids.foldl (rollbackStep h) acc).1).bal = acc.1.bal := by
    intro ids
    induction ids with
    | nil => intro acc; rfl
    | cons id rest ih =>
      intro acc
      simp only [List.foldl_cons]
      rw [ih]
      unfold rollbackStep
      split
      · rfl
      · split
        · split <;> rfl
        · rfl
  exact key _ _

/-- one iteration of the serial loop -/
def txStep (cfg : Cfg) (cache : KV (String × String) Svc) (h : Nat) (a : Acc) (p : Tx × Bool) : Acc :=
  let env : Env := { cfg := cfg, cache := cache, height := h, txIndex := a.idx }
  let inv := if !p.2 then some "bad-sig" else match p.1 with
    | .ibtp _ i pk => proofVerdict cfg i pk
    | _ => none
  let r := applyTx env a.led p.1 inv
  { led := r.1, idx := a.idx + 1, rcpts := a.rcpts ++ [r.2.rcpt], counter := counterOf a.idx r.2.events a.counter }

theorem applyTxs_eq (cfg : Cfg) (cache : KV (String × String) Svc) (h : Nat) (l : Led) (txs : List (Tx × Bool)) :
    applyTxs cfg cache h l txs = txs.foldl (txStep cfg cache h) { led := l } := rfl

theorem txStep_total (cfg : Cfg) (cache : KV (String × String) Svc) (h : Nat) (a : Acc) (p : Tx × Bool)
    (accts : List String) (hnd : accts.Nodup) (hp : p.1.sender ∈ accts) (hn : NonNeg a.led) :
    total (txStep cfg cache h a p).led accts ≤ total a.led accts ∧ NonNeg (txStep cfg cache h a p).led := by
  unfold txStep
  exact applyTx_total _ a.led p.1 _ accts hnd hp hn

/-- the serial loop over the transactions of a block -/
theorem applyTxs_total (cfg : Cfg) (cache : KV (String × String) Svc) (h : Nat) (txs : List (Tx × Bool)) (l : Led)
    (accts : List String) (hnd : accts.Nodup) (hs : ∀ p ∈ txs, p.1.sender ∈ accts) (hn : NonNeg l) :
    total (applyTxs cfg cache h l txs).led accts ≤ total l accts ∧ NonNeg (applyTxs cfg cache h l txs).led := by
  rw [applyTxs_eq]
  have key : ∀ (ts : List (Tx × Bool)) (a : Acc), (∀ p ∈ ts, p.1.sender ∈ accts) → NonNeg a.led →
      total (ts.foldl (txStep cfg cache h) a).led accts ≤ total a.led accts ∧ NonNeg (ts.foldl (txStep cfg cache h) a).led := by
    intro ts
    induction ts with
    | nil => intro a _ hna; exact ⟨Int.le_refl _, hna⟩
    | cons p rest ih =>
      intro a hsa hna
      simp only [List.foldl_cons]
      obtain ⟨h1, h2⟩ := txStep_total cfg cache h a p accts hnd (hsa p (List.mem_cons_self ..)) hna
      obtain ⟨h3, h4⟩ := ih (txStep cfg cache h a p) (fun q hq => hsa q (List.mem_cons_of_mem _ hq)) h2
      exact ⟨Int.le_trans h3 h1, h4⟩
  exact key txs { led := l } hs hn

/-- **a whole block**: transactions, timeout bookkeeping and the timeout step together -/
theorem execBlock_total (cfg : Cfg) (n : Node) (txs : List (Tx × Bool))
    (accts : List String) (hnd : accts.Nodup) (hs : ∀ p ∈ txs, p.1.sender ∈ accts) (hn : NonNeg n.led) :
    total (execBlock cfg n txs).1.led accts ≤ total n.led accts ∧ NonNeg (execBlock cfg n txs).1.led := by
  unfold execBlock
  simp only
  obtain ⟨h1, h2⟩ := applyTxs_total cfg n.cache (n.height + 1) txs n.led accts hnd hs hn
  have hb : ((setTimeoutRollback (setTimeoutList cfg (applyTxs cfg n.cache (n.height + 1) n.led txs).led (n.height + 1) (txs.map (·.1))
      (applyTxs cfg n.cache (n.height + 1) n.led txs).rcpts) (n.height + 1)).finalise).bal = (applyTxs cfg n.cache (n.height + 1) n.led txs).led.bal := by
    rw [finalise_bal, setTimeoutRollback_bal, setTimeoutList_bal]
  exact ⟨by rw [total_of_bal hb]; exact h1, nonNeg_of_bal hb h2⟩

end Bxh.Exec
