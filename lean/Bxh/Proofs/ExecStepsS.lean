import Bxh.Proofs.ExecSteps
/-!
# The contract functions reached while an IBTP or a BVM call is handled never touch a balance

`StepsS` is `Steps` without the balance constructor: reachability by storage writes and event posts only.  The lemmas
below are the `…_steps` lemmas of `ExecSteps.lean` re-proved for it (same scripts); `StepsS.bal` turns them into
"the balance map is unchanged".
-/
namespace Bxh.Exec
open Bxh

inductive StepsS : Led → Led → Prop
  | refl (l : Led) : StepsS l l
  | setS {l l' : Led} (k : Key) (v : Option Val) : StepsS l l' → StepsS l (l'.setS k v)
  | post {l l' : Led} (e : Ev) : StepsS l l' → StepsS l (l'.post e)

theorem StepsS.trans {a b c : Led} (h1 : StepsS a b) (h2 : StepsS b c) : StepsS a c := by
  induction h2 with
  | refl => exact h1
  | setS k v _ ih => exact StepsS.setS k v ih
  | post e _ ih => exact StepsS.post e ih

theorem StepsS.addS {l l' : Led} (k : Key) (v : Val) (h : StepsS l l') : StepsS l (l'.addS k v) := StepsS.setS k (some v) h
theorem StepsS.setIC {l l' : Led} (s : SvcId) (i : IC) (h : StepsS l l') : StepsS l (setIC l' s i) := StepsS.setS _ _ h

/-- storage-only steps leave the balance map as it is -/
theorem StepsS.bal {l l' : Led} (h : StepsS l l') : l'.bal = l.bal := by
  induction h with
  | refl => rfl
  | setS k v _ ih => exact ih
  | post e _ ih => exact ih

syntax "stepsS_tac" : tactic
macro_rules
  | `(tactic| stepsS_tac) => `(tactic| repeat (first
      | exact StepsS.refl _ | assumption | apply StepsS.setS | apply StepsS.post
      | apply StepsS.addS | apply StepsS.setIC))

theorem tmAddTimeout_stepsS (l : Led) (h : Nat) (id : TId) : StepsS l (tmAddTimeout l h id) := by
  unfold tmAddTimeout; split <;> (try split) <;> stepsS_tac

theorem tmRemoveTimeout_stepsS {l l' : Led} {h : Nat} {id : TId} (e : tmRemoveTimeout l h id = .ok l') : StepsS l l' := by
  unfold tmRemoveTimeout at e
  split at e
  · split at e
    · cases e; stepsS_tac
    · split at e
      · cases e; stepsS_tac
      · cases e
  · cases e; stepsS_tac

theorem tmBegin_stepsS (l : Led) (cur : Nat) (id : TxId) (t : Nat) (f : Bool) : StepsS l (tmBegin l cur id t f).1 := by
  unfold tmBegin; stepsS_tac

theorem tmBeginInter_stepsS {l : Led} {cur : Nat} {id : TxId} {t : Nat} {x : Ext} {f : Bool} {r : Led × StatusChange}
    (e : tmBeginInter l cur id t x f = .ok r) : StepsS l r.1 := by
  unfold tmBeginInter at e
  split at e
  · split at e
    · cases e
    · split at e
      · cases e
      · cases e; stepsS_tac
  · cases e
  · cases e; stepsS_tac

theorem tmBeginMulti_stepsS {l : Led} {cur : Nat} {gid : GId} {id : TxId} {t : Nat} {f : Bool} {n : Nat} {r : Led × StatusChange}
    (e : tmBeginMulti l cur gid id t f n = .ok r) : StepsS l r.1 := by
  unfold tmBeginMulti at e
  split at e
  · split at e
    · cases e
    · split at e
      · cases e; stepsS_tac
      · split at e
        · split at e
          · cases e
          · rename_i l0 h0
            cases e
            have := tmRemoveTimeout_stepsS h0
            stepsS_tac
        · cases e; stepsS_tac
  · cases e
    by_cases hf : f = true
    · simp only [hf, if_true]; stepsS_tac
    · simp only [hf]
      have := tmAddTimeout_stepsS l (recordHeight cur t) (.global gid)
      stepsS_tac

theorem tmChangeMulti_stepsS {l : Led} {gid : GId} {g : Global} {id : TxId} {typ : Nat} {r : Led × Global}
    (e : tmChangeMulti l gid g id typ = .ok r) : StepsS l r.1 := by
  unfold tmChangeMulti at e
  split at e
  · split at e
    · cases e
    · rename_i l0 h0; cases e; exact tmRemoveTimeout_stepsS h0
  · simp only at e
    split at e
    · cases e
    · split at e
      · split at e
        · cases e
        · split at e
          · cases e
          · rename_i l0 h0; cases e; exact tmRemoveTimeout_stepsS h0
      · cases e; stepsS_tac

theorem tmReport_stepsS {l : Led} {id : TxId} {typ : Nat} {r : Led × StatusChange}
    (e : tmReport l id typ = .ok r) : StepsS l r.1 := by
  unfold tmReport at e
  split at e
  · split at e
    · cases e
    · cases e; stepsS_tac
  · cases e
  · split at e
    · split at e
      · split at e
        · cases e
        · split at e
          · cases e
          · rename_i l1 g' h0
            cases e
            have := tmChangeMulti_stepsS h0
            stepsS_tac
      · cases e
    · cases e

theorem beginTransaction_stepsS {env : Env} {l : Led} {i : Ibtp} {ck : Checked} {r : Led × StatusChange}
    (e : beginTransaction env l i ck = .ok r) : StepsS l r.1 := by
  unfold beginTransaction at e
  simp only at e
  split at e
  · split at e
    · cases e
    · rename_i r0 h0; cases e; exact tmBeginInter_stepsS h0
  · split at e
    · cases e; exact tmBegin_stepsS _ _ _ _ _
    · split at e
      · cases e
      · rename_i r0 h0; cases e; exact tmBeginMulti_stepsS h0

theorem addToMultiNotify_stepsS (env : Env) (l : Led) (ids : List TxId) (b : Bool) : StepsS l (addToMultiNotify env l ids b) := by
  unfold addToMultiNotify
  split
  · stepsS_tac
  · stepsS_tac

theorem notifySrcDst_stepsS (env : Env) (l : Led) (src dst : SvcId) (c : StatusChange) (b : Bool) :
    StepsS l (notifySrcDst env l src dst c b) := by
  unfold notifySrcDst
  have h1 := addToMultiNotify_stepsS env l c.notifySrc true
  cases notifyFlags c with
  | mk ns nd =>
    simp only
    apply StepsS.post
    cases ns <;> cases nd <;> cases isLocal env src <;> cases isLocal env dst <;>
      simp only [if_true, if_false, Bool.false_eq_true] <;>
      first
        | exact StepsS.refl _
        | exact h1
        | exact addToMultiNotify_stepsS env _ c.notifyDst false
        | exact StepsS.trans h1 (addToMultiNotify_stepsS env _ c.notifyDst false)

theorem setDestIC_stepsS (l : Led) (f t : SvcId) (n : Nat) (ic : IC) : StepsS l (setDestIC l f t n ic) := by
  unfold setDestIC; stepsS_tac

theorem foldl_stepsS {α : Type} (f : Led → α → Led) (hf : ∀ l a, StepsS l (f l a)) (xs : List α) (l : Led) :
    StepsS l (xs.foldl f l) := by
  induction xs generalizing l with
  | nil => exact StepsS.refl _
  | cons x rest ih => exact StepsS.trans (hf l x) (ih _)

theorem processIBTP_stepsS (l : Led) (i : Ibtp) (ck : Checked) (c : StatusChange) : StepsS l (processIBTP l i ck c).1 := by
  unfold processIBTP
  simp only
  split
  · stepsS_tac
  · simp only
    apply StepsS.setS
    split
    · split
      · exact foldl_stepsS _ (fun l cid => setDestIC_stepsS l _ _ _ _) _ _
      · exact setDestIC_stepsS _ _ _ _ _
    · exact StepsS.refl _

theorem handleIBTP_stepsS {env : Env} {l : Led} {i : Ibtp} {r : Led × String}
    (e : handleIBTP env l i = .ok r) : StepsS l r.1 := by
  unfold handleIBTP at e
  split at e
  · cases e
  · rename_i ck hck
    simp only at e
    split at e
    · cases e
    · rename_i l1 c hr
      have h1 : StepsS l l1 := by
        split at hr
        · exact beginTransaction_stepsS hr
        · split at hr
          · split at hr
            · cases hr
            · rename_i x hx; cases hr; exact tmReport_stepsS hx
          · cases hr
      have h2 := notifySrcDst_stepsS env l1 ck.src ck.dst c ck.isBatch
      have h3 := processIBTP_stepsS (notifySrcDst env l1 ck.src ck.dst c ck.isBatch) i ck c
      have h123 := StepsS.trans (StepsS.trans h1 h2) h3
      split at e
      · split at e
        · cases e
        · cases e; stepsS_tac
      · cases e; exact h123

theorem applyBvm_stepsS {env : Env} {l : Led} {c m : String} {args : List Arg} {r : Led × String}
    (e : applyBvm env l c m args = .ok r) : StepsS l r.1 := by
  unfold applyBvm at e
  split at e
  · split at e
    · split at e
      · cases e
      · cases e; simp only; stepsS_tac
    · cases e
  · split at e
    · split at e
      · split at e
        · cases e; exact StepsS.refl _
        · cases e
      · cases e
    · split at e
      · split at e
        · split at e
          · cases e; exact StepsS.refl _
          · cases e
        · cases e
      · split at e
        · split at e <;> cases e
        · cases e


end Bxh.Exec
