import Bxh.Proofs.ExecStepsT
import Bxh.Proofs.ExecBlock
import Bxh.Proofs.TimeoutList
import Bxh.Proofs.ExecRec
/-!
# Who puts a one-to-one id on a timeout list: only `setTimeoutList`, only for an accepted request of the block

* `applyTx_listed`, `applyTxs_listed`: the transactions of a block put no one-to-one id on any list;
* `timeoutAct_add`: the bookkeeping decides "add" only for a request with a successful receipt;
* `setTimeoutList_listed`: an id listed under `d` after the bookkeeping was listed before or is one of the block's additions for `d`;
* `applyTxs_zip_inv`: a loop invariant of the serial loop speaks about every (transaction, receipt) pair of the block.
-/
namespace Bxh.Exec
open Bxh

theorem applyTx_listed (env : Env) (l : Led) (tx : Tx) (inv : Option String) (d : Nat) (t : TxId)
    (h : listedAt (applyTx env l tx inv).1 d t) : listedAt l d t := by
  have hs : listedAt (txStart l) d t → listedAt l d t := fun x => x
  cases applyTx_effect env l tx inv with
  | nothing h0 => exact hs ((listedAt_congr (h0 _)).mp h)
  | ibtp s i p env' r _ _ _ _ h5 h6 =>
    exact hs ((handleIBTP_stepsT h5).listed d t ((listedAt_congr (h6 _)).mp h))
  | bvm s c m args r _ h2 h3 =>
    exact hs ((applyBvm_stepsT h2).listed d t ((listedAt_congr (h3 _)).mp h))

theorem applyTxs_listed (cfg : Cfg) (cache : KV (String × String) Svc) (hgt : Nat) (l : Led) (txs : List (Tx × Bool)) (d : Nat) (t : TxId)
    (h : listedAt (applyTxs cfg cache hgt l txs).led d t) : listedAt l d t := by
  rw [applyTxs_eq] at h
  suffices H : ∀ (ts : List (Tx × Bool)) (a : Acc), listedAt (ts.foldl (txStep cfg cache hgt) a).led d t → listedAt a.led d t from H txs { led := l } h
  intro ts
  induction ts with
  | nil => intro a h; exact h
  | cons p rest ih =>
    intro a h
    simp only [List.foldl_cons] at h
    have := ih _ h
    unfold txStep at this
    exact applyTx_listed _ _ _ _ d t this

/-- "add" is decided only for a request whose receipt is a success -/
theorem timeoutAct_add {cfg : Cfg} {l : Led} {h : Nat} {tx : Tx} {rc : Rcpt} {d : Nat} {id : TxId}
    (e : timeoutAct cfg l h tx rc = .add d id) :
    ∃ s i p, tx = .ibtp s i p ∧ i.frm = some id.frm ∧ i.to = some id.to ∧ i.index = id.index ∧ i.typ.isRequest = true ∧ rc.ok = true := by
  unfold timeoutAct at e
  split at e
  · rename_i s i p
    split at e
    · rename_i f t hf ht
      by_cases hreq : i.typ.isRequest = true
      · have hresp : i.typ.isResponse = false := by
          cases hh : i.typ <;> simp_all [IType.isRequest, IType.isResponse]
        simp only [hreq, hresp, if_true, Bool.not_false, Bool.and_true] at e
        split at e
        · cases e
        · split at e
          · cases e
          · split at e
            · cases e
            · split at e
              · cases e
              · rename_i hinv _
                cases e
                refine ⟨s, i, p, rfl, hf, ht, rfl, hreq, ?_⟩
                cases hok : rc.ok with
                | true => rfl
                | false => exfalso; apply hinv; simp [hok]
      · simp only [hreq, Bool.false_eq_true, if_false] at e
        split at e
        · cases e
        · simp only [Option.isSome_none, Bool.false_eq_true, if_false] at e
          split at e
          · cases e
          · split at e
            · split at e
              · split at e <;> cases e
              · cases e
              · split at e
                · cases e
                · split at e <;> cases e
            · cases e
    · cases e
  · cases e

theorem mem_curList {v : Option Val} {x : TId} (h : some x ∈ curList v) : ∃ lst, v = some (.tlist lst) ∧ some x ∈ lst := by
  unfold curList at h
  split at h
  · exact ⟨_, rfl, h⟩
  · simp at h

theorem foldl_goRemove_mem (R : List TxId) (start : List (Option TId)) (y : Option TId)
    (h : y ∈ R.foldl (fun acc id => (goRemove acc (.single id)).getD acc) start) : y ∈ start := by
  induction R generalizing start with
  | nil => exact h
  | cons r rest ih =>
    simp only [List.foldl_cons] at h
    have h1 := ih _ h
    cases hg : goRemove start (.single r) with
    | none => rw [hg] at h1; exact h1
    | some r' => rw [hg] at h1; exact goRemove_mem start r' _ hg y h1

/-- an id on the list after a block's bookkeeping for that height was on it before or is one of the additions -/
theorem listAfter_mem (v : Option Val) (A R : List TxId) (lst : List (Option TId)) (t : TxId)
    (e : listAfter v A R = some (.tlist lst)) (hm : some (TId.single t) ∈ lst) :
    (∃ lst0, v = some (.tlist lst0) ∧ some (TId.single t) ∈ lst0) ∨ t ∈ A := by
  unfold listAfter at e
  simp only at e
  -- the list after the additions
  have c1 : ∀ lst1, (if A = [] then v
      else some (.tlist (if curList v == [none] then A.map (fun t => some (TId.single t)) else curList v ++ A.map (fun t => some (TId.single t))))) = some (.tlist lst1) →
      some (TId.single t) ∈ lst1 → (∃ lst0, v = some (.tlist lst0) ∧ some (TId.single t) ∈ lst0) ∨ t ∈ A := by
    intro lst1 e1 hm1
    split at e1
    · exact Or.inl ⟨lst1, e1, hm1⟩
    · cases e1
      split at hm1
      · right
        obtain ⟨a, ha, e2⟩ := List.mem_map.mp hm1
        cases e2; exact ha
      · rcases List.mem_append.mp hm1 with h1 | h1
        · exact Or.inl (mem_curList h1)
        · right
          obtain ⟨a, ha, e2⟩ := List.mem_map.mp h1
          cases e2; exact ha
  split at e
  · exact c1 lst e hm
  · cases e
    have h1 := foldl_goRemove_mem R _ _ (normList_mem_single _ t hm)
    obtain ⟨lst1, e1, hm1⟩ := mem_curList h1
    exact c1 lst1 e1 hm1

theorem setTimeoutList_listed (cfg : Cfg) (l : Led) (h : Nat) (txs : List Tx) (rcpts : List Rcpt) (d : Nat) (t : TxId)
    (hl : listedAt (setTimeoutList cfg l h txs rcpts) d t) :
    listedAt l d t ∨ t ∈ addsAt d ((txs.zip rcpts).map (fun p => timeoutAct cfg l h p.1 p.2)) := by
  by_cases hna : ((txs.zip rcpts).map (fun p => timeoutAct cfg l h p.1 p.2)).contains .abort = false
  · obtain ⟨lst, e, hm⟩ := hl
    rw [setTimeoutList_at cfg l h txs rcpts d hna] at e
    exact listAfter_mem _ _ _ lst t e hm
  · left
    unfold setTimeoutList at hl
    have : ((txs.zip rcpts).map (fun p => timeoutAct cfg l h p.1 p.2)).contains .abort = true := by simpa using hna
    rw [if_pos this] at hl
    exact hl

/-- a member of the block's additions comes from an "add" action of some (transaction, receipt) pair -/
theorem mem_addsAt {d : Nat} {acts : List TOAct} {t : TxId} (h : t ∈ addsAt d acts) : TOAct.add d t ∈ acts := by
  unfold addsAt at h
  obtain ⟨a, ha, e⟩ := List.mem_filterMap.mp h
  split at e
  · split at e
    · rename_i hd; cases e; subst hd; exact ha
    · cases e
  · cases e

/-- **a loop invariant of the serial loop speaks about every (transaction, receipt) pair of the block** (`G`: what is assumed of
every transaction of the block) -/
theorem applyTxs_zip_inv (cfg : Cfg) (cache : KV (String × String) Svc) (hgt : Nat) (G : Tx → Prop) (P : Led → Prop) (Q : Tx → Rcpt → Prop)
    (hstep : ∀ idx l tx inv, G tx → P l → P (applyTx { cfg := cfg, cache := cache, height := hgt, txIndex := idx } l tx inv).1)
    (hq : ∀ idx l tx inv, G tx → P l → Q tx (applyTx { cfg := cfg, cache := cache, height := hgt, txIndex := idx } l tx inv).2.rcpt)
    (l : Led) (hl : P l) (txs : List (Tx × Bool)) (hg : ∀ p ∈ txs, G p.1) :
    P (applyTxs cfg cache hgt l txs).led ∧ ∀ p ∈ (txs.map (·.1)).zip (applyTxs cfg cache hgt l txs).rcpts, Q p.1 p.2 := by
  rw [applyTxs_eq]
  suffices H : ∀ (ts pre : List (Tx × Bool)) (a : Acc), (∀ p ∈ ts, G p.1) → P a.led → a.rcpts.length = pre.length →
      (∀ p ∈ (pre.map (·.1)).zip a.rcpts, Q p.1 p.2) →
      P (ts.foldl (txStep cfg cache hgt) a).led ∧
      ∀ p ∈ ((pre ++ ts).map (·.1)).zip (ts.foldl (txStep cfg cache hgt) a).rcpts, Q p.1 p.2 by
    have := H txs [] { led := l } hg hl rfl (by intro p hp; simp at hp)
    simpa using this
  intro ts
  induction ts with
  | nil => intro pre a _ hp _ hz; exact ⟨hp, by simpa using hz⟩
  | cons p rest ih =>
    intro pre a hg hp hlen hz
    simp only [List.foldl_cons]
    have hgp := hg p (List.mem_cons_self ..)
    have := ih (pre ++ [p]) (txStep cfg cache hgt a p) (fun q hq' => hg q (List.mem_cons_of_mem _ hq'))
      (by unfold txStep; exact hstep _ _ _ _ hgp hp)
      (by unfold txStep; simp [hlen])
      (by
        intro q hq'
        unfold txStep at hq'
        simp only [List.map_append, List.map_cons, List.map_nil] at hq'
        rw [List.zip_append (by simp [hlen])] at hq'
        rcases List.mem_append.mp hq' with h1 | h1
        · exact hz q h1
        · simp only [List.zip_cons_cons, List.zip_nil_right, List.mem_singleton] at h1
          subst h1
          exact hq _ _ _ _ hgp hp)
    simpa using this

theorem foldl_goRemove_sublist (R : List TxId) (start : List (Option TId)) :
    (R.foldl (fun acc id => (goRemove acc (.single id)).getD acc) start).Sublist start := by
  induction R generalizing start with
  | nil => exact List.Sublist.refl _
  | cons r rest ih =>
    simp only [List.foldl_cons]
    refine (ih _).trans ?_
    cases hg : goRemove start (.single r) with
    | none => exact List.Sublist.refl _
    | some r' => exact goRemove_sublist start r' _ hg

/-- an id the block takes off a list on which it occurs at most once is gone afterwards, whatever else the block takes off -/
theorem foldl_goRemove_removes (R : List TxId) (start : List (Option TId)) (t : TxId)
    (hc : start.count (some (TId.single t)) ≤ 1) (ht : t ∈ R) :
    some (TId.single t) ∉ R.foldl (fun acc id => (goRemove acc (.single id)).getD acc) start := by
  induction R generalizing start with
  | nil => cases ht
  | cons r rest ih =>
    simp only [List.foldl_cons]
    by_cases hr : r = t
    · subst hr
      rw [goRemove_count_le_one start (.single r) hc]
      simp only [Option.getD_some]
      intro hm
      have hs := (foldl_goRemove_sublist rest (start.erase (some (TId.single r)))).count_le (some (TId.single r))
      have h1 := List.count_erase_self (a := some (TId.single r)) (l := start)
      have h2 := List.count_pos_iff.mpr hm
      omega
    · have ht' : t ∈ rest := by
        rcases List.mem_cons.mp ht with h | h
        · exact absurd h.symm hr
        · exact h
      apply ih _ _ ht'
      cases hg : goRemove start (.single r) with
      | none => exact hc
      | some r' => exact Nat.le_trans ((goRemove_sublist start r' _ hg).count_le _) hc

theorem count_map_single_of_not_mem (A : List TxId) (t : TxId) (h : t ∉ A) :
    (A.map (fun t => some (TId.single t))).count (some (TId.single t)) = 0 := by
  rw [List.count_eq_zero]
  intro hm
  obtain ⟨a, ha, e⟩ := List.mem_map.mp hm
  cases e
  exact h ha

/-- an id that the block takes off the list of `d` and does not add to it, on a list that held it at most once, is not on
that list after the block's bookkeeping -/
theorem listAfter_unlisted (v : Option Val) (A R : List TxId) (lst : List (Option TId)) (t : TxId)
    (hA : t ∉ A) (hR : t ∈ R) (hc : (curList v).count (some (TId.single t)) ≤ 1)
    (e : listAfter v A R = some (.tlist lst)) : some (TId.single t) ∉ lst := by
  unfold listAfter at e
  simp only at e
  have hR' : R ≠ [] := by intro h; rw [h] at hR; cases hR
  rw [if_neg hR'] at e
  cases e
  intro hm
  refine foldl_goRemove_removes R _ t ?_ hR (normList_mem_single _ t hm)
  by_cases hAe : A = []
  · rw [if_pos hAe]; exact hc
  · rw [if_neg hAe]
    show List.count (some (TId.single t)) (if curList v == [none] then A.map (fun t => some (TId.single t))
      else curList v ++ A.map (fun t => some (TId.single t))) ≤ 1
    by_cases hn : (curList v == [none]) = true
    · rw [if_pos hn, count_map_single_of_not_mem A t hA]; exact Nat.zero_le _
    · rw [if_neg hn, List.count_append, count_map_single_of_not_mem A t hA]; exact hc

theorem curList_count (l : Led) (d : Nat) (t : TxId) : (curList (l.getS (.timeout d))).count (some (TId.single t)) = listCount l d t := by
  unfold curList listCount
  cases hv : l.getS (.timeout d) with
  | none => simp
  | some v =>
    cases v <;> simp

theorem applyTx_count (env : Env) (l : Led) (tx : Tx) (inv : Option String) (d : Nat) (t : TxId) :
    listCount (applyTx env l tx inv).1 d t ≤ listCount l d t := by
  have hs : listCount (txStart l) d t = listCount l d t := rfl
  cases applyTx_effect env l tx inv with
  | nothing h0 => rw [listCount_congr (h0 _), hs]; exact Nat.le_refl _
  | ibtp s i p env' r _ _ _ _ h5 h6 => rw [listCount_congr (h6 _), ← hs]; exact (handleIBTP_stepsT h5).count d t
  | bvm s c m args r _ h2 h3 => rw [listCount_congr (h3 _), ← hs]; exact (applyBvm_stepsT h2).count d t


theorem applyTxs_count (cfg : Cfg) (cache : KV (String × String) Svc) (hgt : Nat) (l : Led) (txs : List (Tx × Bool)) (d : Nat) (t : TxId) :
    listCount (applyTxs cfg cache hgt l txs).led d t ≤ listCount l d t := by
  rw [applyTxs_eq]
  suffices H : ∀ (ts : List (Tx × Bool)) (a : Acc), listCount (ts.foldl (txStep cfg cache hgt) a).led d t ≤ listCount a.led d t from H txs { led := l }
  intro ts
  induction ts with
  | nil => intro a; exact Nat.le_refl _
  | cons p rest ih =>
    intro a
    simp only [List.foldl_cons]
    refine Nat.le_trans (ih _) ?_
    unfold txStep
    exact applyTx_count _ _ _ _ d t

theorem mem_remsAt_of {d : Nat} {acts : List TOAct} {t : TxId} (h : TOAct.remove d t ∈ acts) : t ∈ remsAt d acts := by
  unfold remsAt
  exact List.mem_filterMap.mpr ⟨_, h, by simp⟩

/-- **something that happens to the ledger during a block happened at one of its transactions**: if every transaction keeps
`P0` or moves to `P1` while its (transaction, receipt) pair satisfies `Rel`, and `P1` is kept from then on, then after the block
either `P0` still holds or `P1` holds and the block has such a pair -/
theorem applyTxs_zip_exists (cfg : Cfg) (cache : KV (String × String) Svc) (hgt : Nat) (G : Tx → Prop) (P0 P1 : Led → Prop) (Rel : Tx → Rcpt → Prop)
    (h0 : ∀ idx l tx inv, G tx → P0 l →
      P0 (applyTx { cfg := cfg, cache := cache, height := hgt, txIndex := idx } l tx inv).1 ∨
      (P1 (applyTx { cfg := cfg, cache := cache, height := hgt, txIndex := idx } l tx inv).1 ∧
        Rel tx (applyTx { cfg := cfg, cache := cache, height := hgt, txIndex := idx } l tx inv).2.rcpt))
    (h1 : ∀ idx l tx inv, G tx → P1 l → P1 (applyTx { cfg := cfg, cache := cache, height := hgt, txIndex := idx } l tx inv).1)
    (l : Led) (hl : P0 l) (txs : List (Tx × Bool)) (hg : ∀ p ∈ txs, G p.1) :
    P0 (applyTxs cfg cache hgt l txs).led ∨
    (P1 (applyTxs cfg cache hgt l txs).led ∧ ∃ p ∈ (txs.map (·.1)).zip (applyTxs cfg cache hgt l txs).rcpts, Rel p.1 p.2) := by
  rw [applyTxs_eq]
  suffices H : ∀ (ts pre : List (Tx × Bool)) (a : Acc), (∀ p ∈ ts, G p.1) → a.rcpts.length = pre.length →
      (P0 a.led ∨ (P1 a.led ∧ ∃ p ∈ (pre.map (·.1)).zip a.rcpts, Rel p.1 p.2)) →
      (P0 (ts.foldl (txStep cfg cache hgt) a).led ∨
       (P1 (ts.foldl (txStep cfg cache hgt) a).led ∧
        ∃ p ∈ ((pre ++ ts).map (·.1)).zip (ts.foldl (txStep cfg cache hgt) a).rcpts, Rel p.1 p.2)) by
    have := H txs [] { led := l } hg rfl (Or.inl hl)
    simpa using this
  intro ts
  induction ts with
  | nil => intro pre a _ _ h; simpa using h
  | cons p rest ih =>
    intro pre a hg hlen h
    simp only [List.foldl_cons]
    have hgp := hg p (List.mem_cons_self ..)
    have hz : ((pre ++ [p]).map (·.1)).zip (txStep cfg cache hgt a p).rcpts =
        (pre.map (·.1)).zip a.rcpts ++ [(p.1, (applyTx { cfg := cfg, cache := cache, height := hgt, txIndex := a.idx } a.led p.1
          (if !p.2 then some "bad-sig" else match p.1 with
            | .ibtp _ i pk => proofVerdict cfg i pk
            | _ => none)).2.rcpt)] := by
      unfold txStep
      simp only [List.map_append, List.map_cons, List.map_nil]
      rw [List.zip_append (by simp [hlen])]
      rfl
    have := ih (pre ++ [p]) (txStep cfg cache hgt a p) (fun q hq' => hg q (List.mem_cons_of_mem _ hq'))
      (by unfold txStep; simp [hlen])
      (by
        rw [hz]
        rcases h with h | ⟨h, q, hq, hr⟩
        · rcases h0 a.idx a.led p.1 _ hgp h with h' | ⟨h', hr⟩
          · left; unfold txStep; exact h'
          · right
            refine ⟨by unfold txStep; exact h', _, List.mem_append_right _ (List.mem_singleton.mpr rfl), hr⟩
        · right
          exact ⟨by unfold txStep; exact h1 _ _ _ _ hgp h, q, List.mem_append_left _ hq, hr⟩)
    simpa using this

theorem count_map_single (A : List TxId) (t : TxId) :
    (A.map (fun t => some (TId.single t))).count (some (TId.single t)) = A.count t := by
  induction A with
  | nil => rfl
  | cons a rest ih =>
    simp only [List.map_cons, List.count_cons, ih]
    by_cases h : a = t
    · subst h; simp
    · have : (some (TId.single a) == some (TId.single t)) = false := by
        simp; exact h
      simp [this, h]

/-- the list under a deadline after a block's bookkeeping holds `t` at most as often as before plus the block's additions of `t` -/
theorem listAfter_count_le (v : Option Val) (A R : List TxId) (lst : List (Option TId)) (t : TxId)
    (e : listAfter v A R = some (.tlist lst)) :
    lst.count (some (TId.single t)) ≤ (curList v).count (some (TId.single t)) + A.count t := by
  unfold listAfter at e
  simp only at e
  have c1 : (curList (if A = [] then v
      else some (.tlist (if curList v == [none] then A.map (fun t => some (TId.single t)) else curList v ++ A.map (fun t => some (TId.single t)))))).count (some (TId.single t))
      ≤ (curList v).count (some (TId.single t)) + A.count t := by
    by_cases hA : A = []
    · rw [if_pos hA]; omega
    · rw [if_neg hA]
      show List.count (some (TId.single t)) (if curList v == [none] then A.map (fun t => some (TId.single t))
        else curList v ++ A.map (fun t => some (TId.single t))) ≤ _
      by_cases hn : (curList v == [none]) = true
      · rw [if_pos hn, count_map_single]; omega
      · rw [if_neg hn, List.count_append, count_map_single]; omega
  by_cases hR : R = []
  · rw [if_pos hR] at e
    have : lst = curList (some (.tlist lst)) := rfl
    rw [this, ← e]
    exact c1
  · rw [if_neg hR] at e
    cases e
    refine Nat.le_trans (count_normList_le _ t) (Nat.le_trans ((foldl_goRemove_sublist R _).count_le _) c1)

theorem setTimeoutList_count_le (cfg : Cfg) (l : Led) (h : Nat) (txs : List Tx) (rcpts : List Rcpt) (d : Nat) (t : TxId) :
    listCount (setTimeoutList cfg l h txs rcpts) d t ≤
      listCount l d t + (addsAt d ((txs.zip rcpts).map (fun p => timeoutAct cfg l h p.1 p.2))).count t := by
  by_cases hna : ((txs.zip rcpts).map (fun p => timeoutAct cfg l h p.1 p.2)).contains .abort = false
  · unfold listCount
    rw [setTimeoutList_at cfg l h txs rcpts d hna]
    split
    · rename_i lst e
      have := listAfter_count_le _ _ _ lst t e
      rw [curList_count] at this
      unfold listCount at this
      exact this
    · exact Nat.zero_le _
  · unfold setTimeoutList
    have : ((txs.zip rcpts).map (fun p => timeoutAct cfg l h p.1 p.2)).contains .abort = true := by simpa using hna
    rw [if_pos this]
    omega


/-- **the most general loop invariant of the serial loop**: a predicate on the ledger and on the (transaction, receipt) pairs so far
that every transaction preserves holds of the ledger after the block and of all its pairs -/
theorem applyTxs_zip_fold (cfg : Cfg) (cache : KV (String × String) Svc) (hgt : Nat) (G : Tx → Prop) (Φ : Led → List (Tx × Rcpt) → Prop)
    (hstep : ∀ idx l zs tx inv, G tx → Φ l zs →
      Φ (applyTx { cfg := cfg, cache := cache, height := hgt, txIndex := idx } l tx inv).1
        (zs ++ [(tx, (applyTx { cfg := cfg, cache := cache, height := hgt, txIndex := idx } l tx inv).2.rcpt)]))
    (l : Led) (h0 : Φ l []) (txs : List (Tx × Bool)) (hg : ∀ p ∈ txs, G p.1) :
    Φ (applyTxs cfg cache hgt l txs).led ((txs.map (·.1)).zip (applyTxs cfg cache hgt l txs).rcpts) := by
  rw [applyTxs_eq]
  suffices H : ∀ (ts pre : List (Tx × Bool)) (a : Acc), (∀ p ∈ ts, G p.1) → a.rcpts.length = pre.length →
      Φ a.led ((pre.map (·.1)).zip a.rcpts) →
      Φ (ts.foldl (txStep cfg cache hgt) a).led (((pre ++ ts).map (·.1)).zip (ts.foldl (txStep cfg cache hgt) a).rcpts) by
    have := H txs [] { led := l } hg rfl (by simpa using h0)
    simpa using this
  intro ts
  induction ts with
  | nil => intro pre a _ _ h; simpa using h
  | cons p rest ih =>
    intro pre a hg hlen h
    simp only [List.foldl_cons]
    have hgp := hg p (List.mem_cons_self ..)
    have hz : ((pre ++ [p]).map (·.1)).zip (txStep cfg cache hgt a p).rcpts =
        (pre.map (·.1)).zip a.rcpts ++ [(p.1, (applyTx { cfg := cfg, cache := cache, height := hgt, txIndex := a.idx } a.led p.1
          (if !p.2 then some "bad-sig" else match p.1 with
            | .ibtp _ i pk => proofVerdict cfg i pk
            | _ => none)).2.rcpt)] := by
      unfold txStep
      simp only [List.map_append, List.map_cons, List.map_nil]
      rw [List.zip_append (by simp [hlen])]
      rfl
    have := ih (pre ++ [p]) (txStep cfg cache hgt a p) (fun q hq' => hg q (List.mem_cons_of_mem _ hq'))
      (by unfold txStep; simp [hlen])
      (by rw [hz]; unfold txStep; exact hstep _ _ _ _ _ hgp h)
    simpa using this

/-- the transaction is an IBTP request that names `t` -/
def reqFor (t : TxId) : Tx → Bool
  | .ibtp _ i _ => i.typ.isRequest && decide (i.frm = some t.frm) && decide (i.to = some t.to) && decide (i.index = t.index)
  | _ => false

/-- … and its receipt is a success -/
def reqOk (t : TxId) (p : Tx × Rcpt) : Bool := reqFor t p.1 && p.2.ok

theorem reqFor_of {t : TxId} {s : String} {i : Ibtp} {p : ProofKind} (hreq : i.typ.isRequest = true) (hfr : i.frm = some t.frm)
    (hto : i.to = some t.to) (hix : i.index = t.index) : reqFor t (.ibtp s i p) = true := by
  simp [reqFor, hreq, hfr, hto, hix]

theorem reqFor_elim {t : TxId} {tx : Tx} (h : reqFor t tx = true) :
    ∃ s i p, tx = .ibtp s i p ∧ i.typ.isRequest = true ∧ i.frm = some t.frm ∧ i.to = some t.to ∧ i.index = t.index := by
  cases tx with
  | ibtp s i p =>
    simp only [reqFor, Bool.and_eq_true, decide_eq_true_eq] at h
    exact ⟨s, i, p, rfl, h.1.1.1, h.1.1.2, h.1.2, h.2⟩
  | xfer _ _ _ => simp [reqFor] at h
  | bvm _ _ _ _ => simp [reqFor] at h

/-- "add" names the deadline `h + T` of a request with `0 < T < maxU64 − h` -/
theorem timeoutAct_add_deadline {cfg : Cfg} {l : Led} {h : Nat} {tx : Tx} {rc : Rcpt} {d : Nat} {id : TxId}
    (e : timeoutAct cfg l h tx rc = .add d id) :
    ∃ s i p, tx = .ibtp s i p ∧ 0 < i.timeout ∧ i.timeout.toNat < maxU64 - h ∧ d = h + i.timeout.toNat := by
  unfold timeoutAct at e
  split at e
  · rename_i s i p
    split at e
    · rename_i f t hf ht
      by_cases hreq : i.typ.isRequest = true
      · have hresp : i.typ.isResponse = false := by
          cases hh : i.typ <;> simp_all [IType.isRequest, IType.isResponse]
        simp only [hreq, hresp, if_true, Bool.not_false, Bool.and_true] at e
        split at e
        · cases e
        · split at e
          · cases e
          · split at e
            · cases e
            · split at e
              · cases e
              · rename_i hcond
                cases e
                exact ⟨s, i, p, rfl, by omega, by omega, rfl⟩
      · simp only [hreq, Bool.false_eq_true, if_false] at e
        split at e
        · cases e
        · simp only [Option.isSome_none, Bool.false_eq_true, if_false] at e
          split at e
          · cases e
          · split at e
            · split at e
              · split at e <;> cases e
              · cases e
              · split at e
                · cases e
                · split at e <;> cases e
            · cases e
    · cases e
  · cases e

/-- in that range the recorded deadline is that height -/
theorem recordHeight_of_add (h : Nat) (T : Int) (h1 : 0 < T) (h2 : T.toNat < maxU64 - h) :
    recordHeight h (toU64 T) = h + T.toNat := by
  have hm : maxU64 < 2 ^ 64 := by unfold maxU64; omega
  have e : toU64 T = T.toNat := by
    unfold toU64
    have : T % (2 ^ 64 : Int) = T := Int.emod_eq_of_lt (by omega) (by have : (T.toNat : Int) = T := Int.toNat_of_nonneg (by omega); omega)
    rw [this]
  rw [e]
  unfold recordHeight
  have : ¬ (T.toNat = 0 ∨ T.toNat ≥ maxU64 - h) := by omega
  rw [if_neg this]


/-- a handled request: the ledger after it agrees on every record with the ledger right after `beginTransaction` -/
theorem handleIBTP_request_after {env : Env} {l : Led} {i : Ibtp} {ck : Checked} {r : Led × String}
    (hck : checkIBTP env l i = .ok ck) (h : handleIBTP env l i = .ok r) (hreq : i.typ.isRequest = true) :
    ∃ l1 c, beginTransaction env l i ck = .ok (l1, c) ∧ ∀ t, r.1.getS (.txRec t) = l1.getS (.txRec t) := by
  unfold handleIBTP at h
  simp only [hck, hreq, if_true] at h
  split at h
  · cases h
  · rename_i l1 c hr
    refine ⟨l1, c, hr, fun t => ?_⟩
    have hn : (notifySrcDst env l1 ck.src ck.dst c ck.isBatch).getS (.txRec t) = l1.getS (.txRec t) :=
      notifySrcDst_frameA _ _ _ _ _ _ _ (rec_not_aux t)
    have hp := processIBTP_rec (notifySrcDst env l1 ck.src ck.dst c ck.isBatch) i ck c t
    generalize hpr : processIBTP (notifySrcDst env l1 ck.src ck.dst c ck.isBatch) i ck c = pr at h hp
    obtain ⟨l3, ret⟩ := pr
    simp only at h hp
    split at h
    · split at h
      · cases h
      · cases h
        show ((l3.post .audit).post .audit).getS _ = _
        simp only [Led.getS_post]
        rw [hp, hn]
    · cases h; rw [hp, hn]

/-- **an accepted plain request inside one hub writes its record**: status BEGIN (BEGIN_FAILURE when the destination is unusable),
deadline `recordHeight` of the block's height and the request's timeout -/
theorem handleIBTP_new_record {env : Env} {l : Led} {i : Ibtp} {ck : Checked} {r : Led × String}
    (hck : checkIBTP env l i = .ok ck) (h : handleIBTP env l i = .ok r) (hreq : i.typ.isRequest = true)
    (hloc : ck.src.bxh = ck.dst.bxh) (hg : i.group = none) :
    r.1.getS (.txRec { frm := ck.src, to := ck.dst, index := i.index }) =
      some (.trec { height := recordHeight env.height (toU64 i.timeout), status := if ck.targetErr then .beginFailure else .begin }) := by
  obtain ⟨l1, c, hb, hafter⟩ := handleIBTP_request_after hck h hreq
  rw [hafter]
  unfold beginTransaction at hb
  simp only [hloc, ne_eq, not_true_eq_false, if_false, hg] at hb
  cases hb
  simp only [Led.getS_addS, if_true]

/-- a successful receipt of an IBTP transaction means that `HandleIBTP` succeeded on the ledger the transaction started from, and the
ledger after the transaction is its result as far as storage goes -/
theorem applyTx_ok_effect (env : Env) (l : Led) (s : String) (i : Ibtp) (p : ProofKind) (inv : Option String)
    (hok : (applyTx env l (.ibtp s i p) inv).2.rcpt.ok = true) :
    ∃ r, handleIBTP env (txStart l) i = .ok r ∧ ∀ k, (applyTx env l (.ibtp s i p) inv).1.getS k = r.1.getS k := by
  unfold applyTx at hok ⊢
  simp only at hok ⊢
  have hb : ∀ ret, (applyBxh env (txStart l) (.ibtp s i p) inv).2.1 = .ok ret →
      ∃ r, handleIBTP env (txStart l) i = .ok r ∧ (applyBxh env (txStart l) (.ibtp s i p) inv).1 = r.1 := by
    intro ret hh
    unfold applyBxh at hh ⊢
    split at hh
    · cases hh
    · simp only at hh ⊢
      split at hh
      · rename_i l' ret' hok'
        exact ⟨(l', ret'), hok', by simp⟩
      · split at hh
        · split at hh <;> cases hh
        · cases hh
  split at hok
  · rename_i l2 hpay
    simp only at hok ⊢
    cases hr : (applyBxh env (txStart l) (.ibtp s i p) inv).2.1 with
    | error e =>
      have hr' : (applyBxh env { l with journal := [], events := [] } (.ibtp s i p) inv).2.1 = .error e := hr
      rw [hr'] at hok; cases hok
    | ok ret =>
      obtain ⟨r, h1, h2⟩ := hb ret hr
      refine ⟨r, h1, fun k => ?_⟩
      rw [← h2]
      exact getS_of_store (by rw [finalise_store]; exact payGasFee_store _ _ _ _ _ hpay) k
  · cases hok


end Bxh.Exec
