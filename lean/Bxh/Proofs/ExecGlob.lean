import Bxh.Proofs.ExecRec
/-!
# Who writes one-to-many records (`global-tx-<gid>`)

While an IBTP is handled only `BeginMultiTXs` (for the group the request declares) and `Report` (for the
group the reported child belongs to) write a `.glob` key.  The state of a group that has left BEGIN without
success is "dead": `BeginMultiTXs` keeps it, and `changeMultiTxStatus` can reach neither BEGIN nor SUCCESS from it.
-/
namespace Bxh.Exec
open Bxh

def globState (l : Led) (gid : GId) : Option Status :=
  match l.getS (.glob gid) with
  | some (.glob g) => some g.state
  | _ => none

/-- the group has failed or timed out: neither waiting nor successful -/
def Status.dead (s : Status) : Bool := s != .begin && s != .success

theorem tmAddTimeout_glob (l : Led) (h : Nat) (id : TId) (gid : GId) :
    (tmAddTimeout l h id).getS (.glob gid) = l.getS (.glob gid) := by
  unfold tmAddTimeout
  split <;> (try split) <;> simp

theorem tmRemoveTimeout_glob {l l' : Led} {h : Nat} {id : TId} (e : tmRemoveTimeout l h id = .ok l') (gid : GId) :
    l'.getS (.glob gid) = l.getS (.glob gid) := by
  unfold tmRemoveTimeout at e
  split at e
  · split at e
    · cases e; rfl
    · split at e
      · cases e; simp
      · cases e
  · cases e; rfl

theorem addToMultiNotify_glob (env : Env) (l : Led) (ids : List TxId) (b : Bool) (gid : GId) :
    (addToMultiNotify env l ids b).getS (.glob gid) = l.getS (.glob gid) := by
  unfold addToMultiNotify
  split
  · rfl
  · simp

theorem notifySrcDst_glob (env : Env) (l : Led) (src dst : SvcId) (c : StatusChange) (b : Bool) (gid : GId) :
    (notifySrcDst env l src dst c b).getS (.glob gid) = l.getS (.glob gid) := by
  unfold notifySrcDst
  cases notifyFlags c with
  | mk ns nd =>
    simp only [Led.getS_post]
    cases ns <;> cases nd <;> cases isLocal env src <;> cases isLocal env dst <;>
      simp only [if_true, if_false, Bool.false_eq_true, addToMultiNotify_glob]

theorem setIC_glob (l : Led) (s : SvcId) (i : IC) (gid : GId) : (setIC l s i).getS (.glob gid) = l.getS (.glob gid) := by
  unfold setIC; simp

theorem setDestIC_glob (l : Led) (f t' : SvcId) (n : Nat) (ic : IC) (gid : GId) :
    (setDestIC l f t' n ic).getS (.glob gid) = l.getS (.glob gid) := by
  unfold setDestIC; simp [setIC_glob]

theorem foldl_setDestIC_glob (cids : List TxId) (l : Led) (gid : GId) :
    (cids.foldl (fun l cid => setDestIC l cid.frm cid.to cid.index (getIC l cid.frm)) l).getS (.glob gid) = l.getS (.glob gid) := by
  induction cids generalizing l with
  | nil => rfl
  | cons c rest ih => simp only [List.foldl_cons]; rw [ih, setDestIC_glob]

theorem processIBTP_glob (l : Led) (i : Ibtp) (ck : Checked) (c : StatusChange) (gid : GId) :
    (processIBTP l i ck c).1.getS (.glob gid) = l.getS (.glob gid) := by
  unfold processIBTP
  simp only
  split
  · simp [setIC_glob]
  · simp only [Led.getS_setS]
    rw [if_neg (by intro hh; cases hh)]
    split
    · split
      · exact foldl_setDestIC_glob _ _ _
      · exact setDestIC_glob _ _ _ _ _ _
    · rfl

/-- `BeginMultiTXs` and the record of a group `gid'`: untouched unless it is the request's own group; for its own
group an existing record that is not in BEGIN keeps its state -/
theorem tmBeginMulti_glob {l : Led} {cur : Nat} {gid : GId} {id : TxId} {t : Nat} {f : Bool} {n : Nat} {r : Led × StatusChange}
    (e : tmBeginMulti l cur gid id t f n = .ok r) (gid' : GId) :
    (gid' ≠ gid → r.1.getS (.glob gid') = l.getS (.glob gid')) ∧
    (∀ g, l.getS (.glob gid) = some (.glob g) → g.state ≠ .begin →
      ∃ g', r.1.getS (.glob gid) = some (.glob g') ∧ g'.state = g.state) := by
  unfold tmBeginMulti at e
  split at e
  · rename_i g hg
    split at e
    · cases e
    · split at e
      · rename_i hnb
        cases e
        refine ⟨fun hne => ?_, fun g0 hg0 _ => ?_⟩
        · have : ¬ gid = gid' := fun h => hne h.symm
          simp [this]
        · rw [hg] at hg0; cases hg0
          exact ⟨{ g with children := putChild g.children id g.state }, by simp, rfl⟩
      · rename_i hb
        have hbeg : g.state = .begin := by simpa using hb
        split at e
        · split at e
          · cases e
          · rename_i l0 h0
            cases e
            refine ⟨fun hne => ?_, fun g0 hg0 hnb => ?_⟩
            · have : ¬ gid = gid' := fun h => hne h.symm
              simp [this, tmRemoveTimeout_glob h0]
            · rw [hg] at hg0; cases hg0; exact absurd hbeg hnb
        · cases e
          refine ⟨fun hne => ?_, fun g0 hg0 hnb => ?_⟩
          · have : ¬ gid = gid' := fun h => hne h.symm
            simp [this]
          · rw [hg] at hg0; cases hg0; exact absurd hbeg hnb
  · rename_i hnone
    cases e
    refine ⟨fun hne => ?_, fun g0 hg0 _ => ?_⟩
    · have : ¬ gid = gid' := fun h => hne h.symm
      by_cases hf : f = true
      · simp [hf, this]
      · simp [hf, this, tmAddTimeout_glob]
    · exfalso
      exact hnone g0 hg0

theorem tmBegin_glob (l : Led) (cur : Nat) (id : TxId) (t : Nat) (f : Bool) (gid : GId) :
    (tmBegin l cur id t f).1.getS (.glob gid) = l.getS (.glob gid) := by
  unfold tmBegin; simp

theorem tmBeginInter_glob {l : Led} {cur : Nat} {id : TxId} {t : Nat} {x : Ext} {f : Bool} {r : Led × StatusChange}
    (e : tmBeginInter l cur id t x f = .ok r) (gid : GId) : r.1.getS (.glob gid) = l.getS (.glob gid) := by
  unfold tmBeginInter at e
  split at e
  · split at e
    · cases e
    · split at e
      · cases e
      · cases e; simp
  · cases e
  · cases e; simp

theorem tmChangeMulti_glob {l : Led} {gid : GId} {g : Global} {id : TxId} {typ : Nat} {r : Led × Global}
    (e : tmChangeMulti l gid g id typ = .ok r) (gid' : GId) : r.1.getS (.glob gid') = l.getS (.glob gid') := by
  unfold tmChangeMulti at e
  split at e
  · split at e
    · cases e
    · rename_i l0 h0; cases e; exact tmRemoveTimeout_glob h0 gid'
  · simp only at e
    split at e
    · cases e
    · split at e
      · split at e
        · cases e
        · split at e
          · cases e
          · rename_i l0 h0; cases e; exact tmRemoveTimeout_glob h0 gid'
      · cases e; rfl

end Bxh.Exec
