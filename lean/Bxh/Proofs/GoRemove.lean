import Bxh.Model.Exec
/-!
# Go's in-place removal from a slice while ranging over it (`removeFromTimeoutList`)

`goRemoveLoop` replays `for index, value := range list { if value == txId { list = append(list[:index], list[index+1:]...) } }`
on the shared backing array.  When the element occurs at most once the loop neither panics nor disturbs anything
else: the result is the list with that element erased.
-/
namespace Bxh.Exec
open Bxh

theorem loop_nomatch (x : Option TId) : ∀ (fuel idx : Nat) (arr : List (Option TId)) (len : Nat),
    (∀ j, idx ≤ j → j < idx + fuel → (arr.getD j none == x) = false) →
    goRemoveLoop x fuel idx arr len = some (arr, len)
  | 0, _, _, _, _ => rfl
  | fuel+1, idx, arr, len, h => by
    unfold goRemoveLoop
    rw [if_neg (by rw [h idx (Nat.le_refl _) (by omega)]; simp)]
    exact loop_nomatch x fuel (idx+1) arr len (fun j h1 h2 => h j (by omega) (by omega))

theorem loop_split (x : Option TId) : ∀ (a b idx : Nat) (arr : List (Option TId)) (len : Nat),
    (∀ j, idx ≤ j → j < idx + a → (arr.getD j none == x) = false) →
    goRemoveLoop x (a + b) idx arr len = goRemoveLoop x b (idx + a) arr len
  | 0, b, idx, arr, len, _ => by simp
  | a+1, b, idx, arr, len, h => by
    have : a + 1 + b = (a + b) + 1 := by omega
    rw [this]
    conv => lhs; unfold goRemoveLoop
    rw [if_neg (by rw [h idx (Nat.le_refl _) (by omega)]; simp)]
    rw [loop_split x a b (idx+1) arr len (fun j h1 h2 => h j (by omega) (by omega))]
    have : idx + 1 + a = idx + (a + 1) := by omega
    rw [this]

theorem getD_append_left' (l1 l2 : List (Option TId)) (j : Nat) (h : j < l1.length) :
    (l1 ++ l2).getD j none = l1.getD j none := by
  simp [List.getD_eq_getElem?_getD, List.getElem?_append_left h]

theorem getD_mem (l : List (Option TId)) (j : Nat) (h : j < l.length) : l.getD j none ∈ l := by
  rw [List.getD_eq_getElem?_getD, List.getElem?_eq_getElem h]
  simp

/-- **the element occurs once**: the loop ends without a panic and returns the list without it -/
theorem goRemove_once (pre post : List (Option TId)) (x : TId) (hpre : some x ∉ pre) (hpost : some x ∉ post) :
    goRemove (pre ++ some x :: post) x = some (pre ++ post) := by
  unfold goRemove
  have hlen : (pre ++ some x :: post).length = pre.length + (1 + post.length) := by simp; omega
  rw [hlen, loop_split (some x) pre.length (1 + post.length) 0 _ _ (by
    intro j _ hj
    have hj' : j < pre.length := by omega
    rw [getD_append_left' _ _ _ hj']
    have := getD_mem pre j hj'
    simp only [beq_eq_false_iff_ne, ne_eq]
    intro he; rw [he] at this; exact hpre this)]
  -- the matching step
  have h1 : 1 + post.length = post.length + 1 := by omega
  rw [h1]
  unfold goRemoveLoop
  have hx : ((pre ++ some x :: post).getD (0 + pre.length) none == some x) = true := by
    simp [List.getD_eq_getElem?_getD]
  rw [if_pos hx]
  have hnp : ¬ (0 + pre.length + 1 > pre.length + (post.length + 1)) := by omega
  rw [if_neg hnp]
  simp only
  -- the backing array after the removal
  have htake : (pre ++ some x :: post).take (0 + pre.length) = pre := by simp
  have hdrop : (pre ++ some x :: post).drop (0 + pre.length + 1) = post := by
    have : (pre ++ some x :: post).drop (pre.length + 1) = post := by
      rw [← List.drop_drop]; simp
    simpa using this
  have hk : pre.length + (post.length + 1) - (0 + pre.length) - 1 = post.length := by omega
  rw [htake, hdrop, hk, List.take_length]
  generalize htail : (pre ++ some x :: post).drop (pre.length + (post.length + 1) - 1) = tail
  have htl : tail.length = 1 := by
    rw [← htail]; simp <;> omega
  have hsub : post ≠ [] → ∀ y ∈ tail, y ∈ post := by
    intro hne y hy
    rw [← htail] at hy
    have hd : (pre ++ some x :: post).drop (pre.length + (post.length + 1) - 1) = (some x :: post).drop post.length := by
      have : pre.length + (post.length + 1) - 1 = pre.length + post.length := by omega
      rw [this, ← List.drop_drop]; simp
    rw [hd] at hy
    cases post with
    | nil => exact absurd rfl hne
    | cons p ps =>
      simp only [List.length_cons, List.drop_succ_cons] at hy
      exact List.mem_of_mem_drop hy
  rw [loop_nomatch (some x) post.length (0 + pre.length + 1) (pre ++ post ++ tail) _ (by
    intro j hj1 hj2
    have hne : post ≠ [] := by intro he; rw [he] at hj2; simp at hj2; omega
    have hjlt : j < (pre ++ post ++ tail).length := by simp [htl] <;> omega
    have hmem := getD_mem (pre ++ post ++ tail) j hjlt
    -- j ≥ pre.length, so the element comes from post ++ tail
    have hin : (pre ++ post ++ tail).getD j none ∈ post ++ tail := by
      rw [List.append_assoc, List.getD_eq_getElem?_getD, List.getElem?_append_right (by omega)]
      have : j - pre.length < (post ++ tail).length := by simp [htl] <;> omega
      rw [List.getElem?_eq_getElem this]
      simp only [Option.getD_some]
      exact List.getElem_mem this
    simp only [beq_eq_false_iff_ne, ne_eq]
    intro he
    rw [he] at hin
    rcases List.mem_append.mp hin with h | h
    · exact hpost h
    · exact hpost (hsub hne _ h))]
  simp only [Option.some.injEq]
  have : pre.length + (post.length + 1) - 1 = (pre ++ post).length := by simp
  rw [this, List.take_left' rfl]

/-- the element does not occur: nothing happens -/
theorem goRemove_absent (lst : List (Option TId)) (x : TId) (h : some x ∉ lst) : goRemove lst x = some lst := by
  unfold goRemove
  rw [loop_nomatch (some x) lst.length 0 lst lst.length (by
    intro j _ hj
    have hj' : j < lst.length := by omega
    have := getD_mem lst j hj'
    simp only [beq_eq_false_iff_ne, ne_eq]
    intro he; rw [he] at this; exact h this)]
  simp

/-- **`removeFromTimeoutList` on a list that holds the id at most once**: no panic, the id is gone, every other
entry stays, in order (`List.erase`) -/
theorem goRemove_count_le_one (lst : List (Option TId)) (x : TId) (h : lst.count (some x) ≤ 1) :
    goRemove lst x = some (lst.erase (some x)) := by
  by_cases hm : some x ∈ lst
  · obtain ⟨pre, post, hsplit, hpre⟩ := List.eq_append_cons_of_mem hm
    have hpost : some x ∉ post := by
      intro hp
      have : lst.count (some x) ≥ 2 := by
        rw [hsplit, List.count_append, List.count_cons_self]
        have := List.count_pos_iff.mpr hp
        omega
      omega
    rw [hsplit, goRemove_once pre post x hpre hpost, List.erase_append_right _ hpre, List.erase_cons_head]
  · rw [goRemove_absent lst x hm, List.erase_of_not_mem hm]

theorem removed_take_sublist (arr : List (Option TId)) (idx len : Nat) (h1 : idx + 1 ≤ len) (h2 : len ≤ arr.length) :
    (((arr.take idx) ++ ((arr.drop (idx+1)).take (len - idx - 1)) ++ (arr.drop (len - 1))).take (len - 1)).Sublist (arr.take len) ∧
    ((arr.take idx) ++ ((arr.drop (idx+1)).take (len - idx - 1)) ++ (arr.drop (len - 1))).length = arr.length := by
  have hA : (arr.take idx).length = idx := by simp; omega
  have hB : ((arr.drop (idx+1)).take (len - idx - 1)).length = len - idx - 1 := by simp; omega
  constructor
  · have e1 : ((arr.take idx) ++ ((arr.drop (idx+1)).take (len - idx - 1)) ++ (arr.drop (len - 1))).take (len - 1)
        = (arr.take idx) ++ ((arr.drop (idx+1)).take (len - idx - 1)) := by
      rw [List.take_append_of_le_length (by simp; omega)]
      apply List.take_of_length_le
      simp; omega
    rw [e1]
    have e2 : arr.take len = arr.take idx ++ (arr.drop idx).take (len - idx) := by
      have : len = idx + (len - idx) := by omega
      conv => lhs; rw [this, List.take_add]
    have e3 : (arr.drop idx).take (len - idx) = arr[idx]'(by omega) :: (arr.drop (idx+1)).take (len - idx - 1) := by
      rw [List.drop_eq_getElem_cons (by omega)]
      have : len - idx = (len - idx - 1) + 1 := by omega
      rw [this, List.take_succ_cons]
      simp
    rw [e2, e3]
    exact List.Sublist.append_left (List.sublist_cons_self _ _) _
  · simp only [List.length_append, hA, hB, List.length_drop]; omega

theorem goRemoveLoop_sublist (x : Option TId) : ∀ (fuel idx : Nat) (arr : List (Option TId)) (len : Nat) (r : List (Option TId) × Nat),
    len ≤ arr.length → goRemoveLoop x fuel idx arr len = some r → (r.1.take r.2).Sublist (arr.take len) := by
  intro fuel
  induction fuel with
  | zero => intro idx arr len r _ e; simp only [goRemoveLoop] at e; cases e; exact List.Sublist.refl _
  | succ n ih =>
    intro idx arr len r hlen e
    simp only [goRemoveLoop] at e
    split at e
    · split at e
      · cases e
      · rename_i hp
        have hp' : idx + 1 ≤ len := by omega
        obtain ⟨s1, s2⟩ := removed_take_sublist arr idx len hp' hlen
        exact (ih _ _ _ _ (by rw [s2]; omega) e).trans s1
    · exact ih _ _ _ _ hlen e

/-- Go's in-place removal only ever drops entries: the list afterwards is a sublist of the list before (also when the removed id
occurs several times) -/
theorem goRemove_sublist (lst r : List (Option TId)) (x : TId) (e : goRemove lst x = some r) : r.Sublist lst := by
  unfold goRemove at e
  split at e
  · rename_i arr len h
    cases e
    have := goRemoveLoop_sublist (some x) _ _ _ _ _ (Nat.le_refl _) h
    simpa using this
  · cases e

theorem removed_take_count (arr : List (Option TId)) (idx len : Nat) (h1 : idx + 1 ≤ len) (h2 : len ≤ arr.length) (y : Option TId)
    (hy : y ≠ arr.getD idx none) :
    (((arr.take idx) ++ ((arr.drop (idx+1)).take (len - idx - 1)) ++ (arr.drop (len - 1))).take (len - 1)).count y = (arr.take len).count y := by
  have hA : (arr.take idx).length = idx := by simp; omega
  have hB : ((arr.drop (idx+1)).take (len - idx - 1)).length = len - idx - 1 := by simp; omega
  have e1 : ((arr.take idx) ++ ((arr.drop (idx+1)).take (len - idx - 1)) ++ (arr.drop (len - 1))).take (len - 1)
      = (arr.take idx) ++ ((arr.drop (idx+1)).take (len - idx - 1)) := by
    rw [List.take_append_of_le_length (by simp; omega)]
    apply List.take_of_length_le
    simp; omega
  rw [e1]
  have e2 : arr.take len = arr.take idx ++ (arr.drop idx).take (len - idx) := by
    have : len = idx + (len - idx) := by omega
    conv => lhs; rw [this, List.take_add]
  have hlt : idx < arr.length := by omega
  have e3 : (arr.drop idx).take (len - idx) = arr[idx] :: (arr.drop (idx+1)).take (len - idx - 1) := by
    rw [List.drop_eq_getElem_cons hlt]
    have : len - idx = (len - idx - 1) + 1 := by omega
    rw [this, List.take_succ_cons]
    simp
  rw [e2, e3, List.count_append, List.count_append, List.count_cons]
  have hg : arr.getD idx none = arr[idx] := by simp [List.getD, hlt]
  have : (arr[idx] == y) = false := by
    rw [hg] at hy
    simp; exact fun e => hy e.symm
  simp [this]

theorem goRemoveLoop_count_other (x : Option TId) (y : Option TId) (hxy : y ≠ x) :
    ∀ (fuel idx : Nat) (arr : List (Option TId)) (len : Nat) (r : List (Option TId) × Nat),
    len ≤ arr.length → goRemoveLoop x fuel idx arr len = some r → (r.1.take r.2).count y = (arr.take len).count y := by
  intro fuel
  induction fuel with
  | zero => intro idx arr len r _ e; simp only [goRemoveLoop] at e; cases e; rfl
  | succ n ih =>
    intro idx arr len r hlen e
    simp only [goRemoveLoop] at e
    split at e
    · rename_i hmatch
      split at e
      · cases e
      · rename_i hp
        have hp' : idx + 1 ≤ len := by omega
        have hx : arr.getD idx none = x := by simpa using hmatch
        have hc := removed_take_count arr idx len hp' hlen y (by rw [hx]; exact hxy)
        obtain ⟨_, s2⟩ := removed_take_sublist arr idx len hp' hlen
        rw [ih _ _ _ _ (by rw [s2]; omega) e]
        exact hc
    · exact ih _ _ _ _ hlen e

/-- Go's in-place removal of `x` takes away occurrences of `x` only: every other entry occurs as often as before -/
theorem goRemove_count_other (lst r : List (Option TId)) (x : TId) (e : goRemove lst x = some r) (y : Option TId) (hy : y ≠ some x) :
    r.count y = lst.count y := by
  unfold goRemove at e
  split at e
  · rename_i arr len h
    cases e
    have := goRemoveLoop_count_other (some x) y hy _ _ _ _ _ (Nat.le_refl _) h
    simpa using this
  · cases e

end Bxh.Exec
