/-
Model of `pkg/order/syncer/state_syncer.go: calcRangeHeight` (C20, last clause).
The Go loop is reproduced with a fuel argument; `calcRange` supplies `end+1-begin`
iterations, which the tiling theorem shows is always enough.
Go: blockFetch = 0 is replaced by 5 in `New`, so `fetch > 0` is the real code's domain.
Arithmetic is `uint64` in Go; the model is over `Nat` and the theorems carry the explicit
no-overflow hypothesis `end + fetch < 2^64` under which the two coincide.
-/
namespace Bxh.Sync

structure Range where
  b : Nat
  e : Nat
deriving Repr, DecidableEq, Inhabited

def calcLoop (fetch end_ : Nat) : Nat → Nat → Nat → List Range
  | 0, _, _ => []
  | fuel+1, begin, startNo =>
    if begin ≤ end_ then
      let re0 := (startNo + 1) * fetch
      let re := if re0 > end_ then end_ else re0
      ⟨begin, re⟩ :: calcLoop fetch end_ fuel (re + 1) (startNo + 1)
    else []

/-- `none` = the Go error "the end height is less than the start height". -/
def calcRange (begin end_ fetch : Nat) : Option (List Range) :=
  if begin > end_ then none
  else some (calcLoop fetch end_ (end_ + 1 - begin) begin (begin / fetch))

/-- heights listed by a list of ranges, in order -/
def heights : List Range → List Nat
  | [] => []
  | r :: rs => (List.range' r.b (r.e + 1 - r.b)) ++ heights rs

/-- `SyncCFTBlocks` / `SyncBFTBlocks` when every range is eventually answered by some peer with the blocks it asked for
(`fetchBlocks` returns the blocks `begin..end` of the serving peer's chain): one answered request per range, the blocks of
each answer handed on in order, and a `none` (the Go `nil` block) that ends the stream.  `none` for the whole call = the
"end height is less than the start height" error, nothing is requested. -/
def syncStream (begin end_ fetch : Nat) : Option (List Range × List (Option Nat)) :=
  match calcRange begin end_ fetch with
  | none => none
  | some rs => some (rs, (heights rs).map some ++ [none])

end Bxh.Sync
