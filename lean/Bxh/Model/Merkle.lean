/-!
# Model of the Merkle root used for tx / receipt / timeout roots
(`calcMerkleRoot` in `internal/executor/handle.go` over `cbergoon/merkletree` v0.2.0):
an odd number of leaves duplicates the last leaf; on every level an unpaired last node is
paired with itself; the empty list gives the zero hash.  `H2` is the node hash
`sha256(left ‖ right)`, a parameter.
-/
namespace Bxh.Merkle

variable {α : Type}

/-- one level up: pair neighbours, an unpaired last node with itself -/
def levelUp (H2 : α → α → α) : List α → List α
  | [] => []
  | [a] => [H2 a a]
  | a :: b :: rest => H2 a b :: levelUp H2 rest

theorem levelUp_length_le (H2 : α → α → α) : ∀ l : List α, (levelUp H2 l).length ≤ (l.length + 1) / 2
  | [] => by simp [levelUp]
  | [_] => by simp [levelUp]
  | _ :: _ :: rest => by
    have := levelUp_length_le H2 rest
    simp only [levelUp, List.length_cons]
    omega

/-- `buildIntermediate`: go up until the level built from two nodes -/
def build (H2 : α → α → α) : Nat → List α → Option α
  | 0, _ => none
  | fuel+1, l =>
    match l with
    | [] => none
    | [a] => some (H2 a a)        -- unreachable from `root` (the leaf level has even length)
    | [a, b] => some (H2 a b)
    | _ => build H2 fuel (levelUp H2 l)

/-- `calcMerkleRoot`: `none` = zero hash for the empty list -/
def dupLast : List α → List α
  | [] => []
  | [a] => [a, a]
  | a :: rest => a :: dupLast rest

def root (H2 : α → α → α) (leaves : List α) : Option α :=
  match leaves with
  | [] => none
  | _ =>
    let l := if leaves.length % 2 == 1 then dupLast leaves else leaves
    build H2 (l.length + 1) l

end Bxh.Merkle
