import Bxh.Model.Ledger
/-!
# Model of the chain ledger, the blockfile and block persistence
(`internal/ledger/chain_ledger_impl.go`, `chain_meta.go`, `ledger.go`; bitxhub-kit `storage/blockfile`)

Block hashes are symbolic names.  The five blockfile tables are separate lists so that crash
states (a prefix of the tables appended) can be expressed; `repair` truncates to the shortest.
The state side is the `Bxh.Ledger` model; only its journal range matters here.
-/
namespace Bxh.Chain
open Bxh

structure Blk where
  height : Nat
  hash : String
  parent : String
  txs : List String
  counter : KV String Nat         -- chain ↦ number of verified indices
deriving Repr, DecidableEq, Inhabited

abbrev Meta := Nat × String × Nat      -- height, head hash, cumulative interchain count

structure Index where
  txSet : KV Nat (List String) := []
  hashIdx : KV String Nat := []
  heightIdx : KV Nat String := []
  txMeta : KV String (Nat × String × Nat) := []
  metaDB : Option Meta := none
deriving Repr, DecidableEq, Inhabited

structure Tables where
  hashes : List Blk := []
  bodies : List Blk := []
  txs : List Blk := []
  rcpts : List Blk := []
  inter : List Blk := []
deriving Repr, DecidableEq, Inhabited

def Tables.minLen (t : Tables) : Nat :=
  min t.hashes.length (min t.bodies.length (min t.txs.length (min t.rcpts.length t.inter.length)))

def Tables.truncate (t : Tables) (n : Nat) : Tables :=
  { hashes := t.hashes.take n, bodies := t.bodies.take n, txs := t.txs.take n, rcpts := t.rcpts.take n, inter := t.inter.take n }

def Tables.append (t : Tables) (b : Blk) : Tables :=
  { hashes := t.hashes ++ [b], bodies := t.bodies ++ [b], txs := t.txs ++ [b], rcpts := t.rcpts ++ [b], inter := t.inter ++ [b] }

structure Node where
  idx : Index := {}
  tbl : Tables := {}
  blocks : Nat := 0               -- BlockFile.blocks
  cmeta : Meta := (0, "zero", 0)  -- cached chain meta
  st : Ledger.L := {}
  serial : Nat := 0
deriving Repr, Inhabited

def countOf (b : Blk) : Nat := (b.counter.map (·.2)).foldl (· + ·) 0

/-- `GetBlock(h, fullTx)` -/
def getBlock (n : Node) (h : Nat) (full : Bool) : Option Blk :=
  if h = 0 then none else
  match n.tbl.bodies[h - 1]? with
  | none => none
  | some b =>
    if full then (n.tbl.txs[h - 1]?).map (fun t => { b with txs := t.txs })
    else (KV.get n.idx.txSet h).map (fun ts => { b with txs := ts })

def getByHash (n : Node) (hash : String) : Option Blk :=
  (KV.get n.idx.hashIdx hash).bind (fun h => getBlock n h false)

/-- `GetBlockHash`: the stored hex text decoded; `none` = zero hash for an unknown height -/
def getBlockHash (n : Node) (h : Nat) : Option String := KV.get n.idx.heightIdx h

def getTxMeta (n : Node) (t : String) : Option (Nat × String × Nat) := KV.get n.idx.txMeta t

/-- `GetTransaction` / `GetReceipt`: element `idx` of the stored list of block `h`; `some none` =
index out of range (a panic in the real code) -/
def getTx (n : Node) (t : String) : Option (Option String) :=
  match KV.get n.idx.txMeta t with
  | none => none
  | some (h, _, i) =>
    if h = 0 then none else
    match n.tbl.txs[h - 1]? with
    | none => none
    | some b => some b.txs[i]?

def getTxCount (n : Node) (h : Nat) : Option Nat := (KV.get n.idx.txSet h).map (·.length)

def getIMeta (n : Node) (h : Nat) : Option (KV String Nat) :=
  if h = 0 then none else (n.tbl.inter[h - 1]?).map (·.counter)

/-- the index batch of `PersistExecutionResult` -/
def indexBatch (ix : Index) (b : Blk) (prevCount : Nat) : Index :=
  let tm := (b.txs.zipIdx).foldl (fun m (p : String × Nat) => KV.set m p.1 (b.height, b.hash, p.2)) ix.txMeta
  { txSet := KV.set ix.txSet b.height b.txs, hashIdx := KV.set ix.hashIdx b.hash b.height,
    heightIdx := KV.set ix.heightIdx b.height b.hash, txMeta := tm,
    metaDB := some (b.height, b.hash, countOf b + prevCount) }

/-- the state part of one block in the store engine (an empty block above height 1 writes nothing): three storage writes, one of them under a key of raw bytes (and, in block 1 and every third block, a
balance write, so that most blocks change only the storage of an account that has a balance), flush, commit -/
def stateCommit (l : Ledger.L) (h : Nat) (serial : Nat) (txs : List String) : Ledger.L :=
  let l1 := Ledger.setState l 0 "height" (some (toString h))
  let l2b := Ledger.setState l1 0 s!"k{h}" (some (",".intercalate txs))
  let l2a := Ledger.setState l2b 0 "binheight" (some (toString h))      -- the raw-byte key 0xff 0xfe 'h' of the harness
  let l2w := if h == 1 || h % 3 == 0 then Ledger.setBalance l2a 0 (1000 + (h : Int)) else l2a
  -- an empty block above height 1 is an idle block: it changes no account at all
  let l2 := if txs.isEmpty && decide (1 < h) then l else l2w
  let l3 := Ledger.finalise l2
  let (l4, f) := Ledger.flush (fun _ => s!"r{h}-{serial}") l3
  (Ledger.commit l4 h f).getD l4

/-- the block built for the next height -/
def mkBlk (n : Node) (txs : List String) (counter : KV String Nat) : Blk :=
  { height := n.cmeta.1 + 1, hash := s!"B{n.cmeta.1 + 1}.{n.serial + 1}", parent := n.cmeta.2.1, txs := txs, counter := counter }

/-- chain-side effect of persisting block `b`: index batch, blockfile append, cached meta -/
def applyBlk (n : Node) (b : Blk) : Node :=
  { n with idx := indexBatch n.idx b n.cmeta.2.2, tbl := n.tbl.append b, blocks := n.blocks + 1,
           cmeta := (b.height, b.hash, countOf b + n.cmeta.2.2) }

/-- `PersistBlockData` for the next block; `none` = "the append operation is out-order" panic -/
def persist (n : Node) (txs : List String) (counter : KV String Nat) : Option (Node × Blk) :=
  let b := mkBlk n txs counter
  if n.blocks ≠ n.cmeta.1 then none
  else some ({ applyBlk n b with st := stateCommit n.st b.height (n.serial + 1) txs, serial := n.serial + 1 }, b)

inductive RbErr | higher | tooMuch | noJournal | chain
deriving Repr, DecidableEq

/-- `removeChainDataOnBlock` + the loop of `RollbackBlockChain` -/
def chainRollbackLoop (n : Node) (t : Nat) : Nat → Nat → Nat → Option (Node × Nat)
  | 0, _, cnt => some (n, cnt)
  | fuel+1, cur, cnt =>
    if cur ≤ t then some (n, cnt)
    else
      match getBlock n cur false, getIMeta n cur with
      | some b, some im =>
        let tbl' := if n.blocks ≤ cur - 1 then n.tbl else n.tbl.truncate (cur - 1)
        let blocks' := if n.blocks ≤ cur - 1 then n.blocks else cur - 1
        let ix := n.idx
        let ix' := { ix with txSet := KV.erase ix.txSet cur, heightIdx := KV.erase ix.heightIdx cur,
                             hashIdx := KV.erase ix.hashIdx b.hash,
                             txMeta := b.txs.foldl (fun m t => KV.erase m t) ix.txMeta }
        chainRollbackLoop { n with idx := ix', tbl := tbl', blocks := blocks' } t fuel (cur - 1)
          (cnt - (im.map (·.2)).foldl (· + ·) 0)
      | _, _ => none

/-- `RollbackBlockChain` -/
def chainRollback (n : Node) (t : Nat) : Except RbErr Node :=
  if n.cmeta.1 < t then .error .higher
  else if n.cmeta.1 = t then .ok n
  else
    match chainRollbackLoop n t (n.cmeta.1 - t) n.cmeta.1 n.cmeta.2.2 with
    | none => .error .chain
    | some (n1, cnt) =>
      if t = 0 then .ok { n1 with idx := { n1.idx with metaDB := none }, cmeta := (0, "zero", 0) }
      else match getBlock n1 t false with
        | none => .error .chain
        | some b =>
          let m : Meta := (t, b.hash, cnt)
          .ok { n1 with idx := { n1.idx with metaDB := some m }, cmeta := m }

/-- `Ledger.Rollback` = `RollbackState` then `RollbackBlockChain` -/
def rollback (n : Node) (t : Nat) : Except RbErr Node :=
  match Ledger.rollback n.st t with
  | .error .higher => .error .higher
  | .error .tooMuch => .error .tooMuch
  | .error .noJournal => .error .noJournal
  | .ok st' => chainRollback { n with st := st' } t

inductive OpenErr | stateHigher | stateOther | noJournalAtOpen | chain
deriving Repr, DecidableEq

/-- `NewBlockFile` (repair) + `ledger.New` on the durable parts of a node -/
def reopen (n : Node) : Except OpenErr Node :=
  let m := n.tbl.minLen
  let tbl := n.tbl.truncate m
  let mt : Meta := n.idx.metaDB.getD (0, "zero", 0)
  match Ledger.reopen n.st with
  | none => .error .noJournalAtOpen
  | some st =>
    let n1 : Node := { n with tbl := tbl, blocks := m, cmeta := mt, st := st }
    match rollback n1 mt.1 with
    | .ok n2 => .ok n2
    | .error .higher => .error .stateHigher
    | .error .chain => .error .chain
    | .error _ => .error .stateOther

-- ------------------------------------------------------------------------------------ crash masks

/-- which durable writes of one block commit reached the disk -/
structure Mask where
  s : Bool        -- state batch (accounts, storage, journal of h, maxHeight)
  j : Bool        -- journal-pruning batch (only exists for h > 10; after `s`)
  c : Bool        -- chain-index batch
  b : Nat         -- number of blockfile tables appended, in AppendBlock order (0..5)
deriving Repr, DecidableEq

/-- the crashed node: every store either before or after the commit of the block -/
def crashed (before after : Node) (m : Mask) : Node :=
  let st :=
    if m.s then
      if m.j then after.st
      else
        -- undo the pruning batch: journals deleted by it come back, minHeight is the old one
        let old := before.st.db.journals.filter (fun p => (KV.get after.st.db.journals p.1).isNone && p.1 ≠ after.cmeta.1)
        { after.st with db := { after.st.db with journals := after.st.db.journals ++ old, minH := before.st.db.minH } }
    else before.st
  let pick (i : Nat) (f : Tables → List Blk) : List Blk := if i < m.b then f after.tbl else f before.tbl
  { idx := if m.c then after.idx else before.idx,
    tbl := { hashes := pick 0 (·.hashes), bodies := pick 1 (·.bodies), txs := pick 2 (·.txs), rcpts := pick 3 (·.rcpts), inter := pick 4 (·.inter) },
    blocks := 0, cmeta := before.cmeta, st := st, serial := after.serial }

end Bxh.Chain
