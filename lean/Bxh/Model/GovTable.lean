/-!
# Governance: the proposal table (`internal/executor/contracts/governance.go`)

How the *statuses* of all proposals evolve under the operations that touch more than one proposal:
`SubmitProposal` (with `lockLowPriorityProposal`), the conclusion of a proposal by a ballot or by an
electorate change (`Vote` / `UpdateAvailableElectorateNum` followed by `handleResult` and
`unlockLowPriorityProposal`), `WithdrawProposal`, `EndObjProposal`, `LockLowPriorityProposal` and
`UnLockLowPriorityProposal`.

Proposals are kept in submission order (the `orderedmap` of `getProposalsByObjId` iterates in
insertion order); a proposal is named by its position.  What a ballot decides is the subject of
`Bxh.Model.Gov`; here the decision is an input (`conclude i approve`).
-/
namespace Bxh.GovTable

inductive St | proposed | paused | approved | rejected
deriving DecidableEq, Repr, Inhabited

def St.final : St → Bool
  | .approved | .rejected => true
  | _ => false

structure Entry where
  obj : String
  prio : Nat                  -- `priority[EventType]`
  status : St
  lock : Option Nat           -- `LockProposalId`: the proposal this one paused when it was submitted
deriving DecidableEq, Repr, Inhabited

abbrev Table := List Entry

/-- `changeProposalStatus` -/
def setAt (t : Table) (i : Nat) (s : St) : Table := t.modify i (fun e => { e with status := s })

/-- `lockLowPriorityProposal`: the first proposal about the object that is `proposed` and has a lower
priority is paused; its position is returned -/
def lockLow (t : Table) (obj : String) (prio : Nat) : Table × Option Nat :=
  match t.findIdx? (fun e => e.obj == obj && e.status == .proposed && decide (e.prio < prio)) with
  | some i => (setAt t i .paused, some i)
  | none => (t, none)

/-- `unlockLowPriorityProposal` (as repaired by commit b7ba65bb): only a proposal that is still paused
is re-opened (`restore`) or rejected for priority -/
def unlock (t : Table) (i : Nat) (restore : Bool) : Table :=
  match t[i]? with
  | some e => if e.status = .paused then setAt t i (if restore then .proposed else .rejected) else t
  | none => t

/-- the code before the repair: the locked proposal was rewritten whatever its status -/
def unlockUnrepaired (t : Table) (i : Nat) (restore : Bool) : Table :=
  setAt t i (if restore then .proposed else .rejected)

/-- `handleResult`, table part: the proposal locked by `i` is rejected when `i` was approved, re-opened otherwise -/
def handleResult (t : Table) (i : Nat) : Table :=
  match t[i]? with
  | some e =>
    match e.lock with
    | some l => unlock t l (e.status != .approved)
    | none => t
  | none => t

/-- `getHightestPriorityPausedProposalByObjId`: the first paused proposal of the object among those of
the highest priority -/
def bestPaused (t : Table) (obj : String) : Option Nat :=
  (List.range t.length).foldl (fun acc i =>
    match t[i]? with
    | some e =>
      if e.obj = obj ∧ e.status = .paused then
        match acc with
        | none => some i
        | some j =>
          match t[j]? with
          | some ej => if ej.prio < e.prio then some i else some j
          | none => some i
      else acc
    | none => acc) none

inductive Op
  | submit (obj : String) (prio : Nat)
  | conclude (i : Nat) (approve : Bool)      -- `Vote` whose ballot concludes proposal `i` (status must be proposed)
  | electorate (i : Nat) (approve : Bool)    -- `UpdateAvailableElectorateNum` concluding a not-closed proposal
  | withdraw (i : Nat)
  | endObj (obj : String)
  | lockObj (obj : String) (prio : Nat)
  | unlockObj (obj : String)
deriving Repr, DecidableEq

def decided (approve : Bool) : St := if approve then .approved else .rejected

/-- end every open (proposed / paused) proposal of the object: `EndObjProposal` -/
def endObj (t : Table) (obj : String) : Table :=
  t.map (fun e => if e.obj = obj ∧ (e.status = .paused ∨ e.status = .proposed) then { e with status := .rejected } else e)

def step (t : Table) : Op → Table
  | .submit obj prio =>
    let r := lockLow t obj prio
    r.1 ++ [{ obj := obj, prio := prio, status := .proposed, lock := r.2 }]
  | .conclude i approve =>
    match t[i]? with
    | some e => if e.status = .proposed then handleResult (setAt t i (decided approve)) i else t
    | none => t
  | .electorate i approve =>
    -- role.go only passes proposals returned by GetNotClosedProposals
    match t[i]? with
    | some e => if e.status.final then t else handleResult (setAt t i (decided approve)) i
    | none => t
  | .withdraw i =>
    match t[i]? with
    | some e => if e.status.final then t else handleResult (setAt t i .rejected) i
    | none => t
  | .endObj obj => endObj t obj
  | .lockObj obj prio => (lockLow t obj prio).1
  | .unlockObj obj =>
    match bestPaused t obj with
    | some i => unlock t i true
    | none => t

def run (t : Table) (ops : List Op) : Table := ops.foldl step t

/-- the same machine with the unrepaired `unlockLowPriorityProposal` (used to replay the defect) -/
def handleResultUnrepaired (t : Table) (i : Nat) : Table :=
  match t[i]? with
  | some e =>
    match e.lock with
    | some l => unlockUnrepaired t l (e.status != .approved)
    | none => t
  | none => t

end Bxh.GovTable
