import Bxh.Model.Exec
/-!
# The interchain router (`internal/router/interchain.go`)

`classify` turns a block's interchain meta into one wrapper per destination: the transactions `Counter` names for it (by
their position in the block, with the valid / batch flags), the timed-out ids of `TimeoutCounter` and the one-to-many
notifications of `MultiTxCounter`.  `PutBlockAndMeta` (the subscription feed) and `GetInterchainTxWrappers` (a pier asks for
a height again) both hand a pier its wrapper, or an empty one when the block holds nothing for it.  The Go code ranges over
three Go maps; the result is a map again, so the iteration order cannot show.
-/
namespace Bxh.Router
open Bxh Bxh.Exec

structure Wrapper where
  txs : List VIdx := []
  timeouts : List TId := []
  multi : List TxId := []
deriving Repr, DecidableEq

/-- one pass of `classify`: the wrapper of a destination is created or completed -/
def pass {β : Type} (g : β → Option Wrapper → Wrapper) (l : KV String β) (m : KV String Wrapper) : KV String Wrapper :=
  l.foldl (fun m p => KV.set m p.1 (g p.2 (KV.get m p.1))) m

/-- `classify`: timeouts first, then the one-to-many notifications, then the transactions -/
def classify (o : BlockOut) : KV String Wrapper :=
  let t0 := pass (fun (l : List TId) _ => { timeouts := l }) o.timeoutCounter []
  let t1 := pass (fun (l : List TxId) w => match w with
    | some w => { w with multi := l }
    | none => { multi := l }) o.multiCounter t0
  pass (fun (l : List VIdx) w => match w with
    | some w => { w with txs := l }
    | none => { txs := l }) o.counter t1

/-- what a pier is handed for the block -/
def deliver (o : BlockOut) (pier : String) : Wrapper := (KV.get (classify o) pier).getD {}

end Bxh.Router
