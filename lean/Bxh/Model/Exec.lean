import Bxh.Prelude.KV
import Bxh.Gen.TxFsm
/-!
# Model of block execution at contract level

Mirrors, function by function: `internal/executor/handle.go` (`processExecuteEvent` after
signature checking, `applyTx`, `applyTransaction`, `applyBxhTransaction`, `transfer`, `payGasFee`,
`payLeftAsGasFee`, `payAdmins`, `filterValidTx`, `setTimeoutList`, `getTimeoutList`,
`getTimeoutIBTPsMap`, `getMultiTxIBTPsMap`, `setTimeoutRollback`), `contracts/interchain.go`
(`HandleIBTP`, `checkIBTP`, `checkTargetAvailability`, `ProcessIBTP`, `notifySrcDst`,
`addToMultiTxNotifyMap`, `beginTransaction`, `reportTransaction`, `DeleteInterchain`,
`GetInterchain`), `contracts/transaction_manager.go` (`Begin`, `BeginMultiTXs`,
`BeginInterBitXHub`, `Report`, `changeMultiTxStatus`, `GetStatus`, `setFSM` over the extracted
table), `pkg/proof/proof_pool.go` (`verifyProof` outcome classes) and the journaled state ledger
as the contracts see it (journaled `Set`, non-journaled `Add`, snapshot / revert, events that
are not journaled).  Bugs of the code are reproduced, not tidied.

Identifiers are structured (`SvcId`, `TxId`, `GId`) instead of the `:`/`-` joined strings of the
code; the driver parses and prints.  Ids that do not parse are `none` in `Ibtp.frm/to`.  What
this leaves out: service/chain ids that themselves contain `:` or `-` (hypothesis `IdWellFormed`
of DESIGN §6 C06).
-/
namespace Bxh.Exec
open Bxh

-- ------------------------------------------------------------------------------------ status

inductive Status
  | begin | beginFailure | beginRollback | success | failure | rollback
deriving DecidableEq, Repr, Inhabited

def Status.toNat : Status → Nat
  | .begin => 0 | .beginFailure => 1 | .beginRollback => 2 | .success => 3 | .failure => 4 | .rollback => 5

def Status.name : Status → String
  | .begin => "BEGIN" | .beginFailure => "BEGIN_FAILURE" | .beginRollback => "BEGIN_ROLLBACK"
  | .success => "SUCCESS" | .failure => "FAILURE" | .rollback => "ROLLBACK"

def Status.all : List Status := [.begin, .beginFailure, .beginRollback, .success, .failure, .rollback]

def Status.ofName (s : String) : Option Status := Status.all.find? (fun x => x.name == s)

def Status.isFinal : Status → Bool
  | .success | .failure | .rollback => true
  | _ => false

/-- looplab FSM step over the extracted table: transitions keyed by (event, source); a later
entry for the same key overwrites an earlier one; no transition ⇒ error (`none`). -/
def fsmLookup (tbl : List (String × List String × String)) (ev : String) (src : String) : Option String :=
  tbl.foldl (fun acc e => if e.1 == ev && e.2.1.contains src then some e.2.2 else acc) none

def fsmStep (tbl : List (String × List String × String)) (st : Status) (ev : String) : Option Status :=
  match fsmLookup tbl ev st.name with
  | some d => if d == st.name then none else Status.ofName d
  | none => none

def txFsmStep (st : Status) (ev : String) : Option Status := fsmStep Gen.txFsm st ev

def receiptEvent (typ : Nat) : String := ((Gen.receipt2Event.find? (·.1 == typ)).map (·.2)).getD ""

def maxU64 : Nat := 2 ^ 64 - 1

-- ------------------------------------------------------------------------------------ ids

structure SvcId where
  bxh : String
  chain : String
  sid : String
deriving DecidableEq, Repr, Inhabited

/-- one-to-one IBTP id `from-to-index` -/
structure TxId where
  frm : SvcId
  to : SvcId
  index : Nat
deriving DecidableEq, Repr, Inhabited

/-- global id of a one-to-many transaction: `sha256(from ‖ json(group map))` in the code, an
injective function of (from, group map); the model keeps the pre-image (map with later
duplicates winning, as built by `genGlobalTxID`) -/
structure GId where
  frm : SvcId
  grp : List (SvcId × Nat)
deriving DecidableEq, Repr, Inhabited

/-- an element of a timeout list -/
inductive TId
  | single (t : TxId)
  | global (g : GId)
deriving DecidableEq, Repr, Inhabited

-- ------------------------------------------------------------------------------------ values

structure Svc where
  ordered : Bool
  blacklist : List SvcId
  available : Bool
deriving Repr, DecidableEq, Inhabited

structure IC where
  ic : KV SvcId Nat := []
  rc : KV SvcId Nat := []
  sic : KV SvcId Nat := []
  src : KV SvcId Nat := []
deriving Repr, DecidableEq, Inhabited

structure Rec where
  height : Nat
  status : Status
deriving Repr, DecidableEq, Inhabited

structure Global where
  state : Status
  height : Nat
  children : KV TxId Status
  count : Nat
deriving Repr, DecidableEq, Inhabited

inductive Val
  | trec (r : Rec)
  | glob (g : Global)
  | ic (i : IC)
  | gid (g : GId)
  | tlist (l : List (Option TId))      -- a comma-joined list in split form; `none` = empty element
  | notify (m : KV String (List TxId))
  | svc (s : Svc)
  | unit
deriving Repr, DecidableEq, Inhabited

/-- storage keys of the interchain, transaction-manager and service-manager contracts -/
inductive Key
  | txRec (t : TxId)          -- txmgr  "tx-<id>"
  | glob (g : GId)            -- txmgr  "global-tx-<gid>"
  | timeout (h : Nat)         -- txmgr  "timeout-<h>"
  | child (t : TxId)          -- txmgr  "<id>" ↦ global id
  | ic (s : SvcId)            -- interchain "service-<full id>"
  | idxReq (t : TxId)         -- interchain "index-tx-<id>"
  | idxRcpt (t : TxId)        -- interchain "index-receipt-tx-<id>"
  | multi (h : Nat)           -- interchain "multitx-<h>"
  | svc (chain sid : String)  -- service manager "service-<chain>:<sid>"
deriving DecidableEq, Repr, Inhabited

inductive Change
  | storage (k : Key) (prev : Option Val)
  | balance (a : String) (prev : Int)
deriving Repr, DecidableEq

/-- events: the map `chain ↦ isBatch` posted by `notifySrcDst`, or an audit event -/
inductive Ev
  | interchain (m : List (String × Bool))
  | audit
deriving Repr, DecidableEq

/-- The state ledger as seen during a block: current values, the undo journal of the current
transaction, and its (un-journaled) event list. -/
structure Led where
  store : KV Key Val := []
  bal : KV String Int := []
  journal : List Change := []
  events : List Ev := []
deriving Repr

namespace Led

def getS (l : Led) (k : Key) : Option Val := KV.get l.store k

/-- journaled write (`SetState`; `none` = delete) -/
def setS (l : Led) (k : Key) (v : Option Val) : Led :=
  { l with
    store := match v with
      | some x => KV.set l.store k x
      | none => KV.erase l.store k
    journal := Change.storage k (KV.get l.store k) :: l.journal }

/-- `AddState`: since the `fix:` commit "journal AddState" it records a change like `SetState` -/
def addS (l : Led) (k : Key) (v : Val) : Led := l.setS k (some v)

def getBal (l : Led) (a : String) : Int := KV.getD l.bal a 0

def setBal (l : Led) (a : String) (v : Int) : Led :=
  { l with bal := KV.set l.bal a v, journal := Change.balance a (getBal l a) :: l.journal }

def snapshot (l : Led) : Nat := l.journal.length

def undo1 (l : Led) (c : Change) : Led :=
  match c with
  | .storage k (some v) => { l with store := KV.set l.store k v }
  | .storage k none => { l with store := KV.erase l.store k }
  | .balance a v => { l with bal := KV.set l.bal a v }

/-- `RevertToSnapshot`: undo journal entries, newest first, down to length `n` -/
def revert (l : Led) (n : Nat) : Led :=
  let k := l.journal.length - n
  (l.journal.take k).foldl undo1 { l with journal := l.journal.drop k }

/-- `Finalise`: forget the journal; events are read per tx hash, so the per-tx list is reset. -/
def finalise (l : Led) : Led := { l with journal := [], events := [] }

def post (l : Led) (e : Ev) : Led := { l with events := l.events ++ [e] }

end Led

-- ------------------------------------------------------------------------------------ config

structure Cfg where
  bxh : String := "1356"
  admins : List String := ["adm0", "adm1", "adm2", "adm3"]
  price : Nat := 1
  audit : Bool := false
  /-- master rule verdict for a well-formed proof of a chain: `some true` accepts,
      `some false` rejects with an error, `none` = chain unknown / no rule bound -/
  rule : String → Option Bool := fun c => if c == "c1" || c == "c2" || c == "c4" then some true else if c == "c3" then some false else none
  /-- other BitXHubs registered as available relay chains (`IsAvailableBitxhub`), each with `hubN` validators in its trust root -/
  hubs : List String := []
  hubN : Nat := 4

def gasNormal : Nat := 21000
def gasFailed : Nat := 21000
def gasBVM : Nat := 210000

-- ------------------------------------------------------------------------------------ txs

inductive IType | interchain | receiptSuccess | receiptFailure | receiptRollback | other (n : Nat)
deriving Repr, DecidableEq

def IType.toNat : IType → Nat
  | .interchain => 0 | .receiptSuccess => 1 | .receiptFailure => 2 | .receiptRollback => 3 | .other n => n

def IType.isRequest : IType → Bool | .interchain => true | _ => false
def IType.isResponse : IType → Bool
  | .receiptSuccess | .receiptFailure | .receiptRollback => true | _ => false

/-- `msig k`: a `BxhProof` signed by the first `k` validators of the other hub (`val-1 … val-k`, distinct) over the IBTP and its status -/
inductive ProofKind | ok | none | bad | plainFalse | msig (k : Nat)
deriving Repr, DecidableEq

/-- the `Extra` field as far as the code looks at it: empty, a `BxhProof` naming BEGIN_FAILURE / BEGIN_ROLLBACK (the destination
hub's notice), a `BxhProof` naming another status, or bytes that are no `BxhProof` -/
inductive Ext | none | beginFailure | beginRollback | other | junk
deriving Repr, DecidableEq

def Ext.isNotice : Ext → Bool | .beginFailure | .beginRollback => true | _ => false

/-- numeric `TxStatus` the field names (`junk` has none) -/
def Ext.status : Ext → Nat | .beginFailure => 1 | .beginRollback => 2 | .other => 3 | _ => 0

def noticeEvent (e : Ext) : String := ((Gen.txStatus2Event.find? (·.1 == e.status)).map (·.2)).getD ""

structure Ibtp where
  frm : Option SvcId          -- `none`: the id does not split into three parts
  to : Option SvcId
  index : Nat
  typ : IType
  timeout : Int
  group : Option (List (SvcId × Nat))
  ext : Ext := .none
deriving Repr

inductive Arg | s (v : String) | u (v : Nat) | b (v : Bool) | i (v : Int) | svc (v : SvcId) | tid (v : TxId) | badnum | opq
deriving Repr, DecidableEq

inductive Tx
  | xfer (frm to : String) (amt : Option Int)
  | ibtp (signer : String) (i : Ibtp) (p : ProofKind)
  | bvm (signer contract method : String) (args : List Arg)
deriving Repr

def Tx.sender : Tx → String
  | .xfer f _ _ => f | .ibtp s _ _ => s | .bvm s _ _ _ => s

structure Rcpt where
  ok : Bool
  ret : String          -- success: "", "batch_ibtp", "begin_failure", "*" ; failure: error class
  txStatus : Nat := 0
deriving Repr, DecidableEq

-- ------------------------------------------------------------------------------------ helpers

def getIC (l : Led) (s : SvcId) : IC :=
  match l.getS (.ic s) with
  | some (.ic i) => i
  | _ => {}

def setIC (l : Led) (s : SvcId) (i : IC) : Led := l.setS (.ic s) (some (.ic i))

def getSvc (l : Led) (cache : KV (String × String) Svc) (chain sid : String) : Option Svc :=
  match KV.get cache (chain, sid) with
  | some s => some s
  | none => match l.getS (.svc chain sid) with
    | some (.svc s) => some s
    | _ => none

/-- `checkIndex` -/
def checkIndex (exp cur : Nat) : Except String Unit :=
  if cur < exp then .error "1080013" else if cur > exp then .error "1080014" else .ok ()

/-- `timeoutHeight uint64` ↦ recorded height (`Begin`, `BeginMultiTXs`, `BeginInterBitXHub`) -/
def recordHeight (cur : Nat) (t : Nat) : Nat :=
  if t = 0 ∨ t ≥ maxU64 - cur then maxU64 else cur + t

/-- `uint64(ibtp.TimeoutHeight)` -/
def toU64 (t : Int) : Nat := (t % (2 ^ 64 : Int)).toNat

-- ------------------------------------------------------------------------------------ TxMgr

structure StatusChange where
  prev : Option Status            -- `none` = -1
  cur : Status
  childIds : List TxId := []
  notifySrc : List TxId := []
  notifyDst : List TxId := []
  isFailChild : Bool := false
deriving Repr

/-- `NotifyFlags` (bitxhub-model) -/
def notifyFlags (c : StatusChange) : Bool × Bool :=
  if c.prev = some c.cur then (false, false)
  else match c.cur with
    | .begin => (false, true)
    | .beginFailure => (true, true)
    | .beginRollback => (true, true)
    | .success => (true, false)
    | .failure => if c.prev = some .begin then (true, false) else (false, false)
    | .rollback => if c.prev = some .begin ∨ c.prev = none then (true, false) else (false, false)

/-- TransactionManager.addToTimeoutList -/
def tmAddTimeout (l : Led) (h : Nat) (id : TId) : Led :=
  -- a list emptied earlier is stored as "" (`[none]`), which reads as an absent key since the `fix:` commit
  -- "a storage key with an empty value does not exist"
  match l.getS (.timeout h) with
  | some (.tlist lst) =>
    if lst == [none] then l.setS (.timeout h) (some (.tlist [some id]))
    else l.setS (.timeout h) (some (.tlist (lst ++ [some id])))
  | _ => l.setS (.timeout h) (some (.tlist [some id]))

/-- Go's in-place `list = append(list[:i], list[i+1:]...)` while ranging over the original
slice header. `arr` is the shared backing array, `len` the current logical length; `none`
= slice-bounds panic. -/
def goRemoveLoop (x : Option TId) : Nat → Nat → List (Option TId) → Nat → Option (List (Option TId) × Nat)
  | 0, _, arr, len => some (arr, len)
  | fuel+1, idx, arr, len =>
    if arr.getD idx none == x then
      if idx + 1 > len then none
      else
        let arr' := (arr.take idx) ++ ((arr.drop (idx+1)).take (len - idx - 1)) ++ (arr.drop (len - 1))
        goRemoveLoop x fuel (idx+1) arr' (len - 1)
    else goRemoveLoop x fuel (idx+1) arr len

def goRemove (lst : List (Option TId)) (x : TId) : Option (List (Option TId)) :=
  match goRemoveLoop (some x) lst.length 0 lst lst.length with
  | some (arr, len) => some (arr.take len)
  | none => none

/-- `strings.Join` of an empty list is "", which splits back into one empty element -/
def normList (l : List (Option TId)) : List (Option TId) := if l.isEmpty then [none] else l

/-- TransactionManager.removeFromTimeoutList (a panic is contained by the bolt VM's recover) -/
def tmRemoveTimeout (l : Led) (h : Nat) (id : TId) : Except String Led :=
  match l.getS (.timeout h) with
  | some (.tlist lst) =>
    if lst == [none] then .ok l else      -- "" reads as an absent key: nothing to remove
    match goRemove lst id with
    | some r => .ok (l.setS (.timeout h) (some (.tlist (normList r))))
    | none => .error "panic"
  | _ => .ok l

/-- `Begin` (caller check passed: reached only through `CrossInvoke` from the interchain contract) -/
def tmBegin (l : Led) (cur : Nat) (id : TxId) (t : Nat) (failed : Bool) : Led × StatusChange :=
  let st := if failed then Status.beginFailure else Status.begin
  let r : Rec := { height := recordHeight cur t, status := st }
  (l.addS (.txRec id) (.trec r), { prev := none, cur := st })

/-- `BeginInterBitXHub`.  On an existing record the `Extra` field is the destination hub's notice: since the `fix:` commit "the
destination hub's notice ends an inter-BitXHub transaction for the timeout mechanism too" the FSM starts from the stored status
and the stored deadline is kept (before, from an empty record: any status was taken for BEGIN and the deadline became 0) -/
def tmBeginInter (l : Led) (cur : Nat) (id : TxId) (t : Nat) (ext : Ext) (failed : Bool) : Except String (Led × StatusChange) :=
  match l.getS (.txRec id) with
  | some (.trec r) =>
    if ext == .junk then .error "1100005"
    else match txFsmStep r.status (noticeEvent ext) with
      | none => .error "1100005"     -- also: an empty field / another status names no event
      | some st' => .ok (l.addS (.txRec id) (.trec { r with status := st' }), { prev := some r.status, cur := st' })
  | some _ => .error "2100000"
  | none =>
    let st := if failed then Status.beginFailure else Status.begin
    let r : Rec := { height := recordHeight cur t, status := st }
    .ok (l.addS (.txRec id) (.trec r), { prev := none, cur := st })

def childIds (g : Global) : List TxId := g.children.map (·.1)

/-- append or overwrite keeping first-insertion order (Go map: order is not observable after
canonicalisation) -/
def putChild (m : KV TxId Status) (k : TxId) (v : Status) : KV TxId Status :=
  if (KV.get m k).isSome then m.map (fun p => if p.1 = k then (k, v) else p) else m ++ [(k, v)]

/-- `BeginMultiTXs` -/
def tmBeginMulti (l : Led) (cur : Nat) (gid : GId) (id : TxId) (t : Nat) (failed : Bool) (count : Nat) :
    Except String (Led × StatusChange) :=
  match l.getS (.glob gid) with
  | some (.glob g) =>
    if (KV.get g.children id).isSome then .error "2080000"
    else
      if g.state ≠ .begin then
        let g' := { g with children := putChild g.children id g.state }
        let l1 := l.setS (.glob gid) (some (.glob g'))
        let l2 := l1.setS (.child id) (some (.gid gid))
        .ok (l2, { prev := none, cur := g.state, childIds := childIds g' })
      else if failed then
        let nd := (g.children.filter (fun p => p.2 == .success)).map (·.1)
        let ns := g.children.map (·.1)
        let ch := g.children.map (fun p => (p.1, Status.beginFailure))
        let g' := { g with children := putChild ch id .beginFailure, state := .beginFailure }
        match tmRemoveTimeout l g.height (.global gid) with
        | .error e => .error e
        | .ok l0 =>
          let l1 := l0.setS (.glob gid) (some (.glob g'))
          let l2 := l1.setS (.child id) (some (.gid gid))
          .ok (l2, { prev := none, cur := .beginFailure, childIds := childIds g', notifySrc := ns, notifyDst := nd })
      else
        let g' := { g with children := putChild g.children id .begin }
        let l1 := l.setS (.glob gid) (some (.glob g'))
        let l2 := l1.setS (.child id) (some (.gid gid))
        .ok (l2, { prev := none, cur := .begin, childIds := childIds g' })
  | _ =>
    let st := if failed then Status.beginFailure else Status.begin
    let hgt := recordHeight cur t
    let g : Global := { state := st, height := hgt, children := [(id, st)], count := count }
    let l0 := if failed then l else tmAddTimeout l hgt (.global gid)
    let l1 := l0.addS (.glob gid) (.glob g)
    let l2 := l1.setS (.child id) (some (.gid gid))
    .ok (l2, { prev := none, cur := st, childIds := [id] })

def isMultiFinished (st : Status) (g : Global) : Bool :=
  g.children.all (fun p => p.2 == st) && g.children.length == g.count

/-- `changeMultiTxStatus` -/
def tmChangeMulti (l : Led) (gid : GId) (g : Global) (id : TxId) (typ : Nat) : Except String (Led × Global) :=
  if g.state = .begin ∧ typ = 2 then
    let ch := g.children.map (fun p => (p.1, if p.1 = id then Status.failure else Status.beginFailure))
    let g' := { g with children := ch, state := .beginFailure }
    match tmRemoveTimeout l g.height (.global gid) with
    | .error e => .error e
    | .ok l' => .ok (l', g')
  else
    let st := (KV.get g.children id).getD .begin
    match txFsmStep st (receiptEvent typ) with
    | none => .error "1100005"
    | some st' =>
      let g1 := { g with children := g.children.map (fun p => if p.1 = id then (p.1, st') else p) }
      if isMultiFinished st' g1 then
        match txFsmStep g1.state (receiptEvent typ) with
        | none => .error "1100005"
        | some gs =>
          match tmRemoveTimeout l g1.height (.global gid) with
          | .error e => .error e
          | .ok l' => .ok (l', { g1 with state := gs })
      else .ok (l, g1)

/-- `Report` -/
def tmReport (l : Led) (id : TxId) (typ : Nat) : Except String (Led × StatusChange) :=
  match l.getS (.txRec id) with
  | some (.trec r) =>
    match txFsmStep r.status (receiptEvent typ) with
    | none => .error "2080000"
    | some st' =>
      .ok (l.setS (.txRec id) (some (.trec { r with status := st' })), { prev := some r.status, cur := st' })
  | some _ => .error "2080000"
  | none =>
    match l.getS (.child id) with
    | some (.gid gid) =>
      match l.getS (.glob gid) with
      | some (.glob g) =>
        if (KV.get g.children id).isNone then .error "2080000"
        else
          match tmChangeMulti l gid g id typ with
          | .error _ => .error "2080000"
          | .ok (l1, g') =>
            let prev := g.state
            let cur := g'.state
            let others := g'.children.filter (fun p => p.1 ≠ id)
            let failNow := prev == .begin && cur == .beginFailure
            -- since the `fix:` commit "tell destination chains to roll back children that had succeeded": statuses as they
            -- were before the change (afterwards every child is BEGIN_FAILURE / FAILURE)
            let nd := if failNow then ((g.children.filter (fun p => p.1 ≠ id)).filter (fun p => p.2 == .success)).map (·.1) else []
            let ns := others.map (·.1)
            let l2 := l1.setS (.glob gid) (some (.glob g'))
            .ok (l2, { prev := some prev, cur := cur, childIds := childIds g',
                       notifySrc := ns, notifyDst := nd,
                       isFailChild := failNow && !others.isEmpty })
      | _ => .error "2080000"
    | _ => .error "2080000"

/-- `GetStatus` for a one-to-one / child id -/
def tmGetStatus (l : Led) (id : TxId) : Option Status :=
  match l.getS (.txRec id) with
  | some (.trec r) => some r.status
  | _ =>
    match l.getS (.child id) with
    | some (.gid gid) =>
      match l.getS (.glob gid) with
      | some (.glob g) => some g.state
      | _ => none
    | _ => none

-- ------------------------------------------------------------------------------------ Interchain

structure Env where
  cfg : Cfg
  cache : KV (String × String) Svc       -- executor's service cache
  height : Nat                           -- height of the block being executed
  txIndex : Nat

def isLocal (env : Env) (s : SvcId) : Bool := s.bxh == env.cfg.bxh

/-- `checkTargetAvailability` for type INTERCHAIN: (isBatch, targetError?) -/
def checkTarget (env : Env) (l : Led) (src dst : SvcId) : Bool × Bool :=
  if isLocal env dst then
    if dst.chain == dst.bxh then (false, false)
    else match getSvc l env.cache dst.chain dst.sid with
      | none => (false, true)
      | some s =>
        if !s.available then (false, true)
        else if s.blacklist.contains src then (false, true)
        else (!s.ordered, false)
  else (false, !env.cfg.hubs.contains dst.bxh)    -- `checkBitXHubAvailability`

structure Checked where
  src : SvcId
  dst : SvcId
  ic : IC
  isBatch : Bool
  targetErr : Bool
  notice : Bool := false

/-- `checkTxStatusForSourceBxh`: is this the request handed back with the destination hub's notice?  `none`: the `Extra` field
of a request that was processed before is no `BxhProof` -/
def isNotification (l : Led) (src dst : SvcId) (i : Ibtp) : Option Bool :=
  if src.bxh == dst.bxh || i.typ.isResponse then some false
  else match l.getS (.idxReq { frm := src, to := dst, index := i.index }) with
    | some _ => if i.ext == .junk then none else some i.ext.isNotice
    | none => some false

/-- `checkIBTP` -/
def checkIBTP (env : Env) (l : Led) (i : Ibtp) : Except String Checked :=
  match i.frm with
  | none => .error "1080002"
  | some src =>
    match i.to with
    | none => .error "1080003"
    | some dst =>
      let ic := getIC l src
      match isNotification l src dst i with
      | none => .error "2080000"
      | some notif =>
      if i.typ.isRequest && !notif then
        if isLocal env src then
          match getSvc l env.cache src.chain src.sid with
          | none => .error "1080007"
          | some s =>
            if !s.available then .error "1080007"
            else
              let (isBatch, terr) := checkTarget env l src dst
              if !isBatch then
                match checkIndex (KV.getD ic.ic dst 0 + 1) i.index with
                | .error e => .error e
                | .ok _ => .ok { src := src, dst := dst, ic := ic, isBatch := isBatch, targetErr := terr }
              else .ok { src := src, dst := dst, ic := ic, isBatch := isBatch, targetErr := terr }
        else
          if !isLocal env dst then .error "1080004"
          else if !env.cfg.hubs.contains src.bxh then .error "1080011"    -- source BitXHub is not a registered, available appchain
          else
            let (isBatch, terr) := checkTarget env l src dst
            if !isBatch then
              match checkIndex (KV.getD ic.ic dst 0 + 1) i.index with
              | .error e => .error e
              | .ok _ => .ok { src := src, dst := dst, ic := ic, isBatch := isBatch, targetErr := terr }
            else .ok { src := src, dst := dst, ic := ic, isBatch := isBatch, targetErr := terr }
      else if i.typ.isResponse || notif then
        if isLocal env src then
          match getSvc l env.cache src.chain src.sid with
          | none => .error "runtime"      -- nil service dereferenced; recovered by the bolt VM
          | some s =>
            match checkIndex (KV.getD ic.rc dst 0 + 1) i.index with
            | .error e => .error e
            | .ok _ => .ok { src := src, dst := dst, ic := ic, isBatch := !s.ordered, targetErr := false, notice := notif }
        else
          if !isLocal env dst then .error "1080004"
          else
            match checkIndex (KV.getD ic.rc dst 0 + 1) i.index with
            | .error e => .error e
            | .ok _ => .ok { src := src, dst := dst, ic := ic, isBatch := false, targetErr := false, notice := notif }
      else .error "1080005"

/-- `genGlobalTxID` pre-image: the group map (later duplicates of a key win) -/
def globalId (src : SvcId) (g : List (SvcId × Nat)) : GId :=
  { frm := src, grp := g.foldl (fun acc p => KV.set acc p.1 p.2) [] }

def beginTransaction (env : Env) (l : Led) (i : Ibtp) (ck : Checked) : Except String (Led × StatusChange) :=
  let id : TxId := { frm := ck.src, to := ck.dst, index := i.index }
  let t := toU64 i.timeout
  if ck.src.bxh ≠ ck.dst.bxh then
    -- since the `fix:` commit "the source hub records the deadline of an inter-BitXHub request" the deadline is recorded on the
    -- source hub too (before, the source hub passed 0 and the record carried none)
    match tmBeginInter l env.height id t i.ext ck.targetErr with
    | .error _ => .error "2080000"
    | .ok r => .ok r
  else
    match i.group with
    | none => .ok (tmBegin l env.height id t ck.targetErr)
    | some g =>
      match tmBeginMulti l env.height (globalId ck.src g) id t ck.targetErr g.length with
      | .error _ => .error "2080000"
      | .ok r => .ok r

/-- `addToMultiTxNotifyMap`: towards the source all ids go under the (common) source chain; towards the
destinations each id goes under its own destination chain (since the `fix:` commit "file each
rolled-back child under its own destination chain"; before, every id went under the first id's chain) -/
def addToMultiNotify (env : Env) (l : Led) (ids : List TxId) (toSrc : Bool) : Led :=
  match ids with
  | [] => l
  | id0 :: _ =>
    let m : KV String (List TxId) := match l.getS (.multi env.height) with
      | some (.notify m) => m
      | _ => []
    let m' :=
      if toSrc then KV.set m id0.frm.chain (KV.getD m id0.frm.chain [] ++ ids)
      else ids.foldl (fun m id => KV.set m id.to.chain (KV.getD m id.to.chain [] ++ [id])) m
    l.setS (.multi env.height) (some (.notify m'))

def unionPier := "default_union_pier_id"

/-- `notifySrcDst` -/
def notifySrcDst (env : Env) (l : Led) (src dst : SvcId) (c : StatusChange) (isBatch : Bool) : Led :=
  let (ns, nd) := notifyFlags c
  let (m1, l1) :=
    if ns then
      if isLocal env src then ([(src.chain, isBatch)], addToMultiNotify env l c.notifySrc true)
      else ([(unionPier, isBatch)], l)
    else ([], l)
  let (m2, l2) :=
    if nd then
      if isLocal env dst then
        ((if !c.isFailChild then KV.set m1 dst.chain isBatch else m1), addToMultiNotify env l1 c.notifyDst false)
      else (KV.set m1 unionPier isBatch, l1)
    else (m1, l1)
  l2.post (.interchain m2)

/-- `setDestInterchain` -/
def setDestIC (l : Led) (frm to : SvcId) (index : Nat) (ic : IC) : Led :=
  let l1 := setIC l frm { ic with rc := KV.set ic.rc to index }
  let ic2 := getIC l1 to
  setIC l1 to { ic2 with src := KV.set ic2.src frm index }

/-- `ProcessIBTP`; returns the receipt's ret string -/
def processIBTP (l : Led) (i : Ibtp) (ck : Checked) (c : StatusChange) : Led × String :=
  let id : TxId := { frm := ck.src, to := ck.dst, index := i.index }
  let ret := if ck.isBatch then "batch_ibtp" else if ck.targetErr then "begin_failure" else ""
  if i.typ.isRequest && !ck.notice then
    let ic := { ck.ic with ic := KV.set ck.ic.ic ck.dst (KV.getD ck.ic.ic ck.dst 0 + 1) }
    let l1 := setIC l ck.src ic
    let l2 := l1.addS (.idxReq id) .unit
    let ic2 := getIC l2 ck.dst
    let l3 := setIC l2 ck.dst { ic2 with sic := KV.set ic2.sic ck.src i.index }
    (l3, ret)
  else
    let l1 :=
      if c.cur.isFinal then
        if !c.childIds.isEmpty then
          -- handleMultiIbtpInterchain
          c.childIds.foldl (fun l cid => setDestIC l cid.frm cid.to cid.index (getIC l cid.frm)) l
        else setDestIC l ck.src ck.dst i.index ck.ic
      else l
    (l1.setS (.idxRcpt id) (some .unit), ret)

/-- `HandleIBTP`. The error class "2080000!" marks the audit-event failure that is raised after
all effects have been applied. -/
def handleIBTP (env : Env) (l : Led) (i : Ibtp) : Except String (Led × String) :=
  match checkIBTP env l i with
  | .error e => .error e
  | .ok ck =>
    let id : TxId := { frm := ck.src, to := ck.dst, index := i.index }
    let r := if i.typ.isRequest then beginTransaction env l i ck
             else if i.typ.isResponse then
               match tmReport l id i.typ.toNat with
               | .error _ => .error "2080000"
               | .ok x => .ok x
             else .error "runtime"   -- a notice of neither category: the nil status change is dereferenced (recovered by the bolt VM)
    match r with
    | .error e => .error e
    | .ok (l1, c) =>
      let l2 := notifySrcDst env l1 ck.src ck.dst c ck.isBatch
      let (l3, ret) := processIBTP l2 i ck c
      if env.cfg.audit then
        if (l3.getS (.ic ck.src)).isNone ∨ (l3.getS (.ic ck.dst)).isNone then .error "2080000!"
        else .ok ((l3.post .audit).post .audit, ret)
      else .ok (l3, ret)

-- ------------------------------------------------------------------------------------ fees / transfer

def payAdmins (cfg : Cfg) (l : Led) (fees : Int) : Led :=
  cfg.admins.foldl (fun l a => l.setBal a (l.getBal a + fees / (cfg.admins.length : Int))) l

def payGasFee (cfg : Cfg) (l : Led) (sender : String) (gas : Nat) : Option Led :=
  let fees : Int := (gas * cfg.price : Nat)
  let have_ := l.getBal sender
  if have_ < fees then none
  else some (payAdmins cfg (l.setBal sender (have_ - fees)) fees)

def payLeftAsGasFee (cfg : Cfg) (l : Led) (sender : String) : Led :=
  let have_ := l.getBal sender
  payAdmins cfg (l.setBal sender 0) have_

/-- `transfer`: `none` = "not sufficient funds", a negative amount is refused; the receiver's
balance is read after the sender has been debited -/
inductive XferErr | funds | badAmount
deriving Repr, DecidableEq

def transfer (l : Led) (frm to : String) (v : Int) : Except XferErr Led :=
  if v = 0 then .ok l
  else if v < 0 then .error .badAmount
  else if l.getBal frm < v then .error .funds
  else .ok ((l.setBal frm (l.getBal frm - v)).setBal to ((l.setBal frm (l.getBal frm - v)).getBal to + v))

-- ------------------------------------------------------------------------------------ proofs

/-- outcome class of `verifyProof` for a transaction: `none` = verified -/
def proofVerdict (cfg : Cfg) (i : Ibtp) (p : ProofKind) : Option String :=
  match p with
  | .none => some "proof-empty"
  | .bad => some "proof-hash"
  | .plainFalse => some "proof-rule"     -- the bound rule answers plain false (no error)
  | .ok | .msig _ =>
    -- `verifyProof` parses the origin ignoring the parse error: a malformed id, a foreign BitXHub or an
    -- unknown chain all end in "get appchain ... failed", wrapped as a proof error like a rule error
    match (if i.typ.isRequest then i.frm else i.to) with
    | none => some "proof-rule"
    | some s =>
      if s.bxh ≠ cfg.bxh then
        -- `verifyMultiSign` against the trust root of the other hub's appchain record: more than (n-1)/3 distinct validators
        match p with
        | .msig k => if cfg.hubs.contains s.bxh && decide (min k cfg.hubN > (cfg.hubN - 1) / 3) then none else some "proof-rule"
        | _ => some "proof-rule"
      else match cfg.rule s.chain with
        | none => some "proof-rule"
        | some true => none
        | some false => some "proof-rule"

-- ------------------------------------------------------------------------------------ one tx

def Arg.isStr : Arg → Bool | .s _ | .svc _ | .tid _ => true | _ => false
def Arg.isU : Arg → Bool | .u v => v < 2 ^ 64 | _ => false
def Arg.isB : Arg → Bool | .b _ => true | _ => false
def Arg.isI32 : Arg → Bool | .i v => -(2 ^ 31 : Int) ≤ v ∧ v < 2 ^ 31 | _ => false

/-- argument vectors that fit the transaction manager's internal entry points -/
def txmgrWellTyped (method : String) (args : List Arg) : Bool :=
  match args with
  | [a, t, f] => method == "Begin" && a.isStr && t.isU && f.isB
  | [a, r] => method == "Report" && a.isStr && r.isI32
  | [g, a, t, f, c] => method == "BeginMultiTXs" && g.isStr && a.isStr && t.isU && f.isB && c.isU
  | [a, t, p, f] => method == "BeginInterBitXHub" && a.isStr && t.isU && (p == .opq) && f.isB
  | _ => false

/-- BVM calls covered by the model (everything else is outside the exec op language) -/
def applyBvm (env : Env) (l : Led) (contract method : String) (args : List Arg) : Except String (Led × String) :=
  if contract == "interchain" && method == "DeleteInterchain" then
    match args with
    | [.svc id] =>
      let l1 := l.setS (.ic id) none
      if env.cfg.audit then .error "2080000" else .ok (l1, "")   -- audit: `Get` after delete fails
    | _ => .error "unmodelled"
  else if contract == "interchain" && method == "GetInterchain" then
    match args with
    | [.svc id] => match l.getS (.ic id) with
      | some _ => .ok (l, "*")
      | none => .error "1080001"
    | _ => .error "unmodelled"
  else if contract == "txmgr" && method == "GetStatus" then
    match args with
    | [.tid id] => match tmGetStatus l id with
      | some _ => .ok (l, "*")
      | none => .error "1100006"
    | _ => .error "unmodelled"
  else if contract == "txmgr" && (method == "Begin" || method == "Report" || method == "BeginMultiTXs" || method == "BeginInterBitXHub") then
    -- direct call: CurrentCaller is the external account, not the interchain contract.
    -- (argument vectors that do not fit the signature fail earlier, in reflection: outside the model)
    if txmgrWellTyped method args then .error "1100001" else .error "unmodelled"
  else .error "unmodelled"

structure TxOut where
  rcpt : Rcpt
  events : List Ev

/-- `applyBxhTransaction`: (ledger, result, gas used) -/
def applyBxh (env : Env) (l0 : Led) (tx : Tx) (invalid : Option String) : Led × Except String String × Nat :=
  match invalid with
  | some r => (l0, .error r, gasFailed)
  | none =>
    match tx with
    | .ibtp _ i _ =>
      match handleIBTP env l0 i with
      | .ok (l', ret) => (l', .ok ret, gasBVM)
      | .error e =>
        -- no inner snapshot on the IBTP path: an error raised after writes keeps them
        if e == "2080000!" then
          -- audit-event failure after all effects: effects are the ones of the successful path
          match handleIBTP { env with cfg := { env.cfg with audit := false } } l0 i with
          | .ok (l', _) => (l', .error "2080000", gasBVM)
          | .error e' => (l0, .error e', gasBVM)
        else (l0, .error e, gasBVM)
    | .xfer f t amt =>
      match transfer l0 f t (amt.getD 0) with
      | .ok l' => (l', .ok "", gasNormal)
      | .error .funds => (l0, .error "funds", gasNormal)
      | .error .badAmount => (l0, .error "bad-amount", gasNormal)
    | .bvm _ c m args =>
      match applyBvm env l0 c m args with
      | .ok (l', ret) => (l', .ok ret, gasBVM)
      | .error e => (l0.revert l0.snapshot, .error e, gasBVM)

def mkRcpt (res : Except String String) : Rcpt :=
  match res with
  | .ok ret => { ok := true, ret := ret, txStatus := if ret == "begin_failure" then 1 else 0 }
  | .error e => { ok := false, ret := e }

/-- `applyTransaction` + the event handling of `applyTx` -/
def applyTx (env : Env) (l : Led) (tx : Tx) (invalid : Option String) : Led × TxOut :=
  let l0 : Led := { l with journal := [], events := [] }
  let r := applyBxh env l0 tx invalid
  let rc := mkRcpt r.2.1
  match payGasFee env.cfg r.1 tx.sender r.2.2 with
  | some l2 => (l2.finalise, { rcpt := rc, events := if rc.ok then l2.events else [] })
  | none =>
    let l2 := payLeftAsGasFee env.cfg (r.1.revert l0.snapshot) tx.sender
    -- since the `fix:` commit "do not process the events of a failed transaction" a FAILED receipt carries no events
    (l2.finalise, { rcpt := { rc with ok := false, ret := "fee" }, events := [] })

-- ------------------------------------------------------------------------------------ block

structure VIdx where
  index : Nat
  valid : Bool
  isBatch : Bool
deriving Repr, DecidableEq

structure BlockOut where
  height : Nat
  rcpts : List Rcpt
  counter : KV String (List VIdx)
  timeoutCounter : KV String (List TId)
  multiCounter : KV String (List TxId)
deriving Repr

def getTimeoutList (l : Led) (h : Nat) : List TId :=
  match l.getS (.timeout h) with
  | some (.tlist lst) => if lst.head? == some none then [] else lst.filterMap id
  | _ => []

/-- what `setTimeoutList` decides for one transaction -/
inductive TOAct
  | skip
  | add (h : Nat) (id : TxId)
  | remove (h : Nat) (id : TxId)
  | abort              -- "can't read record from ledger": the rest of the bookkeeping is abandoned
deriving Repr, DecidableEq

/-- `finalInterBitXHubRecord`: the recorded deadline of a transaction between two BitXHubs whose record is final -/
def finalInterRecord (l : Led) (id : TxId) : Option Nat :=
  if id.frm.bxh != id.to.bxh then
    match l.getS (.txRec id) with
    | some (.trec r) => if r.status.isFinal then some r.height else none
    | _ => none
  else none

def timeoutAct (cfg : Cfg) (l : Led) (h : Nat) (tx : Tx) (rc : Rcpt) : TOAct :=
  match tx with
  | .ibtp _ i _ =>
    match i.frm, i.to with
    | some f, some t =>
      let id : TxId := { frm := f, to := t, index := i.index }
      let invalid := !rc.ok || rc.ret == "batch_ibtp"
      let failBegin := rc.txStatus == 1
      -- since the `fix:` commit "an accepted receipt of an unordered source service leaves the timeout list": for a receipt
      -- `invalid` alone does not end the bookkeeping; the record decides
      -- since the `fix:` commit "the receipt of a one-to-one transaction leaves the timeout list even if it carries a Group":
      -- only a REQUEST with a Group is left to the transaction manager's group bookkeeping
      -- since the `fix:` commit "the destination hub's notice ends an inter-BitXHub transaction for the timeout mechanism too":
      -- a request between two hubs whose record is final leaves the list its record names and joins none
      let finalInter : Option Nat := if i.typ.isRequest then finalInterRecord l id else none
      -- since the `fix:` commit "a request between two BitXHubs that carries a Group times out like any other": such a request is
      -- begun one-to-one (`beginTransaction`), so only a Group request inside one hub is left to the group bookkeeping
      if t.chain == cfg.bxh || (i.group.isSome && !i.typ.isResponse && f.bxh == t.bxh) then .skip
      else if finalInter.isSome then .remove (finalInter.getD 0) id
      else if (invalid && !i.typ.isResponse) || failBegin then .skip
      else if i.typ.isRequest then
        if i.timeout ≤ 0 ∨ i.timeout.toNat ≥ maxU64 - h then .skip
        else .add (h + i.timeout.toNat) id
      else if i.typ.isResponse then
        match l.getS (.txRec id) with
        | some (.trec r) => if invalid && !r.status.isFinal then .skip else .remove r.height id
        | some _ => .abort
        | none =>
          if invalid then .skip else
          match l.getS (.child id) with
          | some _ => .skip
          | none => .abort
      else .skip
    | _, _ => .skip       -- unparsable ids never produce a successful receipt
  | _ => .skip

def pushAt (m : KV Nat (List TxId)) (h : Nat) (id : TxId) : KV Nat (List TxId) :=
  KV.set m h (KV.getD m h [] ++ [id])

/-- the additions of a block per height (`addTimeoutListMap`), in block order -/
def collectAdds (acts : List TOAct) (m0 : KV Nat (List TxId)) : KV Nat (List TxId) :=
  acts.foldl (fun m a => match a with | .add th id => pushAt m th id | _ => m) m0

/-- the removals of a block per height (`removeTimeoutListMap`) -/
def collectRems (acts : List TOAct) (m0 : KV Nat (List TxId)) : KV Nat (List TxId) :=
  acts.foldl (fun m a => match a with | .remove th id => pushAt m th id | _ => m) m0

/-- `addTimeoutList` + `AddState` for one height -/
def addStep (l : Led) (p : Nat × List TxId) : Led :=
  let cur : List (Option TId) := match l.getS (.timeout p.1) with
    | some (.tlist lst) => lst
    | _ => [none]
  let ids := p.2.map (fun t => some (TId.single t))
  l.addS (.timeout p.1) (.tlist (if cur == [none] then ids else cur ++ ids))

/-- `removeTimeoutList` + `SetState` for one height -/
def remStep (l : Led) (p : Nat × List TxId) : Led :=
  let cur : List (Option TId) := match l.getS (.timeout p.1) with
    | some (.tlist lst) => lst
    | _ => [none]
  let nw := p.2.foldl (fun acc id => (goRemove acc (.single id)).getD acc) cur
  l.setS (.timeout p.1) (some (.tlist (normList nw)))

/-- `setTimeoutList` -/
def setTimeoutList (cfg : Cfg) (l : Led) (h : Nat) (txs : List Tx) (rcpts : List Rcpt) : Led :=
  let acts := (txs.zip rcpts).map (fun p => timeoutAct cfg l h p.1 p.2)
  if acts.contains .abort then l
  else
    -- map iteration order is irrelevant: distinct heights touch distinct keys (`setTimeoutList_at`)
    (collectRems acts []).foldl remStep ((collectAdds acts []).foldl addStep l)

def notifyChain (cfg : Cfg) (s : SvcId) : String := if s.bxh ≠ cfg.bxh then unionPier else s.chain

def pushTo (m : KV String (List TId)) (c : String) (id : TId) : KV String (List TId) :=
  KV.set m c (KV.getD m c [] ++ [id])

def timeoutMapStep (cfg : Cfg) (l : Led) (acc : Option (KV String (List TId))) (v : TId) : Option (KV String (List TId)) :=
  match acc with
  | none => none
  | some m =>
    match v with
    | .single t => some (pushTo m (notifyChain cfg t.frm) v)
    | .global g =>
      match l.getS (.glob g) with
      | some (.glob gi) =>
        some (gi.children.foldl (fun m p =>
          let m1 := pushTo m (notifyChain cfg p.1.frm) (.single p.1)
          if p.2.isFinal then pushTo m1 (notifyChain cfg p.1.to) (.single p.1) else m1) m)
      | _ => none

/-- `getTimeoutIBTPsMap`: a missing global record aborts with an error (nil map) -/
def getTimeoutMap (cfg : Cfg) (l : Led) (h : Nat) : KV String (List TId) :=
  ((getTimeoutList l h).foldl (timeoutMapStep cfg l) (some [])).getD []

def rollbackStep (h : Nat) (acc : Led × Bool) (id : TId) : Led × Bool :=
  if acc.2 then acc else
  match id with
  | .global g =>
    match acc.1.getS (.glob g) with
    | some (.glob gi) =>
      let g' := { gi with state := .beginRollback, children := gi.children.map (fun p => (p.1, Status.beginRollback)) }
      (acc.1.setS (.glob g) (some (.glob g')), false)
    | _ => (acc.1, true)
  | .single t => (acc.1.setS (.txRec t) (some (.trec { height := h, status := .beginRollback })), false)

/-- `setTimeoutRollback` (stops at the first error, which is only logged) -/
def setTimeoutRollback (l : Led) (h : Nat) : Led :=
  ((getTimeoutList l h).foldl (rollbackStep h) (l, false)).1

structure Node where
  led : Led
  cache : KV (String × String) Svc := []
  height : Nat

def counterOf (idx : Nat) (evs : List Ev) (ctr : KV String (List VIdx)) : KV String (List VIdx) :=
  evs.foldl (fun c e => match e with
    | .interchain m => m.foldl (fun c (q : String × Bool) =>
        KV.set c q.1 (KV.getD c q.1 [] ++ [{ index := idx, valid := true, isBatch := q.2 : VIdx }])) c
    | .audit => c) ctr

structure Acc where
  led : Led
  idx : Nat := 0
  rcpts : List Rcpt := []
  counter : KV String (List VIdx) := []

/-- the serial `ApplyTransactions` loop; second component of a tx: signature valid -/
def applyTxs (cfg : Cfg) (cache : KV (String × String) Svc) (h : Nat) (l : Led) (txs : List (Tx × Bool)) : Acc :=
  txs.foldl (fun (a : Acc) p =>
    let env : Env := { cfg := cfg, cache := cache, height := h, txIndex := a.idx }
    let inv := if !p.2 then some "bad-sig" else match p.1 with
      | .ibtp _ i pk => proofVerdict cfg i pk
      | _ => none
    let r := applyTx env a.led p.1 inv
    { led := r.1, idx := a.idx + 1, rcpts := a.rcpts ++ [r.2.rcpt], counter := counterOf a.idx r.2.events a.counter })
    { led := l }

/-- `processExecuteEvent` for block `height+1` -/
def execBlock (cfg : Cfg) (n : Node) (txs : List (Tx × Bool)) : Node × BlockOut :=
  let h := n.height + 1
  let a := applyTxs cfg n.cache h n.led txs
  let l2 := setTimeoutList cfg a.led h (txs.map (·.1)) a.rcpts
  let tmap := getTimeoutMap cfg l2 h
  let mmap : KV String (List TxId) := match l2.getS (.multi h) with
    | some (.notify m) => m
    | _ => []
  let l3 := setTimeoutRollback l2 h
  ({ n with led := l3.finalise, height := h },
   { height := h, rcpts := a.rcpts, counter := a.counter, timeoutCounter := tmap, multiCounter := mmap })

end Bxh.Exec
