import Bxh.Prelude.KV
/-!
# Model of the raft apply loop of the ordering node (`pkg/order/etcdraft`: node.go, util.go)

`entriesToApply`, `publishEntries`, `mint`, `reportState`, `maybeTriggerSnapshot` and the state a
restarted node starts from (`NewNode`/`Start`/`run`).  The replicated log itself (etcd/raft) is a
parameter of the histories: every `ready` hands over committed entries; after a restart raft
hands over again everything after the snapshot index.
-/
namespace Bxh.Order
open Bxh

/-- a committed log entry: `height = none` is an empty entry (leader change no-op) -/
structure Entry where
  idx : Nat
  height : Option Nat
deriving Repr, DecidableEq

structure Node where
  lastExec : Nat := 0                 -- height of the last minted block
  applied : Nat := 0                  -- raft applied index
  snapIdx : Nat := 0                  -- index of the last snapshot
  snapCount : Nat := 0
  bai : KV Nat Nat := []              -- blockAppliedIndex: block height ↦ raft index (volatile)
  persisted : Nat := 0                -- applied index written to the db by reportState (durable)
  queue : List Nat := []              -- commitC: minted, not yet executed (volatile)
  log : List Entry := []              -- entries in raft storage after the snapshot (durable)
  hs : Nat × Nat × Nat := (0, 0, 0)   -- raft hard state in the WAL: term, vote, commit index (durable)
deriving Repr, Inhabited

/-- the hard state `RaftStorage.Store` writes with a Ready that carries entries or a snapshot: the term the replica is in
(1 until it hears of another), the vote it has granted, the new commit index; a Ready with neither leaves it alone here
(`setHardState` is that case) -/
def storeHs (hs : Nat × Nat × Nat) (commit : Option Nat) : Nat × Nat × Nat :=
  match commit with
  | none => hs
  | some c => (max 1 hs.1, hs.2.1, c)

/-- a Ready without entries and without a snapshot: the replica moved to term `t` and / or granted its vote to `v` -/
def setHardState (n : Node) (t v c : Nat) : Node := { n with hs := (t, v, c) }

/-- `getBlockAppliedIndex`: the index stored for the highest height in the map -/
def getBai (n : Node) : Nat :=
  match n.bai with
  | [] => 0
  | _ =>
    let hmax := (n.bai.map (·.1)).foldl max 0
    KV.getD n.bai hmax 0

/-- `entriesToApply` (the Fatalf for a gap in the committed entries is outside the op language) -/
def entriesToApply (n : Node) (es : List Entry) : List Entry :=
  match es with
  | [] => []
  | e0 :: _ => if n.applied + 1 - e0.idx < es.length then es.drop (n.applied + 1 - e0.idx) else []

/-- one entry of `publishEntries` -/
def publish1 (n : Node) (e : Entry) : Node :=
  match e.height with
  | none => { n with applied := e.idx }
  | some h =>
    if getBai n ≥ e.idx then { n with applied := e.idx }
    else if h ≠ n.lastExec + 1 then { n with applied := e.idx }
    else { n with queue := n.queue ++ [h], bai := KV.set n.bai h e.idx, lastExec := h, applied := e.idx }

def publish (n : Node) (es : List Entry) : Node := es.foldl publish1 n

/-- the Ready handler: store the entries, apply the new ones -/
def ready (n : Node) (es : List Entry) : Node :=
  publish { n with log := n.log ++ es, hs := storeHs n.hs (es.getLast?.map (·.idx)) } (entriesToApply n es)

/-- a snapshot handed over by raft (index `idx`, chain height `height`): `Store` compacts the log, then
`recoverFromSnapshot` is offered the blocks `ledger+1 … height` by the syncer (`ledger` = what the executor has
persisted) and mints exactly those that continue `lastExec` -/
def installSnap (n : Node) (idx height ledger : Nat) : Node :=
  let n1 := (List.range' (ledger + 1) (height - ledger)).foldl (fun (m : Node) h =>
    if h = m.lastExec + 1 then { m with queue := m.queue ++ [h], lastExec := h } else m) n
  { n1 with applied := idx, snapIdx := idx, log := n1.log.filter (fun e => e.idx > idx), hs := storeHs n1.hs (some idx) }

/-- `maybeTriggerSnapshot` (compaction keeps `snapCount` entries before the snapshot in memory; what
a restart re-delivers is governed by the snapshot on disk) -/
def snapshot (n : Node) : Node :=
  if n.applied - n.snapIdx < n.snapCount then n
  else { n with snapIdx := n.applied, log := n.log.filter (fun e => e.idx > n.applied - n.snapCount) }

/-- `reportState h` -/
def report (n : Node) (h : Nat) : Node :=
  match KV.get n.bai h with
  | none => n
  | some i => { n with persisted := i, bai := KV.erase n.bai (h - 1) }

/-- the executor takes one block from `commitC`; the ledger height becomes that block's height -/
def execute (n : Node) : Node × Option Nat :=
  match n.queue with
  | [] => (n, none)
  | h :: rest => ({ n with queue := rest }, some h)

/-- crash + restart with the ledger at `ledger`: volatile state is lost; raft re-delivers the
entries after the snapshot index -/
def restart (n : Node) (ledger : Nat) : Node × List Entry :=
  let n0 : Node := { lastExec := ledger, applied := n.snapIdx, snapIdx := n.snapIdx, snapCount := n.snapCount,
                     bai := [(ledger, n.persisted)], persisted := n.persisted, queue := [], log := n.log, hs := n.hs }
  let re := n.log.filter (fun e => e.idx > n.snapIdx)
  (publish n0 (entriesToApply n0 re), re)

end Bxh.Order
