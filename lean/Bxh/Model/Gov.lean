/-!
# Governance: the voting rule (`internal/repo/repo.go:MakeStrategyDecision`) and the ballot
state machine of a proposal (`internal/executor/contracts/governance.go`: `Vote`, `setVote`,
`countVote`, `endProposal`, `UpdateAvailableElectorateNum`)

Strategy expressions are govaluate expressions over `a` (approvals), `r` (rejections) and `t`
(electorate size when the proposal was created).  The model covers the fragment
`cmp (&& | ||) cmp …` with linear sides and decimal coefficients, evaluated exactly in tenths;
the correspondence run only uses coefficients that are exact in binary floating point too
(integers, .5), so exact and float64 evaluation coincide.
-/
namespace Bxh.Gov

/-- a linear form c + ca·a + cr·r + ct·t, all coefficients in tenths -/
structure Lin where
  c : Int := 0
  ca : Int := 0
  cr : Int := 0
  ct : Int := 0
deriving Repr, DecidableEq

def Lin.eval (l : Lin) (a r t : Nat) : Int := l.c + l.ca * a + l.cr * r + l.ct * t

inductive Op | gt | ge | lt | le | eq | ne
deriving Repr, DecidableEq

def Op.holds (o : Op) (x y : Int) : Bool :=
  match o with
  | .gt => x > y | .ge => x ≥ y | .lt => x < y | .le => x ≤ y | .eq => x == y | .ne => x != y

inductive Expr
  | cmp (l : Lin) (o : Op) (r : Lin)
  | and (x y : Expr)
  | or (x y : Expr)
deriving Repr

def Expr.eval (e : Expr) (a r t : Nat) : Bool :=
  match e with
  | .cmp l o rr => o.holds (l.eval a r t) (rr.eval a r t)
  | .and x y => x.eval a r t && y.eval a r t
  | .or x y => x.eval a r t || y.eval a r t

/-- the default strategy "a > 0.5 * t" -/
def simpleMajority : Expr := .cmp { ca := 10 } .gt { ct := 5 }

inductive Decision | approved | rejected | open
deriving Repr, DecidableEq

/-- `availableNum - reject` on `uint64`: the approvals still possible; it wraps around when more
electors have rejected than are still available (rejecting admins frozen afterwards), which keeps
such a proposal open -/
def maxApprove (available reject : Nat) : Nat :=
  if reject ≤ available then available - reject else 2 ^ 64 - (reject - available)

/-- `MakeStrategyDecision(expr, approve, reject, total, available)`: approved when the expression
holds on the tallies; otherwise still open when it would hold if every available elector who has
not rejected approved (`a := available - reject`, unsigned subtraction as in the Go code);
otherwise rejected -/
def decide (e : Expr) (approve reject total available : Nat) : Decision :=
  if e.eval approve reject total then .approved
  else if e.eval (maxApprove available reject) reject total then .open
  else .rejected

/-- `CheckStrategyExpression`: with no rejection some number of approvals 0..n concludes -/
def admissible (e : Expr) (n : Nat) : Bool := (List.range (n + 1)).any (fun a => e.eval a 0 n)

-- ------------------------------------------------------------------------------------ ballots

inductive PStatus | proposed | approved | rejected | paused
deriving Repr, DecidableEq

inductive Ballot | approve | reject
deriving Repr, DecidableEq

structure Proposal where
  status : PStatus := .proposed
  electorate : List (String × Nat)        -- (admin id, weight) frozen at submission
  ballots : List (String × Ballot) := []  -- voter ↦ ballot, in voting order
  approveNum : Nat := 0
  againstNum : Nat := 0
  initial : Nat                           -- InitialElectorateNum
  available : Nat                         -- AvailableElectorateNum
  expr : Expr
  special : Bool := false
  superVoted : Bool := false
deriving Repr

def superWeight : Nat := 2

inductive VoteErr
  | notAvailableAdmin     -- the role contract does not confirm an available governance admin
  | ended                 -- the proposal is not in status proposed
  | repeatVote
  | noPermission          -- not in the electorate frozen at submission
  | illegalBallot         -- neither "approve" nor "reject"
deriving Repr, DecidableEq

/-- `setVote` (ballot `none` = garbage text) -/
def setVote (p : Proposal) (voter : String) (b : Option Ballot) : Except VoteErr Proposal :=
  if p.status ≠ .proposed then .error .ended
  else match p.electorate.find? (·.1 == voter) with
    | none => .error .noPermission
    | some e =>
      if (p.ballots.find? (·.1 == voter)).isSome then .error .repeatVote
      else match b with
        | none => .error .illegalBallot
        | some bb =>
          .ok { p with
            ballots := p.ballots ++ [(voter, bb)],
            approveNum := if bb = .approve then p.approveNum + 1 else p.approveNum,
            againstNum := if bb = .reject then p.againstNum + 1 else p.againstNum,
            superVoted := p.superVoted || e.2 == superWeight }

/-- `countVote`: a special proposal waits for a super administrator's ballot -/
def countVote (p : Proposal) : Proposal :=
  if p.special && !p.superVoted then p
  else match decide p.expr p.approveNum p.againstNum p.initial p.available with
    | .approved => { p with status := .approved }
    | .rejected => { p with status := .rejected }
    | .open => p

/-- `Vote`: the role check, then `setVote`, then `countVote` -/
def vote (p : Proposal) (voter : String) (isAvailableAdmin : Bool) (b : Option Ballot) : Except VoteErr Proposal :=
  if !isAvailableAdmin then .error .notAvailableAdmin
  else match setVote p voter b with
    | .error e => .error e
    | .ok p' => .ok (countVote p')

/-- `endProposal` (withdrawal, forced end): refused once concluded -/
def endProposal (p : Proposal) : Option Proposal :=
  if p.status = .approved ∨ p.status = .rejected then none else some { p with status := .rejected }

/-- `UpdateAvailableElectorateNum` (electorate changed while the proposal is open) -/
def updateAvailable (p : Proposal) (n : Nat) : Proposal :=
  let p1 := { p with available := n }
  match decide p1.expr p1.approveNum p1.againstNum p1.initial p1.available with
  | .approved => { p1 with status := .approved }
  | .rejected => { p1 with status := .rejected }
  | .open => p1

end Bxh.Gov
