import Bxh.Prelude.KV
/-!
# Model of the state ledger (`internal/ledger`: SimpleLedger, SimpleAccount, AccountCache, journal)

Mirrors `state_accessor.go`, `account.go`, `account_cache.go`, `state_changer.go`,
`block_journal.go`, `simple_ledger.go`.  Keys, values and code are strings (the harness uses
ASCII tokens); `none` is Go's nil slice, `some ""` the empty non-nil slice — `bytes.Equal` does
not distinguish them and neither does `beq` below.  Addresses are small numbers.  The three LRU
caches may drop any entry at any time (explicit `evict` ops).  The state-root hash is a
parameter `H` applied to a structured pre-image.
-/
namespace Bxh.Ledger
open Bxh

abbrev Addr := Nat
abbrev Bytes := Option String          -- nil / bytes

/-- `bytes.Equal`: nil and empty are equal -/
def beq (a b : Bytes) : Bool := a.getD "" == b.getD ""

structure Inner where
  nonce : Nat := 0
  balance : Int := 0
  codeHash : Bytes := none
deriving Repr, DecidableEq, Inhabited

/-- `InnerAccountChanged(origin, dirty)` -/
def innerChanged (o d : Option Inner) : Bool :=
  match d with
  | none => false
  | some d => match o with
    | none => true
    | some o => !(o.nonce == d.nonce && o.balance == d.balance && beq o.codeHash d.codeHash)

structure Acct where
  originAcc : Option Inner := none
  dirtyAcc : Option Inner := none
  originState : KV String Bytes := []
  dirtyState : KV String Bytes := []
  originCode : Bytes := none
  dirtyCode : Bytes := none
deriving Repr, DecidableEq, Inhabited

structure Cache where
  inner : KV Addr Inner := []
  state : KV Addr (KV String Bytes) := []
  code : KV Addr Bytes := []
deriving Repr, DecidableEq, Inhabited

structure JEntry where
  addr : Addr
  prevAcc : Option Inner
  accChanged : Bool
  prevStates : KV String Bytes
  prevCode : Bytes
  codeChanged : Bool
deriving Repr, DecidableEq, Inhabited

structure BlockJournal where
  entries : List JEntry
  root : String
deriving Repr, DecidableEq, Inhabited

structure DB where
  acct : KV Addr Inner := []
  state : KV (Addr × String) String := []
  code : KV Addr String := []
  journals : KV Nat BlockJournal := []
  minH : Nat := 0
  maxH : Nat := 0
deriving Repr, DecidableEq, Inhabited

inductive Change
  | createObject (a : Addr)
  | balance (a : Addr) (prev : Int)
  | nonce (a : Addr) (prev : Nat)
  | storage (a : Addr) (k : String) (prev : Bytes)
  | code (a : Addr) (prev : Bytes) (prevHash : Bytes)
deriving Repr, DecidableEq

def zeroRoot : String := "0x0000000000000000000000000000000000000000000000000000000000000000"

structure L where
  accounts : KV Addr Acct := []
  cache : Cache := {}
  db : DB := {}
  changes : List Change := []              -- oldest first
  revisions : List (Nat × Nat) := []       -- (id, changer length)
  nextRev : Nat := 0
  prevRoot : String := zeroRoot
  minJ : Nat := 0
  maxJ : Nat := 0
  blockJournals : KV String BlockJournal := []
deriving Repr, Inhabited

-- ------------------------------------------------------------------------------------ accounts

def loadCode (l : L) (a : Addr) : Bytes :=
  match KV.get l.cache.code a with
  | some c => c
  | none => (KV.get l.db.code a)

/-- `GetAccount`: object of the block, else from the inner-account cache, else from the DB -/
def getAccount (l : L) (a : Addr) : L × Option Acct :=
  match KV.get l.accounts a with
  | some acc => (l, some acc)
  | none =>
    match KV.get l.cache.inner a with
    | some ia =>
      let acc : Acct :=
        if !beq ia.codeHash none then
          let c := loadCode l a
          { originAcc := some ia, originCode := c, dirtyCode := c }
        else { originAcc := some ia }
      ({ l with accounts := KV.set l.accounts a acc }, some acc)
    | none =>
      match KV.get l.db.acct a with
      | some ia =>
        let acc : Acct :=
          if !beq ia.codeHash none then
            let c : Bytes := KV.get l.db.code a
            { originAcc := some ia, originCode := c, dirtyCode := c }
          else { originAcc := some ia }
        ({ l with accounts := KV.set l.accounts a acc }, some acc)
      | none => (l, none)

/-- `GetOrCreateAccount` -/
def getOrCreate (l : L) (a : Addr) : L × Acct :=
  match getAccount l a with
  | (l', some acc) => (l', acc)
  | (l', none) =>
    let acc : Acct := {}
    ({ l' with accounts := KV.set l'.accounts a acc, changes := l'.changes ++ [.createObject a] }, acc)

def putAcct (l : L) (a : Addr) (acc : Acct) : L := { l with accounts := KV.set l.accounts a acc }

def Acct.nonce (o : Acct) : Nat :=
  match o.dirtyAcc with
  | some d => d.nonce
  | none => match o.originAcc with
    | some x => x.nonce
    | none => 0

def Acct.balance (o : Acct) : Int :=
  match o.dirtyAcc with
  | some d => d.balance
  | none => match o.originAcc with
    | some x => x.balance
    | none => 0

def Acct.codeHash (o : Acct) : Bytes :=
  match o.dirtyAcc with
  | some d => d.codeHash
  | none => match o.originAcc with
    | some x => x.codeHash
    | none => none

def copyOrNew (o : Option Inner) : Inner := o.getD {}

/-- the `bool` of `GetState`: a key exists iff its value is non-empty (on every read path, since the
`fix:` commit "a storage key with an empty value does not exist") -/
def present (v : Bytes) : Bool :=
  match v with
  | some s => s != ""
  | none => false

/-- `SimpleAccount.GetState` (the value; `present` of it is the flag) -/
def getState (l : L) (a : Addr) (k : String) : L × Bytes :=
  let (l1, acc) := getOrCreate l a
  match KV.get acc.dirtyState k with
  | some v => (l1, v)
  | none =>
    match KV.get acc.originState k with
    | some v => (l1, v)
    | none =>
      let v : Bytes :=
        match (KV.get l1.cache.state a).bind (fun m => KV.get m k) with
        | some cv => cv
        | none => KV.get l1.db.state (a, k)
      (putAcct l1 a { acc with originState := KV.set acc.originState k v }, v)

/-- `SetState` (journaled); `v = none` is `Delete` -/
def setState (l : L) (a : Addr) (k : String) (v : Bytes) : L :=
  let (l1, prev) := getState l a k
  let acc := (KV.get l1.accounts a).getD {}
  let l2 := putAcct l1 a { acc with dirtyState := KV.set acc.dirtyState k v }
  { l2 with changes := l2.changes ++ [.storage a k prev] }

/-- `AddState`: loads the committed value and records a change, exactly like `SetState` -/
def addState (l : L) (a : Addr) (k : String) (v : Bytes) : L := setState l a k v

def getBalance (l : L) (a : Addr) : L × Int :=
  let (l1, acc) := getOrCreate l a
  (l1, acc.balance)

def setBalance (l : L) (a : Addr) (v : Int) : L :=
  let (l1, acc) := getOrCreate l a
  let d := (acc.dirtyAcc.getD (copyOrNew acc.originAcc))
  let l2 := putAcct l1 a { acc with dirtyAcc := some { d with balance := v } }
  { l2 with changes := l2.changes ++ [.balance a acc.balance] }

def getNonce (l : L) (a : Addr) : L × Nat :=
  let (l1, acc) := getOrCreate l a
  (l1, acc.nonce)

def setNonce (l : L) (a : Addr) (v : Nat) : L :=
  let (l1, acc) := getOrCreate l a
  let d := (acc.dirtyAcc.getD (copyOrNew acc.originAcc))
  let l2 := putAcct l1 a { acc with dirtyAcc := some { d with nonce := v } }
  { l2 with changes := l2.changes ++ [.nonce a acc.nonce] }

/-- `SimpleAccount.Code` (memoises into originCode / dirtyCode) -/
def codeOf (l : L) (a : Addr) (acc : Acct) : Acct × Bytes :=
  if acc.dirtyCode.isSome then (acc, acc.dirtyCode)
  else if acc.originCode.isSome then (acc, acc.originCode)
  else if beq acc.codeHash none then (acc, none)
  else
    let c := loadCode l a
    ({ acc with originCode := c, dirtyCode := c }, c)

def getCode (l : L) (a : Addr) : L × Bytes :=
  let (l1, acc) := getOrCreate l a
  let (acc', c) := codeOf l1 a acc
  (putAcct l1 a acc', c)

/-- `GetCodeHash`: the zero hash for an empty account (no balance, nonce, code), else the stored hash -/
def getCodeHash (l : L) (a : Addr) : L × Bytes :=
  let (l1, acc) := getOrCreate l a
  let (acc', c) := codeOf l1 a acc
  let l2 := putAcct l1 a acc'
  if acc'.balance = 0 ∧ acc'.nonce = 0 ∧ c.isNone then (l2, none) else (l2, acc'.codeHash)

/-- `SetCodeAndHash`; `hash` is Keccak-256 of the code (computed by the caller) -/
def setCode (K : String → String) (l : L) (a : Addr) (code : String) : L :=
  let (l1, acc0) := getOrCreate l a
  let (acc, prev) := codeOf l1 a acc0
  let d := (acc.dirtyAcc.getD (copyOrNew acc.originAcc))
  let l2 := putAcct l1 a { acc with dirtyAcc := some { d with codeHash := some (K code) }, dirtyCode := some code }
  { l2 with changes := l2.changes ++ [.code a prev acc.codeHash] }

/-- `Query`: the stored values of the keys with the prefix, overridden by the writes of the
current block (a key deleted in the block is dropped); sorted.  The account cache is not
consulted, so between a flush and its commit the result is the committed state. -/
def query (l : L) (a : Addr) (pfx : String) : L × List Bytes :=
  let (l1, acc) := getOrCreate l a
  -- keys with an empty value do not exist (stored empty, or emptied / deleted in this block)
  let dbm : KV String Bytes := ((l1.db.state.filter (fun p => p.1.1 == a && p.1.2.startsWith pfx)).filter (fun p => p.2 != "")).map (fun p => (p.1.2, some p.2))
  -- what earlier blocks flushed but did not commit yet is only in the account cache (since the `fix:` commit
  -- "QueryByPrefix reads the account cache too"); then the writes of the current block
  let cached : KV String Bytes := (KV.get l1.cache.state a).getD []
  let overlay (m : KV String Bytes) (src : KV String Bytes) : KV String Bytes :=
    src.foldl (fun m p =>
      if p.1.startsWith pfx then
        if present p.2 then KV.set m p.1 p.2 else KV.erase m p.1
      else m) m
  let m := overlay (overlay dbm cached) acc.dirtyState
  (l1, (m.map (·.2)).mergeSort (fun x y => x.getD "" ≤ y.getD ""))

-- ------------------------------------------------------------------------------------ snapshots

def snapshot (l : L) : L × Nat :=
  ({ l with revisions := l.revisions ++ [(l.nextRev, l.changes.length)], nextRev := l.nextRev + 1 }, l.nextRev)

/-- `K` is Keccak-256 on code strings (a parameter: the model does not hash) -/
def undo (K : String → String) (l : L) (c : Change) : L :=
  match c with
  | .createObject a =>
    { l with accounts := KV.erase l.accounts a, cache := { l.cache with inner := KV.erase l.cache.inner a } }
  | .balance a prev =>
    let acc := (KV.get l.accounts a).getD {}
    let d := (acc.dirtyAcc.getD (copyOrNew acc.originAcc))
    putAcct l a { acc with dirtyAcc := some { d with balance := prev } }
  | .nonce a prev =>
    let acc := (KV.get l.accounts a).getD {}
    let d := (acc.dirtyAcc.getD (copyOrNew acc.originAcc))
    putAcct l a { acc with dirtyAcc := some { d with nonce := prev } }
  | .storage a k prev =>
    let acc := (KV.get l.accounts a).getD {}
    putAcct l a { acc with dirtyState := KV.set acc.dirtyState k prev }
  | .code a prev prevHash =>
    -- `restoreCodeAndHash(prevcode, prevhash)` (since the `fix:` commit "a reverted SetCode restores the previous code
    -- hash"; before, the hash was recomputed from the previous code, also when that was nil: keccak of the empty code)
    let acc := (KV.get l.accounts a).getD {}
    let d := (acc.dirtyAcc.getD (copyOrNew acc.originAcc))
    putAcct l a { acc with dirtyAcc := some { d with codeHash := prevHash }, dirtyCode := prev }

/-- `RevertToSnapshot`; `none` = panic (unknown revision) -/
def revertTo (K : String → String) (l : L) (id : Nat) : Option L :=
  match l.revisions.find? (fun r => r.1 ≥ id) with
  | some (rid, idx) =>
    if rid ≠ id then none
    else
      let undone := (l.changes.drop idx).reverse
      let l1 := undone.foldl (undo K) { l with changes := l.changes.take idx }
      some { l1 with revisions := l1.revisions.filter (fun r => r.1 < id) }
  | none => none

/-- `Finalise` / `ClearChangerAndRefund` -/
def finalise (l : L) : L := { l with changes := [], revisions := [], nextRev := 0 }

/-- `Clear` -/
def clear (l : L) : L := { l with accounts := [] }

-- ------------------------------------------------------------------------------------ flush

/-- pre-image of one account's contribution to the state root -/
structure AcctPre where
  addr : Addr
  acct : Option Inner                       -- dirty account, if any
  stateData : List (String × Bytes)         -- changed keys (sorted) with their dirty values
deriving Repr, DecidableEq

structure RootPre where
  accts : List AcctPre                      -- sorted by address
  prev : String
deriving Repr, DecidableEq

/-- the bytes an account's state hash is computed from (`getStateJournalAndComputeHash`): the changed
keys in order, each followed by its new value — no length prefix, no separator, nothing for a delete -/
def stateDataText (sd : List (String × Bytes)) : String :=
  sd.foldl (fun x kv => x ++ kv.1 ++ kv.2.getD "") ""

def changedKeys (acc : Acct) : List (String × Bytes) :=
  acc.dirtyState.filter (fun p => !beq ((KV.get acc.originState p.1).getD none) p.2)

def sortKeys (l : List (String × Bytes)) : List (String × Bytes) := l.mergeSort (fun x y => x.1 ≤ y.1)

/-- `getJournalIfModified` (the lazily loaded origin code is returned with the entry) -/
def journalOf (l : L) (a : Addr) (acc : Acct) : Option JEntry × Acct :=
  let accCh := innerChanged acc.originAcc acc.dirtyAcc
  let acc1 :=
    if acc.originCode.isNone && !(acc.originAcc.isNone || beq ((acc.originAcc.bind (·.codeHash))) none) then
      { acc with originCode := KV.get l.db.code a }
    else acc
  let codeCh := !beq acc1.originCode acc1.dirtyCode
  let ck := changedKeys acc1
  let prevStates : KV String Bytes := ck.map (fun p => (p.1, (KV.get acc1.originState p.1).getD none))
  if accCh || codeCh || !ck.isEmpty then
    (some { addr := a, prevAcc := acc1.originAcc, accChanged := accCh, prevStates := prevStates,
            prevCode := acc1.originCode, codeChanged := codeCh }, acc1)
  else (none, acc1)

def sortAccts (l : List AcctPre) : List AcctPre := l.mergeSort (fun x y => x.addr ≤ y.addr)

/-- `AccountCache.add` for one dirty account -/
def cacheAdd (c : Cache) (a : Addr) (acc : Acct) : Cache :=
  let c1 := match acc.dirtyAcc with
    | some d => { c with inner := KV.set c.inner a d }
    | none => c
  let existing := KV.get c1.state a
  let sc := acc.dirtyState.foldl (fun m p => KV.set m p.1 p.2) (existing.getD [])
  let c2 := if existing.isSome || !sc.isEmpty then { c1 with state := KV.set c1.state a sc } else c1
  if !beq acc.originCode acc.dirtyCode then
    match acc.dirtyAcc with
    | some d =>
      match acc.originAcc with
      | some o => if !beq d.codeHash o.codeHash then { c2 with code := KV.set c2.code a acc.dirtyCode } else c2
      | none => { c2 with code := KV.set c2.code a acc.dirtyCode }
    | none => c2
  else c2

structure Flushed where
  accounts : KV Addr Acct        -- the dirty accounts handed to Commit
  root : String
  pre : RootPre

/-- `FlushDirtyData` -/
def flush (H : RootPre → String) (l : L) : L × Flushed :=
  let js := l.accounts.map (fun p => (p.1, journalOf l p.1 p.2))
  let dirty : KV Addr Acct := js.filterMap (fun p => match p.2.1 with | some _ => some (p.1, p.2.2) | none => none)
  let entries : List JEntry := js.filterMap (fun p => p.2.1)
  let pre : RootPre :=
    { accts := sortAccts (dirty.map (fun p => { addr := p.1, acct := p.2.dirtyAcc, stateData := sortKeys (changedKeys p.2) })),
      prev := l.prevRoot }
  let root := H pre
  let bj : BlockJournal := { entries := entries, root := root }
  let cache' := dirty.foldl (fun c p => cacheAdd c p.1 p.2) l.cache
  ({ l with blockJournals := KV.set l.blockJournals root bj, prevRoot := root, accounts := [], cache := cache' },
   { accounts := dirty, root := root, pre := pre })

-- ------------------------------------------------------------------------------------ commit

def commitAcct (db : DB) (a : Addr) (acc : Acct) : DB :=
  let db1 := if innerChanged acc.originAcc acc.dirtyAcc then
      match acc.dirtyAcc with
      | some d => { db with acct := KV.set db.acct a d }
      | none => db
    else db
  let db2 :=
    if !beq acc.originCode acc.dirtyCode then
      match acc.dirtyCode with
      | some c => { db1 with code := KV.set db1.code a c }
      | none =>
        match acc.dirtyAcc with
        | some d =>
          if !beq ((acc.originAcc.bind (·.codeHash))) d.codeHash && beq d.codeHash none then
            { db1 with code := KV.erase db1.code a }
          else db1
        | none => db1
    else db1
  acc.dirtyState.foldl (fun db p =>
    if !beq ((KV.get acc.originState p.1).getD none) p.2 then
      match p.2 with
      | some v => { db with state := KV.set db.state (a, p.1) v }
      | none => { db with state := KV.erase db.state (a, p.1) }
    else db) db2

def journalWindow : Nat := 10

/-- `removeJournalsBeforeBlock` -/
def pruneJournals (l : L) (h : Nat) : L :=
  if h > l.maxJ then l           -- ErrorRemoveJournalOutOfRange (surfaces as a Commit error)
  else if h ≤ l.minJ then l
  else
    { l with db := { l.db with journals := l.db.journals.filter (fun p => !(l.minJ ≤ p.1 && p.1 < h)), minH := h }, minJ := h }

/-- `Commit`; `none` = "cannot get block journal" -/
def commit (l : L) (h : Nat) (f : Flushed) : Option L :=
  match KV.get l.blockJournals f.root with
  | none => none
  | some bj =>
    let db1 := f.accounts.foldl (fun db p => commitAcct db p.1 p.2) l.db
    let db2 := { db1 with journals := KV.set db1.journals h bj, maxH := h }
    let (db3, minJ) := if l.minJ = 0 then ({ db2 with minH := h }, h) else (db2, l.minJ)
    let l1 := { l with db := db3, minJ := minJ, maxJ := h }
    let l2 := if h > journalWindow then pruneJournals l1 (h - journalWindow) else l1
    some { l2 with blockJournals := [] }

/-- number of low-level durable writes `Commit` issues against the state store for height `h`: one batch (accounts,
storage, code, the block journal, `maxHeight`, and `minHeight` for the first journal), plus the pruning batch of
`removeJournalsBeforeBlock` when it has something to prune -/
def commitWrites (l : L) (h : Nat) : Nat :=
  let minJ := if l.minJ = 0 then h else l.minJ
  1 + (if h > journalWindow ∧ ¬ (h - journalWindow ≤ minJ) then 1 else 0)

-- ------------------------------------------------------------------------------------ rollback

inductive RbErr | higher | tooMuch | noJournal
deriving Repr, DecidableEq

def revertEntry (db : DB) (e : JEntry) : DB :=
  let db1 := if e.accChanged then
      match e.prevAcc with
      | some p => { db with acct := KV.set db.acct e.addr p }
      | none => { db with acct := KV.erase db.acct e.addr }
    else db
  let db2 := e.prevStates.foldl (fun db p =>
    match p.2 with
    | some v => { db with state := KV.set db.state (e.addr, p.1) v }
    | none => { db with state := KV.erase db.state (e.addr, p.1) }) db1
  if e.codeChanged then
    match e.prevCode with
    | some c => { db2 with code := KV.set db2.code e.addr c }
    | none => { db2 with code := KV.erase db2.code e.addr }
  else db2

/-- the per-height loop of `RollbackState`, from `cur` down to `t+1`; a missing journal stops it
after the higher heights were already reverted -/
def rollbackLoop (db : DB) (t : Nat) : Nat → Nat → DB × Bool
  | 0, _ => (db, true)
  | fuel+1, cur =>
    if cur ≤ t then (db, true)
    else match KV.get db.journals cur with
      | none => (db, false)
      | some bj =>
        let db1 := bj.entries.foldl revertEntry db
        let db2 := { db1 with journals := KV.erase db1.journals cur, maxH := cur - 1 }
        rollbackLoop db2 t fuel (cur - 1)

/-- `RollbackState` -/
def rollback (l : L) (t : Nat) : Except RbErr L :=
  if l.maxJ < t then .error .higher
  else if l.minJ > t ∧ ¬ (l.minJ = 1 ∧ t = 0) then .error .tooMuch
  else if l.maxJ = t then .ok l
  else
    let l0 := { l with accounts := [], cache := {} }
    let (db', ok) := rollbackLoop l0.db t (l0.maxJ - t) l0.maxJ
    if !ok then .error .noJournal        -- state of the real ledger is then half rolled back; not modelled further
    else
      if t ≠ 0 then
        match KV.get db'.journals t with
        | some bj => .ok { l0 with db := db', prevRoot := bj.root, maxJ := t }
        | none => .error .noJournal      -- nil dereference in the real code
      else .ok { l0 with db := db', prevRoot := zeroRoot, minJ := 0, maxJ := 0 }

/-- `NewSimpleLedger` on the same database; `none` = "get empty block journal" -/
def reopen (l : L) : Option L :=
  let db := l.db
  if db.maxH ≠ 0 then
    match KV.get db.journals db.maxH with
    | some bj => some { db := db, minJ := db.minH, maxJ := db.maxH, prevRoot := bj.root }
    | none => none
  else some { db := db, minJ := db.minH, maxJ := 0 }

end Bxh.Ledger
