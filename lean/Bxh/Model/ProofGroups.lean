/-!
# Model of the proof-verification fan-out (`internal/executor/executor.go`, `verifyProofs`, proof type "parallel")

The transactions of a block are cut into `min c n` groups (`c` = 5 for proof type "parallel", 1 for "serial") of `n / g` consecutive transactions, the last group also taking the
remainder; one goroutine per group checks its transactions and records, under the transaction's index IN THE BLOCK
(`i*groupLen + j`), the reason of every rejected one.  `check` is `VerifyPool.CheckProof` folded with `proofInvalidReason`:
`none` = accepted.  The order in which the groups finish does not matter: they write disjoint keys of one map.
-/
namespace Bxh.ProofGroups

/-- `groupNum`: `c` is `configGroup` — `maxGroup` (5) for proof type "parallel", 1 for "serial" -/
def groupNum (c n : Nat) : Nat := if n < c then n else c

/-- the half-open range of block positions group `i` of `g` checks -/
def groupRange (n g i : Nat) : Nat × Nat :=
  if i = g - 1 then (i * (n / g), n) else (i * (n / g), (i + 1) * (n / g))

/-- what the goroutine of one group records -/
def groupInvalid {α : Type} (check : α → Option String) (txs : List α) (lo hi : Nat) : List (Nat × String) :=
  (((txs.take hi).drop lo).zipIdx lo).filterMap (fun p => (check p.1).map (fun r => (p.2, r)))

/-- `verifyProofs`: the entries written to `blockWrapper.invalidTx` -/
def verifyProofs {α : Type} (c : Nat) (check : α → Option String) (txs : List α) : List (Nat × String) :=
  if txs.length = 0 then []
  else (List.range (groupNum c txs.length)).flatMap
    (fun i => groupInvalid check txs (groupRange txs.length (groupNum c txs.length) i).1 (groupRange txs.length (groupNum c txs.length) i).2)

end Bxh.ProofGroups
