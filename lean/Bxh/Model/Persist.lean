/-!
# Abstract model of crash recovery of one block commit (C11)

The durable effect of committing block `h` (on top of a consistent ledger at `h-1`) is: the
state batch `S` (state + journal of `h`), the chain-index batch `C`, and the blockfile append of
five tables, of which a crash may leave any prefix `b ≤ 5` (`NewBlockFile` repairs by truncating
to the shortest table, so only `b = 5` survives).  `ledger.New` then reads the chain height from
the index, the state height from the journal range, and calls `Rollback(chain height)`.
(The journal-pruning batch does not influence recovery and is left out here; the concrete model
`Bxh.Chain.crashed` carries it.)
-/
namespace Bxh.Persist

structure Mask where
  s : Bool
  c : Bool
  b : Nat
deriving Repr, DecidableEq

inductive Outcome
  | openError                         -- ledger.New fails ("rollback to higher blockchain height")
  | opened (chain state bf : Nat)     -- heights of chain index, state ledger, blockfile after reopening
deriving Repr, DecidableEq

/-- what reopening finds after a crash that left the writes `m` of the commit of block `h` (`h ≥ 1`) -/
def recover (h : Nat) (m : Mask) : Outcome :=
  let chain := if m.c then h else h - 1
  let state := if m.s then h else h - 1
  let bf := if m.b ≥ 5 then h else h - 1
  if state < chain then .openError
  else .opened chain chain bf        -- RollbackState(chain) brings the state down to the chain height

/-- the recovered ledger is usable: it opened, at height `h-1` or `h`, the three stores agree
(so the head block is readable and the next append is in order) -/
def recoverOK (h : Nat) (o : Outcome) : Prop :=
  match o with
  | .openError => False
  | .opened c s b => (c = h - 1 ∨ c = h) ∧ s = c ∧ b = c

instance (h : Nat) (o : Outcome) : Decidable (recoverOK h o) := by
  unfold recoverOK; cases o <;> infer_instance

/-- the masks from which recovery works -/
def Good (m : Mask) : Prop := (m.c = true ∧ m.s = true ∧ m.b ≥ 5) ∨ (m.c = false ∧ m.b < 5)

end Bxh.Persist
