import Bxh.Gen.Methods
/-!
# Dispatch of a contract call and the permission gate

`isContractMethod` models the function of the same name in `pkg/vm/boltvm/boltvm.go` (added by the
`fix:` commit "only dispatch a contract's own Response-returning methods"): reflection finds every
exported method of the contract's pointer type; it is dispatched only when it returns exactly one
`*boltvm.Response` and does not have the name and signature of a method of the `Stub` interface.

`checkPermission` models `internal/executor/contracts/common.go:checkPermission` (the per-contract
variants differ only in how "self" is computed): the role contract's answer and the decoded list
of specific addresses are parameters.
-/
namespace Bxh.Dispatch
open Bxh.Gen

def responseOut : List String := ["*boltvm.Response"]

def isContractMethod (stub : List (String × List String × List String)) (m : MInfo) : Bool :=
  m.outs == responseOut && !(stub.any (fun s => s.1 == m.name && s.2.1 == m.ins && s.2.2 == m.outs))

/-- `InvokeBVM`: the method the dispatcher will call for `(contract type, name)`, if any -/
def resolve (tbl : List MInfo) (stub : List (String × List String × List String)) (c name : String) : Option MInfo :=
  (tbl.find? (fun m => m.contract == c && m.name == name)).filter (isContractMethod stub)

inductive Perm | self | admin | specific | unknown
deriving Repr, DecidableEq

def Perm.ofString (s : String) : Perm :=
  if s == "PermissionSelf" then .self else if s == "PermissionAdmin" then .admin
  else if s == "PermissionSpecific" then .specific else .unknown

inductive Verdict | allowed | denied | error
deriving Repr, DecidableEq

/-- `checkPermission`: permissions are tried in order; an unsupported permission or an undecodable
address list is an error (also a refusal); `none` for `specific` = the JSON does not decode. -/
def checkPermission (perms : List Perm) (regulated regulator : String) (isAdmin : Option Bool)
    (specific : Option (List String)) : Verdict :=
  match perms with
  | [] => .denied
  | p :: rest =>
    match p with
    | .self => if regulated == regulator then .allowed else checkPermission rest regulated regulator isAdmin specific
    | .admin => match isAdmin with
      | none => .error
      | some true => .allowed
      | some false => checkPermission rest regulated regulator isAdmin specific
    | .specific => match specific with
      | none => .error
      | some l => if l.contains regulator then .allowed else checkPermission rest regulated regulator isAdmin specific
    | .unknown => .error

end Bxh.Dispatch
