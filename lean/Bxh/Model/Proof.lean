/-!
# Multi-signature threshold of a relayed IBTP (`pkg/proof/proof_pool.go:verifyMultiSign`)

`validators` is the relay chain's trust root (the address list as written, duplicates included);
each signature is represented by the address it recovers to (`none`: recovery fails).  A signature
over a different digest recovers to some other address, i.e. is just another `some a` with `a`
not registered (up to hash collisions).
-/
namespace Bxh.Proof

inductive MS | ok | fail (counter : Nat)
deriving Repr, DecidableEq

/-- the loop: `m` = validators not yet counted (Go: the map entries not yet deleted) -/
def loop (th : Nat) : List String → Nat → List (Option String) → MS
  | _, c, [] => .fail c
  | m, c, none :: rest => loop th m c rest
  | m, c, some a :: rest =>
    if m.contains a then
      if c + 1 > th then .ok else loop th (m.filter (· ≠ a)) (c + 1) rest
    else loop th m c rest

def threshold (validators : List String) : Nat := (validators.length - 1) / 3

def multiSign (validators : List String) (sigs : List (Option String)) : MS :=
  loop (threshold validators) validators 0 sigs

/-- number of signatures that count: by a registered validator that has not signed before -/
def cnt : List String → List (Option String) → Nat
  | _, [] => 0
  | m, none :: r => cnt m r
  | m, some a :: r => if m.contains a then 1 + cnt (m.filter (· ≠ a)) r else cnt m r

end Bxh.Proof
