import Bxh.Gen.Lifecycle
import Bxh.Model.Exec
/-!
# Governance life cycles of appchains, services, rules, roles and nodes

`step` is the looplab FSM step over a regenerated table (same semantics as `Bxh.Exec.fsmLookup`:
keyed by (event, source), a later entry overwrites an earlier one, no entry = error, a transition
to the same state = error).  A destination written `string(lastStatus)` in the source is `"<last>"`
in the table and resolves to the status the object had before the pending operation.
-/
namespace Bxh.Lifecycle
open Bxh Bxh.Exec

def step (tbl : List (String × List String × String)) (st ev last : String) : Option String :=
  match fsmLookup tbl ev st with
  | some d =>
    let d' := if d == "<last>" then last else d
    if d' == st then none else some d'
  | none => none

def tableOf (obj : String) : List (String × List String × String) :=
  ((Gen.lifecycles.find? (·.1 == obj)).map (·.2)).getD []

def isAvailable (obj st : String) : Bool :=
  match Gen.availableStatus.find? (·.1 == obj) with
  | some p => p.2.contains st
  | none => false

end Bxh.Lifecycle
