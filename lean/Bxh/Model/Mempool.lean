import Bxh.Prelude.KV
/-!
# Model of the transaction pool (`pkg/order/mempool`: mempool_impl.go, tx_store.go, btree_index.go)

Single-threaded, as the order node drives it.  The btree indices are lists kept as sets and
iterated in the order of their `Less` functions; the five goroutines of commit / eviction touch
disjoint structures and are modelled sequentially.  Arrival times are logical group numbers.
-/
namespace Bxh.Mempool
open Bxh

structure TxR where
  acct : String
  nonce : Nat
  hash : String
  ts : Int
deriving DecidableEq, Repr, Inhabited

abbrev Ptr := String × Nat

structure Pool where
  batchSize : Nat := 500
  poolSize : Nat := 50000
  timed : Bool := false
  seqNo : Nat := 0
  ledger : KV String Nat := []            -- GetAccountNonce
  items : KV Ptr TxR := []                -- allTxs[a].items[n]
  nidx : List Ptr := []                   -- per-account nonce indices (a set)
  hashMap : KV String Ptr := []
  commitN : KV String Nat := []
  pendingN : KV String Nat := []
  priority : List (Int × String × Nat) := []   -- a set
  parking : List Ptr := []
  batched : List Ptr := []
  arrival : KV Ptr Nat := []              -- removeTimeoutIndex.items (logical group)
  nonBatch : Nat := 0
deriving Repr, Inhabited

def setIns {α : Type} [DecidableEq α] (l : List α) (x : α) : List α := if x ∈ l then l else l ++ [x]
def setDel {α : Type} [DecidableEq α] (l : List α) (x : α) : List α := l.filter (· ≠ x)

/-- `getCommitNonce` (caches the ledger's value) -/
def getCommit (p : Pool) (a : String) : Pool × Nat :=
  match KV.get p.commitN a with
  | some n => (p, n)
  | none =>
    let n := KV.getD p.ledger a 0
    ({ p with commitN := KV.set p.commitN a n }, n)

/-- `getPendingNonce` -/
def getPending (p : Pool) (a : String) : Pool × Nat :=
  match KV.get p.pendingN a with
  | some n => (p, n)
  | none => getCommit p a

def ltKey (x y : Int × String × Nat) : Bool :=
  if x.1 ≠ y.1 then x.1 < y.1 else if x.2.1 ≠ y.2.1 then x.2.1 < y.2.1 else x.2.2 < y.2.2

def sortPrio (l : List (Int × String × Nat)) : List (Int × String × Nat) := l.mergeSort (fun x y => ltKey x y || x == y)

/-- nonces of an account in its index, ascending -/
def noncesOf (p : Pool) (a : String) : List Nat :=
  ((p.nidx.filter (·.1 == a)).map (·.2)).mergeSort (· ≤ ·)

/-- `filterReady`: (ready nonces, non-ready nonces, next demanded nonce) -/
def filterReady (p : Pool) (a : String) (demand : Nat) : List Nat × List Nat × Nat :=
  ((noncesOf p a).filter (· ≥ demand)).foldl (fun (acc : List Nat × List Nat × Nat) n =>
    if n == acc.2.2 then (acc.1 ++ [n], acc.2.1, acc.2.2 + 1) else (acc.1, acc.2.1 ++ [n], acc.2.2)) ([], [], demand)

/-- `processDirtyAccount` for one account -/
def processDirty (p : Pool) (a : String) : Pool :=
  let (p1, pend) := getPending p a
  let (ready, nonReady, next) := filterReady p1 a pend
  let prio := ready.foldl (fun pr n =>
    match KV.get p1.items (a, n) with
    | some tx => setIns pr (tx.ts, a, n)
    | none => pr) p1.priority
  { p1 with priority := prio, nonBatch := p1.nonBatch + ready.length,
            parking := nonReady.foldl (fun pk n => setIns pk (a, n)) p1.parking,
            pendingN := KV.set p1.pendingN a next }

structure Batch where
  txs : List (Option TxR)
  height : Nat
deriving Repr

/-- one step of the `Ascend` callback of `generateBlock`; `stop` ends the iteration -/
structure GenAcc where
  pool : Pool
  result : List Ptr := []
  skipped : List Ptr := []
  stop : Bool := false

/-- append one pointer to the batch being built; reaching `limit` stops the iteration -/
def addPtr (limit : Nat) (acc : GenAcc) (ptr : Ptr) : GenAcc :=
  { acc with pool := { acc.pool with batched := setIns acc.pool.batched ptr },
             result := acc.result ++ [ptr],
             stop := (acc.result ++ [ptr]).length == limit }

def drainSkipped (limit : Nat) : Nat → GenAcc → Ptr → GenAcc
  | 0, acc, _ => acc
  | fuel+1, acc, ptr =>
    if ptr ∈ acc.skipped then
      let acc1 := addPtr limit acc ptr
      if acc1.stop then acc1 else drainSkipped limit fuel acc1 (ptr.1, ptr.2 + 1)
    else acc

def eligible (p : Pool) (a : String) (n cn : Nat) : Bool :=
  (n ≥ 1 && decide ((a, n - 1) ∈ p.batched)) || n == cn

def genStep (limit : Nat) (acc : GenAcc) (k : Int × String × Nat) : GenAcc :=
  if acc.stop then acc
  else if (k.2.1, k.2.2) ∈ acc.pool.batched then acc
  else
    let r := getCommit acc.pool k.2.1
    if eligible r.1 k.2.1 k.2.2 r.2 then
      let acc1 := addPtr limit { acc with pool := r.1 } (k.2.1, k.2.2)
      if acc1.stop then acc1 else drainSkipped limit (acc1.skipped.length + 1) acc1 (k.2.1, k.2.2 + 1)
    else { acc with pool := r.1, skipped := setIns acc.skipped (k.2.1, k.2.2) }

/-- `generateBlock`; `none` = the "batch with 0 txs" error -/
def generateBlock (p : Pool) : Pool × Option Batch :=
  let limit := if p.nonBatch > p.batchSize then p.batchSize else p.nonBatch
  let acc := (sortPrio p.priority).foldl (genStep limit) { pool := p }
  let p1 := acc.pool
  if !p1.timed && acc.result.isEmpty && p1.nonBatch > 0 then ({ p1 with nonBatch := 0 }, none)
  else
    let txs := acc.result.map (fun ptr => KV.get p1.items ptr)
    let seq := p1.seqNo + 1
    let nb := if p1.nonBatch ≥ txs.length then p1.nonBatch - txs.length else p1.nonBatch
    ({ p1 with seqNo := seq, nonBatch := nb }, some { txs := txs, height := seq })

/-- `GenerateBlock` -/
def generate (p : Pool) : Pool × Option Batch :=
  if !p.timed && p.nonBatch == 0 then (p, none) else generateBlock p

/-- the admission loop of `ProcessTransactions` -/
def admission (p : Pool) (txs : List TxR) : Pool × List TxR :=
  let r := txs.foldl (fun (acc : Pool × List TxR × List Ptr) tx =>
    let (p1, cur) := getPending acc.1 tx.acct
    if tx.nonce < cur then (p1, acc.2.1, acc.2.2)
    else if (tx.acct, tx.nonce) ∈ acc.2.2 then (p1, acc.2.1, acc.2.2)
    else
      let seen := acc.2.2 ++ [(tx.acct, tx.nonce)]
      if (KV.get p1.hashMap tx.hash).isSome then (p1, acc.2.1, seen)
      else (p1, acc.2.1 ++ [tx], seen)) (p, [], [])
  (r.1, r.2.1)

/-- `insertTxs` (a superseded transaction's hash is forgotten) -/
def insertTxs (p : Pool) (valid : List TxR) (group : Nat) : Pool :=
  valid.foldl (fun p tx =>
    let ptr : Ptr := (tx.acct, tx.nonce)
    let hm := match KV.get p.items ptr with
      | some old => if old.hash ≠ tx.hash then KV.erase p.hashMap old.hash else p.hashMap
      | none => p.hashMap
    { p with hashMap := KV.set hm tx.hash ptr, items := KV.set p.items ptr tx,
             nidx := setIns p.nidx ptr, arrival := KV.set p.arrival ptr group }) p

def dedup (l : List String) : List String := l.foldl (fun acc x => if x ∈ acc then acc else acc ++ [x]) []

/-- `ProcessTransactions` -/
def process (p : Pool) (txs : List TxR) (isLeader : Bool) (group : Nat) : Pool × Option Batch :=
  let (p1, valid) := admission p txs
  let p2 := insertTxs p1 valid group
  let p3 := (dedup (valid.map (·.acct))).foldl processDirty p2
  if isLeader && p3.nonBatch ≥ p3.batchSize && !p3.timed then generateBlock p3 else (p3, none)

/-- removal of a set of transactions from the indices (commit path: per account) -/
def dropTxs (p : Pool) (txs : List TxR) : Pool :=
  txs.foldl (fun p tx =>
    let ptr : Ptr := (tx.acct, tx.nonce)
    { p with nidx := setDel p.nidx ptr, priority := setDel p.priority (tx.ts, tx.acct, tx.nonce),
             arrival := KV.erase p.arrival ptr, parking := setDel p.parking ptr }) p

/-- `processCommitTransactions` -/
def commit (p : Pool) (hashes : List String) : Pool :=
  let r := hashes.foldl (fun (acc : Pool × KV String Nat × List String) h =>
    match KV.get acc.1.hashMap h with
    | none => acc
    | some ptr =>
      let (p1, pre) := getCommit acc.1 ptr.1
      let nw := ptr.2 + 1
      let upd := if KV.getD acc.2.1 ptr.1 0 < nw && pre < nw then KV.set acc.2.1 ptr.1 nw else acc.2.1
      ({ p1 with hashMap := KV.erase p1.hashMap h, batched := setDel p1.batched ptr }, upd,
       if ptr.1 ∈ acc.2.2 then acc.2.2 else acc.2.2 ++ [ptr.1])) (p, [], [])
  let p1 := { r.1 with commitN := r.2.1.foldl (fun m kv => KV.set m kv.1 kv.2) r.1.commitN }
  let p2 := r.2.2.foldl (fun p a =>
    let (p', cn) := getCommit p a
    -- forward(commitNonce): items below the commit nonce that are in the nonce index
    let gone := ((noncesOf p' a).filter (· < cn)).filterMap (fun n => KV.get p'.items (a, n))
    let p'' := { p' with items := gone.foldl (fun m tx => KV.erase m (tx.acct, tx.nonce)) p'.items }
    dropTxs p'' gone) p1
  if p2.nonBatch > p2.priority.length then { p2 with nonBatch := p2.priority.length } else p2

/-- `RemoveAliveTimeoutTxs` with the age rule expressed as "arrived in a group ≤ cut": a
transaction is removed only if it is old, not batched, not ready (not in the priority index) and
parked -/
def evict (p : Pool) (cut : Nat) : Pool × Nat :=
  let old := (p.arrival.filter (fun e => e.2 ≤ cut)).map (·.1)
  let victims : List TxR := old.filterMap (fun ptr =>
    match KV.get p.items ptr with
    | none => none
    | some tx =>
      if ptr ∈ p.batched then none
      else if (tx.ts, tx.acct, tx.nonce) ∈ p.priority then none
      else if ptr ∈ p.parking then some tx
      else none)
  let p1 := { p with hashMap := victims.foldl (fun m tx => KV.erase m tx.hash) p.hashMap }
  let p3 := victims.foldl (fun p tx =>
    let ptr : Ptr := (tx.acct, tx.nonce)
    { p with nidx := setDel p.nidx ptr, items := KV.erase p.items ptr,
             priority := setDel p.priority (tx.ts, tx.acct, tx.nonce), parking := setDel p.parking ptr,
             arrival := KV.erase p.arrival ptr }) p1
  (p3, victims.length)

/-- `GetTransaction` -/
def getTx (p : Pool) (h : String) : Option TxR :=
  match KV.get p.hashMap h with
  | none => none
  | some ptr => KV.get p.items ptr

def hasPending (p : Pool) : Bool := p.nonBatch > 0
def isFull (p : Pool) : Bool := p.hashMap.length ≥ p.poolSize

/-! ### `TxCache` (tx_cache.go): incoming transactions are gathered into sets before they reach the pool -/

/-- `appendTx` / `postTxSet` over a sequence of arrivals (`none` = a nil transaction, which is dropped with an error log):
a set is posted as soon as it holds `size` transactions; what is left when the arrivals stop is posted by the tick.
Returns the posted sets, oldest first. -/
def txCacheRun {α : Type} (size : Nat) (arrivals : List (Option α)) : List (List α) :=
  let r := arrivals.foldl (fun (acc : List (List α) × List α) a =>
    match a with
    | none => acc
    | some tx =>
      let cur := acc.2 ++ [tx]
      if cur.length ≥ size then (acc.1 ++ [cur], []) else (acc.1, cur)) ([], [])
  if r.2.isEmpty then r.1 else r.1 ++ [r.2]

end Bxh.Mempool
