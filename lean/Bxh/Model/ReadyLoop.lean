/-!
# Model of the raft node's handling of one `Ready` (`pkg/order/etcdraft/node.go`, `listenRaftMsg`)

etcd/raft hands the application a `Ready`: entries and a hard state (term, vote) to make durable, messages to send — among them the
acknowledgements of those very entries (`MsgAppResp`) and granted votes (`MsgVoteResp`) — and committed entries to apply.  The
application performs a fixed sequence of calls; a crash may fall between any two of them.  What the other replicas may rely on is what
was sent; what this replica still knows after the crash is what was made durable.  The sequence of calls is not written here: it is
extracted from the source (`Bxh.Gen.readyHandler`) and classified by `classify`.
-/
namespace Bxh.ReadyLoop

structure Ready where
  entries : List Nat := []        -- log indices this Ready asks to persist
  vote : Option Nat := none       -- the term of the vote this Ready asks to persist (hard state)
  acks : List Nat := []           -- log indices acknowledged by the messages of this Ready
  grants : List Nat := []         -- terms in which the messages of this Ready grant a vote
deriving Repr, DecidableEq

structure Rep where
  durable : List Nat := []        -- log indices in the WAL / log storage
  votes : List Nat := []          -- terms whose vote is durable
  sentAcks : List Nat := []       -- acknowledgements handed to the transport
  sentGrants : List Nat := []     -- vote grants handed to the transport
deriving Repr, DecidableEq

inductive Step | store | send | other
deriving Repr, DecidableEq

/-- which of the extracted calls persist and which send -/
def classify (call : String) : Step :=
  if call == "n.raftStorage.Store" then .store
  else if call == "n.send" then .send
  else .other

def exec (rd : Ready) (r : Rep) : Step → Rep
  | .store => { r with durable := r.durable ++ rd.entries, votes := r.votes ++ rd.vote.toList }
  | .send => { r with sentAcks := r.sentAcks ++ rd.acks, sentGrants := r.sentGrants ++ rd.grants }
  | .other => r

def run (rd : Ready) (steps : List Step) (r : Rep) : Rep := steps.foldl (exec rd) r

/-- the replica as a crash after the first `k` calls leaves it (durable part) and as the others have seen it (sent part) -/
def crashAfter (rd : Ready) (calls : List String) (r : Rep) (k : Nat) : Rep := run rd ((calls.take k).map classify) r

/-- every `send` comes after a `store` -/
def okB (seen : Bool) : List Step → Bool
  | [] => true
  | .store :: t => okB true t
  | .send :: t => seen && okB seen t
  | .other :: t => okB seen t

end Bxh.ReadyLoop
