import Bxh.Props.C13
import Bxh.Proofs.LedgerRevert
import Bxh.Proofs.LedgerFlush
import Bxh.Proofs.LedgerQuery
/-!
# C13 — snapshots: "Reverting to a snapshot restores every journaled value to what it was at snapshot time, and nested snapshots
revert independently" — and, with `getState_peek` / `peekState_setState`, the read-your-write clause for EVERY key and account
(not only the written one) over any sequence of storage writes.

The statements are about `Bxh.Ledger` (the model of SimpleLedger / SimpleAccount / the state changer), for every ledger state:
whatever is in the block's account objects, their dirty and origin memos, the account cache and the database.
-/
namespace Bxh.Props.C13
open Bxh Bxh.Ledger

/-- **a write changes what one key reads and nothing else**: after `SetState a k v` a read of `(b, k')` returns `v` if it is the
written key and what it returned before otherwise — through the dirty set, the origin memo, the account cache and the database,
for accounts that are objects of the block, loadable or unknown -/
theorem C13_write_changes_exactly_one_key (l : L) (a : Addr) (k : String) (v : Bytes) (b : Addr) (k' : String) :
    (getState (setState l a k v) b k').2 = if b = a ∧ k' = k then v else (getState l b k').2 := by
  rw [getState_peek, getState_peek]; exact peekState_setState l a k v b k'

/-- the latest write wins, over any sequence of writes: a read after `ws` returns the value of the last write to that key in `ws`,
or what it returned before `ws` if there is none -/
theorem C13_read_after_writes (ws : List SWrite) (l : L) (b : Addr) (k' : String) :
    (getState (writes ws l) b k').2 =
      match ws.reverse.find? (fun w => decide (w.addr = b ∧ w.key = k')) with
      | some w => w.val
      | none => (getState l b k').2 := by
  induction ws generalizing l with
  | nil => rfl
  | cons w rest ih =>
    show (getState (writes rest (setState l w.addr w.key w.val)) b k').2 = _
    rw [ih, List.reverse_cons, List.find?_append]
    cases hf : rest.reverse.find? (fun w => decide (w.addr = b ∧ w.key = k')) with
    | some w' => rfl
    | none =>
      simp only [Option.none_or, List.find?_cons, List.find?_nil]
      rw [C13_write_changes_exactly_one_key]
      by_cases h : b = w.addr ∧ k' = w.key
      · have h' : decide (w.addr = b ∧ w.key = k') = true := by simp [h.1, h.2]
        rw [if_pos h, h']
      · have h' : decide (w.addr = b ∧ w.key = k') = false := by
          simp only [decide_eq_false_iff_not]
          intro e; exact h ⟨e.1.symm, e.2.symm⟩
        rw [if_neg h, h']

/-- **`FlushDirtyData` keeps every read** (up to nil / empty, which `bytes.Equal` does not tell apart): on a ledger whose account
objects are coherent (`ObjCoh`: memoised committed values are what the layers below hold, a key is written only after its committed
value was memoised, no duplicates) every key of every account — written by the block or not, of a modified account or not — reads
after the flush, from the account cache and the database, what it read before it from the block's objects -/
theorem C13_flush_keeps_every_read (H : RootPre → String) (l : L) (hC : ObjCoh l) (a : Addr) (k : String) :
    ((getState (flush H l).1 a k).2).getD "" = ((getState l a k).2).getD "" := by
  rw [getState_peek, getState_peek]; exact flush_keeps_reads H l hC a k

/-- **a block's writes survive the flush**: start a block on a ledger without account objects (after the previous flush, after a
reopen), make any sequence of storage writes and deletes, flush: every key of every account reads the value of the block's last
write to it, or what it read before the block if the block did not write it -/
theorem C13_block_writes_survive_flush (H : RootPre → String) (l : L) (hno : l.accounts = []) (ws : List SWrite) (a : Addr) (k : String) :
    ((getState (flush H (writes ws l)).1 a k).2).getD "" =
      (match ws.reverse.find? (fun (w : SWrite) => decide (w.addr = a ∧ w.key = k)) with
       | some w => w.val
       | none => (getState l a k).2).getD "" := by
  rw [C13_flush_keeps_every_read H _ ((ObjCoh.of_no_objects l hno).writes ws), C13_read_after_writes]

/-- the changer's invariant on revision ids (ids are handed out from `nextRev`) -/
def RevsOk (s : L) : Prop := ∀ r ∈ s.revisions, r.1 < s.nextRev

/-- **reverting to a snapshot restores every journaled value to what it was at snapshot time**: take a snapshot of any ledger `s`, make
any sequence of journaled writes — storage writes and deletes, balance and nonce updates; any accounts: objects of the block, loadable
from cache or database, or created by the write; any keys, any values — and revert: the revert succeeds, every storage key of every
account reads what it read at `s`, and so do every account's balance and nonce; the journal and the revision stack are what they were -/
theorem C13_revert_restores_every_journaled_value (K : String → String) (s : L) (hrev : RevsOk s) (ws : List Write) :
    ∃ l3, revertTo K (applyWrites ws (snapshot s).1) (snapshot s).2 = some l3 ∧
      (∀ a k, (getState l3 a k).2 = (getState s a k).2) ∧
      (∀ a, (getBalance l3 a).2 = (getBalance s a).2 ∧ (getNonce l3 a).2 = (getNonce s a).2) ∧
      l3.changes = s.changes ∧ l3.revisions = s.revisions := by
  obtain ⟨cs, hcs, g⟩ := undo_applyWrites K ws (snapshot s).1
  have hsnap : RevRel (snapshot s).1 s := ⟨rfl, rfl, fun _ _ => rfl, fun _ => rfl, fun _ h => h⟩
  obtain ⟨l3, h1, h2, h3, _, h5⟩ := revertTo_eq K s (applyWrites ws (snapshot s).1) cs hrev
    (by rw [(applyWrites_revs ws _).1]; rfl) hcs
  have hR : RevRel l3 s := h5 _ (RevRel.refl _) s (fun u hu => (g u hu).trans hsnap)
  refine ⟨l3, h1, ?_, ?_, h2, h3⟩
  · intro a k
    rw [getState_peek, getState_peek]; exact hR.peek a k
  · intro a
    rw [getBalance_peek, getBalance_peek, getNonce_peek, getNonce_peek, hR.inner a]
    exact ⟨rfl, rfl⟩

/-- **nested snapshots revert independently**: snapshot 1 at `s`, writes `ws1`, snapshot 2, writes `ws2`, revert to snapshot 2 — every
key, balance and nonce reads what it read when snapshot 2 was taken; then writes `ws3` and a revert to snapshot 1 — everything reads
what it read at `s` -/
theorem C13_nested_snapshots_revert_independently (K : String → String) (s : L) (hrev : RevsOk s) (ws1 ws2 ws3 : List Write) :
    let t := applyWrites ws1 (snapshot s).1
    ∃ l3, revertTo K (applyWrites ws2 (snapshot t).1) (snapshot t).2 = some l3 ∧
      (∀ a k, (getState l3 a k).2 = (getState t a k).2) ∧
      (∀ a, (getBalance l3 a).2 = (getBalance t a).2 ∧ (getNonce l3 a).2 = (getNonce t a).2) ∧
      ∃ l5, revertTo K (applyWrites ws3 l3) (snapshot s).2 = some l5 ∧ (∀ a k, (getState l5 a k).2 = (getState s a k).2) ∧
        ∀ a, (getBalance l5 a).2 = (getBalance s a).2 ∧ (getNonce l5 a).2 = (getNonce s a).2 := by
  intro t
  obtain ⟨cs1, hcs1, g1⟩ := undo_applyWrites K ws1 (snapshot s).1
  have hsnap : RevRel (snapshot s).1 s := ⟨rfl, rfl, fun _ _ => rfl, fun _ => rfl, fun _ h => h⟩
  have htrevs : t.revisions = s.revisions ++ [(s.nextRev, s.changes.length)] := (applyWrites_revs ws1 _).1
  have htnext : t.nextRev = s.nextRev + 1 := (applyWrites_revs ws1 _).2
  have hrevt : RevsOk t := by
    intro r hr
    rw [htrevs] at hr
    rw [htnext]
    rcases List.mem_append.mp hr with h | h
    · have := hrev r h; omega
    · simp at h; rw [h]; simp
  have reads : ∀ {x y : L}, RevRel x y → (∀ a k, (getState x a k).2 = (getState y a k).2) ∧
      ∀ a, (getBalance x a).2 = (getBalance y a).2 ∧ (getNonce x a).2 = (getNonce y a).2 := by
    intro x y hR
    refine ⟨fun a k => by rw [getState_peek, getState_peek]; exact hR.peek a k, fun a => ?_⟩
    rw [getBalance_peek, getBalance_peek, getNonce_peek, getNonce_peek, hR.inner a]
    exact ⟨rfl, rfl⟩
  -- the inner revert
  obtain ⟨cs2, hcs2, g2⟩ := undo_applyWrites K ws2 (snapshot t).1
  have hsnapt : RevRel (snapshot t).1 t := ⟨rfl, rfl, fun _ _ => rfl, fun _ => rfl, fun _ h => h⟩
  obtain ⟨l3, i1, i2, i3, i4, i5⟩ := revertTo_eq K t (applyWrites ws2 (snapshot t).1) cs2 hrevt
    (by rw [(applyWrites_revs ws2 _).1]; rfl) hcs2
  have hR3 : RevRel l3 t := i5 _ (RevRel.refl _) t (fun u hu => (g2 u hu).trans hsnapt)
  refine ⟨l3, i1, (reads hR3).1, (reads hR3).2, ?_⟩
  -- the outer revert
  obtain ⟨cs3, hcs3, g3⟩ := undo_applyWrites K ws3 l3
  have hchg : (applyWrites ws3 l3).changes = s.changes ++ (cs1 ++ cs3) := by
    rw [hcs3, i2, hcs1]; simp [snapshot]
  obtain ⟨l5, o1, _, _, _, o5⟩ := revertTo_eq K s (applyWrites ws3 l3) (cs1 ++ cs3) hrev
    (by rw [(applyWrites_revs ws3 _).1, i3, htrevs]) hchg
  have hR5 : RevRel l5 s := o5 _ (RevRel.refl _) s (fun u hu => by
    rw [List.reverse_append, List.foldl_append]
    exact (g1 _ ((g3 u hu).trans hR3)).trans hsnap)
  exact ⟨l5, o1, (reads hR5).1, (reads hR5).2⟩

/-- non-vacuity: a concrete ledger (one account object with a dirty and an origin value, one account only in the database), a snapshot,
writes to each (storage, balance, nonce, a delete, a created account), a revert: the revert succeeds -/
example :
    let s : L := { accounts := [(1, { dirtyState := [("a", some "x")], originState := [("ab", some "y")] })],
                   db := { state := [((2, "k"), "dbv")], acct := [(2, { nonce := 1 })] } }
    RevsOk s ∧ (revertTo id (applyWrites [.storage 1 "a" (some "z"), .balance 2 5, .storage 2 "k" none, .nonce 3 7, .storage 3 "q" (some "w")]
        (snapshot s).1) (snapshot s).2).isSome = true ∧
      (getState s 2 "k").2 = some "dbv" := by
  refine ⟨?_, ?_, ?_⟩
  · intro r hr; cases hr
  · decide
  · decide

-- ------------------------------------------------------------------------------------ prefix queries

/-- **a prefix query returns exactly the values of the live keys with that prefix**: the result of `QueryByPrefix` is (a
reordering of) the values of a finite map that has no key twice and that holds a key `k` iff `k` starts with the prefix and
`GetState` answers a present (non-empty) value for it — and then holds exactly that answer.  For every ledger state whose account
objects are coherent with the layers below them (`ObjCoh`) and whose cache and database are maps (`StoreWf`): both are
established by an empty / reopened ledger and kept by writes, flushes and commits (`ObjCoh.writes`, `StoreWf.writes`,
`StoreWf.flush`, `StoreWf.commit`, `StoreWf.reopen`); the value may live in the block's dirty set, in the account cache or in the
database, and a key deleted or emptied in any of the layers is not listed even though a lower layer still holds a value -/
theorem C13_query_lists_exactly_the_live_keys (l : L) (a : Addr) (pfx : String) (hC : ObjCoh l) (hW : StoreWf l) :
    ∃ m : KV String Bytes, (m.map (·.1)).Nodup ∧ (query l a pfx).2.Perm (m.map (·.2)) ∧
      ∀ k, KV.get m k =
        if k.startsWith pfx = true ∧ present (getState l a k).2 = true then some (getState l a k).2 else none := by
  obtain ⟨m, h1, h2, h3⟩ := query_exact l a pfx hC hW.db (hW.cache a)
  refine ⟨m, h1, h2, fun k => ?_⟩
  rw [h3 k, getState_peek]
  unfold live
  by_cases hp : k.startsWith pfx = true <;> by_cases hv : present (peekState l a k) = true <;> simp [hp, hv]

/-- every listed value is the present value of a key with the prefix -/
theorem C13_query_sound (l : L) (a : Addr) (pfx : String) (hC : ObjCoh l) (hW : StoreWf l) (v : Bytes)
    (hv : v ∈ (query l a pfx).2) :
    ∃ k, k.startsWith pfx = true ∧ (getState l a k).2 = v ∧ present v = true := by
  obtain ⟨m, h1, h2, h3⟩ := C13_query_lists_exactly_the_live_keys l a pfx hC hW
  obtain ⟨p, hp, e⟩ := List.mem_map.mp (h2.mem_iff.mp hv)
  have hsome : ∃ w, KV.get m p.1 = some w := by
    cases hg : KV.get m p.1 with
    | some w => exact ⟨w, rfl⟩
    | none => exact absurd rfl (KV.not_mem_of_get_none hg p hp)
  obtain ⟨w, hw⟩ := hsome
  have hvw : p.2 = w := KV.unique_of_nodup h1 (k := p.1) hp (KV.mem_of_get hw)
  rw [h3 p.1] at hw
  split at hw
  · rename_i hc
    injection hw with hw
    refine ⟨p.1, hc.1, ?_, ?_⟩
    · rw [hw, ← hvw, e]
    · rw [← e, hvw, ← hw]; exact hc.2
  · cases hw

/-- every key with the prefix whose read is a present value is listed, with that value -/
theorem C13_query_complete (l : L) (a : Addr) (pfx k : String) (hC : ObjCoh l) (hW : StoreWf l)
    (hp : k.startsWith pfx = true) (hv : present (getState l a k).2 = true) :
    (getState l a k).2 ∈ (query l a pfx).2 := by
  obtain ⟨m, _, h2, h3⟩ := C13_query_lists_exactly_the_live_keys l a pfx hC hW
  have hg : KV.get m k = some (getState l a k).2 := by rw [h3 k]; simp [hp, hv]
  exact h2.mem_iff.mpr (List.mem_map.mpr ⟨_, KV.mem_of_get hg, rfl⟩)

/-- the hypotheses are met in the middle of a block and after its flush: start on a ledger without account objects whose stores are
maps (an empty or reopened ledger, the ledger after a flush), make any sequence of storage writes and deletes — the query is exact
before the flush (from the dirty sets) and after it (from the account cache, before anything was committed) -/
theorem C13_query_exact_in_and_after_a_block (H : RootPre → String) (l : L) (hno : l.accounts = []) (hW : StoreWf l) (ws : List SWrite) :
    (ObjCoh (writes ws l) ∧ StoreWf (writes ws l)) ∧ (ObjCoh (flush H (writes ws l)).1 ∧ StoreWf (flush H (writes ws l)).1) :=
  ⟨⟨(ObjCoh.of_no_objects l hno).writes ws, hW.writes ws⟩, ObjCoh.of_no_objects _ rfl, (hW.writes ws).flush H⟩

/-- non-vacuity: a ledger that meets both hypotheses with every layer in play — a database value overridden in the block (`ka`), one
deleted in the block (`kb`), one emptied in the account cache (`kc`), one only in the database (`kd`), one under another prefix, one
of another account (`String.startsWith` does not reduce in the kernel, so the query itself is run by the model driver, not here) -/
def exQ : L := { accounts := [(1, { dirtyState := [("ka", some "new"), ("kb", none)], originState := [("ka", some "old"), ("kb", some "gone")] })],
                   cache := { state := [(1, [("kc", some "")])] },
                   db := { state := [((1, "ka"), "old"), ((1, "kb"), "gone"), ((1, "kc"), "stale"), ((1, "kd"), "kept"), ((1, "x"), "other"), ((2, "ka"), "foreign")] } }
example : StoreWf exQ ∧ ObjCoh exQ ∧ (getState exQ 1 "kc").2 = some "" ∧ (getState exQ 1 "kd").2 = some "kept" ∧ (getState exQ 1 "kb").2 = none := by
  have hacc : ∀ a acc, KV.get exQ.accounts a = some acc → a = 1 ∧ acc = { dirtyState := [("ka", some "new"), ("kb", none)], originState := [("ka", some "old"), ("kb", some "gone")] } := by
    intro a acc h
    simp only [exQ, KV.get] at h
    split at h
    · rename_i e; cases h; exact ⟨e.symm, rfl⟩
    · cases h
  refine ⟨⟨by decide, ?_⟩, ⟨by decide, ?_, ?_, ?_⟩, by decide, by decide, by decide⟩
  · intro a m h
    simp only [exQ, KV.get] at h
    split at h
    · cases h; decide
    · cases h
  · intro a acc h k v hk
    obtain ⟨rfl, rfl⟩ := hacc a acc h
    simp only [KV.get] at hk
    split at hk
    · rename_i e; cases hk; subst e; decide
    · split at hk
      · rename_i e; cases hk; subst e; decide
      · cases hk
  · intro a acc h k hk
    obtain ⟨rfl, rfl⟩ := hacc a acc h
    simp only [KV.get] at hk ⊢
    split
    · rfl
    · split
      · rfl
      · rename_i h1 h2; simp [h1, h2] at hk
  · intro a acc h
    obtain ⟨rfl, rfl⟩ := hacc a acc h
    decide

-- ------------------------------------------------------------------------------------ cache evictions and reopen cycles

/-- **a cache eviction changes no read**: in a ledger whose storage cache agrees with the database (`CacheDb`: what holds from the
commit of one block to the flush of the next — the model driver evaluates it at every eviction and every reopen of every generated
history), dropping the cache entry of an account, or one key of it, leaves every storage read of every account as it was (up to nil /
empty, which `bytes.Equal` does not tell apart) — whatever the block in progress has written, memoised or loaded so far -/
theorem C13_eviction_keeps_every_read (l : L) (h : CacheDb l) (a : Addr) (b : Addr) (k : String) :
    ((getState { l with cache := { l.cache with state := KV.erase l.cache.state a } } b k).2).getD "" = ((getState l b k).2).getD "" := by
  rw [getState_peek, getState_peek]
  exact reads_agree_of_cacheDb l { l with cache := { l.cache with state := KV.erase l.cache.state a } } rfl rfl h (h.evictAcct a) b k

theorem C13_key_eviction_keeps_every_read (l : L) (h : CacheDb l) (a : Addr) (m0 : KV String Bytes) (k0 : String)
    (hm0 : KV.get l.cache.state a = some m0) (b : Addr) (k : String) :
    ((getState { l with cache := { l.cache with state := KV.set l.cache.state a (KV.erase m0 k0) } } b k).2).getD "" =
      ((getState l b k).2).getD "" := by
  rw [getState_peek, getState_peek]
  exact reads_agree_of_cacheDb l { l with cache := { l.cache with state := KV.set l.cache.state a (KV.erase m0 k0) } } rfl rfl h (h.evictKey a m0 k0 hm0) b k

/-- **a reopen changes no read**: a ledger between two blocks (no account objects) whose storage cache agrees with the database,
closed and opened again on the same database (all caches empty): every storage key of every account reads what it read before -/
theorem C13_reopen_keeps_every_read (l l2 : L) (hno : l.accounts = []) (h : CacheDb l) (hr : reopen l = some l2) (a : Addr) (k : String) :
    ((getState l2 a k).2).getD "" = ((getState l a k).2).getD "" := by
  obtain ⟨r1, r2, r3⟩ := reopen_facts l l2 hr
  rw [getState_peek, getState_peek]
  refine reads_agree_of_cacheDb l l2 (by rw [r1, hno]) r3 h ?_ a k
  intro b m k' v hm _
  rw [r2] at hm
  simp [KV.get] at hm

/-- non-vacuity: a cache that holds the value the database holds for one key and an emptied value for a key the database does not hold -/
example : CacheDb { cache := { state := [(1, [("k", some "v"), ("gone", some "")])] }, db := { state := [((1, "k"), "v")] } } := by
  intro a m k v hm hk
  simp only [KV.get] at hm
  split at hm
  · injection hm with hm
    subst hm
    simp only [KV.get] at hk
    split at hk
    · injection hk with hk; subst hk; rename_i e1 e2; subst e1; subst e2; decide
    · split at hk
      · injection hk with hk; subst hk; rename_i e1 _ e2; subst e1; subst e2; decide
      · cases hk
  · cases hm

/-- **the hypothesis comes back with every committed block**: start a block on a ledger without account objects whose storage cache
agrees with the database (an empty or reopened ledger, or the ledger after the previous commit), make any sequence of storage writes
and deletes, flush, commit: the storage cache agrees with the database again — so the eviction and reopen theorems above apply after
every block of a history, "no matter how many commits, cache evictions or reopen cycles lie in between" -/
theorem C13_commit_reestablishes_cache_coherence (H : RootPre → String) (l l1 : L) (h : Nat) (hno : l.accounts = []) (hD : CacheDb l)
    (ws : List SWrite) (hc : commit (flush H (writes ws l)).1 h (flush H (writes ws l)).2 = some l1) : CacheDb l1 := by
  have hW : CacheDb (writes ws l) := by
    have hcd : (writes ws l).cache = l.cache ∧ (writes ws l).db = l.db := by
      unfold writes
      exact foldl_inv (fun x : L => x.cache = l.cache ∧ x.db = l.db) _
        (fun s w hs => ⟨(setState_spec s w.addr w.key w.val).cache.trans hs.1, (setState_spec s w.addr w.key w.val).db.trans hs.2⟩) ws l ⟨rfl, rfl⟩
    intro a m k v hm hk
    rw [hcd.1] at hm
    rw [hcd.2]
    exact hD a m k v hm hk
  exact commit_establishes_cacheDb H (writes ws l) l1 h ((ObjCoh.of_no_objects l hno).writes ws) hW hc

/-- **the latest write is read back through the whole cycle**: a block of storage writes and deletes on a ledger between two blocks
(no account objects, cache agreeing with the database), flushed, committed, then — the value now living in the account cache and in
the database — a cache entry evicted, then the ledger closed and opened again on the same database: every storage key of every
account reads the block's last write to it, or what it read before the block if the block did not write it.  (Dirty set → account
cache → database → reopen, with a commit and an eviction in between; the same holds after every further block, by
`C13_commit_reestablishes_cache_coherence`.) -/
theorem C13_latest_write_survives_flush_commit_evict_reopen (H : RootPre → String) (l l1 l2 : L) (h : Nat) (hno : l.accounts = [])
    (hD : CacheDb l) (ws : List SWrite) (ev : Addr)
    (hc : commit (flush H (writes ws l)).1 h (flush H (writes ws l)).2 = some l1)
    (hr : reopen { l1 with cache := { l1.cache with state := KV.erase l1.cache.state ev } } = some l2) (a : Addr) (k : String) :
    ((getState l2 a k).2).getD "" =
      (match ws.reverse.find? (fun (w : SWrite) => decide (w.addr = a ∧ w.key = k)) with
       | some w => w.val
       | none => (getState l a k).2).getD "" := by
  have hC : ObjCoh (writes ws l) := (ObjCoh.of_no_objects l hno).writes ws
  have hD1 : CacheDb l1 := C13_commit_reestablishes_cache_coherence H l l1 h hno hD ws hc
  have hacc1 : l1.accounts = [] := (commit_accounts h _ hc).trans rfl
  -- reopen ← eviction ← commit ← flush ← the block's writes
  rw [C13_reopen_keeps_every_read { l1 with cache := { l1.cache with state := KV.erase l1.cache.state ev } } l2 hacc1 (hD1.evictAcct ev) hr a k,
    C13_eviction_keeps_every_read l1 hD1 ev a k]
  rw [getState_peek, commit_keeps_reads H (writes ws l) l1 h hC hc hacc1 a k, ← getState_peek]
  exact C13_block_writes_survive_flush H l hno ws a k

/-- **balances and nonces through evictions and reopen**: in a ledger whose inner-account cache agrees with the database (`InnerDb`;
evaluated by the model driver at every eviction and reopen) dropping an account's cache entry leaves balance and nonce of every
account as they read before, and so does closing and reopening a ledger that is between two blocks -/
theorem C13_inner_eviction_keeps_balance_and_nonce (l : L) (h : InnerDb l) (a b : Addr) :
    (getBalance { l with cache := { l.cache with inner := KV.erase l.cache.inner a } } b).2 = (getBalance l b).2 ∧
    (getNonce { l with cache := { l.cache with inner := KV.erase l.cache.inner a } } b).2 = (getNonce l b).2 := by
  rw [getBalance_peek, getBalance_peek, getNonce_peek, getNonce_peek,
    inner_agree_of_innerDb l { l with cache := { l.cache with inner := KV.erase l.cache.inner a } } rfl rfl h (h.evict a) b]
  exact ⟨rfl, rfl⟩

theorem C13_reopen_keeps_balance_and_nonce (l l2 : L) (hno : l.accounts = []) (h : InnerDb l) (hr : reopen l = some l2) (b : Addr) :
    (getBalance l2 b).2 = (getBalance l b).2 ∧ (getNonce l2 b).2 = (getNonce l b).2 := by
  obtain ⟨r1, r2, r3⟩ := reopen_facts l l2 hr
  have h2 : InnerDb l2 := by intro a ia ha; rw [r2] at ha; simp [KV.get] at ha
  rw [getBalance_peek, getBalance_peek, getNonce_peek, getNonce_peek, inner_agree_of_innerDb l l2 (by rw [r1, hno]) r3 h h2 b]
  exact ⟨rfl, rfl⟩

/-- an empty ledger meets it -/
example : CacheDb ({} : L) := by intro a m k v hm _; simp [KV.get] at hm

end Bxh.Props.C13
