import Bxh.Props.C13
import Bxh.Proofs.LedgerRevert
import Bxh.Proofs.LedgerFlush
/-!
# C13 — snapshots: "Reverting to a snapshot restores every journaled value to what it was at snapshot time, and nested snapshots
revert independently" — and, with `getState_peek` / `peekState_setState`, the read-your-write clause for EVERY key and account
(not only the written one) over any sequence of storage writes.

The statements are about `Bxh.Ledger` (the model of SimpleLedger / SimpleAccount / the state changer), for every ledger state:
whatever is in the block's account objects, their dirty and origin memos, the account cache and the database.
-/
namespace Bxh.Props.C13
open Bxh Bxh.Ledger

/-- **a write changes what one key reads and nothing else**: after `SetState a k v` a read of `(b, k')` returns `v` if it is the
written key and what it returned before otherwise — through the dirty set, the origin memo, the account cache and the database,
for accounts that are objects of the block, loadable or unknown -/
theorem C13_write_changes_exactly_one_key (l : L) (a : Addr) (k : String) (v : Bytes) (b : Addr) (k' : String) :
    (getState (setState l a k v) b k').2 = if b = a ∧ k' = k then v else (getState l b k').2 := by
  rw [getState_peek, getState_peek]; exact peekState_setState l a k v b k'

/-- the latest write wins, over any sequence of writes: a read after `ws` returns the value of the last write to that key in `ws`,
or what it returned before `ws` if there is none -/
theorem C13_read_after_writes (ws : List SWrite) (l : L) (b : Addr) (k' : String) :
    (getState (writes ws l) b k').2 =
      match ws.reverse.find? (fun w => decide (w.addr = b ∧ w.key = k')) with
      | some w => w.val
      | none => (getState l b k').2 := by
  induction ws generalizing l with
  | nil => rfl
  | cons w rest ih =>
    show (getState (writes rest (setState l w.addr w.key w.val)) b k').2 = _
    rw [ih, List.reverse_cons, List.find?_append]
    cases hf : rest.reverse.find? (fun w => decide (w.addr = b ∧ w.key = k')) with
    | some w' => rfl
    | none =>
      simp only [Option.none_or, List.find?_cons, List.find?_nil]
      rw [C13_write_changes_exactly_one_key]
      by_cases h : b = w.addr ∧ k' = w.key
      · have h' : decide (w.addr = b ∧ w.key = k') = true := by simp [h.1, h.2]
        rw [if_pos h, h']
      · have h' : decide (w.addr = b ∧ w.key = k') = false := by
          simp only [decide_eq_false_iff_not]
          intro e; exact h ⟨e.1.symm, e.2.symm⟩
        rw [if_neg h, h']

/-- **`FlushDirtyData` keeps every read** (up to nil / empty, which `bytes.Equal` does not tell apart): on a ledger whose account
objects are coherent (`ObjCoh`: memoised committed values are what the layers below hold, a key is written only after its committed
value was memoised, no duplicates) every key of every account — written by the block or not, of a modified account or not — reads
after the flush, from the account cache and the database, what it read before it from the block's objects -/
theorem C13_flush_keeps_every_read (H : RootPre → String) (l : L) (hC : ObjCoh l) (a : Addr) (k : String) :
    ((getState (flush H l).1 a k).2).getD "" = ((getState l a k).2).getD "" := by
  rw [getState_peek, getState_peek]; exact flush_keeps_reads H l hC a k

/-- **a block's writes survive the flush**: start a block on a ledger without account objects (after the previous flush, after a
reopen), make any sequence of storage writes and deletes, flush: every key of every account reads the value of the block's last
write to it, or what it read before the block if the block did not write it -/
theorem C13_block_writes_survive_flush (H : RootPre → String) (l : L) (hno : l.accounts = []) (ws : List SWrite) (a : Addr) (k : String) :
    ((getState (flush H (writes ws l)).1 a k).2).getD "" =
      (match ws.reverse.find? (fun (w : SWrite) => decide (w.addr = a ∧ w.key = k)) with
       | some w => w.val
       | none => (getState l a k).2).getD "" := by
  rw [C13_flush_keeps_every_read H _ ((ObjCoh.of_no_objects l hno).writes ws), C13_read_after_writes]

/-- the changer's invariant on revision ids (ids are handed out from `nextRev`) -/
def RevsOk (s : L) : Prop := ∀ r ∈ s.revisions, r.1 < s.nextRev

/-- **reverting to a snapshot restores every journaled value to what it was at snapshot time**: take a snapshot of any ledger `s`, make
any sequence of journaled writes — storage writes and deletes, balance and nonce updates; any accounts: objects of the block, loadable
from cache or database, or created by the write; any keys, any values — and revert: the revert succeeds, every storage key of every
account reads what it read at `s`, and so do every account's balance and nonce; the journal and the revision stack are what they were -/
theorem C13_revert_restores_every_journaled_value (K : String → String) (s : L) (hrev : RevsOk s) (ws : List Write) :
    ∃ l3, revertTo K (applyWrites ws (snapshot s).1) (snapshot s).2 = some l3 ∧
      (∀ a k, (getState l3 a k).2 = (getState s a k).2) ∧
      (∀ a, (getBalance l3 a).2 = (getBalance s a).2 ∧ (getNonce l3 a).2 = (getNonce s a).2) ∧
      l3.changes = s.changes ∧ l3.revisions = s.revisions := by
  obtain ⟨cs, hcs, g⟩ := undo_applyWrites K ws (snapshot s).1
  have hsnap : RevRel (snapshot s).1 s := ⟨rfl, rfl, fun _ _ => rfl, fun _ => rfl, fun _ h => h⟩
  obtain ⟨l3, h1, h2, h3, _, h5⟩ := revertTo_eq K s (applyWrites ws (snapshot s).1) cs hrev
    (by rw [(applyWrites_revs ws _).1]; rfl) hcs
  have hR : RevRel l3 s := h5 _ (RevRel.refl _) s (fun u hu => (g u hu).trans hsnap)
  refine ⟨l3, h1, ?_, ?_, h2, h3⟩
  · intro a k
    rw [getState_peek, getState_peek]; exact hR.peek a k
  · intro a
    rw [getBalance_peek, getBalance_peek, getNonce_peek, getNonce_peek, hR.inner a]
    exact ⟨rfl, rfl⟩

/-- **nested snapshots revert independently**: snapshot 1 at `s`, writes `ws1`, snapshot 2, writes `ws2`, revert to snapshot 2 — every
key, balance and nonce reads what it read when snapshot 2 was taken; then writes `ws3` and a revert to snapshot 1 — everything reads
what it read at `s` -/
theorem C13_nested_snapshots_revert_independently (K : String → String) (s : L) (hrev : RevsOk s) (ws1 ws2 ws3 : List Write) :
    let t := applyWrites ws1 (snapshot s).1
    ∃ l3, revertTo K (applyWrites ws2 (snapshot t).1) (snapshot t).2 = some l3 ∧
      (∀ a k, (getState l3 a k).2 = (getState t a k).2) ∧
      (∀ a, (getBalance l3 a).2 = (getBalance t a).2 ∧ (getNonce l3 a).2 = (getNonce t a).2) ∧
      ∃ l5, revertTo K (applyWrites ws3 l3) (snapshot s).2 = some l5 ∧ (∀ a k, (getState l5 a k).2 = (getState s a k).2) ∧
        ∀ a, (getBalance l5 a).2 = (getBalance s a).2 ∧ (getNonce l5 a).2 = (getNonce s a).2 := by
  intro t
  obtain ⟨cs1, hcs1, g1⟩ := undo_applyWrites K ws1 (snapshot s).1
  have hsnap : RevRel (snapshot s).1 s := ⟨rfl, rfl, fun _ _ => rfl, fun _ => rfl, fun _ h => h⟩
  have htrevs : t.revisions = s.revisions ++ [(s.nextRev, s.changes.length)] := (applyWrites_revs ws1 _).1
  have htnext : t.nextRev = s.nextRev + 1 := (applyWrites_revs ws1 _).2
  have hrevt : RevsOk t := by
    intro r hr
    rw [htrevs] at hr
    rw [htnext]
    rcases List.mem_append.mp hr with h | h
    · have := hrev r h; omega
    · simp at h; rw [h]; simp
  have reads : ∀ {x y : L}, RevRel x y → (∀ a k, (getState x a k).2 = (getState y a k).2) ∧
      ∀ a, (getBalance x a).2 = (getBalance y a).2 ∧ (getNonce x a).2 = (getNonce y a).2 := by
    intro x y hR
    refine ⟨fun a k => by rw [getState_peek, getState_peek]; exact hR.peek a k, fun a => ?_⟩
    rw [getBalance_peek, getBalance_peek, getNonce_peek, getNonce_peek, hR.inner a]
    exact ⟨rfl, rfl⟩
  -- the inner revert
  obtain ⟨cs2, hcs2, g2⟩ := undo_applyWrites K ws2 (snapshot t).1
  have hsnapt : RevRel (snapshot t).1 t := ⟨rfl, rfl, fun _ _ => rfl, fun _ => rfl, fun _ h => h⟩
  obtain ⟨l3, i1, i2, i3, i4, i5⟩ := revertTo_eq K t (applyWrites ws2 (snapshot t).1) cs2 hrevt
    (by rw [(applyWrites_revs ws2 _).1]; rfl) hcs2
  have hR3 : RevRel l3 t := i5 _ (RevRel.refl _) t (fun u hu => (g2 u hu).trans hsnapt)
  refine ⟨l3, i1, (reads hR3).1, (reads hR3).2, ?_⟩
  -- the outer revert
  obtain ⟨cs3, hcs3, g3⟩ := undo_applyWrites K ws3 l3
  have hchg : (applyWrites ws3 l3).changes = s.changes ++ (cs1 ++ cs3) := by
    rw [hcs3, i2, hcs1]; simp [snapshot]
  obtain ⟨l5, o1, _, _, _, o5⟩ := revertTo_eq K s (applyWrites ws3 l3) (cs1 ++ cs3) hrev
    (by rw [(applyWrites_revs ws3 _).1, i3, htrevs]) hchg
  have hR5 : RevRel l5 s := o5 _ (RevRel.refl _) s (fun u hu => by
    rw [List.reverse_append, List.foldl_append]
    exact (g1 _ ((g3 u hu).trans hR3)).trans hsnap)
  exact ⟨l5, o1, (reads hR5).1, (reads hR5).2⟩

/-- non-vacuity: a concrete ledger (one account object with a dirty and an origin value, one account only in the database), a snapshot,
writes to each (storage, balance, nonce, a delete, a created account), a revert: the revert succeeds -/
example :
    let s : L := { accounts := [(1, { dirtyState := [("a", some "x")], originState := [("ab", some "y")] })],
                   db := { state := [((2, "k"), "dbv")], acct := [(2, { nonce := 1 })] } }
    RevsOk s ∧ (revertTo id (applyWrites [.storage 1 "a" (some "z"), .balance 2 5, .storage 2 "k" none, .nonce 3 7, .storage 3 "q" (some "w")]
        (snapshot s).1) (snapshot s).2).isSome = true ∧
      (getState s 2 "k").2 = some "dbv" := by
  refine ⟨?_, ?_, ?_⟩
  · intro r hr; cases hr
  · decide
  · decide

end Bxh.Props.C13
