import Bxh.Model.Lifecycle
import Bxh.Props.C04
/-!
# C16 — only available, permitted services interchange; objects obey their life cycle

Two parts.  *Gating*: theorems about `checkIBTP` / `checkTarget` of `Bxh.Exec` (model of
`InterchainManager.checkIBTP`, `checkSourceAvailability`, `checkTargetAvailability`) for every
ledger, cache and IBTP.  *Life cycles*: table theorems over the state machines regenerated from
role.go and the bitxhub-core managers (`Bxh.Gen.lifecycles`), lifted to the step function for
every event string.  That every status change observed on the real node is a step of these tables,
that an approved freeze / logout of an appchain makes its services unusable, and the gating on the
real node after real governance operations and restarts, is decided by the monitor of the
correspondence run (py/vlib/gen_gov.py `mon_c16`).
-/
namespace Bxh.Props.C16
open Bxh Bxh.Exec Bxh.Lifecycle

/-! ### gating -/

/-- **source side**: a request whose (local) source service is missing or not available is rejected -/
theorem C16_unavailable_source_rejected (env : Env) (l : Led) (i : Ibtp) (src dst : SvcId)
    (hf : i.frm = some src) (ht : i.to = some dst) (hreq : i.typ.isRequest = true) (hloc : isLocal env src = true)
    (hn : isNotification l src dst i = some false)
    (hs : ∀ s, getSvc l env.cache src.chain src.sid = some s → s.available = false) :
    checkIBTP env l i = .error "1080007" := by
  unfold checkIBTP
  simp only [hf, ht, hn, hreq, hloc, if_true, Bool.not_false, Bool.and_self]
  cases h : getSvc l env.cache src.chain src.sid with
  | none => rfl
  | some s => simp [hs s h]

/-- (the hypothesis `hn`: the request is not one handed back with the destination hub's notice, which starts no interchange —
inside one hub there is no such thing) -/
theorem isNotification_local (l : Led) (src dst : SvcId) (i : Ibtp) (h : src.bxh = dst.bxh) :
    isNotification l src dst i = some false := by
  simp [isNotification, h]

/-- **destination side, what makes the target unusable**: a local, non-hub destination service
that is missing, unavailable, or blacklists the source yields the target error (the request is then
recorded as begin-failed); otherwise there is no target error and `isBatch` = not ordered -/
theorem C16_target_error_iff (env : Env) (l : Led) (src dst : SvcId)
    (hloc : isLocal env dst = true) (hhub : (dst.chain == dst.bxh) = false) :
    (checkTarget env l src dst).2 = true ↔
      ∀ s, getSvc l env.cache dst.chain dst.sid = some s → (s.available = false ∨ s.blacklist.contains src = true) := by
  unfold checkTarget
  simp only [hloc, hhub, if_true, Bool.false_eq_true, if_false]
  cases h : getSvc l env.cache dst.chain dst.sid with
  | none => simp
  | some s =>
    by_cases ha : s.available = true
    · by_cases hb : src ∈ s.blacklist
      · simp [ha, hb]
      · simp [ha, hb]
    · simp [ha]

/-- for a request (no notice) the target error is the one `checkTargetAvailability` answers -/
theorem checkIBTP_request_target {env : Env} {l : Led} {i : Ibtp} {ck : Checked} (h : checkIBTP env l i = .ok ck)
    (hreq : i.typ.isRequest = true) (hn : ck.notice = false) : ck.targetErr = (checkTarget env l ck.src ck.dst).2 := by
  have hresp := C02.isResponse_of_isRequest hreq
  unfold checkIBTP at h
  repeat' (first | (cases h <;> simp_all) | split at h | simp only at h)

/-- where an accepted request comes from: an available local service, or a service of another BitXHub that is a registered,
available relay chain here, addressed to a local service -/
theorem checkIBTP_request_source {env : Env} {l : Led} {i : Ibtp} {ck : Checked} (h : checkIBTP env l i = .ok ck)
    (hreq : i.typ.isRequest = true) (hn : ck.notice = false) :
    (isLocal env ck.src = true ∧ ∃ s, getSvc l env.cache ck.src.chain ck.src.sid = some s ∧ s.available = true) ∨
    (isLocal env ck.src = false ∧ isLocal env ck.dst = true ∧ env.cfg.hubs.contains ck.src.bxh = true) := by
  have hresp := C02.isResponse_of_isRequest hreq
  unfold checkIBTP at h
  repeat' (first | (cases h <;> simp_all) | split at h | simp only at h)

/-- **an accepted request (one that starts an interchange: no notice) comes from an available local service — or from a BitXHub
registered here as an available relay chain —, and a destination recorded for execution (no target error) exists, is available
and does not block the source** -/
theorem C16_accepted_request_is_gated (env : Env) (l : Led) (i : Ibtp) (ck : Checked)
    (h : checkIBTP env l i = .ok ck) (hreq : i.typ.isRequest = true) (hn : ck.notice = false) :
    ((isLocal env ck.src = true ∧ ∃ s, getSvc l env.cache ck.src.chain ck.src.sid = some s ∧ s.available = true) ∨
     (isLocal env ck.src = false ∧ isLocal env ck.dst = true ∧ env.cfg.hubs.contains ck.src.bxh = true)) ∧
    ((isLocal env ck.dst = true ∧ (ck.dst.chain == ck.dst.bxh) = false ∧ ck.targetErr = false) →
      ∃ d, getSvc l env.cache ck.dst.chain ck.dst.sid = some d ∧ d.available = true ∧ d.blacklist.contains ck.src = false) := by
  refine ⟨checkIBTP_request_source h hreq hn, ?_⟩
  intro ⟨hl, hh, hte⟩
  have hiff := C16_target_error_iff env l ck.src ck.dst hl hh
  rw [← checkIBTP_request_target h hreq hn, hte] at hiff
  cases hd : getSvc l env.cache ck.dst.chain ck.dst.sid with
  | none =>
    exfalso
    have := hiff.mpr (by intro s hs; rw [hd] at hs; cases hs)
    cases this
  | some d =>
    refine ⟨d, rfl, ?_, ?_⟩
    · cases hda : d.available with
      | true => rfl
      | false =>
        have := hiff.mpr (by intro s hs; rw [hd] at hs; cases hs; exact Or.inl hda)
        cases this
    · cases hdb : d.blacklist.contains ck.src with
      | false => rfl
      | true =>
        have := hiff.mpr (by intro s hs; rw [hd] at hs; cases hs; exact Or.inr hdb)
        cases this

/-- a request addressed to another BitXHub is recorded for execution only when that hub is a registered, available relay chain
here; otherwise it is begin-failed -/
theorem C16_remote_target_needs_registered_hub (env : Env) (l : Led) (src dst : SvcId) (hrem : isLocal env dst = false) :
    (checkTarget env l src dst).2 = !env.cfg.hubs.contains dst.bxh := by
  unfold checkTarget
  simp [hrem]

/-! ### life cycles (tables regenerated from the source) -/

/-- the object kinds the property names: once logged out they never become usable again -/
def finalKinds : List String := ["appchain", "service", "role", "node"]

/-- table fact: no transition of an appchain, service, role or node starts in `forbidden` -/
theorem table_forbidden_has_no_exit :
    (Gen.lifecycles.filter (fun p => finalKinds.contains p.1)).all (fun p => p.2.all (fun e => !e.2.1.contains "forbidden")) = true := by
  decide +kernel

/-- **logged out is final**: for appchains, services, roles and nodes, for every event string and
every remembered last status, an object in status `forbidden` makes no step -/
theorem C16_forbidden_absorbing (obj ev last : String) (hk : obj ∈ finalKinds) :
    step (tableOf obj) "forbidden" ev last = none := by
  unfold step
  cases hl : fsmLookup (tableOf obj) ev "forbidden" with
  | none => rfl
  | some d =>
    exfalso
    obtain ⟨e, he, _, hs, _⟩ := C04.fsmLookup_mem _ _ _ _ hl
    unfold tableOf at he
    cases hf : Gen.lifecycles.find? (·.1 == obj) with
    | none => simp [hf] at he
    | some p =>
      simp only [hf, Option.map_some, Option.getD_some] at he
      have hp : p ∈ Gen.lifecycles := List.mem_of_find?_eq_some hf
      have hname : p.1 = obj := by simpa using List.find?_some hf
      have hp' : p ∈ Gen.lifecycles.filter (fun p => finalKinds.contains p.1) := by
        rw [List.mem_filter]; exact ⟨hp, by simpa [hname] using hk⟩
      have h1 := List.all_eq_true.mp table_forbidden_has_no_exit p hp'
      have h2 := List.all_eq_true.mp h1 e he
      simp only [Bool.not_eq_true', List.contains_eq_mem, decide_eq_false_iff_not] at h2
      exact h2 hs

/-- rules are not in that list: the rules of a logged-out chain are cleared, `forbidden → unavailable`;
`unavailable` is not an available status and has no exit in the rule table -/
theorem C16_rule_forbidden_only_cleared :
    ((tableOf "rule").filter (fun e => e.2.1.contains "forbidden")).all (fun e => e.1 == "clear" && e.2.2 == "unavailable") = true ∧
    (tableOf "rule").all (fun e => !e.2.1.contains "unavailable") = true := by decide +kernel

/-- table fact: an approved logout ends in `forbidden` for appchains, services, roles and nodes,
and `forbidden`, `frozen`, `pause`, `unavailable`, `logouting` are never "available" statuses -/
theorem C16_logout_approved_is_forbidden :
    (["appchain", "service", "role", "node"].all (fun o => step (tableOf o) "logouting" "approve" "available" == some "forbidden")) = true ∧
    (Gen.availableStatus.all (fun p => !p.2.contains "forbidden" && !p.2.contains "frozen" && !p.2.contains "pause" && !p.2.contains "unavailable")) = true := by
  decide +kernel

/-- table fact: an approved freeze of an appchain leaves it `frozen`, which is not an available
status, and the cascade event `pause` takes an available service out of the available statuses -/
theorem C16_freeze_makes_unavailable :
    step (tableOf "appchain") "freezing" "approve" "available" = some "frozen" ∧ isAvailable "appchain" "frozen" = false ∧
    step (tableOf "service") "available" "pause" "available" = some "pause" ∧ isAvailable "service" "pause" = false ∧
    isAvailable "service" "forbidden" = false := by decide +kernel

/-- table fact: **a rejection never makes an object usable that was not usable when the operation was proposed**: every
`reject` transition of appchains, services, roles and nodes either returns to the remembered previous status (`<last>`),
or ends in a status that is not an available one, or starts only from statuses that are available ones themselves -/
theorem C16_reject_never_makes_available :
    (["appchain", "service", "role", "node"].all fun o =>
      ((tableOf o).filter (fun e => e.1 == "reject")).all fun e =>
        e.2.2 == "<last>" || !isAvailable o e.2.2 || e.2.1.all (isAvailable o)) = true := by
  decide +kernel

/-- non-vacuity: the tables are there and a registration is approved into `available` -/
example : (tableOf "service").length > 10 ∧ step (tableOf "service") "registering" "approve" "unavailable" = some "available" ∧
    isAvailable "service" "available" = true := by decide +kernel

/-- the governance status of an object under a sequence of (event, remembered last status) pairs; an event the state
machine refuses leaves the status where it is (the manager returns an error and the transaction is reverted) -/
def runEvents (obj : String) (st : String) (evs : List (String × String)) : String :=
  evs.foldl (fun s e => (step (tableOf obj) s e.1 e.2).getD s) st

/-- **a logged-out appchain, service, role or node never becomes anything else again**, whatever governance operations,
approvals, rejections and cascading operations follow -/
theorem C16_forbidden_forever (obj : String) (evs : List (String × String)) (hk : obj ∈ finalKinds) :
    runEvents obj "forbidden" evs = "forbidden" := by
  unfold runEvents
  induction evs with
  | nil => rfl
  | cons e rest ih =>
    simp only [List.foldl_cons, C16_forbidden_absorbing obj e.1 e.2 hk, Option.getD_none]
    exact ih

/-- and therefore never usable (available) again -/
theorem C16_forbidden_never_available (obj : String) (evs : List (String × String)) (hk : obj ∈ finalKinds) :
    isAvailable obj (runEvents obj "forbidden" evs) = false := by
  rw [C16_forbidden_forever obj evs hk]
  have : ∀ o ∈ finalKinds, isAvailable o "forbidden" = false := by decide
  exact this obj hk

end Bxh.Props.C16
