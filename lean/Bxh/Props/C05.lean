import Bxh.Props.C04
import Bxh.Proofs.ExecGlob
import Bxh.Proofs.ExecBlock
import Bxh.Proofs.RouterLemmas
/-!
# C05 — one-to-many cross-chain transactions are all-or-nothing

Theorems about the transaction manager's group functions of `Bxh.Exec` (`tmBeginMulti` =
`BeginMultiTXs`, `tmChangeMulti` = `changeMultiTxStatus`, `tmReport` = `Report`), for every ledger,
group and child.  The FSM table is the one regenerated from transaction_manager.go.
-/
namespace Bxh.Props.C05
open Bxh Bxh.Exec Bxh.Props.C04

theorem ofName_eq (d : String) (st : Status) (h : Status.ofName d = some st) : d = st.name := by
  unfold Status.ofName at h
  have h1 := @List.find?_some Status (fun x => x.name == d) st Status.all h
  exact (beq_iff_eq.mp h1).symm

/-- table fact: the only transitions into SUCCESS are labelled "success" -/
theorem table_success_event : ∀ e ∈ Gen.txFsm, e.2.2 = "SUCCESS" → e.1 = "success" := by decide

/-- a step that reaches SUCCESS was driven by the event "success" (a success receipt) -/
theorem step_to_success_event (st : Status) (ev : String) (h : txFsmStep st ev = some .success) : ev = "success" := by
  unfold txFsmStep fsmStep at h
  cases hl : fsmLookup Gen.txFsm ev st.name with
  | none => simp [hl] at h
  | some d =>
    simp only [hl] at h
    split at h
    · cases h
    · obtain ⟨e, he, hev, _, hd⟩ := fsmLookup_mem _ _ _ _ hl
      have hdn := ofName_eq d .success h
      have := table_success_event e he (by rw [hd, hdn]; rfl)
      rw [← hev]; exact this

/-- the event "success" can only lead to SUCCESS -/
theorem step_success_event_dst (st st' : Status) (h : txFsmStep st "success" = some st') : st' = .success := by
  cases st <;> revert h <;> cases st' <;> decide

/-- **SUCCESS needs every declared child**: whenever `changeMultiTxStatus` moves the global state to
SUCCESS, every child recorded in the group is SUCCESS and their number is the declared count -/
theorem C05_global_success_needs_all (l l' : Led) (gid : GId) (g g' : Global) (id : TxId) (typ : Nat)
    (h : tmChangeMulti l gid g id typ = .ok (l', g')) (hs : g'.state = .success) (hns : g.state ≠ .success) :
    g'.children.all (fun p => p.2 == .success) = true ∧ g'.children.length = g'.count := by
  unfold tmChangeMulti at h
  split at h
  · split at h
    · cases h
    · cases h; simp at hs
  · simp only at h
    split at h
    · cases h
    · rename_i st' hst'
      split at h
      · rename_i hfin
        split at h
        · cases h
        · rename_i gs hgs
          split at h
          · cases h
          · cases h
            simp only at hs
            subst hs
            have hev := step_to_success_event _ _ hgs
            rw [hev] at hst'
            have := step_success_event_dst _ _ hst'
            subst this
            simp only [isMultiFinished, Bool.and_eq_true, beq_iff_eq] at hfin
            exact ⟨hfin.1, hfin.2⟩
      · cases h
        exact absurd hs hns

/-- **a failed group never succeeds**: once the global state is neither BEGIN nor SUCCESS
(BEGIN_FAILURE, BEGIN_ROLLBACK, FAILURE, ROLLBACK) no report can make it SUCCESS -/
theorem C05_failed_group_never_succeeds (l l' : Led) (gid : GId) (g g' : Global) (id : TxId) (typ : Nat)
    (h : tmChangeMulti l gid g id typ = .ok (l', g')) (hb : g.state ≠ .begin) (hs : g.state ≠ .success) :
    g'.state ≠ .success := by
  unfold tmChangeMulti at h
  split at h
  · rename_i hc; exact absurd hc.1 hb
  · simp only at h
    split at h
    · cases h
    · split at h
      · split at h
        · cases h
        · rename_i gs hgs
          split at h
          · cases h
          · cases h
            simp only
            intro hgs'
            subst hgs'
            have := C04_step_is_protocol_edge _ _ _ hgs
            simp only [protocolEdges, List.mem_cons, Prod.mk.injEq, List.mem_nil_iff, or_false] at this
            rcases this with h1 | h1 | h1 | h1 | h1 | h1 | h1 <;> first | exact hb h1.1 | (cases h1.2)
      · cases h; exact hs

/-- **a failure receipt fails the whole group at once**: in state BEGIN a failure receipt of any
child sets the global state to BEGIN_FAILURE, the reporting child to FAILURE and *every* other
child — including those that had succeeded — to BEGIN_FAILURE -/
theorem C05_failure_receipt_flips_all (l l' : Led) (gid : GId) (g g' : Global) (id : TxId)
    (h : tmChangeMulti l gid g id 2 = .ok (l', g')) (hb : g.state = .begin) :
    g'.state = .beginFailure ∧
    ∀ p ∈ g'.children, (p.1 = id → p.2 = .failure) ∧ (p.1 ≠ id → p.2 = .beginFailure) := by
  unfold tmChangeMulti at h
  simp only [hb, true_and, if_true] at h
  split at h
  · cases h
  · cases h
    refine ⟨rfl, ?_⟩
    intro p hp
    simp only [List.mem_map] at hp
    obtain ⟨q, _, hq⟩ := hp
    subst hq
    by_cases hq : q.1 = id <;> simp [hq]

/-- **a child that cannot begin fails the whole group at once** (`BeginMultiTXs` with an
unavailable destination while the group is in BEGIN): global BEGIN_FAILURE, every child
BEGIN_FAILURE, the source is told about every earlier child and the destinations about exactly
those earlier children that had succeeded -/
theorem C05_begin_failure_flips_all (l : Led) (cur : Nat) (gid : GId) (g : Global) (id : TxId) (t n : Nat)
    (r : Led × StatusChange) (hg : l.getS (.glob gid) = some (.glob g)) (hb : g.state = .begin)
    (h : tmBeginMulti l cur gid id t true n = .ok r) :
    r.2.cur = .beginFailure ∧
    r.2.notifySrc = g.children.map (·.1) ∧
    r.2.notifyDst = (g.children.filter (fun p => p.2 == .success)).map (·.1) ∧
    (match r.1.getS (.glob gid) with
      | some (.glob g') => g'.state = .beginFailure ∧ ∀ p ∈ g'.children, p.2 = .beginFailure
      | _ => False) := by
  unfold tmBeginMulti at h
  simp only [hg, hb] at h
  split at h
  · cases h
  · simp only [ne_eq, not_true_eq_false, if_false, if_true] at h
    split at h
    · cases h
    · cases h
      refine ⟨rfl, rfl, rfl, ?_⟩
      have hne : Key.child id ≠ Key.glob gid := by intro hc; cases hc
      simp only [Led.getS, Led.setS, KV.get_set, hne, if_false, if_true]
      refine ⟨trivial, ?_⟩
      intro p hp
      unfold putChild at hp
      split at hp
      · rw [List.mem_map] at hp
        obtain ⟨q, hq, hq2⟩ := hp
        rw [List.mem_map] at hq
        obtain ⟨q0, _, hq0⟩ := hq
        subst hq0
        split at hq2 <;> (subst hq2; rfl)
      · rw [List.mem_append] at hp
        rcases hp with hp | hp
        · rw [List.mem_map] at hp
          obtain ⟨q0, _, hq0⟩ := hp
          subst hq0; rfl
        · rw [List.mem_singleton] at hp
          subst hp; rfl

/-- **who is told when a failure receipt fails the group** (`Report`): the source chain is told to
roll back every other child, and the destinations exactly those other children that had
SUCCEEDED before this receipt (since the `fix:` commit "tell destination chains to roll back
children that had succeeded ...": the statuses as they were, not as overwritten) -/
theorem C05_report_failure_notifies (l : Led) (id : TxId) (gid : GId) (g : Global) (r : Led × StatusChange)
    (hrec : l.getS (.txRec id) = none) (hch : l.getS (.child id) = some (.gid gid))
    (hg : l.getS (.glob gid) = some (.glob g)) (hb : g.state = .begin)
    (h : tmReport l id 2 = .ok r) :
    r.2.prev = some .begin ∧ r.2.cur = .beginFailure ∧
    r.2.notifyDst = ((g.children.filter (fun p => p.1 ≠ id)).filter (fun p => p.2 == .success)).map (·.1) ∧
    r.2.notifySrc = ((g.children.map (fun p => (p.1, if p.1 = id then Status.failure else Status.beginFailure))).filter (fun p => p.1 ≠ id)).map (·.1) := by
  unfold tmReport at h
  simp only [hrec, hch, hg] at h
  split at h
  · cases h
  · split at h
    · cases h
    · rename_i l1 g' hcm
      cases h
      unfold tmChangeMulti at hcm
      simp only [hb, true_and, if_true] at hcm
      split at hcm
      · cases hcm
      · cases hcm
        simp [hb]

/-- non-vacuity: a group of two with one succeeded child; the other child's failure receipt -/
example :
    let a : TxId := ⟨⟨"1356", "c1", "s1"⟩, ⟨"1356", "c2", "s1"⟩, 1⟩
    let b : TxId := ⟨⟨"1356", "c1", "s1"⟩, ⟨"1356", "c4", "s1"⟩, 1⟩
    let gid : GId := ⟨⟨"1356", "c1", "s1"⟩, []⟩
    let g : Global := { state := .begin, height := 9, children := [(a, .success), (b, .begin)], count := 2 }
    (match tmChangeMulti {} gid g b 2 with
      | .ok (_, g') => g'.state == .beginFailure && g'.children == [(a, .beginFailure), (b, .failure)]
      | .error _ => false) = true := by decide

-- ------------------------------------------------------------------------------------ history level
/-- table fact: nothing but the "begin" event leads into BEGIN -/
theorem table_begin_event : ∀ e ∈ Gen.txFsm, e.2.2 = "BEGIN" → e.1 = "begin" := by decide

theorem step_to_begin_event (st : Status) (ev : String) (h : txFsmStep st ev = some .begin) : ev = "begin" := by
  unfold txFsmStep fsmStep at h
  cases hl : fsmLookup Gen.txFsm ev st.name with
  | none => simp [hl] at h
  | some d =>
    simp only [hl] at h
    split at h
    · cases h
    · obtain ⟨e, he, hev, _, hd⟩ := fsmLookup_mem _ _ _ _ hl
      have hdn := ofName_eq d .begin h
      have := table_begin_event e he (by rw [hd, hdn]; rfl)
      rw [← hev]; exact this

/-- no receipt type is mapped to the "begin" event -/
theorem receiptEvent_ne_begin (typ : Nat) : receiptEvent typ ≠ "begin" := by
  unfold receiptEvent
  have hall : ∀ p ∈ Gen.receipt2Event, p.2 ≠ "begin" := by decide
  cases h : Gen.receipt2Event.find? (·.1 == typ) with
  | none => simp
  | some p =>
    simp only [Option.map_some, Option.getD_some]
    exact hall p (List.mem_of_find?_eq_some h)

/-- a report never moves a group (back) into BEGIN -/
theorem tmChangeMulti_not_begin (l l' : Led) (gid : GId) (g g' : Global) (id : TxId) (typ : Nat)
    (h : tmChangeMulti l gid g id typ = .ok (l', g')) (hb : g.state ≠ .begin) : g'.state ≠ .begin := by
  unfold tmChangeMulti at h
  split at h
  · rename_i hc; exact absurd hc.1 hb
  · simp only at h
    split at h
    · cases h
    · split at h
      · split at h
        · cases h
        · rename_i gs hgs
          split at h
          · cases h
          · cases h
            simp only
            intro hgs'
            subst hgs'
            exact receiptEvent_ne_begin typ (step_to_begin_event _ _ hgs)
      · cases h; exact hb

/-- a dead group (neither BEGIN nor SUCCESS) stays dead under any report -/
theorem tmChangeMulti_dead (l l' : Led) (gid : GId) (g g' : Global) (id : TxId) (typ : Nat)
    (h : tmChangeMulti l gid g id typ = .ok (l', g')) (hd : g.state.dead = true) : g'.state.dead = true := by
  have hb : g.state ≠ .begin := by intro hh; rw [hh] at hd; cases hd
  have hs : g.state ≠ .success := by intro hh; rw [hh] at hd; cases hd
  have h1 := tmChangeMulti_not_begin l l' gid g g' id typ h hb
  have h2 := C05_failed_group_never_succeeds l l' gid g g' id typ h hb hs
  unfold Status.dead
  simp [h1, h2]

/-- what `Report` may do to the record of a group: nothing, or the report's own group made one
`changeMultiTxStatus` step -/
theorem tmReport_glob_dead {l : Led} {id : TxId} {typ : Nat} {r : Led × StatusChange}
    (e : tmReport l id typ = .ok r) (gid : GId) (st : Status) (hst : globState l gid = some st) (hd : st.dead = true) :
    ∃ st', globState r.1 gid = some st' ∧ st'.dead = true := by
  unfold tmReport at e
  split at e
  · split at e
    · cases e
    · cases e
      refine ⟨st, ?_, hd⟩
      unfold globState at *
      simp only [Led.getS_setS]
      rw [if_neg (by intro hh; cases hh)]
      exact hst
  · cases e
  · split at e
    · rename_i gid0 hch
      split at e
      · rename_i g hg
        split at e
        · cases e
        · split at e
          · cases e
          · rename_i l1 g' h0
            cases e
            by_cases hgid : gid0 = gid
            · subst hgid
              have hstate : st = g.state := by
                unfold globState at hst; rw [hg] at hst; exact (Option.some.inj hst).symm
              refine ⟨g'.state, ?_, ?_⟩
              · unfold globState; simp
              · exact tmChangeMulti_dead _ _ _ _ _ _ _ h0 (by rw [← hstate]; exact hd)
            · refine ⟨st, ?_, hd⟩
              unfold globState at *
              simp only [Led.getS_setS]
              rw [if_neg (by intro hh; exact hgid (Key.glob.inj hh)), tmChangeMulti_glob h0 gid]
              exact hst
      · cases e
    · cases e

open Bxh.Props.C02 in
/-- one handled IBTP keeps every dead group dead -/
theorem handleIBTP_glob_dead {env : Env} {l : Led} {i : Ibtp} {r : Led × String}
    (h : handleIBTP env l i = .ok r) (gid : GId) (st : Status) (hst : globState l gid = some st) (hd : st.dead = true) :
    ∃ st', globState r.1 gid = some st' ∧ st'.dead = true := by
  obtain ⟨ck, hck⟩ := handleIBTP_ok_checked h
  unfold handleIBTP at h
  simp only [hck] at h
  split at h
  · cases h
  · rename_i l1 c hr
    have hafter : r.1.getS (.glob gid) = l1.getS (.glob gid) := by
      have hn : (notifySrcDst env l1 ck.src ck.dst c ck.isBatch).getS (.glob gid) = l1.getS (.glob gid) := notifySrcDst_glob _ _ _ _ _ _ _
      have hp := processIBTP_glob (notifySrcDst env l1 ck.src ck.dst c ck.isBatch) i ck c gid
      generalize hpr : processIBTP (notifySrcDst env l1 ck.src ck.dst c ck.isBatch) i ck c = pr at h hp
      obtain ⟨l3, ret⟩ := pr
      simp only at h hp
      split at h
      · split at h
        · cases h
        · cases h
          show ((l3.post .audit).post .audit).getS _ = _
          simp only [Led.getS_post]
          rw [hp, hn]
      · cases h; rw [hp, hn]
    have key : ∃ st', globState l1 gid = some st' ∧ st'.dead = true := by
      by_cases hreq : i.typ.isRequest = true
      · simp only [hreq, if_true] at hr
        unfold beginTransaction at hr
        simp only at hr
        split at hr
        · split at hr
          · cases hr
          · rename_i r0 h0; cases hr
            exact ⟨st, by unfold globState at *; rw [tmBeginInter_glob h0]; exact hst, hd⟩
        · split at hr
          · cases hr
            exact ⟨st, by unfold globState at *; simpa [tmBegin] using hst, hd⟩
          · rename_i grp hgrp
            split at hr
            · cases hr
            · rename_i r0 h0; cases hr
              obtain ⟨hother, hown⟩ := tmBeginMulti_glob h0 gid
              by_cases hg : gid = globalId ck.src grp
              · subst hg
                unfold globState at hst
                split at hst
                · rename_i g hgl
                  cases hst
                  have hnb : g.state ≠ .begin := by intro hh; rw [hh] at hd; cases hd
                  obtain ⟨g', hg', hs'⟩ := (tmBeginMulti_glob h0 (globalId ck.src grp)).2 g hgl hnb
                  exact ⟨g'.state, by unfold globState; rw [hg'], by rw [hs']; exact hd⟩
                · cases hst
              · exact ⟨st, by unfold globState at *; rw [hother hg]; exact hst, hd⟩
      · simp only [hreq, if_false, Bool.false_eq_true] at hr
        split at hr
        · split at hr
          · cases hr
          · rename_i y hy
            cases hr
            exact tmReport_glob_dead hy gid st hst hd
        · cases hr
    obtain ⟨st', h1, h2⟩ := key
    exact ⟨st', by unfold globState at *; rw [hafter]; exact h1, h2⟩

open Bxh.Props.C02 in
/-- **a failed or timed-out group never succeeds, over any history of IBTPs**: once the global state of a
one-to-many transaction is neither BEGIN nor SUCCESS, no sequence of requests and receipts (late children of the
group, success receipts of children, traffic of other groups and pairs, valid or not) makes it BEGIN or SUCCESS again -/
theorem C05_history_failed_group_stays_failed (env : Env) (gid : GId) (is : List Ibtp) (l : Led) (st : Status)
    (hst : globState l gid = some st) (hd : st.dead = true) :
    ∃ st', globState (runIbtps env l is) gid = some st' ∧ st'.dead = true := by
  induction is generalizing l st with
  | nil => exact ⟨st, hst, hd⟩
  | cons i rest ih =>
    simp only [runIbtps, List.foldl_cons]
    cases hh : handleIBTP env l i with
    | error e => simp only; exact ih l st hst hd
    | ok r =>
      simp only
      obtain ⟨st1, h1, h2⟩ := handleIBTP_glob_dead hh gid st hst hd
      change ∃ st', globState (runIbtps env r.1 rest) gid = some st' ∧ st'.dead = true
      exact ih r.1 st1 h1 h2

-- ------------------------------------------------------------------------------------ block level
theorem globState_congr {l l' : Led} (gid : GId) (h : l'.getS (.glob gid) = l.getS (.glob gid)) : globState l' gid = globState l gid := by
  unfold globState; rw [h]

/-- one transaction of a block (with its fee step, or reverted) keeps a dead group dead -/
theorem applyTx_glob_dead (env : Env) (l : Led) (tx : Tx) (inv : Option String) (gid : GId) (st : Status)
    (hst : globState l gid = some st) (hd : st.dead = true) :
    ∃ st', globState (applyTx env l tx inv).1 gid = some st' ∧ st'.dead = true := by
  have h0 : globState (txStart l) gid = some st := by rw [globState_congr gid (txStart_getS l _)]; exact hst
  cases applyTx_effect env l tx inv with
  | nothing h => exact ⟨st, by rw [globState_congr gid (h _)]; exact h0, hd⟩
  | ibtp s i p env' r _ _ _ _ h5 h6 =>
    obtain ⟨st', h7, h8⟩ := handleIBTP_glob_dead h5 gid st h0 hd
    exact ⟨st', by rw [globState_congr gid (h6 _)]; exact h7, h8⟩
  | bvm s c m args r _ h2 h3 =>
    exact ⟨st, by rw [globState_congr gid (h3 _), globState_congr gid (applyBvm_glob h2 gid)]; exact h0, hd⟩

/-- a whole block: transactions, timeout bookkeeping, timeout step -/
theorem execBlock_glob_dead (cfg : Cfg) (n : Node) (txs : List (Tx × Bool)) (gid : GId) (st : Status)
    (hst : globState n.led gid = some st) (hd : st.dead = true) :
    ∃ st', globState (execBlock cfg n txs).1.led gid = some st' ∧ st'.dead = true := by
  unfold execBlock
  simp only
  -- the serial loop
  have loop : ∀ (ts : List (Tx × Bool)) (a : Acc) (s0 : Status), globState a.led gid = some s0 → s0.dead = true →
      ∃ s1, globState (ts.foldl (txStep cfg n.cache (n.height + 1)) a).led gid = some s1 ∧ s1.dead = true := by
    intro ts
    induction ts with
    | nil => intro a s0 h0 hd0; exact ⟨s0, h0, hd0⟩
    | cons p rest ih =>
      intro a s0 h0 hd0
      simp only [List.foldl_cons]
      obtain ⟨s1, h1, hd1⟩ : ∃ s1, globState (txStep cfg n.cache (n.height + 1) a p).led gid = some s1 ∧ s1.dead = true := by
        unfold txStep; exact applyTx_glob_dead _ a.led p.1 _ gid s0 h0 hd0
      exact ih _ s1 h1 hd1
  obtain ⟨s1, h1, hd1⟩ := loop txs { led := n.led } st hst hd
  rw [← applyTxs_eq] at h1
  -- the timeout lists are other keys; the timeout step maps any group it touches to BEGIN_ROLLBACK
  have h2 : globState (setTimeoutList cfg (applyTxs cfg n.cache (n.height + 1) n.led txs).led (n.height + 1) (txs.map (·.1))
      (applyTxs cfg n.cache (n.height + 1) n.led txs).rcpts) gid = some s1 := by
    rw [globState_congr gid (setTimeoutList_getS _ _ _ _ _ _ (by intro x e; cases e))]; exact h1
  obtain ⟨s2, h3, hd2⟩ := setTimeoutRollback_glob_dead _ (n.height + 1) gid s1 h2 hd1
  exact ⟨s2, h3, hd2⟩

/-- **a failed or timed-out group never succeeds, over any history of blocks**: whatever the blocks contain (IBTPs, transfers,
contract calls, valid or not, fees paid or not) and whatever times out in between -/
theorem C05_block_history_failed_group_stays_failed (cfg : Cfg) (blocks : List (List (Tx × Bool))) (n : Node) (gid : GId) (st : Status)
    (hst : globState n.led gid = some st) (hd : st.dead = true) :
    ∃ st', globState (runBlocks cfg n blocks).led gid = some st' ∧ st'.dead = true := by
  unfold runBlocks
  induction blocks generalizing n st with
  | nil => exact ⟨st, hst, hd⟩
  | cons b rest ih =>
    simp only [List.foldl_cons]
    obtain ⟨s1, h1, hd1⟩ := execBlock_glob_dead cfg n b gid st hst hd
    exact ih (execBlock cfg n b).1 s1 h1 hd1

/-- non-vacuity: a group whose second child could not begin is dead (BEGIN_FAILURE), and the success receipt of its
first child does not revive it -/
example :
    let svc : Svc := { ordered := true, blacklist := [], available := true }
    let l : Led := { store := [(.svc "c1" "s1", .svc svc), (.svc "c2" "s1", .svc svc)] }
    let env : Env := { cfg := {}, cache := [], height := 7, txIndex := 0 }
    let s11 : SvcId := { bxh := "1356", chain := "c1", sid := "s1" }
    let s21 : SvcId := { bxh := "1356", chain := "c2", sid := "s1" }
    let s29 : SvcId := { bxh := "1356", chain := "c2", sid := "s9" }        -- no such service: begin-failure
    let grp := [(s21, 1), (s29, 1)]
    let m (t : SvcId) (ty : IType) : Ibtp := { frm := some s11, to := some t, index := 1, typ := ty, timeout := 0, group := some grp }
    let gid := globalId s11 grp
    globState (Bxh.Props.C02.runIbtps env l [m s21 .interchain, m s29 .interchain]) gid = some .beginFailure ∧
    (globState (Bxh.Props.C02.runIbtps env l [m s21 .interchain, m s29 .interchain, { m s21 .receiptSuccess with group := none }]) gid).map Status.dead = some true := by
  decide

/-! ### the rollback notifications reach the chains' piers -/

/-- every chain's pier is handed exactly the one-to-many notifications the block lists for it -/
theorem C05_router_hands_each_pier_its_notifications (cfg : Cfg) (n : Node) (txs : List (Tx × Bool)) (d : String)
    (hm : Router.Keyed (execBlock cfg n txs).2.multiCounter) :
    (Router.deliver (execBlock cfg n txs).2 d).multi = KV.getD (execBlock cfg n txs).2.multiCounter d [] := by
  rw [Router.deliver_spec _ (Router.applyTxs_counter_keyed ..) (Router.getTimeoutMap_keyed ..) hm]

end Bxh.Props.C05
