import Bxh.Props.C04
/-!
# C05 — one-to-many cross-chain transactions are all-or-nothing

Theorems about the transaction manager's group functions of `Bxh.Exec` (`tmBeginMulti` =
`BeginMultiTXs`, `tmChangeMulti` = `changeMultiTxStatus`, `tmReport` = `Report`), for every ledger,
group and child.  The FSM table is the one regenerated from transaction_manager.go.
-/
namespace Bxh.Props.C05
open Bxh Bxh.Exec Bxh.Props.C04

theorem ofName_eq (d : String) (st : Status) (h : Status.ofName d = some st) : d = st.name := by
  unfold Status.ofName at h
  have h1 := @List.find?_some Status (fun x => x.name == d) st Status.all h
  exact (beq_iff_eq.mp h1).symm

/-- table fact: the only transitions into SUCCESS are labelled "success" -/
theorem table_success_event : ∀ e ∈ Gen.txFsm, e.2.2 = "SUCCESS" → e.1 = "success" := by decide

/-- a step that reaches SUCCESS was driven by the event "success" (a success receipt) -/
theorem step_to_success_event (st : Status) (ev : String) (h : txFsmStep st ev = some .success) : ev = "success" := by
  unfold txFsmStep fsmStep at h
  cases hl : fsmLookup Gen.txFsm ev st.name with
  | none => simp [hl] at h
  | some d =>
    simp only [hl] at h
    split at h
    · cases h
    · obtain ⟨e, he, hev, _, hd⟩ := fsmLookup_mem _ _ _ _ hl
      have hdn := ofName_eq d .success h
      have := table_success_event e he (by rw [hd, hdn]; rfl)
      rw [← hev]; exact this

/-- the event "success" can only lead to SUCCESS -/
theorem step_success_event_dst (st st' : Status) (h : txFsmStep st "success" = some st') : st' = .success := by
  cases st <;> revert h <;> cases st' <;> decide

/-- **SUCCESS needs every declared child**: whenever `changeMultiTxStatus` moves the global state to
SUCCESS, every child recorded in the group is SUCCESS and their number is the declared count -/
theorem C05_global_success_needs_all (l l' : Led) (gid : GId) (g g' : Global) (id : TxId) (typ : Nat)
    (h : tmChangeMulti l gid g id typ = .ok (l', g')) (hs : g'.state = .success) (hns : g.state ≠ .success) :
    g'.children.all (fun p => p.2 == .success) = true ∧ g'.children.length = g'.count := by
  unfold tmChangeMulti at h
  split at h
  · split at h
    · cases h
    · cases h; simp at hs
  · simp only at h
    split at h
    · cases h
    · rename_i st' hst'
      split at h
      · rename_i hfin
        split at h
        · cases h
        · rename_i gs hgs
          split at h
          · cases h
          · cases h
            simp only at hs
            subst hs
            have hev := step_to_success_event _ _ hgs
            rw [hev] at hst'
            have := step_success_event_dst _ _ hst'
            subst this
            simp only [isMultiFinished, Bool.and_eq_true, beq_iff_eq] at hfin
            exact ⟨hfin.1, hfin.2⟩
      · cases h
        exact absurd hs hns

/-- **a failed group never succeeds**: once the global state is neither BEGIN nor SUCCESS
(BEGIN_FAILURE, BEGIN_ROLLBACK, FAILURE, ROLLBACK) no report can make it SUCCESS -/
theorem C05_failed_group_never_succeeds (l l' : Led) (gid : GId) (g g' : Global) (id : TxId) (typ : Nat)
    (h : tmChangeMulti l gid g id typ = .ok (l', g')) (hb : g.state ≠ .begin) (hs : g.state ≠ .success) :
    g'.state ≠ .success := by
  unfold tmChangeMulti at h
  split at h
  · rename_i hc; exact absurd hc.1 hb
  · simp only at h
    split at h
    · cases h
    · split at h
      · split at h
        · cases h
        · rename_i gs hgs
          split at h
          · cases h
          · cases h
            simp only
            intro hgs'
            subst hgs'
            have := C04_step_is_protocol_edge _ _ _ hgs
            simp only [protocolEdges, List.mem_cons, Prod.mk.injEq, List.mem_nil_iff, or_false] at this
            rcases this with h1 | h1 | h1 | h1 | h1 | h1 | h1 <;> first | exact hb h1.1 | (cases h1.2)
      · cases h; exact hs

/-- **a failure receipt fails the whole group at once**: in state BEGIN a failure receipt of any
child sets the global state to BEGIN_FAILURE, the reporting child to FAILURE and *every* other
child — including those that had succeeded — to BEGIN_FAILURE -/
theorem C05_failure_receipt_flips_all (l l' : Led) (gid : GId) (g g' : Global) (id : TxId)
    (h : tmChangeMulti l gid g id 2 = .ok (l', g')) (hb : g.state = .begin) :
    g'.state = .beginFailure ∧
    ∀ p ∈ g'.children, (p.1 = id → p.2 = .failure) ∧ (p.1 ≠ id → p.2 = .beginFailure) := by
  unfold tmChangeMulti at h
  simp only [hb, true_and, if_true] at h
  split at h
  · cases h
  · cases h
    refine ⟨rfl, ?_⟩
    intro p hp
    simp only [List.mem_map] at hp
    obtain ⟨q, _, hq⟩ := hp
    subst hq
    by_cases hq : q.1 = id <;> simp [hq]

/-- **a child that cannot begin fails the whole group at once** (`BeginMultiTXs` with an
unavailable destination while the group is in BEGIN): global BEGIN_FAILURE, every child
BEGIN_FAILURE, the source is told about every earlier child and the destinations about exactly
those earlier children that had succeeded -/
theorem C05_begin_failure_flips_all (l : Led) (cur : Nat) (gid : GId) (g : Global) (id : TxId) (t n : Nat)
    (r : Led × StatusChange) (hg : l.getS (.glob gid) = some (.glob g)) (hb : g.state = .begin)
    (h : tmBeginMulti l cur gid id t true n = .ok r) :
    r.2.cur = .beginFailure ∧
    r.2.notifySrc = g.children.map (·.1) ∧
    r.2.notifyDst = (g.children.filter (fun p => p.2 == .success)).map (·.1) ∧
    (match r.1.getS (.glob gid) with
      | some (.glob g') => g'.state = .beginFailure ∧ ∀ p ∈ g'.children, p.2 = .beginFailure
      | _ => False) := by
  unfold tmBeginMulti at h
  simp only [hg, hb] at h
  split at h
  · cases h
  · simp only [ne_eq, not_true_eq_false, if_false, if_true] at h
    split at h
    · cases h
    · cases h
      refine ⟨rfl, rfl, rfl, ?_⟩
      have hne : Key.child id ≠ Key.glob gid := by intro hc; cases hc
      simp only [Led.getS, Led.setS, KV.get_set, hne, if_false, if_true]
      refine ⟨trivial, ?_⟩
      intro p hp
      unfold putChild at hp
      split at hp
      · rw [List.mem_map] at hp
        obtain ⟨q, hq, hq2⟩ := hp
        rw [List.mem_map] at hq
        obtain ⟨q0, _, hq0⟩ := hq
        subst hq0
        split at hq2 <;> (subst hq2; rfl)
      · rw [List.mem_append] at hp
        rcases hp with hp | hp
        · rw [List.mem_map] at hp
          obtain ⟨q0, _, hq0⟩ := hp
          subst hq0; rfl
        · rw [List.mem_singleton] at hp
          subst hp; rfl

/-- **who is told when a failure receipt fails the group** (`Report`): the source chain is told to
roll back every other child, and the destinations exactly those other children that had
SUCCEEDED before this receipt (since the `fix:` commit "tell destination chains to roll back
children that had succeeded ...": the statuses as they were, not as overwritten) -/
theorem C05_report_failure_notifies (l : Led) (id : TxId) (gid : GId) (g : Global) (r : Led × StatusChange)
    (hrec : l.getS (.txRec id) = none) (hch : l.getS (.child id) = some (.gid gid))
    (hg : l.getS (.glob gid) = some (.glob g)) (hb : g.state = .begin)
    (h : tmReport l id 2 = .ok r) :
    r.2.prev = some .begin ∧ r.2.cur = .beginFailure ∧
    r.2.notifyDst = ((g.children.filter (fun p => p.1 ≠ id)).filter (fun p => p.2 == .success)).map (·.1) ∧
    r.2.notifySrc = ((g.children.map (fun p => (p.1, if p.1 = id then Status.failure else Status.beginFailure))).filter (fun p => p.1 ≠ id)).map (·.1) := by
  unfold tmReport at h
  simp only [hrec, hch, hg] at h
  split at h
  · cases h
  · split at h
    · cases h
    · rename_i l1 g' hcm
      cases h
      unfold tmChangeMulti at hcm
      simp only [hb, true_and, if_true] at hcm
      split at hcm
      · cases hcm
      · cases hcm
        simp [hb]

/-- non-vacuity: a group of two with one succeeded child; the other child's failure receipt -/
example :
    let a : TxId := ⟨⟨"1356", "c1", "s1"⟩, ⟨"1356", "c2", "s1"⟩, 1⟩
    let b : TxId := ⟨⟨"1356", "c1", "s1"⟩, ⟨"1356", "c4", "s1"⟩, 1⟩
    let gid : GId := ⟨⟨"1356", "c1", "s1"⟩, []⟩
    let g : Global := { state := .begin, height := 9, children := [(a, .success), (b, .begin)], count := 2 }
    (match tmChangeMulti {} gid g b 2 with
      | .ok (_, g') => g'.state == .beginFailure && g'.children == [(a, .beginFailure), (b, .failure)]
      | .error _ => false) = true := by decide

end Bxh.Props.C05
