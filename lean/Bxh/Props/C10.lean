import Bxh.Proofs.LedgerLemmas
import Bxh.Proofs.SortLemmas
import Bxh.Model.Merkle
/-!
# C10 — state, transaction and receipt roots commit to exactly what was executed
State-root part: theorems about `flush` of `Bxh.Ledger` (model of `FlushDirtyData`,
`getJournalIfModified`, `getStateJournalAndComputeHash`, `getDirtyData`).  The hash is a parameter:
sensitivity is stated as "the pre-images differ", i.e. equal roots would be a collision of `H`.
-/
namespace Bxh.Props.C10
open Bxh Bxh.Ledger

def addrLe (x y : AcctPre) : Bool := decide (x.addr ≤ y.addr)
def keyLe (x y : String × Bytes) : Bool := decide (x.1 ≤ y.1)

theorem sortAccts_eq : sortAccts = fun l => l.mergeSort addrLe := rfl
theorem sortKeys_eq : sortKeys = fun l => l.mergeSort keyLe := rfl

/-- **map order cannot reach the root (accounts)**: sorting by address makes the order in which the
block's account map is iterated irrelevant, as long as an address occurs once -/
theorem C10_sortAccts_perm (l₁ l₂ : List AcctPre) (hp : l₁.Perm l₂)
    (huniq : ∀ a b, a ∈ l₁ → b ∈ l₁ → a.addr = b.addr → a = b) : sortAccts l₁ = sortAccts l₂ := by
  rw [sortAccts_eq]
  apply mergeSort_eq_of_perm addrLe l₁ l₂
  · intro a b c h1 h2; simp only [addrLe, decide_eq_true_eq] at *; exact Nat.le_trans h1 h2
  · intro a b; simp only [addrLe, Bool.or_eq_true, decide_eq_true_eq]; exact Nat.le_total a.addr b.addr
  · intro a b ha hb h1 h2
    simp only [addrLe, decide_eq_true_eq] at h1 h2
    exact huniq a b ha hb (Nat.le_antisymm h1 h2)
  · exact hp

/-- **map order cannot reach the root (storage keys)** -/
theorem C10_sortKeys_perm (l₁ l₂ : List (String × Bytes)) (hp : l₁.Perm l₂)
    (huniq : ∀ a b, a ∈ l₁ → b ∈ l₁ → a.1 = b.1 → a = b) : sortKeys l₁ = sortKeys l₂ := by
  rw [sortKeys_eq]
  apply mergeSort_eq_of_perm keyLe l₁ l₂
  · intro a b c h1 h2; simp only [keyLe, decide_eq_true_eq] at *; exact String.le_trans h1 h2
  · intro a b; simp only [keyLe, Bool.or_eq_true, decide_eq_true_eq]; exact String.le_total a.1 b.1
  · intro a b ha hb h1 h2
    simp only [keyLe, decide_eq_true_eq] at h1 h2
    exact huniq a b ha hb (String.le_antisymm h1 h2)
  · exact hp

/-- the changed-key list of an account only depends on the dirty set up to permutation -/
theorem changedKeys_perm (acc : Acct) (d' : KV String Bytes) (hp : acc.dirtyState.Perm d') :
    (changedKeys acc).Perm (changedKeys { acc with dirtyState := d' }) := by
  unfold changedKeys
  exact hp.filter _

/-- root pre-image of one account is invariant under reordering of its dirty set -/
theorem C10_account_preimage_perm (a : Addr) (acc : Acct) (d' : KV String Bytes)
    (hp : acc.dirtyState.Perm d')
    (huniq : ∀ x y, x ∈ acc.dirtyState → y ∈ acc.dirtyState → x.1 = y.1 → x = y) :
    ({ addr := a, acct := acc.dirtyAcc, stateData := sortKeys (changedKeys acc) } : AcctPre) =
    { addr := a, acct := acc.dirtyAcc, stateData := sortKeys (changedKeys { acc with dirtyState := d' }) } := by
  congr 1
  apply C10_sortKeys_perm _ _ (changedKeys_perm acc d' hp)
  intro x y hx hy hxy
  unfold changedKeys at hx hy
  exact huniq x y (List.mem_filter.mp hx).1 (List.mem_filter.mp hy).1 hxy

/-- **sensitivity (collision reduction)**: the root is `H` of the pre-image; two flushes whose
pre-images differ have different roots unless `H` collides on exactly those two pre-images -/
theorem C10_root_is_hash_of_preimage (H : RootPre → String) (l : L) :
    (flush H l).2.root = H (flush H l).2.pre := by
  simp [flush]

theorem C10_sensitivity_reduction (H : RootPre → String) (l₁ l₂ : L)
    (hdiff : (flush H l₁).2.pre ≠ (flush H l₂).2.pre) :
    (flush H l₁).2.root ≠ (flush H l₂).2.root ∨
    ∃ p q : RootPre, p ≠ q ∧ H p = H q ∧ p = (flush H l₁).2.pre ∧ q = (flush H l₂).2.pre := by
  by_cases h : (flush H l₁).2.root = (flush H l₂).2.root
  · right
    refine ⟨_, _, hdiff, ?_, rfl, rfl⟩
    rw [← C10_root_is_hash_of_preimage H l₁, ← C10_root_is_hash_of_preimage H l₂]; exact h
  · left; exact h

/-- **the real pre-image encoding is not injective** (recorded finding
`C10/state-root-insensitive/ambiguous-key-value-concatenation`): the account state hash is computed
from `stateDataText`, the plain concatenation of keys and values.  Different sets of changed keys
have the same text — a key/value boundary can shift, and deleting the empty key adds nothing — so
the sensitivity clause of the property fails for the real `H` without any SHA-256 collision.
Both pairs are replayed on the real ledger by corpus/ledger/c10-*.ops. -/
theorem C10_concatenation_collision :
    stateDataText [("k", some "1v1")] = stateDataText [("k1", some "v1")] ∧
    ([("k", some "1v1")] : List (String × Bytes)) ≠ [("k1", some "v1")] ∧
    stateDataText [("", none)] = stateDataText [] ∧
    ([("", none)] : List (String × Bytes)) ≠ [] := by decide

/-- what does hold for the real encoding: two lists of changed keys with *different texts* give
different account hashes unless SHA-256 collides (so sensitivity holds for every perturbation that
changes the text, e.g. any change of a value's length-preserving content) -/
theorem C10_state_text_sensitivity (h : String → String) (sd₁ sd₂ : List (String × Bytes))
    (hd : stateDataText sd₁ ≠ stateDataText sd₂) :
    h (stateDataText sd₁) ≠ h (stateDataText sd₂) ∨ ∃ x y, x ≠ y ∧ h x = h y := by
  by_cases he : h (stateDataText sd₁) = h (stateDataText sd₂)
  · exact Or.inr ⟨_, _, hd, he⟩
  · exact Or.inl he

/-- the previous root is part of the pre-image: the root chain commits to the whole history -/
theorem C10_prev_root_in_preimage (H : RootPre → String) (l : L) : (flush H l).2.pre.prev = l.prevRoot := by
  simp [flush]

end Bxh.Props.C10

namespace Bxh.Props.C10
open Bxh.Merkle

/-! ### transaction / receipt / timeout roots (Merkle construction) -/

/-- one level of the tree is injective on lists of equal length, or exhibits a collision of the
node hash `H2` -/
theorem C10_levelUp_sensitive {α : Type} (H2 : α → α → α) :
    ∀ (l₁ l₂ : List α), l₁.length = l₂.length → levelUp H2 l₁ = levelUp H2 l₂ →
      l₁ = l₂ ∨ ∃ a b c d, (a, b) ≠ (c, d) ∧ H2 a b = H2 c d
  | [], [], _, _ => Or.inl rfl
  | [a], [b], _, h => by
    simp only [levelUp, List.cons.injEq, and_true] at h
    by_cases hab : a = b
    · left; rw [hab]
    · right; exact ⟨a, a, b, b, by simp [hab], h⟩
  | a :: b :: r₁, c :: d :: r₂, hl, h => by
    simp only [levelUp, List.cons.injEq] at h
    simp only [List.length_cons, Nat.add_right_cancel_iff] at hl
    by_cases hp : (a, b) = (c, d)
    · rcases C10_levelUp_sensitive H2 r₁ r₂ hl h.2 with hr | hc
      · left
        simp only [Prod.mk.injEq] at hp
        rw [hp.1, hp.2, hr]
      · right; exact hc
    · right; exact ⟨a, b, c, d, hp, h.1⟩
  | [], _ :: _, hl, _ => by simp at hl
  | _ :: _, [], hl, _ => by simp at hl
  | [_], _ :: _ :: _, hl, _ => by simp at hl
  | _ :: _ :: _, [_], hl, _ => by simp at hl

/-- known property of the construction (cbergoon/merkletree): a list of odd length and the same
list with its last leaf repeated have the same root, for every node hash.  Unreachable for tx,
receipt and timeout roots as long as the leaves of one block are distinct. -/
theorem C10_merkle_odd_duplication {α : Type} (H2 : α → α → α) (a b c : α) :
    root H2 [a, b, c] = root H2 [a, b, c, c] := by
  simp [root, dupLast, build, levelUp]

/-- non-vacuity of the sensitivity statement: swapping two leaves changes the level above
unless `H2` collides -/
example {α : Type} (H2 : α → α → α) (a b : α) (hab : a ≠ b) (h : levelUp H2 [a, b] = levelUp H2 [b, a]) :
    ∃ x y z w, (x, y) ≠ (z, w) ∧ H2 x y = H2 z w := by
  rcases C10_levelUp_sensitive H2 [a, b] [b, a] rfl h with h1 | h2
  · simp only [List.cons.injEq, and_true] at h1; exact absurd h1.1 hab
  · exact h2

/-! ### the whole tree (session 9) -/

theorem levelUp_length {α : Type} (H2 : α → α → α) : ∀ l : List α, (levelUp H2 l).length = (l.length + 1) / 2
  | [] => by simp [levelUp]
  | [_] => by simp [levelUp]
  | _ :: _ :: rest => by
    have := levelUp_length H2 rest
    simp only [levelUp, List.length_cons]
    omega

theorem dupLast_eq {α : Type} : ∀ (l : List α) (x : α), l ≠ [] → l.getLast? = some x → dupLast l = l ++ [x]
  | [], _, h, _ => absurd rfl h
  | [a], x, _, hx => by simp at hx; subst hx; rfl
  | a :: b :: r, x, _, hx => by
    have : (b :: r).getLast? = some x := by simpa [List.getLast?_cons_cons] using hx
    have ih := dupLast_eq (b :: r) x (by simp) this
    show a :: dupLast (b :: r) = _
    rw [ih]; rfl

theorem dupLast_injective {α : Type} (l₁ l₂ : List α) (hl : l₁.length = l₂.length) (h : dupLast l₁ = dupLast l₂) : l₁ = l₂ := by
  cases l₁ with
  | nil => cases l₂ with
    | nil => rfl
    | cons _ _ => simp at hl
  | cons a r =>
    cases l₂ with
    | nil => simp at hl
    | cons c s =>
      obtain ⟨x, hx⟩ : ∃ x, (a :: r).getLast? = some x := ⟨(a :: r).getLast (by simp), List.getLast?_eq_some_getLast (by simp)⟩
      obtain ⟨y, hy⟩ : ∃ y, (c :: s).getLast? = some y := ⟨(c :: s).getLast (by simp), List.getLast?_eq_some_getLast (by simp)⟩
      rw [dupLast_eq _ x (by simp) hx, dupLast_eq _ y (by simp) hy] at h
      exact List.append_inj_left h hl

/-- the tree above the (even) leaf level: two levels of equal length with the same result are equal, or the node hash collides -/
theorem build_sensitive {α : Type} (H2 : α → α → α) : ∀ (f : Nat) (l₁ l₂ : List α) (r : α), l₁.length = l₂.length →
    build H2 f l₁ = some r → build H2 f l₂ = some r → l₁ = l₂ ∨ ∃ a b c d, (a, b) ≠ (c, d) ∧ H2 a b = H2 c d := by
  intro f
  induction f with
  | zero => intro l₁ l₂ r _ h; simp [build] at h
  | succ f ih =>
    intro l₁ l₂ r hl h1 h2
    match l₁, l₂, hl with
    | [], [], _ => exact Or.inl rfl
    | [a], [c], _ =>
      simp only [build, Option.some.injEq] at h1 h2
      by_cases hac : a = c
      · left; rw [hac]
      · right; exact ⟨a, a, c, c, by simp [hac], h1.trans h2.symm⟩
    | [a, b], [c, d], _ =>
      simp only [build, Option.some.injEq] at h1 h2
      by_cases hp : (a, b) = (c, d)
      · left; simp only [Prod.mk.injEq] at hp; rw [hp.1, hp.2]
      · right; exact ⟨a, b, c, d, hp, h1.trans h2.symm⟩
    | a :: b :: c :: r₁, d :: e :: g :: r₂, hl =>
      simp only [build] at h1 h2
      have hlen : (levelUp H2 (a :: b :: c :: r₁)).length = (levelUp H2 (d :: e :: g :: r₂)).length := by
        rw [levelUp_length, levelUp_length, hl]
      rcases ih _ _ r hlen h1 h2 with he | hc
      · exact C10_levelUp_sensitive H2 _ _ hl he
      · exact Or.inr hc
    | [], _ :: _, hl => simp at hl
    | _ :: _, [], hl => simp at hl
    | [_], _ :: _ :: _, hl => simp at hl
    | _ :: _ :: _, [_], hl => simp at hl
    | [_, _], _ :: _ :: _ :: _, hl => simp at hl
    | _ :: _ :: _ :: _, [_, _], hl => simp at hl

/-- **the whole tree**: two lists of leaves of the same length — the transactions (or receipts, or timeout entries) of a block with
any one of them replaced, or two of them swapped — have the same root only if they are the same list, or the node hash `H2`
(SHA-256 of left ‖ right) collides on two different pairs that the two computations actually hashed -/
theorem C10_merkle_root_sensitive {α : Type} (H2 : α → α → α) (l₁ l₂ : List α) (r : α) (hl : l₁.length = l₂.length)
    (h1 : root H2 l₁ = some r) (h2 : root H2 l₂ = some r) :
    l₁ = l₂ ∨ ∃ a b c d, (a, b) ≠ (c, d) ∧ H2 a b = H2 c d := by
  cases l₁ with
  | nil => cases l₂ with
    | nil => exact Or.inl rfl
    | cons _ _ => simp at hl
  | cons x xs =>
    cases l₂ with
    | nil => simp at hl
    | cons y ys =>
      simp only [root] at h1 h2
      rw [← hl] at h2
      by_cases hodd : ((x :: xs).length % 2 == 1) = true
      · simp only [hodd, if_true] at h1 h2
        have hdl : (dupLast (x :: xs)).length = (dupLast (y :: ys)).length := by
          obtain ⟨u, hu⟩ : ∃ u, (x :: xs).getLast? = some u := ⟨(x :: xs).getLast (by simp), List.getLast?_eq_some_getLast (by simp)⟩
          obtain ⟨v, hv⟩ : ∃ v, (y :: ys).getLast? = some v := ⟨(y :: ys).getLast (by simp), List.getLast?_eq_some_getLast (by simp)⟩
          rw [dupLast_eq _ u (by simp) hu, dupLast_eq _ v (by simp) hv]
          simp only [List.length_append, hl, List.length_singleton]
        rw [← hdl] at h2
        rcases build_sensitive H2 _ _ _ r hdl h1 h2 with he | hc
        · exact Or.inl (dupLast_injective _ _ hl he)
        · exact Or.inr hc
      · simp only [hodd] at h1 h2
        simp only [Bool.false_eq_true, if_false] at h1 h2
        rw [← hl] at h2
        exact build_sensitive H2 _ _ _ r hl h1 h2

/-- the root of a non-empty list of leaves exists (the fuel of the model's recursion suffices) -/
theorem build_total {α : Type} (H2 : α → α → α) : ∀ (f : Nat) (l : List α), 1 ≤ l.length → l.length ≤ f → (build H2 f l).isSome = true := by
  intro f
  induction f with
  | zero => intro l h1 h2; omega
  | succ f ih =>
    intro l h1 h2
    match l with
    | [] => simp at h1
    | [a] => rfl
    | [a, b] => rfl
    | a :: b :: c :: r =>
      simp only [build]
      apply ih
      · rw [levelUp_length]; simp only [List.length_cons]; omega
      · rw [levelUp_length]; simp only [List.length_cons] at h2 ⊢; omega

/-- … hence every non-empty block has a root -/
theorem C10_merkle_root_exists {α : Type} (H2 : α → α → α) (l : List α) (h : l ≠ []) : (root H2 l).isSome = true := by
  cases l with
  | nil => exact absurd rfl h
  | cons x xs =>
    simp only [root]
    apply build_total
    · split
      · obtain ⟨u, hu⟩ : ∃ u, (x :: xs).getLast? = some u := ⟨(x :: xs).getLast (by simp), List.getLast?_eq_some_getLast (by simp)⟩
        rw [dupLast_eq _ u (by simp) hu]; simp
      · simp
    · omega

/-- non-vacuity: two blocks of three transactions that differ in the middle one -/
example {α : Type} (H2 : α → α → α) (a b b' c : α) (hb : b ≠ b') (r : α)
    (h1 : root H2 [a, b, c] = some r) (h2 : root H2 [a, b', c] = some r) :
    ∃ x y z w, (x, y) ≠ (z, w) ∧ H2 x y = H2 z w := by
  rcases C10_merkle_root_sensitive H2 [a, b, c] [a, b', c] r rfl h1 h2 with h | h
  · simp only [List.cons.injEq, true_and, and_true] at h; exact absurd h hb
  · exact h

end Bxh.Props.C10
