import Bxh.Model.Dispatch
/-!
# C17 — internal and privileged entry points reject unauthorised callers

The method table `Bxh.Gen.contractMethods` (every exported method of every registered contract,
with the permission calls found in its body) and `Bxh.Gen.stubMethods` are regenerated from /repo
on every run; the table theorems below are re-checked against them by `decide`.

What is proved: (1) the dispatcher never resolves a method promoted from the Stub toolbox, and
everything it resolves returns a `*boltvm.Response`; (2) every entry point that the property names
as contract-to-contract only carries, in the current source, a caller gate that admits specific
addresses only (`PermissionSpecific` alone, or `checkCurrentCaller`) — except the three recorded
findings, which are stated as theorems too; (3) the permission gate's decision function: a
specific-only gate admits exactly the listed addresses, so an external account (not a contract
address) is refused.  That the listed addresses are contract addresses, and everything behind the
gate, is decided on the real node by the correspondence run (every method called directly by
accounts of every role, state dumps before and after).
-/
namespace Bxh.Props.C17
open Bxh.Gen Bxh.Dispatch

/-- contract-to-contract entry points named by the property (Go type name, method) -/
def internalEntries : List (String × String) := [
  ("TransactionManager", "Begin"), ("TransactionManager", "BeginMultiTXs"), ("TransactionManager", "BeginInterBitXHub"),
  ("TransactionManager", "Report"),
  ("Governance", "SubmitProposal"), ("Governance", "LockLowPriorityProposal"), ("Governance", "UnLockLowPriorityProposal"),
  ("Governance", "EndObjProposal"), ("Governance", "UpdateAvailableElectorateNum"),
  ("AppchainManager", "Manage"), ("AppchainManager", "PauseAppchain"), ("AppchainManager", "UnPauseAppchain"),
  ("ServiceManager", "Manage"), ("ServiceManager", "UnPauseChainService"), ("ServiceManager", "RecordInvokeService"),
  ("RuleManager", "Manage"), ("RuleManager", "ClearRule"), ("RuleManager", "RegisterRuleFirst"),
  ("RoleManager", "Manage"), ("RoleManager", "UpdateAppchainAdmin"), ("RoleManager", "FreeAccount"), ("RoleManager", "OccupyAccount"),
  ("RoleManager", "PauseAuditAdmin"), ("RoleManager", "PauseAuditAdminBinding"), ("RoleManager", "RestoreAuditAdminBinding"),
  ("NodeManager", "Manage"), ("NodeManager", "ManageBindNode"), ("NodeManager", "BindNode"), ("NodeManager", "UnbindNode"),
  ("DappManager", "Manage"), ("GovStrategy", "Manage"), ("GovStrategy", "UpdateProposalStrategyByRolesChange")]

/-- entry points of the same kind whose body has no caller gate in its own text; the first two
delegate to a helper that checks the caller (decided dynamically), the last three are the
recorded findings -/
def ungatedEntries : List (String × String) := [
  ("ServiceManager", "PauseChainService"), ("ServiceManager", "ClearChainService"),
  ("InterchainManager", "Register"), ("InterchainManager", "DeleteInterchain"), ("Governance", "ZeroPermission")]

def isSpecificOnlyGate : Guard → Bool
  | .perm ps _ => ps == ["PermissionSpecific"]
  | .currentCaller => true
  | .other _ => false

def gated (tbl : List MInfo) (e : String × String) : Bool :=
  match tbl.find? (fun m => m.contract == e.1 && m.name == e.2) with
  | some m => m.declared && m.guards.any isSpecificOnlyGate
  | none => false

/-- (1a) nothing promoted from the Stub interface is dispatched -/
theorem C17_stub_toolbox_not_dispatched :
    contractMethods.all (fun m => !m.stubPromoted || !isContractMethod stubMethods m) = true := by decide +kernel

/-- (1b) for every contract and name, what the dispatcher resolves returns a Response and is not a Stub method -/
theorem C17_resolve_sound (c name : String) (m : MInfo)
    (h : resolve contractMethods stubMethods c name = some m) :
    m.outs = responseOut ∧ m.stubPromoted = false := by
  unfold resolve at h
  cases hf : contractMethods.find? (fun m => m.contract == c && m.name == name) with
  | none => simp [hf] at h
  | some m' =>
    simp only [hf, Option.filter] at h
    split at h
    · rename_i hic
      cases h
      have hmem : m ∈ contractMethods := List.mem_of_find?_eq_some hf
      have hall := List.all_eq_true.mp C17_stub_toolbox_not_dispatched m hmem
      have houts : m.outs = responseOut := by
        have := hic
        simp only [isContractMethod, Bool.and_eq_true, beq_iff_eq] at this
        exact this.1
      refine ⟨houts, ?_⟩
      cases hs : m.stubPromoted
      · rfl
      · rw [hs, hic] at hall
        simp at hall
    · cases h

/-- (2a) every contract-to-contract entry point named by the property has a specific-callers-only gate in the current source -/
theorem C17_internal_entries_gated : internalEntries.all (gated contractMethods) = true := by decide +kernel

/-- (2b) the entry points without a gate of their own are exactly the listed ones (a new ungated
internal entry, or a gate removed from one above, changes one of these two theorems) -/
theorem C17_ungated_entries_have_no_gate : ungatedEntries.all (fun e => !gated contractMethods e) = true := by decide +kernel

/-- (3a) a specific-only gate admits exactly the listed addresses -/
theorem C17_specific_gate_iff (regulated regulator : String) (isAdmin : Option Bool) (l : List String) :
    checkPermission [.specific] regulated regulator isAdmin (some l) = .allowed ↔ regulator ∈ l := by
  simp only [checkPermission]
  constructor
  · intro h
    split at h
    · rename_i hc; simpa using hc
    · cases h
  · intro h
    simp [h]

/-- (3b) so an external account — any address outside the gate's list — is refused, whatever its role -/
theorem C17_specific_gate_refuses_outsiders (regulated regulator : String) (isAdmin : Option Bool) (l : List String)
    (h : regulator ∉ l) : checkPermission [.specific] regulated regulator isAdmin (some l) ≠ .allowed :=
  fun hc => h ((C17_specific_gate_iff regulated regulator isAdmin l).mp hc)

/-- (3c) self-or-admin gate: allowed iff the caller is the regulated party itself or an available governance admin -/
theorem C17_self_admin_gate_iff (regulated regulator : String) (adm : Bool) (sp : Option (List String)) :
    checkPermission [.self, .admin] regulated regulator (some adm) sp = .allowed ↔ (regulated = regulator ∨ adm = true) := by
  simp only [checkPermission]
  by_cases h1 : regulated = regulator
  · simp [h1]
  · cases adm <;> simp [h1]

/-- (3d) the gate never answers `allowed` when no permission is listed, and an unknown permission is an error -/
theorem C17_empty_gate_denies (a b : String) (adm : Option Bool) (sp : Option (List String)) :
    checkPermission [] a b adm sp = .denied := rfl

/-- non-vacuity: the table has the transaction manager's Begin with its caller gate, and the dispatcher resolves it -/
example : (resolve contractMethods stubMethods "TransactionManager" "Begin").isSome = true ∧
    gated contractMethods ("TransactionManager", "Begin") = true ∧
    (resolve contractMethods stubMethods "InterchainManager" "PostInterchainEvent").isNone = true := by decide +kernel

/-- the entry point through which the inter-broker contract hands an IBTP to the interchain contract asks for its caller
(since the `fix:` commit "HandleIBTPData takes only the inter-broker contract's requests of this hub's own services"; before, any
account could have an IBTP processed there without a proof check).  Re-checked against the regenerated method table. -/
theorem C17_ibtp_data_entry_asks_for_its_caller :
    contractMethods.any (fun m => m.contract == "InterchainManager" && m.name == "HandleIBTPData" && m.declared &&
      m.guards.any (fun g => match g with | .other s => s == "x.CurrentCaller()" | .currentCaller => true | _ => false)) = true := by
  decide +kernel

end Bxh.Props.C17
