import Bxh.Model.Chain
/-!
# C09 — the stored chain is hash-linked and every index agrees with the executed blocks
Theorems about `persist` and the getters of `Bxh.Chain` (model of `PersistExecutionResult`,
`GetBlock`, `GetBlockByHash`, `GetBlockHash`, `GetTransactionMeta`, `GetChainMeta`).
-/
namespace Bxh.Props.C09
open Bxh Bxh.Chain

/-- tables and index agree with the cached head: what `ledger.New` establishes and `persist` keeps -/
def Consistent (n : Node) : Prop :=
  n.blocks = n.cmeta.1 ∧ n.tbl.bodies.length = n.cmeta.1 ∧ n.tbl.txs.length = n.cmeta.1 ∧
  n.tbl.inter.length = n.cmeta.1

/-- **hash link and head**: the block persisted next has height head+1, its parent is the previous
head hash, and the chain meta afterwards names it with the cumulative interchain count -/
theorem C09_persist_links (n n' : Node) (b : Blk) (txs : List String) (ctr : KV String Nat)
    (h : persist n txs ctr = some (n', b)) :
    b.height = n.cmeta.1 + 1 ∧ b.parent = n.cmeta.2.1 ∧ b.txs = txs ∧
    n'.cmeta = (b.height, b.hash, countOf b + n.cmeta.2.2) ∧ n'.idx.metaDB = some n'.cmeta := by
  unfold persist at h
  simp only at h
  split at h
  · cases h
  · cases h
    simp [mkBlk, applyBlk, indexBatch]

/-- the chain-side effect of a block whose height is head+1 on a consistent node: every lookup finds it -/
theorem applyBlk_lookup (n : Node) (b : Blk) (hc : Consistent n) (hh : b.height = n.cmeta.1 + 1) :
    getBlock (applyBlk n b) b.height false = some b ∧ getBlock (applyBlk n b) b.height true = some b ∧
    getByHash (applyBlk n b) b.hash = some b ∧ getBlockHash (applyBlk n b) b.height = some b.hash ∧
    getIMeta (applyBlk n b) b.height = some b.counter ∧ getTxCount (applyBlk n b) b.height = some b.txs.length := by
  obtain ⟨hb, hbod, htx, hint⟩ := hc
  have e1 : (n.tbl.append b).bodies[n.cmeta.1]? = some b := by simp [Tables.append, ← hbod]
  have e2 : (n.tbl.append b).txs[n.cmeta.1]? = some b := by simp [Tables.append, ← htx]
  have e3 : (n.tbl.append b).inter[n.cmeta.1]? = some b := by simp [Tables.append, ← hint]
  have eb : ({ height := n.cmeta.1 + 1, hash := b.hash, parent := b.parent, txs := b.txs, counter := b.counter } : Blk) = b := by
    cases b; simp_all
  simp [getBlock, getByHash, getBlockHash, getIMeta, getTxCount, applyBlk, indexBatch, hh, e1, e2, e3, eb]

/-- **lookups agree**: after persisting on a consistent node the new block is found by height (both
modes), by hash and by the height→hash index, with its interchain metadata and transaction count -/
theorem C09_persist_lookup (n n' : Node) (b : Blk) (txs : List String) (ctr : KV String Nat)
    (hc : Consistent n) (h : persist n txs ctr = some (n', b)) :
    getBlock n' b.height false = some b ∧ getBlock n' b.height true = some b ∧
    getByHash n' b.hash = some b ∧ getBlockHash n' b.height = some b.hash ∧
    getIMeta n' b.height = some b.counter ∧ getTxCount n' b.height = some b.txs.length := by
  unfold persist at h
  simp only at h
  split at h
  · cases h
  · cases h
    have := applyBlk_lookup n (mkBlk n txs ctr) hc rfl
    simpa [getBlock, getByHash, getBlockHash, getIMeta, getTxCount] using this

/-- persisting keeps the node consistent -/
theorem C09_persist_consistent (n n' : Node) (b : Blk) (txs : List String) (ctr : KV String Nat)
    (hc : Consistent n) (h : persist n txs ctr = some (n', b)) : Consistent n' := by
  obtain ⟨hb, hbod, htx, hint⟩ := hc
  unfold persist at h
  simp only at h
  split at h
  · cases h
  · cases h
    simp [Consistent, applyBlk, mkBlk, Tables.append, hb, hbod, htx, hint]

/-- on a consistent node the append is always in order (no panic) -/
theorem C09_persist_total (n : Node) (txs : List String) (ctr : KV String Nat) (hc : Consistent n) :
    (persist n txs ctr).isSome = true := by
  unfold persist
  simp [hc.1]

example : Consistent ({} : Node) := by simp [Consistent]

end Bxh.Props.C09
