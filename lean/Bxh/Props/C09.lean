import Bxh.Model.Chain
import Bxh.Proofs.ChainRollback
import Bxh.Proofs.ChainLinked
/-!
# C09 — the stored chain is hash-linked and every index agrees with the executed blocks
Theorems about `persist` and the getters of `Bxh.Chain` (model of `PersistExecutionResult`,
`GetBlock`, `GetBlockByHash`, `GetBlockHash`, `GetTransactionMeta`, `GetChainMeta`).
-/
namespace Bxh.Props.C09
open Bxh Bxh.Chain

/-- tables and index agree with the cached head: what `ledger.New` establishes and `persist` keeps -/
def Consistent (n : Node) : Prop :=
  n.blocks = n.cmeta.1 ∧ n.tbl.bodies.length = n.cmeta.1 ∧ n.tbl.txs.length = n.cmeta.1 ∧
  n.tbl.inter.length = n.cmeta.1

/-- **hash link and head**: the block persisted next has height head+1, its parent is the previous
head hash, and the chain meta afterwards names it with the cumulative interchain count -/
theorem C09_persist_links (n n' : Node) (b : Blk) (txs : List String) (ctr : KV String Nat)
    (h : persist n txs ctr = some (n', b)) :
    b.height = n.cmeta.1 + 1 ∧ b.parent = n.cmeta.2.1 ∧ b.txs = txs ∧
    n'.cmeta = (b.height, b.hash, countOf b + n.cmeta.2.2) ∧ n'.idx.metaDB = some n'.cmeta := by
  unfold persist at h
  simp only at h
  split at h
  · cases h
  · cases h
    simp [mkBlk, applyBlk, indexBatch]

/-- the chain-side effect of a block whose height is head+1 on a consistent node: every lookup finds it -/
theorem applyBlk_lookup (n : Node) (b : Blk) (hc : Consistent n) (hh : b.height = n.cmeta.1 + 1) :
    getBlock (applyBlk n b) b.height false = some b ∧ getBlock (applyBlk n b) b.height true = some b ∧
    getByHash (applyBlk n b) b.hash = some b ∧ getBlockHash (applyBlk n b) b.height = some b.hash ∧
    getIMeta (applyBlk n b) b.height = some b.counter ∧ getTxCount (applyBlk n b) b.height = some b.txs.length := by
  obtain ⟨hb, hbod, htx, hint⟩ := hc
  have e1 : (n.tbl.append b).bodies[n.cmeta.1]? = some b := by simp [Tables.append, ← hbod]
  have e2 : (n.tbl.append b).txs[n.cmeta.1]? = some b := by simp [Tables.append, ← htx]
  have e3 : (n.tbl.append b).inter[n.cmeta.1]? = some b := by simp [Tables.append, ← hint]
  have eb : ({ height := n.cmeta.1 + 1, hash := b.hash, parent := b.parent, txs := b.txs, counter := b.counter } : Blk) = b := by
    cases b; simp_all
  simp [getBlock, getByHash, getBlockHash, getIMeta, getTxCount, applyBlk, indexBatch, hh, e1, e2, e3, eb]

/-- **lookups agree**: after persisting on a consistent node the new block is found by height (both
modes), by hash and by the height→hash index, with its interchain metadata and transaction count -/
theorem C09_persist_lookup (n n' : Node) (b : Blk) (txs : List String) (ctr : KV String Nat)
    (hc : Consistent n) (h : persist n txs ctr = some (n', b)) :
    getBlock n' b.height false = some b ∧ getBlock n' b.height true = some b ∧
    getByHash n' b.hash = some b ∧ getBlockHash n' b.height = some b.hash ∧
    getIMeta n' b.height = some b.counter ∧ getTxCount n' b.height = some b.txs.length := by
  unfold persist at h
  simp only at h
  split at h
  · cases h
  · cases h
    have := applyBlk_lookup n (mkBlk n txs ctr) hc rfl
    simpa [getBlock, getByHash, getBlockHash, getIMeta, getTxCount] using this

/-- persisting keeps the node consistent -/
theorem C09_persist_consistent (n n' : Node) (b : Blk) (txs : List String) (ctr : KV String Nat)
    (hc : Consistent n) (h : persist n txs ctr = some (n', b)) : Consistent n' := by
  obtain ⟨hb, hbod, htx, hint⟩ := hc
  unfold persist at h
  simp only at h
  split at h
  · cases h
  · cases h
    simp [Consistent, applyBlk, mkBlk, Tables.append, hb, hbod, htx, hint]

/-- on a consistent node the append is always in order (no panic) -/
theorem C09_persist_total (n : Node) (txs : List String) (ctr : KV String Nat) (hc : Consistent n) :
    (persist n txs ctr).isSome = true := by
  unfold persist
  simp [hc.1]

example : Consistent ({} : Node) := by simp [Consistent]

/-- **after a rollback nothing above the target is found by height**: `RollbackBlockChain(t)` on a node whose blockfile is
as long as its chain removes, for every height above `t` up to the old head, the block (both modes), the height → hash
entry and the transaction-count entry, and the chain meta names height `t` -/
theorem C09_rollback_clears_above_target (n n' : Node) (t : Nat) (hb : n.blocks = n.cmeta.1) (ht : t < n.cmeta.1)
    (h : chainRollback n t = .ok n') :
    n'.cmeta.1 = t ∧ ∀ j, t < j → j ≤ n.cmeta.1 →
      getBlock n' j false = none ∧ getBlock n' j true = none ∧ getBlockHash n' j = none ∧ getTxCount n' j = none := by
  unfold chainRollback at h
  have h1 : ¬ n.cmeta.1 < t := by omega
  have h2 : ¬ n.cmeta.1 = t := by omega
  simp only [h1, h2, if_false] at h
  split at h
  · cases h
  · rename_i n1 cnt hl
    obtain ⟨s1, s2, _, s4, _⟩ := loop_spec t _ _ _ n n1 cnt hl rfl (by omega) hb
    obtain ⟨l1, l2, _⟩ := s4 ht
    have key : ∀ (m : Node), m.tbl = n1.tbl → m.idx.heightIdx = n1.idx.heightIdx → m.idx.txSet = n1.idx.txSet →
        ∀ j, t < j → j ≤ n.cmeta.1 →
        getBlock m j false = none ∧ getBlock m j true = none ∧ getBlockHash m j = none ∧ getTxCount m j = none := by
      intro m e1 e2 e3 j hj1 hj2
      have hbod : m.tbl.bodies[j - 1]? = none := by
        rw [e1]; exact List.getElem?_eq_none (by omega)
      have hts : KV.get m.idx.txSet j = none := by rw [e3, s2 j]; simp [hj1, hj2]
      have hhi : KV.get m.idx.heightIdx j = none := by rw [e2, s1 j]; simp [hj1, hj2]
      have hj0 : ¬ j = 0 := by omega
      refine ⟨?_, ?_, hhi, ?_⟩
      · simp [getBlock, hj0, hbod]
      · simp [getBlock, hj0, hbod]
      · simp [getTxCount, hts]
    split at h
    · injection h with h
      subst h
      rename_i ht0
      exact ⟨ht0.symm, key _ rfl rfl rfl⟩
    · split at h
      · cases h
      · injection h with h
        subst h
        exact ⟨rfl, key _ rfl rfl rfl⟩

/-- the same through `Ledger.Rollback` (state store first, then the chain) -/
theorem C09_ledger_rollback_clears_above_target (n n' : Node) (t : Nat) (hb : n.blocks = n.cmeta.1) (ht : t < n.cmeta.1)
    (h : rollback n t = .ok n') :
    n'.cmeta.1 = t ∧ ∀ j, t < j → j ≤ n.cmeta.1 →
      getBlock n' j false = none ∧ getBlock n' j true = none ∧ getBlockHash n' j = none ∧ getTxCount n' j = none := by
  unfold rollback at h
  split at h
  · cases h
  · cases h
  · cases h
  · rename_i st' _
    exact C09_rollback_clears_above_target { n with st := st' } n' t hb ht h

-- ------------------------------------------------------------------------------------ over whole histories

/-- what `Linked` means for the getters: on a linked chain EVERY committed height `h` (not only the head) holds a block of
height `h` that both read modes return, that the height → hash index and the hash → block lookup agree on, whose parent hash is
the hash of the block stored at `h - 1` (the zero hash for the first block), and the chain meta names the hash of the head -/
theorem C09_every_height_linked_and_indexed (n : Node) (hL : Linked n) (h : Nat) (h1 : 1 ≤ h) (h2 : h ≤ n.cmeta.1) :
    ∃ b, getBlock n h false = some b ∧ getBlock n h true = some b ∧ b.height = h ∧
      getBlockHash n h = some b.hash ∧ getByHash n b.hash = some b ∧ getTxCount n h = some b.txs.length ∧
      (h = 1 → b.parent = "zero") ∧
      (2 ≤ h → ∃ p, getBlock n (h - 1) false = some p ∧ b.parent = p.hash) ∧
      (h = n.cmeta.1 → n.cmeta.2.1 = b.hash) := by
  obtain ⟨b, c1, c2, c3, c4, c5, c6, c7⟩ := hL.to.byHeight h h1 h2
  have h0 : ¬ h = 0 := by omega
  have g1 : getBlock n h false = some b := by
    simp only [getBlock, h0, if_false, c1, c7, Bool.false_eq_true, Option.map_some]
  have g2 : getBlock n h true = some b := by
    simp only [getBlock, h0, if_false, c1, c2, if_true, Option.map_some]
  refine ⟨b, g1, g2, c4, c5, ?_, ?_, ?_, ?_, ?_⟩
  · simp only [getByHash, c6, Option.bind_some]; exact g1
  · simp [getTxCount, c7]
  · intro e; subst e; exact hL.to.first b c1
  · intro h3
    obtain ⟨p, d1, d2, d3, d4, d5, d6, d7⟩ := hL.to.byHeight (h - 1) (by omega) (by omega)
    have h0' : ¬ h - 1 = 0 := by omega
    refine ⟨p, ?_, ?_⟩
    · simp only [getBlock, h0', if_false, d1, d7, Bool.false_eq_true, Option.map_some]
    · apply hL.to.link (h - 2) b p
      · have : h - 2 + 1 = h - 1 := by omega
        rw [this]; exact c1
      · have : h - 2 = h - 1 - 1 := by omega
        rw [this]; exact d1
  · intro e; subst e; exact hL.head b c1 h1

/-- a transaction found by its hash is where the index says: the stored position names a committed height, the hash of the block
stored there, and an index at which that block's transaction list holds this very transaction (no dangling entry, also after rollbacks) -/
theorem C09_tx_lookup_agrees (n : Node) (hL : Linked n) (t : String) (h : Nat) (hs : String) (i : Nat)
    (hm : getTxMeta n t = some (h, hs, i)) :
    1 ≤ h ∧ h ≤ n.cmeta.1 ∧ getTx n t = some (some t) ∧ ∃ b, getBlock n h true = some b ∧ b.hash = hs ∧ b.txs[i]? = some t := by
  obtain ⟨a1, a2, b, a3, a4, a5⟩ := hL.to.txMeta t h hs i hm
  obtain ⟨b', c1, c2, _⟩ := hL.to.byHeight h a1 a2
  rw [a3] at c2
  injection c2 with c2
  subst c2
  have h0 : ¬ h = 0 := by omega
  refine ⟨a1, a2, ?_, b, ?_, a4, a5⟩
  · unfold getTxMeta at hm
    simp only [getTx, hm, h0, if_false, a3, a5]
  · simp only [getBlock, h0, if_false, c1, a3, if_true, Option.map_some]

/-- **over every history**: whatever sequence of blocks a node persisted (each with a hash that is not the hash of a block it
stores — no collision among the stored block hashes) and whatever rollbacks it went through in between, its chain is `Linked`;
with the two theorems above: every committed height is hash-linked to the one below and found by every lookup, every transaction
entry points into a committed block that contains it, and nothing is indexed above the head -/
theorem C09_history_chain_linked (n : Node) (h : Reach n) : Linked n := reach_linked n h

/-- **the chain meta's cumulative interchain count over every history**: after any sequence of persisted blocks and rollbacks the
count the chain meta carries is the sum of the per-block interchain counts of exactly the blocks that are stored — a rollback takes
off what the removed blocks had added, no more and no less -/
theorem C09_history_cumulative_interchain_count (n : Node) (h : Reach n) :
    n.cmeta.2.2 = ((n.tbl.inter.map countOf).sum) := reach_count n h

/-- … in particular nothing above the head is found by height, after any history -/
theorem C09_history_nothing_above_head (n : Node) (h : Reach n) (j : Nat) (hj : n.cmeta.1 < j) :
    getBlock n j false = none ∧ getBlock n j true = none := by
  have hL := (reach_linked n h).to
  have hb : n.tbl.bodies[j - 1]? = none := List.getElem?_eq_none (by rw [hL.lenB]; omega)
  have h0 : ¬ j = 0 := by omega
  constructor <;> simp [getBlock, h0, hb]

/-- non-vacuity: two blocks persisted on the empty node, a rollback to height 1, another block: a reachable node -/
example : ∃ n1 b1 n2 b2 n3 n4 b4, persist {} ["t1"] [] = some (n1, b1) ∧ persist n1 ["t2", "t3"] [("c1", 2)] = some (n2, b2) ∧
    rollback n2 1 = .ok n3 ∧ persist n3 ["t4"] [] = some (n4, b4) ∧ n4.cmeta.1 = 2 ∧ b4.parent = b1.hash := by
  refine ⟨_, _, _, _, _, _, _, rfl, rfl, rfl, rfl, rfl, rfl⟩

-- non-vacuity: a node with two blocks rolled back to height 1
section Example
def exB1 : Blk := { height := 1, hash := "B1", parent := "zero", txs := ["t1"], counter := [] }
def exB2 : Blk := { height := 2, hash := "B2", parent := "B1", txs := ["t2", "t3"], counter := [] }
def exN : Node :=
  { idx := { txSet := [(2, ["t2", "t3"]), (1, ["t1"])], hashIdx := [("B2", 2), ("B1", 1)], heightIdx := [(2, "B2"), (1, "B1")],
             txMeta := [("t3", (2, "B2", 1)), ("t2", (2, "B2", 0)), ("t1", (1, "B1", 0))], metaDB := some (2, "B2", 0) },
    tbl := { hashes := [exB1, exB2], bodies := [exB1, exB2], txs := [exB1, exB2], rcpts := [exB1, exB2], inter := [exB1, exB2] },
    blocks := 2, cmeta := (2, "B2", 0) }

example : exN.blocks = exN.cmeta.1 ∧ 1 < exN.cmeta.1 ∧ (∃ n', chainRollback exN 1 = .ok n' ∧ getBlock n' 1 true = some exB1 ∧
    getByHash n' "B2" = none ∧ getTxMeta n' "t2" = none) := by
  refine ⟨by decide, by decide, _, rfl, ?_, ?_, ?_⟩ <;> decide
end Example

end Bxh.Props.C09
