import Bxh.Model.Chain
import Bxh.Proofs.ChainRollback
/-!
# C09 — the stored chain is hash-linked and every index agrees with the executed blocks
Theorems about `persist` and the getters of `Bxh.Chain` (model of `PersistExecutionResult`,
`GetBlock`, `GetBlockByHash`, `GetBlockHash`, `GetTransactionMeta`, `GetChainMeta`).
-/
namespace Bxh.Props.C09
open Bxh Bxh.Chain

/-- tables and index agree with the cached head: what `ledger.New` establishes and `persist` keeps -/
def Consistent (n : Node) : Prop :=
  n.blocks = n.cmeta.1 ∧ n.tbl.bodies.length = n.cmeta.1 ∧ n.tbl.txs.length = n.cmeta.1 ∧
  n.tbl.inter.length = n.cmeta.1

/-- **hash link and head**: the block persisted next has height head+1, its parent is the previous
head hash, and the chain meta afterwards names it with the cumulative interchain count -/
theorem C09_persist_links (n n' : Node) (b : Blk) (txs : List String) (ctr : KV String Nat)
    (h : persist n txs ctr = some (n', b)) :
    b.height = n.cmeta.1 + 1 ∧ b.parent = n.cmeta.2.1 ∧ b.txs = txs ∧
    n'.cmeta = (b.height, b.hash, countOf b + n.cmeta.2.2) ∧ n'.idx.metaDB = some n'.cmeta := by
  unfold persist at h
  simp only at h
  split at h
  · cases h
  · cases h
    simp [mkBlk, applyBlk, indexBatch]

/-- the chain-side effect of a block whose height is head+1 on a consistent node: every lookup finds it -/
theorem applyBlk_lookup (n : Node) (b : Blk) (hc : Consistent n) (hh : b.height = n.cmeta.1 + 1) :
    getBlock (applyBlk n b) b.height false = some b ∧ getBlock (applyBlk n b) b.height true = some b ∧
    getByHash (applyBlk n b) b.hash = some b ∧ getBlockHash (applyBlk n b) b.height = some b.hash ∧
    getIMeta (applyBlk n b) b.height = some b.counter ∧ getTxCount (applyBlk n b) b.height = some b.txs.length := by
  obtain ⟨hb, hbod, htx, hint⟩ := hc
  have e1 : (n.tbl.append b).bodies[n.cmeta.1]? = some b := by simp [Tables.append, ← hbod]
  have e2 : (n.tbl.append b).txs[n.cmeta.1]? = some b := by simp [Tables.append, ← htx]
  have e3 : (n.tbl.append b).inter[n.cmeta.1]? = some b := by simp [Tables.append, ← hint]
  have eb : ({ height := n.cmeta.1 + 1, hash := b.hash, parent := b.parent, txs := b.txs, counter := b.counter } : Blk) = b := by
    cases b; simp_all
  simp [getBlock, getByHash, getBlockHash, getIMeta, getTxCount, applyBlk, indexBatch, hh, e1, e2, e3, eb]

/-- **lookups agree**: after persisting on a consistent node the new block is found by height (both
modes), by hash and by the height→hash index, with its interchain metadata and transaction count -/
theorem C09_persist_lookup (n n' : Node) (b : Blk) (txs : List String) (ctr : KV String Nat)
    (hc : Consistent n) (h : persist n txs ctr = some (n', b)) :
    getBlock n' b.height false = some b ∧ getBlock n' b.height true = some b ∧
    getByHash n' b.hash = some b ∧ getBlockHash n' b.height = some b.hash ∧
    getIMeta n' b.height = some b.counter ∧ getTxCount n' b.height = some b.txs.length := by
  unfold persist at h
  simp only at h
  split at h
  · cases h
  · cases h
    have := applyBlk_lookup n (mkBlk n txs ctr) hc rfl
    simpa [getBlock, getByHash, getBlockHash, getIMeta, getTxCount] using this

/-- persisting keeps the node consistent -/
theorem C09_persist_consistent (n n' : Node) (b : Blk) (txs : List String) (ctr : KV String Nat)
    (hc : Consistent n) (h : persist n txs ctr = some (n', b)) : Consistent n' := by
  obtain ⟨hb, hbod, htx, hint⟩ := hc
  unfold persist at h
  simp only at h
  split at h
  · cases h
  · cases h
    simp [Consistent, applyBlk, mkBlk, Tables.append, hb, hbod, htx, hint]

/-- on a consistent node the append is always in order (no panic) -/
theorem C09_persist_total (n : Node) (txs : List String) (ctr : KV String Nat) (hc : Consistent n) :
    (persist n txs ctr).isSome = true := by
  unfold persist
  simp [hc.1]

example : Consistent ({} : Node) := by simp [Consistent]

/-- **after a rollback nothing above the target is found by height**: `RollbackBlockChain(t)` on a node whose blockfile is
as long as its chain removes, for every height above `t` up to the old head, the block (both modes), the height → hash
entry and the transaction-count entry, and the chain meta names height `t` -/
theorem C09_rollback_clears_above_target (n n' : Node) (t : Nat) (hb : n.blocks = n.cmeta.1) (ht : t < n.cmeta.1)
    (h : chainRollback n t = .ok n') :
    n'.cmeta.1 = t ∧ ∀ j, t < j → j ≤ n.cmeta.1 →
      getBlock n' j false = none ∧ getBlock n' j true = none ∧ getBlockHash n' j = none ∧ getTxCount n' j = none := by
  unfold chainRollback at h
  have h1 : ¬ n.cmeta.1 < t := by omega
  have h2 : ¬ n.cmeta.1 = t := by omega
  simp only [h1, h2, if_false] at h
  split at h
  · cases h
  · rename_i n1 cnt hl
    obtain ⟨s1, s2, _, s4, _⟩ := loop_spec t _ _ _ n n1 cnt hl rfl (by omega) hb
    obtain ⟨l1, l2, _⟩ := s4 ht
    have key : ∀ (m : Node), m.tbl = n1.tbl → m.idx.heightIdx = n1.idx.heightIdx → m.idx.txSet = n1.idx.txSet →
        ∀ j, t < j → j ≤ n.cmeta.1 →
        getBlock m j false = none ∧ getBlock m j true = none ∧ getBlockHash m j = none ∧ getTxCount m j = none := by
      intro m e1 e2 e3 j hj1 hj2
      have hbod : m.tbl.bodies[j - 1]? = none := by
        rw [e1]; exact List.getElem?_eq_none (by omega)
      have hts : KV.get m.idx.txSet j = none := by rw [e3, s2 j]; simp [hj1, hj2]
      have hhi : KV.get m.idx.heightIdx j = none := by rw [e2, s1 j]; simp [hj1, hj2]
      have hj0 : ¬ j = 0 := by omega
      refine ⟨?_, ?_, hhi, ?_⟩
      · simp [getBlock, hj0, hbod]
      · simp [getBlock, hj0, hbod]
      · simp [getTxCount, hts]
    split at h
    · injection h with h
      subst h
      rename_i ht0
      exact ⟨ht0.symm, key _ rfl rfl rfl⟩
    · split at h
      · cases h
      · injection h with h
        subst h
        exact ⟨rfl, key _ rfl rfl rfl⟩

/-- the same through `Ledger.Rollback` (state store first, then the chain) -/
theorem C09_ledger_rollback_clears_above_target (n n' : Node) (t : Nat) (hb : n.blocks = n.cmeta.1) (ht : t < n.cmeta.1)
    (h : rollback n t = .ok n') :
    n'.cmeta.1 = t ∧ ∀ j, t < j → j ≤ n.cmeta.1 →
      getBlock n' j false = none ∧ getBlock n' j true = none ∧ getBlockHash n' j = none ∧ getTxCount n' j = none := by
  unfold rollback at h
  split at h
  · cases h
  · cases h
  · cases h
  · rename_i st' _
    exact C09_rollback_clears_above_target { n with st := st' } n' t hb ht h

-- non-vacuity: a node with two blocks rolled back to height 1
section Example
def exB1 : Blk := { height := 1, hash := "B1", parent := "zero", txs := ["t1"], counter := [] }
def exB2 : Blk := { height := 2, hash := "B2", parent := "B1", txs := ["t2", "t3"], counter := [] }
def exN : Node :=
  { idx := { txSet := [(2, ["t2", "t3"]), (1, ["t1"])], hashIdx := [("B2", 2), ("B1", 1)], heightIdx := [(2, "B2"), (1, "B1")],
             txMeta := [("t3", (2, "B2", 1)), ("t2", (2, "B2", 0)), ("t1", (1, "B1", 0))], metaDB := some (2, "B2", 0) },
    tbl := { hashes := [exB1, exB2], bodies := [exB1, exB2], txs := [exB1, exB2], rcpts := [exB1, exB2], inter := [exB1, exB2] },
    blocks := 2, cmeta := (2, "B2", 0) }

example : exN.blocks = exN.cmeta.1 ∧ 1 < exN.cmeta.1 ∧ (∃ n', chainRollback exN 1 = .ok n' ∧ getBlock n' 1 true = some exB1 ∧
    getByHash n' "B2" = none ∧ getTxMeta n' "t2" = none) := by
  refine ⟨by decide, by decide, _, rfl, ?_, ?_, ?_⟩ <;> decide
end Example

end Bxh.Props.C09
