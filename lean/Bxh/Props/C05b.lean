import Bxh.Gen.ChildCount
/-!
# C05 — "the global status becomes SUCCESS only after every declared child has reported success": what "declared" is

The number of children a one-to-many transaction waits for is fixed when its first child begins: `beginTransaction` hands it to the
transaction manager's `BeginMultiTXs`.  The model takes the number of entries of the group the IBTP carries — one per declared child,
also when two children name the same destination service.  The expression the code uses is extracted on every run.
-/
namespace Bxh.Props.C05

/-- the count handed to `BeginMultiTXs` is the number of entries of the IBTP's group (not, say, the number of distinct destinations) -/
theorem C05_child_count_is_the_number_of_group_entries : Bxh.Gen.multiChildCount = "uint64(len(ibtp.Group.Keys))" := by decide

end Bxh.Props.C05
