import Bxh.Proofs.ExecLemmas
import Bxh.Proofs.ExecRec
import Bxh.Props.C02
/-!
# C04 — cross-chain transaction status follows the protocol state machine
The transition table `Gen.txFsm` is regenerated from `transaction_manager.go` on every run; the
table theorems below are re-proved against whatever was extracted.
-/
namespace Bxh.Props.C04
open Bxh Bxh.Exec

/-- the protocol's edges, from the property statement (plus BEGIN → BEGIN_FAILURE, which the
one-to-many path uses, and BEGIN → ROLLBACK / FAILURE by the destination hub's notice) -/
def protocolEdges : List (Status × Status) := [
  (.begin, .success), (.begin, .failure), (.begin, .beginRollback), (.begin, .beginFailure), (.begin, .rollback),
  (.beginFailure, .failure), (.beginRollback, .rollback)]

def finals : List String := ["SUCCESS", "FAILURE", "ROLLBACK"]

theorem foldl_lookup_mem (ev src d : String) (tbl : List (String × List String × String)) :
    ∀ (acc : Option String),
      tbl.foldl (fun acc e => if e.1 == ev && e.2.1.contains src then some e.2.2 else acc) acc = some d →
      acc = some d ∨ ∃ e ∈ tbl, e.1 = ev ∧ src ∈ e.2.1 ∧ e.2.2 = d := by
  induction tbl with
  | nil => intro acc h; exact Or.inl h
  | cons e rest ih =>
    intro acc h
    simp only [List.foldl_cons] at h
    rcases ih _ h with h1 | ⟨e', he', hp⟩
    · by_cases hc : (e.1 == ev && e.2.1.contains src) = true
      · simp only [hc, if_true] at h1
        right
        refine ⟨e, List.mem_cons_self, ?_⟩
        simp only [Bool.and_eq_true, beq_iff_eq, List.contains_iff_mem] at hc
        cases h1
        exact ⟨hc.1, hc.2, rfl⟩
      · simp only [hc] at h1
        exact Or.inl h1
    · exact Or.inr ⟨e', List.mem_cons_of_mem _ he', hp⟩

/-- the result of a table lookup comes from a table entry -/
theorem fsmLookup_mem (tbl : List (String × List String × String)) (ev src d : String)
    (h : fsmLookup tbl ev src = some d) :
    ∃ e ∈ tbl, e.1 = ev ∧ src ∈ e.2.1 ∧ e.2.2 = d := by
  unfold fsmLookup at h
  rcases foldl_lookup_mem ev src d tbl none h with h0 | h1
  · cases h0
  · exact h1

/-- table fact (whole extracted table, by `decide`): no transition leaves a final status -/
theorem C04_table_no_exit_from_final :
    ∀ e ∈ Gen.txFsm, ∀ s ∈ e.2.1, s ∉ finals := by decide

/-- table fact: every transition between protocol statuses is a protocol edge -/
def edgeOk (s d : String) : Bool :=
  match Status.ofName s, Status.ofName d with
  | some a, some b => decide ((a, b) ∈ protocolEdges)
  | _, _ => true

theorem C04_table_edges_are_protocol :
    ∀ e ∈ Gen.txFsm, ∀ s ∈ e.2.1, edgeOk s e.2.2 = true := by decide

theorem name_final (st : Status) (h : st.isFinal = true) : st.name ∈ finals := by
  cases st <;> simp_all [Status.isFinal, Status.name, finals]

theorem ofName_name (st : Status) : Status.ofName st.name = some st := by
  cases st <;> decide

/-- SUCCESS, FAILURE and ROLLBACK are absorbing for every event whatsoever -/
theorem C04_final_absorbing_step (st : Status) (ev : String) (h : st.isFinal = true) :
    txFsmStep st ev = none := by
  unfold txFsmStep fsmStep
  cases hl : fsmLookup Gen.txFsm ev st.name with
  | none => rfl
  | some d =>
    obtain ⟨e, he, _, hs, _⟩ := fsmLookup_mem _ _ _ _ hl
    exact absurd (name_final st h) (C04_table_no_exit_from_final e he _ hs)

/-- every status change the FSM can make is an edge of the protocol -/
theorem C04_step_is_protocol_edge (st st' : Status) (ev : String) (h : txFsmStep st ev = some st') :
    (st, st') ∈ protocolEdges := by
  unfold txFsmStep fsmStep at h
  cases hl : fsmLookup Gen.txFsm ev st.name with
  | none => simp [hl] at h
  | some d =>
    simp only [hl] at h
    split at h
    · cases h
    · obtain ⟨e, he, _, hs, hd⟩ := fsmLookup_mem _ _ _ _ hl
      subst hd
      have := C04_table_edges_are_protocol e he _ hs
      simp only [edgeOk, ofName_name, h, decide_eq_true_eq] at this
      exact this

/-- `Report` on a one-to-one record: an accepted receipt moves the status along the FSM and
changes nothing else of the record; a receipt that needs another transition is an error (and an
error result carries no ledger at all, i.e. has no effect) -/
theorem C04_report_moves_along_fsm (l l' : Led) (id : TxId) (typ : Nat) (c : StatusChange) (r : Rec)
    (hrec : l.getS (.txRec id) = some (.trec r)) (h : tmReport l id typ = .ok (l', c)) :
    ∃ st', txFsmStep r.status (receiptEvent typ) = some st' ∧
      l'.getS (.txRec id) = some (.trec { r with status := st' }) ∧
      c.prev = some r.status ∧ c.cur = st' ∧ (r.status, st') ∈ protocolEdges := by
  unfold tmReport at h
  simp only [hrec] at h
  cases hs : txFsmStep r.status (receiptEvent typ) with
  | none => simp [hs] at h
  | some st' =>
    simp only [hs] at h
    cases h
    refine ⟨st', rfl, ?_, rfl, rfl, C04_step_is_protocol_edge _ _ _ hs⟩
    simp [Led.getS, Led.setS]

theorem C04_report_refused_when_final (l : Led) (id : TxId) (typ : Nat) (r : Rec)
    (hrec : l.getS (.txRec id) = some (.trec r)) (hf : r.status.isFinal = true) :
    tmReport l id typ = .error "2080000" := by
  unfold tmReport
  simp only [hrec, C04_final_absorbing_step r.status _ hf]

/-- status query = the status stored by the last accepted event -/
theorem C04_status_query_exact (l : Led) (id : TxId) (r : Rec)
    (hrec : l.getS (.txRec id) = some (.trec r)) : tmGetStatus l id = some r.status := by
  simp [tmGetStatus, hrec]

/-- non-vacuity: the table does move BEGIN on a success receipt -/
example : txFsmStep .begin (receiptEvent 1) = some .success := by decide

-- ------------------------------------------------------------------------------------ history level
open Bxh.Props.C02 in
/-- protocol path: the reflexive-transitive closure of the steps of the (regenerated) state machine -/
inductive Reach : Status → Status → Prop
  | refl (s : Status) : Reach s s
  | step {a b c : Status} (ev : String) : Reach a b → txFsmStep b ev = some c → Reach a c

theorem Reach.of_final {a b : Status} (h : Reach a b) (hf : a.isFinal = true) : b = a := by
  induction h with
  | refl => rfl
  | step ev _ hs ih =>
    subst ih
    rw [C04_final_absorbing_step _ ev hf] at hs
    cases hs

/-- every step of a protocol path is one of the protocol's edges -/
theorem Reach.edges {a b : Status} (h : Reach a b) : a = b ∨ ∃ m, Reach a m ∧ (m, b) ∈ protocolEdges := by
  cases h with
  | refl => exact Or.inl rfl
  | step ev h1 hs => exact Or.inr ⟨_, h1, C04_step_is_protocol_edge _ _ _ hs⟩

open Bxh.Props.C02 in
/-- **the status of a one-to-one transaction only moves along the state machine, over any history of
IBTPs** (requests and receipts of this and every other pair, valid or not, one-to-many traffic, in any
interleaving): if the record of `t` — a transaction of a pair with an index-checked destination whose index
the pair's counter has already passed, as it is for every record the contract created — shows status `st`,
then after the history it still has a record, and its status is reached from `st` by steps of the state machine -/
theorem C04_history_status_path (env : Env) (t : TxId) (is : List Ibtp) (l : Led) (st : Status)
    (hd : OrderedDst env l t.to) (hb : t.index ≤ reqCounter l t.frm t.to) (hs : recStatus l t = some st) :
    ∃ st', recStatus (runIbtps env l is) t = some st' ∧ Reach st st' := by
  induction is generalizing l st with
  | nil => exact ⟨st, hs, Reach.refl st⟩
  | cons i rest ih =>
    simp only [runIbtps, List.foldl_cons]
    cases hh : handleIBTP env l i with
    | error e => simp only; exact ih l st hd hb hs
    | ok r =>
      simp only
      obtain ⟨ck, hck⟩ := handleIBTP_ok_checked hh
      have hd' : OrderedDst env r.1 t.to := by
        obtain ⟨h1, h2, h3, h4⟩ := hd
        exact ⟨h1, h2, h3, fun sv hsv => h4 sv (by rw [← handleIBTP_svc_frame hh]; exact hsv)⟩
      have hcnt := handleIBTP_reqCounter hck hh t.frm t.to
      have hb' : t.index ≤ reqCounter r.1 t.frm t.to := by
        rw [hcnt]; split <;> omega
      change ∃ st', recStatus (runIbtps env r.1 rest) t = some st' ∧ Reach st st'
      rcases handleIBTP_rec hck hh t with h1 | ⟨hreq, ht⟩ | ⟨_, s0, s1, hs0, hstep, hs1⟩
      · exact ih r.1 st hd' hb' (by rw [recStatus_congr h1]; exact hs)
      · -- a request with the very id `t`: its index would have to be counter + 1, but the counter has passed it
        exfalso
        have hdst : ck.dst = t.to := by rw [ht]
        have hsrc : ck.src = t.frm := by rw [ht]
        have hnb : ck.isBatch = false := orderedDst_not_batch (by rw [hdst]; exact hd) hck hreq
        have hidx := C02_accept_needs_next_index env l i ck hck hreq hnb
        have : t.index = i.index := by rw [ht]
        unfold reqCounter at hb
        rw [← hsrc, ← hdst] at hb
        omega
      · rw [hs] at hs0
        cases hs0
        obtain ⟨st', h2, h3⟩ := ih r.1 s1 hd' hb' hs1
        refine ⟨st', h2, ?_⟩
        -- prepend the step st → s1 to the path s1 ⇝ st'
        clear h2 ih
        induction h3 with
        | refl => exact Reach.step _ (Reach.refl _) hstep
        | step ev _ hs' ih' => exact Reach.step ev ih' hs'

open Bxh.Props.C02 in
/-- **SUCCESS, FAILURE and ROLLBACK are final over every history**: no sequence of IBTPs changes a record that
has reached one of them -/
theorem C04_history_final_stays (env : Env) (t : TxId) (is : List Ibtp) (l : Led) (st : Status)
    (hd : OrderedDst env l t.to) (hb : t.index ≤ reqCounter l t.frm t.to) (hs : recStatus l t = some st)
    (hf : st.isFinal = true) : recStatus (runIbtps env l is) t = some st := by
  obtain ⟨st', h1, h2⟩ := C04_history_status_path env t is l st hd hb hs
  rw [h1, h2.of_final hf]

open Bxh.Props.C02 in
/-- the counter hypothesis holds for every record the contract creates: right after a request of an
index-checked pair has been accepted, the pair's counter equals the request's index -/
theorem C04_created_record_is_bounded (env : Env) (l : Led) (i : Ibtp) (ck : Checked) (r : Led × String)
    (hck : checkIBTP env l i = .ok ck) (h : handleIBTP env l i = .ok r) (hreq : i.typ.isRequest = true)
    (hd : OrderedDst env l ck.dst) : i.index ≤ reqCounter r.1 ck.src ck.dst := by
  have hnb : ck.isBatch = false := orderedDst_not_batch hd hck hreq
  have hidx := C02_accept_needs_next_index env l i ck hck hreq hnb
  rw [handleIBTP_reqCounter hck h ck.src ck.dst]
  simp only [hreq, and_self, if_true]
  unfold reqCounter
  omega

open Bxh.Props.C02 in
/-- non-vacuity: request 1 is accepted (BEGIN), the success receipt finalises it, and a replayed request,
a failure receipt and a rollback receipt afterwards leave SUCCESS in place -/
example :
    let svc : Svc := { ordered := true, blacklist := [], available := true }
    let l : Led := { store := [(.svc "c1" "s1", .svc svc), (.svc "c2" "s1", .svc svc)] }
    let env : Env := { cfg := {}, cache := [], height := 7, txIndex := 0 }
    let s11 : SvcId := { bxh := "1356", chain := "c1", sid := "s1" }
    let s21 : SvcId := { bxh := "1356", chain := "c2", sid := "s1" }
    let m (ty : IType) : Ibtp := { frm := some s11, to := some s21, index := 1, typ := ty, timeout := 0, group := none }
    let t : TxId := { frm := s11, to := s21, index := 1 }
    recStatus (runIbtps env l [m .interchain]) t = some .begin ∧
    recStatus (runIbtps env l [m .interchain, m .receiptSuccess]) t = some .success ∧
    recStatus (runIbtps env l [m .interchain, m .receiptSuccess, m .interchain, m .receiptFailure, m .receiptRollback]) t = some .success := by
  decide

end Bxh.Props.C04
