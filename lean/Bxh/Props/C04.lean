import Bxh.Proofs.ExecLemmas
import Bxh.Proofs.ExecRec
import Bxh.Proofs.ExecListed
import Bxh.Props.C02
import Bxh.Props.C06
import Bxh.Proofs.ExecBlock
import Bxh.Proofs.ExecSupply
/-!
# C04 — cross-chain transaction status follows the protocol state machine
The transition table `Gen.txFsm` is regenerated from `transaction_manager.go` on every run; the
table theorems below are re-proved against whatever was extracted.
-/
namespace Bxh.Props.C04
open Bxh Bxh.Exec

/-- the protocol's edges, from the property statement (plus BEGIN → BEGIN_FAILURE, which the
one-to-many path uses, and BEGIN → ROLLBACK / FAILURE by the destination hub's notice) -/
def protocolEdges : List (Status × Status) := [
  (.begin, .success), (.begin, .failure), (.begin, .beginRollback), (.begin, .beginFailure), (.begin, .rollback),
  (.beginFailure, .failure), (.beginRollback, .rollback)]

def finals : List String := ["SUCCESS", "FAILURE", "ROLLBACK"]

theorem foldl_lookup_mem (ev src d : String) (tbl : List (String × List String × String)) :
    ∀ (acc : Option String),
      tbl.foldl (fun acc e => if e.1 == ev && e.2.1.contains src then some e.2.2 else acc) acc = some d →
      acc = some d ∨ ∃ e ∈ tbl, e.1 = ev ∧ src ∈ e.2.1 ∧ e.2.2 = d := by
  induction tbl with
  | nil => intro acc h; exact Or.inl h
  | cons e rest ih =>
    intro acc h
    simp only [List.foldl_cons] at h
    rcases ih _ h with h1 | ⟨e', he', hp⟩
    · by_cases hc : (e.1 == ev && e.2.1.contains src) = true
      · simp only [hc, if_true] at h1
        right
        refine ⟨e, List.mem_cons_self, ?_⟩
        simp only [Bool.and_eq_true, beq_iff_eq, List.contains_iff_mem] at hc
        cases h1
        exact ⟨hc.1, hc.2, rfl⟩
      · simp only [hc] at h1
        exact Or.inl h1
    · exact Or.inr ⟨e', List.mem_cons_of_mem _ he', hp⟩

/-- the result of a table lookup comes from a table entry -/
theorem fsmLookup_mem (tbl : List (String × List String × String)) (ev src d : String)
    (h : fsmLookup tbl ev src = some d) :
    ∃ e ∈ tbl, e.1 = ev ∧ src ∈ e.2.1 ∧ e.2.2 = d := by
  unfold fsmLookup at h
  rcases foldl_lookup_mem ev src d tbl none h with h0 | h1
  · cases h0
  · exact h1

/-- table fact (whole extracted table, by `decide`): no transition leaves a final status -/
theorem C04_table_no_exit_from_final :
    ∀ e ∈ Gen.txFsm, ∀ s ∈ e.2.1, s ∉ finals := by decide

/-- table fact: every transition between protocol statuses is a protocol edge -/
def edgeOk (s d : String) : Bool :=
  match Status.ofName s, Status.ofName d with
  | some a, some b => decide ((a, b) ∈ protocolEdges)
  | _, _ => true

theorem C04_table_edges_are_protocol :
    ∀ e ∈ Gen.txFsm, ∀ s ∈ e.2.1, edgeOk s e.2.2 = true := by decide

theorem name_final (st : Status) (h : st.isFinal = true) : st.name ∈ finals := by
  cases st <;> simp_all [Status.isFinal, Status.name, finals]

theorem ofName_name (st : Status) : Status.ofName st.name = some st := by
  cases st <;> decide

/-- SUCCESS, FAILURE and ROLLBACK are absorbing for every event whatsoever -/
theorem C04_final_absorbing_step (st : Status) (ev : String) (h : st.isFinal = true) :
    txFsmStep st ev = none := by
  unfold txFsmStep fsmStep
  cases hl : fsmLookup Gen.txFsm ev st.name with
  | none => rfl
  | some d =>
    obtain ⟨e, he, _, hs, _⟩ := fsmLookup_mem _ _ _ _ hl
    exact absurd (name_final st h) (C04_table_no_exit_from_final e he _ hs)

/-- every status change the FSM can make is an edge of the protocol -/
theorem C04_step_is_protocol_edge (st st' : Status) (ev : String) (h : txFsmStep st ev = some st') :
    (st, st') ∈ protocolEdges := by
  unfold txFsmStep fsmStep at h
  cases hl : fsmLookup Gen.txFsm ev st.name with
  | none => simp [hl] at h
  | some d =>
    simp only [hl] at h
    split at h
    · cases h
    · obtain ⟨e, he, _, hs, hd⟩ := fsmLookup_mem _ _ _ _ hl
      subst hd
      have := C04_table_edges_are_protocol e he _ hs
      simp only [edgeOk, ofName_name, h, decide_eq_true_eq] at this
      exact this

/-- `Report` on a one-to-one record: an accepted receipt moves the status along the FSM and
changes nothing else of the record; a receipt that needs another transition is an error (and an
error result carries no ledger at all, i.e. has no effect) -/
theorem C04_report_moves_along_fsm (l l' : Led) (id : TxId) (typ : Nat) (c : StatusChange) (r : Rec)
    (hrec : l.getS (.txRec id) = some (.trec r)) (h : tmReport l id typ = .ok (l', c)) :
    ∃ st', txFsmStep r.status (receiptEvent typ) = some st' ∧
      l'.getS (.txRec id) = some (.trec { r with status := st' }) ∧
      c.prev = some r.status ∧ c.cur = st' ∧ (r.status, st') ∈ protocolEdges := by
  unfold tmReport at h
  simp only [hrec] at h
  cases hs : txFsmStep r.status (receiptEvent typ) with
  | none => simp [hs] at h
  | some st' =>
    simp only [hs] at h
    cases h
    refine ⟨st', rfl, ?_, rfl, rfl, C04_step_is_protocol_edge _ _ _ hs⟩
    simp [Led.getS, Led.setS]

theorem C04_report_refused_when_final (l : Led) (id : TxId) (typ : Nat) (r : Rec)
    (hrec : l.getS (.txRec id) = some (.trec r)) (hf : r.status.isFinal = true) :
    tmReport l id typ = .error "2080000" := by
  unfold tmReport
  simp only [hrec, C04_final_absorbing_step r.status _ hf]

/-- status query = the status stored by the last accepted event -/
theorem C04_status_query_exact (l : Led) (id : TxId) (r : Rec)
    (hrec : l.getS (.txRec id) = some (.trec r)) : tmGetStatus l id = some r.status := by
  simp [tmGetStatus, hrec]

/-- non-vacuity: the table does move BEGIN on a success receipt -/
example : txFsmStep .begin (receiptEvent 1) = some .success := by decide

-- ------------------------------------------------------------------------------------ history level
open Bxh.Props.C02 in
/-- protocol path: the reflexive-transitive closure of the steps of the (regenerated) state machine -/
inductive Reach : Status → Status → Prop
  | refl (s : Status) : Reach s s
  | step {a b c : Status} (ev : String) : Reach a b → txFsmStep b ev = some c → Reach a c

theorem Reach.of_final {a b : Status} (h : Reach a b) (hf : a.isFinal = true) : b = a := by
  induction h with
  | refl => rfl
  | step ev _ hs ih =>
    subst ih
    rw [C04_final_absorbing_step _ ev hf] at hs
    cases hs

/-- every step of a protocol path is one of the protocol's edges -/
theorem Reach.edges {a b : Status} (h : Reach a b) : a = b ∨ ∃ m, Reach a m ∧ (m, b) ∈ protocolEdges := by
  cases h with
  | refl => exact Or.inl rfl
  | step ev h1 hs => exact Or.inr ⟨_, h1, C04_step_is_protocol_edge _ _ _ hs⟩

open Bxh.Props.C02 in
/-- **the status of a one-to-one transaction only moves along the state machine, over any history of
IBTPs** (requests and receipts of this and every other pair, valid or not, one-to-many traffic, in any
interleaving): if the record of `t` — a transaction of a pair with an index-checked destination whose index
the pair's counter has already passed, as it is for every record the contract created — shows status `st`,
then after the history it still has a record, and its status is reached from `st` by steps of the state machine -/
theorem C04_history_status_path (env : Env) (t : TxId) (is : List Ibtp) (l : Led) (st : Status)
    (hd : OrderedDst env l t.to) (hb : t.index ≤ reqCounter l t.frm t.to) (hs : recStatus l t = some st) :
    ∃ st', recStatus (runIbtps env l is) t = some st' ∧ Reach st st' := by
  induction is generalizing l st with
  | nil => exact ⟨st, hs, Reach.refl st⟩
  | cons i rest ih =>
    simp only [runIbtps, List.foldl_cons]
    cases hh : handleIBTP env l i with
    | error e => simp only; exact ih l st hd hb hs
    | ok r =>
      simp only
      obtain ⟨ck, hck⟩ := handleIBTP_ok_checked hh
      have hd' : OrderedDst env r.1 t.to := by
        exact hd.mono (fun c sid => handleIBTP_svc_frame hh c sid)
      have hcnt := handleIBTP_reqCounter hck hh t.frm t.to
      have hb' : t.index ≤ reqCounter r.1 t.frm t.to := by
        rw [hcnt]; split <;> omega
      change ∃ st', recStatus (runIbtps env r.1 rest) t = some st' ∧ Reach st st'
      rcases handleIBTP_rec hck hh t with h1 | ⟨hreq, ht, hnn⟩ | ⟨ev, s0, s1, hs0, hstep, hs1⟩
      · exact ih r.1 st hd' hb' (by rw [recStatus_congr h1]; exact hs)
      · -- a request with the very id `t`: its index would have to be counter + 1, but the counter has passed it
        -- (and a notice that finds no record is not this one: `t` has a record)
        exfalso
        have hn : ck.notice = false := by
          rcases hnn with hnn | hnn
          · exact hnn
          · unfold recStatus at hs; rw [hnn] at hs; cases hs
        have hdst : ck.dst = t.to := by rw [ht]
        have hsrc : ck.src = t.frm := by rw [ht]
        have hnb : ck.isBatch = false := orderedDst_not_batch (by rw [hdst]; exact hd) hck hreq hn
        have hidx := C02_accept_needs_next_index env l i ck hck hreq hn hnb
        have : t.index = i.index := by rw [ht]
        unfold reqCounter at hb
        rw [← hsrc, ← hdst] at hb
        omega
      · rw [hs] at hs0
        cases hs0
        obtain ⟨st', h2, h3⟩ := ih r.1 s1 hd' hb' hs1
        refine ⟨st', h2, ?_⟩
        -- prepend the step st → s1 to the path s1 ⇝ st'
        clear h2 ih
        induction h3 with
        | refl => exact Reach.step ev (Reach.refl _) hstep
        | step ev' _ hs' ih' => exact Reach.step ev' ih' hs'

open Bxh.Props.C02 in
/-- **SUCCESS, FAILURE and ROLLBACK are final over every history**: no sequence of IBTPs changes a record that
has reached one of them -/
theorem C04_history_final_stays (env : Env) (t : TxId) (is : List Ibtp) (l : Led) (st : Status)
    (hd : OrderedDst env l t.to) (hb : t.index ≤ reqCounter l t.frm t.to) (hs : recStatus l t = some st)
    (hf : st.isFinal = true) : recStatus (runIbtps env l is) t = some st := by
  obtain ⟨st', h1, h2⟩ := C04_history_status_path env t is l st hd hb hs
  rw [h1, h2.of_final hf]

open Bxh.Props.C02 in
/-- the counter hypothesis holds for every record the contract creates: right after a request of an
index-checked pair has been accepted, the pair's counter equals the request's index -/
theorem C04_created_record_is_bounded (env : Env) (l : Led) (i : Ibtp) (ck : Checked) (r : Led × String)
    (hck : checkIBTP env l i = .ok ck) (h : handleIBTP env l i = .ok r) (hreq : i.typ.isRequest = true) (hn : ck.notice = false)
    (hd : OrderedDst env l ck.dst) : i.index ≤ reqCounter r.1 ck.src ck.dst := by
  have hnb : ck.isBatch = false := orderedDst_not_batch hd hck hreq hn
  have hidx := C02_accept_needs_next_index env l i ck hck hreq hn hnb
  rw [handleIBTP_reqCounter hck h ck.src ck.dst]
  simp only [hreq, hn, Bool.not_false, Bool.and_self, and_self, if_true]
  unfold reqCounter
  omega

open Bxh.Props.C02 in
/-- non-vacuity: request 1 is accepted (BEGIN), the success receipt finalises it, and a replayed request,
a failure receipt and a rollback receipt afterwards leave SUCCESS in place -/
example :
    let svc : Svc := { ordered := true, blacklist := [], available := true }
    let l : Led := { store := [(.svc "c1" "s1", .svc svc), (.svc "c2" "s1", .svc svc)] }
    let env : Env := { cfg := {}, cache := [], height := 7, txIndex := 0 }
    let s11 : SvcId := { bxh := "1356", chain := "c1", sid := "s1" }
    let s21 : SvcId := { bxh := "1356", chain := "c2", sid := "s1" }
    let m (ty : IType) : Ibtp := { frm := some s11, to := some s21, index := 1, typ := ty, timeout := 0, group := none }
    let t : TxId := { frm := s11, to := s21, index := 1 }
    recStatus (runIbtps env l [m .interchain]) t = some .begin ∧
    recStatus (runIbtps env l [m .interchain, m .receiptSuccess]) t = some .success ∧
    recStatus (runIbtps env l [m .interchain, m .receiptSuccess, m .interchain, m .receiptFailure, m .receiptRollback]) t = some .success := by
  decide

-- ------------------------------------------------------------------------------------ block level

/-- a direct contract call writes interchain counters at most (`DeleteInterchain`) -/
theorem applyBvm_frame {env : Env} {l : Led} {c m : String} {args : List Arg} {r : Led × String}
    (e : applyBvm env l c m args = .ok r) (k : Key) (hk : ∀ x, k ≠ .ic x) : r.1.getS k = l.getS k := by
  unfold applyBvm at e
  split at e
  · split at e
    · split at e
      · cases e
      · cases e
        simp only [Led.getS_setS]
        rw [if_neg (fun h => hk _ h.symm)]
    · cases e
  · split at e
    · split at e
      · split at e
        · cases e; rfl
        · cases e
      · cases e
    · split at e
      · split at e
        · split at e
          · cases e; rfl
          · cases e
        · cases e
      · split at e
        · split at e <;> cases e
        · cases e

open Bxh.Props.C02 in
/-- what is carried through a block for a final record: its destination is index-checked, the pair's counter has passed
its index, and its status -/
structure FinalInv (env : Env) (l : Led) (t : TxId) (st : Status) : Prop where
  ordered : OrderedDst env l t.to
  bound : t.index ≤ reqCounter l t.frm t.to
  status : recStatus l t = some st

open Bxh.Props.C02 in
/-- **one transaction of a block** (any kind, valid or not, fee paid or not) keeps a final record as it is -/
theorem C04_tx_final_stays (env : Env) (l : Led) (tx : Tx) (inv : Option String) (t : TxId) (st : Status)
    (hI : FinalInv env l t st) (hf : st.isFinal = true)
    (hnd : ∀ sg args, tx ≠ .bvm sg "interchain" "DeleteInterchain" args) :
    FinalInv env (applyTx env l tx inv).1 t st := by
  obtain ⟨hd, hb, hs⟩ := hI
  have hsvc : ∀ c sid, (applyTx env l tx inv).1.getS (.svc c sid) = l.getS (.svc c sid) := by
    intro c sid
    cases applyTx_effect env l tx inv with
    | nothing h => rw [h]; rfl
    | ibtp s i p env' r _ _ _ _ h5 h6 => rw [h6, handleIBTP_svc_frame h5]; rfl
    | bvm s c' m args r _ h2 h3 => rw [h3, applyBvm_frame h2 _ (by intro x e; cases e)]; rfl
  refine ⟨?_, ?_, ?_⟩
  · exact hd.mono hsvc
  · rcases C02_tx_counter_step env l tx inv t.frm t.to hd hnd with h | ⟨h, _⟩ <;> omega
  · cases applyTx_effect env l tx inv with
    | nothing h => rw [recStatus_congr (h _)]; exact hs
    | bvm s c m args r _ h2 h3 =>
      rw [recStatus_congr (h3 _), recStatus_congr (applyBvm_frame h2 _ (by intro x e; cases e))]; exact hs
    | ibtp s i p env' r h1 h2 h3 _ h5 h6 =>
      rw [recStatus_congr (h6 _)]
      obtain ⟨ck, hck⟩ := handleIBTP_ok_checked h5
      have hs0 : recStatus (txStart l) t = some st := hs
      rcases handleIBTP_rec hck h5 t with e1 | ⟨hreq, ht, hnn⟩ | ⟨_, s0, s1, hs1, hstep, _⟩
      · rw [recStatus_congr e1]; exact hs0
      · -- a request with the very id `t`: its index would have to be counter + 1, but the counter has passed it
        exfalso
        have hn : ck.notice = false := by
          rcases hnn with hnn | hnn
          · exact hnn
          · unfold recStatus at hs0; rw [hnn] at hs0; cases hs0
        have hd' : OrderedDst env' (txStart l) t.to := by
          exact orderedDst_env h2 h3 (hd.mono (fun _ _ => rfl))
        have hdst : ck.dst = t.to := by rw [ht]
        have hsrc : ck.src = t.frm := by rw [ht]
        have hnb : ck.isBatch = false := orderedDst_not_batch (by rw [hdst]; exact hd') hck hreq hn
        have hidx := C02_accept_needs_next_index env' (txStart l) i ck hck hreq hn hnb
        have hi : t.index = i.index := by rw [ht]
        have hb0 : t.index ≤ reqCounter (txStart l) t.frm t.to := hb
        unfold reqCounter at hb0
        rw [← hsrc, ← hdst] at hb0
        omega
      · rw [hs0] at hs1
        cases hs1
        rw [C04_final_absorbing_step _ _ hf] at hstep
        cases hstep

/-- the timeout step writes records of transactions and groups only -/
theorem setTimeoutRollback_frame (l : Led) (h : Nat) (k : Key) (hk1 : ∀ x, k ≠ .txRec x) (hk2 : ∀ x, k ≠ .glob x) :
    (setTimeoutRollback l h).getS k = l.getS k := by
  unfold setTimeoutRollback
  suffices H : ∀ (ids : List TId) (acc : Led × Bool), (ids.foldl (rollbackStep h) acc).1.getS k = acc.1.getS k from H _ (l, false)
  intro ids
  induction ids with
  | nil => intro acc; rfl
  | cons id rest ih =>
    intro acc
    simp only [List.foldl_cons]
    rw [ih]
    unfold rollbackStep
    split
    · rfl
    · split
      · split
        · simp only [Led.getS_setS]; rw [if_neg (fun e => hk2 _ e.symm)]
        · rfl
      · simp only [Led.getS_setS]; rw [if_neg (fun e => hk1 _ e.symm)]

open Bxh.Props.C02 in
/-- **a whole block keeps a final record as it is, provided the record is not on the timeout list of that block's height
when the timeout step runs** (the list bookkeeping of `setTimeoutList` is what has to guarantee that; the model driver
evaluates it on every generated block, evidence tag `model:listedfinal=…`) -/
theorem C04_block_final_stays (cfg : Cfg) (n : Node) (txs : List (Tx × Bool)) (t : TxId) (st : Status)
    (hI : FinalInv { cfg := cfg, cache := n.cache, height := 0, txIndex := 0 } n.led t st) (hf : st.isFinal = true)
    (hnd : ∀ p ∈ txs, ∀ sg args, p.1 ≠ .bvm sg "interchain" "DeleteInterchain" args)
    (hnl : TId.single t ∉ getTimeoutList
      (setTimeoutList cfg (applyTxs cfg n.cache (n.height + 1) n.led txs).led (n.height + 1) (txs.map (·.1))
        (applyTxs cfg n.cache (n.height + 1) n.led txs).rcpts) (n.height + 1)) :
    FinalInv { cfg := cfg, cache := (execBlock cfg n txs).1.cache, height := 0, txIndex := 0 } (execBlock cfg n txs).1.led t st := by
  -- the serial loop
  have loop : ∀ (ts : List (Tx × Bool)) (a : Acc), (∀ p ∈ ts, ∀ sg args, p.1 ≠ .bvm sg "interchain" "DeleteInterchain" args) →
      FinalInv { cfg := cfg, cache := n.cache, height := 0, txIndex := 0 } a.led t st →
      FinalInv { cfg := cfg, cache := n.cache, height := 0, txIndex := 0 } (ts.foldl (txStep cfg n.cache (n.height + 1)) a).led t st := by
    intro ts
    induction ts with
    | nil => intro a _ h0; exact h0
    | cons p rest ih =>
      intro a hp h0
      simp only [List.foldl_cons]
      apply ih _ (fun q hq => hp q (List.mem_cons_of_mem _ hq))
      unfold txStep
      simp only
      obtain ⟨o1, o2, o3⟩ := h0
      have hconv : ∀ {l' : Led} {e1 e2 : Env}, e2.cache = e1.cache → e2.cfg.bxh = e1.cfg.bxh → FinalInv e1 l' t st → FinalInv e2 l' t st :=
        fun hc hb h => ⟨orderedDst_env hc hb h.ordered, h.bound, h.status⟩
      have hstep := C04_tx_final_stays { cfg := cfg, cache := n.cache, height := n.height + 1, txIndex := a.idx } a.led p.1
        (if !p.2 then some "bad-sig" else match p.1 with
          | .ibtp _ i pk => proofVerdict cfg i pk
          | _ => none) t st
        (hconv (e1 := { cfg := cfg, cache := n.cache, height := 0, txIndex := 0 })
          (e2 := { cfg := cfg, cache := n.cache, height := n.height + 1, txIndex := a.idx }) rfl rfl ⟨o1, o2, o3⟩) hf (hp p (List.mem_cons_self ..))
      exact hconv (e1 := { cfg := cfg, cache := n.cache, height := n.height + 1, txIndex := a.idx })
        (e2 := { cfg := cfg, cache := n.cache, height := 0, txIndex := 0 }) rfl rfl hstep
  have h1 := loop txs { led := n.led } hnd hI
  rw [← applyTxs_eq] at h1
  obtain ⟨o1, o2, o3⟩ := h1
  unfold execBlock
  simp only
  generalize hA : applyTxs cfg n.cache (n.height + 1) n.led txs = A at o1 o2 o3 hnl
  have hfin : ∀ k, (setTimeoutRollback (setTimeoutList cfg A.led (n.height + 1) (txs.map (·.1)) A.rcpts) (n.height + 1)).finalise.getS k =
      (setTimeoutRollback (setTimeoutList cfg A.led (n.height + 1) (txs.map (·.1)) A.rcpts) (n.height + 1)).getS k :=
    fun k => getS_of_store (finalise_store _) k
  refine ⟨?_, ?_, ?_⟩
  · refine o1.mono (fun c sid => ?_)
    rw [hfin, setTimeoutRollback_frame _ _ _ (by intro x e; cases e) (by intro x e; cases e),
      setTimeoutList_getS _ _ _ _ _ _ (by intro x e; cases e)]
  · have := C02_timeout_steps_keep_counters cfg A.led (n.height + 1) (txs.map (·.1)) A.rcpts t.frm t.to
    rw [reqCounter_congr (fun x => hfin _) t.frm t.to, this]
    exact o2
  · rw [recStatus_congr (hfin _), recStatus_congr (Bxh.Props.C06.C06_not_listed_untouched _ _ t hnl),
      recStatus_congr (setTimeoutList_getS _ _ _ _ _ _ (by intro x e; cases e))]
    exact o3

/-- the record of `t` is not on the timeout list of the block's height when the timeout step of that block runs -/
def NotListedAtStep (cfg : Cfg) (n : Node) (txs : List (Tx × Bool)) (t : TxId) : Prop :=
  TId.single t ∉ getTimeoutList
    (setTimeoutList cfg (applyTxs cfg n.cache (n.height + 1) n.led txs).led (n.height + 1) (txs.map (·.1))
      (applyTxs cfg n.cache (n.height + 1) n.led txs).rcpts) (n.height + 1)

theorem execBlock_cache (cfg : Cfg) (n : Node) (txs : List (Tx × Bool)) : (execBlock cfg n txs).1.cache = n.cache := rfl

/-- **SUCCESS, FAILURE and ROLLBACK are final over every history of blocks** (any transactions, fees paid or not, timeouts in
between) — as long as the record is never on the list of the height whose timeout step runs, and nobody calls the unguarded
`DeleteInterchain` (an open finding of C17) -/
theorem C04_block_history_final_stays (cfg : Cfg) (blocks : List (List (Tx × Bool))) (n : Node) (t : TxId) (st : Status)
    (hI : FinalInv { cfg := cfg, cache := n.cache, height := 0, txIndex := 0 } n.led t st) (hf : st.isFinal = true)
    (hnd : ∀ b ∈ blocks, ∀ p ∈ b, ∀ sg args, p.1 ≠ .bvm sg "interchain" "DeleteInterchain" args)
    (hnl : ∀ k (hk : k < blocks.length), NotListedAtStep cfg (runBlocks cfg n (blocks.take k)) blocks[k] t) :
    recStatus (runBlocks cfg n blocks).led t = some st := by
  suffices H : FinalInv { cfg := cfg, cache := (runBlocks cfg n blocks).cache, height := 0, txIndex := 0 } (runBlocks cfg n blocks).led t st from H.status
  induction blocks generalizing n with
  | nil => exact hI
  | cons b rest ih =>
    have h0 := hnl 0 (by simp)
    simp only [List.take_zero, List.getElem_cons_zero] at h0
    have hstep := C04_block_final_stays cfg n b t st hI hf (hnd b (List.mem_cons_self ..)) h0
    have := ih (execBlock cfg n b).1 hstep (fun b' hb' => hnd b' (List.mem_cons_of_mem _ hb'))
      (fun k hk => by
        have := hnl (k + 1) (by simp; omega)
        simpa [runBlocks] using this)
    simpa [runBlocks] using this

/-! ### between two BitXHubs: the destination hub's notice -/

/-- what a notice names: the event of the (regenerated) `txStatus2EventM` -/
theorem noticeEvent_values :
    noticeEvent .beginFailure = "dst_failure" ∧ noticeEvent .beginRollback = "dst_rollback" ∧
    noticeEvent .none = "" ∧ noticeEvent .other = "" := by decide

/-- table fact (all 5 × 6 × 6 combinations, by `decide`): a step by the event a notice names starts at BEGIN and ends at FAILURE
(begin-failure notice) or ROLLBACK (rollback notice) -/
theorem notice_step (x : Ext) (st st' : Status) (h : txFsmStep st (noticeEvent x) = some st') :
    st = .begin ∧ ((x = .beginFailure ∧ st' = .failure) ∨ (x = .beginRollback ∧ st' = .rollback)) := by
  cases x <;> cases st <;> cases st' <;> revert h <;> decide

/-- **the notice moves a record only from BEGIN, to FAILURE (begin-failure notice) or ROLLBACK (rollback notice)** — the two
extra transitions the property names —, and keeps the recorded deadline: `BeginInterBitXHub` on an existing record (since the
`fix:` commit "the destination hub's notice ends an inter-BitXHub transaction for the timeout mechanism too" the stored record
is read; before, the step started from an empty record: any status was taken for BEGIN and the deadline was lost) -/
theorem C04_notice_only_from_begin (l : Led) (cur : Nat) (id : TxId) (t : Nat) (x : Ext) (f : Bool) (r : Rec)
    (res : Led × StatusChange) (hrec : l.getS (.txRec id) = some (.trec r))
    (h : tmBeginInter l cur id t x f = .ok res) :
    r.status = .begin ∧ res.2.prev = some .begin ∧
    ((x = .beginFailure ∧ res.2.cur = .failure) ∨ (x = .beginRollback ∧ res.2.cur = .rollback)) ∧
    res.1.getS (.txRec id) = some (.trec { height := r.height, status := res.2.cur }) := by
  unfold tmBeginInter at h
  simp only [hrec] at h
  split at h
  · cases h
  · split at h
    · cases h
    · rename_i st' hst
      cases h
      obtain ⟨h1, h2⟩ := notice_step x r.status st' hst
      exact ⟨h1, by simp [h1], h2, by simp⟩

/-- and it is accepted whenever the record is at BEGIN -/
theorem C04_notice_accepted_at_begin (l : Led) (cur : Nat) (id : TxId) (t : Nat) (x : Ext) (f : Bool) (r : Rec)
    (hrec : l.getS (.txRec id) = some (.trec r)) (hb : r.status = .begin) (hx : x.isNotice = true) :
    ∃ res, tmBeginInter l cur id t x f = .ok res := by
  unfold tmBeginInter
  simp only [hrec, hb]
  have h1 : txFsmStep Status.begin (noticeEvent .beginFailure) = some .failure := by decide
  have h2 : txFsmStep Status.begin (noticeEvent .beginRollback) = some .rollback := by decide
  cases x <;> simp [Ext.isNotice] at hx
  · exact ⟨_, by simp [h1]; rfl⟩
  · exact ⟨_, by simp [h2]; rfl⟩

/-- non-vacuity, and the defect the fix removed: on a record that timed out (BEGIN_ROLLBACK, deadline 9) the begin-failure
notice is refused; started from an empty record — as the code did — the same notice went BEGIN → FAILURE and the written
record carried no deadline -/
example :
    let id : TxId := ⟨⟨"1356", "c1", "s1"⟩, ⟨"9999", "c5", "s1"⟩, 1⟩
    let l : Led := { store := [(.txRec id, .trec { height := 9, status := .beginRollback })] }
    (tmBeginInter l 10 id 3 .beginFailure false).toOption.isNone = true ∧
    txFsmStep ({ height := 0, status := .begin } : Rec).status (noticeEvent .beginFailure) = some .failure := by decide

open Bxh.Props.C02 in
/-- the history theorems cover pairs whose destination lives on another BitXHub (`OrderedDst` holds of every remote destination):
instance of `C04_history_final_stays` for a record ended by the notice -/
theorem C04_history_final_stays_remote (env : Env) (t : TxId) (is : List Ibtp) (l : Led) (st : Status)
    (hrem : isLocal env t.to = false) (hb : t.index ≤ reqCounter l t.frm t.to) (hs : recStatus l t = some st)
    (hf : st.isFinal = true) : recStatus (runIbtps env l is) t = some st :=
  C04_history_final_stays env t is l st (Or.inl hrem) hb hs hf

open Bxh.Props.C02 in
/-- non-vacuity (hub 9999 registered): request 1 to a service over there is accepted (BEGIN), the request handed back with the
begin-failure notice ends it (FAILURE), and a second notice, a rollback notice, the other hub's success receipt and a replay of
the request leave FAILURE in place; a notice for a request never made begins an ordinary transaction -/
example :
    let svc : Svc := { ordered := true, blacklist := [], available := true }
    let l : Led := { store := [(.svc "c1" "s1", .svc svc)] }
    let env : Env := { cfg := { hubs := ["9999"] }, cache := [], height := 12, txIndex := 0 }
    let s11 : SvcId := { bxh := "1356", chain := "c1", sid := "s1" }
    let r51 : SvcId := { bxh := "9999", chain := "c5", sid := "s1" }
    let m (n : Nat) (ty : IType) (x : Ext) : Ibtp := { frm := some s11, to := some r51, index := n, typ := ty, timeout := 3, group := none, ext := x }
    let t : TxId := { frm := s11, to := r51, index := 1 }
    recStatus (runIbtps env l [m 1 .interchain .none]) t = some .begin ∧
    recStatus (runIbtps env l [m 1 .interchain .none, m 1 .interchain .beginFailure]) t = some .failure ∧
    recStatus (runIbtps env l [m 1 .interchain .none, m 1 .interchain .beginFailure, m 1 .interchain .beginFailure,
      m 1 .interchain .beginRollback, m 1 .receiptSuccess .none, m 1 .interchain .none]) t = some .failure ∧
    recStatus (runIbtps env l [m 1 .interchain .beginRollback]) t = some .begin := by
  decide

/-! ### the hypothesis about the timeout lists, discharged

`C04_block_history_final_stays` assumes that the final record is never on the list of the height whose timeout step runs.
Below that assumption is replaced by an invariant the blocks themselves maintain: a final record that is on no list of a
height still to come stays final *and* stays off those lists, whatever the blocks contain. -/

section Closed
open Bxh.Props.C02


theorem recStatus_some {l : Led} {t : TxId} {st : Status} (h : recStatus l t = some st) :
    ∃ r, l.getS (.txRec t) = some (.trec r) ∧ r.status = st := by
  unfold recStatus at h
  split at h
  · rename_i r hr; cases h; exact ⟨r, hr, rfl⟩
  · cases h

/-- the notice of the other hub is refused for a record that is final -/
theorem tmBeginInter_final_refused (l : Led) (cur : Nat) (id : TxId) (tt : Nat) (x : Ext) (f : Bool) (r : Rec)
    (hrec : l.getS (.txRec id) = some (.trec r)) (hf : r.status.isFinal = true) :
    ∃ e, tmBeginInter l cur id tt x f = .error e := by
  unfold tmBeginInter
  rw [hrec]
  simp only
  split
  · exact ⟨_, rfl⟩
  · rw [C04_final_absorbing_step _ _ hf]
    exact ⟨_, rfl⟩

/-- **a request that names a finished transaction is never handled successfully**: as a fresh request its index is behind the
pair's counter, as the other hub's notice it meets a final record -/
theorem handleIBTP_final_request_refused (env : Env) (l : Led) (i : Ibtp) (t : TxId) (st : Status) (r : Led × String)
    (hI : FinalInv env l t st) (hf : st.isFinal = true)
    (hfr : i.frm = some t.frm) (hto : i.to = some t.to) (hix : i.index = t.index) (hreq : i.typ.isRequest = true)
    (h : handleIBTP env l i = .ok r) : False := by
  obtain ⟨hd, hb, hs⟩ := hI
  obtain ⟨ck, hck⟩ := handleIBTP_ok_checked h
  obtain ⟨e1, e2⟩ := checkIBTP_ends hck
  have hsrc : ck.src = t.frm := by rw [hfr] at e1; exact (Option.some.inj e1).symm
  have hdst : ck.dst = t.to := by rw [hto] at e2; exact (Option.some.inj e2).symm
  cases hn : ck.notice with
  | false =>
    have hnb : ck.isBatch = false := orderedDst_not_batch (by rw [hdst]; exact hd) hck hreq hn
    have hidx := C02_accept_needs_next_index env l i ck hck hreq hn hnb
    unfold reqCounter at hb
    rw [hsrc, hdst] at hidx
    omega
  | true =>
    obtain ⟨hne, _, _, _⟩ := checkIBTP_notice_true hck hn
    obtain ⟨rec, hrec, hst⟩ := recStatus_some hs
    have hid : ({ frm := ck.src, to := ck.dst, index := i.index } : TxId) = t := by
      rw [hsrc, hdst, hix]
    obtain ⟨e, he⟩ := tmBeginInter_final_refused l env.height t (toU64 i.timeout) i.ext ck.targetErr rec hrec (by rw [hst]; exact hf)
    unfold handleIBTP at h
    simp only [hck, hreq, if_true] at h
    unfold beginTransaction at h
    simp only [hid, ne_eq, hne, not_false_eq_true, if_true, he] at h
    cases h

/-- its receipt is a failure, whatever else the transaction carries -/
theorem C04_request_for_final_refused (env : Env) (l : Led) (tx : Tx) (inv : Option String) (t : TxId) (st : Status)
    (hI : FinalInv env l t st) (hf : st.isFinal = true) (s : String) (i : Ibtp) (p : ProofKind) (htx : tx = .ibtp s i p)
    (hfr : i.frm = some t.frm) (hto : i.to = some t.to) (hix : i.index = t.index) (hreq : i.typ.isRequest = true) :
    (applyTx env l tx inv).2.rcpt.ok = false := by
  have hI0 : FinalInv env (txStart l) t st := ⟨hI.ordered.mono (fun _ _ => rfl), hI.bound, hI.status⟩
  have hres : ∀ ret, (applyBxh env (txStart l) tx inv).2.1 ≠ .ok ret := by
    intro ret hh
    subst htx
    unfold applyBxh at hh
    split at hh
    · cases hh
    · simp only at hh
      split at hh
      · rename_i l' ret' hok
        exact handleIBTP_final_request_refused env (txStart l) i t st (l', ret') hI0 hf hfr hto hix hreq hok
      · split at hh
        · split at hh <;> cases hh
        · cases hh
  unfold applyTx
  simp only
  split
  · simp only
    cases hr : (applyBxh env (txStart l) tx inv).2.1 with
    | ok ret => exact absurd hr (hres ret)
    | error e =>
      have hr' : (applyBxh env { l with journal := [], events := [] } tx inv).2.1 = .error e := hr
      rw [hr']; rfl
  · rfl

/-- a final record that is on no timeout list of a height still to come -/
structure FinalInvL (env : Env) (l : Led) (cur : Nat) (t : TxId) (st : Status) : Prop where
  base : FinalInv env l t st
  unlisted : ∀ d, cur < d → ¬ listedAt l d t

theorem execBlock_height (cfg : Cfg) (n : Node) (txs : List (Tx × Bool)) : (execBlock cfg n txs).1.height = n.height + 1 := rfl

/-- **a whole block keeps a final record final and off every list still to come** — no hypothesis about the lists any more:
the transactions of the block put no one-to-one id on a list (`StepsT`), and the bookkeeping adds an id only for a request
with a successful receipt, which a request naming a finished transaction never gets -/
theorem C04_block_final_stays_unlisted (cfg : Cfg) (n : Node) (txs : List (Tx × Bool)) (t : TxId) (st : Status)
    (hI : FinalInvL { cfg := cfg, cache := n.cache, height := 0, txIndex := 0 } n.led n.height t st) (hf : st.isFinal = true)
    (hnd : ∀ p ∈ txs, ∀ sg args, p.1 ≠ .bvm sg "interchain" "DeleteInterchain" args) :
    FinalInvL { cfg := cfg, cache := (execBlock cfg n txs).1.cache, height := 0, txIndex := 0 } (execBlock cfg n txs).1.led
      (execBlock cfg n txs).1.height t st := by
  have hconv : ∀ {l' : Led} {e1 e2 : Env}, e2.cache = e1.cache → e2.cfg.bxh = e1.cfg.bxh → FinalInv e1 l' t st → FinalInv e2 l' t st :=
    fun hc hb h => ⟨orderedDst_env hc hb h.ordered, h.bound, h.status⟩
  -- the serial loop: the invariant, and what it says about every (transaction, receipt) pair
  have loop := applyTxs_zip_inv cfg n.cache (n.height + 1)
    (fun tx => ∀ sg args, tx ≠ .bvm sg "interchain" "DeleteInterchain" args)
    (fun l => FinalInv { cfg := cfg, cache := n.cache, height := 0, txIndex := 0 } l t st ∧ ∀ d, n.height < d → ¬ listedAt l d t)
    (fun tx rc => ∀ s i p, tx = .ibtp s i p → i.frm = some t.frm → i.to = some t.to → i.index = t.index → i.typ.isRequest = true → rc.ok = false)
    (by
      intro idx l tx inv hg hp
      refine ⟨?_, fun d hd hl => hp.2 d hd (applyTx_listed _ _ _ _ d t hl)⟩
      exact hconv (e1 := { cfg := cfg, cache := n.cache, height := n.height + 1, txIndex := idx }) rfl rfl
        (C04_tx_final_stays _ l tx inv t st (hconv (e1 := { cfg := cfg, cache := n.cache, height := 0, txIndex := 0 }) rfl rfl hp.1) hf hg))
    (by
      intro idx l tx inv _ hp s i p htx hfr hto hix hreq
      exact C04_request_for_final_refused _ l tx inv t st
        (hconv (e1 := { cfg := cfg, cache := n.cache, height := 0, txIndex := 0 }) rfl rfl hp.1) hf s i p htx hfr hto hix hreq)
    n.led ⟨hI.base, hI.unlisted⟩ txs hnd
  obtain ⟨⟨_, hul⟩, hq⟩ := loop
  -- after the bookkeeping the id is on no list above the old height
  have hnl : ∀ d, n.height < d → ¬ listedAt (setTimeoutList cfg (applyTxs cfg n.cache (n.height + 1) n.led txs).led (n.height + 1) (txs.map (·.1))
      (applyTxs cfg n.cache (n.height + 1) n.led txs).rcpts) d t := by
    intro d hd hl
    rcases setTimeoutList_listed _ _ _ _ _ d t hl with h1 | h1
    · exact hul d hd h1
    · have hm := mem_addsAt h1
      obtain ⟨pr, hpr, hact⟩ := List.mem_map.mp hm
      obtain ⟨s, i, p, htx, hfr, hto, hix, hreq, hok⟩ := timeoutAct_add hact
      have := hq pr hpr s i p htx hfr hto hix hreq
      rw [this] at hok
      cases hok
  refine ⟨?_, ?_⟩
  · exact C04_block_final_stays cfg n txs t st hI.base hf hnd
      (fun hm => hnl (n.height + 1) (Nat.lt_succ_self _) (listedAt_of_mem_getTimeoutList hm))
  · intro d hd hl
    rw [execBlock_height] at hd
    apply hnl d (by omega)
    unfold execBlock at hl
    simp only at hl
    refine (listedAt_congr ?_).mp hl
    rw [getS_of_store (finalise_store _), setTimeoutRollback_frame _ _ _ (by intro x e; cases e) (by intro x e; cases e)]

/-- **SUCCESS, FAILURE and ROLLBACK are final over every history of blocks** (any transactions, fees paid or not, timeouts in
between): a final record that is on no list of a height still to come stays what it is — the only assumption left about the
history is that nobody calls the unguarded `DeleteInterchain` (an open finding of C17) -/
theorem C04_block_history_final_stays_unlisted (cfg : Cfg) (blocks : List (List (Tx × Bool))) (n : Node) (t : TxId) (st : Status)
    (hI : FinalInvL { cfg := cfg, cache := n.cache, height := 0, txIndex := 0 } n.led n.height t st) (hf : st.isFinal = true)
    (hnd : ∀ b ∈ blocks, ∀ p ∈ b, ∀ sg args, p.1 ≠ .bvm sg "interchain" "DeleteInterchain" args) :
    recStatus (runBlocks cfg n blocks).led t = some st ∧
    ∀ d, (runBlocks cfg n blocks).height < d → ¬ listedAt (runBlocks cfg n blocks).led d t := by
  suffices H : FinalInvL { cfg := cfg, cache := (runBlocks cfg n blocks).cache, height := 0, txIndex := 0 } (runBlocks cfg n blocks).led
      (runBlocks cfg n blocks).height t st from ⟨H.base.status, H.unlisted⟩
  induction blocks generalizing n with
  | nil => exact hI
  | cons b rest ih =>
    have hstep := C04_block_final_stays_unlisted cfg n b t st hI hf (hnd b (List.mem_cons_self ..))
    have := ih (execBlock cfg n b).1 hstep (fun b' hb' => hnd b' (List.mem_cons_of_mem _ hb'))
    simpa [runBlocks] using this


/-- non-vacuity: a SUCCESS record of the pair c1:s1 → c2:s1 whose counter has passed its index, no timeout list stored -/
example :
    let svc : Svc := { ordered := true, blacklist := [], available := true }
    let s11 : SvcId := { bxh := "1356", chain := "c1", sid := "s1" }
    let s21 : SvcId := { bxh := "1356", chain := "c2", sid := "s1" }
    let t : TxId := { frm := s11, to := s21, index := 1 }
    let l : Led := { store := [(.svc "c1" "s1", .svc svc), (.svc "c2" "s1", .svc svc), (.txRec t, .trec { height := 9, status := .success }),
      (.ic s11, .ic { ic := [(s21, 1)] })] }
    FinalInvL { cfg := {}, cache := [], height := 0, txIndex := 0 } l 7 t .success := by
  intro svc s11 s21 t l
  refine ⟨⟨Or.inr ⟨by decide, by decide, rfl, ?_⟩, by decide, by decide⟩, ?_⟩
  · intro sv h
    have : l.getS (.svc s21.chain s21.sid) = some (.svc svc) := by decide
    rw [this] at h
    cases h; rfl
  · rintro d _ ⟨lst, e, _⟩
    simp [l, Led.getS, KV.get] at e

/-! ### … and established: the block in which a receipt is accepted takes the transaction off its list -/

/-- a transaction of an index-checked pair inside one hub whose request has been accepted (the pair's counter has reached
its index) -/
structure PairInv (env : Env) (l : Led) (t : TxId) : Prop where
  ordered : OrderedDst env l t.to
  bound : t.index ≤ reqCounter l t.frm t.to
  loc : t.frm.bxh = t.to.bxh

/-- a request that names a transaction the pair's counter has passed is not handled (inside one hub there is no notice) -/
theorem handleIBTP_known_request_refused (env : Env) (l : Led) (i : Ibtp) (t : TxId) (r : Led × String)
    (hI : PairInv env l t)
    (hfr : i.frm = some t.frm) (hto : i.to = some t.to) (hix : i.index = t.index) (hreq : i.typ.isRequest = true)
    (h : handleIBTP env l i = .ok r) : False := by
  obtain ⟨hd, hb, hloc⟩ := hI
  obtain ⟨ck, hck⟩ := handleIBTP_ok_checked h
  obtain ⟨e1, e2⟩ := checkIBTP_ends hck
  have hsrc : ck.src = t.frm := by rw [hfr] at e1; exact (Option.some.inj e1).symm
  have hdst : ck.dst = t.to := by rw [hto] at e2; exact (Option.some.inj e2).symm
  have hn : ck.notice = false := checkIBTP_local_no_notice hck (by rw [hsrc, hdst]; exact hloc)
  have hnb : ck.isBatch = false := orderedDst_not_batch (by rw [hdst]; exact hd) hck hreq hn
  have hidx := C02_accept_needs_next_index env l i ck hck hreq hn hnb
  unfold reqCounter at hb
  rw [hsrc, hdst] at hidx
  omega

/-- **one handled IBTP and the record of a known transaction**: the record is untouched, or the IBTP is a receipt for exactly that
transaction and the record keeps its deadline while its status makes the step of the receipt's event -/
theorem handleIBTP_known_rec {env : Env} {l : Led} {i : Ibtp} {r : Led × String} {t : TxId}
    (hI : PairInv env l t) (h : handleIBTP env l i = .ok r) :
    r.1.getS (.txRec t) = l.getS (.txRec t) ∨
    (i.typ.isResponse = true ∧ i.frm = some t.frm ∧ i.to = some t.to ∧ i.index = t.index ∧
      ∃ rec st', l.getS (.txRec t) = some (.trec rec) ∧ txFsmStep rec.status (receiptEvent i.typ.toNat) = some st' ∧
        r.1.getS (.txRec t) = some (.trec { rec with status := st' })) := by
  obtain ⟨ck, hck⟩ := handleIBTP_ok_checked h
  obtain ⟨e1, e2⟩ := checkIBTP_ends hck
  have h0 := h
  unfold handleIBTP at h
  simp only [hck] at h
  split at h
  · cases h
  · rename_i l1 c hr
    have hafter : r.1.getS (.txRec t) = l1.getS (.txRec t) := by
      have hn : (notifySrcDst env l1 ck.src ck.dst c ck.isBatch).getS (.txRec t) = l1.getS (.txRec t) :=
        notifySrcDst_frameA _ _ _ _ _ _ _ (rec_not_aux t)
      have hp := processIBTP_rec (notifySrcDst env l1 ck.src ck.dst c ck.isBatch) i ck c t
      generalize hpr : processIBTP (notifySrcDst env l1 ck.src ck.dst c ck.isBatch) i ck c = pr at h hp
      obtain ⟨l3, ret⟩ := pr
      simp only at h hp
      split at h
      · split at h
        · cases h
        · cases h
          show ((l3.post .audit).post .audit).getS _ = _
          simp only [Led.getS_post]
          rw [hp, hn]
      · cases h; rw [hp, hn]
    by_cases hreq : i.typ.isRequest = true
    · simp only [hreq, if_true] at hr
      have hid : ∀ (ht : t = { frm := ck.src, to := ck.dst, index := i.index }), False := by
        intro ht
        exact handleIBTP_known_request_refused env l i t r hI (by rw [e1, ht]) (by rw [e2, ht]) (by rw [ht]) hreq h0
      rcases beginTransaction_rec hr t with h1 | ⟨ht, _⟩ | ⟨ht, _⟩
      · left; rw [hafter, h1]
      · exact (hid ht).elim
      · exact (hid ht).elim
    · simp only [hreq, if_false, Bool.false_eq_true] at hr
      split at hr
      · rename_i hresp
        split at hr
        · cases hr
        · rename_i y hy
          cases hr
          rcases tmReport_rec hy t with h1 | ⟨ht, rec, st', h2, h3, h4⟩
          · left; rw [hafter, h1]
          · right
            refine ⟨hresp, by rw [e1, ht], by rw [e2, ht], by rw [ht], rec, st', ?_, h3, ?_⟩
            · rw [ht]; exact h2
            · rw [hafter, ht]; exact h4
      · cases hr

/-- a receipt's event leads to a final status, whatever the status before -/
theorem receipt_step_final (s s' : Status) (ty : IType) (hr : ty.isResponse = true)
    (h : txFsmStep s (receiptEvent ty.toNat) = some s') : s'.isFinal = true := by
  cases ty with
  | interchain => cases hr
  | other n => cases hr
  | receiptSuccess => cases s <;> cases s' <;> revert h <;> decide
  | receiptFailure => cases s <;> cases s' <;> revert h <;> decide
  | receiptRollback => cases s <;> cases s' <;> revert h <;> decide


theorem isRequest_of_isResponse {ty : IType} (h : ty.isResponse = true) : ty.isRequest = false := by
  cases ty <;> simp_all [IType.isRequest, IType.isResponse]

theorem checkIBTP_response_targetErr {env : Env} {l : Led} {i : Ibtp} {ck : Checked} (h : checkIBTP env l i = .ok ck)
    (hresp : i.typ.isResponse = true) : ck.targetErr = false := by
  have hreq := isRequest_of_isResponse hresp
  unfold checkIBTP at h
  repeat' (first | (cases h <;> simp_all) | split at h | simp only at h)

/-- the result text of a handled receipt is never "begin_failure" (that is the answer to a request whose destination is unusable) -/
theorem handleIBTP_response_ret {env : Env} {l : Led} {i : Ibtp} {r : Led × String} (h : handleIBTP env l i = .ok r)
    (hresp : i.typ.isResponse = true) : r.2 ≠ "begin_failure" := by
  obtain ⟨ck, hck⟩ := handleIBTP_ok_checked h
  have hte := checkIBTP_response_targetErr hck hresp
  have hret : ∀ (l' : Led) (c : StatusChange), (processIBTP l' i ck c).2 ≠ "begin_failure" := by
    intro l' c
    unfold processIBTP
    simp only [hte]
    split <;> (simp only; split <;> decide)
  unfold handleIBTP at h
  simp only [hck] at h
  split at h
  · cases h
  · rename_i l1 c hr
    generalize hpr : processIBTP (notifySrcDst env l1 ck.src ck.dst c ck.isBatch) i ck c = pr at h
    have := hret (notifySrcDst env l1 ck.src ck.dst c ck.isBatch) c
    rw [hpr] at this
    obtain ⟨l3, ret⟩ := pr
    simp only at h this
    split at h
    · split at h
      · cases h
      · cases h; exact this
    · cases h; exact this

/-- the receipt of a receipt transaction never carries the begin-failure mark -/
theorem applyTx_response_txStatus (env : Env) (l : Led) (s : String) (i : Ibtp) (p : ProofKind) (inv : Option String)
    (hresp : i.typ.isResponse = true) : (applyTx env l (.ibtp s i p) inv).2.rcpt.txStatus = 0 := by
  have hres : (mkRcpt (applyBxh env (txStart l) (.ibtp s i p) inv).2.1).txStatus = 0 := by
    unfold applyBxh
    split
    · rfl
    · simp only
      split
      · rename_i l' ret hok
        have := handleIBTP_response_ret hok hresp
        simp only [mkRcpt]
        rw [if_neg (by simpa using this)]
      · split
        · split <;> rfl
        · rfl
  unfold applyTx
  simp only
  split
  · exact hres
  · exact hres


theorem PairInv.conv {l : Led} {t : TxId} {e1 e2 : Env} (hc : e2.cache = e1.cache) (hb : e2.cfg.bxh = e1.cfg.bxh)
    (h : PairInv e1 l t) : PairInv e2 l t := ⟨orderedDst_env hc hb h.ordered, h.bound, h.loc⟩

/-- **one transaction of a block and a known transaction `t`**: what is known of `t` stays known, and the record of `t` is
untouched — or the transaction is a receipt for `t`, and the record keeps its deadline while the status makes the receipt's step -/
theorem applyTx_known_rec (env : Env) (l : Led) (tx : Tx) (inv : Option String) (t : TxId)
    (hI : PairInv env l t) (hnd : ∀ sg args, tx ≠ .bvm sg "interchain" "DeleteInterchain" args) :
    PairInv env (applyTx env l tx inv).1 t ∧
    ((applyTx env l tx inv).1.getS (.txRec t) = l.getS (.txRec t) ∨
     (∃ s i p, tx = .ibtp s i p ∧ i.typ.isResponse = true ∧ i.frm = some t.frm ∧ i.to = some t.to ∧ i.index = t.index ∧
       ∃ rec st', l.getS (.txRec t) = some (.trec rec) ∧ txFsmStep rec.status (receiptEvent i.typ.toNat) = some st' ∧
         (applyTx env l tx inv).1.getS (.txRec t) = some (.trec { rec with status := st' }))) := by
  have hsvc : ∀ c sid, (applyTx env l tx inv).1.getS (.svc c sid) = l.getS (.svc c sid) := by
    intro c sid
    cases applyTx_effect env l tx inv with
    | nothing h => rw [h]; rfl
    | ibtp s i p env' r _ _ _ _ h5 h6 => rw [h6, handleIBTP_svc_frame h5]; rfl
    | bvm s c' m args r _ h2 h3 => rw [h3, applyBvm_frame h2 _ (by intro x e; cases e)]; rfl
  refine ⟨⟨hI.ordered.mono hsvc, ?_, hI.loc⟩, ?_⟩
  · rcases C02_tx_counter_step env l tx inv t.frm t.to hI.ordered hnd with h | ⟨h, _⟩ <;> have := hI.bound <;> omega
  · cases applyTx_effect env l tx inv with
    | nothing h => left; rw [h]; rfl
    | bvm s c m args r _ h2 h3 =>
      left; rw [h3, applyBvm_frame h2 _ (by intro x e; cases e)]; rfl
    | ibtp s i p env' r h1 h2 h3 _ h5 h6 =>
      have hI' : PairInv env' (txStart l) t :=
        ⟨orderedDst_env h2 h3 (hI.ordered.mono (fun _ _ => rfl)), hI.bound, hI.loc⟩
      rcases handleIBTP_known_rec hI' h5 with e | ⟨hresp, hfr, hto, hix, rec, st', g1, g2, g3⟩
      · left; rw [h6, e]; rfl
      · right
        exact ⟨s, i, p, h1, hresp, hfr, hto, hix, rec, st', g1, g2, by rw [h6]; exact g3⟩


/-- its receipt is a failure (transaction level) -/
theorem C04_known_request_refused (env : Env) (l : Led) (tx : Tx) (inv : Option String) (t : TxId)
    (hI : PairInv env l t) (s : String) (i : Ibtp) (p : ProofKind) (htx : tx = .ibtp s i p)
    (hfr : i.frm = some t.frm) (hto : i.to = some t.to) (hix : i.index = t.index) (hreq : i.typ.isRequest = true) :
    (applyTx env l tx inv).2.rcpt.ok = false := by
  have hI0 : PairInv env (txStart l) t := ⟨hI.ordered.mono (fun _ _ => rfl), hI.bound, hI.loc⟩
  have hres : ∀ ret, (applyBxh env (txStart l) tx inv).2.1 ≠ .ok ret := by
    intro ret hh
    subst htx
    unfold applyBxh at hh
    split at hh
    · cases hh
    · simp only at hh
      split at hh
      · rename_i l' ret' hok
        exact handleIBTP_known_request_refused env (txStart l) i t (l', ret') hI0 hfr hto hix hreq hok
      · split at hh
        · split at hh <;> cases hh
        · cases hh
  unfold applyTx
  simp only
  split
  · simp only
    cases hr : (applyBxh env (txStart l) tx inv).2.1 with
    | ok ret => exact absurd hr (hres ret)
    | error e =>
      have hr' : (applyBxh env { l with journal := [], events := [] } tx inv).2.1 = .error e := hr
      rw [hr']; rfl
  · rfl

/-- what the bookkeeping decides for an accepted receipt of a transaction whose record is final: take it off the list its record names -/
theorem timeoutAct_receipt_final (cfg : Cfg) (l : Led) (h : Nat) (s : String) (i : Ibtp) (p : ProofKind) (rc : Rcpt) (t : TxId) (r : Rec)
    (hresp : i.typ.isResponse = true) (hfr : i.frm = some t.frm) (hto : i.to = some t.to) (hix : i.index = t.index)
    (hts : rc.txStatus = 0) (hdst : (t.to.chain == cfg.bxh) = false)
    (hrec : l.getS (.txRec t) = some (.trec r)) (hf : r.status.isFinal = true) :
    timeoutAct cfg l h (.ibtp s i p) rc = .remove r.height t := by
  have hreq := isRequest_of_isResponse hresp
  have hid : ({ frm := t.frm, to := t.to, index := i.index } : TxId) = t := by rw [hix]
  unfold timeoutAct
  simp only [hfr, hto, hid, hreq, hresp, hdst, hts, hrec, hf]
  simp

/-- the tail of a block (bookkeeping, timeout step) keeps a final record that is not on the list of the block's height -/
theorem block_tail_final_stays (cfg : Cfg) (n : Node) (txs : List (Tx × Bool)) (t : TxId) (st : Status)
    (hA : FinalInv { cfg := cfg, cache := n.cache, height := 0, txIndex := 0 } (applyTxs cfg n.cache (n.height + 1) n.led txs).led t st)
    (hnl : TId.single t ∉ getTimeoutList
      (setTimeoutList cfg (applyTxs cfg n.cache (n.height + 1) n.led txs).led (n.height + 1) (txs.map (·.1))
        (applyTxs cfg n.cache (n.height + 1) n.led txs).rcpts) (n.height + 1)) :
    FinalInv { cfg := cfg, cache := (execBlock cfg n txs).1.cache, height := 0, txIndex := 0 } (execBlock cfg n txs).1.led t st := by
  obtain ⟨o1, o2, o3⟩ := hA
  unfold execBlock
  simp only
  generalize hAA : applyTxs cfg n.cache (n.height + 1) n.led txs = A at o1 o2 o3 hnl
  have hfin : ∀ k, (setTimeoutRollback (setTimeoutList cfg A.led (n.height + 1) (txs.map (·.1)) A.rcpts) (n.height + 1)).finalise.getS k =
      (setTimeoutRollback (setTimeoutList cfg A.led (n.height + 1) (txs.map (·.1)) A.rcpts) (n.height + 1)).getS k :=
    fun k => getS_of_store (finalise_store _) k
  refine ⟨?_, ?_, ?_⟩
  · refine o1.mono (fun c sid => ?_)
    rw [hfin, setTimeoutRollback_frame _ _ _ (by intro x e; cases e) (by intro x e; cases e),
      setTimeoutList_getS _ _ _ _ _ _ (by intro x e; cases e)]
  · have := C02_timeout_steps_keep_counters cfg A.led (n.height + 1) (txs.map (·.1)) A.rcpts t.frm t.to
    rw [reqCounter_congr (fun x => hfin _) t.frm t.to, this]
    exact o2
  · rw [recStatus_congr (hfin _), recStatus_congr (Bxh.Props.C06.C06_not_listed_untouched _ _ t hnl),
      recStatus_congr (setTimeoutList_getS _ _ _ _ _ _ (by intro x e; cases e))]
    exact o3


/-- an open (not yet final) one-to-one transaction at a block boundary (`cur` = height of the last block): its pair is
index-checked and has passed its index, it has a record, and on the timeout lists still to come it occurs at most once, and only
on the list its record names -/
structure OpenInv (env : Env) (l : Led) (cur : Nat) (t : TxId) (rec0 : Rec) : Prop where
  pair : PairInv env l t
  recd : l.getS (.txRec t) = some (.trec rec0)
  cnt : ∀ d, cur < d → listCount l d t ≤ 1
  only : ∀ d, cur < d → listedAt l d t → d = rec0.height

/-- **the block in which a transaction becomes final takes it off the timeout list**: an open transaction whose record is final
after the block's transactions (a receipt for it was accepted in this block) is final and on no list still to come when the block
ends — so the timeout step can never touch it again (`C04_block_history_final_stays_unlisted` from there on).  The block is any
block without the unguarded `DeleteInterchain` whose bookkeeping is not abandoned (`abort`: a successful receipt without any
record, which the model driver reports as it reports `listedfinal`) -/
theorem C04_block_finalising_unlists (cfg : Cfg) (n : Node) (txs : List (Tx × Bool)) (t : TxId) (rec0 : Rec) (st : Status)
    (hO : OpenInv { cfg := cfg, cache := n.cache, height := 0, txIndex := 0 } n.led n.height t rec0)
    (hopen : rec0.status.isFinal = false)
    (hdst : (t.to.chain == cfg.bxh) = false)
    (hnd : ∀ p ∈ txs, ∀ sg args, p.1 ≠ .bvm sg "interchain" "DeleteInterchain" args)
    (hna : (((txs.map (·.1)).zip (applyTxs cfg n.cache (n.height + 1) n.led txs).rcpts).map
      (fun p => timeoutAct cfg (applyTxs cfg n.cache (n.height + 1) n.led txs).led (n.height + 1) p.1 p.2)).contains .abort = false)
    (hend : recStatus (applyTxs cfg n.cache (n.height + 1) n.led txs).led t = some st) (hf : st.isFinal = true) :
    FinalInvL { cfg := cfg, cache := (execBlock cfg n txs).1.cache, height := 0, txIndex := 0 } (execBlock cfg n txs).1.led
      (execBlock cfg n txs).1.height t st := by
  let e0 : Env := { cfg := cfg, cache := n.cache, height := 0, txIndex := 0 }
  have conv : ∀ {l' : Led} (idx : Nat), PairInv e0 l' t → PairInv { cfg := cfg, cache := n.cache, height := n.height + 1, txIndex := idx } l' t :=
    fun idx h => PairInv.conv (e1 := e0) (e2 := { cfg := cfg, cache := n.cache, height := n.height + 1, txIndex := idx }) rfl rfl h
  have conv' : ∀ {l' : Led} (idx : Nat), PairInv { cfg := cfg, cache := n.cache, height := n.height + 1, txIndex := idx } l' t → PairInv e0 l' t :=
    fun idx h => PairInv.conv (e1 := { cfg := cfg, cache := n.cache, height := n.height + 1, txIndex := idx }) (e2 := e0) rfl rfl h
  -- (1) requests naming `t` are refused all through the block
  have loopQ := applyTxs_zip_inv cfg n.cache (n.height + 1)
    (fun tx => ∀ sg args, tx ≠ .bvm sg "interchain" "DeleteInterchain" args)
    (fun l => PairInv e0 l t)
    (fun tx rc => ∀ s i p, tx = .ibtp s i p → i.frm = some t.frm → i.to = some t.to → i.index = t.index → i.typ.isRequest = true → rc.ok = false)
    (fun idx l tx inv hg hp => conv' idx (applyTx_known_rec _ l tx inv t (conv idx hp) hg).1)
    (fun idx l tx inv _ hp s i p htx hfr hto hix hreq => C04_known_request_refused _ l tx inv t (conv idx hp) s i p htx hfr hto hix hreq)
    n.led hO.pair txs hnd
  obtain ⟨hPend, hQ⟩ := loopQ
  -- (2) the record keeps its deadline; it changes once, by a receipt of this block, and is final from then on
  have loopE := applyTxs_zip_exists cfg n.cache (n.height + 1)
    (fun tx => ∀ sg args, tx ≠ .bvm sg "interchain" "DeleteInterchain" args)
    (fun l => PairInv e0 l t ∧ l.getS (.txRec t) = some (.trec rec0))
    (fun l => PairInv e0 l t ∧ ∃ st', st'.isFinal = true ∧ l.getS (.txRec t) = some (.trec { rec0 with status := st' }))
    (fun tx rc => ∃ s i p, tx = .ibtp s i p ∧ i.typ.isResponse = true ∧ i.frm = some t.frm ∧ i.to = some t.to ∧ i.index = t.index ∧ rc.txStatus = 0)
    (by
      intro idx l tx inv hg ⟨hp, hr⟩
      obtain ⟨hp', hch⟩ := applyTx_known_rec _ l tx inv t (conv idx hp) hg
      rcases hch with e | ⟨s, i, p, htx, hresp, hfr, hto, hix, rec, st', g1, g2, g3⟩
      · left; exact ⟨conv' idx hp', by rw [e]; exact hr⟩
      · right
        rw [hr] at g1
        cases g1
        refine ⟨⟨conv' idx hp', st', receipt_step_final _ _ _ hresp g2, g3⟩, s, i, p, htx, hresp, hfr, hto, hix, ?_⟩
        rw [htx]; exact applyTx_response_txStatus _ l s i p inv hresp)
    (by
      intro idx l tx inv hg ⟨hp, st', hf', hr⟩
      obtain ⟨hp', hch⟩ := applyTx_known_rec _ l tx inv t (conv idx hp) hg
      rcases hch with e | ⟨s, i, p, htx, hresp, hfr, hto, hix, rec, st'', g1, g2, g3⟩
      · exact ⟨conv' idx hp', st', hf', by rw [e]; exact hr⟩
      · exfalso
        rw [hr] at g1
        cases g1
        rw [C04_final_absorbing_step _ _ hf'] at g2
        cases g2)
    n.led ⟨hO.pair, hO.recd⟩ txs hnd
  generalize hAA : applyTxs cfg n.cache (n.height + 1) n.led txs = A at hna hend hPend hQ loopE
  rcases loopE with ⟨_, hr0⟩ | ⟨⟨_, st', hf', hrA⟩, pr, hpr, s, i, p, htx, hresp, hfr, hto, hix, hts⟩
  · -- nothing changed the record: it is not final
    exfalso
    unfold recStatus at hend
    rw [hr0] at hend
    cases hend
    rw [hopen] at hf; cases hf
  have hst : st' = st := by
    unfold recStatus at hend
    rw [hrA] at hend
    cases hend; rfl
  subst hst
  -- (3) the bookkeeping: `t` is taken off the list its record names and put on none
  have hrem : TOAct.remove rec0.height t ∈ (((txs.map (·.1)).zip A.rcpts).map (fun p => timeoutAct cfg A.led (n.height + 1) p.1 p.2)) := by
    refine List.mem_map.mpr ⟨pr, hpr, ?_⟩
    rw [htx]
    exact timeoutAct_receipt_final cfg A.led (n.height + 1) s i p pr.2 t { rec0 with status := st' } hresp hfr hto hix hts hdst hrA hf'
  have hnoadd : ∀ d, t ∉ addsAt d (((txs.map (·.1)).zip A.rcpts).map (fun p => timeoutAct cfg A.led (n.height + 1) p.1 p.2)) := by
    intro d h1
    have hm := mem_addsAt h1
    obtain ⟨pr', hpr', hact⟩ := List.mem_map.mp hm
    obtain ⟨s', i', p', htx', hfr', hto', hix', hreq', hok'⟩ := timeoutAct_add hact
    have := hQ pr' hpr' s' i' p' htx' hfr' hto' hix' hreq'
    rw [this] at hok'
    cases hok'
  have hcntA : ∀ d, n.height < d → listCount A.led d t ≤ 1 := by
    intro d hd
    rw [← hAA]
    exact Nat.le_trans (applyTxs_count cfg n.cache (n.height + 1) n.led txs d t) (hO.cnt d hd)
  have hnl : ∀ d, n.height < d → ¬ listedAt (setTimeoutList cfg A.led (n.height + 1) (txs.map (·.1)) A.rcpts) d t := by
    intro d hd hl
    by_cases hdd : d = rec0.height
    · obtain ⟨lst, e, hm⟩ := hl
      rw [setTimeoutList_at cfg A.led (n.height + 1) (txs.map (·.1)) A.rcpts d hna] at e
      refine listAfter_unlisted _ _ _ lst t (hnoadd d) (mem_remsAt_of (by rw [hdd]; exact hrem)) ?_ e hm
      rw [curList_count]
      exact hcntA d hd
    · rcases setTimeoutList_listed _ _ _ _ _ d t hl with h1 | h1
      · rw [← hAA] at h1
        exact hdd (hO.only d hd (applyTxs_listed cfg n.cache (n.height + 1) n.led txs d t h1))
      · exact hnoadd d h1
  have hFA : FinalInv e0 A.led t st' := ⟨hPend.ordered, hPend.bound, hend⟩
  refine ⟨?_, ?_⟩
  · have := block_tail_final_stays cfg n txs t st' (by rw [hAA]; exact hFA)
      (by rw [hAA]; exact fun hm => hnl (n.height + 1) (Nat.lt_succ_self _) (listedAt_of_mem_getTimeoutList hm))
    exact this
  · intro d hd hl
    rw [execBlock_height] at hd
    apply hnl d (by omega)
    unfold execBlock at hl
    simp only at hl
    rw [hAA] at hl
    refine (listedAt_congr ?_).mp hl
    rw [getS_of_store (finalise_store _), setTimeoutRollback_frame _ _ _ (by intro x e; cases e) (by intro x e; cases e)]

/-! ### … and kept in between: a block that accepts no receipt for an open transaction keeps it open -/

/-- the timeout step leaves the record of `t` as it is or — when `t` is on the list it walks — sets it to BEGIN_ROLLBACK under this height -/
theorem rollbackFold_rec_cases (h : Nat) (t : TxId) (ids : List TId) (acc : Led × Bool) :
    (ids.foldl (rollbackStep h) acc).1.getS (.txRec t) = acc.1.getS (.txRec t) ∨
    (TId.single t ∈ ids ∧ (ids.foldl (rollbackStep h) acc).1.getS (.txRec t) = some (.trec { height := h, status := .beginRollback })) := by
  induction ids generalizing acc with
  | nil => left; rfl
  | cons id rest ih =>
    simp only [List.foldl_cons]
    have hstep : (rollbackStep h acc id).1.getS (.txRec t) = acc.1.getS (.txRec t) ∨
        (id = TId.single t ∧ (rollbackStep h acc id).1.getS (.txRec t) = some (.trec { height := h, status := .beginRollback })) := by
      by_cases hid : id = TId.single t
      · subst hid
        unfold rollbackStep
        by_cases hb : acc.2 = true
        · left; simp [hb]
        · right; refine ⟨rfl, ?_⟩; simp [hb, Led.getS_setS]
      · left; exact Bxh.Props.C06.rollbackStep_other h acc id t hid
    rcases ih (rollbackStep h acc id) with h1 | ⟨hm, h1⟩
    · rcases hstep with h2 | ⟨hid, h2⟩
      · left; rw [h1, h2]
      · right; exact ⟨by rw [hid]; exact List.mem_cons_self .., by rw [h1, h2]⟩
    · right; exact ⟨List.mem_cons_of_mem _ hm, h1⟩


/-- **a block that accepts no receipt for an open transaction keeps it open, listed at most once and only under the deadline its
record names** — the record stays as it is or, when the block's height is that deadline, the timeout step moves it to
BEGIN_ROLLBACK (recorded under this height; nothing of it is on a list still to come) -/
theorem C04_block_open_stays (cfg : Cfg) (n : Node) (txs : List (Tx × Bool)) (t : TxId) (rec0 : Rec)
    (hO : OpenInv { cfg := cfg, cache := n.cache, height := 0, txIndex := 0 } n.led n.height t rec0)
    (hnd : ∀ p ∈ txs, ∀ sg args, p.1 ≠ .bvm sg "interchain" "DeleteInterchain" args)
    (hsame : (applyTxs cfg n.cache (n.height + 1) n.led txs).led.getS (.txRec t) = some (.trec rec0)) :
    ∃ rec', OpenInv { cfg := cfg, cache := (execBlock cfg n txs).1.cache, height := 0, txIndex := 0 } (execBlock cfg n txs).1.led
        (execBlock cfg n txs).1.height t rec' ∧
      (rec' = rec0 ∨ (rec0.height = n.height + 1 ∧ rec' = { height := n.height + 1, status := .beginRollback })) := by
  let e0 : Env := { cfg := cfg, cache := n.cache, height := 0, txIndex := 0 }
  have conv : ∀ {l' : Led} (idx : Nat), PairInv e0 l' t → PairInv { cfg := cfg, cache := n.cache, height := n.height + 1, txIndex := idx } l' t :=
    fun idx h => PairInv.conv (e1 := e0) (e2 := { cfg := cfg, cache := n.cache, height := n.height + 1, txIndex := idx }) rfl rfl h
  have conv' : ∀ {l' : Led} (idx : Nat), PairInv { cfg := cfg, cache := n.cache, height := n.height + 1, txIndex := idx } l' t → PairInv e0 l' t :=
    fun idx h => PairInv.conv (e1 := { cfg := cfg, cache := n.cache, height := n.height + 1, txIndex := idx }) (e2 := e0) rfl rfl h
  have loopQ := applyTxs_zip_inv cfg n.cache (n.height + 1)
    (fun tx => ∀ sg args, tx ≠ .bvm sg "interchain" "DeleteInterchain" args)
    (fun l => PairInv e0 l t)
    (fun tx rc => ∀ s i p, tx = .ibtp s i p → i.frm = some t.frm → i.to = some t.to → i.index = t.index → i.typ.isRequest = true → rc.ok = false)
    (fun idx l tx inv hg hp => conv' idx (applyTx_known_rec _ l tx inv t (conv idx hp) hg).1)
    (fun idx l tx inv _ hp s i p htx hfr hto hix hreq => C04_known_request_refused _ l tx inv t (conv idx hp) s i p htx hfr hto hix hreq)
    n.led hO.pair txs hnd
  obtain ⟨hPend, hQ⟩ := loopQ
  have hcntA : ∀ d, listCount (applyTxs cfg n.cache (n.height + 1) n.led txs).led d t ≤ listCount n.led d t :=
    fun d => applyTxs_count cfg n.cache (n.height + 1) n.led txs d t
  generalize hAA : applyTxs cfg n.cache (n.height + 1) n.led txs = A at hsame hPend hQ hcntA
  have hnoadd : ∀ d, (addsAt d (((txs.map (·.1)).zip A.rcpts).map (fun p => timeoutAct cfg A.led (n.height + 1) p.1 p.2))).count t = 0 := by
    intro d
    rw [List.count_eq_zero]
    intro h1
    have hm := mem_addsAt h1
    obtain ⟨pr', hpr', hact⟩ := List.mem_map.mp hm
    obtain ⟨s', i', p', htx', hfr', hto', hix', hreq', hok'⟩ := timeoutAct_add hact
    have := hQ pr' hpr' s' i' p' htx' hfr' hto' hix' hreq'
    rw [this] at hok'
    cases hok'
  -- after the bookkeeping
  have hcnt2 : ∀ d, listCount (setTimeoutList cfg A.led (n.height + 1) (txs.map (·.1)) A.rcpts) d t ≤ listCount n.led d t := by
    intro d
    have := setTimeoutList_count_le cfg A.led (n.height + 1) (txs.map (·.1)) A.rcpts d t
    rw [hnoadd d] at this
    exact Nat.le_trans this (hcntA d)
  have hrec2 : (setTimeoutList cfg A.led (n.height + 1) (txs.map (·.1)) A.rcpts).getS (.txRec t) = some (.trec rec0) := by
    rw [setTimeoutList_getS _ _ _ _ _ _ (by intro x e; cases e)]; exact hsame
  -- the end of the block
  have hend : ∀ k, (execBlock cfg n txs).1.led.getS k =
      (setTimeoutRollback (setTimeoutList cfg A.led (n.height + 1) (txs.map (·.1)) A.rcpts) (n.height + 1)).getS k := by
    intro k
    unfold execBlock
    simp only
    rw [hAA]
    exact getS_of_store (finalise_store _) k
  have hcntE : ∀ d, listCount (execBlock cfg n txs).1.led d t ≤ listCount n.led d t := by
    intro d
    rw [listCount_congr (hend _), listCount_congr (setTimeoutRollback_frame _ _ _ (by intro x e; cases e) (by intro x e; cases e))]
    exact hcnt2 d
  have hpairE : PairInv { cfg := cfg, cache := (execBlock cfg n txs).1.cache, height := 0, txIndex := 0 } (execBlock cfg n txs).1.led t := by
    refine ⟨?_, ?_, hPend.loc⟩
    · refine hPend.ordered.mono (fun c sid => ?_)
      rw [hend, setTimeoutRollback_frame _ _ _ (by intro x e; cases e) (by intro x e; cases e),
        setTimeoutList_getS _ _ _ _ _ _ (by intro x e; cases e)]
    · have := C02_timeout_steps_keep_counters cfg A.led (n.height + 1) (txs.map (·.1)) A.rcpts t.frm t.to
      rw [reqCounter_congr (fun x => hend _) t.frm t.to, this]
      exact hPend.bound
  have honlyE : ∀ d, n.height < d → listedAt (execBlock cfg n txs).1.led d t → d = rec0.height := by
    intro d hd hl
    apply hO.only d hd
    rw [listedAt_iff_count] at *
    exact Nat.lt_of_lt_of_le hl (hcntE d)
  have hrecE := rollbackFold_rec_cases (n.height + 1) t
    (getTimeoutList (setTimeoutList cfg A.led (n.height + 1) (txs.map (·.1)) A.rcpts) (n.height + 1))
    (setTimeoutList cfg A.led (n.height + 1) (txs.map (·.1)) A.rcpts, false)
  rcases hrecE with hu | ⟨hm, hset⟩
  · refine ⟨rec0, ⟨hpairE, ?_, ?_, ?_⟩, Or.inl rfl⟩
    · rw [hend]; unfold setTimeoutRollback; rw [hu]; exact hrec2
    · intro d hd; rw [execBlock_height] at hd; exact Nat.le_trans (hcntE d) (hO.cnt d (by omega))
    · intro d hd hl; rw [execBlock_height] at hd; exact honlyE d (by omega) hl
  · -- the timeout step fired: the block's height is the recorded deadline
    have hlisted : listedAt n.led (n.height + 1) t := by
      have h1 := listedAt_of_mem_getTimeoutList hm
      rw [listedAt_iff_count] at *
      exact Nat.lt_of_lt_of_le h1 (hcnt2 _)
    have hdl : n.height + 1 = rec0.height := hO.only _ (Nat.lt_succ_self _) hlisted
    refine ⟨{ height := n.height + 1, status := .beginRollback }, ⟨hpairE, ?_, ?_, ?_⟩, Or.inr ⟨hdl.symm, rfl⟩⟩
    · rw [hend]; unfold setTimeoutRollback; exact hset
    · intro d hd; rw [execBlock_height] at hd; exact Nat.le_trans (hcntE d) (hO.cnt d (by omega))
    · intro d hd hl
      rw [execBlock_height] at hd
      have := honlyE d (by omega) hl
      omega


/-- the bookkeeping of the block is not abandoned -/
def NoAbort (cfg : Cfg) (n : Node) (txs : List (Tx × Bool)) : Prop :=
  (((txs.map (·.1)).zip (applyTxs cfg n.cache (n.height + 1) n.led txs).rcpts).map
    (fun p => timeoutAct cfg (applyTxs cfg n.cache (n.height + 1) n.led txs).led (n.height + 1) p.1 p.2)).contains .abort = false

/-- after the transactions of a block the record of an open transaction is what it was, or what it was with a final status -/
theorem block_record_dichotomy (cfg : Cfg) (n : Node) (txs : List (Tx × Bool)) (t : TxId) (rec0 : Rec)
    (hO : OpenInv { cfg := cfg, cache := n.cache, height := 0, txIndex := 0 } n.led n.height t rec0)
    (hnd : ∀ p ∈ txs, ∀ sg args, p.1 ≠ .bvm sg "interchain" "DeleteInterchain" args) :
    (applyTxs cfg n.cache (n.height + 1) n.led txs).led.getS (.txRec t) = some (.trec rec0) ∨
    ∃ st', st'.isFinal = true ∧ (applyTxs cfg n.cache (n.height + 1) n.led txs).led.getS (.txRec t) = some (.trec { rec0 with status := st' }) := by
  let e0 : Env := { cfg := cfg, cache := n.cache, height := 0, txIndex := 0 }
  have conv : ∀ {l' : Led} (idx : Nat), PairInv e0 l' t → PairInv { cfg := cfg, cache := n.cache, height := n.height + 1, txIndex := idx } l' t :=
    fun idx h => PairInv.conv (e1 := e0) (e2 := { cfg := cfg, cache := n.cache, height := n.height + 1, txIndex := idx }) rfl rfl h
  have conv' : ∀ {l' : Led} (idx : Nat), PairInv { cfg := cfg, cache := n.cache, height := n.height + 1, txIndex := idx } l' t → PairInv e0 l' t :=
    fun idx h => PairInv.conv (e1 := { cfg := cfg, cache := n.cache, height := n.height + 1, txIndex := idx }) (e2 := e0) rfl rfl h
  have loopE := applyTxs_zip_exists cfg n.cache (n.height + 1)
    (fun tx => ∀ sg args, tx ≠ .bvm sg "interchain" "DeleteInterchain" args)
    (fun l => PairInv e0 l t ∧ l.getS (.txRec t) = some (.trec rec0))
    (fun l => PairInv e0 l t ∧ ∃ st', st'.isFinal = true ∧ l.getS (.txRec t) = some (.trec { rec0 with status := st' }))
    (fun _ _ => True)
    (by
      intro idx l tx inv hg ⟨hp, hr⟩
      obtain ⟨hp', hch⟩ := applyTx_known_rec _ l tx inv t (conv idx hp) hg
      rcases hch with e | ⟨s, i, p, htx, hresp, hfr, hto, hix, rec, st', g1, g2, g3⟩
      · left; exact ⟨conv' idx hp', by rw [e]; exact hr⟩
      · right
        rw [hr] at g1
        cases g1
        exact ⟨⟨conv' idx hp', st', receipt_step_final _ _ _ hresp g2, g3⟩, trivial⟩)
    (by
      intro idx l tx inv hg ⟨hp, st', hf', hr⟩
      obtain ⟨hp', hch⟩ := applyTx_known_rec _ l tx inv t (conv idx hp) hg
      rcases hch with e | ⟨s, i, p, htx, hresp, hfr, hto, hix, rec, st'', g1, g2, g3⟩
      · exact ⟨conv' idx hp', st', hf', by rw [e]; exact hr⟩
      · exfalso
        rw [hr] at g1
        cases g1
        rw [C04_final_absorbing_step _ _ hf'] at g2
        cases g2)
    n.led ⟨hO.pair, hO.recd⟩ txs hnd
  rcases loopE with ⟨_, h⟩ | ⟨⟨_, st', hf', h⟩, _⟩
  · exact Or.inl h
  · exact Or.inr ⟨st', hf', h⟩

/-- a transaction of a local, index-checked pair that has not been accepted yet: the pair's counter is still below its index and it
has no record -/
structure NewInv (env : Env) (l : Led) (t : TxId) : Prop where
  ordered : OrderedDst env l t.to
  loc : t.frm.bxh = t.to.bxh
  ahead : reqCounter l t.frm t.to < t.index
  norec : l.getS (.txRec t) = none

/-- a request naming `t` that `HandleIBTP` accepts from a ledger on which `t` is new creates the record of `t` and moves the pair's
counter to its index -/
theorem handleIBTP_accepts_new {env : Env} {l : Led} {i : Ibtp} {r : Led × String} {t : TxId}
    (hN : NewInv env l t) (h : handleIBTP env l i = .ok r) (s : String) (p : ProofKind) (hrf : reqFor t (.ibtp s i p) = true)
    (hg : i.group = none) :
    PairInv env r.1 t ∧ ∃ st, r.1.getS (.txRec t) = some (.trec { height := recordHeight env.height (toU64 i.timeout), status := st }) ∧
      st.isFinal = false := by
  obtain ⟨_, _, _, e0, hreq, hfr, hto, hix⟩ := reqFor_elim hrf
  cases e0
  obtain ⟨ck, hck⟩ := handleIBTP_ok_checked h
  obtain ⟨e1, e2⟩ := checkIBTP_ends hck
  have hsrc : ck.src = t.frm := by rw [hfr] at e1; exact (Option.some.inj e1).symm
  have hdst : ck.dst = t.to := by rw [hto] at e2; exact (Option.some.inj e2).symm
  have hloc : ck.src.bxh = ck.dst.bxh := by rw [hsrc, hdst]; exact hN.loc
  have hn : ck.notice = false := checkIBTP_local_no_notice hck hloc
  have hnb : ck.isBatch = false := orderedDst_not_batch (by rw [hdst]; exact hN.ordered) hck hreq hn
  have hidx := C02_accept_needs_next_index env l i ck hck hreq hn hnb
  have hrec := handleIBTP_new_record hck h hreq hloc hg
  have hid : ({ frm := ck.src, to := ck.dst, index := i.index } : TxId) = t := by rw [hsrc, hdst, hix]
  rw [hid] at hrec
  have hctr := handleIBTP_reqCounter hck h t.frm t.to
  rw [if_pos ⟨by simp [hreq, hn], hsrc.symm, hdst.symm⟩] at hctr
  refine ⟨⟨hN.ordered.mono (fun c sid => handleIBTP_svc_frame h c sid), ?_, hN.loc⟩, _, hrec, ?_⟩
  · rw [hctr]
    unfold reqCounter
    rw [hsrc, hdst] at hidx
    omega
  · cases ck.targetErr <;> rfl

/-- … and an IBTP that is no request naming `t` leaves `t` new -/
theorem handleIBTP_keeps_new {env : Env} {l : Led} {i : Ibtp} {r : Led × String} {t : TxId}
    (hN : NewInv env l t) (h : handleIBTP env l i = .ok r) (s : String) (p : ProofKind) (hrf : reqFor t (.ibtp s i p) = false) :
    NewInv env r.1 t := by
  obtain ⟨ck, hck⟩ := handleIBTP_ok_checked h
  obtain ⟨e1, e2⟩ := checkIBTP_ends hck
  refine ⟨hN.ordered.mono (fun c sid => handleIBTP_svc_frame h c sid), hN.loc, ?_, ?_⟩
  · have hctr := handleIBTP_reqCounter hck h t.frm t.to
    split at hctr
    · rename_i hc
      obtain ⟨hc1, hc2, hc3⟩ := hc
      simp only [Bool.and_eq_true, Bool.not_eq_true'] at hc1
      have hidx := C02_accept_needs_next_index env l i ck hck hc1.1 hc1.2
        (orderedDst_not_batch (by rw [← hc3]; exact hN.ordered) hck hc1.1 hc1.2)
      rw [← hc2, ← hc3] at hidx
      have hne : i.index ≠ t.index := by
        intro e
        have : reqFor t (.ibtp s i p) = true := reqFor_of hc1.1 (by rw [e1, hc2]) (by rw [e2, hc3]) e
        rw [this] at hrf; cases hrf
      have := hN.ahead
      unfold reqCounter at this
      rw [hctr]
      unfold reqCounter
      omega
    · rw [hctr]; exact hN.ahead
  · rcases handleIBTP_rec hck h t with e | ⟨hreq, ht, _⟩ | ⟨_, st, _, hs, _, _⟩
    · rw [e]; exact hN.norec
    · exfalso
      have : reqFor t (.ibtp s i p) = true := reqFor_of hreq (by rw [e1, ht]) (by rw [e2, ht]) (by rw [ht])
      rw [this] at hrf; cases hrf
    · exfalso
      unfold recStatus at hs
      rw [hN.norec] at hs
      cases hs

theorem NewInv.conv {l : Led} {t : TxId} {e1 e2 : Env} (hc : e2.cache = e1.cache) (hb : e2.cfg.bxh = e1.cfg.bxh)
    (h : NewInv e1 l t) : NewInv e2 l t := ⟨orderedDst_env hc hb h.ordered, h.loc, h.ahead, h.norec⟩

/-- **one transaction of a block and a new transaction `t`**: `t` stays new and the transaction is no accepted request for it — or
the transaction is the request naming `t`, and `t` now has its record (not final, deadline from this block's height and the request's
timeout) and its pair's counter has reached its index -/
theorem applyTx_new_step (env : Env) (l : Led) (tx : Tx) (inv : Option String) (t : TxId)
    (hN : NewInv env l t) (hnd : ∀ sg args, tx ≠ .bvm sg "interchain" "DeleteInterchain" args)
    (hng : ∀ s i p, tx = .ibtp s i p → reqFor t tx = true → i.group = none) :
    (NewInv env (applyTx env l tx inv).1 t ∧ reqOk t (tx, (applyTx env l tx inv).2.rcpt) = false) ∨
    (PairInv env (applyTx env l tx inv).1 t ∧ ∃ s i p st, tx = .ibtp s i p ∧ reqFor t tx = true ∧ st.isFinal = false ∧
      (applyTx env l tx inv).1.getS (.txRec t) = some (.trec { height := recordHeight env.height (toU64 i.timeout), status := st })) := by
  have hN0 : NewInv env (txStart l) t := ⟨hN.ordered.mono (fun _ _ => rfl), hN.loc, hN.ahead, hN.norec⟩
  have congrN : ∀ {l' : Led}, (∀ k, l'.getS k = (txStart l).getS k) → NewInv env l' t := by
    intro l' hk
    exact ⟨hN0.ordered.mono (fun c sid => hk _), hN.loc, by rw [reqCounter_congr (fun x => hk _)]; exact hN0.ahead, by rw [hk]; exact hN0.norec⟩
  by_cases hro : reqOk t (tx, (applyTx env l tx inv).2.rcpt) = true
  · -- an accepted request naming `t`
    right
    simp only [reqOk, Bool.and_eq_true] at hro
    obtain ⟨s, i, p, htx, _⟩ := reqFor_elim hro.1
    subst htx
    obtain ⟨r, hh, hk⟩ := applyTx_ok_effect env l s i p inv hro.2
    obtain ⟨hP, st, hrec, hnf⟩ := handleIBTP_accepts_new hN0 hh s p hro.1 (hng s i p rfl hro.1)
    refine ⟨⟨hP.ordered.mono (fun c sid => hk _), by rw [reqCounter_congr (fun x => hk _)]; exact hP.bound, hP.loc⟩,
      s, i, p, st, rfl, hro.1, hnf, by rw [hk]; exact hrec⟩
  · have hro' : reqOk t (tx, (applyTx env l tx inv).2.rcpt) = false := by simpa using hro
    cases applyTx_effect env l tx inv with
    | nothing h => exact Or.inl ⟨congrN h, hro'⟩
    | bvm sg c m args r h1 h2 h3 =>
      left
      refine ⟨⟨hN0.ordered.mono (fun cc sid => by rw [h3, applyBvm_frame h2 _ (by intro x e; cases e)]), hN.loc, ?_, ?_⟩, hro'⟩
      · have hn : ¬ (c = "interchain" ∧ m = "DeleteInterchain") := by
          rintro ⟨rfl, rfl⟩; exact hnd sg args h1
        rw [reqCounter_congr (fun x => h3 _), reqCounter_congr (fun x => applyBvm_ic_frame h2 hn x)]
        exact hN0.ahead
      · rw [h3, applyBvm_frame h2 _ (by intro x e; cases e)]; exact hN0.norec
    | ibtp s i p env' r h1 h2 h3 h4 h5 h6 =>
      have hN' : NewInv env' (txStart l) t := hN0.conv h2 h3
      by_cases hrf : reqFor t tx = true
      · -- accepted with its effects although the receipt is no success (the audit event failed after everything was written)
        right
        subst h1
        obtain ⟨hP, st, hrec, hnf⟩ := handleIBTP_accepts_new hN' h5 s p hrf (hng s i p rfl hrf)
        have hP2 : PairInv env r.1 t := PairInv.conv (e1 := env') (e2 := env) h2.symm h3.symm hP
        refine ⟨⟨hP2.ordered.mono (fun c sid => h6 _), by rw [reqCounter_congr (fun x => h6 _)]; exact hP2.bound, hP2.loc⟩,
          s, i, p, st, rfl, hrf, hnf, by rw [h6, hrec, h4]⟩
      · left
        subst h1
        have hk := handleIBTP_keeps_new hN' h5 s p (by simpa using hrf)
        have hk2 : NewInv env r.1 t := hk.conv h2.symm h3.symm
        exact ⟨⟨hk2.ordered.mono (fun c sid => h6 _), hk2.loc, by rw [reqCounter_congr (fun x => h6 _)]; exact hk2.ahead,
          by rw [h6]; exact hk2.norec⟩, hro'⟩


theorem addsAt_cons (d : Nat) (a : TOAct) (as : List TOAct) :
    addsAt d (a :: as) = (match a with | .add th id => if th = d then [id] else [] | _ => []) ++ addsAt d as := by
  cases a with
  | add th id => by_cases hd : th = d <;> simp [addsAt, hd]
  | skip => simp [addsAt]
  | remove _ _ => simp [addsAt]
  | abort => simp [addsAt]

/-- the additions of `t` the bookkeeping makes for one deadline are at most the accepted requests naming `t` among the block's pairs -/
theorem count_adds_le_countP (cfg : Cfg) (l : Led) (h d : Nat) (t : TxId) (zs : List (Tx × Rcpt)) :
    (addsAt d (zs.map (fun p => timeoutAct cfg l h p.1 p.2))).count t ≤ zs.countP (reqOk t) := by
  induction zs with
  | nil => simp [addsAt]
  | cons p rest ih =>
    rw [List.map_cons, addsAt_cons, List.count_append, List.countP_cons]
    have hhead : (match timeoutAct cfg l h p.1 p.2 with | .add th id => if th = d then [id] else [] | _ => []).count t ≤
        (if reqOk t p = true then 1 else 0) := by
      cases hact : timeoutAct cfg l h p.1 p.2 with
      | add th id =>
        simp only
        by_cases hd : th = d
        · rw [if_pos hd]
          by_cases hid : id = t
          · subst hid
            obtain ⟨s, i, pk, htx, hfr, hto, hix, hreq, hok⟩ := timeoutAct_add hact
            have : reqOk id p = true := by
              unfold reqOk; rw [htx, reqFor_of hreq hfr hto hix, hok]; rfl
            rw [if_pos this]; simp
          · have : [id].count t = 0 := by rw [List.count_eq_zero]; intro hm; simp at hm; exact hid hm.symm
            rw [this]; exact Nat.zero_le _
        · rw [if_neg hd]; simp
      | skip => simp
      | remove _ _ => simp
      | abort => simp
    omega

/-- an id the block takes off the list of `d`, on a list that holds it at most once after the block's additions, is not on that list
after the bookkeeping -/
theorem listAfter_unlisted' (v : Option Val) (A R : List TxId) (lst : List (Option TId)) (t : TxId)
    (hR : t ∈ R) (hc : (curList v).count (some (TId.single t)) + A.count t ≤ 1)
    (e : listAfter v A R = some (.tlist lst)) : some (TId.single t) ∉ lst := by
  unfold listAfter at e
  simp only at e
  have hR' : R ≠ [] := by intro h; rw [h] at hR; cases hR
  rw [if_neg hR'] at e
  cases e
  intro hm
  refine foldl_goRemove_removes R _ t ?_ hR (normList_mem_single _ t hm)
  by_cases hAe : A = []
  · rw [if_pos hAe]; omega
  · rw [if_neg hAe]
    show List.count (some (TId.single t)) (if curList v == [none] then A.map (fun t => some (TId.single t))
      else curList v ++ A.map (fun t => some (TId.single t))) ≤ 1
    by_cases hn : (curList v == [none]) = true
    · rw [if_pos hn, count_map_single]; omega
    · rw [if_neg hn, List.count_append, count_map_single]; omega


/-- the accepted requests naming `t` among the pairs so far: at most one, and its timeout is the one the record's deadline was computed from -/
def Acc (h : Nat) (t : TxId) (zs : List (Tx × Rcpt)) (rec : Rec) : Prop :=
  zs.countP (reqOk t) ≤ 1 ∧
  ∀ p ∈ zs, reqOk t p = true → ∀ s i pk, p.1 = .ibtp s i pk → rec.height = recordHeight h (toU64 i.timeout)

/-- a receipt transaction for `t` (its own receipt never carries the begin-failure mark) -/
def RespOf (t : TxId) (p : Tx × Rcpt) : Prop :=
  ∃ s i pk, p.1 = .ibtp s i pk ∧ i.typ.isResponse = true ∧ i.frm = some t.frm ∧ i.to = some t.to ∧ i.index = t.index ∧ p.2.txStatus = 0

/-- what the serial loop of block `n.height + 1` knows of a transaction that was new when the block started, in terms of the ledger
and of the (transaction, receipt) pairs so far: still new and no request for it accepted; or open, begun by the one accepted request;
or final, by a receipt of this block -/
def FreshPhase (cfg : Cfg) (n : Node) (t : TxId) (l : Led) (zs : List (Tx × Rcpt)) : Prop :=
  (NewInv { cfg := cfg, cache := n.cache, height := 0, txIndex := 0 } l t ∧ zs.countP (reqOk t) = 0) ∨
  (∃ rec, PairInv { cfg := cfg, cache := n.cache, height := 0, txIndex := 0 } l t ∧ l.getS (.txRec t) = some (.trec rec) ∧
      rec.status.isFinal = false ∧ Acc (n.height + 1) t zs rec) ∨
  (∃ rec st, PairInv { cfg := cfg, cache := n.cache, height := 0, txIndex := 0 } l t ∧
      l.getS (.txRec t) = some (.trec { rec with status := st }) ∧ st.isFinal = true ∧ Acc (n.height + 1) t zs rec ∧ ∃ p ∈ zs, RespOf t p)

theorem known_reqOk_false (env : Env) (l : Led) (tx : Tx) (inv : Option String) (t : TxId) (hI : PairInv env l t) :
    reqOk t (tx, (applyTx env l tx inv).2.rcpt) = false := by
  unfold reqOk
  by_cases hrf : reqFor t tx = true
  · obtain ⟨s, i, p, htx, hreq, hfr, hto, hix⟩ := reqFor_elim hrf
    have := C04_known_request_refused env l tx inv t hI s i p htx hfr hto hix hreq
    simp [this]
  · simp [hrf]

theorem acc_append_false {h : Nat} {t : TxId} {zs : List (Tx × Rcpt)} {rec : Rec} {p : Tx × Rcpt}
    (hA : Acc h t zs rec) (hp : reqOk t p = false) : Acc h t (zs ++ [p]) rec := by
  obtain ⟨h1, h2⟩ := hA
  refine ⟨by rw [List.countP_append]; simp [hp]; exact h1, ?_⟩
  intro q hq hok
  rcases List.mem_append.mp hq with h | h
  · exact h2 q h hok
  · simp at h; subst h; rw [hp] at hok; cases hok

theorem freshPhase_step (cfg : Cfg) (n : Node) (t : TxId) (idx : Nat) (l : Led) (zs : List (Tx × Rcpt)) (tx : Tx) (inv : Option String)
    (hnd : ∀ sg args, tx ≠ .bvm sg "interchain" "DeleteInterchain" args)
    (hng : ∀ s i p, tx = .ibtp s i p → reqFor t tx = true → i.group = none)
    (hΦ : FreshPhase cfg n t l zs) :
    FreshPhase cfg n t (applyTx { cfg := cfg, cache := n.cache, height := n.height + 1, txIndex := idx } l tx inv).1
      (zs ++ [(tx, (applyTx { cfg := cfg, cache := n.cache, height := n.height + 1, txIndex := idx } l tx inv).2.rcpt)]) := by
  let e0 : Env := { cfg := cfg, cache := n.cache, height := 0, txIndex := 0 }
  let eb : Env := { cfg := cfg, cache := n.cache, height := n.height + 1, txIndex := idx }
  have pc : ∀ {l' : Led}, PairInv e0 l' t → PairInv eb l' t := fun h => PairInv.conv (e1 := e0) (e2 := eb) rfl rfl h
  have pc' : ∀ {l' : Led}, PairInv eb l' t → PairInv e0 l' t := fun h => PairInv.conv (e1 := eb) (e2 := e0) rfl rfl h
  rcases hΦ with ⟨hN, hc⟩ | ⟨rec, hP, hr, hnf, hA⟩ | ⟨rec, st, hP, hr, hf, hA, hresp⟩
  · -- new
    have hNb : NewInv eb l t := NewInv.conv (e1 := e0) (e2 := eb) rfl rfl hN
    rcases applyTx_new_step eb l tx inv t hNb hnd hng with ⟨hN', hro⟩ | ⟨hP', s, i, p, st, htx, hrf, hnf, hrec⟩
    · left
      exact ⟨NewInv.conv (e1 := eb) (e2 := e0) rfl rfl hN', by rw [List.countP_append, hc]; simp; exact hro⟩
    · right; left
      refine ⟨_, pc' hP', hrec, hnf, ?_, ?_⟩
      · rw [List.countP_append, hc]; simp; split <;> omega
      · intro q hq hok s' i' pk' hq1
        rcases List.mem_append.mp hq with h | h
        · exfalso
          have := List.countP_eq_zero.mp hc q h
          exact this hok
        · simp at h; subst h
          simp only at hq1
          rw [htx] at hq1
          cases hq1
          rfl
  · -- open
    obtain ⟨hP', hch⟩ := applyTx_known_rec eb l tx inv t (pc hP) hnd
    have hro := known_reqOk_false eb l tx inv t (pc hP)
    rcases hch with e | ⟨s, i, p, htx, hrsp, hfr, hto, hix, rec', st', g1, g2, g3⟩
    · right; left
      exact ⟨rec, pc' hP', by rw [e]; exact hr, hnf, acc_append_false hA hro⟩
    · right; right
      rw [hr] at g1
      cases g1
      refine ⟨rec, st', pc' hP', g3, receipt_step_final _ _ _ hrsp g2, acc_append_false hA hro, _, List.mem_append_right _ (List.mem_singleton.mpr rfl), ?_⟩
      exact ⟨s, i, p, htx, hrsp, hfr, hto, hix, by simp only; rw [htx]; exact applyTx_response_txStatus eb l s i p inv hrsp⟩
  · -- final
    obtain ⟨hP', hch⟩ := applyTx_known_rec eb l tx inv t (pc hP) hnd
    have hro := known_reqOk_false eb l tx inv t (pc hP)
    rcases hch with e | ⟨s, i, p, htx, hrsp, hfr, hto, hix, rec', st', g1, g2, g3⟩
    · right; right
      obtain ⟨q, hq, hR⟩ := hresp
      exact ⟨rec, st, pc' hP', by rw [e]; exact hr, hf, acc_append_false hA hro, q, List.mem_append_left _ hq, hR⟩
    · exfalso
      rw [hr] at g1
      cases g1
      rw [C04_final_absorbing_step _ _ hf] at g2
      cases g2


/-- **the block in which a new transaction may be accepted**: from a transaction that is new (no record, the pair's counter below its
index, on no list still to come) every block leads to one of three states — still new and unlisted; open (`OpenInv`: begun by the one
accepted request of this block, listed at most once and only under the deadline that request and this height give); or final
already (request and receipt in one block) and on no list still to come -/
theorem C04_block_fresh_step (cfg : Cfg) (n : Node) (txs : List (Tx × Bool)) (t : TxId)
    (hN : NewInv { cfg := cfg, cache := n.cache, height := 0, txIndex := 0 } n.led t)
    (hul : ∀ d, n.height < d → listCount n.led d t = 0)
    (hdst : (t.to.chain == cfg.bxh) = false)
    (hnd : ∀ p ∈ txs, ∀ sg args, p.1 ≠ .bvm sg "interchain" "DeleteInterchain" args)
    (hng : ∀ p ∈ txs, ∀ s i pk, p.1 = .ibtp s i pk → reqFor t p.1 = true → i.group = none)
    (hna : NoAbort cfg n txs) :
    (NewInv { cfg := cfg, cache := (execBlock cfg n txs).1.cache, height := 0, txIndex := 0 } (execBlock cfg n txs).1.led t ∧
      ∀ d, (execBlock cfg n txs).1.height < d → listCount (execBlock cfg n txs).1.led d t = 0) ∨
    (∃ rec, OpenInv { cfg := cfg, cache := (execBlock cfg n txs).1.cache, height := 0, txIndex := 0 } (execBlock cfg n txs).1.led
      (execBlock cfg n txs).1.height t rec ∧ rec.status.isFinal = false) ∨
    (∃ st, FinalInvL { cfg := cfg, cache := (execBlock cfg n txs).1.cache, height := 0, txIndex := 0 } (execBlock cfg n txs).1.led
      (execBlock cfg n txs).1.height t st ∧ st.isFinal = true) := by
  have hΦ := applyTxs_zip_fold cfg n.cache (n.height + 1)
    (fun tx => (∀ sg args, tx ≠ .bvm sg "interchain" "DeleteInterchain" args) ∧ (∀ s i p, tx = .ibtp s i p → reqFor t tx = true → i.group = none))
    (FreshPhase cfg n t)
    (fun idx l zs tx inv hg h => freshPhase_step cfg n t idx l zs tx inv hg.1 hg.2 h)
    n.led (Or.inl ⟨hN, rfl⟩) txs (fun p hp => ⟨hnd p hp, hng p hp⟩)
  have hcA : ∀ d, n.height < d → listCount (applyTxs cfg n.cache (n.height + 1) n.led txs).led d t = 0 := by
    intro d hd
    have := applyTxs_count cfg n.cache (n.height + 1) n.led txs d t
    rw [hul d hd] at this; omega
  unfold NoAbort at hna
  generalize hAA : applyTxs cfg n.cache (n.height + 1) n.led txs = A at hΦ hcA hna
  generalize hzs : (txs.map (·.1)).zip A.rcpts = zs at hΦ hna
  -- the bookkeeping
  have hl2z : setTimeoutList cfg A.led (n.height + 1) (txs.map (·.1)) A.rcpts =
      setTimeoutList cfg A.led (n.height + 1) (txs.map (·.1)) A.rcpts := rfl
  have hcnt2 : ∀ d, n.height < d → listCount (setTimeoutList cfg A.led (n.height + 1) (txs.map (·.1)) A.rcpts) d t ≤
      (addsAt d (zs.map (fun p => timeoutAct cfg A.led (n.height + 1) p.1 p.2))).count t := by
    intro d hd
    have := setTimeoutList_count_le cfg A.led (n.height + 1) (txs.map (·.1)) A.rcpts d t
    rw [hcA d hd, hzs] at this
    omega
  have hend : ∀ k, (execBlock cfg n txs).1.led.getS k =
      (setTimeoutRollback (setTimeoutList cfg A.led (n.height + 1) (txs.map (·.1)) A.rcpts) (n.height + 1)).getS k := by
    intro k
    unfold execBlock
    simp only
    rw [hAA]
    exact getS_of_store (finalise_store _) k
  have hcntE : ∀ d, listCount (execBlock cfg n txs).1.led d t = listCount (setTimeoutList cfg A.led (n.height + 1) (txs.map (·.1)) A.rcpts) d t := by
    intro d
    rw [listCount_congr (hend _), listCount_congr (setTimeoutRollback_frame _ _ _ (by intro x e; cases e) (by intro x e; cases e))]
  have hsvcE : ∀ c sid, (execBlock cfg n txs).1.led.getS (.svc c sid) = A.led.getS (.svc c sid) := by
    intro c sid
    rw [hend, setTimeoutRollback_frame _ _ _ (by intro x e; cases e) (by intro x e; cases e),
      setTimeoutList_getS _ _ _ _ _ _ (by intro x e; cases e)]
  have hctrE : reqCounter (execBlock cfg n txs).1.led t.frm t.to = reqCounter A.led t.frm t.to := by
    have := C02_timeout_steps_keep_counters cfg A.led (n.height + 1) (txs.map (·.1)) A.rcpts t.frm t.to
    rw [reqCounter_congr (fun x => hend _) t.frm t.to, this]
  -- an addition of `t` comes from the accepted request, whose timeout gives the recorded deadline
  have hadd : ∀ (rec : Rec), Acc (n.height + 1) t zs rec → ∀ d,
      0 < (addsAt d (zs.map (fun p => timeoutAct cfg A.led (n.height + 1) p.1 p.2))).count t → d = rec.height ∧ n.height + 1 < d := by
    intro rec hA d hpos
    have hm := mem_addsAt (List.count_pos_iff.mp hpos)
    obtain ⟨pr, hpr, hact⟩ := List.mem_map.mp hm
    obtain ⟨s, i, p, htx, hfr, hto, hix, hreq, hok⟩ := timeoutAct_add hact
    obtain ⟨s', i', p', htx', h1, h2, h3⟩ := timeoutAct_add_deadline hact
    rw [htx] at htx'
    cases htx'
    have hro : reqOk t pr = true := by unfold reqOk; rw [htx, reqFor_of hreq hfr hto hix, hok]; rfl
    have := hA.2 pr hpr hro s i p htx
    rw [recordHeight_of_add _ _ h1 h2] at this
    have hpos' : 0 < i.timeout.toNat := by omega
    exact ⟨by omega, by omega⟩
  rcases hΦ with ⟨hNA, hc⟩ | ⟨rec, hP, hr, hnf, hA⟩ | ⟨rec, st, hP, hr, hf, hA, q, hq, hR⟩
  · -- still new
    left
    have hzero : ∀ d, n.height < d → listCount (setTimeoutList cfg A.led (n.height + 1) (txs.map (·.1)) A.rcpts) d t = 0 := by
      intro d hd
      have h1 := hcnt2 d hd
      have h2 := count_adds_le_countP cfg A.led (n.height + 1) d t zs
      omega
    refine ⟨⟨hNA.ordered.mono hsvcE, hNA.loc, by rw [hctrE]; exact hNA.ahead, ?_⟩, ?_⟩
    · rw [hend, Bxh.Props.C06.C06_not_listed_untouched _ _ t (fun hm => by
        have := listedAt_iff_count.mp (listedAt_of_mem_getTimeoutList hm)
        rw [hzero _ (Nat.lt_succ_self _)] at this; omega),
        setTimeoutList_getS _ _ _ _ _ _ (by intro x e; cases e)]
      exact hNA.norec
    · intro d hd
      rw [execBlock_height] at hd
      rw [hcntE]; exact hzero d (by omega)
  · -- open
    right; left
    have hle1 : ∀ d, n.height < d → listCount (setTimeoutList cfg A.led (n.height + 1) (txs.map (·.1)) A.rcpts) d t ≤ 1 := by
      intro d hd
      have h1 := hcnt2 d hd
      have h2 := count_adds_le_countP cfg A.led (n.height + 1) d t zs
      have := hA.1
      omega
    have honly : ∀ d, n.height < d → listedAt (setTimeoutList cfg A.led (n.height + 1) (txs.map (·.1)) A.rcpts) d t → d = rec.height ∧ n.height + 1 < d := by
      intro d hd hl
      have h1 := hcnt2 d hd
      have := listedAt_iff_count.mp hl
      exact hadd rec hA d (by omega)
    refine ⟨rec, ⟨⟨hP.ordered.mono hsvcE, by rw [hctrE]; exact hP.bound, hP.loc⟩, ?_, ?_, ?_⟩, hnf⟩
    · rw [hend, Bxh.Props.C06.C06_not_listed_untouched _ _ t (fun hm => by
        have := (honly _ (Nat.lt_succ_self _) (listedAt_of_mem_getTimeoutList hm)).2
        omega),
        setTimeoutList_getS _ _ _ _ _ _ (by intro x e; cases e)]
      exact hr
    · intro d hd
      rw [execBlock_height] at hd
      rw [hcntE]; exact hle1 d (by omega)
    · intro d hd hl
      rw [execBlock_height] at hd
      rw [listedAt_iff_count, hcntE, ← listedAt_iff_count] at hl
      exact (honly d (by omega) hl).1
  · -- final already
    right; right
    obtain ⟨s, i, pk, hq1, hrsp, hfr, hto, hix, hts⟩ := hR
    have hrem : TOAct.remove rec.height t ∈ zs.map (fun p => timeoutAct cfg A.led (n.height + 1) p.1 p.2) := by
      refine List.mem_map.mpr ⟨q, hq, ?_⟩
      rw [hq1]
      exact timeoutAct_receipt_final cfg A.led (n.height + 1) s i pk q.2 t { rec with status := st } hrsp hfr hto hix hts hdst hr hf
    have hnl : ∀ d, n.height < d → ¬ listedAt (setTimeoutList cfg A.led (n.height + 1) (txs.map (·.1)) A.rcpts) d t := by
      intro d hd hl
      by_cases hdd : d = rec.height
      · obtain ⟨lst, e, hm⟩ := hl
        rw [setTimeoutList_at cfg A.led (n.height + 1) (txs.map (·.1)) A.rcpts d (by rw [hzs]; exact hna), hzs] at e
        refine listAfter_unlisted' _ _ _ lst t (mem_remsAt_of (by rw [hdd]; exact hrem)) ?_ e hm
        rw [curList_count, hcA d hd]
        have h2 := count_adds_le_countP cfg A.led (n.height + 1) d t zs
        have := hA.1
        omega
      · have h1 := hcnt2 d hd
        have := listedAt_iff_count.mp hl
        exact hdd (hadd rec hA d (by omega)).1
    have hFA : FinalInv { cfg := cfg, cache := n.cache, height := 0, txIndex := 0 } A.led t st :=
      ⟨hP.ordered, hP.bound, by unfold recStatus; rw [hr]⟩
    refine ⟨st, ⟨?_, ?_⟩, hf⟩
    · exact block_tail_final_stays cfg n txs t st (by rw [hAA]; exact hFA)
        (by rw [hAA]; exact fun hm => hnl (n.height + 1) (Nat.lt_succ_self _) (listedAt_of_mem_getTimeoutList hm))
    · intro d hd hl
      rw [execBlock_height] at hd
      apply hnl d (by omega)
      rw [listedAt_iff_count, ← hcntE, ← listedAt_iff_count]
      exact hl


/-- what the block theorems know of a one-to-one transaction `t` of a local, index-checked pair at a block boundary: it is **fresh**
(not accepted yet: no record, the pair's counter below its index, on no list still to come), **opened** (its record is not final; on
the lists still to come it occurs at most once, only under its recorded deadline) or **final** (and on no list still to come) -/
inductive Tracked (cfg : Cfg) (n : Node) (t : TxId) : Prop
  | fresh : NewInv { cfg := cfg, cache := n.cache, height := 0, txIndex := 0 } n.led t →
      (∀ d, n.height < d → listCount n.led d t = 0) → Tracked cfg n t
  | opened (rec0 : Rec) : OpenInv { cfg := cfg, cache := n.cache, height := 0, txIndex := 0 } n.led n.height t rec0 →
      rec0.status.isFinal = false → Tracked cfg n t
  | final (st : Status) : FinalInvL { cfg := cfg, cache := n.cache, height := 0, txIndex := 0 } n.led n.height t st →
      st.isFinal = true → Tracked cfg n t

/-- what is assumed of a block: nobody calls the unguarded `DeleteInterchain` (an open finding of C17), no request naming `t`
carries a Group (such a request begins a one-to-many child, which has no one-to-one record), the bookkeeping is not abandoned -/
structure BlockOk (cfg : Cfg) (n : Node) (txs : List (Tx × Bool)) (t : TxId) : Prop where
  nodelete : ∀ p ∈ txs, ∀ sg args, p.1 ≠ .bvm sg "interchain" "DeleteInterchain" args
  nogroup : ∀ p ∈ txs, ∀ s i pk, p.1 = .ibtp s i pk → reqFor t p.1 = true → i.group = none
  noabort : NoAbort cfg n txs

/-- **every block keeps a tracked transaction tracked**: a fresh one stays fresh, is opened by the one request the block accepts for
it, or is begun and answered in the same block; an open one stays open (possibly timed out: BEGIN_ROLLBACK) or becomes final and
leaves its list in the same block; a final one stays final and unlisted -/
theorem C04_block_tracked (cfg : Cfg) (n : Node) (txs : List (Tx × Bool)) (t : TxId)
    (hT : Tracked cfg n t) (hdst : (t.to.chain == cfg.bxh) = false) (hB : BlockOk cfg n txs t) :
    Tracked cfg (execBlock cfg n txs).1 t := by
  obtain ⟨hnd, hng, hna⟩ := hB
  cases hT with
  | fresh hN hul =>
    rcases C04_block_fresh_step cfg n txs t hN hul hdst hnd hng hna with ⟨h1, h2⟩ | ⟨rec, h1, h2⟩ | ⟨st, h1, h2⟩
    · exact .fresh h1 h2
    · exact .opened rec h1 h2
    · exact .final st h1 h2
  | final st hF hf => exact .final st (C04_block_final_stays_unlisted cfg n txs t st hF hf hnd) hf
  | opened rec0 hO hopen =>
    rcases block_record_dichotomy cfg n txs t rec0 hO hnd with hsame | ⟨st', hf', hfin⟩
    · obtain ⟨rec', hO', hcases⟩ := C04_block_open_stays cfg n txs t rec0 hO hnd hsame
      refine .opened rec' hO' ?_
      rcases hcases with h | ⟨_, h⟩
      · rw [h]; exact hopen
      · rw [h]; rfl
    · refine .final st' (C04_block_finalising_unlists cfg n txs t rec0 st' hO hopen hdst hnd hna ?_ hf') hf'
      unfold recStatus; rw [hfin]

/-- **… and so does every history of blocks** -/
theorem C04_history_tracked (cfg : Cfg) (blocks : List (List (Tx × Bool))) (n : Node) (t : TxId)
    (hT : Tracked cfg n t) (hdst : (t.to.chain == cfg.bxh) = false)
    (hB : ∀ k (hk : k < blocks.length), BlockOk cfg (runBlocks cfg n (blocks.take k)) blocks[k] t) :
    Tracked cfg (runBlocks cfg n blocks) t := by
  induction blocks generalizing n with
  | nil => exact hT
  | cons b rest ih =>
    have h0 := hB 0 (by simp)
    simp only [List.take_zero, List.getElem_cons_zero] at h0
    have hstep := C04_block_tracked cfg n b t hT hdst h0
    have := ih (execBlock cfg n b).1 hstep
      (fun k hk => by
        have := hB (k + 1) (by simp; omega)
        simpa [runBlocks] using this)
    simpa [runBlocks] using this

theorem runBlocks_append (cfg : Cfg) (n : Node) (b1 b2 : List (List (Tx × Bool))) :
    runBlocks cfg n (b1 ++ b2) = runBlocks cfg (runBlocks cfg n b1) b2 := by
  unfold runBlocks; rw [List.foldl_append]

/-- **SUCCESS, FAILURE and ROLLBACK are final — from the first block on**: start from a node on which `t` is fresh (a new chain: no
record, the pair's counter below the index, on no list), run any history of blocks (every block `BlockOk`): if `t`'s status is final
after the first `k` blocks, it is the same status after all of them.  The timeout mechanism, receipts of any kind, replays, other
transactions, fees that cannot be paid: nothing alters it -/
theorem C04_final_is_forever (cfg : Cfg) (blocks : List (List (Tx × Bool))) (n : Node) (t : TxId) (st : Status) (k : Nat)
    (hT : Tracked cfg n t) (hdst : (t.to.chain == cfg.bxh) = false)
    (hB : ∀ j (hj : j < blocks.length), BlockOk cfg (runBlocks cfg n (blocks.take j)) blocks[j] t)
    (hk : k ≤ blocks.length) (hst : recStatus (runBlocks cfg n (blocks.take k)).led t = some st) (hf : st.isFinal = true) :
    recStatus (runBlocks cfg n blocks).led t = some st := by
  have hTk : Tracked cfg (runBlocks cfg n (blocks.take k)) t := by
    apply C04_history_tracked cfg (blocks.take k) n t hT hdst
    intro j hj
    have hj' : j < blocks.length := by simp at hj; omega
    have := hB j hj'
    simp only [List.take_take, List.getElem_take] at this ⊢
    have e : min j k = j := by simp at hj; omega
    rw [e]
    exact this
  have hsplit : blocks = blocks.take k ++ blocks.drop k := (List.take_append_drop k blocks).symm
  have hrest : ∀ b ∈ blocks.drop k, ∀ p ∈ b, ∀ sg args, p.1 ≠ .bvm sg "interchain" "DeleteInterchain" args := by
    intro b hb
    obtain ⟨j, hj, e⟩ := List.getElem_of_mem hb
    have hj' : k + j < blocks.length := by simp at hj; omega
    have := (hB (k + j) hj').nodelete
    rw [List.getElem_drop] at e
    rw [← e]; exact this
  cases hTk with
  | fresh hN _ =>
    exfalso; unfold recStatus at hst; rw [hN.norec] at hst; cases hst
  | opened rec0 hO hopen =>
    exfalso; unfold recStatus at hst; rw [hO.recd] at hst; cases hst; rw [hopen] at hf; cases hf
  | final st' hF hf' =>
    have : st' = st := by
      have := hF.base.status
      rw [hst] at this; cases this; rfl
    subst this
    rw [hsplit, runBlocks_append]
    exact (C04_block_history_final_stays_unlisted cfg (blocks.drop k) _ t st' hF hf' hrest).1

/-- non-vacuity: on a new chain (service records only) every transaction of an index-checked local pair is fresh — the starting point of
`C04_final_is_forever` -/
example (idx : Nat) (hidx : 0 < idx) :
    let svc : Svc := { ordered := true, blacklist := [], available := true }
    let s11 : SvcId := { bxh := "1356", chain := "c1", sid := "s1" }
    let s21 : SvcId := { bxh := "1356", chain := "c2", sid := "s1" }
    let n : Node := { height := 6, led := { store := [(.svc "c1" "s1", .svc svc), (.svc "c2" "s1", .svc svc)] } }
    Tracked {} n { frm := s11, to := s21, index := idx } := by
  intro svc s11 s21 n
  refine .fresh ⟨Or.inr ⟨rfl, rfl, rfl, ?_⟩, rfl, ?_, ?_⟩ ?_
  · intro sv h
    have : n.led.getS (.svc s21.chain s21.sid) = some (.svc svc) := by decide
    rw [this] at h
    cases h; rfl
  · show reqCounter n.led s11 s21 < idx
    have : reqCounter n.led s11 s21 = 0 := by decide
    omega
  · simp [n, Led.getS, KV.get]
  · intro d _
    unfold listCount
    have : n.led.getS (.timeout d) = none := by simp [n, Led.getS, KV.get]
    rw [this]

/-- non-vacuity: request 1 of the pair c1:s1 → c2:s1, accepted at height 7 with T = 4 (BEGIN, deadline 11, on the list of 11 once), is
tracked as open at height 8 -/
example :
    let svc : Svc := { ordered := true, blacklist := [], available := true }
    let s11 : SvcId := { bxh := "1356", chain := "c1", sid := "s1" }
    let s21 : SvcId := { bxh := "1356", chain := "c2", sid := "s1" }
    let t : TxId := { frm := s11, to := s21, index := 1 }
    let n : Node := { height := 8, led := { store := [(.svc "c1" "s1", .svc svc), (.svc "c2" "s1", .svc svc),
      (.txRec t, .trec { height := 11, status := .begin }), (.ic s11, .ic { ic := [(s21, 1)] }), (.timeout 11, .tlist [some (.single t)])] } }
    Tracked {} n t := by
  intro svc s11 s21 t n
  refine .opened { height := 11, status := .begin } ⟨⟨Or.inr ⟨by decide, by decide, rfl, ?_⟩, by decide, rfl⟩, by decide, ?_, ?_⟩ rfl
  · intro sv h
    have : n.led.getS (.svc s21.chain s21.sid) = some (.svc svc) := by decide
    rw [this] at h
    cases h; rfl
  · intro d _
    unfold listCount
    by_cases hd : d = 11
    · subst hd; decide
    · have : n.led.getS (.timeout d) = none := by
        simp [n, Led.getS, KV.get, hd]
        intro e; exact hd e.symm
      rw [this]; exact Nat.zero_le _
  · rintro d _ ⟨lst, e, _⟩
    by_cases hd : d = 11
    · exact hd
    · exfalso
      have : n.led.getS (.timeout d) = none := by
        simp [n, Led.getS, KV.get, hd]
        intro e; exact hd e.symm
      rw [this] at e; cases e

end Closed

end Bxh.Props.C04
