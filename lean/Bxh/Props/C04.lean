import Bxh.Proofs.ExecLemmas
/-!
# C04 — cross-chain transaction status follows the protocol state machine
The transition table `Gen.txFsm` is regenerated from `transaction_manager.go` on every run; the
table theorems below are re-proved against whatever was extracted.
-/
namespace Bxh.Props.C04
open Bxh Bxh.Exec

/-- the protocol's edges, from the property statement (plus BEGIN → BEGIN_FAILURE, which the
one-to-many path uses, and BEGIN → ROLLBACK / FAILURE by the destination hub's notice) -/
def protocolEdges : List (Status × Status) := [
  (.begin, .success), (.begin, .failure), (.begin, .beginRollback), (.begin, .beginFailure), (.begin, .rollback),
  (.beginFailure, .failure), (.beginRollback, .rollback)]

def finals : List String := ["SUCCESS", "FAILURE", "ROLLBACK"]

theorem foldl_lookup_mem (ev src d : String) (tbl : List (String × List String × String)) :
    ∀ (acc : Option String),
      tbl.foldl (fun acc e => if e.1 == ev && e.2.1.contains src then some e.2.2 else acc) acc = some d →
      acc = some d ∨ ∃ e ∈ tbl, e.1 = ev ∧ src ∈ e.2.1 ∧ e.2.2 = d := by
  induction tbl with
  | nil => intro acc h; exact Or.inl h
  | cons e rest ih =>
    intro acc h
    simp only [List.foldl_cons] at h
    rcases ih _ h with h1 | ⟨e', he', hp⟩
    · by_cases hc : (e.1 == ev && e.2.1.contains src) = true
      · simp only [hc, if_true] at h1
        right
        refine ⟨e, List.mem_cons_self, ?_⟩
        simp only [Bool.and_eq_true, beq_iff_eq, List.contains_iff_mem] at hc
        cases h1
        exact ⟨hc.1, hc.2, rfl⟩
      · simp only [hc] at h1
        exact Or.inl h1
    · exact Or.inr ⟨e', List.mem_cons_of_mem _ he', hp⟩

/-- the result of a table lookup comes from a table entry -/
theorem fsmLookup_mem (tbl : List (String × List String × String)) (ev src d : String)
    (h : fsmLookup tbl ev src = some d) :
    ∃ e ∈ tbl, e.1 = ev ∧ src ∈ e.2.1 ∧ e.2.2 = d := by
  unfold fsmLookup at h
  rcases foldl_lookup_mem ev src d tbl none h with h0 | h1
  · cases h0
  · exact h1

/-- table fact (whole extracted table, by `decide`): no transition leaves a final status -/
theorem C04_table_no_exit_from_final :
    ∀ e ∈ Gen.txFsm, ∀ s ∈ e.2.1, s ∉ finals := by decide

/-- table fact: every transition between protocol statuses is a protocol edge -/
def edgeOk (s d : String) : Bool :=
  match Status.ofName s, Status.ofName d with
  | some a, some b => decide ((a, b) ∈ protocolEdges)
  | _, _ => true

theorem C04_table_edges_are_protocol :
    ∀ e ∈ Gen.txFsm, ∀ s ∈ e.2.1, edgeOk s e.2.2 = true := by decide

theorem name_final (st : Status) (h : st.isFinal = true) : st.name ∈ finals := by
  cases st <;> simp_all [Status.isFinal, Status.name, finals]

theorem ofName_name (st : Status) : Status.ofName st.name = some st := by
  cases st <;> decide

/-- SUCCESS, FAILURE and ROLLBACK are absorbing for every event whatsoever -/
theorem C04_final_absorbing_step (st : Status) (ev : String) (h : st.isFinal = true) :
    txFsmStep st ev = none := by
  unfold txFsmStep fsmStep
  cases hl : fsmLookup Gen.txFsm ev st.name with
  | none => rfl
  | some d =>
    obtain ⟨e, he, _, hs, _⟩ := fsmLookup_mem _ _ _ _ hl
    exact absurd (name_final st h) (C04_table_no_exit_from_final e he _ hs)

/-- every status change the FSM can make is an edge of the protocol -/
theorem C04_step_is_protocol_edge (st st' : Status) (ev : String) (h : txFsmStep st ev = some st') :
    (st, st') ∈ protocolEdges := by
  unfold txFsmStep fsmStep at h
  cases hl : fsmLookup Gen.txFsm ev st.name with
  | none => simp [hl] at h
  | some d =>
    simp only [hl] at h
    split at h
    · cases h
    · obtain ⟨e, he, _, hs, hd⟩ := fsmLookup_mem _ _ _ _ hl
      subst hd
      have := C04_table_edges_are_protocol e he _ hs
      simp only [edgeOk, ofName_name, h, decide_eq_true_eq] at this
      exact this

/-- `Report` on a one-to-one record: an accepted receipt moves the status along the FSM and
changes nothing else of the record; a receipt that needs another transition is an error (and an
error result carries no ledger at all, i.e. has no effect) -/
theorem C04_report_moves_along_fsm (l l' : Led) (id : TxId) (typ : Nat) (c : StatusChange) (r : Rec)
    (hrec : l.getS (.txRec id) = some (.trec r)) (h : tmReport l id typ = .ok (l', c)) :
    ∃ st', txFsmStep r.status (receiptEvent typ) = some st' ∧
      l'.getS (.txRec id) = some (.trec { r with status := st' }) ∧
      c.prev = some r.status ∧ c.cur = st' ∧ (r.status, st') ∈ protocolEdges := by
  unfold tmReport at h
  simp only [hrec] at h
  cases hs : txFsmStep r.status (receiptEvent typ) with
  | none => simp [hs] at h
  | some st' =>
    simp only [hs] at h
    cases h
    refine ⟨st', rfl, ?_, rfl, rfl, C04_step_is_protocol_edge _ _ _ hs⟩
    simp [Led.getS, Led.setS]

theorem C04_report_refused_when_final (l : Led) (id : TxId) (typ : Nat) (r : Rec)
    (hrec : l.getS (.txRec id) = some (.trec r)) (hf : r.status.isFinal = true) :
    tmReport l id typ = .error "2080000" := by
  unfold tmReport
  simp only [hrec, C04_final_absorbing_step r.status _ hf]

/-- status query = the status stored by the last accepted event -/
theorem C04_status_query_exact (l : Led) (id : TxId) (r : Rec)
    (hrec : l.getS (.txRec id) = some (.trec r)) : tmGetStatus l id = some r.status := by
  simp [tmGetStatus, hrec]

/-- non-vacuity: the table does move BEGIN on a success receipt -/
example : txFsmStep .begin (receiptEvent 1) = some .success := by decide

end Bxh.Props.C04
