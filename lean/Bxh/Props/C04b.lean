import Bxh.Gen.IbtpContextHeight
/-!
# C04 / C06 — the record's deadline and the executor's timeout list name the same block

`Begin` records a request's deadline as (the height its contract context carries) + timeout; `setTimeoutList` books the request
under (the height of the block being executed) + timeout.  A receipt takes the id off the list its RECORD names, so the two must be
the same height — the model's `execBlock` gives both the height of the block being executed.  The height the executor creates the
context of an IBTP transaction with is extracted from `applyBxhTransaction` on every run.
-/
namespace Bxh.Props.C04

/-- the contract context of an IBTP transaction carries the height of the block being executed (`currentHeight` is the height of the
last executed block) -/
theorem C04_ibtp_context_carries_the_block_height : Bxh.Gen.ibtpContextHeight = "exec.currentHeight+1" := by decide

end Bxh.Props.C04
