import Bxh.Props.C13b
/-!
# C01 — "… does not depend on … in-memory caches, or on whether and where the node was stopped and restarted in between"

At the level of the state ledger a restarted replica differs from a running one in exactly one thing: its caches are empty.  Block
execution reaches the state only through reads (`GetState`, `GetBalance`, `GetNonce`, …), so what has to be shown is that no read can
tell the two apart.  These are the C13 theorems, stated for two replicas.
-/
namespace Bxh.Props.C01
open Bxh Bxh.Ledger

/-- a replica that ran since the last commit and a replica that was stopped and started again on the same database: between two
blocks, with caches that agree with the database (`CacheDb`, `InnerDb`: re-established by every committed block,
`C13_commit_reestablishes_cache_coherence`, and evaluated by the model driver on every generated history), every storage key,
balance and nonce of every account reads alike on the two -/
theorem C01_restarted_replica_reads_alike (running restarted : L) (hno : running.accounts = []) (hD : CacheDb running) (hI : InnerDb running)
    (hr : reopen running = some restarted) (a : Addr) (k : String) :
    ((getState restarted a k).2).getD "" = ((getState running a k).2).getD "" ∧
    (getBalance restarted a).2 = (getBalance running a).2 ∧ (getNonce restarted a).2 = (getNonce running a).2 :=
  ⟨Bxh.Props.C13.C13_reopen_keeps_every_read running restarted hno hD hr a k,
   (Bxh.Props.C13.C13_reopen_keeps_balance_and_nonce running restarted hno hI hr a).1,
   (Bxh.Props.C13.C13_reopen_keeps_balance_and_nonce running restarted hno hI hr a).2⟩

/-- two running replicas whose LRU caches dropped different entries (here: one dropped the storage entry of `x` and the account
record of `y`, the other nothing): every storage key, balance and nonce reads alike, also in the middle of a block -/
theorem C01_cache_evictions_do_not_show (l : L) (hD : CacheDb l) (hI : InnerDb l) (x y : Addr) (a : Addr) (k : String) :
    ((getState { l with cache := { l.cache with state := KV.erase l.cache.state x } } a k).2).getD "" = ((getState l a k).2).getD "" ∧
    (getBalance { l with cache := { l.cache with inner := KV.erase l.cache.inner y } } a).2 = (getBalance l a).2 ∧
    (getNonce { l with cache := { l.cache with inner := KV.erase l.cache.inner y } } a).2 = (getNonce l a).2 :=
  ⟨Bxh.Props.C13.C13_eviction_keeps_every_read l hD x a k,
   (Bxh.Props.C13.C13_inner_eviction_keeps_balance_and_nonce l hI y a).1,
   (Bxh.Props.C13.C13_inner_eviction_keeps_balance_and_nonce l hI y a).2⟩

end Bxh.Props.C01
