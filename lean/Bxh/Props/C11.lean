import Bxh.Model.Chain
namespace Bxh.Props.C11
open Bxh Bxh.Chain
theorem placeholder_true : True := trivial
end Bxh.Props.C11
