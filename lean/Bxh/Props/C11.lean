import Bxh.Model.Persist
import Bxh.Model.Chain
import Bxh.Proofs.ChainCrash
/-!
# C11 — the ledger recovers to a consistent height after a crash at any persist point
-/
namespace Bxh.Props.C11
open Bxh.Persist

/-- Full-strength clause: whatever subset/prefix of the durable writes of one block commit reached
the disk, the ledger recovers -/
def C11_always_recovers : Prop := ∀ (h : Nat) (m : Mask), 1 ≤ h → m.b ≤ 5 → recoverOK h (recover h m)

/-- **exact characterisation**: recovery works if and only if either everything of the commit
is durable, or neither the chain-index batch nor the complete blockfile append is -/
theorem C11_recover_iff (h : Nat) (m : Mask) (hh : 1 ≤ h) (hb : m.b ≤ 5) :
    recoverOK h (recover h m) ↔ Good m := by
  obtain ⟨s, c, b⟩ := m
  simp only at hb
  have h1 : h - 1 < h := by omega
  have h2 : ¬ h < h - 1 := by omega
  have h3 : ¬ (h - 1 = h) := by omega
  have h4 : ¬ (h = h - 1) := by omega
  unfold recover recoverOK Good
  by_cases hb5 : b ≥ 5
  · have hnl : ¬ b < 5 := by omega
    cases s <;> cases c <;> simp [hb5, hnl, h1, h2, h3, h4]
  · have hlt : b < 5 := by omega
    cases s <;> cases c <;> simp [hb5, hlt, h1, h2, h3, h4]

/-- the three unrecoverable classes, each for every height -/
theorem C11_state_behind_chain_index (h : Nat) (b : Nat) (hh : 1 ≤ h) :
    recover h { s := false, c := true, b := b } = .openError := by
  have h1 : h - 1 < h := by omega
  unfold recover; simp [h1]

theorem C11_blockfile_ahead (h : Nat) (s : Bool) (hh : 1 ≤ h) :
    recover h { s := s, c := false, b := 5 } = .opened (h - 1) (h - 1) h := by
  unfold recover; cases s <;> simp

theorem C11_chain_index_ahead (h : Nat) (b : Nat) (hb : b < 5) :
    recover h { s := true, c := true, b := b } = .opened h h (h - 1) := by
  unfold recover
  have : ¬ b ≥ 5 := by omega
  simp [this]

/-- the full clause is false of the code: counter-example (machine checked) -/
theorem C11_always_recovers_false : ¬ C11_always_recovers := by
  intro hall
  have := hall 1 { s := false, c := true, b := 5 } (by omega) (by simp)
  revert this
  decide

/-- **the state store continues from the head block's root**: start-up opens the state store (`NewSimpleLedger`) and rolls
it back to the chain height `c` (`ledger.New`).  Whether that rollback has something to undo or not, the root the next
block's journal hash chains from is the root recorded in the journal of height `c` — the state root of block `c`. -/
theorem C11_startup_root (l l1 l2 : Bxh.Ledger.L) (c : Nat) (hc : c ≠ 0)
    (h1 : Bxh.Ledger.reopen l = some l1) (h2 : Bxh.Ledger.rollback l1 c = .ok l2) :
    ∃ bj, Bxh.KV.get l2.db.journals c = some bj ∧ l2.prevRoot = bj.root := by
  by_cases heq : l1.maxJ = c
  · -- nothing to undo: the ledger is the reopened one
    have hl : l2 = l1 := by
      unfold Bxh.Ledger.rollback at h2
      split at h2
      · cases h2
      · split at h2
        · cases h2
        · injection h2 with h2
          exact h2.symm
    subst hl
    unfold Bxh.Ledger.reopen at h1
    simp only at h1
    split at h1
    · split at h1
      · rename_i bj hbj
        injection h1 with h1
        subst h1
        simp only at heq
        exact ⟨bj, by rw [← heq]; exact hbj, rfl⟩
      · cases h1
    · injection h1 with h1
      subst h1
      simp only at heq
      exact absurd heq.symm hc
  · unfold Bxh.Ledger.rollback at h2
    split at h2
    · cases h2
    · split at h2
      · cases h2
      · simp only at h2
        split at h2
        · cases h2
        · split at h2
          · rename_i bj hbj
            injection h2 with h2
            subst h2
            exact ⟨bj, hbj, rfl⟩
          · cases h2

/-- at height 0 the state store continues from the zero root -/
theorem C11_startup_root_genesis (l l2 : Bxh.Ledger.L) (hm : l.maxJ ≠ 0) (h2 : Bxh.Ledger.rollback l 0 = .ok l2) :
    l2.prevRoot = Bxh.Ledger.zeroRoot := by
  unfold Bxh.Ledger.rollback at h2
  split at h2
  · cases h2
  · split at h2
    · cases h2
    · simp only at h2
      split at h2
      · cases h2
      · injection h2 with h2
        subst h2
        rfl

/-- non-vacuity: the fully durable commit and the fully lost commit both recover -/
example : recoverOK 7 (recover 7 { s := true, c := true, b := 5 }) := by decide
example : recoverOK 7 (recover 7 { s := false, c := false, b := 0 }) := by decide

/-- **a crash from which start-up succeeds loses no block and leaves block store and index store consistent** (the chain side of the
concrete model `Bxh.Chain`, for the two classes of masks `C11_recover_iff` calls good): a linked chain (`C09`), the commit of its next
block interrupted so that either nothing of the chain side is complete (index batch missing, at most four of the five blockfile
tables appended) or all of it is durable; if `ledger.New` opens the store at all, then index, tables, block count and chain meta of
the reopened node are exactly those from before the block resp. from after it — the node is at the previous or at the new height,
every block up to that height is stored, hash-linked and found by every lookup (`Linked`), nothing of a half-appended block is left -/
theorem C11_recovered_chain_is_before_or_after (before after : Bxh.Chain.Node) (blk : Bxh.Chain.Blk) (txs : List String)
    (ctr : Bxh.KV String Nat) (m : Bxh.Chain.Mask) (n2 : Bxh.Chain.Node)
    (hL : Bxh.Chain.Linked before) (hM : Bxh.Chain.MetaOk before) (h5 : Bxh.Chain.FiveEven before)
    (hf : Bxh.Chain.FreshHash before (Bxh.Chain.mkBlk before txs ctr).hash)
    (hp : Bxh.Chain.persist before txs ctr = some (after, blk))
    (hgood : (m.c = false ∧ m.b < 5) ∨ (m.c = true ∧ m.b = 5))
    (hr : Bxh.Chain.reopen (Bxh.Chain.crashed before after m) = .ok n2) :
    Bxh.Chain.Linked n2 ∧
    ((n2.idx = before.idx ∧ n2.tbl = before.tbl ∧ n2.blocks = before.blocks ∧ n2.cmeta = before.cmeta) ∨
     (n2.idx = after.idx ∧ n2.tbl = after.tbl ∧ n2.blocks = after.blocks ∧ n2.cmeta = after.cmeta ∧
      n2.cmeta.1 = before.cmeta.1 + 1)) := by
  have hLa : Bxh.Chain.Linked after := Bxh.Chain.persist_linked before after blk txs ctr hL hf hp
  unfold Bxh.Chain.persist at hp
  simp only at hp
  split at hp
  · cases hp
  · injection hp with hp
    injection hp with e1 e2
    have hfacts := Bxh.Chain.applyBlk_facts before (Bxh.Chain.mkBlk before txs ctr) rfl h5
    have hat : after.tbl = before.tbl.append (Bxh.Chain.mkBlk before txs ctr) := by rw [← e1]; rfl
    have hac : after.cmeta.1 = before.cmeta.1 + 1 := by rw [← e1]; rfl
    have h5a : Bxh.Chain.FiveEven after := by rw [← e1]; exact hfacts.1
    have hMa : Bxh.Chain.MetaOk after := by rw [← e1]; exact hfacts.2
    rcases hgood with ⟨hc, hb⟩ | ⟨hc, hb⟩
    · obtain ⟨g1, g2, g3, g4, g5⟩ := Bxh.Chain.reopen_crashed_before before after _ m n2 hL hM h5 hat hc hb hr
      exact ⟨g5, Or.inl ⟨g1, g2, g3, g4⟩⟩
    · obtain ⟨g1, g2, g3, g4, g5⟩ := Bxh.Chain.reopen_crashed_after before after m n2 hLa hMa h5a hc hb hr
      exact ⟨g5, Or.inr ⟨g1, g2, g3, g4, by rw [g4]; exact hac⟩⟩

/-- non-vacuity: the empty node meets the three hypotheses; its first block's hash is fresh -/
example : Bxh.Chain.Linked {} ∧ Bxh.Chain.MetaOk {} ∧ Bxh.Chain.FiveEven {} ∧
    Bxh.Chain.FreshHash {} (Bxh.Chain.mkBlk {} ["t1"] []).hash :=
  ⟨Bxh.Chain.Linked.init, rfl, ⟨rfl, rfl, rfl, rfl, rfl⟩, fun c hc => by cases hc⟩

/-- an empty block above height 1 is an idle block: its state part changes no storage row and flushes no account (its journal — the
durable copy of the state root the next block chains on from — is what recovery needs of it; the store engine persists such blocks and
crashes while they are being committed) -/
theorem C11_idle_block_changes_no_account (l : Bxh.Ledger.L) (h serial : Nat) (hh : 1 < h) (hno : l.accounts = []) :
    (Bxh.Chain.stateCommit l h serial []).db.state = l.db.state :=
  (Bxh.Chain.stateCommit_idle l h serial hh hno).1

end Bxh.Props.C11
