import Bxh.Model.Exec
/-!
# C08 — block execution is total

What a Lean theorem can carry here: the model of the executor loop (`applyTxs`, `execBlock`) is a
total function (accepted by Lean's termination checker: every loop is a fold or a fuel-bounded
structural recursion, e.g. `goRemoveLoop`, whose slice-bounds panic is an explicit `none` turned
into a failed receipt), and for every block — any number of transactions of any content the op
language can express, valid signature or not — it produces exactly one receipt per transaction, in
block order, and commits with the next height.

That the *Go code* never panics or blocks on inputs outside the model's abstraction (raw payload
bytes, reflection over argument vectors, JSON of malformed ids) cannot be a theorem about a
hand-written model; it is decided by the correspondence run: the real executor is driven with
malformed transactions of every class (see py/vlib/gen_dispatch.py `gen_c08`), a dead or panicking
process, a missing receipt or a height that is not the next one is a violation, and the receipts
of everything the model does cover must agree with it.
-/
namespace Bxh.Props.C08
open Bxh Bxh.Exec

def stepAcc (cfg : Cfg) (cache : KV (String × String) Svc) (h : Nat) (a : Acc) (p : Tx × Bool) : Acc :=
  let env : Env := { cfg := cfg, cache := cache, height := h, txIndex := a.idx }
  let inv := if !p.2 then some "bad-sig" else match p.1 with
    | .ibtp _ i pk => proofVerdict cfg i pk
    | _ => none
  let r := applyTx env a.led p.1 inv
  { led := r.1, idx := a.idx + 1, rcpts := a.rcpts ++ [r.2.rcpt], counter := counterOf a.idx r.2.events a.counter }

theorem applyTxs_eq_foldl (cfg : Cfg) (cache : KV (String × String) Svc) (h : Nat) (l : Led) (txs : List (Tx × Bool)) :
    applyTxs cfg cache h l txs = txs.foldl (stepAcc cfg cache h) { led := l } := rfl

theorem foldl_counts (cfg : Cfg) (cache : KV (String × String) Svc) (h : Nat) (txs : List (Tx × Bool)) (a : Acc) :
    (txs.foldl (stepAcc cfg cache h) a).rcpts.length = a.rcpts.length + txs.length ∧
    (txs.foldl (stepAcc cfg cache h) a).idx = a.idx + txs.length := by
  induction txs generalizing a with
  | nil => simp
  | cons t rest ih =>
    simp only [List.foldl_cons, List.length_cons]
    obtain ⟨h1, h2⟩ := ih (stepAcc cfg cache h a t)
    refine ⟨?_, ?_⟩
    · rw [h1]; simp [stepAcc]; omega
    · rw [h2]; simp [stepAcc]; omega

/-- **one receipt per transaction**, whatever the transactions are -/
theorem C08_one_receipt_per_tx (cfg : Cfg) (n : Node) (txs : List (Tx × Bool)) :
    (execBlock cfg n txs).2.rcpts.length = txs.length := by
  unfold execBlock
  simp only
  rw [applyTxs_eq_foldl]
  have := (foldl_counts cfg n.cache (n.height + 1) txs { led := n.led }).1
  simpa using this

/-- **the block is committed with the next height** -/
theorem C08_next_height (cfg : Cfg) (n : Node) (txs : List (Tx × Bool)) :
    (execBlock cfg n txs).1.height = n.height + 1 ∧ (execBlock cfg n txs).2.height = n.height + 1 := by
  unfold execBlock
  exact ⟨rfl, rfl⟩

/-- **receipts are in block order**: executing `txs ++ [t]` yields the receipts of `txs` followed by
the receipt of `t` applied to the ledger `txs` left behind (so receipt `i` belongs to transaction `i`) -/
theorem C08_receipts_in_block_order (cfg : Cfg) (cache : KV (String × String) Svc) (h : Nat) (l : Led)
    (txs : List (Tx × Bool)) (t : Tx × Bool) :
    applyTxs cfg cache h l (txs ++ [t]) = stepAcc cfg cache h (applyTxs cfg cache h l txs) t := by
  simp [applyTxs_eq_foldl, List.foldl_append]

/-- a receipt exists even for a transaction rejected before execution (bad signature / proof) -/
theorem C08_rejected_tx_gets_failed_receipt (env : Env) (l : Led) (tx : Tx) (r : String) :
    (applyTx env l tx (some r)).2.rcpt.ok = false := by
  unfold applyTx applyBxh
  simp only
  split <;> simp [mkRcpt]

/-- the in-place removal loop of the timeout list never escapes: a slice-bounds panic of the Go
loop is the explicit `none`, which `tmRemoveTimeout` turns into an error (a failed receipt) -/
theorem C08_remove_panic_is_contained (l : Led) (h : Nat) (id : TId) (lst : List (Option TId))
    (hl : l.getS (.timeout h) = some (.tlist lst)) (hne : lst ≠ [none]) (hp : goRemove lst id = none) :
    tmRemoveTimeout l h id = .error "panic" := by
  unfold tmRemoveTimeout
  simp [hl, hp, hne]

/-- non-vacuity: a block of one bad-signature transfer and one transfer of a non-numeric amount -/
example : (execBlock {} { led := {}, height := 6 }
    [(.xfer "a" "b" (some 5), false), (.xfer "a" "b" none, true)]).2.rcpts.length = 2 := by decide

end Bxh.Props.C08
