import Bxh.Model.Exec
import Bxh.Gen.Guards
/-!
# C08 — block execution is total

What a Lean theorem can carry here: the model of the executor loop (`applyTxs`, `execBlock`) is a
total function (accepted by Lean's termination checker: every loop is a fold or a fuel-bounded
structural recursion, e.g. `goRemoveLoop`, whose slice-bounds panic is an explicit `none` turned
into a failed receipt), and for every block — any number of transactions of any content the op
language can express, valid signature or not — it produces exactly one receipt per transaction, in
block order, and commits with the next height.

That the *Go code* never panics or blocks on inputs outside the model's abstraction (raw payload
bytes, reflection over argument vectors, JSON of malformed ids) cannot be a theorem about a
hand-written model; it is decided by the correspondence run: the real executor is driven with
malformed transactions of every class (see py/vlib/gen_dispatch.py `gen_c08`), a dead or panicking
process, a missing receipt or a height that is not the next one is a violation, and the receipts
of everything the model does cover must agree with it.
-/
namespace Bxh.Props.C08
open Bxh Bxh.Exec

def stepAcc (cfg : Cfg) (cache : KV (String × String) Svc) (h : Nat) (a : Acc) (p : Tx × Bool) : Acc :=
  let env : Env := { cfg := cfg, cache := cache, height := h, txIndex := a.idx }
  let inv := if !p.2 then some "bad-sig" else match p.1 with
    | .ibtp _ i pk => proofVerdict cfg i pk
    | _ => none
  let r := applyTx env a.led p.1 inv
  { led := r.1, idx := a.idx + 1, rcpts := a.rcpts ++ [r.2.rcpt], counter := counterOf a.idx r.2.events a.counter }

theorem applyTxs_eq_foldl (cfg : Cfg) (cache : KV (String × String) Svc) (h : Nat) (l : Led) (txs : List (Tx × Bool)) :
    applyTxs cfg cache h l txs = txs.foldl (stepAcc cfg cache h) { led := l } := rfl

theorem foldl_counts (cfg : Cfg) (cache : KV (String × String) Svc) (h : Nat) (txs : List (Tx × Bool)) (a : Acc) :
    (txs.foldl (stepAcc cfg cache h) a).rcpts.length = a.rcpts.length + txs.length ∧
    (txs.foldl (stepAcc cfg cache h) a).idx = a.idx + txs.length := by
  induction txs generalizing a with
  | nil => simp
  | cons t rest ih =>
    simp only [List.foldl_cons, List.length_cons]
    obtain ⟨h1, h2⟩ := ih (stepAcc cfg cache h a t)
    refine ⟨?_, ?_⟩
    · rw [h1]; simp [stepAcc]; omega
    · rw [h2]; simp [stepAcc]; omega

/-- **one receipt per transaction**, whatever the transactions are -/
theorem C08_one_receipt_per_tx (cfg : Cfg) (n : Node) (txs : List (Tx × Bool)) :
    (execBlock cfg n txs).2.rcpts.length = txs.length := by
  unfold execBlock
  simp only
  rw [applyTxs_eq_foldl]
  have := (foldl_counts cfg n.cache (n.height + 1) txs { led := n.led }).1
  simpa using this

/-- **the block is committed with the next height** -/
theorem C08_next_height (cfg : Cfg) (n : Node) (txs : List (Tx × Bool)) :
    (execBlock cfg n txs).1.height = n.height + 1 ∧ (execBlock cfg n txs).2.height = n.height + 1 := by
  unfold execBlock
  exact ⟨rfl, rfl⟩

/-- **receipts are in block order**: executing `txs ++ [t]` yields the receipts of `txs` followed by
the receipt of `t` applied to the ledger `txs` left behind (so receipt `i` belongs to transaction `i`) -/
theorem C08_receipts_in_block_order (cfg : Cfg) (cache : KV (String × String) Svc) (h : Nat) (l : Led)
    (txs : List (Tx × Bool)) (t : Tx × Bool) :
    applyTxs cfg cache h l (txs ++ [t]) = stepAcc cfg cache h (applyTxs cfg cache h l txs) t := by
  simp [applyTxs_eq_foldl, List.foldl_append]

/-- a receipt exists even for a transaction rejected before execution (bad signature / proof) -/
theorem C08_rejected_tx_gets_failed_receipt (env : Env) (l : Led) (tx : Tx) (r : String) :
    (applyTx env l tx (some r)).2.rcpt.ok = false := by
  unfold applyTx applyBxh
  simp only
  split <;> simp [mkRcpt]

/-- the in-place removal loop of the timeout list never escapes: a slice-bounds panic of the Go
loop is the explicit `none`, which `tmRemoveTimeout` turns into an error (a failed receipt) -/
theorem C08_remove_panic_is_contained (l : Led) (h : Nat) (id : TId) (lst : List (Option TId))
    (hl : l.getS (.timeout h) = some (.tlist lst)) (hne : lst ≠ [none]) (hp : goRemove lst id = none) :
    tmRemoveTimeout l h id = .error "panic" := by
  unfold tmRemoveTimeout
  simp [hl, hp, hne]

/-- non-vacuity: a block of one bad-signature transfer and one transfer of a non-numeric amount -/
example : (execBlock {} { led := {}, height := 6 }
    [(.xfer "a" "b" (some 5), false), (.xfer "a" "b" none, true)]).2.rcpts.length = 2 := by decide

/-! ### where a panic would end the process: goroutines and recover guards (regenerated from /repo on every run)

A panic is contained only by a `recover` in the goroutine it happens in.  `Bxh.Gen.goSites` lists every `go` statement of the
block-execution packages (executor, ledger, bolt VM, proof pool) with whether the goroutine's own body starts with a deferred
`recover`; `Bxh.Gen.recoverGuards` lists every function that defers one, and whether the guard is the function's first statement.
The theorems below are re-checked against the regenerated tables: a new goroutine, a guard that is gone, or a statement moved in
front of a guard breaks one of them. -/

open Bxh.Gen in
/-- the goroutines without a recover of their own, reviewed one by one (a panic in any of them ends the process, so each must be
panic-free for every block — which is what the correspondence run exercises):
* `Start` ×3: the executor's three long-lived loops (pre-execution, execution, persistence) — the stages themselves;
* `verifySign`: one goroutine per transaction; its body is `verifyTxSignature` (guarded, see below) plus a map write under a mutex;
* `verifyProofs`: one goroutine per group of a block; its body calls `CheckProof`, whose rule engines return errors (the nil-error
  dereference that used to crash here was repaired: fix 0f59eb42);
* `postAuditEvent` / `postNodeEvent` / `postBlockEvent` ×2 / `postLogsEvent`: `event.Feed.Send` towards subscribers, after the block is done;
* `PersistBlockData` ×2, `PersistExecutionResult` ×2: the concurrent writes of one block to the state store, the block file and the
  chain index (their failure modes are the crash points of C11). -/
def reviewedGoroutines : List (String × String × Nat) := [
  ("internal/executor", "BlockExecutor.Start", 0),
  ("internal/executor", "BlockExecutor.Start", 1),
  ("internal/executor", "BlockExecutor.Start", 2),
  ("internal/executor", "BlockExecutor.postAuditEvent", 0),
  ("internal/executor", "BlockExecutor.postBlockEvent", 0),
  ("internal/executor", "BlockExecutor.postBlockEvent", 1),
  ("internal/executor", "BlockExecutor.postLogsEvent", 0),
  ("internal/executor", "BlockExecutor.postNodeEvent", 0),
  ("internal/executor", "BlockExecutor.verifyProofs", 0),
  ("internal/executor", "BlockExecutor.verifySign", 0),
  ("internal/ledger", "ChainLedgerImpl.PersistExecutionResult", 0),
  ("internal/ledger", "ChainLedgerImpl.PersistExecutionResult", 1),
  ("internal/ledger", "Ledger.PersistBlockData", 0),
  ("internal/ledger", "Ledger.PersistBlockData", 1)]

/-- the functions whose deferred `recover` the containment argument relies on: contract code (any method, any arguments, any IBTP)
runs inside `BoltVM.Run` / `BoltVM.HandleIBTP`, signature verification of foreign transactions inside `verifyTxSignature` -/
def requiredGuards : List (String × String) := [
  ("internal/executor", "verifyTxSignature"),
  ("pkg/vm/boltvm", "BoltVM.HandleIBTP"),
  ("pkg/vm/boltvm", "BoltVM.Run")]

open Bxh.Gen in
/-- every goroutine of the block-execution packages has its own recover guard or is a reviewed one -/
theorem C08_goroutines_guarded_or_reviewed :
    goSites.all (fun g => g.guarded || reviewedGoroutines.contains (g.pkg, g.func, g.n)) = true := by decide +kernel

open Bxh.Gen in
/-- no reviewed entry is stale -/
theorem C08_reviewed_goroutines_exist :
    reviewedGoroutines.all (fun r => goSites.any (fun g => (g.pkg, g.func, g.n) == r)) = true := by decide +kernel

open Bxh.Gen in
/-- **the recover guards are in place, and each is the first statement of its function** (nothing — no look-up, no
dereference of a field of the transaction — runs before the guard stands), and each of them turns the panic into the function's
ERROR RESULT (the deferred function assigns to a named result: a guard that sets a local would let the function return nil, nil and
the executor would write a SUCCESS receipt for a transaction that was never processed) -/
theorem C08_recover_guards_in_place :
    requiredGuards.all (fun r => recoverGuards.any (fun g => g.pkg == r.1 && g.func == r.2 && g.first && g.setsResult)) = true := by decide +kernel

open Bxh.Gen in
/-- the contracts package starts no goroutine: contract code runs on the executor's goroutine, inside the bolt VM's guard -/
theorem C08_contracts_start_no_goroutine :
    goSites.all (fun g => g.pkg != "internal/executor/contracts") = true := by decide +kernel

end Bxh.Props.C08
