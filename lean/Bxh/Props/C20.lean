import Bxh.Proofs.SyncLemmas
import Bxh.Proofs.OrderLemmas
/-!
# C20 — ordering delivers each height once, in order (property theorems)

Clause "Block synchronisation requests cover every missing height exactly once, in
ascending order" — about `Sync.calcRange` (model of `calcRangeHeight`).
-/
namespace Bxh.Props.C20
open Bxh.Sync

theorem div_hi (b f : Nat) (hf : 0 < f) : b ≤ (b / f + 1) * f := by
  have h1 := Nat.div_add_mod b f
  have h2 := Nat.mod_lt b hf
  have h3 : (b / f + 1) * f = f * (b / f) + f := by rw [Nat.succ_mul, Nat.mul_comm]
  omega

/-- Full-strength clause: for every `begin ≤ end` and every fetch size `> 0` the ranges
requested list exactly the heights `begin, begin+1, …, end`, each once, ascending; every range is
non-empty and asks for at most `fetch + 1` blocks. -/
def C20_ranges_partition : Prop :=
  ∀ (b e f : Nat), 0 < f → b ≤ e →
    ∃ rs, calcRange b e f = some rs ∧
      heights rs = List.range' b (e + 1 - b) ∧
      (∀ r ∈ rs, r.b ≤ r.e ∧ r.e ≤ e ∧ b ≤ r.b ∧ r.e + 1 - r.b ≤ f + 1)

theorem C20_ranges_partition_holds : C20_ranges_partition := by
  intro b e f hf hbe
  refine ⟨calcLoop f e (e + 1 - b) b (b / f), ?_, ?_, ?_⟩
  · simp [calcRange]; omega
  · apply loop_heights f e hf
    · exact div_hi b f hf
    · exact Nat.le_refl _
  · intro r hr
    have hlo : b / f * f ≤ b := Nat.div_mul_le_self b f
    have hhi : b ≤ (b / f + 1) * f := div_hi b f hf
    have := loop_shape f e hf _ _ _ hlo hhi r hr
    omega

/-- the refused input: `begin > end` is an error and requests nothing -/
theorem C20_ranges_refuse (b e f : Nat) (h : e < b) : calcRange b e f = none := by
  simp [calcRange, h]

/-- **the synchronised stream**: with peers that answer, `SyncCFTBlocks(begin, end)` / `SyncBFTBlocks` hand on exactly the
blocks `begin, begin+1, …, end`, each once, in ascending order, followed by the end marker, and the answered requests are the
ranges of `C20_ranges_partition` -/
theorem C20_sync_stream_each_height_once (b e f : Nat) (hf : 0 < f) (hbe : b ≤ e) :
    ∃ rs, syncStream b e f = some (rs, (List.range' b (e + 1 - b)).map some ++ [none]) ∧ heights rs = List.range' b (e + 1 - b) := by
  obtain ⟨rs, h1, h2, _⟩ := C20_ranges_partition_holds b e f hf hbe
  exact ⟨rs, by simp [syncStream, h1, h2], h2⟩

/-- non-vacuity / shape witness (the `fetch+1` bound is tight: begin a multiple of fetch) -/
example : calcRange 10 23 5 = some [⟨10, 15⟩, ⟨16, 20⟩, ⟨21, 23⟩] := by decide

open Bxh.Order.Apply in
/-- **each height once, in order, across faults and restarts** (safety half): from a node whose minted queue
continues its ledger, whatever raft hands over (any entries: duplicates, replays, gaps, stale heights), whenever
snapshots are taken or installed (a follower catching up through the syncer while its executor lags), heights reported and the
process crashes and restarts, the executor is handed exactly the
heights `ledger+1, ledger+2, …` — consecutive, ascending, none twice -/
theorem C20_delivery_consecutive (n : Order.Node) (l0 : Nat) (ops : List Order.Apply.Op) (h : Good n l0) :
    let s := run { n := n, ledger := l0 } ops
    s.delivered = List.range' (l0 + 1) (s.ledger - l0) ∧ l0 ≤ s.ledger := by
  have := run_inv l0 ops { n := n, ledger := l0 } ⟨h, Nat.le_refl _, by simp⟩
  exact ⟨this.2.2, this.2.1⟩

/-- non-vacuity: entries for heights 1,2 arrive, one is executed, the node crashes before reporting, raft re-delivers
both, and the executor is still handed 2 next (1 is skipped as already executed) -/
example :
    let es : List Order.Entry := [⟨1, some 1⟩, ⟨2, some 2⟩]
    (Order.Apply.run { n := {}, ledger := 0 } [.ready es, .execute, .restart, .execute, .execute]).delivered = [1, 2] := by decide

/-- the recorded finding (known_findings.json, C20 snapshot ahead of execution) on the model: the other half of the
clause — "no entry that was not executed is skipped" — fails.  Entries for heights 1 and 2 are minted, a snapshot is
taken at the applied index before the executor took anything, the process restarts: raft re-delivers nothing, the
entry for height 3 is skipped for ever, the executor is handed nothing. -/
theorem C20_snapshot_ahead_skips_unexecuted :
    let es : List Order.Entry := [⟨1, some 1⟩, ⟨2, some 2⟩]
    let s := Order.Apply.run { n := {}, ledger := 0 } [.ready es, .snapshot, .restart, .ready [⟨3, some 3⟩], .execute, .execute]
    s.delivered = [] ∧ s.ledger = 0 := by decide

end Bxh.Props.C20
