import Bxh.Proofs.SyncLemmas
import Bxh.Proofs.OrderLemmas
/-!
# C20 — ordering delivers each height once, in order (property theorems)

Clause "Block synchronisation requests cover every missing height exactly once, in
ascending order" — about `Sync.calcRange` (model of `calcRangeHeight`).
-/
namespace Bxh.Props.C20
open Bxh.Sync

theorem div_hi (b f : Nat) (hf : 0 < f) : b ≤ (b / f + 1) * f := by
  have h1 := Nat.div_add_mod b f
  have h2 := Nat.mod_lt b hf
  have h3 : (b / f + 1) * f = f * (b / f) + f := by rw [Nat.succ_mul, Nat.mul_comm]
  omega

/-- Full-strength clause: for every `begin ≤ end` and every fetch size `> 0` the ranges
requested list exactly the heights `begin, begin+1, …, end`, each once, ascending; every range is
non-empty and asks for at most `fetch + 1` blocks. -/
def C20_ranges_partition : Prop :=
  ∀ (b e f : Nat), 0 < f → b ≤ e →
    ∃ rs, calcRange b e f = some rs ∧
      heights rs = List.range' b (e + 1 - b) ∧
      (∀ r ∈ rs, r.b ≤ r.e ∧ r.e ≤ e ∧ b ≤ r.b ∧ r.e + 1 - r.b ≤ f + 1)

theorem C20_ranges_partition_holds : C20_ranges_partition := by
  intro b e f hf hbe
  refine ⟨calcLoop f e (e + 1 - b) b (b / f), ?_, ?_, ?_⟩
  · simp [calcRange]; omega
  · apply loop_heights f e hf
    · exact div_hi b f hf
    · exact Nat.le_refl _
  · intro r hr
    have hlo : b / f * f ≤ b := Nat.div_mul_le_self b f
    have hhi : b ≤ (b / f + 1) * f := div_hi b f hf
    have := loop_shape f e hf _ _ _ hlo hhi r hr
    omega

/-- the refused input: `begin > end` is an error and requests nothing -/
theorem C20_ranges_refuse (b e f : Nat) (h : e < b) : calcRange b e f = none := by
  simp [calcRange, h]

/-- **the synchronised stream**: with peers that answer, `SyncCFTBlocks(begin, end)` / `SyncBFTBlocks` hand on exactly the
blocks `begin, begin+1, …, end`, each once, in ascending order, followed by the end marker, and the answered requests are the
ranges of `C20_ranges_partition` -/
theorem C20_sync_stream_each_height_once (b e f : Nat) (hf : 0 < f) (hbe : b ≤ e) :
    ∃ rs, syncStream b e f = some (rs, (List.range' b (e + 1 - b)).map some ++ [none]) ∧ heights rs = List.range' b (e + 1 - b) := by
  obtain ⟨rs, h1, h2, _⟩ := C20_ranges_partition_holds b e f hf hbe
  exact ⟨rs, by simp [syncStream, h1, h2], h2⟩

/-- non-vacuity / shape witness (the `fetch+1` bound is tight: begin a multiple of fetch) -/
example : calcRange 10 23 5 = some [⟨10, 15⟩, ⟨16, 20⟩, ⟨21, 23⟩] := by decide

open Bxh.Order.Apply in
/-- **each height once, in order, across faults and restarts** (safety half): from a node whose minted queue
continues its ledger, whatever raft hands over (any entries: duplicates, replays, gaps, stale heights), whenever
snapshots are taken or installed (a follower catching up through the syncer while its executor lags), heights reported and the
process crashes and restarts, the executor is handed exactly the
heights `ledger+1, ledger+2, …` — consecutive, ascending, none twice -/
theorem C20_delivery_consecutive (n : Order.Node) (l0 : Nat) (ops : List Order.Apply.Op) (h : Good n l0) :
    let s := run { n := n, ledger := l0 } ops
    s.delivered = List.range' (l0 + 1) (s.ledger - l0) ∧ l0 ≤ s.ledger := by
  have := run_inv l0 ops { n := n, ledger := l0 } ⟨h, Nat.le_refl _, by simp⟩
  exact ⟨this.2.2, this.2.1⟩

/-- non-vacuity: entries for heights 1,2 arrive, one is executed, the node crashes before reporting, raft re-delivers
both, and the executor is still handed 2 next (1 is skipped as already executed) -/
example :
    let es : List Order.Entry := [⟨1, some 1⟩, ⟨2, some 2⟩]
    (Order.Apply.run { n := {}, ledger := 0 } [.ready es, .execute, .restart, .execute, .execute]).delivered = [1, 2] := by decide

/-- the recorded finding (known_findings.json, C20 snapshot ahead of execution) on the model: the other half of the
clause — "no entry that was not executed is skipped" — fails.  Entries for heights 1 and 2 are minted, a snapshot is
taken at the applied index before the executor took anything, the process restarts: raft re-delivers nothing, the
entry for height 3 is skipped for ever, the executor is handed nothing. -/
theorem C20_snapshot_ahead_skips_unexecuted :
    let es : List Order.Entry := [⟨1, some 1⟩, ⟨2, some 2⟩]
    let s := Order.Apply.run { n := {}, ledger := 0 } [.ready es, .snapshot, .restart, .ready [⟨3, some 3⟩], .execute, .execute]
    s.delivered = [] ∧ s.ledger = 0 := by decide

/-! ### the vote a replica granted survives its restarts

"Identical content on every replica" rests on raft electing at most one leader per term, which rests on every replica voting
at most once per term — also after a crash.  The storage side of that: the term and the vote handed to `RaftStorage.Store`
(with or without entries) are what a restarted node starts from. -/

/-- the vote the node's storage holds after a history: the vote of the last hard state stored with a Ready that carried
nothing else; entries, snapshots, reports, executions and restarts do not touch it -/
def lastVote (v0 : Nat) : List Order.Apply.Op → Nat
  | [] => v0
  | .hardState _ v _ :: rest => lastVote v rest
  | _ :: rest => lastVote v0 rest

open Bxh.Order.Apply in
theorem step_vote (s : Sys) (op : Op) :
    (step s op).n.hs.2.1 = match op with | .hardState _ v _ => v | _ => s.n.hs.2.1 := by
  have pub : ∀ (es : List Order.Entry) (m : Order.Node), (Order.publish m es).hs = m.hs := by
    intro es
    induction es with
    | nil => intro m; rfl
    | cons e rest ih =>
      intro m
      show (Order.publish (Order.publish1 m e) rest).hs = m.hs
      rw [ih]
      unfold Order.publish1
      split
      · rfl
      · split
        · rfl
        · split <;> rfl
  cases op with
  | ready es =>
    show (Order.ready s.n es).hs.2.1 = s.n.hs.2.1
    unfold Order.ready
    rw [pub]
    show (Order.storeHs s.n.hs _).2.1 = _
    unfold Order.storeHs
    split <;> rfl
  | snapshot => show (Order.snapshot s.n).hs.2.1 = _; unfold Order.snapshot; split <;> rfl
  | report h => show (Order.report s.n h).hs.2.1 = _; unfold Order.report; split <;> rfl
  | execute =>
    have ex : (Order.execute s.n).1.hs = s.n.hs := by
      unfold Order.execute; split <;> rfl
    simp only [step]
    generalize he : Order.execute s.n = r at ex
    obtain ⟨n', o⟩ := r
    cases o <;> simp only <;> rw [← ex]
  | restart =>
    show (Order.restart s.n s.ledger).1.hs.2.1 = _
    unfold Order.restart
    simp only
    rw [pub]
  | install idx height =>
    show (Order.installSnap s.n idx height s.ledger).hs.2.1 = _
    unfold Order.installSnap
    simp only [Order.storeHs]
    have key : ∀ (hs : List Nat) (m : Order.Node),
        (hs.foldl (fun (m : Order.Node) h => if h = m.lastExec + 1 then { m with queue := m.queue ++ [h], lastExec := h } else m) m).hs = m.hs := by
      intro hs
      induction hs with
      | nil => intro m; rfl
      | cons x rest ih => intro m; simp only [List.foldl_cons]; rw [ih]; split <;> rfl
    rw [key]
  | hardState t v c => rfl

open Bxh.Order.Apply in
/-- **over every history of Ready batches, snapshots taken and installed, reports, executions and crash-restarts, the vote in the
node's storage is the last vote it stored** — a restarted replica knows whom it voted for -/
theorem C20_vote_survives_history (ops : List Order.Apply.Op) (s : Order.Apply.Sys) :
    (run s ops).n.hs.2.1 = lastVote s.n.hs.2.1 ops := by
  unfold run
  induction ops generalizing s with
  | nil => rfl
  | cons op rest ih =>
    simp only [List.foldl_cons]
    rw [ih, step_vote]
    cases op <;> rfl

open Bxh.Order.Apply in
/-- the term is never lowered by anything but a stored hard state (entries and snapshots are stored under the term the replica is
in, at least 1) -/
theorem C20_restart_keeps_hard_state (n : Order.Node) (ledger : Nat) : (Order.restart n ledger).1.hs = n.hs := by
  have pub : ∀ (es : List Order.Entry) (m : Order.Node), (Order.publish m es).hs = m.hs := by
    intro es
    induction es with
    | nil => intro m; rfl
    | cons e rest ih =>
      intro m
      show (Order.publish (Order.publish1 m e) rest).hs = m.hs
      rw [ih]
      unfold Order.publish1
      split
      · rfl
      · split
        · rfl
        · split <;> rfl
  unfold Order.restart
  simp only
  rw [pub]

/-- non-vacuity: the replica grants its vote to 2 in term 3, crashes, restarts, stores entries: it still holds (3, 2) -/
example :
    (Order.Apply.run { n := {}, ledger := 0 } [.ready [⟨1, some 1⟩], .hardState 3 2 1, .restart, .ready [⟨2, some 2⟩]]).n.hs = (3, 2, 2) := by decide

end Bxh.Props.C20
