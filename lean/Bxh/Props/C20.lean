import Bxh.Proofs.SyncLemmas
/-!
# C20 — ordering delivers each height once, in order (property theorems)

Clause "Block synchronisation requests cover every missing height exactly once, in
ascending order" — about `Sync.calcRange` (model of `calcRangeHeight`).
-/
namespace Bxh.Props.C20
open Bxh.Sync

theorem div_hi (b f : Nat) (hf : 0 < f) : b ≤ (b / f + 1) * f := by
  have h1 := Nat.div_add_mod b f
  have h2 := Nat.mod_lt b hf
  have h3 : (b / f + 1) * f = f * (b / f) + f := by rw [Nat.succ_mul, Nat.mul_comm]
  omega

/-- Full-strength clause: for every `begin ≤ end` and every fetch size `> 0` the ranges
requested list exactly the heights `begin, begin+1, …, end`, each once, ascending; every range is
non-empty and asks for at most `fetch + 1` blocks. -/
def C20_ranges_partition : Prop :=
  ∀ (b e f : Nat), 0 < f → b ≤ e →
    ∃ rs, calcRange b e f = some rs ∧
      heights rs = List.range' b (e + 1 - b) ∧
      (∀ r ∈ rs, r.b ≤ r.e ∧ r.e ≤ e ∧ b ≤ r.b ∧ r.e + 1 - r.b ≤ f + 1)

theorem C20_ranges_partition_holds : C20_ranges_partition := by
  intro b e f hf hbe
  refine ⟨calcLoop f e (e + 1 - b) b (b / f), ?_, ?_, ?_⟩
  · simp [calcRange]; omega
  · apply loop_heights f e hf
    · exact div_hi b f hf
    · exact Nat.le_refl _
  · intro r hr
    have hlo : b / f * f ≤ b := Nat.div_mul_le_self b f
    have hhi : b ≤ (b / f + 1) * f := div_hi b f hf
    have := loop_shape f e hf _ _ _ hlo hhi r hr
    omega

/-- the refused input: `begin > end` is an error and requests nothing -/
theorem C20_ranges_refuse (b e f : Nat) (h : e < b) : calcRange b e f = none := by
  simp [calcRange, h]

/-- non-vacuity / shape witness (the `fetch+1` bound is tight: begin a multiple of fetch) -/
example : calcRange 10 23 5 = some [⟨10, 15⟩, ⟨16, 20⟩, ⟨21, 23⟩] := by decide

end Bxh.Props.C20
